(* Proofs/MacroMatch.v — C19: facts about the macro-by-example matcher and transcriber of Model/Macro.v
   on the pattern shapes the heads of toml_internal! use:
     $($x:tt)*  /  $($x:tt)+          takes all remaining tokens of its delimited sequence
     $($($k:tt)-+).+                  takes a dotted path of dashed segments, up to a token that is
                                      neither `-` nor `.`
   and the transcriptions  $($x)*  and  $($($k)-+).+  give the tokens back. *)
From TV Require Import Base.Prelude Model.Macro.

Lemma var_beq_refl : forall x, var_beq x x = true.
Proof. destruct x; reflexivity. Qed.
Lemma var_beq_true : forall x y, var_beq x y = true -> x = y.
Proof. exact internal_var_dec_bl. Qed.

(* a variable bound to a sequence of token trees *)
Definition tts_bnd (ts : list tt) : bnd := BSeq (List.map BTT ts).

Lemma seq_match_cons : forall m p ps ts,
  seq_match m (p :: ps) ts =
  match m p ts with
  | Some (e1, r) => match seq_match m ps r with Some (e2, r2) => Some (e1 ++ e2, r2) | None => None end
  | None => None
  end.
Proof. reflexivity. Qed.

Lemma seq_match_app : forall m ps1 ps2 ts,
  seq_match m (ps1 ++ ps2) ts =
  match seq_match m ps1 ts with
  | Some (e1, r) => match seq_match m ps2 r with Some (e2, r2) => Some (e1 ++ e2, r2) | None => None end
  | None => None
  end.
Proof.
  intros m ps1 ps2. induction ps1 as [|p ps1 IH]; intro ts.
  - cbn [app seq_match]. destruct (seq_match m ps2 ts) as [[e r]|]; reflexivity.
  - cbn [app]. rewrite !seq_match_cons. destruct (m p ts) as [[e1 r]|]; [|reflexivity].
    rewrite IH. destruct (seq_match m ps1 r) as [[e2 r2]|]; [|reflexivity].
    destruct (seq_match m ps2 r2) as [[e3 r3]|]; [|reflexivity]. rewrite app_assoc. reflexivity.
Qed.

(* ---- $($x:tt)* and $($x:tt)+ ---- *)
Lemma body_tt : forall x t r, seq_match match_pat [V x] (t :: r) = Some ([(x, BTT t)], r).
Proof. reflexivity. Qed.
Lemma body_tt_nil : forall x, seq_match match_pat [V x] [] = None.
Proof. reflexivity. Qed.

Lemma rep_loop_all : forall x ts fuel, List.length ts < fuel -> ts <> [] ->
  rep_loop (seq_match match_pat [V x]) None fuel ts = Some (List.map (fun t => [(x, BTT t)]) ts, []).
Proof.
  intros x. induction ts as [|t ts IH]; intros fuel Hf Hne; [contradiction|].
  destruct fuel as [|f]; [cbn in Hf; lia|]. cbn [rep_loop]. rewrite body_tt.
  destruct ts as [|t2 ts'].
  - destruct f as [|f']; reflexivity.
  - rewrite IH; [reflexivity|cbn [List.length] in *; lia|discriminate].
Qed.

Lemma lookup_singleton_map : forall x (ts : list tt),
  List.map (fun e : env => match lookup x e with Some b => b | None => BSeq [] end) (List.map (fun t => [(x, BTT t)]) ts)
  = List.map BTT ts.
Proof.
  intros. rewrite map_map. apply map_ext. intro t. cbn [lookup]. rewrite var_beq_refl. reflexivity.
Qed.

Lemma rep_env_single : forall x its,
  rep_env [x] its = [(x, BSeq (List.map (fun e : env => match lookup x e with Some b => b | None => BSeq [] end) its))].
Proof. reflexivity. Qed.
Lemma vars_single_tt : forall x, flat_map pat_vars [V x] = [x].
Proof. reflexivity. Qed.

Lemma match_star : forall x ts, match_pat (starP x) ts = Some ([(x, tts_bnd ts)], []).
Proof.
  intros x [|t ts]; [reflexivity|].
  unfold starP. cbn [match_pat]. rewrite body_tt.
  rewrite rep_loop_all; [|cbn [List.length]; lia|discriminate].
  rewrite vars_single_tt, rep_env_single, (lookup_singleton_map x (t :: ts)). reflexivity.
Qed.

Lemma match_plus : forall x ts, ts <> [] -> match_pat (plusP x) ts = Some ([(x, tts_bnd ts)], []).
Proof.
  intros x [|t ts] H; [contradiction|].
  unfold plusP. cbn [match_pat]. rewrite body_tt.
  rewrite rep_loop_all; [|cbn [List.length]; lia|discriminate].
  rewrite vars_single_tt, rep_env_single, (lookup_singleton_map x (t :: ts)). reflexivity.
Qed.

(* ---- $($($k:tt)-+).+ ---- *)
Definition dash_join (toks : list tt) : list tt := join_tts (Some c_minus) (List.map (fun t => [t]) toks).
Definition dot_join (segs : list (list tt)) : list tt := join_tts (Some c_dot) (List.map dash_join segs).

(* the next token is not the punctuation c *)
Definition not_head (c : byte) (R : list tt) : bool :=
  match R with TPunct c' :: _ => negb (byte_eqb c c') | _ => true end.

Lemma dash_join_cons2 : forall t t2 toks,
  dash_join (t :: t2 :: toks) = t :: TPunct c_minus :: dash_join (t2 :: toks).
Proof. reflexivity. Qed.
Lemma dot_join_cons2 : forall s s2 segs,
  dot_join (s :: s2 :: segs) = dash_join s ++ TPunct c_dot :: dot_join (s2 :: segs).
Proof. reflexivity. Qed.

Lemma dash_join_length : forall toks, List.length toks <= List.length (dash_join toks).
Proof.
  induction toks as [|t [|t2 toks] IH]; [cbn; lia|cbn; lia|].
  rewrite dash_join_cons2. cbn [List.length] in *. lia.
Qed.

Lemma dot_join_length : forall segs, Forall (fun s => s <> []) segs -> List.length segs <= List.length (dot_join segs).
Proof.
  induction segs as [|s [|s2 segs] IH]; intro H; [cbn; lia| |].
  - inversion H as [|? ? Hs _]; subst. unfold dot_join. cbn [List.map join_tts].
    pose proof (dash_join_length s). destruct s; [contradiction|]. cbn [List.length] in *. lia.
  - inversion H as [|? ? Hs Hr]; subst. rewrite dot_join_cons2, app_length. cbn [List.length] in *.
    specialize (IH Hr). lia.
Qed.

Lemma rep_loop_dash : forall x toks fuel R, toks <> [] -> List.length toks <= fuel -> not_head c_minus R = true ->
  rep_loop (seq_match match_pat [V x]) (Some c_minus) fuel (dash_join toks ++ R)
  = Some (List.map (fun t => [(x, BTT t)]) toks, R).
Proof.
  intros x. induction toks as [|t toks IH]; intros fuel R Hne Hf HR; [contradiction|].
  destruct fuel as [|f]; [cbn in Hf; lia|].
  destruct toks as [|t2 toks'].
  - cbn [dash_join List.map join_tts app rep_loop]. rewrite body_tt.
    destruct R as [|[s|l|c|d g] R']; try reflexivity.
    cbn [not_head] in HR. destruct (byte_eqb c_minus c); [discriminate|reflexivity].
  - rewrite dash_join_cons2. cbn [app rep_loop]. rewrite body_tt.
    change (byte_eqb c_minus c_minus) with true. cbv iota.
    rewrite IH; [reflexivity|discriminate|cbn [List.length] in *; lia|assumption].
Qed.

Lemma match_dashed : forall x toks R, toks <> [] -> not_head c_minus R = true ->
  match_pat (PRep [V x] (Some c_minus) true) (dash_join toks ++ R) = Some ([(x, tts_bnd toks)], R).
Proof.
  intros x toks R Hne HR. cbn [match_pat].
  destruct toks as [|t toks]; [contradiction|].
  assert (Hhd : exists r, dash_join (t :: toks) ++ R = t :: r).
  { destruct toks; [exists R; reflexivity|rewrite dash_join_cons2; eexists; reflexivity]. }
  destruct Hhd as [r Hr]. rewrite Hr at 1. rewrite body_tt.
  rewrite rep_loop_dash; [|discriminate| |assumption].
  - rewrite vars_single_tt, rep_env_single, (lookup_singleton_map x (t :: toks)). reflexivity.
  - rewrite app_length. pose proof (dash_join_length (t :: toks)). lia.
Qed.

Definition seg_pat (x : var) : pat := PRep [V x] (Some c_minus) true.

Lemma body_seg : forall x toks R, toks <> [] -> not_head c_minus R = true ->
  seq_match match_pat [seg_pat x] (dash_join toks ++ R) = Some ([(x, tts_bnd toks)], R).
Proof.
  intros. rewrite seq_match_cons. unfold seg_pat. rewrite match_dashed by assumption. reflexivity.
Qed.

Lemma rep_loop_dot : forall x segs fuel R, segs <> [] -> Forall (fun s => s <> []) segs -> List.length segs <= fuel ->
  not_head c_minus R = true -> not_head c_dot R = true ->
  rep_loop (seq_match match_pat [seg_pat x]) (Some c_dot) fuel (dot_join segs ++ R)
  = Some (List.map (fun toks => [(x, tts_bnd toks)]) segs, R).
Proof.
  intros x. induction segs as [|s segs IH]; intros fuel R Hne Hall Hf HR1 HR2; [contradiction|].
  inversion Hall as [|? ? Hs Hrest]; subst.
  destruct fuel as [|f]; [cbn in Hf; lia|].
  destruct segs as [|s2 segs'].
  - unfold dot_join. cbn [List.map join_tts rep_loop]. rewrite body_seg by assumption.
    destruct R as [|[i|l|c|d g] R']; try reflexivity.
    cbn [not_head] in HR2. destruct (byte_eqb c_dot c); [discriminate|reflexivity].
  - rewrite dot_join_cons2, <- app_assoc. cbn [app rep_loop].
    rewrite body_seg; [|assumption|reflexivity].
    change (byte_eqb c_dot c_dot) with true. cbv iota.
    rewrite IH; [reflexivity|discriminate|assumption|cbn [List.length] in *; lia|assumption|assumption].
Qed.

Definition key_bnd (segs : list (list tt)) : bnd := BSeq (List.map tts_bnd segs).

Lemma keyP_eq : forall x, keyP x = PRep [seg_pat x] (Some c_dot) true.
Proof. reflexivity. Qed.

Lemma match_key : forall x segs R, segs <> [] -> Forall (fun s => s <> []) segs ->
  not_head c_minus R = true -> not_head c_dot R = true ->
  match_pat (keyP x) (dot_join segs ++ R) = Some ([(x, key_bnd segs)], R).
Proof.
  intros x segs R Hne Hall HR1 HR2. rewrite keyP_eq. cbn [match_pat].
  assert (Hfirst : exists e r, seq_match match_pat [seg_pat x] (dot_join segs ++ R) = Some (e, r)).
  { destruct segs as [|s [|s2 segs']]; [contradiction| |]; inversion Hall as [|? ? Hs Hrest]; subst.
    - unfold dot_join. cbn [List.map join_tts]. rewrite body_seg by assumption. eauto.
    - rewrite dot_join_cons2, <- app_assoc. rewrite body_seg; [eauto|assumption|reflexivity]. }
  destruct Hfirst as [e0 [r0 H0]]. rewrite H0.
  rewrite rep_loop_dot; try assumption.
  - change (flat_map pat_vars [seg_pat x]) with [x]. rewrite rep_env_single. unfold key_bnd. do 5 f_equal.
    rewrite map_map. apply map_ext. intro toks. cbn [lookup]. rewrite var_beq_refl. reflexivity.
  - rewrite app_length. pose proof (dot_join_length segs Hall). lia.
Qed.

(* ---- transcription ---- *)
Lemma lookup_env_nth : forall x vars e i l, lookup x e = Some (BSeq l) -> var_mem x vars = true ->
  lookup x (env_nth vars e i) = Some (nth i l (BSeq [])).
Proof.
  intros x vars e i l. induction e as [|[y b] e IH]; intros H Hm; [discriminate|].
  cbn [lookup env_nth List.map] in *.
  destruct (var_beq x y) eqn:E.
  - apply var_beq_true in E. subst y. injection H as ->. rewrite Hm. cbn [lookup]. rewrite var_beq_refl. reflexivity.
  - fold (env_nth vars e i).
    destruct b as [t|l0]; [rewrite E; apply IH; assumption|].
    destruct (var_mem y vars); rewrite E; apply IH; assumption.
Qed.

Lemma map_nth_seq : forall {A} (l : list A) d, List.map (fun i => nth i l d) (seq 0 (List.length l)) = l.
Proof.
  intros A l d. induction l as [|a l IH]; [reflexivity|].
  cbn [List.length seq List.map nth]. f_equal. rewrite <- seq_shift, map_map. exact IH.
Qed.

Lemma join_singletons : forall (ts : list tt), join_tts None (List.map (fun t => [t]) ts) = ts.
Proof.
  induction ts as [|t [|t2 ts] IH]; [reflexivity|reflexivity|].
  cbn [List.map join_tts app] in *. f_equal. exact IH.
Qed.

Lemma var_mem_single : forall x, var_mem x [x] = true.
Proof. intro x. unfold var_mem. cbn [existsb]. rewrite var_beq_refl. reflexivity. Qed.

Lemma transcribe_rep_tt : forall x e ts sep, lookup x e = Some (tts_bnd ts) ->
  transcribe (QRep [QVar x] sep) e = join_tts sep (List.map (fun t => [t]) ts).
Proof.
  intros x e ts sep H. cbn [transcribe flat_map tpl_vars app rep_len]. rewrite H. unfold tts_bnd at 1.
  f_equal.
  rewrite (map_ext _ (fun i => match nth i (List.map BTT ts) (BSeq []) with BTT t => [t] | BSeq _ => [] end)).
  2:{ intro i. rewrite app_nil_r. rewrite (lookup_env_nth x [x] e i (List.map BTT ts) H (var_mem_single x)). reflexivity. }
  rewrite <- (map_map (fun i => nth i (List.map BTT ts) (BSeq [])) (fun b => match b with BTT t => [t] | BSeq _ => [] end)).
  rewrite map_nth_seq. rewrite map_map. reflexivity.
Qed.

Lemma transcribe_star : forall x e ts, lookup x e = Some (tts_bnd ts) -> transcribe (starQ x) e = ts.
Proof. intros. unfold starQ. rewrite (transcribe_rep_tt x e ts None H). apply join_singletons. Qed.

Lemma transcribe_key : forall x e segs, lookup x e = Some (key_bnd segs) -> transcribe (keyQ x) e = dot_join segs.
Proof.
  intros x e segs H. unfold keyQ. cbn [transcribe flat_map tpl_vars app rep_len]. rewrite H. unfold key_bnd at 1.
  unfold dot_join. f_equal. rewrite map_length.
  rewrite (map_ext _ (fun i => dash_join (nth i segs []))).
  2:{ intro i. rewrite app_nil_r.
      apply transcribe_rep_tt.
      rewrite (lookup_env_nth x [x] e i (List.map tts_bnd segs) H (var_mem_single x)).
      change (BSeq []) with (tts_bnd []). rewrite map_nth. reflexivity. }
  rewrite <- (map_map (fun i => nth i segs []) dash_join). rewrite map_nth_seq. reflexivity.
Qed.

(* ---- reading bindings back (what `invoke` does with an environment) ---- *)
Lemma bnd_tts_tts : forall ts, bnd_tts (tts_bnd ts) = ts.
Proof.
  intro ts. unfold bnd_tts, tts_bnd. induction ts as [|t ts IH]; [reflexivity|].
  cbn [List.map flat_map app]. f_equal. exact IH.
Qed.

Lemma env_tts_lookup : forall x e ts, lookup x e = Some (tts_bnd ts) -> env_tts x e = ts.
Proof. intros x e ts H. unfold env_tts. rewrite H. apply bnd_tts_tts. Qed.

Lemma env_segs_lookup : forall x e segs, lookup x e = Some (key_bnd segs) -> env_segs x e = segs.
Proof.
  intros x e segs H. unfold env_segs. rewrite H. unfold key_bnd. rewrite map_map.
  rewrite (map_ext _ (fun s => s)); [apply map_id|]. intro s. apply bnd_tts_tts.
Qed.

Lemma env_tt_lookup : forall x e t, lookup x e = Some (BTT t) -> env_tt x e = EOk t.
Proof. intros x e t H. unfold env_tt. rewrite H. reflexivity. Qed.

(* ---- first_match over an appended rule list ---- *)
Lemma first_match_app : forall rs1 rs2 input,
  first_match (rs1 ++ rs2) input =
  match first_match rs1 input with Some x => Some x | None => first_match rs2 input end.
Proof.
  induction rs1 as [|r rs1 IH]; intros rs2 input; [reflexivity|].
  cbn [app first_match]. destruct (match_rule r input); [reflexivity|apply IH].
Qed.
