(* Proofs/DeLocTop.v — the statements of the serde half of C15 about Model/DeLoc.v, assembled from
   DeLocSpan / DeLocKeys / DeLocRefine, and the witnesses of what does NOT hold. *)
From TV Require Import Base.Prelude Base.Utf8 Model.Datetime Model.DatetimeStd Model.SerNum Spec.SerdeData Model.De Model.SerdeSpanned.
From TV Require Import Model.DeLoc Proofs.DeLocBase Proofs.DeLocKeys Proofs.DeLocSpan Proofs.DeLocRefine.
From TV Require Import Extract.Show.
Require Import String.

(* with source text: the error carries the span of the node (or key) it was raised at; the one
   exception is the kind check of a Date / Time that is the very node de_loc was called on (nobody handed
   it out, so nobody attached its span) *)
Lemma de_located c t s e :
  opt_overwrite c = false -> all_spans s = true -> de_loc c t s = LErr e -> e_kind e <> KUnmodelled ->
  (exists sp, e_span e = Some sp /\ locate s (e_at e) (e_onkey e) = Some (Some sp)) \/
  (e_kind e = KDtKind /\ e_at e = [] /\ e_span e = None).
Proof. apply span_with_text. Qed.

Lemma de_located_handed_out c t s e :
  opt_overwrite c = false -> all_spans s = true -> wrap (span_of s) (de_loc c t s) = LErr e -> e_kind e <> KUnmodelled ->
  exists sp, e_span e = Some sp /\ locate s (e_at e) (e_onkey e) = Some (Some sp).
Proof. apply span_handed_out. Qed.

(* without: no span, and the key path lists the keys next_value_seed went through *)
Lemma de_keypath c t s e :
  de_loc c t (despan s) = LErr e -> e_span e = None /\ e_keys e = added_keys (e_at e) (e_onkey e).
Proof. apply keys_without_text. Qed.

(* which is the path to the offending node unless the path goes below an enum variant *)
Lemma de_keypath_ideal c t s e :
  de_loc c t (despan s) = LErr e -> below_variant (e_at e) = false -> e_onkey e = false ->
  e_keys e = ideal_keys (e_at e).
Proof.
  intros E B O. destruct (keys_without_text c t s e E) as [_ K]. rewrite K. apply added_ideal; assumption.
Qed.

(* the same holds on any tree, with or without spans *)
Lemma de_keypath_any c t s e :
  de_loc c t s = LErr e -> e_keys e = added_keys (e_at e) (e_onkey e).
Proof. intro E. pose proof (K_de_loc c t s) as H. rewrite E in H. exact (proj1 H). Qed.

(* ---- witnesses ---- *)
Definition S' (s : string) : bytes := str s.
Definition i64' := TInt TI64.
Definition t_e2 : ty := TEnum (S' "E2") [(S' "N", VNewtype i64'); (S' "S", VStruct [(S' "x", i64')]); (S' "U", VUnit)].
Definition t_senum2 : ty := TStruct (S' "SEnum2") [(S' "e", t_e2)].

(* e = { N = "x" }  (spans as toml_edit records them for this text) *)
Definition w_enum : stree :=
  NTab (Some (0, 16)%N)
       [(S' "e", Some (0, 1)%N,
         NTab (Some (4, 15)%N) [(S' "N", Some (6, 7)%N, NLeaf (Some (10, 13)%N) (VStr (S' "x")))])].

(* known finding C15-de-keypath-omits-enum-variant: the key path is `e`, the offending value sits at e.N *)
Lemma keypath_refuted :
  exists t s e, de_loc cfg0 t (despan s) = LErr e /\ e_kind e = KWrongType /\
                e_keys e = [S' "e"] /\ ideal_keys (e_at e) = [S' "e"; S' "N"].
Proof. exists t_senum2, w_enum. eexists. vm_compute. repeat split. Qed.

(* ... while with the text the span is that of the offending value "x" *)
Lemma enum_span_ok :
  exists e, de_loc cfg0 t_senum2 w_enum = LErr e /\ e_span e = Some (10, 13)%N.
Proof. eexists. vm_compute. split; reflexivity. Qed.

(* v = [1979-05-27, 1979-05-27T07:32:00Z] read as Vec<toml_datetime::Date>: the kind mismatch of the
   second element now carries that element's span (ArraySeqAccess::next_element_seed attaches it; before
   the repair it was the span of the whole array, 4..38) *)
Definition d_date : date := mkDate 1979 5 27.
Definition dt_local_date : datetime := mkDT (Some d_date) None None.
Definition dt_offset : datetime := mkDT (Some d_date) (Some (mkTime 7 32 0 0)) (Some OffZ).
Definition w_dates : stree :=
  NTab (Some (0, 39)%N)
       [(S' "v", Some (0, 1)%N,
         NArr (Some (4, 38)%N) [NLeaf (Some (5, 15)%N) (VDatetime dt_local_date); NLeaf (Some (17, 37)%N) (VDatetime dt_offset)])].
Definition t_vdate : ty := TStruct (S' "VD") [(S' "v", TSeq (TDatetime KDate))].

Lemma date_kind_located :
  exists e, all_spans w_dates = true /\ de_loc cfg0 t_vdate w_dates = LErr e /\ e_kind e = KDtKind /\
            locate w_dates (e_at e) (e_onkey e) = Some (Some (17, 37)%N) /\ e_span e = Some (17, 37)%N.
Proof. eexists. vm_compute. repeat split. Qed.

(* e = { N = 07:32:00 } read as N(Date): the payload's span (newtype_variant_seed attaches it) *)
Definition t_e3n : ty := TStruct (S' "SE3") [(S' "e", TEnum (S' "E3") [(S' "N", VNewtype (TDatetime KDate))])].
Definition w_e3n : stree :=
  NTab (Some (0, 21)%N)
       [(S' "e", Some (0, 1)%N,
         NTab (Some (4, 20)%N) [(S' "N", Some (6, 7)%N, NLeaf (Some (10, 18)%N) (VDatetime (mkDT None (Some (mkTime 7 32 0 0)) None)))])].
Lemma date_kind_variant_located :
  exists e, de_loc cfg0 t_e3n w_e3n = LErr e /\ e_kind e = KDtKind /\ e_span e = Some (10, 18)%N.
Proof. eexists. vm_compute. repeat split. Qed.

(* the remaining corner: a Date that is itself the node handed to de_loc has nobody to attach its span *)
Lemma date_kind_root :
  exists e, de_loc cfg0 (TDatetime KDate) (NLeaf (Some (0, 20)%N) (VDatetime dt_offset)) = LErr e /\
            e_kind e = KDtKind /\ e_at e = [] /\ e_span e = None.
Proof. eexists. vm_compute. repeat split. Qed.

(* the seeded change "deserialize_option sets the span unconditionally": t = { b = "x", c = "y" } read as
   Option<Inner> — the plumbing of the repository points at "x", the mutated one at the whole table *)
Definition t_inner : ty := TStruct (S' "Inner") [(S' "b", i64'); (S' "c", TStr)].
Definition t_optnested : ty := TStruct (S' "SOptNested") [(S' "t", TOpt t_inner)].
Definition w_opt : stree :=
  NTab (Some (0, 26)%N)
       [(S' "t", Some (0, 1)%N,
         NTab (Some (4, 25)%N) [(S' "b", Some (6, 7)%N, NLeaf (Some (10, 13)%N) (VStr (S' "x")));
                                (S' "c", Some (15, 16)%N, NLeaf (Some (19, 22)%N) (VStr (S' "y")))])].
Lemma option_seed_noticed :
  (exists e, de_loc cfg0 t_optnested w_opt = LErr e /\ e_span e = Some (10, 13)%N /\
             locate w_opt (e_at e) (e_onkey e) = Some (Some (10, 13)%N)) /\
  (exists e, de_loc (mkCfg (fun _ => false) true) t_optnested w_opt = LErr e /\ e_span e = Some (4, 25)%N /\
             locate w_opt (e_at e) (e_onkey e) = Some (Some (10, 13)%N)).
Proof. split; eexists; vm_compute; repeat split. Qed.

(* a missing field: the span of the table that lacks it; the key path of that table *)
Definition t_outer : ty := TStruct (S' "Outer") [(S' "t", t_inner)].
Definition w_missing : stree :=
  NTab (Some (0, 14)%N)
       [(S' "t", Some (0, 1)%N, NTab (Some (4, 13)%N) [(S' "b", Some (6, 7)%N, NLeaf (Some (10, 11)%N) (VInt 1))])].
Lemma missing_field_example :
  (exists e, de_loc cfg0 t_outer w_missing = LErr e /\ e_kind e = KMissing (S' "c") /\ e_span e = Some (4, 13)%N) /\
  (exists e, de_loc cfg0 t_outer (despan w_missing) = LErr e /\ e_span e = None /\ e_keys e = [S' "t"]).
Proof. split; eexists; vm_compute; repeat split. Qed.

(* deny_unknown_fields: the span of the unknown KEY, the key path of the table *)
Definition t_sdeny : ty := TStruct (S' "SDeny") [(S' "a", i64')].
Definition w_deny : stree :=
  NTab (Some (0, 13)%N)
       [(S' "a", Some (0, 1)%N, NLeaf (Some (4, 5)%N) (VInt 1)); (S' "zz", Some (6, 8)%N, NLeaf (Some (11, 12)%N) (VInt 2))].
Lemma deny_example :
  exists e, de_loc (mkCfg (fun n => bytes_eqb n (S' "SDeny")) false) t_sdeny w_deny = LErr e /\
            e_kind e = KUnknownField /\ e_span e = Some (6, 8)%N /\ e_onkey e = true /\ e_keys e = [].
Proof. eexists. vm_compute. repeat split. Qed.
