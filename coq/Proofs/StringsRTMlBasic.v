(* Proofs/StringsRTMlBasic.v — multi-line basic strings are read back exactly: the writer lets
   at most two consecutive quotation marks through and escapes the third (restarting its count);
   the parser takes quote runs of one or two with `mlb_quotes`, up to two more in front of the
   closing delimiter. *)
From TV Require Import Base.Prelude Base.Utf8 Base.Winnow Gen.Consts.
From TV Require Import Model.Trivia Model.Strings Model.Write.
From TV Require Import Proofs.StringsRTDefs Proofs.StringsRTBase Proofs.StringsRTWrite Proofs.StringsRTEsc.
From TV Require Import Proofs.StringsRTQuotes Proofs.StringsRTMlLit.
Require Import Lia ZifyBool ZifyN ZifyNat.

Lemma quote_ascii : (b2n x22 <= 127)%N.
Proof. vm_compute. discriminate. Qed.

(* ---- mlb_content is a content parser ------------------------------------------------------------ *)
Lemma mlb_content_plain c X p d : c <> [] -> forallb plain c = true -> utf8_valid_b c = true -> hstop X ->
  mlb_content (mkIn (c ++ X) p d) = Ok c (after c X p d).
Proof.
  intros Hne Hc Hu HX. unfold mlb_content. apply alt_ok. unfold from_utf8, try_map, take_while1.
  rewrite take_while_yes.
  - rewrite Hu. reflexivity.
  - apply (forallb_impl plain); [apply plain_mlb|exact Hc].
  - apply hstop_mlb. exact HX.
  - destruct c; [congruence|cbn; lia].
Qed.

Lemma newline_bt c X p d : byte_eqb c x0a = false -> byte_eqb c x0d = false ->
  newline (mkIn (c :: X) p d) = Bt err0 (mkIn X (p + 1)%N d).
Proof.
  intros H1 H2. unfold newline. rewrite (bind_ok _ _ _ _ _ (any_cons c X p d)). rewrite H1, H2. reflexivity.
Qed.

(* after a backslash followed by an escape letter, the line-continuation alternative backtracks *)
Lemma mlb_escaped_nl_bt c X p d : esc_letter c ->
  exists e i', mlb_escaped_nl (mkIn (x5c :: c :: X) p d) = Bt e i'.
Proof.
  intros [H1 [H2 H3]]. unfold mlb_escaped_nl, pvoid, pmap, repeat1, ESCAPE.
  rewrite (bind_ok _ _ _ _ _ (byte_yes x5c (c :: X) p d)).
  rewrite (bind_ok _ _ _ _ _ (ws_none (c :: X) (p + 1) d H1)).
  unfold ws_newlines.
  rewrite (bind_bt _ _ _ _ _ (newline_bt c X (p + 1) d H2 H3)). eauto.
Qed.

Lemma mlb_content_backslash c X p d a i' : esc_letter c ->
  escaped (mkIn (x5c :: c :: X) p d) = Ok a i' ->
  mlb_content (mkIn (x5c :: c :: X) p d) = Ok a i'.
Proof.
  intros Hc He. unfold mlb_content.
  rewrite (alt_bt _ _ _ err0 (mkIn (x5c :: c :: X) p d)).
  2:{ unfold from_utf8, try_map. rewrite take_while1_no; [reflexivity|]. reflexivity. }
  destruct (mlb_escaped_nl_bt c X p d Hc) as [e [i1 H1]].
  rewrite (alt_bt _ _ _ e i1).
  2:{ unfold pvalue. apply pmap_bt. exact H1. }
  apply alt_ok. exact He.
Qed.

Lemma mlb_content_simple c v X p d : assoc_byte ESCAPE_SIMPLE c = Some v -> esc_letter c ->
  mlb_content (mkIn (x5c :: c :: X) p d) = Ok (utf8_encode v) (after [x5c; c] X p d).
Proof. intros H Hc. apply mlb_content_backslash; [exact Hc|]. apply escaped_simple. exact H. Qed.

Lemma mlb_content_hex b X p d : is_ctrl b = true ->
  mlb_content (mkIn (u_escape b ++ X) p d) = Ok [b] (after (u_escape b) X p d).
Proof.
  intro H. pose proof (escaped_hex b X p d H) as He. unfold u_escape in *. cbn [app] in *.
  apply mlb_content_backslash; [|exact He]. vm_compute. auto.
Qed.

Lemma mlb_content_lf X p d : mlb_content (mkIn (x0a :: X) p d) = Ok [x0a] (after [x0a] X p d).
Proof. reflexivity. Qed.

Lemma mlb_content_quote X p d : exists e i', mlb_content (mkIn (x22 :: X) p d) = Bt e i'.
Proof. do 2 eexists. reflexivity. Qed.

Definition mlb_step := content_step true mlb_content mlb_content_plain mlb_content_simple mlb_content_hex
                         (fun _ => mlb_content_lf).
Definition mlb_run := content_run true mlb_content mlb_content_plain mlb_content_simple mlb_content_hex
                        (fun _ => mlb_content_lf).

(* ---- shape of the multi-line encoding ------------------------------------------------------------ *)
Definition notq (b : byte) : bool := negb (byte_eqb b x22).
Definition DQ (r : bytes) : bytes := x22 :: x22 :: x22 :: r.
Definition qstop (X : bytes) : Prop :=
  match X with [] => True | b :: _ => byte_eqb b x22 = true end.

(* a byte other than the quotation mark is written the same way whatever precedes it, and what
   is written does not start with a quotation mark *)
Lemma enc_cons_other is_ml b : byte_eqb b x22 = false ->
  exists h pre, byte_eqb x22 h = false /\
    forall seq r, enc is_ml seq (b :: r) = (h :: pre) ++ enc is_ml 0 r.
Proof.
  intro H.
  destruct (short_escape is_ml b) as [c|] eqn:Es.
  { exists x5c, [c]. split; [reflexivity|]. intros. cbn [enc]. rewrite H, Es. reflexivity. }
  destruct (byte_eqb b x0a) eqn:E0a.
  { exists x0a, []. split; [reflexivity|]. intros. cbn [enc]. rewrite H, Es, E0a. reflexivity. }
  destruct (is_ctrl b) eqn:Ec.
  { destruct (u_escape_shape b) as [h1 [h2 Hu]].
    exists x5c, [x75; x30; x30; h1; h2]. split; [reflexivity|]. intros. cbn [enc]. rewrite H, Es, E0a, Ec, Hu. reflexivity. }
  exists b, []. split; [rewrite byte_eqb_sym; exact H|]. intros. cbn [enc]. rewrite H, Es, E0a, Ec. reflexivity.
Qed.

Lemma enc_app_notq is_ml : forall c seq s, forallb notq c = true -> c <> [] ->
  enc is_ml seq (c ++ s) = enc is_ml seq c ++ enc is_ml 0 s.
Proof.
  induction c as [|b c IH]; intros seq s Hc Hne; [congruence|].
  cbn [forallb] in Hc. apply andb_true_iff in Hc as [Hb Hc].
  assert (E : byte_eqb b x22 = false) by (unfold notq in Hb; destruct (byte_eqb b x22); [discriminate|reflexivity]).
  destruct (enc_cons_other is_ml b E) as [h [pre [_ He]]].
  cbn [app]. rewrite !He. rewrite <- app_assoc. f_equal.
  destruct c as [|b' c']; [reflexivity|]. apply IH; [exact Hc|discriminate].
Qed.

Lemma enc_app_notq0 is_ml c s : forallb notq c = true ->
  enc is_ml 0 (c ++ s) = enc is_ml 0 c ++ enc is_ml 0 s.
Proof. intro H. destruct c as [|b c]; [reflexivity|]. apply enc_app_notq; [exact H|discriminate]. Qed.

(* what follows a content run: a quotation mark of the string (written unescaped) or the delimiter *)
Lemma enc_qstop_head s r : qstop s -> exists Z, enc true 0 s ++ DQ r = x22 :: Z.
Proof.
  intro H. destruct s as [|b s]; [unfold DQ; cbn; eauto|].
  cbn in H. apply byte_eqb_eq in H. subst b. cbn [enc]. beq_compute. change ((2 <? 0 + 1)%N) with false.
  cbv iota. cbn [app]. eauto.
Qed.

Lemma split_notq s : exists c s', s = c ++ s' /\ forallb notq c = true /\ qstop s'.
Proof.
  destruct (span_while_split notq s) as [c [s' [H1 [H2 H3]]]]. exists c, s'. repeat split; auto.
  destruct s' as [|x s']; [exact I|]. cbn in *. unfold notq in H3. destruct (byte_eqb x x22); [reflexivity|discriminate].
Qed.

(* a run of content up to the next quotation mark of the string or the closing delimiter *)
Lemma mlb_chunks s r acc p d fuel : utf8_valid_b s = true ->
  length (enc true 0 s ++ DQ r) < fuel ->
  exists c s', s = c ++ s' /\ qstop s' /\ utf8_valid_b s' = true /\
    enc true 0 s = enc true 0 c ++ enc true 0 s' /\
    chunks_f fuel mlb_content acc (mkIn (enc true 0 s ++ DQ r) p d)
    = Ok (acc ++ c) (after (enc true 0 c) (enc true 0 s' ++ DQ r) p d).
Proof.
  intros Hu Hf. destruct (split_notq s) as [c [s' [Hs [Hc Hs']]]].
  assert (Hcut : utf8_valid_b c = true /\ utf8_valid_b s' = true).
  { apply utf8_cut; [|rewrite <- Hs; exact Hu]. destruct s' as [|x s']; [exact I|].
    cbn in Hs'. apply byte_eqb_eq in Hs'. subst x. reflexivity. }
  assert (Henc : enc true 0 s = enc true 0 c ++ enc true 0 s').
  { rewrite Hs. apply enc_app_notq0. exact Hc. }
  exists c, s'. repeat split; try tauto.
  destruct (enc_qstop_head s' r Hs') as [Z HZ].
  rewrite Henc, <- app_assoc. rewrite HZ.
  apply (mlb_run (length c)); auto.
  - tauto.
  - cbn. auto.
  - intros. apply mlb_content_quote.
  - rewrite <- HZ. rewrite Henc, <- app_assoc in Hf. exact Hf.
Qed.

(* ---- the quote loop and the closing quotes -------------------------------------------------------- *)
Definition Btail (fuel : nat) (acc : bytes) : parser bytes :=
  c2 <- mlb_quote_loop fuel acc ;;
  q <- opt (quotes2 x22 (t_delim x22)) ;;
  ret (c2 ++ match q with Some qi => qi | None => [] end).

Lemma mlb_loop_unfold f acc i :
  mlb_quote_loop (S f) acc i =
  match opt (quotes2 x22 (t_other x22)) i with
  | Ok (Some qi) i1 =>
    match opt mlb_content i1 with
    | Ok (Some ci) i2 =>
      match chunks mlb_content i2 with
      | Ok more i3 => mlb_quote_loop f (acc ++ qi ++ ci ++ more) i3
      | Bt e i' => Bt e i'
      | Cut e i' => Cut e i'
      | Panic s => Panic s
      end
    | Ok None i2 => Ok acc i2
    | Bt e i' => Bt e i'
    | Cut e i' => Cut e i'
    | Panic s => Panic s
    end
  | Ok None i1 => Ok acc i1
  | Bt e i' => Bt e i'
  | Cut e i' => Cut e i'
  | Panic s => Panic s
  end.
Proof. reflexivity. Qed.

Lemma mlb_end s acc fuel r p d : s = [] \/ s = [x22] \/ s = [x22; x22] -> not_head x22 r -> 0 < fuel ->
  Btail fuel acc (mkIn (s ++ DQ r) p d) = Ok (acc ++ s) (after s (DQ r) p d).
Proof.
  intros Hs Hr Hf. destruct fuel as [|f]; [lia|]. unfold Btail.
  assert (HQ : exists e i', quotes2 x22 (t_other x22) (mkIn (s ++ DQ r) p d) = Bt e i').
  { destruct Hs as [-> | [-> | ->]]; apply quotes2_other_qqq. }
  destruct HQ as [e [i' HQ]].
  assert (HL : mlb_quote_loop (S f) acc (mkIn (s ++ DQ r) p d) = Ok acc (mkIn (s ++ DQ r) p d)).
  { rewrite mlb_loop_unfold. rewrite (opt_bt _ _ _ _ HQ). reflexivity. }
  rewrite (bind_ok _ _ _ _ _ HL).
  destruct Hs as [-> | [-> | ->]]; cbn [app]; unfold DQ.
  - destruct (quotes2_delim_0 x22 r p d Hr) as [e1 [i1 H1]].
    rewrite (bind_ok _ _ _ _ _ (opt_bt _ _ _ _ H1)). unfold ret. rewrite after_nil. reflexivity.
  - rewrite (bind_ok _ _ _ _ _ (opt_ok _ _ _ _ (quotes2_delim_1 x22 quote_ascii r p d Hr))). reflexivity.
  - rewrite (bind_ok _ _ _ _ _ (opt_ok _ _ _ _ (quotes2_delim_2 x22 quote_ascii r p d))). reflexivity.
Qed.

Lemma hstop_DQ r : hstop (DQ r).
Proof. cbn. auto. Qed.

(* one turn of the quote loop: one or two quotation marks, a first piece of content, then the rest
   of the content run *)
Lemma mlb_iter f acc qs h e1' c1 s1 r p d :
  qs = [x22] \/ qs = [x22; x22] -> byte_eqb x22 h = false ->
  (forall T p' d', hstop T ->
     mlb_content (mkIn ((h :: e1') ++ enc true 0 s1 ++ T) p' d')
     = Ok c1 (after (h :: e1') (enc true 0 s1 ++ T) p' d')) ->
  utf8_valid_b s1 = true ->
  exists c' s3, s1 = c' ++ s3 /\ qstop s3 /\ utf8_valid_b s3 = true /\
    enc true 0 s1 = enc true 0 c' ++ enc true 0 s3 /\
    mlb_quote_loop (S f) acc (mkIn (qs ++ (h :: e1') ++ enc true 0 s1 ++ DQ r) p d)
    = mlb_quote_loop f (acc ++ qs ++ c1 ++ c')
        (mkIn (enc true 0 s3 ++ DQ r) (p + N.of_nat (length (qs ++ (h :: e1') ++ enc true 0 c')))%N d).
Proof.
  intros Hqs Hh HP Hu.
  set (p1 := (p + N.of_nat (length qs))%N).
  set (p2 := (p1 + N.of_nat (length (h :: e1')))%N).
  destruct (mlb_chunks s1 r [] p2 d (S (length (enc true 0 s1 ++ DQ r))) Hu) as [c' [s3 [Hs1 [Hq3 [Hu3 [Henc Hch]]]]]]; [lia|].
  exists c', s3. repeat split; auto.
  rewrite mlb_loop_unfold.
  assert (Hq : quotes2 x22 (t_other x22) (mkIn (qs ++ (h :: e1') ++ enc true 0 s1 ++ DQ r) p d)
               = Ok qs (mkIn ((h :: e1') ++ enc true 0 s1 ++ DQ r) p1 d)).
  { destruct Hqs as [-> | ->]; cbn [app].
    - apply (quotes2_other_1 x22 quote_ascii h _ p d Hh).
    - apply (quotes2_other_2 x22 quote_ascii h _ p d Hh). }
  rewrite (opt_ok _ _ _ _ Hq).
  rewrite (opt_ok _ _ _ _ (HP (DQ r) p1 d (hstop_DQ r))).
  unfold chunks, after. cbn [rest]. fold p2. rewrite Hch. cbn [app].
  f_equal. unfold after. apply mkIn_eq; [reflexivity|]. unfold p2, p1.
  repeat (rewrite ?app_length; cbn [length]). lia.
Qed.

Lemma enc_q0 s : enc true 0 (x22 :: s) = x22 :: enc true 1 s.
Proof. reflexivity. Qed.
Lemma enc_q1 s : enc true 1 (x22 :: s) = x22 :: enc true 2 s.
Proof. reflexivity. Qed.
Lemma enc_q2 s : enc true 2 (x22 :: s) = x5c :: x22 :: enc true 0 s.
Proof. reflexivity. Qed.
Lemma enc_seq_other k b s : byte_eqb b x22 = false -> enc true k (b :: s) = enc true 0 (b :: s).
Proof. intro H. destruct (enc_cons_other true b H) as [h [pre [_ He]]]. rewrite !He. reflexivity. Qed.

(* the situation after one or two unescaped quotation marks of the string *)
Lemma mlb_after_quotes k s1 : (k = 1 \/ k = 2)%N -> s1 <> [] -> utf8_valid_b s1 = true ->
  (k = 1%N -> match s1 with b :: _ => byte_eqb b x22 = false | [] => True end) ->
  exists h e1' c1 s2,
    byte_eqb x22 h = false /\ s1 = c1 ++ s2 /\ length s2 < length s1 /\ utf8_valid_b s2 = true /\
    enc true k s1 = (h :: e1') ++ enc true 0 s2 /\
    (forall T p' d', hstop T ->
       mlb_content (mkIn ((h :: e1') ++ enc true 0 s2 ++ T) p' d')
       = Ok c1 (after (h :: e1') (enc true 0 s2 ++ T) p' d')).
Proof.
  intros Hk Hne Hu H1. destruct s1 as [|b s0]; [congruence|].
  destruct (byte_eqb b x22) eqn:E.
  - (* a third quotation mark: written escaped *)
    destruct Hk as [-> | ->]; [specialize (H1 eq_refl); congruence|].
    apply byte_eqb_eq in E. subst b.
    exists x5c, [x22], [x22], s0.
    split; [reflexivity|]. split; [reflexivity|]. split; [cbn [length]; lia|].
    split; [rewrite utf8_cons_ascii in Hu by apply quote_ascii; exact Hu|].
    split; [reflexivity|].
    intros T p' d' HT. cbn [app].
    destruct quote_escape_spec as [Q1 [Q2 Q3]].
    rewrite (mlb_content_simple x22 _ _ p' d' Q1 Q3), Q2. reflexivity.
  - destruct (enc_cons_other true b E) as [h [pre [Hh He]]].
    assert (Hb : true = true -> byte_eqb b x22 = false) by (intros _; exact E).
    destruct (mlb_step b s0 Hu Hb) as [c1 [s2 [e1 [Hs [Hl [Hne1 [Henc [Hu2 HP]]]]]]]].
    destruct e1 as [|h' e1']; [congruence|].
    assert (Hhh : h' = h).
    { rewrite (He 0%N s0) in Henc. cbn [app] in Henc. injection Henc as Hx _. congruence. }
    subst h'.
    exists h, e1', c1, s2.
    split; [exact Hh|]. split; [exact Hs|]. split; [exact Hl|]. split; [exact Hu2|].
    split; [rewrite enc_seq_other by exact E; exact Henc|].
    intros T p' d' HT. rewrite <- (HP T p' d' HT). rewrite Henc, <- app_assoc. reflexivity.
Qed.

Lemma Btail_step f acc i acc' i' :
  mlb_quote_loop (S f) acc i = mlb_quote_loop f acc' i' -> Btail (S f) acc i = Btail f acc' i'.
Proof. intro H. unfold Btail, bind. rewrite H. reflexivity. Qed.

(* a string that starts with a quotation mark: its first one or two marks are written as they are *)
Lemma qstop_cases s : qstop s ->
  s = [] \/ s = [x22] \/ s = [x22; x22] \/
  exists k qs s1, (k = 1%N /\ qs = [x22] \/ k = 2%N /\ qs = [x22; x22]) /\ s = qs ++ s1 /\ s1 <> [] /\
    (k = 1%N -> match s1 with b :: _ => byte_eqb b x22 = false | [] => True end) /\
    enc true 0 s = qs ++ enc true k s1.
Proof.
  intro H. destruct s as [|b0 s1]; [auto|]. cbn in H. apply byte_eqb_eq in H. subst b0.
  destruct s1 as [|b1 s2]; [auto|].
  destruct (byte_eqb b1 x22) eqn:E1.
  - apply byte_eqb_eq in E1. subst b1. destruct s2 as [|b2 s3]; [auto|].
    right; right; right. exists 2%N, [x22; x22], (b2 :: s3).
    split; [auto|]. split; [reflexivity|]. split; [discriminate|]. split; [intro; discriminate|].
    rewrite enc_q0, enc_q1. reflexivity.
  - right; right; right. exists 1%N, [x22], (b1 :: s2).
    split; [auto|]. split; [reflexivity|]. split; [discriminate|]. split; [intros _; exact E1|].
    rewrite enc_q0. reflexivity.
Qed.

Lemma mlb_tail : forall n s acc fuel r p d,
  length s <= n -> qstop s -> utf8_valid_b s = true -> not_head x22 r ->
  length (enc true 0 s ++ DQ r) < fuel ->
  Btail fuel acc (mkIn (enc true 0 s ++ DQ r) p d) = Ok (acc ++ s) (after (enc true 0 s) (DQ r) p d).
Proof.
  induction n as [|n IH]; intros s acc fuel r p d Hn Hq Hu Hr Hf.
  - destruct s; [|cbn in Hn; lia]. apply (mlb_end [] acc fuel r p d); [auto|exact Hr|lia].
  - destruct (qstop_cases s Hq) as [E | [E | [E | E]]].
    + subst s. apply (mlb_end [] acc fuel r p d); [auto|exact Hr|lia].
    + subst s. apply (mlb_end [x22] acc fuel r p d); [auto|exact Hr|lia].
    + subst s. apply (mlb_end [x22; x22] acc fuel r p d); [auto|exact Hr|lia].
    + destruct E as [k [qs [s1 [Hk [Hs [Hne [Hk1 Henc]]]]]]].
      assert (Hqs : qs = [x22] \/ qs = [x22; x22]) by (destruct Hk as [[_ H] | [_ H]]; auto).
      assert (Hk' : (k = 1 \/ k = 2)%N) by (destruct Hk as [[H _] | [H _]]; auto).
      assert (Hu1 : utf8_valid_b s1 = true).
      { rewrite Hs in Hu. destruct Hqs as [-> | ->]; cbn [app] in Hu;
          rewrite !utf8_cons_ascii in Hu by apply quote_ascii; exact Hu. }
      destruct (mlb_after_quotes k s1 Hk' Hne Hu1 Hk1) as [h [e1' [c1 [s2 [Hh [Hs1 [Hl2 [Hu2 [Henc1 HP]]]]]]]]].
      destruct fuel as [|f]; [lia|].
      destruct (mlb_iter f acc qs h e1' c1 s2 r p d Hqs Hh HP Hu2) as [c' [s3 [Hs2 [Hq3 [Hu3 [Henc2 Hit]]]]]].
      assert (Hfull : enc true 0 s = qs ++ (h :: e1') ++ enc true 0 c' ++ enc true 0 s3).
      { rewrite Henc, Henc1, Henc2. reflexivity. }
      rewrite Hfull. rewrite <- !app_assoc.
      rewrite Henc2 in Hit. rewrite <- ?app_assoc in Hit.
      rewrite (Btail_step _ _ _ _ _ Hit).
      rewrite IH; auto.
      * apply ok_inp.
        { rewrite Hs, Hs1, Hs2. rewrite <- !app_assoc. reflexivity. }
        unfold after. apply mkIn_eq; [reflexivity|]. repeat (rewrite ?app_length; cbn [length]). lia.
      * rewrite Hs, Hs1, Hs2 in Hn. rewrite !app_length in Hn.
        destruct Hqs as [-> | ->]; cbn [length] in Hn; lia.
      * rewrite Hfull in Hf. repeat (rewrite ?app_length in Hf; cbn [length] in Hf).
        rewrite app_length. destruct Hqs as [-> | ->]; cbn [length] in Hf; lia.
Qed.

(* ---- ml_basic_body / ml_basic_string ------------------------------------------------------------- *)
Lemma ml_basic_body_rt s r p d : utf8_valid_b s = true -> not_head x22 r ->
  ml_basic_body (mkIn (enc true 0 s ++ DQ r) p d) = Ok s (after (enc true 0 s) (DQ r) p d).
Proof.
  intros Hu Hr. unfold ml_basic_body.
  change (pvoid (lit ML_BASIC_STRING_DELIM)) with (t_delim x22).
  destruct (mlb_chunks s r [] p d (S (length (enc true 0 s ++ DQ r))) Hu) as [c [s' [Hs [Hq' [Hu' [Henc Hch]]]]]]; [lia|].
  assert (Hc : chunks mlb_content (mkIn (enc true 0 s ++ DQ r) p d)
               = Ok c (after (enc true 0 c) (enc true 0 s' ++ DQ r) p d)).
  { unfold chunks. cbn [rest]. rewrite Hch. reflexivity. }
  rewrite (bind_ok _ _ _ _ _ Hc).
  change (Btail (S (length (rest (after (enc true 0 c) (enc true 0 s' ++ DQ r) p d)))) c
            (after (enc true 0 c) (enc true 0 s' ++ DQ r) p d)
          = Ok s (after (enc true 0 s) (DQ r) p d)).
  unfold after at 1 2. cbn [rest].
  rewrite (mlb_tail (length s') s'); auto.
  apply ok_inp; [symmetry; exact Hs|]. unfold after. apply mkIn_eq; [reflexivity|].
  rewrite Henc, app_length. lia.
Qed.

Definition ml_basic_token (nl : bool) (s : bytes) : bytes :=
  [x22; x22; x22] ++ (if nl then [x0a] else []) ++ enc true 0 s ++ [x22; x22; x22].

(* without the newline prefix the encoded body does not start with a line end *)
Lemma enc_head_not_nl s r : forallb (fun b => negb (byte_eqb b x0a)) s = true ->
  match enc true 0 s ++ DQ r with [] => True | b :: _ => byte_eqb b x0a = false /\ byte_eqb b x0d = false end.
Proof.
  intro H. destruct s as [|b s]; [cbn; auto|].
  cbn [forallb] in H. apply andb_true_iff in H as [Hb _].
  destruct (byte_eqb b x22) eqn:E22.
  { apply byte_eqb_eq in E22. subst b. rewrite enc_q0. cbn. auto. }
  cbn [enc]. rewrite E22.
  destruct (short_escape true b) as [c|] eqn:Es; [cbn; auto|].
  destruct (byte_eqb b x0a) eqn:E0a; [discriminate|].
  destruct (is_ctrl b) eqn:Ec; [unfold u_escape; cbn; auto|].
  cbn [app]. split; [exact E0a|]. byten. lia.
Qed.

Lemma ml_basic_string_rt nl s r p d : utf8_valid_b s = true -> not_head x22 r ->
  (nl = false -> forallb (fun b => negb (byte_eqb b x0a)) s = true) ->
  ml_basic_string (mkIn (ml_basic_token nl s ++ r) p d) = Ok s (after (ml_basic_token nl s) r p d).
Proof.
  intros Hu Hr Hnl. unfold ml_basic_token. rewrite <- !app_assoc. unfold ml_basic_string.
  rewrite (bind_ok _ _ _ _ _ (lit_yes [x22; x22; x22] _ p d)).
  set (p0 := (p + N.of_nat (length [x22; x22; x22]))%N). unfold after at 1. fold p0.
  set (p1 := (p0 + (if nl then 1 else 0))%N).
  assert (Hbody : context (opt newline ;;; cut_err ml_basic_body)
                    (mkIn ((if nl then [x0a] else []) ++ enc true 0 s ++ [x22; x22; x22] ++ r) p0 d)
                  = Ok s (after (enc true 0 s) (DQ r) p1 d)).
  { apply context_ok.
    assert (Hopt : opt newline (mkIn ((if nl then [x0a] else []) ++ enc true 0 s ++ [x22; x22; x22] ++ r) p0 d)
                   = Ok (if nl then Some tt else None) (mkIn (enc true 0 s ++ DQ r) p1 d)).
    { unfold p1. destruct nl; cbn [app].
      - erewrite opt_ok; [|apply newline_lf]. reflexivity.
      - rewrite opt_newline_none; [apply ok_inp; [reflexivity|apply mkIn_eq; [reflexivity|lia]]|].
        apply (enc_head_not_nl s r). apply Hnl. reflexivity. }
    rewrite (bind_ok _ _ _ _ _ Hopt). apply cut_err_ok. apply ml_basic_body_rt; assumption. }
  rewrite (bind_ok _ _ _ _ _ Hbody). unfold after at 1. unfold DQ.
  rewrite (bind_ok _ _ _ _ _ (context_ok _ _ _ _ (cut_err_ok _ _ _ _ (lit_yes [x22; x22; x22] r _ d)))).
  unfold ret. apply ok_inp; [reflexivity|]. unfold after. apply mkIn_eq; [reflexivity|].
  unfold p1, p0. rewrite !app_length. cbn [length]. destruct nl; cbn [length]; lia.
Qed.
