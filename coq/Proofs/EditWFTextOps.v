(* Proofs/EditWFTextOps.v — property C08, text half: what each edit operation does to the
   well-formedness (Spec/WF.v: tbl_wf) of the node it works on.  One lemma per operation,
   `node_ok (guard side f)`: under the operation's decidable side condition at the node the node
   stays well-formed in its slot and at least as visible; Proofs/EditWFTextBase.v lifts it along
   the path. *)
From TV Require Import Base.Prelude Base.Utf8 Gen.Consts Spec.Abnf Spec.Lex Spec.Syntax Spec.Ordered.
From TV Require Import Model.Datetime Model.Numbers Model.Tree Model.Parse Model.Write Model.Encode Spec.WF.
From TV Require Import Spec.EditSpec Model.Edit Proofs.EditRefineBase Proofs.EditRefine Proofs.EditVerbatim.
From TV Require Import Proofs.EditWFTextBase.
Require Import Lia.

(* ==================================================================================== *)
(** * Guards: an operation restricted to the nodes that meet its side condition *)

Definition guard (g : item -> bool) (f : item -> option item) (i : item) : option item :=
  if g i then f i else None.
(* the node an operation with path P works on (the typed accessors of Model/Edit.v: at_path) *)
Fixpoint node_at (P : path) (it : item) : option item :=
  match P with
  | [] => Some it
  | SKey k :: P' =>
    match it with
    | ITable (Tbl items _ _ _ _ _) =>
      match kv_get items k with
      | Some (_, i) => if item_is_none i then None else node_at P' i
      | None => None
      end
    | IValue (VInline items _ _ _ _ _) =>
      match kv_get items k with
      | Some (_, IValue v) => node_at P' (IValue v)
      | _ => None
      end
    | _ => None
    end
  | SIdx n :: P' =>
    match it with
    | IValue (VArray vals _ _ _ _) =>
      match nth_error vals n with
      | Some (IValue v) => node_at P' (IValue v)
      | _ => None
      end
    | IAot ts _ => match nth_error ts n with Some t => node_at P' (ITable t) | None => None end
    | _ => None
    end
  end.
(* the node exists and meets g *)
Definition node_sat (P : path) (g : item -> bool) (it : item) : bool :=
  match node_at P it with Some node => g node | None => false end.

Lemma kv_upd_congr k F H m k' i :
  kv_get m k = Some (k', i) -> F i = H i -> kv_upd k F m = kv_upd k H m.
Proof.
  induction m as [|[k1 i1] m IH]; simpl; [discriminate|].
  destruct (bytes_eqb (k_key k1) k); intros G E.
  - injection G as <- <-. rewrite E. reflexivity.
  - rewrite (IH G E). reflexivity.
Qed.
Lemma nth_upd_congr {A} n (F H : A -> option A) l x :
  nth_error l n = Some x -> F x = H x -> nth_upd n F l = nth_upd n H l.
Proof.
  revert n. induction l as [|y l IH]; intros [|n]; simpl; try discriminate; intros G E.
  - injection G as <-. rewrite E. reflexivity.
  - rewrite (IH n G E). reflexivity.
Qed.

(* at_path only uses the operation at the node *)
Lemma at_path_congr P f h : forall it node,
  node_at P it = Some node -> f node = h node -> at_path P f it = at_path P h it.
Proof.
  induction P as [|s P IH]; intros it node Hn E.
  - simpl in *. injection Hn as <-. exact E.
  - destruct s as [k|n]; simpl in Hn |- *.
    + destruct it as [|[sc r d|vals tr cm d sp|items pre im dt d sp]|[items d im dt pos sp]|ts sp]; try discriminate.
      * destruct (kv_get items k) as [[k' i]|] eqn:G; [|discriminate].
        destruct i as [|v| |]; try discriminate.
        rewrite (kv_upd_congr k _ (fun i0 => match i0 with
                                            | IValue _ => match at_path P h i0 with Some (IValue v') => Some (IValue v') | _ => None end
                                            | _ => None end) items k' (IValue v) G); [reflexivity|].
        cbv beta. rewrite (IH _ _ Hn E). reflexivity.
      * destruct (kv_get items k) as [[k' i]|] eqn:G; [|discriminate].
        destruct (item_is_none i) eqn:Ni; [discriminate|].
        rewrite (kv_upd_congr k _ (fun i0 => if item_is_none i0 then None else at_path P h i0) items k' i G); [reflexivity|].
        cbv beta. rewrite Ni, (IH _ _ Hn E). reflexivity.
    + destruct it as [|[sc r d|vals tr cm d sp|items pre im dt d sp]|[items d im dt pos sp]|ts sp]; try discriminate.
      * destruct (nth_error vals n) as [x|] eqn:G; [|discriminate].
        destruct x as [|v| |]; try discriminate.
        rewrite (nth_upd_congr n _ (fun i0 => match i0 with
                                              | IValue _ => match at_path P h i0 with Some (IValue v') => Some (IValue v') | _ => None end
                                              | _ => None end) vals (IValue v) G); [reflexivity|].
        cbv beta. rewrite (IH _ _ Hn E). reflexivity.
      * destruct (nth_error ts n) as [x|] eqn:G; [|discriminate].
        rewrite (nth_upd_congr n _ (fun t => as_tbl (at_path P h (ITable t))) ts x G); [reflexivity|].
        cbv beta. rewrite (IH _ _ Hn E). reflexivity.
Qed.

Lemma at_path_guard P f g it it' :
  at_path P f it = Some it' -> node_sat P g it = true -> at_path P (guard g f) it = Some it'.
Proof.
  unfold node_sat. intros H Hs. destruct (node_at P it) as [node|] eqn:Hn; [|discriminate].
  rewrite <- H. symmetry. apply (at_path_congr P f (guard g f) it node Hn).
  unfold guard. rewrite Hs. reflexivity.
Qed.

(* ==================================================================================== *)
(** * Keys and values built through the API *)

(* the payload of an operation is printable: strings and keys are UTF-8, integers fit i64 *)
Fixpoint pv_ok (v : pv) : bool :=
  match v with
  | PVInt z => in_i64 z
  | PVStr s => utf8_valid_b s
  | PVBool _ => true
  | PVArr l => forallb pv_ok l
  | PVInl l => forallb (fun kv => match kv with (k, x) => utf8_valid_b k && pv_ok x end) l
  end.

Lemma key_wf_new line k : utf8_valid_b k = true -> key_wf line (key_new k).
Proof. intro H. split; [exact H|]. split; apply decor_ok_default. Qed.
Lemma key_wf_fmt line k' : utf8_valid_b (k_key k') = true -> key_wf line (key_fmt k').
Proof. intro H. split; [exact H|]. split; apply decor_ok_default. Qed.

Lemma ws_lines w : ws_tok w -> lines_tok w.
Proof. apply ln_last. Qed.
Lemma ws_line_trail w : ws_tok w -> line_trail_tok w.
Proof. intro H. exists w, []. rewrite app_nil_r. split; [reflexivity|split; [exact H|left; reflexivity]]. Qed.
Lemma raw_ok_ws_lines r : raw_ok SWs r -> raw_ok SLines r.
Proof. destruct r; simpl; auto using ws_lines. Qed.
Lemma raw_ok_ws_trail r : raw_ok SWs r -> raw_ok SLineTrail r.
Proof. destruct r; simpl; auto using ws_line_trail. Qed.
(* a key of an inline table may stand on a line *)
Lemma key_wf_line k : key_wf false k -> key_wf true k.
Proof.
  intros (Hr & Hd & [Hp Hs]). split; [exact Hr|]. split; [exact Hd|]. split; [|exact Hs].
  destruct (d_prefix (k_leaf k)) as [r|]; simpl in *; [apply raw_ok_ws_lines; exact Hp|exact I].
Qed.

(* the context of a value only matters for its own decor *)
Lemma value_wf_redecor c c' v d' : value_wf c v -> vdecor_ok c' d' -> value_wf c' (value_set_decor v d').
Proof. destruct v; simpl; tauto. Qed.
Lemma value_wf_decorate c c' v p s :
  value_wf c v -> vdecor_ok c' (decor_new p s) -> value_wf c' (value_decorate v p s).
Proof. destruct v; simpl; tauto. Qed.
Lemma value_wf_clear c c' v : value_wf c v -> value_wf c' (value_clear_decor v).
Proof. intro H. destruct v; simpl in *; pose proof (vdecor_ok_default c'); tauto. Qed.
Lemma value_wf_decor c v : value_wf c v -> vdecor_ok c (value_decor v).
Proof. destruct v; simpl; tauto. Qed.
Lemma vdecor_inl_line d : vdecor_ok CInl d -> vdecor_ok CLine d.
Proof.
  intros [Hp Hs]. split; [exact Hp|]. destruct (d_suffix d) as [r|]; simpl in *; [apply raw_ok_ws_trail; exact Hs|exact I].
Qed.
Lemma value_wf_inl_line v : value_wf CInl v -> value_wf CLine v.
Proof.
  destruct v; simpl.
  - intros (H1 & H2 & H3). repeat split; try assumption; apply vdecor_inl_line; assumption.
  - intros (H1 & H2 & H3). split; [apply vdecor_inl_line; assumption|split; assumption].
  - intros (H1 & H2 & H3 & H4). split; [apply vdecor_inl_line; assumption|repeat split; assumption].
Qed.

Definition is_dotted_inl (i : item) : bool :=
  match i with IValue (VInline _ _ _ true _ _) => true | _ => false end.
Lemma pair_wf_value line v :
  is_dotted_inl (IValue v) = false -> pair_wf line (IValue v) <-> value_wf (if line then CLine else CInl) v.
Proof. destruct v as [| |items pre im [|] d sp]; simpl; try discriminate; tauto. Qed.

(* entries inserted one after the other into a fresh inline table *)
Definition inl_entry_ok (kv : key * item) : Prop :=
  key_wf false (fst kv) /\ exists v, snd kv = IValue v /\ is_dotted_inl (IValue v) = false /\ value_wf CInl v.

Lemma all_inl_entry_no_none m : all_P inl_entry_ok m -> forall k' i, In (k', i) m -> i <> INone.
Proof. intros Ha k' i Hin ->. destruct (all_P_In _ _ _ Ha Hin) as (_ & v & E & _). discriminate. Qed.

Lemma kv_insert_inl acc k it :
  NoDup (kkeys acc) -> all_P inl_entry_ok acc -> inl_entry_ok (k, it) ->
  NoDup (kkeys (kv_insert acc k it)) /\ all_P inl_entry_ok (kv_insert acc k it).
Proof.
  intros Hn Ha Hk. unfold kv_insert. rewrite (kv_purge_noop acc (k_key k) (all_inl_entry_no_none acc Ha)).
  destruct (kv_get acc (k_key k)) as [[k' i]|] eqn:G.
  - split; [rewrite kkeys_set; exact Hn|]. apply all_P_set; [exact Ha|].
    intros k1 Hin _. split; [|exact (proj2 Hk)].
    apply in_map_iff in Hin as ([k2 i2] & <- & Hin). exact (proj1 (all_P_In _ _ _ Ha Hin)).
  - split; [apply NoDup_kkeys_push; assumption|apply all_P_push; assumption].
Qed.

Lemma build_value_wf v : pv_ok v = true -> forall c, value_wf c (build_value v).
Proof.
  induction v as [z|s|b|l IH|l IH] using pv_ind2; intros Hp c; simpl in Hp.
  - simpl. split; [exact I|]. split; [exact Hp|apply vdecor_ok_default].
  - simpl. split; [exact Hp|]. split; [exact I|apply vdecor_ok_default].
  - simpl. split; [exact I|]. split; [exact I|apply vdecor_ok_default].
  - simpl. split; [apply vdecor_ok_default|]. split; [apply (raw_ok_empty SWscn)|].
    apply all_P_map. apply all_P_forall. intros x Hx. rewrite Forall_forall in IH.
    apply IH; [exact Hx|]. rewrite forallb_forall in Hp. apply Hp. exact Hx.
  - cbn [build_value].
    assert (G : forall acc, NoDup (kkeys acc) -> all_P inl_entry_ok acc ->
                let r := fold_left (fun a kv => kv_insert a (fst kv) (snd kv))
                                   (map (fun kv : bytes * pv => let (k, x) := kv in (key_new k, IValue (build_value x))) l) acc in
                NoDup (kkeys r) /\ all_P inl_entry_ok r).
    { induction l as [|[k x] l IHl]; intros acc Hn Ha; simpl; [auto|].
      simpl in Hp. apply andb_true_iff in Hp as [Hkx Hl]. apply andb_true_iff in Hkx as [Hk Hx].
      inversion IH as [|? ? IHx IHr]; subst.
      destruct (kv_insert_inl acc (key_new k) (IValue (build_value x)) Hn Ha) as [Hn' Ha'].
      { split; [apply key_wf_new; exact Hk|]. exists (build_value x). split; [reflexivity|].
        split; [destruct x; reflexivity|apply IHx; exact Hx]. }
      apply IHl; assumption. }
    destruct (G [] (NoDup_nil _) I) as [Hn Ha].
    simpl. split; [apply vdecor_ok_default|]. split; [apply (raw_ok_empty SWs)|]. split; [exact Hn|].
    eapply all_P_impl; [|exact Ha]. intros [k1 i1] (Hk & v & E & Hd & Hv). simpl in *. subst i1.
    split; [exact Hk|]. apply (pair_wf_value false v Hd). exact Hv.
Qed.

Lemma build_value_not_dotted v : is_dotted_inl (IValue (build_value v)) = false.
Proof. destruct v; reflexivity. Qed.

(* ==================================================================================== *)
(** * Tables: entries, visibility *)

Lemma entries_no_none m : all_P entry_ok m -> forall k' i, In (k', i) m -> i <> INone.
Proof. intros Ha k' i Hin ->. exact (proj2 (all_P_In _ _ _ Ha Hin)). Qed.

Lemma kv_set_fmt_In m k k' i v : kv_get m k = Some (k', i) -> In (key_fmt k', v) (kv_set_fmt m k v).
Proof.
  induction m as [|[k1 i1] m IH]; simpl; [discriminate|].
  destruct (bytes_eqb (k_key k1) k); intro H; [injection H as <- <-; left; reflexivity|right; auto].
Qed.

(* the boolean form of "at least as visible" (the flags are kept by construction): a line or a header
   before, a line or a header after *)
Definition vis_side (a b : tbl) : bool := implb (hl a || ph a) (hl b || ph b).
Lemma vis_side_Rt a b :
  t_dotted a = t_dotted b -> t_implicit a = t_implicit b -> vis_side a b = true -> Rt a b.
Proof.
  intros Hd Hi H. repeat split; auto. intro E. unfold vis_side in H. rewrite E in H. exact H.
Qed.
(* a table that has a key/value line is visible whatever it was before *)
Lemma has_line_Rt a b :
  t_dotted a = t_dotted b -> t_implicit a = t_implicit b -> has_line b = true -> Rt a b.
Proof.
  intros Hd Hi Hl. repeat split; auto. intros _. unfold hl, ph.
  destruct (t_dotted b); simpl; [rewrite Hl; reflexivity|]. rewrite (shown_true _ Hl). reflexivity.
Qed.

(* rebuilding a table node in its slot *)
Lemma tbl_node_rebuild c items items' d im dt p sp :
  iwf c (ITable (Tbl items d im dt p sp)) ->
  NoDup (kkeys items') -> all_P entry_ok items' ->
  Rt (Tbl items d im dt p sp) (Tbl items' d im dt p sp) ->
  iwf c (ITable (Tbl items' d im dt p sp)) /\ Ri (ITable (Tbl items d im dt p sp)) (ITable (Tbl items' d im dt p sp)).
Proof.
  intros Hw Hn Ha Hr. split; [|exact Hr].
  destruct c as [| | |l|]; cbn [iwf] in *; try contradiction.
  - apply tbl_wf_eq in Hw as (Hd & _ & _). apply tbl_wf_eq. auto.
  - destruct Hw as [Hw Hv]. apply tbl_wf_eq in Hw as (Hd & _ & _).
    split; [apply tbl_wf_eq; auto|exact (vis_cond_keep _ _ Hv Hr)].
  - destruct Hw as [Hdt Hw]. apply tbl_wf_eq in Hw as (Hd & _ & _). split; [exact Hdt|apply tbl_wf_eq; auto].
Qed.
Lemma tbl_node_parts c items d im dt p sp :
  iwf c (ITable (Tbl items d im dt p sp)) -> NoDup (kkeys items) /\ all_P entry_ok items.
Proof.
  destruct c as [| | |l|]; intro Hw.
  - exact (proj2 (proj1 (tbl_wf_eq true items d im dt p sp) Hw)).
  - exact (proj2 (proj1 (tbl_wf_eq false items d im dt p sp) (proj1 Hw))).
  - exact (proj2 (proj1 (tbl_wf_eq false items d im dt p sp) (proj2 Hw))).
  - destruct l; exact (False_ind _ Hw).
  - exact (False_ind _ Hw).
Qed.

(* rebuilding an inline-table node in its slot *)
Lemma inline_node_rebuild c items items' pre im dt d sp :
  iwf c (IValue (VInline items pre im dt d sp)) ->
  NoDup (kkeys items') -> (items <> [] -> items' <> []) ->
  all_P (pair_ok (inline_line c dt)) items' ->
  iwf c (IValue (VInline items' pre im dt d sp)).
Proof.
  intros H Hn Hne Ha.
  destruct c as [| | |l|]; destruct dt; try destruct l; simpl in *; tauto.
Qed.
Lemma inline_node_rebuild_plain c items items' pre im d sp :
  iwf c (IValue (VInline items pre im false d sp)) ->
  NoDup (kkeys items') -> all_P (pair_ok (inline_line c false)) items' ->
  iwf c (IValue (VInline items' pre im false d sp)).
Proof. intros H Hn Ha. destruct c as [| | |l|]; try destruct l; simpl in *; tauto. Qed.
Lemma inline_node_parts c items pre im dt d sp :
  iwf c (IValue (VInline items pre im dt d sp)) ->
  NoDup (kkeys items) /\ all_P (pair_ok (inline_line c dt)) items.
Proof. destruct c as [| | |l|]; destruct dt; try destruct l; simpl; tauto. Qed.

Lemma pairs_no_none L m : all_P (pair_ok L) m -> forall k' i, In (k', i) m -> i <> INone.
Proof. intros Ha k' i Hin ->. exact (proj2 (all_P_In _ _ _ Ha Hin)). Qed.

(* ==================================================================================== *)
(** * insert / remove *)

Lemma kkeys_nonnil m m' : kkeys m' = kkeys m -> m <> [] -> m' <> [].
Proof. intros K Hn ->. apply Hn. destruct m; [reflexivity|discriminate]. Qed.
Lemma push_nonnil m k v : kv_push m k v <> [].
Proof. unfold kv_push. destruct m; discriminate. Qed.

(* the entries after Table::insert / InlineTable::insert of a value, in either kind of container *)
Lemma items_insert_ok (Q : key * item -> Prop) m k it :
  NoDup (kkeys m) -> all_P Q m -> (forall k' i, In (k', i) m -> i <> INone) ->
  (forall k', k_key k' = k -> Q (key_fmt k', it)) -> Q (key_new k, it) ->
  NoDup (kkeys (items_insert m k it)) /\ all_P Q (items_insert m k it) /\
  (m <> [] -> items_insert m k it <> []) /\
  exists k', In (k', it) (items_insert m k it).
Proof.
  intros Hn Ha Hnn Hf Hk. unfold items_insert. rewrite (kv_purge_noop m k Hnn).
  destruct (kv_get m k) as [[k' i]|] eqn:G.
  - split; [rewrite kkeys_set_fmt; exact Hn|]. split; [apply all_P_set_fmt; assumption|].
    split; [apply kkeys_nonnil, kkeys_set_fmt|]. exists (key_fmt k'). eapply kv_set_fmt_In; eauto.
  - split; [apply NoDup_kkeys_push; assumption|]. split; [apply all_P_push; assumption|].
    split; [intros _; apply push_nonnil|]. exists (key_new k). unfold kv_push. apply in_or_app. right. left. reflexivity.
Qed.

Lemma op_insert_node k v :
  utf8_valid_b k = true -> pv_ok v = true -> node_ok (op_insert k v).
Proof.
  intros Hk Hv c i i' H Hw.
  destruct i as [|[sc r d|vals tr cm d sp|items pre im dt d sp]|[items d im dt p sp]|ts sp]; simpl in H; try discriminate;
    injection H as <-.
  - (* inline table *)
    destruct (inline_node_parts _ _ _ _ _ _ _ Hw) as [Hn Ha]. split; [|exact I].
    set (L := inline_line c dt) in *.
    assert (Hit : iwf (KPair L) (IValue (build_value v))).
    { apply (pair_wf_value L _ (build_value_not_dotted v)). apply build_value_wf. exact Hv. }
    destruct (items_insert_ok (pair_ok L) items k (IValue (build_value v)) Hn Ha (pairs_no_none L items Ha))
      as (Hn' & Ha' & Hne & _).
    + intros k' E. split; [apply key_wf_fmt; rewrite E; exact Hk|exact Hit].
    + split; [apply key_wf_new; exact Hk|exact Hit].
    + apply (inline_node_rebuild c items _ pre im dt d sp Hw Hn' Hne Ha').
  - (* table *)
    destruct (tbl_node_parts _ _ _ _ _ _ _ Hw) as [Hn Ha].
    assert (Hit : iwf KEntry (IValue (build_value v))).
    { apply (pair_wf_value true _ (build_value_not_dotted v)). apply build_value_wf. exact Hv. }
    destruct (items_insert_ok entry_ok items k (IValue (build_value v)) Hn Ha (entries_no_none items Ha))
      as (Hn' & Ha' & _ & k' & Hin).
    + intros k' E. split; [apply key_wf_fmt; rewrite E; exact Hk|exact Hit].
    + split; [apply key_wf_new; exact Hk|exact Hit].
    + apply (tbl_node_rebuild c items _ d im dt p sp Hw Hn' Ha').
      apply has_line_Rt; [reflexivity|reflexivity|]. rewrite has_line_eq.
      exact (existsb_In gl _ _ Hin eq_refl).
Qed.

(* Table::insert of a fresh table / array of tables: the side condition is the node's visibility *)
Definition tbl_after (f : item -> option item) (i : item) : bool :=
  match i, f i with
  | ITable a, Some (ITable b) => vis_side a b
  | _, _ => true
  end.

Lemma tbl_new_wf : tbl_wf false tbl_new.
Proof. apply (proj2 (tbl_wf_eq false [] decor_default false false None None)). split; [apply decor_ok_default|]. split; [constructor|exact I]. Qed.
Lemma tbl_new_entry : iwf KEntry (ITable tbl_new).
Proof. split; [exact tbl_new_wf|]. unfold vis_cond. simpl. left. reflexivity. Qed.
Lemma aot_new_entry : iwf KEntry (IAot [tbl_new] None).
Proof. split; [discriminate|]. split; [|exact I]. split; [reflexivity|exact tbl_new_wf]. Qed.

Lemma op_insert_item_node k x :
  utf8_valid_b k = true -> iwf KEntry x ->
  node_ok (guard (tbl_after (op_insert_item k x)) (op_insert_item k x)).
Proof.
  intros Hk Hx c i i' H Hw. unfold guard in H.
  destruct (tbl_after (op_insert_item k x) i) eqn:S; [|discriminate].
  destruct i as [| |[items d im dt p sp]|]; simpl in H; try discriminate. injection H as <-.
  destruct (tbl_node_parts _ _ _ _ _ _ _ Hw) as [Hn Ha].
  destruct (items_insert_ok entry_ok items k x Hn Ha (entries_no_none items Ha)) as (Hn' & Ha' & _ & _).
  - intros k' E. split; [apply key_wf_fmt; rewrite E; exact Hk|exact Hx].
  - split; [apply key_wf_new; exact Hk|exact Hx].
  - apply (tbl_node_rebuild c items _ d im dt p sp Hw Hn' Ha').
    unfold tbl_after in S. simpl in S. apply vis_side_Rt; [reflexivity|reflexivity|exact S].
Qed.

(* remove: the table must stay as visible; a dotted inline table must keep an entry *)
Definition remove_after (k : bytes) (i : item) : bool :=
  match i, op_remove k i with
  | ITable a, Some (ITable b) => vis_side a b
  | IValue (VInline _ _ _ true _ _), Some (IValue (VInline items' _ _ _ _ _)) =>
    match items' with [] => false | _ => true end
  | _, _ => true
  end.

Lemma op_remove_node k : node_ok (guard (remove_after k) (op_remove k)).
Proof.
  intros c i i' H Hw. unfold guard in H. destruct (remove_after k i) eqn:S; [|discriminate].
  destruct i as [|[sc r d|vals tr cm d sp|items pre im dt d sp]|[items d im dt p sp]|ts sp]; simpl in H; try discriminate;
    injection H as <-.
  - destruct (inline_node_parts _ _ _ _ _ _ _ Hw) as [Hn Ha]. split; [|exact I].
    unfold remove_after in S. simpl in S.
    destruct dt.
    + apply (inline_node_rebuild c items _ pre im true d sp Hw (NoDup_kkeys_remove _ _ Hn)); [|apply all_P_remove; exact Ha].
      intros _ E. rewrite E in S. discriminate.
    + (* a plain inline table may become empty *)
      apply (inline_node_rebuild_plain c items _ pre im d sp Hw (NoDup_kkeys_remove _ _ Hn)).
      apply all_P_remove. exact Ha.
  - destruct (tbl_node_parts _ _ _ _ _ _ _ Hw) as [Hn Ha].
    apply (tbl_node_rebuild c items _ d im dt p sp Hw (NoDup_kkeys_remove _ _ Hn) (all_P_remove _ _ _ Ha)).
    unfold remove_after in S. simpl in S. apply vis_side_Rt; [reflexivity|reflexivity|exact S].
Qed.

(* ==================================================================================== *)
(** * Arrays *)

Definition arr_elem_ok (it : item) : Prop := match it with IValue e => value_wf CArr e | _ => False end.

(* an array node in its slot: only the elements matter *)
Lemma array_node_rebuild c vals vals' tr cm d sp :
  iwf c (IValue (VArray vals tr cm d sp)) -> all_P arr_elem_ok vals' ->
  iwf c (IValue (VArray vals' tr cm d sp)).
Proof. intros H Ha. destruct c as [| | |l|]; try destruct l; simpl in *; tauto. Qed.
Lemma array_node_parts c vals tr cm d sp :
  iwf c (IValue (VArray vals tr cm d sp)) -> all_P arr_elem_ok vals.
Proof. destruct c as [| | |l|]; try destruct l; simpl; tauto. Qed.

Lemma vdecor_arr_api (vals : list item) :
  vdecor_ok CArr (match vals with
                  | [] => decor_new (raw_of_bytes []) (raw_of_bytes [])
                  | _ => decor_new (raw_of_bytes [x20]) (raw_of_bytes [])
                  end).
Proof. destruct vals; split; simpl; try exact wscn_space; constructor. Qed.

Lemma value_op_decorate_wf vals v : pv_ok v = true -> arr_elem_ok (IValue (value_op_decorate vals (build_value v))).
Proof.
  intro Hv. unfold value_op_decorate. pose proof (vdecor_arr_api vals) as Hd.
  destruct vals; (apply (value_wf_decorate CArr CArr); [apply build_value_wf; exact Hv|exact Hd]).
Qed.

Lemma all_P_vec_insert {A} (Q : A -> Prop) n x (l l' : list A) :
  vec_insert n x l = Some l' -> all_P Q l -> Q x -> all_P Q l'.
Proof.
  revert l l'. induction n as [|n IH]; intros l l' H Ha Hx; simpl in H.
  - injection H as <-. split; assumption.
  - destruct l as [|y l]; [discriminate|]. destruct (vec_insert n x l) as [l1|] eqn:E; simpl in H; [|discriminate].
    injection H as <-. destruct Ha as [Hy Hl]. split; [exact Hy|eapply IH; eauto].
Qed.
Lemma all_P_vec_remove {A} (Q : A -> Prop) n (l : list A) y l' :
  vec_remove n l = Some (y, l') -> all_P Q l -> all_P Q l'.
Proof.
  revert n y l'. induction l as [|z l IH]; intros [|n] y l' H Ha; simpl in H; try discriminate; destruct Ha as [Hz Hl].
  - injection H as <- <-. exact Hl.
  - destruct (vec_remove n l) as [[y1 l1]|] eqn:E; simpl in H; [|discriminate]. injection H as <- <-.
    split; [exact Hz|eapply IH; eauto].
Qed.

Lemma op_arr_push_node v : pv_ok v = true -> node_ok (op_arr_push v).
Proof.
  intros Hv c i i' H Hw.
  destruct i as [|[|vals tr cm d sp|]| |]; simpl in H; try discriminate. injection H as <-.
  split; [|exact I]. apply (array_node_rebuild c vals _ tr cm d sp Hw).
  apply all_P_app. split; [exact (array_node_parts _ _ _ _ _ _ Hw)|]. split; [|exact I].
  apply value_op_decorate_wf. exact Hv.
Qed.

Lemma op_arr_insert_node n v : pv_ok v = true -> node_ok (op_arr_insert n v).
Proof.
  intros Hv c i i' H Hw.
  destruct i as [|[|vals tr cm d sp|]| |]; simpl in H; try discriminate.
  destruct (vec_insert n _ vals) as [vals'|] eqn:E; simpl in H; [|discriminate]. injection H as <-.
  split; [|exact I]. apply (array_node_rebuild c vals _ tr cm d sp Hw).
  eapply all_P_vec_insert; [exact E|exact (array_node_parts _ _ _ _ _ _ Hw)|].
  apply value_op_decorate_wf. exact Hv.
Qed.

Lemma op_arr_replace_node n v : pv_ok v = true -> node_ok (op_arr_replace n v).
Proof.
  intros Hv c i i' H Hw.
  destruct i as [|[|vals tr cm d sp|]| |]; simpl in H; try discriminate.
  destruct (nth_upd n _ vals) as [vals'|] eqn:E; simpl in H; [|discriminate]. injection H as <-.
  split; [|exact I]. apply (array_node_rebuild c vals _ tr cm d sp Hw).
  apply (all_P_nth_upd arr_elem_ok n _ vals vals' E (array_node_parts _ _ _ _ _ _ Hw)).
  intros x x' _ Fx Hx. cbv beta in Fx. destruct x as [|ov| |]; try discriminate. injection Fx as <-.
  simpl. eapply value_wf_redecor; [apply (build_value_wf v Hv CArr)|]. apply (value_wf_decor CArr ov Hx).
Qed.

Lemma op_arr_remove_node n : node_ok (op_arr_remove n).
Proof.
  intros c i i' H Hw.
  destruct i as [|[|vals tr cm d sp|]| |]; simpl in H; try discriminate.
  destruct (vec_remove n vals) as [[y vals']|] eqn:E; [|discriminate].
  destruct y; try discriminate. injection H as <-.
  split; [|exact I]. apply (array_node_rebuild c vals _ tr cm d sp Hw).
  eapply all_P_vec_remove; [exact E|exact (array_node_parts _ _ _ _ _ _ Hw)].
Qed.

(* ==================================================================================== *)
(** * Arrays of tables *)

Lemma op_aot_push_node : node_ok op_aot_push.
Proof.
  intros c i i' H Hw. destruct i as [| | |ts sp]; simpl in H; try discriminate. injection H as <-.
  destruct c as [| | |l|]; cbn [iwf] in Hw; try contradiction; try (destruct l; contradiction).
  destruct Hw as [Hn Ha]. split; [|intros _; destruct ts; discriminate].
  split; [destruct ts; discriminate|]. apply all_P_app. split; [exact Ha|].
  split; [|exact I]. split; [reflexivity|exact tbl_new_wf].
Qed.

(* removing an element must leave one *)
Definition aot_remove_after (n : nat) (i : item) : bool :=
  match op_aot_remove n i with Some (IAot [] _) => false | _ => true end.

Lemma op_aot_remove_node n : node_ok (guard (aot_remove_after n) (op_aot_remove n)).
Proof.
  intros c i i' H Hw. unfold guard in H. destruct (aot_remove_after n i) eqn:S; [|discriminate].
  unfold aot_remove_after in S. rewrite H in S.
  destruct i as [| | |ts sp]; simpl in H; try discriminate.
  destruct (vec_remove n ts) as [[y ts']|] eqn:E; simpl in H; [|discriminate]. injection H as <-.
  assert (Hne : ts' <> []) by (destruct ts'; [discriminate|discriminate]).
  destruct c as [| | |l|]; cbn [iwf] in Hw; try contradiction; try (destruct l; contradiction).
  destruct Hw as [Hn Ha]. split; [|intros _; exact Hne]. split; [exact Hne|].
  eapply all_P_vec_remove; eauto.
Qed.

(* ==================================================================================== *)
(** * fmt *)

Lemma kkeys_decorate m : kkeys (decorate_items m) = kkeys m.
Proof.
  unfold kkeys, decorate_items. rewrite map_map. apply map_ext. intros [k i]. destruct i; reflexivity.
Qed.

Lemma decorate_gl m : existsb gl (decorate_items m) = existsb gl m.
Proof.
  unfold decorate_items. induction m as [|[k i] m IH]; simpl; [reflexivity|]. rewrite IH.
  destruct i; reflexivity.
Qed.
Lemma decorate_gp m : existsb gp (decorate_items m) = existsb gp m.
Proof.
  unfold decorate_items. induction m as [|[k i] m IH]; simpl; [reflexivity|]. rewrite IH.
  destruct i; reflexivity.
Qed.

Lemma key_wf_cleared line k : key_wf line k -> key_wf line (mkKey (k_key k) (k_repr k) decor_default decor_default).
Proof. intros (Hr & _ & _). split; [exact Hr|]. split; apply decor_ok_default. Qed.

Lemma pair_wf_clear line v : pair_wf line (IValue v) -> pair_wf line (IValue (value_clear_decor v)).
Proof.
  destruct v as [| |items pre im [|] d sp]; simpl; try tauto;
    intro H; pose proof (vdecor_ok_default (if line then CLine else CInl)); tauto.
Qed.

Lemma decorate_entries m : all_P entry_ok m -> all_P entry_ok (decorate_items m).
Proof.
  intro Ha. unfold decorate_items. apply all_P_map. eapply all_P_impl; [|exact Ha].
  intros [k i] [Hk Hi]. destruct i as [|v| |]; try (split; assumption).
  split; [apply key_wf_cleared; exact Hk|]. apply (pair_wf_clear true v Hi).
Qed.
Lemma decorate_pairs L m : all_P (pair_ok L) m -> all_P (pair_ok L) (decorate_items m).
Proof.
  intro Ha. unfold decorate_items. apply all_P_map. eapply all_P_impl; [|exact Ha].
  intros [k i] [Hk Hi]. destruct i as [|v| |]; try (split; assumption).
  split; [apply key_wf_cleared; exact Hk|]. apply (pair_wf_clear L v Hi).
Qed.

Lemma decorate_elems_ok first l : all_P arr_elem_ok l -> all_P arr_elem_ok (decorate_elems first l).
Proof.
  revert first. induction l as [|x l IH]; intros first Ha; simpl; [exact I|]. destruct Ha as [Hx Hl].
  destruct x as [|v| |]; try contradiction. split; [|apply IH; exact Hl].
  eapply value_wf_decorate; [exact Hx|]. destruct first; split; simpl; try exact wscn_space; constructor.
Qed.

Lemma op_fmt_node : node_ok op_fmt.
Proof.
  intros c i i' H Hw.
  destruct i as [|[sc r d|vals tr cm d sp|items pre im dt d sp]|[items d im dt p sp]|ts sp]; simpl in H; try discriminate;
    injection H as <-.
  - split; [|exact I].
    assert (Hv : forall cc, value_wf cc (VArray vals tr cm d sp) ->
                            value_wf cc (VArray (decorate_elems true vals) REmpty false d sp)).
    { intros cc (Hd & _ & Ha). split; [exact Hd|]. split; [apply (raw_ok_empty SWscn)|apply decorate_elems_ok; exact Ha]. }
    destruct c as [| | |l|];
      [exfalso; exact Hw|exact (Hv CLine Hw)|exfalso; exact Hw
       |destruct l; [exact (Hv CLine Hw)|exact (Hv CInl Hw)]|exact (Hv CArr Hw)].
  - destruct (inline_node_parts _ _ _ _ _ _ _ Hw) as [Hn Ha]. split; [|exact I].
    apply (inline_node_rebuild c items _ pre im dt d sp Hw).
    + rewrite kkeys_decorate. exact Hn.
    + apply kkeys_nonnil, kkeys_decorate.
    + apply decorate_pairs. exact Ha.
  - destruct (tbl_node_parts _ _ _ _ _ _ _ Hw) as [Hn Ha].
    apply (tbl_node_rebuild c items _ d im dt p sp Hw).
    + rewrite kkeys_decorate. exact Hn.
    + apply decorate_entries. exact Ha.
    + apply vis_side_Rt; [reflexivity|reflexivity|].
      unfold vis_side, hl, ph, shown. simpl t_dotted. simpl t_implicit.
      rewrite !has_line_eq, !prints_header_eq, decorate_gl, decorate_gp.
      destruct (dt && existsb gl items), (negb dt && negb (im && negb (existsb gl items)) || existsb gp items); reflexivity.
Qed.

(* ==================================================================================== *)
(** * Conversions stored back in the slot *)

(* an entry of an inline table may stand on a key/value line *)
Lemma pair_wf_line : forall i, pair_wf false i -> pair_wf true i.
Proof.
  pose (Pi := fun i => pair_wf false i -> pair_wf true i).
  pose (Pv := fun v => Pi (IValue v)).
  pose (Pt := fun _ : tbl => True).
  apply (item_ind4 Pv Pi Pt); unfold Pv, Pi, Pt; try (intros; exact I); try (intros; contradiction).
  - intros s r d H. exact (value_wf_inl_line (VScalar s r d) H).
  - intros vals tr c d sp _ H. exact (value_wf_inl_line (VArray vals tr c d sp) H).
  - intros items pre im dt d sp IH H. destruct dt.
    + simpl in *. destruct H as (Hne & Hn & Ha). split; [exact Hne|]. split; [exact Hn|].
      rewrite Forall_forall in IH. apply all_P_forall. intros [k i] Hin.
      destruct (all_P_In _ _ _ Ha Hin) as [Hk Hi]. split; [apply key_wf_line; exact Hk|exact (IH _ Hin Hi)].
    + exact (value_wf_inl_line (VInline items pre im false d sp) H).
  - intros v H. exact H.
Qed.

Lemma all_P_kv_upd' (Q : key * item -> Prop) k F m m' :
  kv_upd k F m = Some m' -> all_P Q m ->
  (forall k' i i', kv_get m k = Some (k', i) -> F i = Some i' -> Q (k', i) -> Q (k', i')) ->
  all_P Q m'.
Proof.
  revert m'. induction m as [|[k1 i1] m IH]; intros m' H Ha Hq; simpl in H, Hq; [discriminate|].
  destruct Ha as [H1 Hm]. destruct (bytes_eqb (k_key k1) k).
  - destruct (F i1) as [i1'|] eqn:Fi; simpl in H; [|discriminate]. injection H as <-.
    split; [|exact Hm]. eapply Hq; eauto.
  - destruct (kv_upd k F m) as [m1|]; simpl in H; [|discriminate]. injection H as <-.
    split; [exact H1|]. apply (IH m1 eq_refl Hm). exact Hq.
Qed.

(* the entries of an inline table as the entries of a table section (Table::with_pairs + fmt) *)
Lemma inline_entries_as_table L m :
  all_P (pair_ok L) m -> all_P entry_ok (decorate_items m).
Proof.
  intro Ha. unfold decorate_items. apply all_P_map. eapply all_P_impl; [|exact Ha].
  intros [k i] [Hk Hi]. destruct i as [|v| |]; try (destruct L; contradiction).
  split; [apply key_wf_cleared; destruct L; [exact Hk|apply key_wf_line; exact Hk]|].
  apply (pair_wf_clear true v). destruct L; [exact Hi|apply pair_wf_line; exact Hi].
Qed.

Lemma inline_into_table_wf L items : NoDup (kkeys items) -> all_P (pair_ok L) items ->
  tbl_wf false (inline_into_table items) /\ vis_cond (inline_into_table items).
Proof.
  intros Hn Ha. split.
  - apply (proj2 (tbl_wf_eq false _ _ _ _ _ _)). split; [apply decor_ok_default|].
    split; [rewrite kkeys_decorate; exact Hn|eapply inline_entries_as_table; exact Ha].
  - unfold vis_cond. simpl. left. reflexivity.
Qed.

Lemma into_table_slot_wf i : iwf KEntry i -> iwf KEntry (into_table_slot i).
Proof.
  intro Hw. destruct i as [|[s r d|vals tr c d sp|items pre im dt d sp]|t|ts sp]; try exact Hw.
  destruct (inline_node_parts KEntry items pre im dt d sp Hw) as [Hn Ha].
  exact (inline_into_table_wf (inline_line KEntry dt) items Hn Ha).
Qed.

Lemma into_aot_elems_wf vals :
  all_P arr_elem_ok vals -> forallb is_inline_item vals = true ->
  all_P (fun e => t_dotted e = false /\ tbl_wf false e)
        (flat_map (fun e => match e with
                            | IValue (VInline items _ _ _ _ _) => [inline_into_table items]
                            | _ => []
                            end) vals).
Proof.
  induction vals as [|x vals IH]; intros Ha Hf; [exact I|].
  destruct Ha as [Hx Hl]. simpl in Hf. apply andb_true_iff in Hf as [Hi Hr].
  destruct x as [|[| |items pre im dt d sp]| |]; try discriminate.
  simpl. split; [|apply IH; assumption]. split; [reflexivity|].
  destruct (inline_node_parts KArr items pre im dt d sp Hx) as [Hn Hp].
  exact (proj1 (inline_into_table_wf (inline_line KArr dt) items Hn Hp)).
Qed.

Lemma into_aot_slot_wf i : iwf KEntry i -> iwf KEntry (into_aot_slot i).
Proof.
  intro Hw. destruct i as [|[s r d|vals tr c d sp|items pre im dt d sp]|t|ts sp]; try exact Hw.
  unfold into_aot_slot. destruct vals as [|x vals]; [exact Hw|].
  destruct (forallb is_inline_item (x :: vals)) eqn:F; [|exact Hw].
  pose proof (array_node_parts KEntry (x :: vals) tr c d sp Hw) as Ha.
  split; [|apply into_aot_elems_wf; assumption].
  simpl in F. apply andb_true_iff in F as [Hi _].
  destruct x as [|[| |items pre im dt d0 sp0]| |]; try discriminate.
Qed.

(* the slot operations: the entry must convert to a well-formed entry, the table must stay as visible *)
Definition slot_after (k : bytes) (conv : item -> item) (good : item -> bool) (i : item) : bool :=
  tbl_after (op_slot k (fun e => Some (conv e))) i
  && match i with
     | ITable (Tbl items _ _ _ _ _) => match kv_get items k with Some (_, e) => good e | None => true end
     | _ => true
     end.

Lemma op_slot_node k conv good :
  (forall e, iwf KEntry e -> good e = true -> iwf KEntry (conv e)) ->
  node_ok (guard (slot_after k conv good) (op_slot k (fun e => Some (conv e)))).
Proof.
  intros Hc c i i' H Hw. unfold guard in H. destruct (slot_after k conv good i) eqn:S; [|discriminate].
  apply andb_true_iff in S as [S1 S2].
  destruct i as [| |[items d im dt p sp]|]; simpl in H; try discriminate.
  destruct (kv_upd k _ items) as [items'|] eqn:E; simpl in H; [|discriminate]. injection H as <-.
  destruct (tbl_node_parts _ _ _ _ _ _ _ Hw) as [Hn Ha].
  apply (tbl_node_rebuild c items items' d im dt p sp Hw).
  - rewrite (kv_upd_keys _ _ _ _ E). exact Hn.
  - apply (all_P_kv_upd' entry_ok k _ items items' E Ha).
    intros k' e e' G Fe [Hk He]. cbv beta in Fe. destruct (item_is_none e); [discriminate|]. injection Fe as <-.
    split; [exact Hk|]. apply Hc; [exact He|]. rewrite G in S2. exact S2.
  - unfold tbl_after in S1. simpl in S1. rewrite E in S1. simpl in S1.
    apply vis_side_Rt; [reflexivity|reflexivity|exact S1].
Qed.

(* -- make_value: everything below becomes inline; a dotted inline table (flattened into key/value
      lines, its keys may carry comments) cannot be carried over -- *)
Fixpoint mv_ok (i : item) : bool :=
  match i with
  | INone => false
  | IValue v => negb (is_dotted_inl (IValue v))
  | ITable t => tbl_mv_ok t
  | IAot ts _ => forallb tbl_mv_ok ts
  end
with tbl_mv_ok (t : tbl) : bool :=
  match t with Tbl items _ _ _ _ _ => forallb (fun kv => match kv with (_, i) => mv_ok i end) items end.
(* the slot itself: a value stays what it is *)
Definition mv_good (e : item) : bool := match e with IValue _ => true | _ => mv_ok e end.

Lemma clear_not_dotted v : is_dotted_inl (IValue v) = false -> is_dotted_inl (IValue (value_clear_decor v)) = false.
Proof. destruct v as [| |items pre im [|] d sp]; simpl; auto. Qed.

Lemma make_value_wf :
  (forall i, iwf KEntry i -> mv_ok i = true ->
             exists v', make_value i = IValue v' /\ is_dotted_inl (IValue v') = false /\ value_wf CLine v') /\
  (forall t b, tbl_wf b t -> tbl_mv_ok t = true -> forall c, value_wf c (tbl_into_inline t)).
Proof.
  pose (Pi := fun i => iwf KEntry i -> mv_ok i = true ->
                       exists v', make_value i = IValue v' /\ is_dotted_inl (IValue v') = false /\ value_wf CLine v').
  pose (Pt := fun t => forall b, tbl_wf b t -> tbl_mv_ok t = true -> forall c, value_wf c (tbl_into_inline t)).
  pose (Pv := fun _ : value => True).
  assert (Htb : forall items d im dt p sp,
             Forall (fun kv => Pi (snd kv)) items -> Pt (Tbl items d im dt p sp)).
  { intros items d im dt p sp IH b Hw Hm c. apply tbl_wf_eq in Hw as (_ & Hn & Ha).
    cbn [tbl_into_inline]. unfold inline_with_pairs_fmt. cbn [tbl_mv_ok] in Hm.
    simpl. split; [apply vdecor_ok_default|]. split; [apply (raw_ok_empty SWs)|]. split.
    - rewrite kkeys_decorate. unfold kkeys in *. rewrite map_map.
      replace (map (fun x : key * item => k_key (fst (let (k, i) := x in (k, make_value i)))) items)
        with (map (fun kv : key * item => k_key (fst kv)) items); [exact Hn|].
      apply map_ext. intros [k i]. reflexivity.
    - unfold decorate_items. rewrite map_map. apply all_P_map. apply all_P_forall. intros [k i] Hin.
      rewrite Forall_forall in IH. rewrite forallb_forall in Hm.
      destruct (all_P_In _ _ _ Ha Hin) as [Hk Hi].
      destruct (IH _ Hin Hi (Hm _ Hin)) as (v' & E & Hd & Hv). simpl in E. cbn [fst snd]. rewrite E. cbn [fst snd].
      split; [destruct Hk as (Hr & _ & _); split; [exact Hr|split; apply decor_ok_default]|].
      apply (pair_wf_value false _ (clear_not_dotted v' Hd)). apply (value_wf_clear CLine CInl v' Hv). }
  assert (Hi : forall i, Pi i).
  { apply (item_ind4 Pv Pi Pt); unfold Pv, Pi; try (intros; exact I).
    - intros H _. contradiction.
    - intros v _ Hw Hm. exists v. split; [reflexivity|]. simpl in Hm. apply negb_true_iff in Hm.
      split; [exact Hm|]. apply (pair_wf_value true v Hm). exact Hw.
    - intros t IH [Hw _] Hm. exists (tbl_into_inline t). split; [reflexivity|].
      split; [destruct t; reflexivity|]. exact (IH false Hw Hm CLine).
    - intros ts sp IH [Hne Ha] Hm. cbn [make_value mv_ok] in *. eexists. split; [reflexivity|].
      split; [reflexivity|]. unfold array_with_vec_fmt. simpl.
      split; [apply decor_ok_default|]. split; [constructor|].
      apply decorate_elems_ok. apply all_P_map. apply all_P_forall. intros e Hin.
      rewrite Forall_forall in IH. rewrite forallb_forall in Hm.
      exact (IH e Hin false (proj2 (all_P_In _ _ _ Ha Hin)) (Hm e Hin) CArr).
    - exact Htb. }
  split; [exact Hi|].
  intros [items d im dt p sp]. apply Htb. rewrite Forall_forall. intros kv _. apply Hi.
Qed.

Lemma make_value_slot_wf e : iwf KEntry e -> mv_good e = true -> iwf KEntry (make_value e).
Proof.
  intros Hw Hg. destruct e as [|v|t|ts sp]; try exact Hw.
  - destruct (proj1 make_value_wf (ITable t) Hw Hg) as (v' & E & Hd & Hv). rewrite E.
    apply (pair_wf_value true v' Hd). exact Hv.
  - destruct (proj1 make_value_wf (IAot ts sp) Hw Hg) as (v' & E & Hd & Hv). rewrite E.
    apply (pair_wf_value true v' Hd). exact Hv.
Qed.

(* ==================================================================================== *)
(** * sort_values *)
From Coq Require Import Sorting.Permutation.

Lemma kv_ins_sorted_perm x m : Permutation (kv_ins_sorted x m) (x :: m).
Proof.
  induction m as [|y m IH]; simpl; [reflexivity|].
  destruct (key_leb (k_key (fst x)) (k_key (fst y))); [reflexivity|].
  rewrite IH. apply perm_swap.
Qed.
Lemma kv_sort_keys_perm m : Permutation (kv_sort_keys m) m.
Proof. induction m as [|x m IH]; simpl; [reflexivity|]. rewrite kv_ins_sorted_perm. constructor. exact IH. Qed.

Lemma all_P_perm {A} (Q : A -> Prop) l l' : Permutation l l' -> all_P Q l' -> all_P Q l.
Proof.
  intros Hp Ha. apply all_P_forall. intros x Hx. apply (all_P_In Q l' x Ha). eapply Permutation_in; eauto.
Qed.
Lemma existsb_perm {A} (g : A -> bool) l l' : Permutation l l' -> existsb g l = existsb g l'.
Proof.
  induction 1; simpl; try congruence.
  - destruct (g y), (g x); reflexivity.
Qed.
Lemma NoDup_kkeys_perm m m' : Permutation m m' -> NoDup (kkeys m') -> NoDup (kkeys m).
Proof. intros Hp Hn. eapply Permutation_NoDup; [|exact Hn]. apply Permutation_map. symmetry. exact Hp. Qed.
Lemma perm_nonnil {A} (l l' : list A) : Permutation l l' -> l' <> [] -> l <> [].
Proof. intros Hp Hn ->. apply Hn. apply Permutation_nil. exact Hp. Qed.

Definition sort_child_t (kv : key * item) : key * item :=
  match kv with
  | (k, i) => (k, match i with
                  | ITable (Tbl _ _ _ true _ _ as sub) => ITable (tbl_sort_values sub)
                  | _ => i
                  end)
  end.
Lemma tbl_sort_values_eq items d im dt p sp :
  tbl_sort_values (Tbl items d im dt p sp) = Tbl (kv_sort_keys (map sort_child_t items)) d im dt p sp.
Proof. reflexivity. Qed.

Lemma kkeys_map_sort_child m : kkeys (map sort_child_t m) = kkeys m.
Proof. unfold kkeys. rewrite map_map. apply map_ext. intros [k i]. reflexivity. Qed.

(* sorting keeps a table well-formed in any slot and exactly as visible *)
Lemma sort_tbl_wf : forall t,
  (forall b, tbl_wf b t -> tbl_wf b (tbl_sort_values t))
  /\ has_line (tbl_sort_values t) = has_line t
  /\ prints_header (tbl_sort_values t) = prints_header t
  /\ t_dotted (tbl_sort_values t) = t_dotted t /\ t_implicit (tbl_sort_values t) = t_implicit t.
Proof.
  pose (Pt := fun t => (forall b, tbl_wf b t -> tbl_wf b (tbl_sort_values t))
                       /\ has_line (tbl_sort_values t) = has_line t
                       /\ prints_header (tbl_sort_values t) = prints_header t
                       /\ t_dotted (tbl_sort_values t) = t_dotted t /\ t_implicit (tbl_sort_values t) = t_implicit t).
  pose (Pi := fun i => match i with ITable t => Pt t | _ => True end).
  pose (Pv := fun _ : value => True).
  apply (tbl_ind4 Pv Pi Pt); unfold Pv, Pi; try (intros; exact I); try (intros; assumption).
  intros items d im dt p sp IH. rewrite Forall_forall in IH.
  assert (Hgl : forall kv, In kv items -> gl (sort_child_t kv) = gl kv).
  { intros [k i] Hin. specialize (IH _ Hin). simpl in IH. unfold gl. simpl.
    destruct i as [|v|[m0 d0 im0 dt0 p0 sp0]|]; try reflexivity. destruct dt0; [|reflexivity].
    destruct IH as (_ & Hl & _ & Hd & _). unfold hl. rewrite Hl, Hd. reflexivity. }
  assert (Hgp : forall kv, In kv items -> gp (sort_child_t kv) = gp kv).
  { intros [k i] Hin. specialize (IH _ Hin). simpl in IH. unfold gp. simpl.
    destruct i as [|v|[m0 d0 im0 dt0 p0 sp0]|]; try reflexivity. destruct dt0; [|reflexivity].
    destruct IH as (_ & Hl & Hp & Hd & Hi). unfold ph, shown. rewrite Hl, Hp, Hd, Hi. reflexivity. }
  assert (Hex : forall g, (forall kv, In kv items -> g (sort_child_t kv) = g kv) ->
                          existsb g (kv_sort_keys (map sort_child_t items)) = existsb g items).
  { intros g Hg. rewrite (existsb_perm g _ _ (kv_sort_keys_perm _)).
    clear -Hg. induction items as [|x l IHl]; simpl; [reflexivity|].
    rewrite Hg by (left; reflexivity). rewrite IHl; [reflexivity|]. intros. apply Hg. right. assumption. }
  unfold Pt. rewrite tbl_sort_values_eq. split; [|split; [|split; [|split; reflexivity]]].
  - intros b Hw. apply tbl_wf_eq in Hw as (Hd & Hn & Ha). apply tbl_wf_eq. split; [exact Hd|]. split.
    + apply (NoDup_kkeys_perm _ _ (kv_sort_keys_perm _)). rewrite kkeys_map_sort_child. exact Hn.
    + apply (all_P_perm _ _ _ (kv_sort_keys_perm _)). apply all_P_map. apply all_P_forall. intros [k i] Hin.
      destruct (all_P_In _ _ _ Ha Hin) as [Hk Hi]. split; [exact Hk|]. simpl.
      destruct i as [|v|[m0 d0 im0 dt0 p0 sp0]|]; try exact Hi. destruct dt0; [|exact Hi].
      pose proof (IH _ Hin) as IHk. cbn [snd] in IHk. destruct IHk as (Hwf & Hl & Hph & Hdd & _).
      destruct Hi as [Hs Hv]. split; [apply Hwf; exact Hs|].
      unfold vis_cond in *. rewrite Hdd, Hl, Hph. exact Hv.
  - rewrite !has_line_eq. apply Hex. exact Hgl.
  - rewrite !prints_header_eq. apply Hex. exact Hgp.
Qed.

Definition sort_child_v (kv : key * item) : key * item :=
  match kv with
  | (k, i) => (k, match i with
                  | IValue (VInline _ _ _ true _ _ as sub) => IValue (inline_sort_values sub)
                  | _ => i
                  end)
  end.
Lemma kkeys_map_sort_child_v m : kkeys (map sort_child_v m) = kkeys m.
Proof. unfold kkeys. rewrite map_map. apply map_ext. intros [k i]. reflexivity. Qed.

(* sorting keeps an inline table well-formed in any slot *)
Lemma sort_inline_wf : forall v,
  (forall c, value_wf c v -> value_wf c (inline_sort_values v))
  /\ (forall line, pair_wf line (IValue v) -> pair_wf line (IValue (inline_sort_values v))).
Proof.
  pose (Pv := fun v => (forall c, value_wf c v -> value_wf c (inline_sort_values v))
                       /\ (forall line, pair_wf line (IValue v) -> pair_wf line (IValue (inline_sort_values v)))).
  pose (Pi := fun i => match i with IValue v => Pv v | _ => True end).
  pose (Pt := fun _ : tbl => True).
  apply (value_ind4 Pv Pi Pt); unfold Pt, Pi; try (intros; exact I); try (intros; assumption).
  - intros s r d. split; intros; assumption.
  - intros vals tr c d sp _. split; intros; assumption.
  - intros items pre im dt d sp IH. rewrite Forall_forall in IH.
    assert (Hall : forall L, all_P (fun kv => key_wf L (fst kv) /\ pair_wf L (snd kv)) items ->
                             all_P (fun kv => key_wf L (fst kv) /\ pair_wf L (snd kv))
                                   (kv_sort_keys (map sort_child_v items))).
    { intros L Ha. apply (all_P_perm _ _ _ (kv_sort_keys_perm _)). apply all_P_map. apply all_P_forall.
      intros [k i] Hin. destruct (all_P_In _ _ _ Ha Hin) as [Hk Hi]. split; [exact Hk|]. simpl.
      destruct i as [|[s0 r0 d0|vals0 tr0 c0 d0 sp0|items0 pre0 im0 dt0 d0 sp0]| |]; try exact Hi.
      destruct dt0; [|exact Hi]. exact (proj2 (IH _ Hin) L Hi). }
    assert (Hnd : NoDup (kkeys items) -> NoDup (kkeys (kv_sort_keys (map sort_child_v items)))).
    { intro Hn. apply (NoDup_kkeys_perm _ _ (kv_sort_keys_perm _)). rewrite kkeys_map_sort_child_v. exact Hn. }
    assert (Hne : items <> [] -> kv_sort_keys (map sort_child_v items) <> []).
    { intro Hn. apply (perm_nonnil _ _ (kv_sort_keys_perm _)). destruct items; [contradiction|discriminate]. }
    assert (Hv : forall c, value_wf c (VInline items pre im dt d sp) ->
                           value_wf c (VInline (kv_sort_keys (map sort_child_v items)) pre im dt d sp)).
    { intros c (H1 & H2 & H3 & H4). split; [exact H1|]. split; [exact H2|]. split; [apply Hnd; exact H3|apply Hall; exact H4]. }
    split; [exact Hv|].
    intros line H. change (inline_sort_values (VInline items pre im dt d sp))
                     with (VInline (kv_sort_keys (map sort_child_v items)) pre im dt d sp).
    destruct dt.
    + simpl in *. destruct H as (H1 & H2 & H3). split; [apply Hne; exact H1|]. split; [apply Hnd; exact H2|apply Hall; exact H3].
    + exact (Hv _ H).
Qed.

Lemma op_sort_node : node_ok op_sort.
Proof.
  intros c i i' H Hw.
  destruct i as [|[sc r d|vals tr cm d sp|items pre im dt d sp]|t|ts sp]; unfold op_sort in H; try discriminate;
    injection H as <-.
  - split; [|exact I]. set (v := VInline items pre im dt d sp) in *.
    destruct (sort_inline_wf v) as [Hv Hp].
    destruct c as [| | |l|]; [exfalso; exact Hw|exact (Hp true Hw)|exfalso; exact Hw|exact (Hp l Hw)|exact (Hv CArr Hw)].
  - destruct (sort_tbl_wf t) as (Hwf & Hl & Hp & Hd & Hi).
    assert (Hr : Rt t (tbl_sort_values t)).
    { unfold Rt, hl, ph, shown. rewrite Hl, Hp, Hd, Hi. repeat split; auto. }
    split; [|exact Hr].
    destruct c as [| | |l|]; cbn [iwf] in *; try contradiction.
    + apply Hwf. exact Hw.
    + destruct Hw as [Hw Hv]. split; [apply Hwf; exact Hw|exact (vis_cond_keep _ _ Hv Hr)].
    + destruct Hw as [Hdt Hw]. split; [rewrite Hd; exact Hdt|apply Hwf; exact Hw].
Qed.

(* ==================================================================================== *)
(** * sort_values_by: the same, whatever the comparator (only "a permutation" is used) *)

Lemma kv_ins_by_perm le x m : Permutation (kv_ins_by le x m) (x :: m).
Proof.
  induction m as [|y m IH]; simpl; [reflexivity|].
  destruct (le x y); [reflexivity|]. rewrite IH. apply perm_swap.
Qed.
Lemma kv_sort_by_perm le m : Permutation (kv_sort_by le m) m.
Proof. induction m as [|x m IH]; simpl; [reflexivity|]. rewrite kv_ins_by_perm. constructor. exact IH. Qed.

Section SortBy.
Variable cm : scmp.

Definition sort_by_child_t (kv : key * item) : key * item :=
  match kv with
  | (k, i) => (k, match i with
                  | ITable (Tbl _ _ _ true _ _ as sub) => ITable (tbl_sort_by cm sub)
                  | _ => i
                  end)
  end.
Lemma tbl_sort_by_eq items d im dt p sp :
  tbl_sort_by cm (Tbl items d im dt p sp) = Tbl (kv_sort_by (tcmp_le cm) (map sort_by_child_t items)) d im dt p sp.
Proof. reflexivity. Qed.

Lemma kkeys_map_sort_by_child m : kkeys (map sort_by_child_t m) = kkeys m.
Proof. unfold kkeys. rewrite map_map. apply map_ext. intros [k i]. reflexivity. Qed.

(* sorting keeps a table well-formed in any slot and exactly as visible *)
Lemma sort_by_tbl_wf : forall t,
  (forall b, tbl_wf b t -> tbl_wf b (tbl_sort_by cm t))
  /\ has_line (tbl_sort_by cm t) = has_line t
  /\ prints_header (tbl_sort_by cm t) = prints_header t
  /\ t_dotted (tbl_sort_by cm t) = t_dotted t /\ t_implicit (tbl_sort_by cm t) = t_implicit t.
Proof.
  pose (Pt := fun t => (forall b, tbl_wf b t -> tbl_wf b (tbl_sort_by cm t))
                       /\ has_line (tbl_sort_by cm t) = has_line t
                       /\ prints_header (tbl_sort_by cm t) = prints_header t
                       /\ t_dotted (tbl_sort_by cm t) = t_dotted t /\ t_implicit (tbl_sort_by cm t) = t_implicit t).
  pose (Pi := fun i => match i with ITable t => Pt t | _ => True end).
  pose (Pv := fun _ : value => True).
  apply (tbl_ind4 Pv Pi Pt); unfold Pv, Pi; try (intros; exact I); try (intros; assumption).
  intros items d im dt p sp IH. rewrite Forall_forall in IH.
  assert (Hgl : forall kv, In kv items -> gl (sort_by_child_t kv) = gl kv).
  { intros [k i] Hin. specialize (IH _ Hin). simpl in IH. unfold gl. simpl.
    destruct i as [|v|[m0 d0 im0 dt0 p0 sp0]|]; try reflexivity. destruct dt0; [|reflexivity].
    destruct IH as (_ & Hl & _ & Hd & _). unfold hl. rewrite Hl, Hd. reflexivity. }
  assert (Hgp : forall kv, In kv items -> gp (sort_by_child_t kv) = gp kv).
  { intros [k i] Hin. specialize (IH _ Hin). simpl in IH. unfold gp. simpl.
    destruct i as [|v|[m0 d0 im0 dt0 p0 sp0]|]; try reflexivity. destruct dt0; [|reflexivity].
    destruct IH as (_ & Hl & Hp & Hd & Hi). unfold ph, shown. rewrite Hl, Hp, Hd, Hi. reflexivity. }
  assert (Hex : forall g, (forall kv, In kv items -> g (sort_by_child_t kv) = g kv) ->
                          existsb g (kv_sort_by (tcmp_le cm) (map sort_by_child_t items)) = existsb g items).
  { intros g Hg. rewrite (existsb_perm g _ _ (kv_sort_by_perm _ _)).
    clear -Hg. induction items as [|x l IHl]; simpl; [reflexivity|].
    rewrite Hg by (left; reflexivity). rewrite IHl; [reflexivity|]. intros. apply Hg. right. assumption. }
  unfold Pt. rewrite tbl_sort_by_eq. split; [|split; [|split; [|split; reflexivity]]].
  - intros b Hw. apply tbl_wf_eq in Hw as (Hd & Hn & Ha). apply tbl_wf_eq. split; [exact Hd|]. split.
    + apply (NoDup_kkeys_perm _ _ (kv_sort_by_perm _ _)). rewrite kkeys_map_sort_by_child. exact Hn.
    + apply (all_P_perm _ _ _ (kv_sort_by_perm _ _)). apply all_P_map. apply all_P_forall. intros [k i] Hin.
      destruct (all_P_In _ _ _ Ha Hin) as [Hk Hi]. split; [exact Hk|]. simpl.
      destruct i as [|v|[m0 d0 im0 dt0 p0 sp0]|]; try exact Hi. destruct dt0; [|exact Hi].
      pose proof (IH _ Hin) as IHk. cbn [snd] in IHk. destruct IHk as (Hwf & Hl & Hph & Hdd & _).
      destruct Hi as [Hs Hv]. split; [apply Hwf; exact Hs|].
      unfold vis_cond in *. rewrite Hdd, Hl, Hph. exact Hv.
  - rewrite !has_line_eq. apply Hex. exact Hgl.
  - rewrite !prints_header_eq. apply Hex. exact Hgp.
Qed.

Definition sort_by_child_v (kv : key * item) : key * item :=
  match kv with
  | (k, i) => (k, match i with
                  | IValue (VInline _ _ _ true _ _ as sub) => IValue (inline_sort_by cm sub)
                  | _ => i
                  end)
  end.
Lemma kkeys_map_sort_by_child_v m : kkeys (map sort_by_child_v m) = kkeys m.
Proof. unfold kkeys. rewrite map_map. apply map_ext. intros [k i]. reflexivity. Qed.

(* sorting keeps an inline table well-formed in any slot *)
Lemma sort_by_inline_wf : forall v,
  (forall c, value_wf c v -> value_wf c (inline_sort_by cm v))
  /\ (forall line, pair_wf line (IValue v) -> pair_wf line (IValue (inline_sort_by cm v))).
Proof.
  pose (Pv := fun v => (forall c, value_wf c v -> value_wf c (inline_sort_by cm v))
                       /\ (forall line, pair_wf line (IValue v) -> pair_wf line (IValue (inline_sort_by cm v)))).
  pose (Pi := fun i => match i with IValue v => Pv v | _ => True end).
  pose (Pt := fun _ : tbl => True).
  apply (value_ind4 Pv Pi Pt); unfold Pt, Pi; try (intros; exact I); try (intros; assumption).
  - intros s r d. split; intros; assumption.
  - intros vals tr c d sp _. split; intros; assumption.
  - intros items pre im dt d sp IH. rewrite Forall_forall in IH.
    assert (Hall : forall L, all_P (fun kv => key_wf L (fst kv) /\ pair_wf L (snd kv)) items ->
                             all_P (fun kv => key_wf L (fst kv) /\ pair_wf L (snd kv))
                                   (kv_sort_by (icmp_le cm) (map sort_by_child_v items))).
    { intros L Ha. apply (all_P_perm _ _ _ (kv_sort_by_perm _ _)). apply all_P_map. apply all_P_forall.
      intros [k i] Hin. destruct (all_P_In _ _ _ Ha Hin) as [Hk Hi]. split; [exact Hk|]. simpl.
      destruct i as [|[s0 r0 d0|vals0 tr0 c0 d0 sp0|items0 pre0 im0 dt0 d0 sp0]| |]; try exact Hi.
      destruct dt0; [|exact Hi]. exact (proj2 (IH _ Hin) L Hi). }
    assert (Hnd : NoDup (kkeys items) -> NoDup (kkeys (kv_sort_by (icmp_le cm) (map sort_by_child_v items)))).
    { intro Hn. apply (NoDup_kkeys_perm _ _ (kv_sort_by_perm _ _)). rewrite kkeys_map_sort_by_child_v. exact Hn. }
    assert (Hne : items <> [] -> kv_sort_by (icmp_le cm) (map sort_by_child_v items) <> []).
    { intro Hn. apply (perm_nonnil _ _ (kv_sort_by_perm _ _)). destruct items; [contradiction|discriminate]. }
    assert (Hv : forall c, value_wf c (VInline items pre im dt d sp) ->
                           value_wf c (VInline (kv_sort_by (icmp_le cm) (map sort_by_child_v items)) pre im dt d sp)).
    { intros c (H1 & H2 & H3 & H4). split; [exact H1|]. split; [exact H2|]. split; [apply Hnd; exact H3|apply Hall; exact H4]. }
    split; [exact Hv|].
    intros line H. change (inline_sort_by cm (VInline items pre im dt d sp))
                     with (VInline (kv_sort_by (icmp_le cm) (map sort_by_child_v items)) pre im dt d sp).
    destruct dt.
    + simpl in *. destruct H as (H1 & H2 & H3). split; [apply Hne; exact H1|]. split; [apply Hnd; exact H2|apply Hall; exact H3].
    + exact (Hv _ H).
Qed.

Lemma op_sort_by_node : node_ok (op_sort_by cm).
Proof.
  intros c i i' H Hw.
  destruct i as [|[sc r d|vals tr cm0 d sp|items pre im dt d sp]|t|ts sp]; unfold op_sort_by in H; try discriminate.
  - destruct (inline_is_map (VInline items pre im dt d sp)); [|discriminate]. injection H as <-.
    split; [|exact I]. set (v := VInline items pre im dt d sp) in *.
    destruct (sort_by_inline_wf v) as [Hv Hp].
    destruct c as [| | |l|]; [exfalso; exact Hw|exact (Hp true Hw)|exfalso; exact Hw|exact (Hp l Hw)|exact (Hv CArr Hw)].
  - destruct (tbl_is_map t); [|discriminate]. injection H as <-.
    destruct (sort_by_tbl_wf t) as (Hwf & Hl & Hp & Hd & Hi).
    assert (Hr : Rt t (tbl_sort_by cm t)).
    { unfold Rt, hl, ph, shown. rewrite Hl, Hp, Hd, Hi. repeat split; auto. }
    split; [|exact Hr].
    destruct c as [| | |l|]; cbn [iwf] in *; try contradiction.
    + apply Hwf. exact Hw.
    + destruct Hw as [Hw Hv]. split; [apply Hwf; exact Hw|exact (vis_cond_keep _ _ Hv Hr)].
    + destruct Hw as [Hdt Hw]. split; [rewrite Hd; exact Hdt|apply Hwf; exact Hw].
Qed.

End SortBy.

(* the representation invariant `tbl_is_map` / `inline_is_map` under which Model/Edit.v defines sort_values_by holds
   for every well-formed node (Spec/WF.v asks for distinct keys everywhere): on well-formed trees sort_values_by is
   defined exactly where sort_values is *)
Lemma NoDup_keys_distinct l : NoDup l -> keys_distinct l = true.
Proof.
  induction 1 as [|k l Hn _ IH]; [reflexivity|]. cbn [keys_distinct]. rewrite IH, andb_true_r. apply negb_true_iff.
  destruct (existsb (bytes_eqb k) l) eqn:E; [|reflexivity]. exfalso. apply Hn.
  apply existsb_exists in E as (y & Hy & Ey). apply bytes_eqb_eq in Ey. subst y. exact Hy.
Qed.

Lemma wf_is_map :
  (forall v, (forall c, value_wf c v -> inline_is_map v = true)
             /\ (forall line, pair_wf line (IValue v) -> inline_is_map v = true))
  /\ (forall t b, tbl_wf b t -> tbl_is_map t = true).
Proof.
  pose (Pv := fun v => (forall c, value_wf c v -> inline_is_map v = true)
                       /\ (forall line, pair_wf line (IValue v) -> inline_is_map v = true)).
  pose (Pt := fun t => forall b, tbl_wf b t -> tbl_is_map t = true).
  pose (Pi := fun i => match i with IValue v => Pv v | ITable t => Pt t | _ => True end).
  assert (Hinl : forall items pre im dt d sp,
             Forall (fun kv => Pi (snd kv)) items -> Pv (VInline items pre im dt d sp)).
  { intros items pre im dt d sp IH. rewrite Forall_forall in IH.
    assert (G : forall L, NoDup (kkeys items) -> all_P (fun kv => key_wf L (fst kv) /\ pair_wf L (snd kv)) items ->
                          inline_is_map (VInline items pre im dt d sp) = true).
    { intros L Hn Ha. rewrite inline_is_map_eq. apply andb_true_iff. split; [exact (NoDup_keys_distinct _ Hn)|].
      apply forallb_forall. intros [k i] Hin. cbn [snd].
      destruct i as [|[s0 r0 d0|vals0 tr0 c0 d0 sp0|items0 pre0 im0 dt0 d0 sp0]| |]; try reflexivity.
      destruct dt0; [|reflexivity]. destruct (all_P_In _ _ _ Ha Hin) as [_ Hp]. cbn [snd] in Hp.
      exact (proj2 (IH _ Hin) L Hp). }
    split.
    - intros c (_ & _ & Hn & Ha). exact (G false Hn Ha).
    - intros line H. destruct dt.
      + simpl in H. destruct H as (_ & Hn & Ha). exact (G line Hn Ha).
      + destruct H as (_ & _ & Hn & Ha). exact (G false Hn Ha). }
  assert (Htb : forall items d im dt p sp,
             Forall (fun kv => Pi (snd kv)) items -> Pt (Tbl items d im dt p sp)).
  { intros items d im dt p sp IH b Hw. rewrite Forall_forall in IH. apply tbl_wf_eq in Hw as (_ & Hn & Ha).
    rewrite tbl_is_map_eq. apply andb_true_iff. split; [exact (NoDup_keys_distinct _ Hn)|].
    apply forallb_forall. intros [k i] Hin. cbn [snd].
    destruct i as [|v|[m0 d0 im0 dt0 p0 sp0]|]; try reflexivity. destruct dt0; [|reflexivity].
    destruct (all_P_In _ _ _ Ha Hin) as [_ Hi]. cbn [snd iwf] in Hi. exact (IH _ Hin false (proj1 Hi)). }
  split.
  - apply (value_ind4 Pv Pi Pt); unfold Pi; try (intros; exact I); try (intros; assumption); try exact Hinl; try exact Htb.
    + intros s r d. split; reflexivity.
    + intros vals tr c d sp _. split; reflexivity.
  - apply (tbl_ind4 Pv Pi Pt); unfold Pi; try (intros; exact I); try (intros; assumption); try exact Hinl; try exact Htb.
    + intros s r d. split; reflexivity.
    + intros vals tr c d sp _. split; reflexivity.
Qed.

Lemma op_sort_by_defined cm c i : iwf c i -> (op_sort_by cm i = None <-> op_sort i = None).
Proof.
  intro Hw. destruct i as [|[sc r d|vals tr c0 d sp|items pre im dt d sp]|t|ts sp]; try (split; reflexivity).
  - set (v := VInline items pre im dt d sp) in *. assert (E : inline_is_map v = true).
    { destruct (proj1 wf_is_map v) as [Hv Hp].
      destruct c as [| | |l|]; [exfalso; exact Hw|exact (Hp true Hw)|exfalso; exact Hw|exact (Hp l Hw)|exact (Hv CArr Hw)]. }
    unfold op_sort_by, op_sort. fold v. rewrite E. split; discriminate.
  - assert (E : tbl_is_map t = true).
    { destruct c as [| | |l|]; cbn [iwf] in Hw; try contradiction.
      - exact (proj2 wf_is_map t true Hw).
      - exact (proj2 wf_is_map t false (proj1 Hw)).
      - exact (proj2 wf_is_map t false (proj2 Hw)). }
    unfold op_sort_by, op_sort. rewrite E. split; discriminate.
Qed.

(* ==================================================================================== *)
(** * IndexMut: doc[k1]...[kn] = x *)

Definition is_value_pay (x : ipay) : bool := match x with IPValue _ => true | IPTable => false end.
Definition ipay_ok (x : ipay) : bool := match x with IPValue v => pv_ok v | IPTable => true end.

(* the side condition along the walk: a table may only be stored under a table (never under an
   inline table, existing or auto-vivified), and every table on the way stays as visible *)
Fixpoint iset_side (ks : list bytes) (x : ipay) (it : item) : bool :=
  match ks with
  | [] => true
  | k :: ks' =>
    match it with
    | INone => is_value_pay x
    | ITable (Tbl items _ _ _ _ _) =>
      (match ks' with [] => true | _ => iset_side ks' x (snd (entry_or_none items k)) end)
      && tbl_after (iset ks (build_item x)) it
    | IValue (VInline items _ _ _ _ _) =>
      match ks' with [] => is_value_pay x | _ => iset_side ks' x (snd (entry_or_none items k)) end
    | _ => true
    end
  end.

Lemma entry_or_none_wf items k :
  (forall k' i, In (k', i) items -> i <> INone) ->
  entry_or_none items k = match kv_get items k with
                          | Some (_, i) => (items, i)
                          | None => (kv_push items (key_new k) INone, INone)
                          end.
Proof. intro H. unfold entry_or_none. rewrite (kv_purge_noop items k H). reflexivity. Qed.

Lemma entry_or_none_single k : entry_or_none [(key_new k, INone)] k = ([(key_new k, INone)], INone).
Proof. unfold entry_or_none, kv_purge. simpl. rewrite ?bytes_eqb_refl. simpl. rewrite ?bytes_eqb_refl. reflexivity. Qed.

Lemma build_item_value_wf x c : is_value_pay x = true -> ipay_ok x = true ->
  exists v, build_item x = IValue v /\ is_dotted_inl (IValue v) = false /\ value_wf c v.
Proof.
  destruct x as [v|]; [|discriminate]. intros _ Hp. exists (build_value v).
  split; [reflexivity|]. split; [apply build_value_not_dotted|apply build_value_wf; exact Hp].
Qed.

(* below a missing entry everything is created as (plain) inline tables *)
Lemma iset_none_wf x : is_value_pay x = true -> ipay_ok x = true ->
  forall ks it', ks <> [] -> forallb utf8_valid_b ks = true ->
  iset ks (build_item x) INone = Some it' ->
  exists v, it' = IValue v /\ is_dotted_inl (IValue v) = false /\ value_wf CInl v.
Proof.
  intros Hv Hp. induction ks as [|k ks IH]; intros it' Hne Hu H; [contradiction|].
  simpl in Hu. apply andb_true_iff in Hu as [Hk Hu].
  cbn [iset] in H. rewrite entry_or_none_single in H.
  destruct (iset ks (build_item x) INone) as [slot'|] eqn:E; simpl in H; [|discriminate]. injection H as <-.
  rewrite bytes_eqb_refl. eexists. split; [reflexivity|]. split; [reflexivity|].
  assert (Hs : pair_wf false slot').
  { destruct ks as [|k2 ks2].
    - simpl in E. injection E as <-. destruct (build_item_value_wf x CInl Hv Hp) as (v & -> & Hd & Hw).
      apply (pair_wf_value false v Hd). exact Hw.
    - destruct (IH slot' ltac:(discriminate) Hu eq_refl) as (v & -> & Hd & Hw).
      apply (pair_wf_value false v Hd). exact Hw. }
  simpl. split; [apply decor_ok_default|]. split; [exact ws_nil|]. split; [repeat constructor; simpl; tauto|].
  split; [|exact I]. split; [apply key_wf_new; exact Hk|exact Hs].
Qed.

Lemma iset_wf x : ipay_ok x = true ->
  forall ks c it it', forallb utf8_valid_b ks = true ->
  iset ks (build_item x) it = Some it' -> ks <> [] -> iwf c it -> iset_side ks x it = true ->
  iwf c it' /\ Ri it it'.
Proof.
  intros Hp. induction ks as [|k ks IH]; intros c it it' Hu H Hne Hw Hs; [contradiction|].
  simpl in Hu. apply andb_true_iff in Hu as [Hk Hu].
  (* what is stored under k afterwards, in a slot whose entries live in context cc *)
  assert (Hslot : forall cc slot slot', iset ks (build_item x) slot = Some slot' ->
                    (slot = INone \/ iwf cc slot) ->
                    (cc = KEntry \/ exists L, cc = KPair L) ->
                    match ks with
                    | [] => match cc with KEntry => true | _ => is_value_pay x end
                    | _ => iset_side ks x slot
                    end = true ->
                    iwf cc slot').
  { intros cc slot slot' E Hsl Hcc Hside. destruct ks as [|k2 ks2].
    - simpl in E. injection E as <-.
      destruct Hcc as [->|[L ->]].
      + destruct x as [v|]; [|exact tbl_new_entry]. simpl.
        apply (pair_wf_value true _ (build_value_not_dotted v)). apply build_value_wf. exact Hp.
      + destruct (build_item_value_wf x (if L then CLine else CInl) Hside Hp) as (v & -> & Hd & Hv).
        apply (pair_wf_value L v Hd). exact Hv.
    - destruct Hsl as [->|Hsl].
      + simpl in Hside.
        destruct (iset_none_wf x Hside Hp (k2 :: ks2) slot' ltac:(discriminate) Hu E) as (v & -> & Hd & Hv).
        destruct Hcc as [->|[L ->]].
        * apply (pair_wf_value true v Hd). apply value_wf_inl_line. exact Hv.
        * apply (pair_wf_value L v Hd). destruct L; [apply value_wf_inl_line|]; exact Hv.
      + exact (proj1 (IH cc slot slot' Hu E ltac:(discriminate) Hsl Hside)). }
  cbn [iset] in H.
  destruct it as [|[sc r d|vals tr cm d sp|items pre im dt d sp]|[items d im dt p sp]|ts sp]; try discriminate.
  - exfalso. destruct c as [| | |l|]; try destruct l; exact Hw.
  - (* inline table *)
    destruct (inline_node_parts _ _ _ _ _ _ _ Hw) as [Hn Ha]. set (L := inline_line c dt) in *.
    rewrite (entry_or_none_wf items k (pairs_no_none L items Ha)) in H.
    cbn [iset_side] in Hs. rewrite (entry_or_none_wf items k (pairs_no_none L items Ha)) in Hs.
    destruct (kv_get items k) as [[k' i]|] eqn:G.
    + cbn [snd] in Hs. destruct (iset ks (build_item x) i) as [slot'|] eqn:E; simpl in H; [|discriminate]. injection H as <-.
      split; [|exact I].
      destruct (kv_get_In' _ _ _ _ G) as [Hin _]. destruct (all_P_In _ _ _ Ha Hin) as [Hk' Hi].
      assert (Hsl : iwf (KPair L) slot').
      { apply (Hslot (KPair L) i slot' E (or_intror Hi) (or_intror (ex_intro _ L eq_refl))).
        destruct ks; exact Hs. }
      apply (inline_node_rebuild c items _ pre im dt d sp Hw).
      * rewrite kkeys_set. exact Hn.
      * apply kkeys_nonnil, kkeys_set.
      * apply all_P_set; [exact Ha|]. intros k1 Hk1 _. split; [|exact Hsl].
        apply in_map_iff in Hk1 as ([k2 i2] & <- & Hin2). exact (proj1 (all_P_In _ _ _ Ha Hin2)).
    + cbn [snd] in Hs. destruct (iset ks (build_item x) INone) as [slot'|] eqn:E; simpl in H; [|discriminate]. injection H as <-.
      split; [|exact I].
      rewrite (kv_get_push_self _ _ _ G).
      assert (Hsl : iwf (KPair L) slot').
      { apply (Hslot (KPair L) INone slot' E (or_introl eq_refl) (or_intror (ex_intro _ L eq_refl))).
        destruct ks; exact Hs. }
      apply (inline_node_rebuild c items _ pre im dt d sp Hw).
      * apply NoDup_kkeys_push; assumption.
      * intros _. apply push_nonnil.
      * apply all_P_push; [exact Ha|]. split; [apply key_wf_new; exact Hk|exact Hsl].
  - (* table *)
    destruct (tbl_node_parts _ _ _ _ _ _ _ Hw) as [Hn Ha].
    assert (Hiset : iset (k :: ks) (build_item x) (ITable (Tbl items d im dt p sp)) = Some it') by exact H.
    rewrite (entry_or_none_wf items k (entries_no_none items Ha)) in H.
    cbn [iset_side] in Hs. apply andb_true_iff in Hs as [Hs Hvis].
    rewrite (entry_or_none_wf items k (entries_no_none items Ha)) in Hs.
    unfold tbl_after in Hvis. rewrite Hiset in Hvis.
    destruct (kv_get items k) as [[k' i]|] eqn:G.
    + cbn [snd] in Hs. destruct (iset ks (build_item x) i) as [slot'|] eqn:E; simpl in H; [|discriminate]. injection H as <-.
      destruct (kv_get_In' _ _ _ _ G) as [Hin _]. destruct (all_P_In _ _ _ Ha Hin) as [Hk' Hi].
      assert (Hsl : iwf KEntry slot').
      { apply (Hslot KEntry i slot' E (or_intror Hi) (or_introl eq_refl)). destruct ks; [reflexivity|exact Hs]. }
      apply (tbl_node_rebuild c items _ d im dt p sp Hw).
      * rewrite kkeys_set. exact Hn.
      * apply all_P_set; [exact Ha|]. intros k1 Hk1 _. split; [|exact Hsl].
        apply in_map_iff in Hk1 as ([k2 i2] & <- & Hin2). exact (proj1 (all_P_In _ _ _ Ha Hin2)).
      * apply vis_side_Rt; [reflexivity|reflexivity|exact Hvis].
    + cbn [snd] in Hs. destruct (iset ks (build_item x) INone) as [slot'|] eqn:E; simpl in H; [|discriminate]. injection H as <-.
      rewrite (kv_get_push_self _ _ _ G) in *.
      assert (Hsl : iwf KEntry slot').
      { apply (Hslot KEntry INone slot' E (or_introl eq_refl) (or_introl eq_refl)). destruct ks; [reflexivity|exact Hs]. }
      apply (tbl_node_rebuild c items _ d im dt p sp Hw).
      * apply NoDup_kkeys_push; assumption.
      * apply all_P_push; [exact Ha|]. split; [apply key_wf_new; exact Hk|exact Hsl].
      * apply vis_side_Rt; [reflexivity|reflexivity|exact Hvis].
Qed.
