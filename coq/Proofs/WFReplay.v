(* Proofs/WFReplay.v — WF backbone for ANY order of the sections.
   Display sorts the sections by position; whatever the order, the printed text has a derivation whose statements are
   `replay_stmts root`: the own statements (header, then key/value lines) of the sections in Display's order — a
   function of the tree, computed without printing.  So, for a tree satisfying all clauses of WF but `order_ok`:
   if these statements are valid under the definition rules of Spec/Defs.v, the printed text is accepted and decodes
   to the tree they define (`WF_print_parse_replay`).  For parsed documents this gives a certified check with no
   other premise (`reparse_replay`): it covers documents whose sections are not in the order of the tree walk.
   (The order-free SEMANTIC theorem — that these statements define the tree itself — is proved for the walk order
   only, Proofs/WFSemDoc.v body_defines.) *)
From TV Require Import Base.Prelude Base.Utf8 Base.Winnow Gen.Consts Spec.Abnf Spec.Lex Spec.Defs Spec.DatetimeSpec Spec.Syntax Spec.WF.
From TV Require Import Model.Datetime Model.Numbers Model.Tree Model.Parse Model.Document Model.Write Model.Encode.
From TV Require Import Proofs.GrammarBase Proofs.GrammarTop Proofs.PrintBackBase.
From TV Require Import Proofs.WFSem Proofs.WFSemDoc Proofs.WFTok Proofs.WFPrintKey Proofs.WFPrintFlat Proofs.WFPrintValue
                       Proofs.WFTree Proofs.WFPrintLine Proofs.WFPrintDoc Proofs.WFPrintTop Proofs.WFReparse Proofs.WFParseTop.
Require Import Lia NArith.

Local Notation section := (tbl * list key * bool)%type.

(* what own_derives asks of a section *)
Definition sec_ok (x : section) : Prop :=
  exists top, tbl_wf top (fst (fst x)) /\ tbl_lim (length (snd (fst x))) 0 (fst (fst x))
              /\ (snd (fst x) <> [] -> top = false /\ Forall (key_wf true) (snd (fst x)) /\ length (snd (fst x)) < LIMIT).
Definition own_abs (x : section) : list (stmt dval) :=
  own_hdr (fst (fst x)) (snd (fst x)) (snd x) ++ line_stmts dval (sb_tbl (fst (fst x))).

Lemma derives_one x : sec_ok x -> derives [x] (own_abs x).
Proof. destruct x as [[t path] arr]. intros (top & H1 & H2 & H3). exact (own_derives t path arr top H1 H2 H3). Qed.
Lemma derives_list L : Forall sec_ok L -> derives L (flat_map own_abs L).
Proof.
  induction 1 as [|x L Hx _ IH]; [apply derives_nil|]. cbn [flat_map]. change (x :: L) with ([x] ++ L).
  apply derives_app; [apply derives_one, Hx|exact IH].
Qed.

(* every section of a well-formed tree is fit to print *)
Lemma sections_ok : forall t top path arr n,
  tbl_wf top t -> tbl_lim (length path) n t -> Forall (key_wf true) path -> (path <> [] -> top = false) ->
  (t_dotted t = false -> (path <> [] -> length path < LIMIT) /\ tbl_lim (length path) 0 t) ->
  Forall sec_ok (sections t path arr).
Proof.
  induction t as [items d im dt p sp IH] using tbl_sub_ind. intros top path arr n Hw Hl Hp Htop Hnd.
  rewrite sections_eq. apply Forall_app. split.
  - cbn [t_dotted]. destruct dt; [constructor|]. destruct (Hnd eq_refl) as [Hlen Hl0]. constructor; [|constructor].
    exists top. cbn [fst snd]. split; [exact Hw|]. split; [exact Hl0|]. intro Hne. auto.
  - destruct (tbl_wf_items top _ Hw) as [_ Hit]. pose proof (tbl_lim_items _ _ _ Hl) as Hli. cbn [t_items] in *.
    apply Forall_forall. intros x Hin. apply in_flat_map in Hin as ([k it] & Hin1 & Hin2).
    destruct (Hit k it Hin1) as [Hk Hi]. specialize (Hli k it Hin1). rewrite Forall_forall in IH. specialize (IH _ Hin1). cbn [snd] in IH.
    assert (Len : length (path ++ [k]) = S (length path)) by (rewrite app_length; cbn; lia).
    assert (Hpk : Forall (key_wf true) (path ++ [k])) by (apply Forall_app; split; [exact Hp|constructor; [exact Hk|constructor]]).
    assert (Hne : path ++ [k] <> []) by (destruct path; discriminate).
    unfold sub_sections in Hin2. cbn [fst snd] in Hin2. destruct it as [|v|sub|ts asp]; try contradiction.
    + destruct Hi as [Hs _]. destruct (t_dotted sub) eqn:Ed.
      * assert (F : Forall sec_ok (sections sub (path ++ [k]) false)).
        { apply (IH false (path ++ [k]) false (S n) Hs); [rewrite Len; exact Hli|exact Hpk|auto|intro X; congruence]. }
        rewrite Forall_forall in F. exact (F x Hin2).
      * destruct Hli as [Hh Hls].
        assert (F : Forall sec_ok (sections sub (path ++ [k]) false)).
        { apply (IH false (path ++ [k]) false 0 Hs); [rewrite Len; exact Hls|exact Hpk|auto|]. intros _. rewrite Len. auto. }
        rewrite Forall_forall in F. exact (F x Hin2).
    + destruct Hi as [_ Hts]. destruct Hli as [Hh Hls]. apply in_flat_map in Hin2 as (e & He & Hin3). rewrite Forall_forall in IH.
      destruct (Hts e He) as [Ed Hwe].
      assert (F : Forall sec_ok (sections e (path ++ [k]) true)).
      { apply (IH e He false (path ++ [k]) true 0 Hwe); [rewrite Len; apply Hls, He|exact Hpk|auto|]. intros _. rewrite Len. auto. }
      rewrite Forall_forall in F. exact (F x Hin3).
Qed.

(* sorting keeps the elements *)
Lemma insert_sorted_in {A} (x y : N * A) l : In y (insert_sorted x l) -> y = x \/ In y l.
Proof.
  induction l as [|z l IH]; cbn [insert_sorted]; [intros [H|[]]; auto|]. destruct (fst x <? fst z)%N.
  - intros [H|H]; auto.
  - intros [H|H]; [right; left; exact H|]. destruct (IH H); [auto|right; right; assumption].
Qed.
Lemma stable_sort_in {A} (y : N * A) l : In y (stable_sort l) -> In y l.
Proof.
  unfold stable_sort. assert (G : forall l acc, In y (fold_left (fun a x => insert_sorted x a) l acc) -> In y acc \/ In y l).
  { clear l. induction l as [|x l IH]; intros acc H; [left; exact H|]. cbn [fold_left] in H. destruct (IH _ H) as [H1|H1]; [|right; right; exact H1].
    destruct (insert_sorted_in x y acc H1) as [->|H2]; [right; left; reflexivity|left; exact H2]. }
  intro H. destruct (G l [] H) as [[]|H1]. exact H1.
Qed.
Lemma assign_positions_in : forall (l : list section) n x, In x (assign_positions n l) -> In (snd x) l.
Proof.
  induction l as [|[[t p] a] l IH]; intros n x H; [contradiction|]. cbn [assign_positions] in H. destruct H as [<-|H]; [left; reflexivity|right; exact (IH _ _ H)].
Qed.

(* the sections in Display's order, and their statements *)
Definition display_order (root : tbl) : list section := map snd (stable_sort (assign_positions 0 (sections root [] false))).
Definition replay_stmts (root : tbl) : list (stmt dval) := flat_map own_abs (display_order root).

Lemma display_order_ok root : WF_slots root -> Forall sec_ok (display_order root).
Proof.
  intros (Hd & Hw & Hl). pose proof (sections_ok root true [] false 0 Hw Hl (Forall_nil _) (fun H => match H eq_refl with end)) as F.
  assert (F' : Forall sec_ok (sections root [] false)) by (apply F; intros _; split; [intro H; congruence|exact Hl]).
  unfold display_order. apply Forall_forall. intros x Hin. apply in_map_iff in Hin as (y & <- & Hy). apply stable_sort_in in Hy.
  apply assign_positions_in in Hy. rewrite Forall_forall in F'. exact (F' _ Hy).
Qed.

Lemma display_any_order root trailing :
  display_document root trailing
  = decor_prefix (t_decor root) (fst DEFAULT_ROOT_DECOR) ++ vts (display_order root) true
    ++ decor_suffix (t_decor root) (snd DEFAULT_ROOT_DECOR) ++ raw_encode trailing [].
Proof. unfold display_document, display_order. rewrite doc_sections_eq, visit_tables_vts. reflexivity. Qed.

(* ---- the derivation, whatever the order ------------------------------------------------------------------------------- *)
Theorem WF_print_derivation_replay root trailing :
  WF_slots root -> raw_ok SDocTrail trailing ->
  exists stmts, toml_text (display_document root trailing) stmts
                /\ map stmt_den stmts = replay_stmts root
                /\ forallb stmt_ok stmts = true /\ within_limits stmts = true.
Proof.
  intros Hs Htr. pose proof Hs as (Hd & Hw & Hl). rewrite display_any_order.
  assert (Hdec : decor_ok SLines SLines (t_decor root)) by (destruct root; exact (proj1 Hw)). destruct Hdec as [Hdp Hds].
  assert (Hrest : tail_tok (decor_suffix (t_decor root) (snd DEFAULT_ROOT_DECOR) ++ raw_encode trailing []) []).
  { apply tail_lines; [apply (decor_suffix_ok SLines); [exact Hds|apply ln_last; reflexivity]|].
    apply tail_doc_trail. apply (raw_ok_enc SDocTrail). exact Htr. }
  destruct (derives_list _ (display_order_ok root Hs) true _ _ Hrest) as (ls & T & E & O & W). rewrite app_nil_r in T.
  exists ls. split; [|auto]. apply toml_no_bom. apply tail_toml.
  apply tail_lines; [apply (decor_prefix_ok SLines); [exact Hdp|apply ln_last; reflexivity]|exact T].
Qed.

Theorem WF_print_parse_replay root trailing T :
  WF_slots root -> raw_ok SDocTrail trailing -> spec_run (replay_stmts root) = Valid T ->
  exists d, parse_document (display_document root trailing) = POk d /\ abs_doc d = T.
Proof.
  intros Hs Htr Hrun. destruct (WF_print_derivation_replay root trailing Hs Htr) as (stmts & Ht & E & O & W).
  assert (V : verdict stmts = Valid T) by (unfold verdict; rewrite O, E; exact Hrun).
  destruct (c01_complete _ _ _ Ht V W) as (d & P). exists d. split; [exact P|]. exact (c02_tree _ _ _ _ P Ht V).
Qed.

(* ---- parsed documents: a certified check without any premise on the order ------------------------------------------- *)
Definition replay_check (s : bytes) (d : doc) : bool :=
  match tbl_despan s (doc_root d) with
  | Some r => match spec_run (replay_stmts r) with Valid T => stree_eqb T (abs_doc d) | _ => false end
  | None => false
  end.

Theorem reparse_replay s d o :
  parse_document s = POk d -> print_doc s d = Some o -> replay_check s d = true ->
  exists d', parse_document o = POk d' /\ abs_doc d' = abs_doc d.
Proof.
  intros Hp Ho Hc. unfold print_doc in Ho. unfold replay_check in Hc.
  destruct (tbl_despan s (doc_root d)) as [r|] eqn:Er; [|discriminate]. destruct (raw_despan s (doc_trailing d)) as [t|] eqn:Et; [|discriminate].
  injection Ho as <-. destruct (spec_run (replay_stmts r)) as [T| |] eqn:Erun; try discriminate. apply stree_eqb_eq in Hc. subst T.
  destruct (parse_WF s d r t Hp Er Et) as [Hs Htr]. exact (WF_print_parse_replay r t _ Hs Htr Erun).
Qed.
