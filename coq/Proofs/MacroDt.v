(* Proofs/MacroDt.v — C19: a date-time written in toml!{}: the macro stringifies the tokens (a space between
   date and time becomes `T`) and calls `Datetime::from_str`; the TOML parser reads the original text with
   the document grammar.  Both give the same value: C12 (`agree`: the two parsers compute the same
   function) plus "the standalone parser treats the delimiters T, t and space alike". *)
From TV Require Import Base.Prelude Base.Utf8 Gen.Consts Model.Datetime Model.DatetimeStd Model.Numbers Model.Macro Spec.Defs Spec.MacroSpec.
From TV Require Import Proofs.DatetimeEq Proofs.MacroMatch Proofs.MacroRules Proofs.MacroTails Proofs.MacroEval Proofs.MacroAux
  Proofs.MacroCtx Proofs.MacroStmt.
Require Import Lia.

(* ---- bytes ---- *)
Definition dod (b : byte) : bool := is_digit b || byte_eqb b dash.        (* digit or dash *)
Definition is_delim (b : byte) : bool := byte_eqb b x54 || byte_eqb b x74 || byte_eqb b x20.

Lemma dod_not_colon : forall b, dod b = true -> byte_eqb b colon = false.
Proof. intro b; destruct b; intro H; try reflexivity; discriminate H. Qed.
Lemma dod_not_delim : forall b, dod b = true -> is_delim b = false.
Proof. intro b; destruct b; intro H; try reflexivity; discriminate H. Qed.
Lemma delim_not_dod : forall b, is_delim b = true -> dod b = false.
Proof. intro b; destruct b; intro H; try reflexivity; discriminate H. Qed.
Lemma digit_dod : forall b, is_digit b = true -> dod b = true.
Proof. intros b H. unfold dod. rewrite H. reflexivity. Qed.

(* ---- the date is ten bytes, digits and dashes ---- *)
Lemma sdigit_inv : forall s n r, sdigit s = Some (n, r) -> exists b, s = b :: r /\ is_digit b = true /\ n = digit_val b.
Proof.
  intros [|b s] n r H; [discriminate|]. unfold sdigit in H. destruct (is_digit b) eqn:E; [|discriminate].
  injection H as <- <-. eauto.
Qed.
Lemma sexpect_inv : forall c s u r, sexpect c s = Some (u, r) -> s = c :: r.
Proof.
  intros c [|b s] u r H; [discriminate|]. unfold sexpect in H. destruct (byte_eqb b c) eqn:E; [|discriminate].
  apply byte_eqb_eq in E. subst. injection H as _ <-. reflexivity.
Qed.
Lemma sdigit_ok : forall b r, is_digit b = true -> sdigit (b :: r) = Some (digit_val b, r).
Proof. intros b r H. unfold sdigit. rewrite H. reflexivity. Qed.
Lemma sexpect_ok : forall c r, sexpect c (c :: r) = Some (Datatypes.tt, r).
Proof. intros c r. unfold sexpect. rewrite byte_eqb_refl. reflexivity. Qed.

Lemma std_date_prefix : forall s dt r, std_date s = Some (dt, r) ->
  exists a, s = a ++ r /\ List.length a = 10 /\ forallb dod a = true /\ forall r', std_date (a ++ r') = Some (dt, r').
Proof.
  intros s dt r H. unfold std_date, two in H. unfold sbind in H.
  destruct (sdigit s) as [[y1 s1]|] eqn:E1; [|discriminate]. apply sdigit_inv in E1 as [b1 [-> [D1 ->]]].
  destruct (sdigit s1) as [[y2 s2]|] eqn:E2; [|discriminate]. apply sdigit_inv in E2 as [b2 [-> [D2 ->]]].
  destruct (sdigit s2) as [[y3 s3]|] eqn:E3; [|discriminate]. apply sdigit_inv in E3 as [b3 [-> [D3 ->]]].
  destruct (sdigit s3) as [[y4 s4]|] eqn:E4; [|discriminate]. apply sdigit_inv in E4 as [b4 [-> [D4 ->]]].
  destruct (sexpect dash s4) as [[u1 s5]|] eqn:E5; [|discriminate]. apply sexpect_inv in E5 as ->.
  destruct (sdigit s5) as [[m1 s6]|] eqn:E6; [|discriminate]. apply sdigit_inv in E6 as [b5 [-> [D5 ->]]].
  destruct (sdigit s6) as [[m2 s7]|] eqn:E7; [|discriminate]. apply sdigit_inv in E7 as [b6 [-> [D6 ->]]].
  cbv beta iota in H. unfold sret at 1 in H.
  destruct (sexpect dash s7) as [[u2 s8]|] eqn:E8; [|discriminate]. apply sexpect_inv in E8 as ->.
  destruct (sdigit s8) as [[d1 s9]|] eqn:E9; [|discriminate]. apply sdigit_inv in E9 as [b7 [-> [D7 ->]]].
  destruct (sdigit s9) as [[d2 s10]|] eqn:E10; [|discriminate]. apply sdigit_inv in E10 as [b8 [-> [D8 ->]]].
  cbv beta iota in H. unfold sret at 1 in H.
  exists [b1; b2; b3; b4; dash; b5; b6; dash; b7; b8].
  assert (Hr : s10 = r).
  { destruct (_ || _) in H; [discriminate|]. destruct (_ || _) in H; [discriminate|]. unfold sret in H. injection H as _ ->. reflexivity. }
  subst s10. split; [reflexivity|]. split; [reflexivity|]. split.
  { cbn [forallb]. rewrite (digit_dod b1 D1), (digit_dod b2 D2), (digit_dod b3 D3), (digit_dod b4 D4), (digit_dod b5 D5),
      (digit_dod b6 D6), (digit_dod b7 D7), (digit_dod b8 D8). reflexivity. }
  intro r'. cbn [app]. unfold std_date, two, sbind.
  rewrite (sdigit_ok b1), (sdigit_ok b2), (sdigit_ok b3), (sdigit_ok b4) by assumption. rewrite sexpect_ok.
  rewrite (sdigit_ok b5), (sdigit_ok b6) by assumption. cbv beta iota. unfold sret at 1. rewrite sexpect_ok.
  rewrite (sdigit_ok b7), (sdigit_ok b8) by assumption. cbv beta iota. unfold sret at 1.
  destruct (_ || _) in *; [discriminate|]. destruct (_ || _) in *; [discriminate|].
  unfold sret in *. injection H as <-. reflexivity.
Qed.

(* ---- aligning  A ++ c :: B  with  a ++ r  when c cannot occur in a ---- *)
Lemma app_align : forall (a A : bytes) c B r, A ++ c :: B = a ++ r -> forallb dod a = true -> dod c = false ->
  exists A', A = a ++ A' /\ r = A' ++ c :: B.
Proof.
  induction a as [|x a IH]; intros A c B r H Ha Hc.
  - exists A. split; [reflexivity|]. cbn [app] in H. symmetry. exact H.
  - cbn [forallb] in Ha. apply andb_true_iff in Ha as [Hx Ha].
    destruct A as [|y A].
    + cbn [app] in H. injection H as -> _. rewrite Hx in Hc. discriminate.
    + cbn [app] in H. injection H as -> H. destruct (IH A c B r H Ha Hc) as [A' [-> ->]]. exists A'. split; reflexivity.
Qed.

Lemma std_tail_delim : forall dt c1 c2 B, is_delim c1 = true -> is_delim c2 = true ->
  std_tail dt (c1 :: B) = std_tail dt (c2 :: B).
Proof.
  intros dt c1 c2 B H1 H2. unfold std_tail, sbind, speek. cbv beta iota.
  unfold is_delim in *. rewrite H1, H2. unfold snext. reflexivity.
Qed.

Lemma std_tail_dod : forall dt b X, dod b = true -> std_tail dt (b :: X) = Some (mkDT (Some dt) None None, b :: X).
Proof.
  intros dt b X H. unfold std_tail, sbind, speek. cbv beta iota.
  pose proof (dod_not_delim b H) as Hd. unfold is_delim in Hd. rewrite Hd. reflexivity.
Qed.

Theorem std_delim_swap : forall A B c1 c2 dv, 3 <= List.length A -> forallb dod A = true ->
  is_delim c1 = true -> is_delim c2 = true ->
  std_from_str (A ++ c1 :: B) = Some dv -> std_from_str (A ++ c2 :: B) = Some dv.
Proof.
  intros A B c1 c2 dv Hlen HA H1 H2 H.
  destruct A as [|a0 [|a1 [|a2 A3]]]; cbn [List.length] in Hlen; try lia.
  assert (Ha2 : dod a2 = true).
  { cbn [forallb] in HA. apply andb_true_iff in HA as [_ HA]. apply andb_true_iff in HA as [_ HA].
    apply andb_true_iff in HA as [HA _]. exact HA. }
  cbn [app] in *. rewrite std_from_str_3 in *. rewrite (dod_not_colon a2 Ha2) in *.
  change (a0 :: a1 :: a2 :: A3 ++ c1 :: B) with ((a0 :: a1 :: a2 :: A3) ++ c1 :: B) in H.
  change (a0 :: a1 :: a2 :: A3 ++ c2 :: B) with ((a0 :: a1 :: a2 :: A3) ++ c2 :: B).
  set (A := a0 :: a1 :: a2 :: A3) in *.
  destruct (std_date (A ++ c1 :: B)) as [[dt r1]|] eqn:Ed; [|discriminate].
  destruct (std_date_prefix _ _ _ Ed) as [a [Es [_ [Hdod Hre]]]].
  destruct (app_align a A c1 B r1 Es Hdod (delim_not_dod c1 H1)) as [A' [EA ->]].
  destruct A' as [|b A''].
  - rewrite app_nil_r in EA. rewrite EA. rewrite (Hre (c2 :: B)).
    cbn [app] in H. rewrite (std_tail_delim dt c2 c1 B H2 H1). exact H.
  - exfalso. assert (Hb : dod b = true).
    { rewrite EA in HA. rewrite forallb_app in HA. apply andb_true_iff in HA as [_ HA]. cbn [forallb] in HA.
      apply andb_true_iff in HA as [HA _]. exact HA. }
    cbn [app] in H. rewrite (std_tail_dod dt b _ Hb) in H. discriminate H.
Qed.

(* ---- what the macro stringifies ---- *)
Lemma digits_dod : forall s, digits_ok s = true -> forallb dod s = true /\ 1 <= List.length s.
Proof.
  intros [|b s] H; [discriminate|]. unfold digits_ok in H. split; [|cbn; lia].
  revert H. generalize (b :: s). intro l. induction l as [|x l IH]; intro H; [reflexivity|].
  cbn [forallb] in *. apply andb_true_iff in H as [Hx Hl]. rewrite (digit_dod x Hx). apply IH. exact Hl.
Qed.

Definition norm_delim (c : byte) : byte := if byte_eqb c c_space then x54 else c.

Lemma stringify_norm : forall d, dt_ok d = true ->
  flat_map tt_stringify (dt_norm_toks d)
  = match ds_date d, ds_time d with
    | Some dd, Some t => date_text dd ++ [norm_delim (ds_delim d)] ++ time_text t ++ off_text (ds_off d)
    | _, _ => dt_text d
    end.
Proof.
  intros [date delim time off] H. unfold dt_ok in H. unfold dt_norm_toks, dt_toks, dt_text, norm_delim.
  cbn [ds_date ds_time ds_delim ds_off] in *.
  destruct date as [[[y m] dd]|]; destruct time as [[[[hh mi] ss] fr]|]; try discriminate H.
  - apply andb_true_iff in H as [_ Hoff]. unfold time_toks, sec_tok, date_text, time_text.
    destruct (byte_eqb delim c_space); destruct fr as [f|]; destruct off as [|c|neg oh om];
      cbn [off_ok] in Hoff; try (apply andb_true_iff in Hoff as [Hoff _]; apply andb_true_iff in Hoff as [Hneg _]; subst neg);
      change id_T with [x54];
      cbn [off_toks off_text app flat_map tt_stringify]; repeat rewrite app_nil_r;
      repeat (progress (repeat rewrite <- app_assoc; cbn [app])); reflexivity.
  - unfold date_text. cbn [flat_map tt_stringify app]. repeat rewrite <- app_assoc. cbn [app]. rewrite app_nil_r. reflexivity.
  - apply andb_true_iff in H as [_ Hoff]. destruct off; try discriminate Hoff.
    unfold time_toks, sec_tok, time_text. destruct fr as [f|];
      cbn [off_toks off_text app flat_map tt_stringify]; repeat rewrite <- app_assoc; cbn [app]; repeat rewrite app_nil_r; reflexivity.
Qed.

Lemma dt_norm_nonempty : forall d, dt_ok d = true -> dt_norm_toks d <> [].
Proof.
  intros [date delim time off] H. unfold dt_ok in H. unfold dt_norm_toks, dt_toks. cbn [ds_date ds_time ds_delim ds_off] in *.
  destruct date as [[[y m] dd]|]; destruct time as [[[[hh mi] ss] fr]|]; try discriminate H; try discriminate.
  destruct (byte_eqb delim c_space); discriminate.
Qed.

Theorem dt_agree : forall d dv, dt_ok d = true -> doc_datetime (dt_text d) = Some dv ->
  datetime_value (dt_norm_toks d) = EOk (MDatetime dv).
Proof.
  intros d dv Hok Hdoc. rewrite <- agree in Hdoc.
  unfold datetime_value. pose proof (dt_norm_nonempty d Hok) as Hne.
  destruct (dt_norm_toks d) as [|t0 ts] eqn:Et; [contradiction|]. rewrite <- Et. clear Et Hne.
  rewrite (stringify_norm d Hok).
  destruct d as [date delim time off]. unfold dt_text in *. unfold dt_ok in Hok. cbn [ds_date ds_time ds_delim ds_off] in *.
  destruct date as [[[y m] dd]|]; destruct time as [[[[hh mi] ss] fr]|]; try (rewrite Hdoc; reflexivity).
  unfold norm_delim. destruct (byte_eqb delim c_space) eqn:Ed; [|rewrite Hdoc; reflexivity].
  apply byte_eqb_eq in Ed. subst delim.
  apply andb_true_iff in Hok as [Hok _]. apply andb_true_iff in Hok as [Hok _]. apply andb_true_iff in Hok as [Hdate _].
  unfold date_ok_sp in Hdate. apply andb_true_iff in Hdate as [Hdate Hd3]. apply andb_true_iff in Hdate as [Hd1 Hd2].
  destruct (digits_dod y Hd1) as [Y1 Y2]. destruct (digits_dod m Hd2) as [M1 M2]. destruct (digits_dod dd Hd3) as [D1 D2].
  cbn [app] in *.
  rewrite (std_delim_swap (date_text (y, m, dd)) (time_text (hh, mi, ss, fr) ++ off_text off) c_space x54 dv); try reflexivity; try exact Hdoc.
  - unfold date_text. rewrite !app_length. cbn [List.length]. lia.
  - unfold date_text. rewrite !forallb_app. cbn [forallb]. rewrite Y1, M1, D1. reflexivity.
Qed.
