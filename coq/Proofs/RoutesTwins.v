(* Proofs/RoutesTwins.v — C13: the twin DESERIALIZERS agree.  For every type and every tree x that
   toml::from_str::<toml::Value> turns into the toml::Value y: whenever toml_edit's deserializer on x
   (toml::from_str, toml_edit::de::from_str / from_slice / from_document, the value deserializers) and
   toml::Value's own on y (try_into) both succeed, they return equal values (equal up to the
   order of map entries: a toml::Table iterates in key order). *)
From TV Require Import Base.Prelude Base.Utf8 Model.Datetime Model.DatetimeStd Model.SerNum
  Spec.DatetimeSpec Spec.SerdeData Model.Ser Model.De Model.SerdeRoutes
  Proofs.DatetimeEq Proofs.SerdeRTBase Proofs.SerdeRTEq Proofs.SerdeRTLists Proofs.SerdeRT Proofs.SerdeRTBTree Proofs.SerdeRTTv
  Proofs.RoutesConv.
From Coq Require Import Permutation Sorted.

Definition conv (x y : tomlval) : Prop := to_toml_value x = Ok y.

Lemma Forall2_impl {A B} (R R' : A -> B -> Prop) l1 l2 :
  (forall a b, R a b -> R' a b) -> Forall2 R l1 l2 -> Forall2 R' l1 l2.
Proof. intros H F. induction F; constructor; auto. Qed.
Lemma Forall2_nth_r {A B} (R : A -> B -> Prop) l1 l2 j b :
  Forall2 R l1 l2 -> nth_error l2 j = Some b -> exists a, nth_error l1 j = Some a /\ R a b.
Proof.
  intro F. revert j. induction F as [|x y l1 l2 Hxy _ IH]; intros [|j] Hn; simpl in *; try discriminate.
  - injection Hn as <-. eauto.
  - apply IH. exact Hn.
Qed.
Lemma Forall2_In_r {A B} (R : A -> B -> Prop) l1 l2 b :
  Forall2 R l1 l2 -> In b l2 -> exists a, In a l1 /\ R a b.
Proof.
  induction 1 as [|x y l1 l2 Hxy _ IH]; intro Hin; [contradiction|]. destruct Hin as [->|Hin].
  - exists x. split; [left; reflexivity|exact Hxy].
  - destruct (IH Hin) as (a & Ha & Hr). exists a. split; [right; exact Ha|exact Hr].
Qed.

(* ---- inversion of to_toml_value ---- *)
Lemma ttv_inv_arr xs y : conv (VArr xs) y -> exists ys, y = VArr ys /\ Forall2 conv xs ys.
Proof.
  unfold conv. rewrite ttv_arr. intro H. apply rmap_ok in H as (ys & H & ->). exists ys. split; [reflexivity|].
  apply mapM_ok in H. exact H.
Qed.

Lemma ttv_inv_tab es y : conv (VTab es) y ->
  (exists k s rest d, es = (k, VStr s) :: rest /\ bytes_eqb k DT_FIELD = true /\ de_dt_str s = Ok d /\ y = VDatetime d)
  \/ (first_key_plain es = true /\
      exists es', Forall2 conv_rel es es' /\ NoDup (map fst es') /\ y = VTab (btree_of_pairs es')).
Proof.
  unfold conv. intro H. destruct (first_key_plain es) eqn:F.
  - right. split; [reflexivity|]. rewrite (ttv_tab_plain es F) in H. apply rbind_ok in H as (es' & E & H).
    destruct (nodup_bytes (map fst es')) eqn:N; [|discriminate H]. injection H as <-.
    exists es'. split; [apply (conv_entries_inv es es' E)|]. split; [apply nodup_bytes_NoDup; exact N|reflexivity].
  - left. destruct es as [|[k x] es]; [discriminate F|]. simpl in F. apply negb_false_iff in F.
    rewrite (ttv_tab_tunnel k x es F) in H. destruct x; try discriminate H.
    apply rmap_ok in H as (d & Hd & ->). exists k, s, es, d. auto.
Qed.

Lemma ttv_inv_leaf x y : conv x y ->
  match x with VStr _ | VInt _ | VFloat _ | VBool _ => y = x | VDatetime _ => exists d, y = VDatetime d | _ => True end.
Proof.
  unfold conv. destruct x; simpl; intro H; try (injection H as <-; reflexivity); try exact I.
  apply rmap_ok in H as (d' & _ & ->). eauto.
Qed.

(* ---- lookups in the sorted table ---- *)
Lemma tab_get_some_In k x (es : list (bytes * tomlval)) : tab_get k es = Some x -> In (k, x) es.
Proof.
  induction es as [|[k' y] es IH]; simpl; [discriminate|].
  destruct (bytes_eqb k' k) eqn:E; [apply bytes_eqb_eq in E; subst; intro H; injection H as ->; left; reflexivity|].
  intro H. right. apply IH. exact H.
Qed.

Lemma tab_get_none_notin k (es : list (bytes * tomlval)) : tab_get k es = None -> ~ In k (map fst es).
Proof.
  induction es as [|[k' y] es IH]; simpl; [tauto|].
  destruct (bytes_eqb k' k) eqn:E; [discriminate|]. intros H [Hk|Hin]; [|apply (IH H Hin)].
  apply bytes_eqb_neq in E. congruence.
Qed.

Lemma tab_get_same_entries f (l1 l2 : list (bytes * tomlval)) :
  NoDup (map fst l2) -> (forall kx, In kx l1 <-> In kx l2) -> tab_get f l1 = tab_get f l2 \/ exists x x', In (f, x) l1 /\ In (f, x') l1 /\ x <> x'.
Proof.
  intros N2 Hm. destruct (tab_get f l1) as [x|] eqn:G1.
  - left. symmetry. apply tab_get_In; [exact N2|]. apply Hm. apply tab_get_some_In. exact G1.
  - left. symmetry. apply tab_get_notin. intro Hin. apply (tab_get_none_notin f l1 G1).
    apply in_map_iff in Hin as ([k x] & Hk & Hin). simpl in Hk; subst k. apply Hm in Hin. apply (in_map fst) in Hin. exact Hin.
Qed.

Lemma tab_get_conv f es es' : Forall2 conv_rel es es' ->
  match tab_get f es with
  | Some x => exists y, tab_get f es' = Some y /\ conv x y
  | None => tab_get f es' = None
  end.
Proof.
  induction 1 as [|[k x] [k' y] es es' [Hk Hc] _ IH]; simpl; [reflexivity|]. simpl in Hk, Hc. subst k'.
  destruct (bytes_eqb k f); [exists y; auto|exact IH].
Qed.

Lemma lookup_agree f es es' : Forall2 conv_rel es es' -> NoDup (map fst es') ->
  match tab_get f es with
  | Some x => exists y, tab_get f (btree_of_pairs es') = Some y /\ conv x y
  | None => tab_get f (btree_of_pairs es') = None
  end.
Proof.
  intros F N. destruct (btree_of_pairs_spec es' N) as [Hs Hm].
  assert (E : tab_get f es' = tab_get f (btree_of_pairs es')).
  { destruct (tab_get_same_entries f es' (btree_of_pairs es') (bsorted_nodup _ Hs)) as [E|(x & x' & H1 & H2 & Hne)];
      [intro kx; symmetry; apply Hm|exact E|].
    exfalso. apply Hne. clear - N H1 H2. induction es' as [|[k y] es' IH]; [contradiction|].
    simpl in N. inversion N as [|? ? Hnot N']; subst.
    destruct H1 as [H1|H1]; destruct H2 as [H2|H2].
    - congruence.
    - injection H1 as -> _. exfalso. apply Hnot. apply (in_map fst) in H2. exact H2.
    - injection H2 as -> _. exfalso. apply Hnot. apply (in_map fst) in H1. exact H1.
    - apply IH; assumption. }
  rewrite <- E. apply tab_get_conv. exact F.
Qed.

(* ---- the agreement, layer by layer ---- *)
Definition AG (t : ty) : Prop :=
  twin_ty t = true -> forall x y v1 v2, conv x y -> de_value t x = Ok v1 -> tv_de t y = Ok v2 -> sval_eq v1 v2.
Definition AGV (var : variant) : Prop :=
  twin_variant var = true -> forall x y p1 p2, conv x y -> de_payload var x = Ok p1 -> tv_de_payload var y = Ok p2 -> sval_eq p1 p2.
Definition agree_at (t : ty) : Prop :=
  forall x y v1 v2, conv x y -> de_value t x = Ok v1 -> tv_de t y = Ok v2 -> sval_eq v1 v2.

Lemma ag_list t : agree_at t -> forall xs ys vs1 vs2, Forall2 conv xs ys ->
  mapM (de_value t) xs = Ok vs1 -> mapM (tv_de t) ys = Ok vs2 -> Forall2 sval_eq vs1 vs2.
Proof.
  intros IH xs ys vs1 vs2 F. revert vs1 vs2. induction F as [|x y xs ys Hxy _ IHF]; intros vs1 vs2 D1 D2; simpl in *.
  - injection D1 as <-. injection D2 as <-. constructor.
  - apply rbind_ok in D1 as (v1 & E1 & D1). apply rbind_ok in D1 as (r1 & R1 & D1). injection D1 as <-.
    apply rbind_ok in D2 as (v2 & E2 & D2). apply rbind_ok in D2 as (r2 & R2 & D2). injection D2 as <-.
    constructor; [apply (IH x y v1 v2 Hxy E1 E2)|apply IHF; assumption].
Qed.

Section Pos.
  Context {A : Type}.
  Variable proj : A -> ty.
  Lemma ag_pos (l : list A) : Forall (fun a => agree_at (proj a)) l -> forall xs ys r1 r2,
    Forall2 conv xs ys -> de_pos de_value proj l xs = Ok r1 -> de_pos tv_de proj l ys = Ok r2 ->
    Forall2 sval_eq (fst r1) (fst r2).
  Proof.
    induction 1 as [|a l IHa _ IH]; intros xs ys r1 r2 F D1 D2; simpl in *.
    - injection D1 as <-. injection D2 as <-. constructor.
    - destruct F as [|x y xs ys Hxy F]; [discriminate D1|].
      apply rbind_ok in D1 as (v1 & E1 & D1). apply rbind_ok in D1 as (q1 & R1 & D1). injection D1 as <-.
      apply rbind_ok in D2 as (v2 & E2 & D2). apply rbind_ok in D2 as (q2 & R2 & D2). injection D2 as <-.
      simpl. constructor; [apply (IHa x y v1 v2 Hxy E1 E2)|apply (IH xs ys q1 q2 F R1 R2)].
  Qed.
End Pos.

Lemma all_read_ok {X} (r : result (list sval * list X)) vs : all_read r = Ok vs -> exists p, r = Ok p /\ fst p = vs.
Proof.
  unfold all_read. intro H. apply rbind_ok in H as (p & E & H). destruct (snd p); [|discriminate H].
  injection H as <-. eauto.
Qed.

Lemma ag_fields_map es bt : 
  (forall f, match tab_get f es with
             | Some x => exists y, tab_get f bt = Some y /\ conv x y
             | None => tab_get f bt = None end) ->
  forall fs, Forall (fun ft => agree_at (snd ft)) fs -> forall seen vs1 vs2,
  de_fields_map de_value es seen fs = Ok vs1 -> de_fields_map tv_de bt seen fs = Ok vs2 -> Forall2 sval_eq vs1 vs2.
Proof.
  intros L. induction 1 as [|[f t] fs IHt _ IH]; intros seen vs1 vs2 D1 D2; simpl in *.
  - injection D1 as <-. injection D2 as <-. constructor.
  - apply rbind_ok in D1 as (v1 & E1 & D1). apply rbind_ok in D1 as (r1 & R1 & D1). injection D1 as <-.
    apply rbind_ok in D2 as (v2 & E2 & D2). apply rbind_ok in D2 as (r2 & R2 & D2). injection D2 as <-.
    constructor; [|apply (IH (f :: seen) r1 r2 R1 R2)].
    assert (Hmiss : forall a b, missing_field t = Ok a -> missing_field t = Ok b -> sval_eq a b).
    { intros a b Ha Hb. destruct t; try discriminate Ha. simpl in Ha, Hb. injection Ha as <-. injection Hb as <-. constructor. }
    destruct (mem_bytes f seen); [apply Hmiss; assumption|].
    specialize (L f). destruct (tab_get f es) as [x|].
    + destruct L as (y & Ly & Hc). rewrite Ly in E2. apply (IHt x y v1 v2 Hc E1 E2).
    + rewrite L in E2. apply Hmiss; assumption.
Qed.

Lemma conv_rel_keys es es' : Forall2 conv_rel es es' -> map fst es' = map fst es.
Proof. induction 1 as [|kx ky es es' [H _] _ IH]; simpl; congruence. Qed.

Lemma ag_struct_map fs es es' : Forall (fun ft => agree_at (snd ft)) fs ->
  Forall2 conv_rel es es' -> NoDup (map fst es') -> forall vs1 vs2,
  de_struct_map de_value fs es = Ok vs1 -> de_struct_map tv_de fs (btree_of_pairs es') = Ok vs2 -> Forall2 sval_eq vs1 vs2.
Proof.
  intros IH F N vs1 vs2 D1 D2. unfold de_struct_map in *.
  destruct (dup_field_hit (map fst fs) es); [discriminate D1|].
  destruct (dup_field_hit (map fst fs) (btree_of_pairs es')); [discriminate D2|].
  apply (ag_fields_map es (btree_of_pairs es') (fun f => lookup_agree f es es' F N) fs IH [] vs1 vs2 D1 D2).
Qed.

(* ---- keys ---- *)
Lemma find_name_inv {A R} (f : nat -> A -> R) d k l : forall j,
  find_name f d k l j = d \/ exists i a, nth_error l i = Some (k, a) /\ find_name f d k l j = f (j + i)%nat a.
Proof.
  induction l as [|[n a] l IH]; intro j; simpl; [left; reflexivity|].
  destruct (bytes_eqb n k) eqn:E.
  - apply bytes_eqb_eq in E. subst n. right. exists 0%nat, a. split; [reflexivity|]. f_equal. lia.
  - destruct (IH (S j)) as [H|(i & a' & Hn & H)]; [left; exact H|]. right. exists (S i), a'. split; [exact Hn|].
    rewrite H. f_equal. lia.
Qed.

Lemma unit_only_inv d k vs v : find_name de_unit_only (Err d) k vs 0 = Ok v ->
  exists i, nth_error vs i = Some (k, VUnit) /\ v = SVariant i SUnit.
Proof.
  intro H. destruct (find_name_inv de_unit_only (Err d) k vs 0) as [E|(i & var & Hn & E)]; rewrite E in H; [discriminate H|].
  destruct var; try discriminate H. injection H as <-. exists i. auto.
Qed.

Lemma key_agree t : forall k a b, de_key t k = Ok a -> tv_de t (VStr k) = Ok b -> a = b /\ sval_eq a a.
Proof.
  induction t using ty_ind2 with (Q := fun _ => True); try exact I; intros k0 a b Ha Hb; try (simpl in Ha; discriminate Ha).
  - simpl in Ha, Hb. unfold de_char in *. destruct (utf8_decode1 k0) as [[c [|? ?]]|]; try discriminate Ha.
    injection Ha as <-. injection Hb as <-. split; [reflexivity|constructor].
  - simpl in Ha, Hb. injection Ha as <-. injection Hb as <-. split; [reflexivity|constructor].
  - simpl in Ha. destruct (private_name n); discriminate Ha.
  - rewrite dk_newtype in Ha. rewrite td_newtype in Hb. apply rmap_ok in Ha as (a' & Ha & ->). apply rmap_ok in Hb as (b' & Hb & ->).
    destruct (IHt k0 a' b' Ha Hb) as [-> E]. split; [reflexivity|constructor; exact E].
  - rewrite dk_enum in Ha. rewrite td_enum_str in Hb. split; [congruence|].
    destruct (unit_only_inv _ _ _ _ Ha) as (i & _ & ->). constructor. constructor.
Qed.

Lemma key_inj t : key_ty_ok t = true -> forall k1 k2 a1 a2,
  de_key t k1 = Ok a1 -> de_key t k2 = Ok a2 -> k1 <> k2 -> sval_beq a1 a2 = false.
Proof.
  induction t using ty_ind2 with (Q := fun _ => True); try exact I; intros Hok k1 k2 a1 a2 H1 H2 Hne;
    try (simpl in H1; discriminate H1); try (simpl in Hok; discriminate Hok).
  - simpl in H1, H2. injection H1 as <-. injection H2 as <-. simpl. apply bytes_eqb_neq. exact Hne.
  - simpl in H1. destruct (private_name n); discriminate H1.
  - rewrite dk_newtype in H1, H2. apply rmap_ok in H1 as (b1 & H1 & ->). apply rmap_ok in H2 as (b2 & H2 & ->).
    simpl. simpl in Hok. eapply IHt; eassumption.
  - rewrite dk_enum in H1, H2.
    destruct (unit_only_inv _ _ _ _ H1) as (i1 & N1 & ->). destruct (unit_only_inv _ _ _ _ H2) as (i2 & N2 & ->).
    simpl. destruct (Nat.eqb i1 i2) eqn:E; [|reflexivity]. apply Nat.eqb_eq in E. subst i2. congruence.
Qed.

(* ---- maps ---- *)
Lemma ag_map kt vt : key_ty_ok kt = true -> agree_at vt -> forall es es' vs1 vs2,
  Forall2 conv_rel es es' -> NoDup (map fst es') ->
  de_entries kt vt es = Ok vs1 -> tvd_entries kt vt (btree_of_pairs es') = Ok vs2 ->
  sval_eq (SMap (smap_of_pairs vs1)) (SMap (smap_of_pairs vs2)).
Proof.
  intros Hok IHv es es' ps1 ps2 F N D1 D2.
  pose proof (btree_of_pairs_perm es' N) as Hperm. destruct (btree_of_pairs_spec es' N) as [Hsorted _].
  set (bt := btree_of_pairs es') in *.
  unfold de_entries in D1. unfold tvd_entries in D2. apply mapM_ok in D1. apply mapM_ok in D2.
  (* entry by entry *)
  set (R1 := fun (kx : bytes * tomlval) (p : sval * sval) => de_key kt (fst kx) = Ok (fst p) /\ de_value vt (snd kx) = Ok (snd p)).
  set (R2 := fun (kx : bytes * tomlval) (p : sval * sval) => tv_de kt (VStr (fst kx)) = Ok (fst p) /\ tv_de vt (snd kx) = Ok (snd p)).
  assert (F1 : Forall2 R1 es ps1).
  { eapply Forall2_impl; [|exact D1]. intros [k x] [a v] H. simpl in H. apply rbind_ok in H as (a' & Ha & H).
    apply rmap_ok in H as (v' & Hv & E). injection E as -> ->. split; assumption. }
  assert (F2 : Forall2 R2 bt ps2).
  { eapply Forall2_impl; [|exact D2]. intros [k x] [a v] H. simpl in H. apply rbind_ok in H as (a' & Ha & H).
    apply rmap_ok in H as (v' & Hv & E). injection E as -> ->. split; assumption. }
  (* the value side in insertion order *)
  destruct (Permutation_Forall2 (Permutation_sym Hperm) F2) as (ps2' & Hperm2 & F2').
  assert (E : Forall2 (fun p q => fst p = fst q /\ sval_eq (fst p) (fst q) /\ sval_eq (snd p) (snd q)) ps1 ps2').
  { clear - F F1 F2' IHv. revert ps1 ps2' F1 F2'. induction F as [|[k x] [k' y] es es' [Hk Hc] _ IH]; intros ps1 ps2' F1 F2'.
    - inversion F1; subst. inversion F2'; subst. constructor.
    - inversion F1 as [|? [a1 v1] ? ? [Ka Va] F1']; subst. inversion F2' as [|? [a2 v2] ? ? [Kb Vb] F2'']; subst.
      simpl in *. subst k'. destruct (key_agree kt k a1 a2 Ka Kb) as [-> Er].
      constructor; [simpl; repeat split; [exact Er|apply (IHv x y v1 v2 Hc Va Vb)]|apply IH; assumption]. }
  (* no two keys are equal, on either side *)
  assert (Hd1 : ForallOrdPairs (fun p q => sval_beq (fst p) (fst q) = false) ps1).
  { assert (N1 : NoDup (map fst es)) by (rewrite <- (conv_rel_keys es es' F); exact N).
    clear - F1 N1 Hok. induction F1 as [|[k x] [a v] l1 l2 [Ka _] F1 IH]; [constructor|].
    simpl in N1. inversion N1 as [|? ? Hnot N1']; subst. constructor; [|apply IH; exact N1'].
    rewrite Forall_forall. intros [a' v'] Hin.
    destruct (Forall2_In_r _ _ _ _ F1 Hin) as ([k' x'] & Hin' & [Ka' _]). simpl in *.
    eapply (key_inj kt Hok k k'); [exact Ka|exact Ka'|]. intros ->. apply Hnot. apply (in_map fst) in Hin'. exact Hin'. }
  assert (Hd2 : ForallOrdPairs (fun p q => sval_beq (fst p) (fst q) = false) ps2).
  { pose proof (bsorted_nodup _ Hsorted) as N2.
    assert (Kt : forall k a, tv_de kt (VStr k) = Ok a -> In k (map fst bt) -> exists a', de_key kt k = Ok a' /\ a' = a).
    { intros k a Ha Hin. apply (Permutation_in _ (Permutation_map fst (Permutation_sym Hperm))) in Hin.
      rewrite (conv_rel_keys es es' F) in Hin. apply in_map_iff in Hin as ([k0 x0] & Hk0 & Hin). simpl in Hk0. subst k0.
      destruct (Forall2_In_l _ _ _ _ F1 Hin) as ([a' v'] & _ & [Ka _]). simpl in Ka.
      exists a'. split; [exact Ka|]. apply (key_agree kt k a' a Ka Ha). }
    clear - F2 N2 Hok Kt. induction F2 as [|[k x] [a v] l1 l2 [Ka _] F2 IH]; [constructor|].
    simpl in N2. inversion N2 as [|? ? Hnot N2']; subst. constructor.
    - rewrite Forall_forall. intros [a' v'] Hin.
      destruct (Forall2_In_r _ _ _ _ F2 Hin) as ([k' x'] & Hin' & [Ka' _]). simpl in *.
      destruct (Kt k a Ka (or_introl eq_refl)) as (b & Kb & <-).
      destruct (Kt k' a' Ka' (or_intror (in_map fst _ _ Hin'))) as (b' & Kb' & <-).
      eapply (key_inj kt Hok k k'); [exact Kb|exact Kb'|]. intros ->. apply Hnot. apply (in_map fst) in Hin'. exact Hin'.
    - apply IH; [exact N2'|]. intros k0 a0 H0 Hin0. apply (Kt k0 a0 H0). right. exact Hin0. }
  rewrite (smap_of_pairs_distinct ps1 Hd1), (smap_of_pairs_distinct ps2 Hd2).
  apply (eq_map ps1 ps2 ps2'); [exact Hperm2|].
  clear - E. induction E as [|p q l1 l2 (_ & H1 & H2) _ IH]; constructor; auto.
Qed.

(* ---- tuple variants written as tables with the keys "0", "1", ... ---- *)
Lemma index_keys_spec es : forall i xs, index_keys i es = Some xs ->
  xs = map snd es /\ forall j kx, nth_error es j = Some kx -> parse_usize (fst kx) = Some (i + N.of_nat j)%N.
Proof.
  induction es as [|[k x] es IH]; intros i xs H; simpl in H.
  - injection H as <-. split; [reflexivity|]. intros [|j] kx Hn; discriminate Hn.
  - destruct (parse_usize k) as [n|] eqn:P; [|discriminate H]. destruct (n =? i)%N eqn:E; [|discriminate H].
    apply N.eqb_eq in E. subst n. destruct (index_keys (i + 1) es) as [xs'|] eqn:R; [|discriminate H].
    simpl in H. injection H as <-. destruct (IH (i + 1)%N xs' R) as [-> Hj].
    split; [reflexivity|]. intros [|j] kx Hn; simpl in Hn.
    + injection Hn as <-. simpl. rewrite P. f_equal. lia.
    + rewrite (Hj j kx Hn). f_equal. lia.
Qed.

Lemma indexed_perm_eq (l1 l2 : list (bytes * tomlval)) : forall i,
  Permutation l1 l2 ->
  (forall j kx, nth_error l1 j = Some kx -> parse_usize (fst kx) = Some (i + N.of_nat j)%N) ->
  (forall j kx, nth_error l2 j = Some kx -> parse_usize (fst kx) = Some (i + N.of_nat j)%N) ->
  l1 = l2.
Proof.
  revert l2. induction l1 as [|a l1 IH]; intros l2 i Hp H1 H2.
  - apply Permutation_nil in Hp. subst. reflexivity.
  - destruct l2 as [|b l2]; [apply Permutation_sym, Permutation_nil in Hp; discriminate Hp|].
    assert (Hab : a = b).
    { pose proof (H1 0%nat a eq_refl) as Pa. pose proof (H2 0%nat b eq_refl) as Pb.
      assert (Hin : In b (a :: l1)) by (apply (Permutation_in _ (Permutation_sym Hp)); left; reflexivity).
      destruct Hin as [E|Hin]; [exact E|]. exfalso.
      apply In_nth_error in Hin as (j & Hj). pose proof (H1 (S j) b Hj) as Pb'. rewrite Pb in Pb'. injection Pb' as Pb'. lia. }
    subst b. f_equal. apply (IH l2 (i + 1)%N).
    + apply Permutation_cons_inv in Hp. exact Hp.
    + intros j kx Hn. rewrite (H1 (S j) kx Hn). f_equal. lia.
    + intros j kx Hn. rewrite (H2 (S j) kx Hn). f_equal. lia.
Qed.

Lemma ag_index_keys es es' xs ys : Forall2 conv_rel es es' -> NoDup (map fst es') ->
  index_keys 0 es = Some xs -> index_keys 0 (btree_of_pairs es') = Some ys -> Forall2 conv xs ys.
Proof.
  intros F N Hx Hy. destruct (index_keys_spec es 0 xs Hx) as [-> H1]. destruct (index_keys_spec _ 0 ys Hy) as [-> H2].
  assert (E : btree_of_pairs es' = es').
  { symmetry. apply (indexed_perm_eq es' (btree_of_pairs es') 0 (btree_of_pairs_perm es' N)); [|exact H2].
    intros j [k y] Hn.
    destruct (Forall2_nth_r _ _ _ _ _ F Hn) as ([k0 x0] & Hn0 & [Hk _]). simpl in *. subst k.
    apply (H1 j (k0, x0) Hn0). }
  rewrite E. clear - F. induction F as [|[k x] [k' y] es es' [_ Hc] _ IH]; simpl; constructor; [exact Hc|exact IH].
Qed.

(* ---- enums: both families select the FIRST variant of that name ---- *)
Fixpoint first_named {A} (k : bytes) (l : list (bytes * A)) : option (nat * A) :=
  match l with
  | [] => None
  | (n, a) :: l' => if bytes_eqb n k then Some (0%nat, a)
                    else match first_named k l' with Some (i, a') => Some (S i, a') | None => None end
  end.
Lemma find_name_first {A R} (f : nat -> A -> R) d k l : forall j,
  find_name f d k l j = match first_named k l with Some (i, a) => f (j + i)%nat a | None => d end.
Proof.
  induction l as [|[n a] l IH]; intro j; simpl; [reflexivity|].
  destruct (bytes_eqb n k); [f_equal; lia|]. rewrite (IH (S j)).
  destruct (first_named k l) as [[i a']|]; [f_equal; lia|reflexivity].
Qed.
Lemma first_named_In {A} k (l : list (bytes * A)) i a : first_named k l = Some (i, a) -> In (k, a) l.
Proof.
  revert i. induction l as [|[n a'] l IH]; intros i H; simpl in H; [discriminate|].
  destruct (bytes_eqb n k) eqn:E.
  - apply bytes_eqb_eq in E. subst n. injection H as _ ->. left; reflexivity.
  - destruct (first_named k l) as [[i' a'']|] eqn:F; [|discriminate H]. injection H as _ ->. right. eapply IH. reflexivity.
Qed.

(* ---- further unfolding equations ---- *)
Lemma dv_struct_arr n fs xs : de_value (TStruct n fs) (VArr xs) =
  if private_name n then Err EUnmodelled else rmap (fun r => SRec (fst r)) (de_pos de_value (fun ft => snd ft) fs xs).
Proof. reflexivity. Qed.
Lemma td_struct_arr n fs xs : tv_de (TStruct n fs) (VArr xs) = rmap SRec (all_read (de_pos tv_de (fun ft => snd ft) fs xs)).
Proof. reflexivity. Qed.
Lemma dp_tuple_tab ts es : de_payload (VTuple ts) (VTab es) =
  match index_keys 0 es with
  | Some xs => if Nat.eqb (length xs) (length ts) then rmap (fun r => SSeq (fst r)) (de_pos de_value (fun t' => t') ts xs) else Err EDe
  | None => Err EDe end.
Proof. reflexivity. Qed.
Lemma tdp_tuple_tab ts es : tv_de_payload (VTuple ts) (VTab es) =
  match index_keys 0 es with
  | Some xs => if Nat.eqb (length xs) (length ts) then rmap SSeq (all_read (de_pos tv_de (fun t' => t') ts xs)) else Err EDe
  | None => Err EDe end.
Proof. reflexivity. Qed.
Lemma dp_struct_arr fs xs : de_payload (VStruct fs) (VArr xs) = rmap (fun r => SRec (fst r)) (de_pos de_value (fun ft => snd ft) fs xs).
Proof. reflexivity. Qed.
Lemma tdp_struct_arr fs xs : tv_de_payload (VStruct fs) (VArr xs) = rmap SRec (all_read (de_pos tv_de (fun ft => snd ft) fs xs)).
Proof. reflexivity. Qed.

Lemma ag_Forall ts : Forall AG ts -> forallb twin_ty ts = true -> Forall (fun t => agree_at ((fun t' => t') t)) ts.
Proof.
  intros H Hb. rewrite forallb_forall in Hb. rewrite Forall_forall in *. intros t Hin. exact (H t Hin (Hb t Hin)).
Qed.
Lemma ag_Forall_fields (fs : list (bytes * ty)) : Forall (fun ft => AG (snd ft)) fs ->
  forallb (fun ft => twin_ty (snd ft)) fs = true -> Forall (fun ft => agree_at (snd ft)) fs.
Proof.
  intros H Hb. rewrite forallb_forall in Hb. rewrite Forall_forall in *. intros ft Hin. exact (H ft Hin (Hb ft Hin)).
Qed.

Lemma btree_single k y : btree_of_pairs [(k, y)] = [(k, y)].
Proof. reflexivity. Qed.

Ltac tw_leaf D1 D2 := simpl in D1, D2; injection D1 as <-; injection D2 as <-; constructor.

Theorem twins_agree : forall t, AG t.
Proof.
  induction t using ty_ind2 with (Q := AGV); unfold AG, AGV, agree_at in *.
  - (* TBool *) intros _ x y v1 v2 C D1 D2. destruct x; simpl in D1; try discriminate D1.
    apply ttv_inv_leaf in C. simpl in C. subst y. tw_leaf D1 D2.
  - (* TInt *) intros _ x y v1 v2 C D1 D2. destruct x; simpl in D1; try discriminate D1.
    apply ttv_inv_leaf in C. simpl in C. subst y. simpl in D2. destruct (de_int w z); [|discriminate D1]. tw_leaf D1 D2.
  - (* TFloat *) intros _ x y v1 v2 C D1 D2. destruct w; destruct x; simpl in D1; try discriminate D1;
      apply ttv_inv_leaf in C; simpl in C; subst y; tw_leaf D1 D2; left; reflexivity.
  - (* TChar *) intros _ x y v1 v2 C D1 D2. destruct x; simpl in D1; try discriminate D1.
    apply ttv_inv_leaf in C. simpl in C. subst y. simpl in D2. unfold de_char in *.
    destruct (utf8_decode1 s) as [[c [|? ?]]|]; try discriminate D1. tw_leaf D1 D2.
  - (* TStr *) intros _ x y v1 v2 C D1 D2. destruct x; simpl in D1; try discriminate D1.
    apply ttv_inv_leaf in C. simpl in C. subst y. tw_leaf D1 D2.
  - (* TDatetime: both families go through toml_datetime's tunnel; what was parsed prints and parses back (C12) *)
    intros _ x y v1 v2 C D1 D2.
    assert (Hpp : forall s0 d0, de_dt_str s0 = Ok d0 -> de_dt_str (display_datetime d0) = Ok d0).
    { intros s0 d0 H0. unfold de_dt_str in *. destruct (std_from_str s0) as [d1|] eqn:P; [|discriminate H0]. injection H0 as ->.
      rewrite (print_parse_std d0 (closed s0 d0 P)). reflexivity. }
    assert (Hfin : forall d', de_dt_str (display_datetime d') = Ok d' ->
                   rbind (Ok d') (dt_kind_check k) = Ok v1 -> tv_de (TDatetime k) (VDatetime d') = Ok v2 -> sval_eq v1 v2).
    { intros d' Hd' E1 E2. cbn [tv_de tv_de_datetime] in E2. rewrite Hd' in E2. simpl in E1, E2.
      assert (v1 = v2) by congruence. subst v2. unfold dt_kind_check in E1. destruct (dt_kind_ok k d'); [|discriminate E1].
      injection E1 as <-. constructor. }
    destruct x; try (simpl in D1; discriminate D1).
    + (* a date-time *)
      unfold conv in C. simpl in C. apply rmap_ok in C as (d' & Hd & ->).
      cbn [de_value de_datetime] in D1. rewrite Hd in D1. apply (Hfin d' (Hpp _ _ Hd) D1 D2).
    + (* a table: the private key first *)
      apply ttv_inv_tab in C as [(k0 & s0 & rest & d' & -> & Hk & Hd & ->)|(Hf & _)].
      * cbn [de_value de_datetime] in D1. rewrite Hk, Hd in D1. apply (Hfin d' (Hpp _ _ Hd) D1 D2).
      * destruct es as [|[k0 y0] es]; [simpl in D1; discriminate D1|]. simpl in Hf. apply negb_true_iff in Hf.
        cbn [de_value de_datetime] in D1. rewrite Hf in D1. simpl in D1. discriminate D1.
  - intros _ x y v1 v2 C D1 D2. simpl in D1. discriminate D1.
  - intros _ x y v1 v2 C D1 D2. simpl in D1. discriminate D1.
  - (* TOpt *) intros Htw x y v1 v2 C D1 D2. rewrite dv_opt in D1. rewrite td_opt in D2.
    apply rmap_ok in D1 as (a & D1 & ->). apply rmap_ok in D2 as (b & D2 & ->). constructor. apply (IHt Htw x y a b C D1 D2).
  - (* TSeq *) intros Htw x y v1 v2 C D1 D2. destruct x; try (simpl in D1; discriminate D1).
    apply ttv_inv_arr in C as (ys & -> & F). rewrite dv_seq in D1. rewrite td_seq in D2.
    apply rmap_ok in D1 as (a & D1 & ->). apply rmap_ok in D2 as (b & D2 & ->). constructor.
    apply (ag_list t (IHt Htw) xs ys a b F D1 D2).
  - (* TTuple *) intros Htw x y v1 v2 C D1 D2. destruct x; try (simpl in D1; discriminate D1).
    apply ttv_inv_arr in C as (ys & -> & F). rewrite dv_tuple in D1. rewrite td_tuple in D2.
    apply rmap_ok in D1 as (r1 & D1 & ->). apply rmap_ok in D2 as (b & D2 & ->). apply all_read_ok in D2 as (r2 & D2 & <-).
    constructor. apply (ag_pos (fun t' => t') ts (ag_Forall ts H Htw) xs ys r1 r2 F D1 D2).
  - (* TMap *) intros Htw x y v1 v2 C D1 D2. simpl in Htw. apply andb_true_iff in Htw as [Htw Hv]. apply andb_true_iff in Htw as [Hk _].
    destruct x; try (simpl in D1; discriminate D1).
    apply ttv_inv_tab in C as [(k0' & s0' & rest' & d' & _ & _ & _ & ->)|(_ & es' & F & N & ->)]; [simpl in D2; discriminate D2|].
    rewrite dv_map in D1. rewrite td_map in D2.
    apply rmap_ok in D1 as (a & D1 & ->). apply rmap_ok in D2 as (b & D2 & ->).
    apply (ag_map t1 t2 Hk (IHt2 Hv) es es' a b F N D1 D2).
  - (* TStruct *) intros Htw x y v1 v2 C D1 D2. simpl in Htw.
    destruct x; try (simpl in D1; destruct (private_name n); discriminate D1).
    + apply ttv_inv_arr in C as (ys & -> & F). rewrite dv_struct_arr in D1. rewrite td_struct_arr in D2.
      destruct (private_name n); [discriminate D1|].
      apply rmap_ok in D1 as (r1 & D1 & ->). apply rmap_ok in D2 as (b & D2 & ->). apply all_read_ok in D2 as (r2 & D2 & <-).
      constructor. apply (ag_pos (fun ft => snd ft) fs (ag_Forall_fields fs H Htw) xs ys r1 r2 F D1 D2).
    + apply ttv_inv_tab in C as [(k0' & s0' & rest' & d' & _ & _ & _ & ->)|(_ & es' & F & N & ->)]; [simpl in D2; discriminate D2|].
      rewrite dv_struct in D1. rewrite td_struct in D2. destruct (private_name n); [discriminate D1|].
      apply rmap_ok in D1 as (a & D1 & ->). apply rmap_ok in D2 as (b & D2 & ->). constructor.
      apply (ag_struct_map fs es es' (ag_Forall_fields fs H Htw) F N a b D1 D2).
  - (* TNewtype *) intros Htw x y v1 v2 C D1 D2. rewrite dv_newtype in D1. rewrite td_newtype in D2.
    apply rmap_ok in D1 as (a & D1 & ->). apply rmap_ok in D2 as (b & D2 & ->). constructor. apply (IHt Htw x y a b C D1 D2).
  - (* TTupleStruct *) intros Htw x y v1 v2 C D1 D2. destruct x; try (simpl in D1; discriminate D1).
    apply ttv_inv_arr in C as (ys & -> & F). rewrite dv_tuple_struct in D1. rewrite td_tuple_struct in D2.
    apply rmap_ok in D1 as (r1 & D1 & ->). apply rmap_ok in D2 as (b & D2 & ->). apply all_read_ok in D2 as (r2 & D2 & <-).
    constructor. apply (ag_pos (fun t' => t') ts (ag_Forall ts H Htw) xs ys r1 r2 F D1 D2).
  - (* TEnum *) intros Htw x y v1 v2 C D1 D2. simpl in Htw. destruct x; try (simpl in D1; discriminate D1).
    + apply ttv_inv_leaf in C. simpl in C. subst y. rewrite dv_enum_str in D1. rewrite td_enum_str in D2.
      assert (v1 = v2) by congruence. subst v2. destruct (unit_only_inv _ _ _ _ D1) as (i & _ & ->). constructor. constructor.
    + destruct es as [|[k yv] [|? ?]]; try (simpl in D1; discriminate D1).
      apply ttv_inv_tab in C as [(k0' & s0' & rest' & d' & _ & _ & _ & ->)|(_ & es' & F & N & ->)]; [simpl in D2; discriminate D2|].
      inversion F as [|? [k' y1] ? ? [Hk Hc] F']; subst. inversion F'; subst. simpl in Hk. subst k'. simpl in Hc.
      rewrite btree_single in D2. rewrite dv_enum_tab in D1. rewrite td_enum_tab in D2.
      rewrite find_name_first in D1, D2. destruct (first_named k vs) as [[i var]|] eqn:Fn; [|discriminate D1].
      apply rmap_ok in D1 as (p1 & D1 & ->). apply rmap_ok in D2 as (p2 & D2 & ->). constructor.
      pose proof (first_named_In k vs i var Fn) as Hin.
      rewrite Forall_forall in H. rewrite forallb_forall in Htw.
      apply (H (k, var) Hin (Htw (k, var) Hin) yv y1 p1 p2 Hc D1 D2).
  - (* VUnit *) intros _ x y p1 p2 C D1 D2. simpl in D1, D2.
    destruct (empty_container x); [|discriminate D1]. destruct (empty_container y); [|discriminate D2]. tw_leaf D1 D2.
  - (* VNewtype *) intros Htw x y p1 p2 C D1 D2. rewrite dp_newtype in D1. rewrite tdp_newtype in D2. apply (IHt Htw x y p1 p2 C D1 D2).
  - (* VTuple *) intros Htw x y p1 p2 C D1 D2. simpl in Htw. destruct x; try (simpl in D1; discriminate D1).
    + apply ttv_inv_arr in C as (ys & -> & F). rewrite dp_tuple in D1. rewrite tdp_tuple in D2.
      destruct (Nat.eqb (length xs) (length ts)); [|discriminate D1]. destruct (Nat.eqb (length ys) (length ts)); [|discriminate D2].
      apply rmap_ok in D1 as (r1 & D1 & ->). apply rmap_ok in D2 as (b & D2 & ->). apply all_read_ok in D2 as (r2 & D2 & <-).
      constructor. apply (ag_pos (fun t' => t') ts (ag_Forall ts H Htw) xs ys r1 r2 F D1 D2).
    + apply ttv_inv_tab in C as [(k0' & s0' & rest' & d' & _ & _ & _ & ->)|(_ & es' & F & N & ->)]; [simpl in D2; discriminate D2|].
      rewrite dp_tuple_tab in D1. rewrite tdp_tuple_tab in D2.
      destruct (index_keys 0 es) as [xs|] eqn:I1; [|discriminate D1].
      destruct (index_keys 0 (btree_of_pairs es')) as [ys|] eqn:I2; [|discriminate D2].
      pose proof (ag_index_keys es es' xs ys F N I1 I2) as Fxy.
      destruct (Nat.eqb (length xs) (length ts)); [|discriminate D1]. destruct (Nat.eqb (length ys) (length ts)); [|discriminate D2].
      apply rmap_ok in D1 as (r1 & D1 & ->). apply rmap_ok in D2 as (b & D2 & ->). apply all_read_ok in D2 as (r2 & D2 & <-).
      constructor. apply (ag_pos (fun t' => t') ts (ag_Forall ts H Htw) xs ys r1 r2 Fxy D1 D2).
  - (* VStruct *) intros Htw x y p1 p2 C D1 D2. simpl in Htw. destruct x; try (simpl in D1; discriminate D1).
    + apply ttv_inv_arr in C as (ys & -> & F). rewrite dp_struct_arr in D1. rewrite tdp_struct_arr in D2.
      apply rmap_ok in D1 as (r1 & D1 & ->). apply rmap_ok in D2 as (b & D2 & ->). apply all_read_ok in D2 as (r2 & D2 & <-).
      constructor. apply (ag_pos (fun ft => snd ft) fs (ag_Forall_fields fs H Htw) xs ys r1 r2 F D1 D2).
    + apply ttv_inv_tab in C as [(k0' & s0' & rest' & d' & _ & _ & _ & ->)|(_ & es' & F & N & ->)]; [simpl in D2; discriminate D2|].
      rewrite dp_struct in D1. rewrite tdp_struct in D2. destruct (struct_keys_ok (map fst fs) es); [|discriminate D1].
      apply rmap_ok in D1 as (a & D1 & ->). apply rmap_ok in D2 as (b & D2 & ->). constructor.
      apply (ag_struct_map fs es es' (ag_Forall_fields fs H Htw) F N a b D1 D2).
Qed.
