(* Proofs/SpansNestValue.v — C14, nesting inside values: every value returned by `value` satisfies
   `vnest` (Proofs/SpansDefs.v): all that an array / braces-delimited inline table stores lies inside its
   span, tables made of dotted keys cover their keys and values; recursively. *)
From TV Require Import Base.Prelude Base.Utf8 Base.Winnow Gen.Consts Spec.Abnf.
From TV Require Import Model.Trivia Model.Strings Model.Datetime Model.Numbers Model.Tree Model.Parse Model.Document.
From TV Require Import Proofs.ConstsOk Proofs.NoPanicBase Proofs.NoPanicLex Proofs.NoPanicValue Proofs.NoPanicState.
From TV Require Import Proofs.SpansDefs Proofs.SpansBase Proofs.SpansLex Proofs.SpansValue Proofs.SpansExact
                       Proofs.SpansNestLex Proofs.SpansNestInline.
Require Import Lia ZifyBool ZifyN ZifyNat.

Lemma vnest_decorate v p s : vnest (value_decorate v p s) = vnest v.
Proof. destruct v; reflexivity. Qed.
Lemma value_span_decorate v p s : value_span (value_decorate v p s) = value_span v.
Proof. destruct v; reflexivity. Qed.

Definition body_nest (v : value) : Prop :=
  match v with
  | VScalar _ _ _ => True
  | VArray vals _ _ _ _ => forallb inest vals = true
  | VInline items _ im dt _ _ => Inest items = true /\ im = false /\ dt = false
  end.

Lemma vnest_apply_raw a b v : body_in a b v -> body_nest v -> vnest (apply_raw v (a, b)) = true.
Proof.
  intros Hb Hn. unfold apply_raw.
  destruct v as [s [r|] d|vals tr c d [sp|]|items pre im dt d [sp|]]; cbn [body_in body_nest] in *; try contradiction;
    cbn [value_decorate].
  - reflexivity.
  - destruct Hb as [H1 H2]. rewrite vnest_array, H1, H2, Hn. reflexivity.
  - destruct Hb as [H1 H2]. destruct Hn as (H3 & -> & ->). rewrite vnest_inline. unfold items_in in H1. rewrite H1, H2, H3. reflexivity.
Qed.

Section Knot.
  Variable value_rec : parser value.
  Hypothesis Hm : mono value_rec.
  Hypothesis Hw : winP (fun lo hi v => value_in lo hi v = true) value_rec.
  Hypothesis Hn : valP (fun v => vnest v = true) value_rec.
  Hypothesis Hx : forall i v i', value_rec i = Ok v i' -> value_span v = Some (pos i, pos i').

  Lemma array_value_nest : valP (fun it => inest it = true) (array_value value_rec).
  Proof.
    intros i it i' E. unfold array_value in E. binds E. apply ret_ok in E as [-> ->].
    rewrite inest_value, vnest_decorate. eapply Hn, E1.
  Qed.
  Lemma array_values_nest : valP body_nest (array_values value_rec).
  Proof.
    intros i v i' E. unfold array_values in E. binds E. destruct a as [c|].
    - apply ret_ok in E as [-> ->]. reflexivity.
    - binds E. apply ret_ok in E as [-> ->]. cbn [body_nest]. apply forallb_Forall.
      eapply (valP_separated0_all (fun it => inest it = true)); [apply array_value_nest|exact E1].
  Qed.
  Lemma array_nest : valP body_nest (array value_rec).
  Proof.
    intros i v i' E. unfold array in E. binds E. apply ret_ok in E as [-> ->]. apply cut_err_ok in E1.
    eapply array_values_nest, E1.
  Qed.

  Lemma inline_keyval_nest : valP pair_nest (inline_keyval value_rec).
  Proof.
    intros i x i' E. rewrite inline_keyval_eq in E. binds E. destruct a0 as [[pre v] suf].
    destruct (pop_key a) as [[path k]|] eqn:P; [|discriminate]. apply ret_ok in E as [-> ->].
    pose proof (key_chain _ _ _ E0) as Hch. rewrite (pop_key_app _ _ _ P) in Hch.
    unfold inline_kv_rhs in E1. apply cut_err_ok in E1. binds E1. apply ret_ok in E1 as [X ->]. inversion X; subst. clear X.
    pos_le E. pos_le E2. pos_le E3.
    exists (pos i), (pos j), (pos j2), (pos j3). cbn [fst snd]. repeat split.
    - exact Hch.
    - cbn [item_span]. rewrite value_span_decorate. eapply Hx, E3.
    - lia.
    - lia.
    - rewrite inest_value, vnest_decorate. eapply Hn, E3.
  Qed.

  Lemma inline_body_nest : valP body_nest (inline_body value_rec).
  Proof.
    intros i v i' E. unfold inline_body in E. apply try_map_ok in E as ([kv p] & E & G).
    unfold inline_kvs in E. binds E. apply ret_ok in E as [X ->]. inversion X; subst. clear X.
    assert (Hp : Forall pair_nest a).
    { eapply (valP_separated0_all pair_nest); [apply inline_keyval_nest|exact E0]. }
    destruct (table_from_pairs_nest _ _ _ Hp G) as (items & -> & Hi). cbn [body_nest]. auto.
  Qed.
  Lemma inline_table_nest : valP body_nest (inline_table value_rec).
  Proof.
    intros i v i' E. rewrite inline_table_eq in E. binds E. apply ret_ok in E as [-> ->]. apply cut_err_ok in E1.
    eapply inline_body_nest, E1.
  Qed.

  Lemma valP_scalar_nest {A} (p : parser A) (f : A -> scalar) : valP body_nest (pmap (fun x => scalar_value (f x)) p).
  Proof. eapply valP_pmap; [apply valP_true|]. intros a _. exact I. Qed.

  Lemma value_body_nest : valP body_nest (value_body value_rec).
  Proof.
    unfold value_body. apply valP_bind; intro b.
    repeat match goal with |- valP _ (if ?c then _ else _) => destruct c end;
      repeat apply valP_context; repeat apply valP_alt;
      try (apply valP_scalar_nest); try apply valP_fail.
    - apply valP_check_recursion, array_nest.
    - apply valP_check_recursion, inline_table_nest.
  Qed.

  Lemma value_step_nest : valP (fun v => vnest v = true) (value_step value_rec).
  Proof.
    intros i v i' E. apply value_step_exact in E as (v0 & E & ->).
    apply vnest_apply_raw; [|eapply value_body_nest, E].
    eapply (value_body_win _ Hm Hw); [exact E|apply N.le_refl|apply N.le_refl].
  Qed.
End Knot.

Lemma value_f_nest n : valP (fun v => vnest v = true) (value_f n).
Proof.
  induction n as [|n IH].
  - cbn [value_f]. apply valP_const_panic.
  - change (value_f (S n)) with (value_step (value_f n)).
    apply value_step_nest; [apply value_f_all|apply value_f_win|exact IH|].
    intros i v i' E. apply (value_f_exact n), E.
Qed.
Theorem value_nest : valP (fun v => vnest v = true) value_.
Proof. intros i v i' E. eapply value_f_nest, E. Qed.
