(* Proofs/LexEquivKey.v — C01/C02 layer L1, the two remaining token-like rules:
     ws-comment-newline = *( wschar / [ comment ] newline )       (trivia.rs ws_comment_newline)
     key = simple-key / dotted-key                                 (key.rs key)
   against Spec/Syntax.v wscn_tok / key_tok.  `key_` reads the whitespace around the key
   (the ws of keyval-sep, std-table-open / -close) and produces the list of decoded keys;
   it refuses LIMIT or more parts. *)
From TV Require Import Base.Prelude Base.Utf8 Base.Winnow Gen.Consts Spec.Abnf Spec.Lex Spec.Syntax.
From TV Require Import Model.Trivia Model.Strings Model.Datetime Model.Numbers Model.Tree Model.Parse.
From TV Require Import Proofs.ConstsOk Proofs.LexEquivBase Proofs.LexEquivTrivia Proofs.LexEquivStrings Proofs.GrammarSep.
Require Import Lia ZifyBool ZifyN ZifyNat.

(* ================================================================================================ *)
(* ws-comment-newline                                                                               *)
(* ================================================================================================ *)
Lemma ws_wscn w t : ws_tok w -> wscn_tok t -> wscn_tok (w ++ t).
Proof.
  unfold ws_tok, all. induction w as [|b w IH]; intros Hw Ht; [exact Ht|].
  cbn [forallb] in Hw. apply andb_true_iff in Hw as [Hb Hw]. cbn [app]. apply wscn_ws; [exact Hb|]. apply IH; assumption.
Qed.

Lemma wscn_app t u : wscn_tok t -> wscn_tok u -> wscn_tok (t ++ u).
Proof.
  induction 1 as [|b t Hb Ht IH|c nl t Hc Hn Ht IH]; intro Hu; [exact Hu| |].
  - cbn [app]. apply wscn_ws; [exact Hb|apply IH, Hu].
  - rewrite <- !app_assoc. apply wscn_nl; [exact Hc|exact Hn|apply IH, Hu].
Qed.

Definition wscn_step (f : nat) (start : N) (p : parser unit) (i1 : input) : res unit :=
  match p i1 with
  | Ok _ i2 => if (pos i2 =? start)%N then Ok tt i2 else ws_comment_newline_f f (pos i2) i2
  | Bt e i' => Bt e i'
  | Cut e i' => Cut e i'
  | Panic s => Panic s
  end.

Lemma wscn_f_unfold f start i :
  ws_comment_newline_f (S f) start i =
  match ws i with
  | Ok _ i1 =>
    match rest i1 with
    | b :: _ =>
      if byte_eqb b x23 then wscn_step f start (comment ;;; context newline) i1
      else if byte_eqb b x0a then wscn_step f start newline i1
      else if byte_eqb b x0d then wscn_step f start newline i1
      else Ok tt i1
    | [] => Ok tt i1
    end
  | Bt e i' => Bt e i'
  | Cut e i' => Cut e i'
  | Panic s => Panic s
  end.
Proof. reflexivity. Qed.

Lemma comment_line_sound i u i' : (comment ;;; context newline) i = Ok u i' ->
  exists c nl, comment_tok c /\ newline_tok nl /\ splits i (c ++ nl) i'.
Proof.
  intro H. apply bind_inv in H as (x & i1 & H1 & H). apply comment_sound in H1 as (c & Hc & S1 & _).
  apply context_inv, newline_sound in H as (nl & Hn & S2). exists c, nl. split; [exact Hc|]. split; [exact Hn|].
  eapply splits_trans; eassumption.
Qed.

Lemma wscn_f_sound : forall fuel start i u i', ws_comment_newline_f fuel start i = Ok u i' ->
  exists t, wscn_tok t /\ splits i t i'.
Proof.
  induction fuel as [|f IH]; intros start i u i' H; [discriminate|]. rewrite wscn_f_unfold in H.
  destruct (ws i) as [w i1|e j|e j|s] eqn:Ew; try discriminate. apply ws_sound in Ew as (Hw & S1 & _).
  assert (Hstep : forall p, (forall j v j', p j = Ok v j' -> exists c nl, opt_comment c /\ newline_tok nl /\ splits j (c ++ nl) j') ->
            wscn_step f start p i1 = Ok u i' -> exists t, wscn_tok t /\ splits i t i').
  { intros p Hp Hs. unfold wscn_step in Hs. destruct (p i1) as [v i2|e j|e j|s] eqn:Ep; try discriminate.
    apply Hp in Ep as (c & nl & Hc & Hn & S2).
    destruct (pos i2 =? start)%N.
    - injection Hs as _ <-. exists (w ++ c ++ nl). split.
      + apply ws_wscn; [exact Hw|]. replace (c ++ nl) with (c ++ nl ++ []) by (rewrite app_nil_r; reflexivity).
        apply wscn_nl; [exact Hc|exact Hn|apply wscn_nil].
      + eapply splits_trans; eassumption.
    - apply IH in Hs as (t & Ht & S3). exists (w ++ (c ++ nl ++ t)). split.
      + apply ws_wscn; [exact Hw|]. apply wscn_nl; assumption.
      + eapply splits_trans; [exact S1|]. rewrite app_assoc. eapply splits_trans; eassumption. }
  assert (Hnl : forall j v j', newline j = Ok v j' -> exists c nl, opt_comment c /\ newline_tok nl /\ splits j (c ++ nl) j').
  { intros j v j' E. apply newline_sound in E as (nl & Hn & S). exists [], nl. split; [left; reflexivity|]. auto. }
  assert (Hcl : forall j v j', (comment ;;; context newline) j = Ok v j' ->
                  exists c nl, opt_comment c /\ newline_tok nl /\ splits j (c ++ nl) j').
  { intros j v j' E. apply comment_line_sound in E as (c & nl & Hc & Hn & S). exists c, nl. split; [right; exact Hc|]. auto. }
  assert (Hend : Ok tt i1 = Ok u i' -> exists t, wscn_tok t /\ splits i t i').
  { intro E. injection E as _ <-. exists w. split; [|exact S1].
    rewrite <- (app_nil_r w). apply ws_wscn; [exact Hw|apply wscn_nil]. }
  destruct (rest i1) as [|b r1]; [apply Hend, H|].
  destruct (byte_eqb b x23); [apply (Hstep _ Hcl H)|].
  destruct (byte_eqb b x0a); [apply (Hstep _ Hnl H)|].
  destruct (byte_eqb b x0d); [apply (Hstep _ Hnl H)|]. apply Hend, H.
Qed.

Theorem wscn_sound i u i' : ws_comment_newline i = Ok u i' -> exists t, wscn_tok t /\ splits i t i'.
Proof. apply wscn_f_sound. Qed.

(* a ws-comment-newline text is a maximal whitespace run, then nothing or a line end and more *)
Lemma wscn_split t : wscn_tok t ->
  exists w t', t = w ++ t' /\ ws_tok w /\
    (t' = [] \/ exists c nl t'', t' = c ++ nl ++ t'' /\ opt_comment c /\ newline_tok nl /\ wscn_tok t'').
Proof.
  induction 1 as [|b t Hb Ht IH|c nl t Hc Hn Ht IH].
  - exists [], []. split; [reflexivity|]. split; [reflexivity|]. left; reflexivity.
  - destruct IH as (w & t' & -> & Hw & Ht'). exists (b :: w), t'. split; [reflexivity|]. split; [|exact Ht'].
    unfold ws_tok, all in *. cbn [forallb]. rewrite Hb, Hw. reflexivity.
  - exists [], (c ++ nl ++ t). split; [reflexivity|]. split; [reflexivity|]. right. exists c, nl, t. auto.
Qed.

Lemma newline_tok_head nl : newline_tok nl -> exists b tl, nl = b :: tl /\ (b = x0a \/ b = x0d).
Proof. intros [-> | ->]; eexists _, _; split; eauto. Qed.

Lemma newline_stops_wschar nl r : newline_tok nl -> stops wschar (nl ++ r).
Proof. intros [-> | ->]; reflexivity. Qed.

Lemma newline_stops_non_eol nl r : newline_tok nl -> stops non_eol (nl ++ r).
Proof. intros [-> | ->]; reflexivity. Qed.

Lemma wscn_f_complete r (Hr : wscn_stop r) : forall fuel i t,
  length (rest i) < fuel -> wscn_tok t -> rest i = t ++ r ->
  ws_comment_newline_f fuel (pos i) i = Ok tt (adv t i).
Proof.
  induction fuel as [|f IH]; intros i t Hf Ht H; [lia|]. rewrite wscn_f_unfold.
  destruct (wscn_split t Ht) as (w & t' & -> & Hw & Ht'). rewrite <- app_assoc in H.
  assert (Hstop : stops wschar (t' ++ r)).
  { destruct Ht' as [-> | (c & nl & t'' & -> & Hc & Hn & _)].
    - destruct r as [|b r']; [exact I|]. cbn [app stops]. apply Hr.
    - destruct Hc as [-> | (u & -> & _)]; [|reflexivity]. cbn [app]. rewrite <- app_assoc. apply newline_stops_wschar, Hn. }
  rewrite (ws_complete i w (t' ++ r) H Hw Hstop).
  pose proof (rest_adv w _ i H) as R1. rewrite R1.
  destruct Ht' as [-> | (c & nl & t'' & -> & Hc & Hn & Ht'')].
  - rewrite app_nil_r. cbn [app]. destruct r as [|b r']; [reflexivity|].
    destruct Hr as (_ & H1 & H2 & H3).
    apply byte_eqb_neq in H1, H2, H3. rewrite H1, H2, H3. reflexivity.
  - (* one line end, then the rest by induction *)
    assert (Hline : exists p, wscn_step f (pos i) p (adv w i) = Ok tt (adv (w ++ c ++ nl ++ t'') i) /\
              match (c ++ nl ++ t'') ++ r with
              | b :: _ => (if byte_eqb b x23 then wscn_step f (pos i) (comment ;;; context newline) (adv w i)
                           else if byte_eqb b x0a then wscn_step f (pos i) newline (adv w i)
                           else if byte_eqb b x0d then wscn_step f (pos i) newline (adv w i)
                           else Ok tt (adv w i)) = wscn_step f (pos i) p (adv w i)
              | [] => False
              end).
    { assert (Hrec : forall p, p (adv w i) = Ok tt (adv (c ++ nl) (adv w i)) ->
                wscn_step f (pos i) p (adv w i) = Ok tt (adv (w ++ c ++ nl ++ t'') i)).
      { intros p Ep. unfold wscn_step. rewrite Ep. rewrite adv_adv.
        assert (Hlen : 0 < length (c ++ nl)).
        { rewrite app_length. destruct (newline_tok_head nl Hn) as (b & tl & -> & _). cbn [length]. lia. }
        rewrite pos_adv. destruct (pos i + N.of_nat (length (w ++ c ++ nl)) =? pos i)%N eqn:Q.
        { rewrite app_length in Q. lia. }
        assert (R2 : rest i = (w ++ c ++ nl) ++ t'' ++ r) by (rewrite H; rewrite <- !app_assoc; reflexivity).
        rewrite <- pos_adv. rewrite (IH (adv (w ++ c ++ nl) i) t'').
        - rewrite adv_adv. rewrite <- !app_assoc. reflexivity.
        - rewrite (rest_adv _ _ i R2). rewrite R2 in Hf. rewrite !app_length in *. lia.
        - exact Ht''.
        - apply (rest_adv _ _ i R2). }
      destruct Hc as [-> | Hc].
      - exists newline. split.
        + apply Hrec. cbn [app]. apply (newline_complete _ nl (t'' ++ r)); [|exact Hn].
          rewrite R1. cbn [app]. rewrite <- app_assoc. reflexivity.
        + cbn [app]. destruct (newline_tok_head nl Hn) as (b & tl & -> & [-> | ->]); reflexivity.
      - exists (comment ;;; context newline). split.
        + apply Hrec.
          assert (R3 : rest (adv w i) = c ++ nl ++ t'' ++ r) by (rewrite R1; rewrite <- !app_assoc; reflexivity).
          rewrite (bind_ok _ _ _ _ _ (comment_complete _ c _ R3 Hc (newline_stops_non_eol nl _ Hn))).
          rewrite (context_ok _ _ _ _ (newline_complete _ nl (t'' ++ r) (rest_adv c _ _ R3) Hn)).
          rewrite adv_adv. reflexivity.
        + destruct Hc as (u & -> & _). reflexivity. }
    destruct Hline as (p & Ep & Hd). destruct ((c ++ nl ++ t'') ++ r) as [|b tl]; [contradiction|].
    rewrite Hd. exact Ep.
Qed.

Theorem wscn_complete i t r :
  wscn_tok t -> rest i = t ++ r -> wscn_stop r -> ws_comment_newline i = Ok tt (adv t i).
Proof. intros Ht H Hr. unfold ws_comment_newline. apply (wscn_f_complete r Hr); [lia|exact Ht|exact H]. Qed.

(* ================================================================================================ *)
(* key                                                                                              *)
(* ================================================================================================ *)
Lemma bind_ok_fails' {A B} (p : parser A) (f : A -> parser B) i a i' :
  p i = Ok a i' -> fails (f a) i' -> fails (bind p f) i.
Proof. intros E (e & j & F). unfold fails, bind. rewrite E, F. eauto. Qed.

Lemma simple_key_tok_head t k : simple_key_tok t k ->
  exists b t', t = b :: t' /\ wschar b = false /\ b <> x2e /\ b <> x3d /\ b <> x5d.
Proof.
  intros [(_ & body & -> & _) | [(_ & body & -> & _) | [[Hne Ha] _]]].
  - exists x22, (body ++ [x22]). repeat split; discriminate.
  - exists x27, (body ++ [x27]). repeat split; discriminate.
  - destruct t as [|b t']; [congruence|]. exists b, t'. split; [reflexivity|].
    unfold all in Ha. cbn [forallb] in Ha. apply andb_true_iff in Ha as [Hb _].
    split; [revert Hb; cls; lia|].
    repeat split; intros ->; discriminate Hb.
Qed.

Lemma key_tok_head t ks : key_tok t ks ->
  exists b t', t = b :: t' /\ wschar b = false /\ b <> x2e /\ b <> x3d /\ b <> x5d.
Proof.
  intros [t0 k H | t0 k w1 w2 u ks0 H _ _ _]; destruct (simple_key_tok_head _ _ H) as (b & t' & -> & Hb);
    eexists b, _; (split; [reflexivity|exact Hb]).
Qed.

Lemma key_tok_nonempty t ks : key_tok t ks -> ks <> [].
Proof. intros [? ? ?|? ? ? ? ? ? ? ? ? ?]; discriminate. Qed.

(* what may follow a key part and its trailing whitespace *)
Definition kp_stop (r : bytes) : Prop := stops wschar r /\ stops unquoted_key_char r.

Lemma kp_stop_ws w r : ws_tok w -> kp_stop r -> stops unquoted_key_char (w ++ r).
Proof.
  intros Hw [_ Hr]. destruct w as [|b w]; [exact Hr|]. cbn [app stops].
  unfold ws_tok, all in Hw. cbn [forallb] in Hw. apply andb_true_iff in Hw as [Hb _]. revert Hb. cls. lia.
Qed.

Lemma key_part_sound i a i1 : key_part i = Ok a i1 ->
  exists w0 t w, ws_tok w0 /\ simple_key_tok t (k_key a) /\ ws_tok w /\ splits i (w0 ++ t ++ w) i1
                 /\ stops wschar (rest i1).
Proof.
  unfold key_part. intro H.
  apply bind_inv in H as (pre & j1 & H1 & H). apply span_inv in H1 as (w0 & H1 & _).
  apply ws_sound in H1 as (Hw0 & S1 & _).
  apply bind_inv in H as ([rw k] & j2 & H2 & H). apply simple_key_sound in H2 as (t & Ht & S2 & _).
  apply bind_inv in H as (suf & j3 & H3 & H). apply span_inv in H3 as (w & H3 & _).
  apply ws_sound in H3 as (Hw & S3 & Hst). apply ret_inv in H as [-> ->].
  exists w0, t, w. cbn [k_key]. split; [exact Hw0|]. split; [exact Ht|]. split; [exact Hw|]. split; [|exact Hst].
  exact (splits_trans _ _ _ _ _ S1 (splits_trans _ _ _ _ _ S2 S3)).
Qed.

Lemma key_part_complete i w0 t k w r :
  ws_tok w0 -> simple_key_tok t k -> ws_tok w -> rest i = w0 ++ t ++ w ++ r -> kp_stop r ->
  exists a, key_part i = Ok a (adv (w0 ++ t ++ w) i) /\ k_key a = k.
Proof.
  intros Hw0 Ht Hw H Hr. unfold key_part.
  destruct (simple_key_tok_head t k Ht) as (b & t' & E & Hb & _).
  assert (S0 : stops wschar (t ++ w ++ r)) by (rewrite E; exact Hb).
  rewrite (bind_ok _ _ _ _ _ (span_ok _ _ _ _ (ws_complete i w0 _ H Hw0 S0))).
  pose proof (rest_adv w0 _ i H) as R1.
  rewrite (bind_ok _ _ _ _ _ (simple_key_complete _ t k (w ++ r) Ht R1 (fun _ => kp_stop_ws w r Hw Hr))).
  cbv beta iota. rewrite adv_adv.
  assert (R2 : rest (adv (w0 ++ t) i) = w ++ r) by (apply rest_adv; rewrite H, <- app_assoc; reflexivity).
  rewrite (bind_ok _ _ _ _ _ (span_ok _ _ _ _ (ws_complete _ w r R2 Hw (proj1 Hr)))).
  rewrite adv_adv, <- app_assoc. eexists. split; reflexivity.
Qed.

Definition dot_sep : parser byte := byte_ DOT_SEP.

Lemma key_part_shrinking : shrinking key_part.
Proof.
  apply splits_shrinking. intros i a i' H. apply key_part_sound in H as (w0 & t & w & _ & _ & _ & S & _). eauto.
Qed.
Lemma dot_sep_shrinking : shrinking dot_sep.
Proof. apply splits_shrinking. intros i a i' H. apply byte_inv in H as [_ S]. eauto. Qed.

Lemma key_seps_sound i l i' : seps key_part dot_sep i l i' ->
  (l = [] /\ i' = i) \/
  exists b t a, ws_tok b /\ key_tok t (map k_key l) /\ ws_tok a /\ splits i ([x2e] ++ b ++ t ++ a) i'.
Proof.
  induction 1 as [i F|i x i1 E Hlt F|i x i1 a i2 l i3 E Hlt E2 Hle R IH]; [left; auto|left; auto|].
  right. apply byte_inv in E as [_ S1]. apply key_part_sound in E2 as (w0 & t & w & Hw0 & Ht & Hw & S2 & _).
  destruct IH as [[-> ->] | (b' & t' & a' & Hb' & Ht' & Ha' & S3)].
  - exists w0, t, w. split; [exact Hw0|]. split; [apply key_one, Ht|]. split; [exact Hw|].
    eapply splits_trans; eassumption.
  - exists w0, (t ++ w ++ [x2e] ++ b' ++ t'), a'. split; [exact Hw0|]. split; [|split; [exact Ha'|]].
    + cbn [map]. apply key_dot; assumption.
    + pose proof (splits_trans _ _ _ _ _ S1 (splits_trans _ _ _ _ _ S2 S3)) as S.
      rewrite <- !app_assoc in *. exact S.
Qed.

Lemma fix_key_path_keys path p : fix_key_path path = Some p -> map k_key p = map k_key path.
Proof.
  unfold fix_key_path. destruct path as [|first tl]; [discriminate|].
  set (first' := match d_prefix (k_dotted first) with Some _ => set_dotted_prefix first REmpty | None => first end).
  assert (Hf : k_key first' = k_key first) by (unfold first'; destruct (d_prefix (k_dotted first)); reflexivity).
  destruct (rev (first' :: tl)) as [|last rinit] eqn:Er; [discriminate|]. intro H. injection H as <-.
  rewrite map_app. cbn [map].
  match goal with |- context [k_key (set_leaf ?a ?b)] =>
    replace (k_key (set_leaf a b)) with (k_key last) by (destruct (d_suffix (k_dotted last)); reflexivity) end.
  assert (E : first' :: tl = rev rinit ++ [last]) by (rewrite <- (rev_involutive (first' :: tl)), Er; reflexivity).
  apply (f_equal (map k_key)) in E. rewrite map_app in E. cbn [map] in E. rewrite Hf in E. symmetry. exact E.
Qed.

Definition key_check (k : list key) : tm (list key) :=
  if check_depth (length k) then TmErr RecursionLimit else TmOk k.

Lemma key_unfold i :
  key_ i = (path <- try_map key_check (context (separated1 key_part dot_sep)) ;;
            match fix_key_path path with Some p => ret p | None => fun _ => Panic P_key_path_empty end) i.
Proof. reflexivity. Qed.

Theorem key_sound i kp i' : key_ i = Ok kp i' ->
  exists w1 t w2, ws_tok w1 /\ key_tok t (map k_key kp) /\ ws_tok w2 /\ splits i (w1 ++ t ++ w2) i'
                  /\ length kp < LIMIT.
Proof.
  rewrite key_unfold. intro H. apply bind_inv in H as (path & j & H1 & H).
  apply try_map_inv in H1 as (path0 & H1 & Hc). unfold key_check in Hc.
  destruct (check_depth (length path0)) eqn:Ed; [discriminate|]. injection Hc as ->.
  apply context_inv in H1. apply (separated1_inv _ _ _ _ _ key_part_shrinking dot_sep_shrinking) in H1
    as (a & i1 & l & -> & Ea & R).
  destruct (fix_key_path (a :: l)) as [p|] eqn:Ef; [|discriminate]. apply ret_inv in H as [-> ->].
  pose proof (fix_key_path_keys _ _ Ef) as Hk.
  assert (Hlen : length p < LIMIT).
  { unfold check_depth in Ed. apply Nat.leb_gt in Ed.
    assert (L : length (map k_key p) = length (map k_key (a :: l))) by (rewrite Hk; reflexivity).
    rewrite !map_length in L. lia. }
  apply key_part_sound in Ea as (w0 & t & w & Hw0 & Ht & Hw & S1 & _).
  apply key_seps_sound in R as [[-> ->] | (b' & t' & a' & Hb' & Ht' & Ha' & S2)].
  - exists w0, t, w. rewrite Hk. cbn [map]. split; [exact Hw0|]. split; [apply key_one, Ht|]. auto.
  - exists w0, (t ++ w ++ [x2e] ++ b' ++ t'), a'. rewrite Hk. cbn [map]. split; [exact Hw0|].
    split; [apply key_dot; assumption|]. split; [exact Ha'|]. split; [|exact Hlen].
    pose proof (splits_trans _ _ _ _ _ S1 S2) as S. rewrite <- !app_assoc in *. exact S.
Qed.

Lemma key_stop_kp r : key_stop r -> kp_stop r /\ stops (byte_eqb DOT_SEP) r.
Proof. intros (b & r' & -> & [-> | ->]); repeat split; reflexivity. Qed.

(* the parts of a key, as the separated1 loop reads them *)
Lemma key_parts_complete t ks : key_tok t ks -> forall i w0 w2 r,
  ws_tok w0 -> ws_tok w2 -> rest i = w0 ++ t ++ w2 ++ r -> key_stop r ->
  exists a i1 l, key_part i = Ok a i1 /\ seps key_part dot_sep i1 l (adv (w0 ++ t ++ w2) i)
                 /\ map k_key (a :: l) = ks.
Proof.
  induction 1 as [t k Ht|t k w1 w3 u ks Ht Hw1 Hw3 Hu IH]; intros i w0 w2 r Hw0 Hw2 H Hr.
  - destruct (key_stop_kp r Hr) as [Hkp Hdot].
    destruct (key_part_complete i w0 t k w2 r Hw0 Ht Hw2 H Hkp) as (a & Ea & Hk).
    exists a, (adv (w0 ++ t ++ w2) i), []. split; [exact Ea|]. split; [|cbn [map]; rewrite Hk; reflexivity].
    apply seps_stop_sep. apply byte_fails. rewrite (rest_adv (w0 ++ t ++ w2) r i); [exact Hdot|].
    rewrite H, <- !app_assoc. reflexivity.
  - assert (H' : rest i = w0 ++ t ++ w1 ++ ([x2e] ++ w3 ++ u ++ w2 ++ r))
      by (rewrite H, <- !app_assoc; reflexivity).
    assert (Hkp : kp_stop ([x2e] ++ w3 ++ u ++ w2 ++ r)) by (split; reflexivity).
    destruct (key_part_complete i w0 t k w1 _ Hw0 Ht Hw1 H' Hkp) as (a & Ea & Hk).
    set (i1 := adv (w0 ++ t ++ w1) i) in *.
    assert (R1 : rest i1 = x2e :: w3 ++ u ++ w2 ++ r).
    { unfold i1. apply rest_adv. rewrite H', <- !app_assoc. reflexivity. }
    pose proof (byte_ok DOT_SEP i1 _ R1) as Edot. fold dot_sep in Edot.
    assert (R2 : rest (adv [DOT_SEP] i1) = w3 ++ u ++ w2 ++ r) by (apply (rest_adv [x2e]); exact R1).
    destruct (IH (adv [DOT_SEP] i1) w3 w2 r Hw3 Hw2 R2 Hr) as (a' & i2 & l & Ea' & R & Hks).
    exists a, i1, (a' :: l). split; [exact Ea|]. split; [|cbn [map] in *; rewrite Hk, Hks; reflexivity].
    eapply seps_cons; [exact Edot| | exact Ea' | |].
    + rewrite R2, R1. cbn [length]. lia.
    + apply (key_part_shrinking _ _ _ Ea').
    + unfold i1 in R. rewrite !adv_adv in R. rewrite <- !app_assoc in *. exact R.
Qed.

Lemma fix_key_path_total path : path <> [] -> exists p, fix_key_path path = Some p.
Proof.
  intro Hne. unfold fix_key_path. destruct path as [|first tl]; [congruence|].
  match goal with |- context [rev ?x] => destruct (rev x) as [|last rinit] eqn:Er end.
  - apply (f_equal (@length key)) in Er. rewrite rev_length in Er. discriminate.
  - eauto.
Qed.

Lemma key_raw_complete i w1 t ks w2 r :
  ws_tok w1 -> key_tok t ks -> ws_tok w2 -> rest i = w1 ++ t ++ w2 ++ r -> key_stop r ->
  exists path, context (separated1 key_part dot_sep) i = Ok path (adv (w1 ++ t ++ w2) i) /\ map k_key path = ks.
Proof.
  intros Hw1 Ht Hw2 H Hr.
  destruct (key_parts_complete t ks Ht i w1 w2 r Hw1 Hw2 H Hr) as (a & i1 & l & Ea & R & Hks).
  exists (a :: l). split; [|exact Hks]. apply context_ok. apply (separated1_cons _ _ _ _ _ _ _ Ea R).
Qed.

Theorem key_complete i w1 t ks w2 r :
  ws_tok w1 -> key_tok t ks -> ws_tok w2 -> rest i = w1 ++ t ++ w2 ++ r -> key_stop r ->
  length ks < LIMIT ->
  exists kp, key_ i = Ok kp (adv (w1 ++ t ++ w2) i) /\ map k_key kp = ks.
Proof.
  intros Hw1 Ht Hw2 H Hr Hlen.
  destruct (key_raw_complete i w1 t ks w2 r Hw1 Ht Hw2 H Hr) as (path & Ep & Hks).
  assert (Hne : path <> []) by (intros ->; apply (key_tok_nonempty _ _ Ht); rewrite <- Hks; reflexivity).
  destruct (fix_key_path_total path Hne) as (p & Ef).
  exists p. split; [|rewrite (fix_key_path_keys _ _ Ef); exact Hks].
  assert (Hc : key_check path = TmOk path).
  { unfold key_check, check_depth. rewrite <- Hks, map_length in Hlen.
    destruct (Nat.leb LIMIT (length path)) eqn:Q; [apply Nat.leb_le in Q; lia|reflexivity]. }
  rewrite key_unfold. rewrite (bind_ok _ _ _ _ _ (try_map_ok _ _ _ _ path _ Ep Hc)).
  rewrite Ef. reflexivity.
Qed.

Theorem key_too_long i w1 t ks w2 r :
  ws_tok w1 -> key_tok t ks -> ws_tok w2 -> rest i = w1 ++ t ++ w2 ++ r -> key_stop r ->
  LIMIT <= length ks -> exists j, key_ i = Bt (err_of RecursionLimit) j.
Proof.
  intros Hw1 Ht Hw2 H Hr Hlen.
  destruct (key_raw_complete i w1 t ks w2 r Hw1 Ht Hw2 H Hr) as (path & Ep & Hks).
  rewrite key_unfold. unfold bind, try_map. rewrite Ep. unfold key_check, check_depth.
  rewrite <- Hks, map_length in Hlen. apply Nat.leb_le in Hlen. rewrite Hlen. eauto.
Qed.

Theorem key_cut_only i e j : key_ i = Cut e j ->
  forall w1 t ks w2 r, ws_tok w1 -> key_tok t ks -> ws_tok w2 -> rest i = w1 ++ t ++ w2 ++ r -> key_stop r -> False.
Proof.
  intros Hc w1 t ks w2 r Hw1 Ht Hw2 H Hr.
  destruct (key_raw_complete i w1 t ks w2 r Hw1 Ht Hw2 H Hr) as (path & Ep & Hks).
  rewrite key_unfold in Hc. unfold bind, try_map in Hc. rewrite Ep in Hc. unfold key_check in Hc.
  destruct (check_depth (length path)); [discriminate|].
  destruct (fix_key_path path); discriminate.
Qed.

(* the last key of a path and what precedes it, as `pop_key` splits them *)
Lemma pop_key_keys kp path k : pop_key kp = Some (path, k) -> map k_key kp = map k_key path ++ [k_key k].
Proof.
  unfold pop_key. destruct (rev kp) as [|last rinit] eqn:Er; [discriminate|]. intro H. injection H as <- <-.
  rewrite <- (rev_involutive kp), Er. cbn [rev]. rewrite map_app. reflexivity.
Qed.

Lemma pop_key_total kp : kp <> [] -> exists path k, pop_key kp = Some (path, k).
Proof.
  intro Hne. unfold pop_key. destruct (rev kp) as [|last rinit] eqn:Er; [|eauto].
  apply (f_equal (@length key)) in Er. rewrite rev_length in Er. destruct kp; [congruence|discriminate].
Qed.

(* key fails without commitment in front of a byte that starts no key (e.g. "}" or "]") *)
Lemma key_fails i w b tl : ws_tok w -> rest i = w ++ b :: tl -> wschar b = false ->
  b <> x22 -> b <> x27 -> unquoted_key_char b = false -> fails key_ i.
Proof.
  intros Hw H Hb Hq Ha Hu. unfold fails. rewrite key_unfold. apply bind_fails, try_map_fails, context_fails, separated1_fails.
  unfold key_part. eapply (bind_ok_fails' _ _ i).
  - apply (span_ok _ _ w). apply (ws_complete i w (b :: tl) H Hw). exact Hb.
  - apply bind_fails. unfold fails. rewrite simple_key_unfold. apply pmap_fails.
    assert (F : fails key_dispatch (adv w i)).
    { unfold key_dispatch, QUOTATION_MARK, APOSTROPHE. pose proof (rest_adv w _ i H) as R.
      unfold fails. rewrite (bind_ok _ _ _ _ _ (peek_ok _ _ _ _ (any_ok _ b tl R))).
      apply byte_eqb_neq in Hq, Ha. rewrite Hq, Ha. apply unquoted_key_fails. rewrite R. exact Hu. }
    apply context_fails in F. destruct F as (e & j & F). unfold fails, with_span. rewrite F. eauto.
Qed.

(* first byte of a key *)
Definition khead (b : byte) : Prop := b = x22 \/ b = x27 \/ unquoted_key_char b = true.

Lemma simple_key_khead t k : simple_key_tok t k -> exists b t', t = b :: t' /\ khead b.
Proof.
  unfold khead. intros [(_ & body & -> & _) | [(_ & body & -> & _) | [[Hne Ha] _]]].
  - exists x22, (body ++ [x22]). auto.
  - exists x27, (body ++ [x27]). auto.
  - destruct t as [|b t']; [congruence|]. exists b, t'. split; [reflexivity|].
    unfold all in Ha. cbn [forallb] in Ha. apply andb_true_iff in Ha as [Hb _]. auto.
Qed.

Lemma key_khead t p : key_tok t p -> exists b t', t = b :: t' /\ khead b.
Proof.
  intros [t0 k H | t0 k w1 w2 u ks H _ _ _]; destruct (simple_key_khead _ _ H) as (b & t' & -> & Hb);
    eexists b, _; (split; [reflexivity|exact Hb]).
Qed.

