(* Proofs/TilingDefs.v — C03: the grammar-directed normal form of a document text.
   `vtext t a o`, `item_text e l o`, `lines_text t l o`: the text t has the derivation of
   Spec/Syntax.v denoting a / making the statements l, and o is t with
     - every CR of the trivia between tokens (ws-comment-newline inside arrays, line ends) removed,
     - every token (strings, numbers, date-times, booleans, keys, punctuation) kept verbatim,
     - every line end written as LF, and an LF added after a last statement line that the end of
       the text terminates.
   Two theorems meet here:
     Proofs/TilingNorm*.v   o is what the parser-independent scanner of Spec/Norm.v computes
                            (`normalize`), and
     Proofs/PrintBack*.v    o is what printing the parsed tree produces (`render`). *)
From TV Require Import Base.Prelude Base.Utf8 Spec.Abnf Spec.Lex Spec.Defs Spec.Syntax Spec.Norm.

(* RawString::encode_with_default: CR stripping (same function as Model/Encode.v strip_cr) *)
Definition ncr (s : bytes) : bytes := filter (fun b => negb (byte_eqb b x0d)) s.

(* a scalar token: string / boolean / date-time / float / integer *)
Inductive scalar_text : bytes -> aval -> Prop :=
| st_string t s : string_tok t s -> scalar_text t (AStr s)
| st_boolean t b : boolean_tok t b -> scalar_text t (ABool b)
| st_date_time t d : date_time_tok t d -> scalar_text t (ADate d)
| st_float t f : float_tok t f -> scalar_text t (AFloat f)
| st_integer t z : integer_tok t z -> scalar_text t (AInt z).

Inductive vtext : bytes -> aval -> bytes -> Prop :=
| vt_scalar t a : scalar_text t a -> vtext t a t
| vt_array_empty w : wscn_tok w -> vtext ([x5b] ++ w ++ [x5d]) (AArr []) ([x5b] ++ ncr w ++ [x5d])
| vt_array vs l o w :
    avtext vs l o -> wscn_tok w -> vtext ([x5b] ++ vs ++ w ++ [x5d]) (AArr l) ([x5b] ++ o ++ ncr w ++ [x5d])
| vt_inline_empty w : ws_tok w -> vtext ([x7b] ++ w ++ [x7d]) (AInl []) ([x7b] ++ w ++ [x7d])
| vt_inline w1 kvs l o w2 :
    ws_tok w1 -> iktext kvs l o -> ws_tok w2 ->
    vtext ([x7b] ++ w1 ++ kvs ++ w2 ++ [x7d]) (AInl l) ([x7b] ++ w1 ++ o ++ w2 ++ [x7d])
with avtext : bytes -> list aval -> bytes -> Prop :=
| avt_last w1 t a o w2 c :
    wscn_tok w1 -> vtext t a o -> wscn_tok w2 -> (c = [] \/ c = [x2c]) ->
    avtext (w1 ++ t ++ w2 ++ c) [a] (ncr w1 ++ o ++ ncr w2 ++ c)
| avt_more w1 t a o w2 u l ou :
    wscn_tok w1 -> vtext t a o -> wscn_tok w2 -> avtext u l ou ->
    avtext (w1 ++ t ++ w2 ++ [x2c] ++ u) (a :: l) (ncr w1 ++ o ++ ncr w2 ++ [x2c] ++ ou)
with iktext : bytes -> list (list bytes * aval) -> bytes -> Prop :=
| ikt_last k p w1 w2 t a o :
    key_tok k p -> ws_tok w1 -> ws_tok w2 -> vtext t a o ->
    iktext (k ++ w1 ++ [x3d] ++ w2 ++ t) [(p, a)] (k ++ w1 ++ [x3d] ++ w2 ++ o)
| ikt_more k p w1 w2 t a o w3 w4 u l ou :
    key_tok k p -> ws_tok w1 -> ws_tok w2 -> vtext t a o -> ws_tok w3 -> ws_tok w4 -> iktext u l ou ->
    iktext (k ++ w1 ++ [x3d] ++ w2 ++ t ++ w3 ++ [x2c] ++ w4 ++ u) ((p, a) :: l)
           (k ++ w1 ++ [x3d] ++ w2 ++ o ++ w3 ++ [x2c] ++ w4 ++ ou).

Scheme vtext_min := Minimality for vtext Sort Prop
  with avtext_min := Minimality for avtext Sort Prop
  with iktext_min := Minimality for iktext Sort Prop.
Combined Scheme vtext_mutind from vtext_min, avtext_min, iktext_min.

(* an item = an expression without its leading whitespace and without its line end *)
Inductive item_text : bytes -> list astmt -> bytes -> Prop :=
| itx_blank : item_text [] [] []
| itx_comment c : comment_tok c -> item_text c [] c
| itx_keyval k p w1 w2 t a o w c :
    key_tok k p -> ws_tok w1 -> ws_tok w2 -> vtext t a o -> ws_tok w -> opt_comment c ->
    item_text ((k ++ w1 ++ [x3d] ++ w2 ++ t) ++ w ++ c) [SKeyVal p a] ((k ++ w1 ++ [x3d] ++ w2 ++ o) ++ w ++ c)
| itx_std t p w c : std_table_tok t p -> ws_tok w -> opt_comment c -> item_text (t ++ w ++ c) [SHeader p] (t ++ w ++ c)
| itx_arr t p w c : array_table_tok t p -> ws_tok w -> opt_comment c -> item_text (t ++ w ++ c) [SArrHeader p] (t ++ w ++ c).

(* the LF that ends a statement line in the output (a comment / blank last line gets none) *)
Definition stmt_lf (l : list astmt) : bytes := match l with [] => [] | _ => [x0a] end.

(* complete lines, the last one possibly ended by the end of the text; between a line end and the
   next item: whitespace *)
Inductive lines_text : bytes -> list astmt -> bytes -> Prop :=
| ltx_nil : lines_text [] [] []
| ltx_last w0 e l o : ws_tok w0 -> item_text e l o -> lines_text (w0 ++ e) l (w0 ++ o ++ stmt_lf l)
| ltx_cons w0 e l o nl w t l' o' :
    ws_tok w0 -> item_text e l o -> newline_tok nl -> ws_tok w -> lines_text t l' o' ->
    lines_text (w0 ++ e ++ nl ++ w ++ t) (l ++ l') (w0 ++ o ++ [x0a] ++ w ++ o').
