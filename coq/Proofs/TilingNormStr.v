(* Proofs/TilingNormStr.v — C03, scanner side, part 2: the four kinds of strings are pieces
   (follow condition: no quote follows), kept verbatim, statement-like.
   The multi-line strings go through a scanner-oriented description `safe e` of a body (every
   run of unescaped quotes has length <= 2 and is followed by a non-quote, except a final run of
   <= 2 quotes), proved from the grammar of Spec/Lex.v. *)
From TV Require Import Base.Prelude Base.Utf8 Spec.Abnf Spec.Lex Spec.Defs Spec.Syntax Spec.Norm.
From TV Require Import Proofs.LexEquivBase Proofs.LexEquivInt Proofs.LexEquivString Proofs.LexEquivMlBasic Proofs.LexEquivMlLit.
From TV Require Import Proofs.TilingDefs Proofs.TilingNormScan.
Require Import Lia ZifyBool ZifyN ZifyNat.

(* no quote of either kind follows *)
Definition qstop (r : bytes) : Prop := match r with [] => True | b :: _ => b <> x22 /\ b <> x27 end.

(* neither CR nor LF *)
Definition ncl (b : byte) : bool := negb (byte_eqb b x0d) && negb (byte_eqb b x0a).

(* a statement-like labelled text: a solid first byte, no line end inside *)
Lemma summ_solid b l zs o :
  is_comment l = false -> blank b = false -> line_nl (b, l) = false -> no_nl zs ->
  outz zs = o -> ends_lf (b :: o) = false -> summ CS ((b, l) :: zs) (b :: o).
Proof.
  intros Hc Hb Hl Hn Ho He. split; [|split; [|split; [discriminate|exact He]]].
  - unfold outz in *. cbn [filter]. unfold kept at 1. cbn [fst snd].
    unfold blank in Hb. apply orb_false_iff in Hb as [_ Hb]. rewrite Hb. cbn [andb negb map fst]. rewrite Ho. reflexivity.
  - intros f Hf. rewrite flag_cons. replace (flag_step f (b, l)) with FStmt; [apply flag_stmt_no_nl, Hn|].
    unfold flag_step. rewrite Hl. cbn [fst snd]. rewrite Hc, Hb. destruct f; congruence.
Qed.

(* ================================================================================================= *)
(* basic strings                                                                                     *)
(* ================================================================================================= *)
(* a byte of a basic-string body that the scanner reads in one step *)
Definition bub (b : byte) : bool := negb (byte_eqb b x22) && negb (byte_eqb b x5c) && ncl b.

Lemma basic_unescaped_bub b : basic_unescaped b = true -> bub b = true.
Proof. unfold bub, ncl. cls. lia. Qed.
Lemma hexdig_bub b : hexdig b = true -> bub b = true.
Proof. unfold bub, ncl. cls. lia. Qed.

Lemma step_basic_in c tl : bub c = true -> step SBasic c (c :: tl) = (LBasic, SBasic).
Proof.
  unfold bub. intro H. apply andb_true_iff in H as [H _]. apply andb_true_iff in H as [H1 H2].
  apply negb_true_iff in H1, H2. unfold step. rewrite H1, H2. reflexivity.
Qed.

Lemma labels_basic_run a r : forallb bub a = true ->
  labels SBasic (a ++ r) = map (fun _ => LBasic) a ++ labels SBasic r.
Proof.
  induction a as [|c a IH]; [reflexivity|]. cbn [forallb]. intro H. apply andb_true_iff in H as [Hc Ha].
  cbn [app]. rewrite labels_cons, step_basic_in by exact Hc. cbn [fst snd map app]. rewrite IH by exact Ha. reflexivity.
Qed.

Lemma labels_basic_esc b r : labels SBasic (x5c :: b :: r) = LBasic :: LBasic :: labels SBasic r.
Proof. rewrite labels_cons. cbn [step fst snd]. change (byte_eqb x5c x5c) with true. cbn [andb negb fst snd]. rewrite labels_cons. reflexivity. Qed.

Lemma labels_basic_close r : labels SBasic (x22 :: r) = LNormal :: labels SNormal r.
Proof. rewrite labels_cons. reflexivity. Qed.

Lemma hex_run_bub h : all hexdig h -> forallb bub h = true.
Proof.
  unfold all. induction h as [|b h IH]; [reflexivity|]. cbn [forallb]. intro H. apply andb_true_iff in H as [Hb Hh].
  rewrite hexdig_bub by exact Hb. apply IH, Hh.
Qed.

Lemma labels_basic_body body v r : star basic_char body v ->
  labels SBasic (body ++ x22 :: r) = map (fun _ => LBasic) body ++ LNormal :: labels SNormal r.
Proof.
  induction 1 as [|t1 v1 t2 v2 H1 _ IH]; [apply labels_basic_close|].
  rewrite <- app_assoc, map_app, <- app_assoc.
  destruct H1 as [(b & Hb & -> & ->) | He].
  - cbn [app map]. rewrite labels_cons, step_basic_in by (apply basic_unescaped_bub, Hb). cbn [fst snd]. rewrite IH. reflexivity.
  - destruct He as [b n Hb | b k h Hb Hl Hh Hsc].
    + cbn [app map]. rewrite labels_basic_esc, IH. reflexivity.
    + cbn [app map]. rewrite labels_basic_esc, labels_basic_run by (apply hex_run_bub, Hh). rewrite IH. reflexivity.
Qed.

Lemma escape_char_ncl b : escape_simple b <> None \/ escape_hex b <> None -> ncl b = true.
Proof.
  intro H. destruct (escape_char_not_ws b H) as (_ & H1 & H2). unfold ncl. rewrite H1, H2. reflexivity.
Qed.

Lemma hexdig_ncl b : hexdig b = true -> ncl b = true.
Proof. unfold ncl. cls. lia. Qed.

Lemma escaped_ncl e s : escaped_tok e s -> forallb ncl e = true.
Proof.
  intros [b n Hb | b k h Hb Hl Hh Hsc]; cbn [forallb]; change (ncl x5c) with true; cbn [andb].
  - rewrite escape_char_ncl by (left; congruence). reflexivity.
  - rewrite escape_char_ncl by (right; congruence). cbn [andb]. unfold all in Hh.
    clear Hl Hsc. induction h as [|c h IH]; [reflexivity|]. cbn [forallb] in *. apply andb_true_iff in Hh as [Hc Hh].
    rewrite hexdig_ncl by exact Hc. apply IH, Hh.
Qed.

Lemma basic_body_ncl body v : star basic_char body v -> forallb ncl body = true.
Proof.
  induction 1 as [|t1 v1 t2 v2 H1 _ IH]; [reflexivity|]. rewrite forallb_app, IH, andb_true_r.
  destruct H1 as [(b & Hb & -> & ->) | He]; [|apply (escaped_ncl _ _ He)].
  cbn [forallb]. rewrite andb_true_r. revert Hb. unfold ncl. cls. lia.
Qed.

(* the labelled text of a one-line string with quote q and body label l *)
Definition qz (q : byte) (l : label) (body : bytes) : lz := (q, LNormal) :: tag l body ++ [(q, LNormal)].

Lemma txt_qz q l body : txt (qz q l body) = [q] ++ body ++ [q].
Proof. unfold qz. cbn [txt map fst app]. fold (txt (tag l body ++ [(q, LNormal)])). rewrite txt_app, txt_tag. reflexivity. Qed.

Lemma lab_qz q l body : lab (qz q l body) = LNormal :: map (fun _ => l) body ++ [LNormal].
Proof. unfold qz. cbn [lab map snd]. fold (lab (tag l body ++ [(q, LNormal)])). rewrite lab_app, lab_tag. reflexivity. Qed.

Lemma summ_qz q l body : (q = x22 \/ q = x27) -> in_ml l = false -> is_comment l = false -> forallb ncl body = true ->
  summ CS (qz q l body) ([q] ++ body ++ [q]).
Proof.
  intros Hq Hl Hc Hb. unfold qz. cbn [app]. apply summ_solid.
  - reflexivity.
  - destruct Hq as [-> | ->]; reflexivity.
  - destruct Hq as [-> | ->]; reflexivity.
  - apply no_nl_app; [apply nocrlf_no_nl, Hb|]. constructor; [|constructor]. destruct Hq as [-> | ->]; reflexivity.
  - rewrite outz_app, outz_tag_ncr by exact Hl. rewrite ncr_nocr by (apply nocrlf_nocr, Hb).
    destruct Hq as [-> | ->]; reflexivity.
  - change (q :: body ++ [q]) with ((q :: body) ++ [q]). rewrite ends_lf_snoc. destruct Hq as [-> | ->]; reflexivity.
Qed.

Lemma starts3_second q a b s : byte_eqb b q = false -> starts3 q (a :: b :: s) = false.
Proof. intro H. unfold starts3. destruct s; [reflexivity|]. rewrite H. apply andb_false_r || (rewrite andb_false_r; reflexivity). Qed.

Lemma starts3_two q r : match r with [] => True | b :: _ => byte_eqb b q = false end -> starts3 q (q :: q :: r) = false.
Proof. destruct r as [|b r]; [reflexivity|]. intro H. unfold starts3. rewrite H. apply andb_false_r. Qed.

Lemma nocmt_qz q l body : is_comment l = false -> nocmt (qz q l body).
Proof.
  intro H. unfold qz. change ((q, LNormal) :: tag l body ++ [(q, LNormal)]) with (tag LNormal [q] ++ tag l body ++ tag LNormal [q]).
  apply nocmt_app; [apply nocmt_tag; reflexivity|]. apply nocmt_app; [apply nocmt_tag, H|apply nocmt_tag; reflexivity].
Qed.

Lemma qt_basic_string t v : basic_string_tok t v -> qt CS qstop t.
Proof.
  intros (_ & body & -> & Hb). exists (qz x22 LBasic body). split; [apply txt_qz|]. split; [|split; [|apply nocmt_qz; reflexivity]].
  - intros r Hr. rewrite txt_qz, lab_qz. cbn [app]. rewrite <- app_assoc. cbn [app]. rewrite labels_cons.
    assert (E : step SNormal x22 (x22 :: body ++ x22 :: r) = (LNormal, SBasic)).
    { unfold step. change (byte_eqb x22 x23) with false. cbv iota.
      rewrite (starts3_head x27) by reflexivity.
      replace (starts3 x22 (x22 :: body ++ x22 :: r)) with false; [reflexivity|]. symmetry.
      destruct (basic_body_head body v Hb) as [-> | (b & t' & -> & Hq)].
      - cbn [app]. apply starts3_two. destruct r as [|c r]; [exact I|]. destruct Hr as [Hr _].
        apply byte_eqb_neq. exact Hr.
      - cbn [app]. apply starts3_second. rewrite byte_eqb_n, N.eqb_sym, <- byte_eqb_n. exact Hq. }
    rewrite E. cbn [fst snd]. rewrite (labels_basic_body body v r Hb). rewrite <- app_assoc. reflexivity.
  - apply summ_qz; [auto|reflexivity|reflexivity|apply (basic_body_ncl body v Hb)].
Qed.

Lemma til_basic_string t v : basic_string_tok t v -> til CS qstop t t.
Proof. intro H. apply qt_til, (qt_basic_string t v H). Qed.

(* ================================================================================================= *)
(* literal strings                                                                                   *)
(* ================================================================================================= *)
Lemma step_literal_in c tl : byte_eqb c x27 = false -> step SLiteral c (c :: tl) = (LLiteral, SLiteral).
Proof. intro H. unfold step. rewrite H. reflexivity. Qed.

Lemma one_star_all (c : byte -> bool) body v : star (one c) body v -> forallb c body = true.
Proof.
  induction 1 as [|t1 v1 t2 v2 (b & Hb & -> & ->) _ IH]; [reflexivity|]. cbn [app forallb]. rewrite Hb, IH. reflexivity.
Qed.

Lemma literal_char_facts b : literal_char b = true -> byte_eqb b x27 = false /\ ncl b = true.
Proof. unfold ncl. cls. lia. Qed.

Lemma labels_literal_body body r : forallb literal_char body = true ->
  labels SLiteral (body ++ x27 :: r) = map (fun _ => LLiteral) body ++ LNormal :: labels SNormal r.
Proof.
  induction body as [|c body IH]; intro H.
  - cbn [app map]. rewrite labels_cons. reflexivity.
  - cbn [forallb] in H. apply andb_true_iff in H as [Hc Hb]. cbn [app map].
    rewrite labels_cons, step_literal_in by (apply literal_char_facts, Hc). cbn [fst snd]. rewrite IH by exact Hb. reflexivity.
Qed.

Lemma qt_literal_string t v : literal_string_tok t v -> qt CS qstop t.
Proof.
  intros (_ & body & -> & Hb). apply one_star_all in Hb.
  exists (qz x27 LLiteral body). split; [apply txt_qz|]. split; [|split; [|apply nocmt_qz; reflexivity]].
  - intros r Hr. rewrite txt_qz, lab_qz. cbn [app]. rewrite <- app_assoc. cbn [app]. rewrite labels_cons.
    assert (E : step SNormal x27 (x27 :: body ++ x27 :: r) = (LNormal, SLiteral)).
    { unfold step. change (byte_eqb x27 x23) with false. cbv iota.
      rewrite (starts3_head x22) by reflexivity.
      replace (starts3 x27 (x27 :: body ++ x27 :: r)) with false; [reflexivity|]. symmetry.
      destruct body as [|b t'].
      - cbn [app]. apply starts3_two. destruct r as [|c r]; [exact I|]. destruct Hr as [_ Hr].
        apply byte_eqb_neq. exact Hr.
      - cbn [app]. apply starts3_second. cbn [forallb] in Hb. apply andb_true_iff in Hb as [Hb _].
        apply literal_char_facts, Hb. }
    rewrite E. cbn [fst snd]. rewrite (labels_literal_body body r Hb). rewrite <- app_assoc. reflexivity.
  - apply summ_qz; [auto|reflexivity|reflexivity|].
    clear -Hb. induction body as [|b body IH]; [reflexivity|]. cbn [forallb] in *. apply andb_true_iff in Hb as [Hc Hb].
    destruct (literal_char_facts b Hc) as [_ ->]. apply IH, Hb.
Qed.

Lemma til_literal_string t v : literal_string_tok t v -> til CS qstop t t.
Proof. intro H. apply qt_til, (qt_literal_string t v H). Qed.

(* ================================================================================================= *)
(* multi-line strings: the scanner                                                                   *)
(* ================================================================================================= *)
(* e = true: ml-basic (backslash escapes), e = false: ml-literal *)
Definition mlst (e : bool) : sstate := if e then SMlBasic else SMlLiteral.
Definition mllab (e : bool) : label := if e then LMlBasic else LMlLiteral.
Definition mlq (e : bool) : byte := if e then x22 else x27.

Lemma step_ml e c s : step (mlst e) c s =
  if e && byte_eqb c x5c && negb (match (match s with _ :: t => t | [] => [] end) with [] => true | _ => false end)
  then (mllab e, SEmit [mllab e] (mlst e))
  else if starts3 (mlq e) s
       then match ml_close (mlq e) (mllab e) s with l :: ls => (l, emit ls SNormal) | [] => (LNormal, SNormal) end
       else (mllab e, mlst e).
Proof. destruct e; reflexivity. Qed.

(* a byte the ml scanner reads in one step: not the quote, not a backslash (ml-basic) *)
Definition okb (e : bool) (b : byte) : bool := negb (byte_eqb b (mlq e)) && negb (e && byte_eqb b x5c).

Inductive safe (e : bool) : bytes -> Prop :=
| sf_nil : safe e []
| sf_q1 : safe e [mlq e]
| sf_q2 : safe e [mlq e; mlq e]
| sf_plain b x : okb e b = true -> safe e x -> safe e (b :: x)
| sf_esc b x : e = true -> safe e x -> safe e (x5c :: b :: x)
| sf_qq1 b x : byte_eqb b (mlq e) = false -> safe e (b :: x) -> safe e (mlq e :: b :: x)
| sf_qq2 b x : byte_eqb b (mlq e) = false -> safe e (b :: x) -> safe e (mlq e :: mlq e :: b :: x).

Definition nhq (q : byte) (r : bytes) : Prop := match r with [] => True | b :: _ => byte_eqb b q = false end.

Lemma run_len_stop q r : nhq q r -> run_len q r = 0.
Proof. destruct r as [|b r]; [reflexivity|]. cbn [nhq run_len]. intros ->. reflexivity. Qed.

Lemma run_len_repeat q n r : nhq q r -> run_len q (repeat q n ++ r) = n.
Proof.
  intro H. induction n as [|n IH]; [apply run_len_stop, H|]. cbn [repeat app run_len].
  rewrite byte_eqb_refl, IH. reflexivity.
Qed.

Lemma mlq_not_bs e : e && byte_eqb (mlq e) x5c = false.
Proof. destruct e; reflexivity. Qed.

(* at the closing run: n <= 2 body quotes, then the delimiter *)
Lemma ml_close_labels e n r : n <= 2 -> nhq (mlq e) r ->
  labels (mlst e) (repeat (mlq e) n ++ [mlq e; mlq e; mlq e] ++ r)
  = repeat (mllab e) n ++ [LNormal; LNormal; LNormal] ++ labels SNormal r.
Proof.
  intros Hn Hr.
  assert (E : repeat (mlq e) n ++ [mlq e; mlq e; mlq e] ++ r = repeat (mlq e) (n + 3) ++ r).
  { rewrite repeat_app, <- app_assoc. reflexivity. }
  rewrite E. replace (n + 3) with (S (n + 2)) by lia. cbn [repeat app].
  rewrite labels_cons, step_ml, mlq_not_bs. cbn [andb].
  change (mlq e :: repeat (mlq e) (n + 2) ++ r) with (repeat (mlq e) (S (n + 2)) ++ r).
  assert (S3 : starts3 (mlq e) (repeat (mlq e) (S (n + 2)) ++ r) = true).
  { replace (S (n + 2)) with (3 + n) by lia. cbn [repeat Nat.add app starts3]. rewrite byte_eqb_refl. reflexivity. }
  rewrite S3. unfold ml_close. rewrite run_len_repeat by exact Hr.
  replace (Nat.min (S (n + 2) - 3) 2) with n by lia.
  assert (L : forall ls, length ls = n + 2 -> labels (emit ls SNormal) (repeat (mlq e) (n + 2) ++ r) = ls ++ labels SNormal r).
  { intros ls Hl. apply labels_emit. rewrite repeat_length. lia. }
  destruct n as [|[|[|n]]]; [| | |lia]; cbn [repeat app fst snd]; rewrite L by reflexivity; reflexivity.
Qed.

Lemma okb_facts e b : okb e b = true -> byte_eqb b (mlq e) = false /\ e && byte_eqb b x5c = false.
Proof. unfold okb. intro H. apply andb_true_iff in H as [H1 H2]. apply negb_true_iff in H1, H2. auto. Qed.

Lemma step_ml_in e b tl : okb e b = true -> step (mlst e) b (b :: tl) = (mllab e, mlst e).
Proof.
  intro H. destruct (okb_facts e b H) as [H1 H2]. rewrite step_ml, H2. cbn [andb].
  rewrite starts3_head by exact H1. reflexivity.
Qed.

Lemma ml_scan e x r : safe e x -> nhq (mlq e) r ->
  labels (mlst e) (x ++ [mlq e; mlq e; mlq e] ++ r)
  = map (fun _ => mllab e) x ++ [LNormal; LNormal; LNormal] ++ labels SNormal r.
Proof.
  intros Hs Hr. induction Hs as [| | |b x Hb _ IH|b x He _ IH|b x Hb _ IH|b x Hb _ IH].
  - apply (ml_close_labels e 0); [lia|exact Hr].
  - apply (ml_close_labels e 1); [lia|exact Hr].
  - apply (ml_close_labels e 2); [lia|exact Hr].
  - cbn [app map] in *. rewrite labels_cons, step_ml_in by exact Hb. cbn [fst snd]. rewrite IH. reflexivity.
  - subst e. cbn [app map] in *. rewrite labels_cons. cbn [mlst step fst snd].
    change (byte_eqb x5c x5c) with true. cbn [andb negb fst snd]. rewrite labels_cons. cbn [step fst snd emit].
    change SMlBasic with (mlst true). rewrite IH. reflexivity.
  - cbn [app map] in *. rewrite labels_cons, step_ml, mlq_not_bs. cbn [andb].
    rewrite starts3_second by exact Hb. cbn [fst snd]. rewrite IH. reflexivity.
  - cbn [app map] in *. rewrite labels_cons, step_ml, mlq_not_bs. cbn [andb].
    replace (starts3 (mlq e) (mlq e :: mlq e :: b :: x ++ mlq e :: mlq e :: mlq e :: r)) with false
      by (unfold starts3; rewrite Hb, andb_false_r; reflexivity).
    cbn [fst snd]. rewrite labels_cons, step_ml, mlq_not_bs. cbn [andb].
    rewrite starts3_second by exact Hb. cbn [fst snd]. rewrite IH. reflexivity.
Qed.

Lemma safe_run e a x : forallb (okb e) a = true -> safe e x -> safe e (a ++ x).
Proof.
  induction a as [|b a IH]; [auto|]. cbn [forallb]. intros H Hx. apply andb_true_iff in H as [Hb Ha].
  cbn [app]. apply sf_plain; [exact Hb|apply IH; assumption].
Qed.

(* the labelled text of a multi-line string *)
Definition mlz (e : bool) (x : bytes) : lz :=
  tag LNormal [mlq e; mlq e; mlq e] ++ tag (mllab e) x ++ tag LNormal [mlq e; mlq e; mlq e].

Lemma qt_ml e x : safe e x -> qt CS qstop ([mlq e; mlq e; mlq e] ++ x ++ [mlq e; mlq e; mlq e]).
Proof.
  intro Hs. exists (mlz e x). unfold mlz. split; [rewrite !txt_app, !txt_tag; reflexivity|]. split; [|split].
  3: { apply nocmt_app; [apply nocmt_tag; reflexivity|]. apply nocmt_app; [apply nocmt_tag; destruct e; reflexivity|apply nocmt_tag; reflexivity]. }
  - intros r Hr. rewrite !txt_app, !lab_app, !txt_tag, !lab_tag, <- !app_assoc.
    assert (Hq : nhq (mlq e) r).
    { destruct r as [|c r]; [exact I|]. destruct Hr as [H1 H2]. cbn [nhq]. apply byte_eqb_neq. destruct e; assumption. }
    assert (O : forall s, labels SNormal ([mlq e; mlq e; mlq e] ++ s) = [LNormal; LNormal; LNormal] ++ labels (mlst e) s).
    { intro s. destruct e; cbn [app mlq]; rewrite labels_cons; cbn [step fst snd];
        [change (starts3 x22 (x22 :: x22 :: x22 :: s)) with true|change (starts3 x27 (x27 :: x27 :: x27 :: s)) with true];
        cbv iota; cbn [fst snd]; rewrite labels_cons; cbn [step fst snd emit]; rewrite labels_cons; reflexivity. }
    rewrite O, (ml_scan e x r Hs Hq). reflexivity.
  - cbn [tag map app]. apply summ_solid.
    + reflexivity.
    + destruct e; reflexivity.
    + destruct e; reflexivity.
    + constructor; [destruct e; reflexivity|]. constructor; [destruct e; reflexivity|].
      apply no_nl_app; [apply ml_no_nl; destruct e; reflexivity|].
      repeat (constructor; [destruct e; reflexivity|]). constructor.
    + change (outz (tag LNormal [mlq e; mlq e] ++ tag (mllab e) x ++ tag LNormal [mlq e; mlq e; mlq e]) = mlq e :: mlq e :: x ++ [mlq e; mlq e; mlq e]).
      rewrite !outz_app, (outz_tag_ml (mllab e)) by (destruct e; reflexivity).
      destruct e; reflexivity.
    + replace (mlq e :: mlq e :: mlq e :: x ++ [mlq e; mlq e; mlq e]) with ((mlq e :: mlq e :: mlq e :: x ++ [mlq e; mlq e]) ++ [mlq e])
        by (cbn [app]; rewrite <- app_assoc; reflexivity).
      rewrite ends_lf_snoc. destruct e; reflexivity.
Qed.

(* ================================================================================================= *)
(* multi-line strings: the grammar gives safe bodies                                                 *)
(* ================================================================================================= *)
Lemma newline_okb e nl : newline_tok nl -> forallb (okb e) nl = true.
Proof. intros [-> | ->]; destruct e; reflexivity. Qed.

Lemma wschar_okb e b : wschar b = true -> okb e b = true.
Proof. unfold okb. destruct e; cbn [mlq andb]; cls; lia. Qed.

Lemma ws_okb e w : ws_tok w -> forallb (okb e) w = true.
Proof.
  unfold ws_tok, all. induction w as [|b w IH]; [reflexivity|]. cbn [forallb]. intro H. apply andb_true_iff in H as [Hb Hw].
  rewrite wschar_okb by exact Hb. apply IH, Hw.
Qed.

Lemma first_newline_okb e nl body : first_newline nl body -> forallb (okb e) nl = true.
Proof. intros [H | [-> _]]; [apply newline_okb, H|reflexivity]. Qed.

(* ---- ml-basic ---------------------------------------------------------------------------------------- *)
Lemma mlb_unescaped_okb b : mlb_unescaped b = true -> okb true b = true.
Proof. unfold okb. cbn [mlq andb]. cls. lia. Qed.

Lemma hexdig_okb b : hexdig b = true -> okb true b = true.
Proof. unfold okb. cbn [mlq andb]. cls. lia. Qed.

Lemma hex_run_okb h : all hexdig h -> forallb (okb true) h = true.
Proof.
  unfold all. induction h as [|b h IH]; [reflexivity|]. cbn [forallb]. intro H. apply andb_true_iff in H as [Hb Hh].
  rewrite hexdig_okb by exact Hb. apply IH, Hh.
Qed.

Lemma ws_newline_run_okb tl : ws_newline_run tl -> forallb (okb true) tl = true.
Proof.
  induction 1 as [|b t Hb _ IH|nl t Hn _ IH]; [reflexivity| |].
  - cbn [forallb]. rewrite wschar_okb by exact Hb. exact IH.
  - rewrite forallb_app, newline_okb by exact Hn. exact IH.
Qed.

Lemma safe_escaped c v x : escaped_tok c v -> safe true x -> safe true (c ++ x).
Proof.
  intros [b n Hb | b k h Hb Hl Hh Hsc] Hx.
  - cbn [app]. apply sf_esc; [reflexivity|exact Hx].
  - cbn [app]. apply sf_esc; [reflexivity|]. apply safe_run; [apply hex_run_okb, Hh|exact Hx].
Qed.

Lemma safe_escaped_nl c x : mlb_escaped_nl_tok c -> safe true x -> safe true (c ++ x).
Proof.
  intros (w & nl & tl & -> & Hw & Hn & Ht) Hx.
  assert (A : forallb (okb true) (w ++ nl ++ tl) = true).
  { rewrite !forallb_app, ws_okb, newline_okb, ws_newline_run_okb by assumption. reflexivity. }
  cbn [app]. destruct (w ++ nl ++ tl) as [|b y] eqn:E.
  - exfalso. destruct w; [|discriminate]. destruct Hn as [-> | ->]; discriminate.
  - cbn [forallb] in A. apply andb_true_iff in A as [_ A]. cbn [app]. apply sf_esc; [reflexivity|].
    apply safe_run; assumption.
Qed.

Lemma safe_contents c v : mlb_contents c v -> forall x, safe true x -> safe true (c ++ x).
Proof.
  induction 1 as [|c v t w Hc _ IH|c v t w [Hn _] _ IH|c t w Hc _ _ IH]; intros x Hx; [exact Hx| | |];
    rewrite <- app_assoc.
  - destruct Hc as [(b & Hb & -> & ->) | He].
    + cbn [app]. apply sf_plain; [apply mlb_unescaped_okb, Hb|apply IH, Hx].
    + apply (safe_escaped c v); [exact He|apply IH, Hx].
  - apply safe_run; [apply newline_okb, Hn|apply IH, Hx].
  - apply safe_escaped_nl; [exact Hc|apply IH, Hx].
Qed.

Lemma safe_quotes_then q vq b y : mlb_quotes q vq -> byte_eqb b x22 = false -> safe true (b :: y) -> safe true (q ++ b :: y).
Proof.
  intros Hq Hb Hy. destruct (mlb_quotes_cases q vq Hq) as [[-> | ->] _]; cbn [app].
  - apply (sf_qq1 true); assumption.
  - apply (sf_qq2 true); assumption.
Qed.

Lemma safe_qgroups g w : star (cat mlb_quotes mlb_contents1) g w -> forall x, safe true x -> safe true (g ++ x).
Proof.
  induction 1 as [|t1 v1 t2 v2 H1 _ IH]; intros x Hx; [exact Hx|].
  destruct H1 as (q & vq & c & vc & -> & -> & Hq & Hc). rewrite <- !app_assoc.
  destruct (contents1_head c vc Hc) as (b & c' & -> & Hb). destruct Hc as [_ Hc].
  pose proof (safe_contents _ _ Hc (t2 ++ x) (IH x Hx)) as Hs. cbn [app] in *.
  apply (safe_quotes_then q vq); [exact Hq|rewrite byte_eqb_n, N.eqb_sym, <- byte_eqb_n; exact Hb|exact Hs].
Qed.

Lemma safe_ml_basic_body body v : ml_basic_body_tok body v -> safe true body.
Proof.
  intros (c & vc & t2 & v2 & -> & -> & Hc & (g & vg & m & vm & -> & -> & Hg & Hm)).
  apply (safe_contents c vc Hc). apply (safe_qgroups g vg Hg).
  destruct (maybe_mlb_quotes_cases m vm Hm) as [[-> | [-> | ->]] _]; [apply sf_nil|apply (sf_q1 true)|apply (sf_q2 true)].
Qed.

Lemma qt_ml_basic_string t v : ml_basic_string_tok t v -> qt CS qstop t.
Proof.
  intros (_ & nl & body & -> & Hn & Hb).
  replace ([x22; x22; x22] ++ nl ++ body ++ [x22; x22; x22]) with ([x22; x22; x22] ++ (nl ++ body) ++ [x22; x22; x22])
    by (rewrite <- app_assoc; reflexivity).
  apply (qt_ml true). apply safe_run; [apply (first_newline_okb true nl body Hn)|apply (safe_ml_basic_body body v Hb)].
Qed.

(* ---- ml-literal -------------------------------------------------------------------------------------- *)
Lemma mll_char_okb b : mll_char b = true -> okb false b = true.
Proof. unfold okb. cbn [mlq andb]. cls. lia. Qed.

Lemma mll_content_okb t v : mll_content_tok t v -> forallb (okb false) t = true.
Proof.
  intros [(b & Hb & -> & ->) | [Hn _]]; [|apply newline_okb, Hn].
  cbn [forallb]. rewrite mll_char_okb by exact Hb. reflexivity.
Qed.

Lemma mll_contents_okb t v : star mll_content_tok t v -> forallb (okb false) t = true.
Proof.
  induction 1 as [|t1 v1 t2 v2 H1 _ IH]; [reflexivity|]. rewrite forallb_app, IH, (mll_content_okb t1 v1 H1). reflexivity.
Qed.

Lemma safe_lit_qgroups g w : star (cat mll_quotes (star1 mll_content_tok)) g w -> forall x, safe false x -> safe false (g ++ x).
Proof.
  induction 1 as [|t1 v1 t2 v2 H1 _ IH]; intros x Hx; [exact Hx|].
  destruct H1 as (q & vq & c & vc & -> & -> & Hq & Hc). rewrite <- !app_assoc.
  assert (Hok : forallb (okb false) c = true).
  { destruct Hc as (c1 & w1 & c2 & w2 & -> & -> & H1 & H2). rewrite forallb_app, (mll_content_okb _ _ H1), (mll_contents_okb _ _ H2). reflexivity. }
  destruct (star1_head c vc Hc) as (b & c' & -> & Hb).
  pose proof (safe_run false _ (t2 ++ x) Hok (IH x Hx)) as Hs. cbn [app] in *.
  assert (Hb' : byte_eqb b (mlq false) = false) by (cbn [mlq]; rewrite byte_eqb_n, N.eqb_sym, <- byte_eqb_n; exact Hb).
  destruct (mll_quotes_cases q vq Hq) as [[-> | ->] _]; cbn [app].
  - apply (sf_qq1 false); assumption.
  - apply (sf_qq2 false); assumption.
Qed.

Lemma safe_ml_literal_body body v : ml_literal_body_tok body v -> safe false body.
Proof.
  intros (c & vc & t2 & v2 & -> & -> & Hc & (g & vg & m & vm & -> & -> & Hg & Hm)).
  apply safe_run; [apply (mll_contents_okb c vc Hc)|]. apply (safe_lit_qgroups g vg Hg).
  destruct (maybe_quotes_cases m vm Hm) as [-> | [-> | ->]]; [apply sf_nil|apply (sf_q1 false)|apply (sf_q2 false)].
Qed.

Lemma qt_ml_literal_string t v : ml_literal_string_tok t v -> qt CS qstop t.
Proof.
  intros (_ & nl & body & -> & Hn & Hb).
  replace ([x27; x27; x27] ++ nl ++ body ++ [x27; x27; x27]) with ([x27; x27; x27] ++ (nl ++ body) ++ [x27; x27; x27])
    by (rewrite <- app_assoc; reflexivity).
  apply (qt_ml false). apply safe_run; [apply (first_newline_okb false nl body Hn)|apply (safe_ml_literal_body body v Hb)].
Qed.

(* ---- string ---------------------------------------------------------------------------------------------- *)
Theorem qt_string t v : string_tok t v -> qt CS qstop t.
Proof.
  intros [H | [H | [H | H]]].
  - apply (qt_ml_basic_string t v H).
  - apply (qt_basic_string t v H).
  - apply (qt_ml_literal_string t v H).
  - apply (qt_literal_string t v H).
Qed.

Theorem til_string t v : string_tok t v -> til CS qstop t t.
Proof. intro H. apply qt_til, (qt_string t v H). Qed.
