(* Proofs/StringsRTDefs.v — definitions shared by the C10 proofs, the C10 statements and the
   c10 observation commands.  Nothing here is part of the model of the Rust code: these are the
   wrappers the theorems are stated with and the proof-side (byte-at-a-time) description of the
   escaping writer, shown equal to Model/Write.v's `write_escaped` in StringsRTWrite.v. *)
From TV Require Import Base.Prelude Base.Utf8 Base.Winnow Gen.Consts.
From TV Require Import Model.Trivia Model.Strings Model.Write.

(* TomlStringBuilder::new(s).as_<style>().to_toml_value() *)
Definition write_string (st : vstyle) (s : bytes) : option bytes :=
  write_string_m st s (vmetrics_of s).

(* the input a parser leaves behind after consuming the token `t` from `t ++ r` *)
Definition after (t r : bytes) (p : N) (d : nat) : input := mkIn r (p + N.of_nat (length t))%N d.

(* the byte that follows a token must not glue to it *)
Definition no_quote_head (r : bytes) : Prop :=
  match r with [] => True | b :: _ => byte_eqb b x22 = false /\ byte_eqb b x27 = false end.
Definition no_unquoted_head (r : bytes) : Prop :=
  match r with [] => True | b :: _ => in_class UNQUOTED_CHAR b = false end.

(* bytes the escaping writer copies through unchanged in every mode *)
Definition plain (b : byte) : bool :=
  negb (is_ctrl b) && negb (byte_eqb b x22) && negb (byte_eqb b x5c).

(* the two-character escapes of write_toml_value *)
Definition short_escape (is_ml : bool) (b : byte) : option byte :=
  if byte_eqb b x08 then Some x62
  else if byte_eqb b x09 then Some x74
  else if byte_eqb b x0a then (if is_ml then None else Some x6e)
  else if byte_eqb b x0c then Some x66
  else if byte_eqb b x0d then Some x72
  else if byte_eqb b x5c then Some x5c
  else None.

(* byte-at-a-time description of write_toml_value's escaping loop; `seq` is the number of
   unescaped quotation marks just written (the loop's seq_double_quotes) *)
Fixpoint enc (is_ml : bool) (seq : N) (s : bytes) : bytes :=
  match s with
  | [] => []
  | b :: r =>
    if byte_eqb b x22 then
      if ((if is_ml then 2 else 0) <? seq + 1)%N then [x5c; x22] ++ enc is_ml 0 r
      else x22 :: enc is_ml (seq + 1) r
    else match short_escape is_ml b with
         | Some c => [x5c; c] ++ enc is_ml 0 r
         | None =>
           if byte_eqb b x0a then x0a :: enc is_ml 0 r
           else if is_ctrl b then u_escape b ++ enc is_ml 0 r
           else b :: enc is_ml 0 r
         end
  end.

(* executable round-trip checks used by the Examples of Props/C10.v and by scratch testing *)
Definition all_vstyles : list vstyle :=
  [StDefault; StLiteral; StMlLiteral; StBasicPretty; StMlBasicPretty; StBasic; StMlBasic].
Definition all_kstyles : list kstyle := [KDefault; KUnquoted; KLiteral; KBasicPretty; KBasic].

Definition rt_value_ok (s : bytes) : bool :=
  forallb (fun st => match write_string st s with
                     | None => true
                     | Some t => match string_ (new_input t) with
                                 | Ok s' i => bytes_eqb s s' && match rest i with [] => true | _ => false end
                                 | _ => false
                                 end
                     end) all_vstyles.
Definition offered_v (s : bytes) : list bool :=
  map (fun st => match write_string st s with Some _ => true | None => false end) all_vstyles.
