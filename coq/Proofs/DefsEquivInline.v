(* Proofs/DefsEquivInline.v — C09 for inline tables: table_from_pairs_loop (inline_table.rs:
   table_from_pairs / descend_path) against Spec.Defs.inline_run. *)
From TV Require Import Base.Prelude Base.Winnow Model.Tree Model.Parse Spec.Defs.
From TV Require Import Proofs.DefsEquivBase Proofs.DefsEquivSpec Proofs.DefsEquivKv.

(* a value as the parser hands it to table_from_pairs: anything but an inline table that is
   still marked implicit (the marker of tables created by dotted keys; `table_from_pairs`
   itself returns implicit = false, so every explicitly written { .. } is closed) *)
Definition closed_value (v : value) : bool :=
  match v with VInline _ _ imp _ _ _ => negb imp | _ => true end.

(* the pairs of one inline table, values being Item::Value *)
Definition ipair : Set := list key * (key * value).
Definition to_pairs (l : list ipair) : list (list key * (key * item)) :=
  map (fun x => (fst x, (fst (snd x), IValue (snd (snd x))))) l.
Definition erase_pairs (l : list ipair) : list (list bytes * value) :=
  map (fun x => (keys (fst x) ++ [k_key (fst (snd x))], snd (snd x))) l.
Definition pairs_closed (l : list ipair) : Prop := Forall (fun x => closed_value (snd (snd x)) = true) l.

(* abstraction of the items of an inline table under construction: tables created by dotted
   keys (implicit) are tables, every other value is a closed value; non-value items (never
   stored here, excluded by `iok`) go to an arbitrary node *)
Fixpoint absi_value (v : value) : node value :=
  match v with
  | VInline items _ true _ _ _ =>
    NTab KDotted
      ((fix go (l : list (key * item)) : stree value :=
          match l with [] => [] | (k, it) :: tl => (k_key k, absi_item it) :: go tl end) items)
  | _ => NVal v
  end
with absi_item (it : item) : node value :=
  match it with
  | IValue v => absi_value v
  | _ => NAot []
  end.

Definition absi_items (m : kvs) : stree value := map (fun kv => (k_key (fst kv), absi_item (snd kv))) m.

Lemma absi_value_implicit items pre dt dec sp :
  absi_value (VInline items pre true dt dec sp) = NTab KDotted (absi_items items).
Proof.
  cbn [absi_value]. f_equal. unfold absi_items.
  induction items as [|[k it] tl IH]; [reflexivity|]. cbn [map fst snd]. rewrite <- IH. reflexivity.
Qed.

Lemma absi_value_closed v : closed_value v = true -> absi_value v = NVal v.
Proof. destruct v as [| |items pre imp dt dec sp]; try reflexivity. destruct imp; [discriminate | reflexivity]. Qed.

(* what table_from_pairs_loop maintains: only values; implicit inline tables are dotted *)
Fixpoint iok_value (v : value) : bool :=
  match v with
  | VInline items _ true dt _ _ =>
    dt && (fix go (l : list (key * item)) : bool :=
             match l with [] => true | (_, it) :: tl => iok_item it && go tl end) items
  | _ => true
  end
with iok_item (it : item) : bool :=
  match it with
  | IValue v => iok_value v
  | _ => false
  end.

Definition iok_items (m : kvs) : bool := forallb (fun kv => iok_item (snd kv)) m.

Lemma iok_value_implicit items pre dt dec sp :
  iok_value (VInline items pre true dt dec sp) = dt && iok_items items.
Proof.
  cbn [iok_value]. f_equal. unfold iok_items.
  induction items as [|[k it] tl IH]; [reflexivity|]. cbn [forallb snd]. rewrite <- IH. reflexivity.
Qed.

Lemma iok_value_closed v : closed_value v = true -> iok_value v = true.
Proof. destruct v as [| |items pre imp dt dec sp]; try reflexivity. destruct imp; [discriminate | reflexivity]. Qed.

(* association-list laws *)
Lemma absi_get m k :
  sget (absi_items m) k = match kv_get m k with Some (_, it) => Some (absi_item it) | None => None end.
Proof.
  induction m as [|[k' it] tl IH]; cbn [absi_items map fst snd sget kv_get]; [reflexivity|].
  destruct (bytes_eqb (k_key k') k); [reflexivity | exact IH].
Qed.

Lemma absi_set m k it : absi_items (kv_set m k it) = sset (absi_items m) k (absi_item it).
Proof.
  induction m as [|[k' it'] tl IH]; cbn [absi_items map fst snd sset kv_set]; [reflexivity|].
  destruct (bytes_eqb (k_key k') k); cbn [map fst snd]; [reflexivity|]. f_equal. exact IH.
Qed.

Lemma absi_push m k it : absi_items (kv_push m k it) = spush (absi_items m) (k_key k) (absi_item it).
Proof. unfold absi_items, kv_push, spush. rewrite map_app. reflexivity. Qed.

Lemma iok_get m k k' it : iok_items m = true -> kv_get m k = Some (k', it) -> iok_item it = true.
Proof.
  unfold iok_items. induction m as [|[k0 it0] tl IH]; cbn [kv_get forallb snd]; [discriminate|].
  intro H. apply andb_true_iff in H as [H1 H2].
  destruct (bytes_eqb (k_key k0) k); [intro E; inversion E; subst; exact H1 | apply IH; exact H2].
Qed.

Lemma iok_set m k it : iok_items m = true -> iok_item it = true -> iok_items (kv_set m k it) = true.
Proof.
  unfold iok_items. intros H Hi. induction m as [|[k0 it0] tl IH]; cbn [kv_set]; [reflexivity|].
  cbn [forallb snd] in H. apply andb_true_iff in H as [H1 H2].
  destruct (bytes_eqb (k_key k0) k); cbn [forallb snd].
  - rewrite Hi, H2. reflexivity.
  - rewrite H1, (IH H2). reflexivity.
Qed.

Lemma iok_push m k it : iok_items m = true -> iok_item it = true -> iok_items (kv_push m k it) = true.
Proof.
  unfold iok_items, kv_push. intros H Hi. rewrite forallb_app, H. cbn [forallb snd]. rewrite Hi. reflexivity.
Qed.

Definition simi (r : cres kvs) (s : res (stree value)) : Prop :=
  match s with
  | ROk T' => exists m', r = COk m' /\ absi_items m' = T' /\ iok_items m' = true
  | RInvalid => exists c, r = CErr c
  | RUndecided => False
  end.

Lemma inline_leaf m dh pe k v :
  iok_items m = true -> closed_value v = true -> dh = negb pe ->
  simi (inline_insert m dh [] pe k (IValue v)) (insert_kv true [k_key k] v (absi_items m)).
Proof.
  intros Hm Hv Hd. cbn [inline_insert]. rewrite insert_kv_leaf, Hd.
  replace (Bool.eqb (negb pe) pe) with false by (destruct pe; reflexivity).
  rewrite absi_get. destruct (kv_get m (k_key k)) as [[k' it]|]; cbn [simi].
  - eexists; reflexivity.
  - eexists. split; [reflexivity|]. split.
    + rewrite absi_push. cbn [absi_item]. rewrite (absi_value_closed v Hv). reflexivity.
    + apply iok_push; [exact Hm | cbn [iok_item]; apply iok_value_closed; exact Hv].
Qed.

Lemma inline_sub k v (Hv : closed_value v = true) : forall path m dh,
  iok_items m = true -> (path = [] -> dh = true) ->
  simi (inline_insert m dh path false k (IValue v)) (insert_kv true (keys path ++ [k_key k]) v (absi_items m)).
Proof.
  induction path as [|pk ptl IH]; intros m dh Hm Hd.
  - cbn [keys map app]. apply inline_leaf; [exact Hm | exact Hv | apply Hd; reflexivity].
  - cbn [keys map app]. fold (keys ptl). rewrite insert_kv_snoc. cbn [inline_insert].
    rewrite absi_get.
    destruct (kv_get m (k_key pk)) as [[k' it]|] eqn:E.
    + pose proof (iok_get _ _ _ _ Hm E) as Hit.
      destruct it as [|v0| |]; try discriminate. cbn [absi_item iok_item] in *.
      destruct v0 as [sc r d|vals tr tc d sp|items pre imp dt dec sp].
      * cbn [absi_value simi]. eexists; reflexivity.
      * cbn [absi_value simi]. eexists; reflexivity.
      * destruct imp.
        -- rewrite absi_value_implicit. rewrite iok_value_implicit in Hit.
           apply andb_true_iff in Hit as [Hdt Hsub]. subst dt. cbn [negb].
           specialize (IH items true Hsub (fun _ => eq_refl)).
           destruct (insert_kv true (keys ptl ++ [k_key k]) v (absi_items items)) as [c'| |]; cbn [simi rbind] in *.
           ++ destruct IH as (sub' & Hr & Ha & Hm'). rewrite Hr. eexists. split; [reflexivity|]. split.
              ** rewrite absi_set. cbn [absi_item]. rewrite absi_value_implicit, Ha. reflexivity.
              ** apply iok_set; [exact Hm|]. cbn [iok_item]. rewrite iok_value_implicit, Hm'. reflexivity.
           ++ destruct IH as [c Hc]. rewrite Hc. eexists; reflexivity.
           ++ exact IH.
        -- cbn [absi_value negb simi]. eexists; reflexivity.
    + specialize (IH [] true eq_refl (fun _ => eq_refl)). change (absi_items []) with (@nil (bytes * node value)) in IH.
      destruct (insert_kv true (keys ptl ++ [k_key k]) v []) as [c'| |]; cbn [simi rbind] in *.
      * destruct IH as (sub' & Hr & Ha & Hm'). rewrite Hr. eexists. split; [reflexivity|]. split.
        -- rewrite absi_push. cbn [absi_item]. rewrite absi_value_implicit, Ha. reflexivity.
        -- apply iok_push; [exact Hm|]. cbn [iok_item]. rewrite iok_value_implicit, Hm'. reflexivity.
      * destruct IH as [c Hc]. rewrite Hc. eexists; reflexivity.
      * exact IH.
Qed.

Lemma inline_loop_sim l : forall m,
  iok_items m = true -> pairs_closed l ->
  simi (table_from_pairs_loop m (to_pairs l)) (inline_fold (absi_items m) (erase_pairs l)).
Proof.
  induction l as [|[path [k v]] tl IH]; intros m Hm Hc.
  - cbn [to_pairs erase_pairs map table_from_pairs_loop inline_fold simi]. exists m. auto.
  - inversion Hc as [|x l' Hv Hc']; subst. cbn [fst snd] in Hv.
    cbn [to_pairs erase_pairs map fst snd table_from_pairs_loop inline_fold].
    fold (to_pairs tl). fold (erase_pairs tl).
    assert (H : simi (inline_insert m false path (match path with [] => true | _ => false end) k (IValue v))
                     (insert_kv true (keys path ++ [k_key k]) v (absi_items m))).
    { destruct path as [|pk ptl].
      - cbn [keys map app]. apply inline_leaf; [exact Hm | exact Hv | reflexivity].
      - apply inline_sub; [exact Hv | exact Hm | discriminate]. }
    destruct (insert_kv true (keys path ++ [k_key k]) v (absi_items m)) as [t'| |]; cbn [simi rbind] in *.
    + destruct H as (m' & Hr & Ha & Hm'). rewrite Hr. subst t'. apply IH; assumption.
    + destruct H as [c Hr]. rewrite Hr. eexists; reflexivity.
    + exact H.
Qed.

Lemma inline_correct (l : list ipair) :
  pairs_closed l ->
  match inline_run (erase_pairs l) with
  | Some t => exists m, table_from_pairs_loop [] (to_pairs l) = COk m /\ absi_items m = t
  | None => exists c, table_from_pairs_loop [] (to_pairs l) = CErr c
  end.
Proof.
  intro Hc. pose proof (inline_loop_sim l [] eq_refl Hc) as H. unfold inline_run.
  change (absi_items []) with (@nil (bytes * node value)) in H.
  destruct (inline_fold [] (erase_pairs l)) as [t| |]; cbn [simi] in H.
  - destruct H as (m & H1 & H2 & _). exists m. auto.
  - exact H.
  - contradiction.
Qed.

Lemma inline_no_panic (l : list ipair) s :
  pairs_closed l -> table_from_pairs_loop [] (to_pairs l) <> CPanic s.
Proof.
  intro Hc. pose proof (inline_correct l Hc) as H. destruct (inline_run (erase_pairs l)).
  - destruct H as (m & H & _). rewrite H. discriminate.
  - destruct H as [c H]. rewrite H. discriminate.
Qed.
