(* Proofs/BuiltRTWF.v — C06: whatever the constructors assemble (`eval_value`, `eval_item`, `eval_doc` over
   the construction terms of Model/Build.v) is inside `BuiltValue` / `BuiltItem` / `BuiltTbl`. *)
From TV Require Import Base.Prelude Base.Utf8 Base.Winnow Gen.Consts.
From TV Require Import Model.Datetime Model.Numbers Model.Tree Model.Write Model.Encode Model.Build.
Require Import Lia ZifyBool ZifyN ZifyNat.

(* ---- association lists keyed by bytes: insert = replace in place or append ------------------------------- *)
Fixpoint l_insert {V} (l : list (bytes * V)) (k : bytes) (v : V) : list (bytes * V) :=
  match l with
  | [] => [(k, v)]
  | (k', v') :: tl => if bytes_eqb k' k then (k', v) :: tl else (k', v') :: l_insert tl k v
  end.

Lemma l_insert_keys {V} (l : list (bytes * V)) k v :
  map fst (l_insert l k v) = if existsb (bytes_eqb k) (map fst l) then map fst l else map fst l ++ [k].
Proof.
  induction l as [|[k' v'] l IH]; [reflexivity|]. cbn [l_insert map fst existsb].
  destruct (bytes_eqb k' k) eqn:E.
  - apply bytes_eqb_eq in E. subst. rewrite bytes_eqb_refl. reflexivity.
  - assert (E' : bytes_eqb k k' = false).
    { destruct (bytes_eqb k k') eqn:E2; [apply bytes_eqb_eq in E2; subst; rewrite bytes_eqb_refl in E; discriminate|reflexivity]. }
    rewrite E'. cbn [orb map fst]. rewrite IH. destruct (existsb _ _); reflexivity.
Qed.

Lemma existsb_false_notin k ks : existsb (bytes_eqb k) ks = false -> ~ In k ks.
Proof.
  induction ks as [|x ks IH]; [auto|]. cbn [existsb In]. intros H [-> | Hin].
  - rewrite bytes_eqb_refl in H. discriminate.
  - apply orb_false_iff in H as [_ H]. exact (IH H Hin).
Qed.

Lemma NoDup_snoc {A} (l : list A) k : NoDup l -> ~ In k l -> NoDup (l ++ [k]).
Proof.
  induction l as [|x l IH]; intros Hn Hk; [constructor; [intros []|constructor]|].
  inversion Hn as [|? ? Hx Hl]; subst. cbn [app]. constructor.
  - intro Hin. apply in_app_or in Hin as [Hin | [-> | []]]; [exact (Hx Hin)|]. apply Hk. left. reflexivity.
  - apply IH; [exact Hl|]. intro Hin. apply Hk. right. exact Hin.
Qed.

Lemma l_insert_nodup {V} (l : list (bytes * V)) k v : NoDup (map fst l) -> NoDup (map fst (l_insert l k v)).
Proof.
  intro H. rewrite l_insert_keys. destruct (existsb _ _) eqn:E; [exact H|].
  apply NoDup_snoc; [exact H|apply existsb_false_notin, E].
Qed.

Lemma l_insert_forall {V} (P : V -> Prop) (l : list (bytes * V)) k v :
  Forall P (map snd l) -> P v -> Forall P (map snd (l_insert l k v)).
Proof.
  intros Hl Hv. induction l as [|[k' v'] l IH]; [constructor; [exact Hv|constructor]|].
  cbn [map snd] in Hl. inversion Hl as [|? ? H1 H2]; subst. cbn [l_insert].
  destruct (bytes_eqb k' k); cbn [map snd]; constructor; auto.
Qed.
Lemma l_insert_keys_forall {V} (P : bytes -> Prop) (l : list (bytes * V)) k v :
  Forall P (map fst l) -> P k -> Forall P (map fst (l_insert l k v)).
Proof.
  intros Hl Hk. rewrite l_insert_keys. destruct (existsb _ _); [exact Hl|].
  apply Forall_app. split; [exact Hl|constructor; [exact Hk|constructor]].
Qed.

(* IndexMap entry insert / map insert on constructed entries *)
Lemma kv_insert_inline l k v : kv_insert (mk_inline_items l) k (IValue v) = mk_inline_items (l_insert l k v).
Proof.
  unfold mk_inline_items. induction l as [|[k' v'] l IH]; [reflexivity|].
  cbn [map fst snd kv_insert l_insert k_key key_new]. destruct (bytes_eqb k' k); cbn [map fst snd]; [reflexivity|].
  rewrite IH. reflexivity.
Qed.
Lemma kv_map_insert_inline l k v : kv_map_insert (mk_inline_items l) k (IValue v) = mk_inline_items (l_insert l k v).
Proof.
  unfold mk_inline_items. induction l as [|[k' v'] l IH]; [reflexivity|].
  cbn [map fst snd kv_map_insert l_insert k_key key_new]. destruct (bytes_eqb k' k); cbn [map fst snd]; [reflexivity|].
  rewrite IH. reflexivity.
Qed.
Lemma kv_insert_tbl l k it : kv_insert (mk_tbl_items l) k it = mk_tbl_items (l_insert l k it).
Proof.
  unfold mk_tbl_items. induction l as [|[k' v'] l IH]; [reflexivity|].
  cbn [map fst snd kv_insert l_insert k_key key_new]. destruct (bytes_eqb k' k); cbn [map fst snd]; [reflexivity|].
  rewrite IH. reflexivity.
Qed.

(* ---- admissible construction terms ------------------------------------------------------------------------ *)
Section WF.
  Variable PS : scalar -> Prop.
  Variable PK : bytes -> Prop.

  Inductive cval_ok : cval -> Prop :=
  | CO_scalar s : PS s -> cval_ok (CScalar s)
  | CO_arrp es : Forall cval_ok es -> cval_ok (CArrPush es)
  | CO_arrc es : Forall cval_ok es -> cval_ok (CArrCollect es)
  | CO_inli l : Forall PK (map fst l) -> Forall cval_ok (map snd l) -> cval_ok (CInlInsert l)
  | CO_inlc l : Forall PK (map fst l) -> Forall cval_ok (map snd l) -> cval_ok (CInlCollect l).

  Inductive citem_ok : citem -> Prop :=
  | CI_value v : cval_ok v -> citem_ok (CValue v)
  | CI_table l : Forall PK (map fst l) -> Forall citem_ok (map snd l) -> citem_ok (CTable l)
  | CI_aot ts : Forall (fun l => Forall PK (map fst l) /\ Forall citem_ok (map snd l)) ts -> citem_ok (CAot ts).

  Lemma cval_ok_strong (P : cval -> Prop) :
    (forall s, PS s -> P (CScalar s)) ->
    (forall es, Forall P es -> P (CArrPush es)) ->
    (forall es, Forall P es -> P (CArrCollect es)) ->
    (forall l, Forall PK (map fst l) -> Forall P (map snd l) -> P (CInlInsert l)) ->
    (forall l, Forall PK (map fst l) -> Forall P (map snd l) -> P (CInlCollect l)) ->
    forall c, cval_ok c -> P c.
  Proof.
    intros H1 H2 H3 H4 H5. fix IH 2. intros c Hc.
    destruct Hc as [s Hs | es Hes | es Hes | l Hk Hl | l Hk Hl].
    - apply H1, Hs.
    - apply H2. induction Hes; constructor; [apply IH; assumption|assumption].
    - apply H3. induction Hes; constructor; [apply IH; assumption|assumption].
    - apply H4; [exact Hk|]. induction Hl; constructor; [apply IH; assumption|assumption].
    - apply H5; [exact Hk|]. induction Hl; constructor; [apply IH; assumption|assumption].
  Qed.

  Local Notation BV := (BuiltValue PS PK).

  Lemma decorate_built v p s :
    BV v -> decor_built (decor_new p s) -> BV (value_decorate v p s).
  Proof.
    intros Hv Hd. destruct Hv as [x d Hx _ | es d _ Hes | es d _ Hes | l d _ Hnd Hk Hl]; cbn [value_decorate]; constructor; assumption.
  Qed.

  Lemma array_op_built vals v : BV v -> BV (array_value_op vals v).
  Proof.
    intro Hv. unfold array_value_op, value_decorate_str. destruct vals; apply decorate_built; try exact Hv;
      split; cbn; [right; left|right|right; right|right]; reflexivity.
  Qed.

  Definition fresh (v : value) : Prop := BV v /\ value_decor v = decor_default.

  Lemma push_all_built vs : Forall BV vs -> forall es,
    Forall BV es ->
    exists es', fold_left array_push vs (VArray (map IValue es) REmpty false decor_default None)
                = VArray (map IValue es') REmpty false decor_default None /\ Forall BV es'.
  Proof.
    induction 1 as [|v vs Hv _ IH]; intros es Hes; [exists es; auto|].
    cbn [fold_left array_push].
    replace (map IValue es ++ [IValue (array_value_op (map IValue es) v)])
      with (map IValue (es ++ [array_value_op (map IValue es) v])) by (rewrite map_app; reflexivity).
    apply IH. apply Forall_app. split; [exact Hes|]. constructor; [apply array_op_built, Hv|constructor].
  Qed.

  Lemma insert_all_built kvl : Forall PK (map fst kvl) -> Forall BV (map snd kvl) -> forall l,
    NoDup (map fst l) -> Forall PK (map fst l) -> Forall BV (map snd l) ->
    exists l', fold_left (fun t kv => inline_insert_api t (fst kv) (snd kv)) kvl
                         (VInline (mk_inline_items l) REmpty false false decor_default None)
               = VInline (mk_inline_items l') REmpty false false decor_default None
               /\ NoDup (map fst l') /\ Forall PK (map fst l') /\ Forall BV (map snd l').
  Proof.
    induction kvl as [|[k v] kvl IH]; intros Hk Hv l H1 H2 H3; [exists l; auto|].
    cbn [map fst snd] in Hk, Hv. inversion Hk; subst. inversion Hv; subst.
    cbn [fold_left inline_insert_api fst snd]. rewrite kv_insert_inline.
    apply IH; auto using l_insert_nodup, l_insert_forall, l_insert_keys_forall.
  Qed.

  Lemma collect_all_built kvl : Forall PK (map fst kvl) -> Forall BV (map snd kvl) -> forall l,
    NoDup (map fst l) -> Forall PK (map fst l) -> Forall BV (map snd l) ->
    exists l', fold_left (fun m kv => kv_map_insert m (fst kv) (IValue (snd kv))) kvl (mk_inline_items l)
               = mk_inline_items l'
               /\ NoDup (map fst l') /\ Forall PK (map fst l') /\ Forall BV (map snd l').
  Proof.
    induction kvl as [|[k v] kvl IH]; intros Hk Hv l H1 H2 H3; [exists l; auto|].
    cbn [map fst snd] in Hk, Hv. inversion Hk; subst. inversion Hv; subst.
    cbn [fold_left fst snd]. rewrite kv_map_insert_inline.
    apply IH; auto using l_insert_nodup, l_insert_forall, l_insert_keys_forall.
  Qed.

  (* C06_built_WF, values: everything the value constructors assemble is a BuiltValue with default decor *)
  Theorem eval_value_built : forall c, cval_ok c -> fresh (eval_value c).
  Proof.
    apply cval_ok_strong.
    - intros s Hs. split; [constructor; [exact Hs|split; left; reflexivity]|reflexivity].
    - intros es IH. cbn [eval_value].
      assert (Hvs : Forall BV (map eval_value es)).
      { apply Forall_forall. intros v Hv. apply in_map_iff in Hv as (c & <- & Hc). rewrite Forall_forall in IH. apply IH, Hc. }
      destruct (push_all_built _ Hvs [] (Forall_nil _)) as (es' & E & Hes'). unfold array_new.
      change (@nil item) with (map IValue []). rewrite E.
      split; [constructor; [split; left; reflexivity|exact Hes']|reflexivity].
    - intros es IH. cbn [eval_value]. unfold array_from_iter.
      split; [|reflexivity]. constructor; [split; left; reflexivity|].
      apply Forall_forall. intros v Hv. apply in_map_iff in Hv as (c & <- & Hc). rewrite Forall_forall in IH. apply IH, Hc.
    - intros l Hk IH. cbn [eval_value].
      set (kvl := map (fun kv => (fst kv, eval_value (snd kv))) l).
      assert (Hk' : Forall PK (map fst kvl)) by (unfold kvl; rewrite map_map; exact Hk).
      assert (Hv' : Forall BV (map snd kvl)).
      { unfold kvl. rewrite map_map. apply Forall_forall. intros v Hv. apply in_map_iff in Hv as (kv & <- & Hkv).
        rewrite Forall_forall in IH. apply (IH (snd kv)). apply in_map, Hkv. }
      destruct (insert_all_built kvl Hk' Hv' [] (NoDup_nil _) (Forall_nil _) (Forall_nil _)) as (l' & E & H1 & H2 & H3).
      unfold inline_new. change (@nil (key * item)) with (mk_inline_items []). rewrite E.
      split; [constructor; auto; split; left; reflexivity|reflexivity].
    - intros l Hk IH. cbn [eval_value]. unfold inline_from_iter.
      set (kvl := map (fun kv => (fst kv, eval_value (snd kv))) l).
      assert (Hk' : Forall PK (map fst kvl)) by (unfold kvl; rewrite map_map; exact Hk).
      assert (Hv' : Forall BV (map snd kvl)).
      { unfold kvl. rewrite map_map. apply Forall_forall. intros v Hv. apply in_map_iff in Hv as (kv & <- & Hkv).
        rewrite Forall_forall in IH. apply (IH (snd kv)). apply in_map, Hkv. }
      destruct (collect_all_built kvl Hk' Hv' [] (NoDup_nil _) (Forall_nil _) (Forall_nil _)) as (l' & E & H1 & H2 & H3).
      change (@nil (key * item)) with (mk_inline_items []). rewrite E.
      split; [constructor; auto; split; left; reflexivity|reflexivity].
  Qed.
End WF.

(* ---- tables, arrays of tables, documents ------------------------------------------------------------------------- *)
Section WFItems.
  Variable PS : scalar -> Prop.
  Variable PK : bytes -> Prop.
  Local Notation cval_ok := (cval_ok PS PK).
  Local Notation citem_ok := (citem_ok PS PK).
  Local Notation BI := (BuiltItem PS PK).
  Local Notation BE := (BuiltEntries PS PK).

  Definition centries_ok (l : list (bytes * citem)) : Prop := Forall PK (map fst l) /\ Forall citem_ok (map snd l).

  Lemma citem_ok_strong (P : citem -> Prop) :
    (forall v, cval_ok v -> P (CValue v)) ->
    (forall l, Forall PK (map fst l) -> Forall P (map snd l) -> P (CTable l)) ->
    (forall ts, Forall (fun l => Forall PK (map fst l) /\ Forall P (map snd l)) ts -> P (CAot ts)) ->
    forall c, citem_ok c -> P c.
  Proof.
    intros H1 H2 H3. fix IH 2. intros c Hc. destruct Hc as [v Hv | l Hk Hl | ts Hts].
    - apply H1, Hv.
    - apply H2; [exact Hk|]. induction Hl; constructor; [apply IH; assumption|assumption].
    - apply H3. induction Hts as [|l ts [Hk Hl] _ IHts]; constructor; [|exact IHts].
      split; [exact Hk|]. induction Hl; constructor; [apply IH; assumption|assumption].
  Qed.

  Definition mk_tbl (l : list (bytes * item)) (pos : option N) : tbl :=
    Tbl (mk_tbl_items l) decor_default false false pos None.

  Lemma tbl_of_built kvl : Forall PK (map fst kvl) -> Forall BI (map snd kvl) -> forall l pos,
    BE l -> exists l', tbl_of (mk_tbl l pos) kvl = mk_tbl l' pos /\ BE l'.
  Proof.
    induction kvl as [|[k it] kvl IH]; intros Hk Hv l pos Hl; [exists l; auto|].
    cbn [map fst snd] in Hk, Hv. inversion Hk; subst. inversion Hv; subst.
    unfold tbl_of. cbn [fold_left fst snd]. unfold tbl_insert, mk_tbl. cbn [t_items t_set_items].
    rewrite kv_insert_tbl. apply IH; auto.
    destruct Hl as [l Hnd Hkl Hil]. constructor; auto using l_insert_nodup, l_insert_forall, l_insert_keys_forall.
  Qed.

  Lemma BE_nil : BE [].
  Proof. constructor; constructor. Qed.

  Theorem eval_item_built : forall c, citem_ok c -> BI (eval_item c).
  Proof.
    apply citem_ok_strong.
    - intros v Hv. cbn [eval_item]. constructor. apply (eval_value_built PS PK v Hv).
    - intros l Hk IH. cbn [eval_item].
      set (kvl := map (fun kv => (fst kv, eval_item (snd kv))) l).
      assert (Hk' : Forall PK (map fst kvl)) by (unfold kvl; rewrite map_map; exact Hk).
      assert (Hv' : Forall BI (map snd kvl)).
      { unfold kvl. rewrite map_map. apply Forall_forall. intros it Hit. apply in_map_iff in Hit as (kv & <- & Hkv).
        rewrite Forall_forall in IH. apply (IH (snd kv)). apply in_map, Hkv. }
      destruct (tbl_of_built kvl Hk' Hv' [] None BE_nil) as (l' & E & Hl').
      change tbl_new with (mk_tbl [] None). rewrite E. apply (BI_table PS PK false l' Hl'). discriminate.
    - intros ts IH. cbn [eval_item].
      assert (G : forall tbls, Forall (fun t => exists l', t = mk_tbl l' None /\ BE l') tbls -> forall ls0, Forall BE ls0 ->
                exists ls', fold_left aot_push tbls (IAot (map (fun l => mk_tbl l None) ls0) None)
                            = IAot (map (fun l => mk_tbl l None) ls') None /\ Forall BE ls').
      { induction 1 as [|t tbls (l' & -> & Hl') _ IHt]; intros ls0 Hls0; [exists ls0; auto|].
        cbn [fold_left aot_push].
        replace (map (fun l => mk_tbl l None) ls0 ++ [mk_tbl l' None]) with (map (fun l => mk_tbl l None) (ls0 ++ [l']))
          by (rewrite map_app; reflexivity).
        apply IHt. apply Forall_app. split; [exact Hls0|constructor; [exact Hl'|constructor]]. }
      destruct (G (map (fun l => tbl_of tbl_new (map (fun kv => (fst kv, eval_item (snd kv))) l)) ts)) with (ls0 := @nil (list (bytes * item)))
        as (ls' & E & Hls').
      + apply Forall_forall. intros t Ht. apply in_map_iff in Ht as (l & <- & Hl).
        rewrite Forall_forall in IH. destruct (IH l Hl) as [Hk Hi].
        set (kvl := map (fun kv => (fst kv, eval_item (snd kv))) l).
        assert (Hk' : Forall PK (map fst kvl)) by (unfold kvl; rewrite map_map; exact Hk).
        assert (Hv' : Forall BI (map snd kvl)).
        { unfold kvl. rewrite map_map. apply Forall_forall. intros it Hit. apply in_map_iff in Hit as (kv & <- & Hkv).
          rewrite Forall_forall in Hi. apply (Hi (snd kv)). apply in_map, Hkv. }
        change tbl_new with (mk_tbl [] None). apply (tbl_of_built kvl Hk' Hv' [] None BE_nil).
      + constructor.
      + unfold aot_new. change (@nil tbl) with (map (fun l : list (bytes * item) => mk_tbl l None) []). rewrite E.
        replace (map (fun l => mk_tbl l None) ls')
          with (map (fun x : bool * list (bytes * item) => Tbl (mk_tbl_items (snd x)) decor_default (fst x) false None None)
                    (map (fun l => (false, l)) ls')) by (rewrite map_map; reflexivity).
        constructor. apply Forall_forall. intros x Hx. apply in_map_iff in Hx as (l0 & <- & Hl0). cbn [snd].
        rewrite Forall_forall in Hls'. apply Hls', Hl0.
  Qed.

  (* C06_built_WF, documents *)
  Theorem eval_doc_built from_table l : centries_ok l -> BuiltTbl PS PK (eval_doc from_table l).
  Proof.
    intros [Hk Hl]. unfold eval_doc.
    set (kvl := map (fun kv => (fst kv, eval_item (snd kv))) l).
    assert (Hk' : Forall PK (map fst kvl)) by (unfold kvl; rewrite map_map; exact Hk).
    assert (Hv' : Forall BI (map snd kvl)).
    { unfold kvl. rewrite map_map. apply Forall_forall. intros it Hit. apply in_map_iff in Hit as (kv & <- & Hkv).
      rewrite Forall_forall in Hl. apply eval_item_built, (Hl (snd kv)). apply in_map, Hkv. }
    destruct from_table.
    - destruct (tbl_of_built kvl Hk' Hv' [] None BE_nil) as (l' & E & Hl').
      change tbl_new with (mk_tbl [] None). rewrite E. exists l', false, None. auto.
    - destruct (tbl_of_built kvl Hk' Hv' [] (Some 0%N) BE_nil) as (l' & E & Hl').
      change doc_root_new with (mk_tbl [] (Some 0%N)). rewrite E. exists l', false, (Some 0%N). auto.
  Qed.
End WFItems.
