(* Proofs/DepthDoc.v — lemmas behind Props/C05.v, part 4: the document.
   Invariant of the parse state: a table sitting `h` keys below the root (`tb h t`)
     - has h <= 2 * LIMIT - 3   (a header path has < LIMIT keys, a dotted key adds <= LIMIT - 2 tables),
     - holds values at most 2 * LIMIT - 3 deep (Proofs/DepthValue.v),
     - holds arrays of tables only while h + 1 < LIMIT (only headers create them),
     - holds tables / array-of-tables elements that satisfy the invariant at h + 1.
   `tb 0 root`, `tb (length path) current` and `length path < LIMIT` are preserved by every step of
   the document loop; `tb 0 t` gives `tbl_depth t <= 5 * LIMIT - 6`. *)
From Coq Require Import List Bool Arith NArith ZArith Lia.
From Coq.Strings Require Import Byte.
From TV Require Import Base.Prelude Base.Utf8 Base.Winnow Gen.Consts.
From TV Require Import Model.Trivia Model.Strings Model.Datetime Model.Numbers Model.Tree Model.Parse Model.Document.
From TV Require Import Proofs.Eoi Proofs.DepthBase Proofs.DepthLex Proofs.DepthValue.
Import ListNotations.

(* deepest level (number of keys from the root) at which a table can sit *)
Definition HMAX : nat := 2 * LIMIT - 3.
(* deepest value *)
Definition VMAX : nat := 2 * LIMIT - 3.

Inductive tb : nat -> tbl -> Prop :=
| tb_intro h items d im dt p s :
    h <= HMAX ->
    Forall (fun kv : key * item => ib h (snd kv)) items ->
    tb h (Tbl items d im dt p s)
with ib : nat -> item -> Prop :=
| ib_none h : ib h INone
| ib_value h v : value_depth v <= VMAX -> ib h (IValue v)
| ib_table h s : tb (S h) s -> ib h (ITable s)
| ib_aot h ts sp : S h < LIMIT -> Forall (tb (S h)) ts -> ib h (IAot ts sp).

Lemma tb_level h t : tb h t -> h <= HMAX.
Proof. intro H. inversion H; assumption. Qed.

Lemma tb_items h t : tb h t -> Forall (fun kv : key * item => ib h (snd kv)) (t_items t).
Proof. intro H. inversion H; subst. cbn [t_items]. assumption. Qed.

Lemma tb_set_items h t items :
  tb h t -> Forall (fun kv : key * item => ib h (snd kv)) items -> tb h (t_set_items t items).
Proof. intros H Hi. inversion H; subst. cbn [t_set_items]. constructor; assumption. Qed.

Lemma tb_set_span h t sp : tb h t -> tb h (t_set_span t sp).
Proof. intro H. inversion H; subst. cbn [t_set_span]. constructor; assumption. Qed.

Lemma tb_reopen h t d im dt p s : tb h t -> tb h (Tbl (t_items t) d im dt p s).
Proof. intro H. inversion H; subst. cbn [t_items]. constructor; assumption. Qed.

Lemma tb_empty h t : tbl_is_empty t = true -> h <= HMAX -> tb h t.
Proof.
  destruct t as [items d im dt p s]. unfold tbl_is_empty. cbn [t_items]. intros He Hh.
  constructor; [exact Hh|]. rewrite forallb_forall in He. apply Forall_forall.
  intros [k it] Hin. specialize (He _ Hin). cbn [snd] in *. destruct it; try discriminate. constructor.
Qed.

Lemma tb_new h d im dt p s : h <= HMAX -> tb h (Tbl [] d im dt p s).
Proof. intro Hh. constructor; [exact Hh|constructor]. Qed.

(* ---- the association list ---------------------------------------------------------------- *)
Lemma kv_get_in m k k' it : kv_get m k = Some (k', it) -> In (k', it) m.
Proof.
  induction m as [|[k0 it0] m IH]; intro H; cbn [kv_get] in H; [discriminate|].
  destruct (bytes_eqb (k_key k0) k); [inversion H; subst; left; reflexivity|right; auto].
Qed.

Section KvForall.
  Variable P : key * item -> Prop.
  Lemma kv_get_forall m k k' it : Forall P m -> kv_get m k = Some (k', it) -> P (k', it).
  Proof. intros Hm H. rewrite Forall_forall in Hm. apply Hm. eapply kv_get_in; exact H. Qed.
  Lemma kv_push_forall m k it : Forall P m -> P (k, it) -> Forall P (kv_push m k it).
  Proof. intros Hm H. unfold kv_push. apply Forall_app. split; [exact Hm|repeat constructor; exact H]. Qed.
  Lemma kv_set_forall m k it : Forall P m -> (forall k', P (k', it)) -> Forall P (kv_set m k it).
  Proof.
    intros Hm H. induction Hm as [|[k0 it0] m H0 Hm IH]; cbn [kv_set]; [constructor|].
    destruct (bytes_eqb (k_key k0) k); constructor; auto.
  Qed.
  Lemma kv_remove_forall m k : Forall P m -> Forall P (kv_remove m k).
  Proof.
    intros Hm. induction Hm as [|[k0 it0] m H0 Hm IH]; cbn [kv_remove]; [constructor|].
    destruct (bytes_eqb (k_key k0) k); [exact Hm|constructor; auto].
  Qed.
End KvForall.

Lemma rev_cons_forall {A} (P : A -> Prop) l x r : rev l = x :: r -> Forall P l -> P x /\ Forall P r.
Proof.
  intros E H. apply Forall_rev in H. rewrite E in H. inversion H; subst. split; assumption.
Qed.

(* ---- descend_path ------------------------------------------------------------------------ *)
Lemma wta_tb {X} (Q : X -> Prop) : forall path t h dotted (f : tbl -> cres (tbl * X)) t' x,
  tb h t -> h + length path <= HMAX ->
  (forall p p' y, tb (h + length path) p -> f p = COk (p', y) -> tb (h + length path) p' /\ Q y) ->
  with_table_at t path dotted f = COk (t', x) -> tb h t' /\ Q x.
Proof.
  induction path as [|k ptl IH]; intros t h dotted f t' x Ht Hh Hf H; cbn [with_table_at] in H.
  - cbn [length] in Hf. rewrite Nat.add_0_r in Hf. exact (Hf _ _ _ Ht H).
  - cbn [length] in Hh, Hf.
    assert (Hf' : forall p p' y, tb (S h + length ptl) p -> f p = COk (p', y) ->
                                 tb (S h + length ptl) p' /\ Q y).
    { intros p p' y. replace (S h + length ptl) with (h + S (length ptl)) by lia. apply Hf. }
    assert (Hh' : S h + length ptl <= HMAX) by lia.
    pose proof (tb_items _ _ Ht) as Hit.
    destruct (kv_get (t_items t) (k_key k)) as [[k0 it0]|] eqn:G.
    + pose proof (kv_get_forall _ _ _ _ _ Hit G) as H0. cbn [snd] in H0.
      destruct it0 as [|v0|sub|ts sp]; try discriminate.
      * (* table *)
        destruct (dotted && negb (t_implicit sub)); [discriminate|].
        destruct (with_table_at sub ptl dotted f) as [[sub' y]| |] eqn:E; try discriminate.
        inversion H; subst. inversion H0; subst.
        destruct (IH _ _ _ _ _ _ H3 Hh' Hf' E) as [Hs HQ]. split; [|exact HQ].
        apply tb_set_items; [exact Ht|]. apply kv_set_forall; [exact Hit|].
        intro. cbn [snd]. constructor. exact Hs.
      * (* array of tables *)
        destruct (dotted && _); [discriminate|].
        destruct (rev ts) as [|last rinit] eqn:R; [discriminate|].
        destruct (with_table_at last ptl dotted f) as [[last' y]| |] eqn:E; try discriminate.
        inversion H; subst. inversion H0; subst.
        destruct (rev_cons_forall _ _ _ _ R H5) as [Hl Hr].
        destruct (IH _ _ _ _ _ _ Hl Hh' Hf' E) as [Hs HQ]. split; [|exact HQ].
        apply tb_set_items; [exact Ht|]. apply kv_set_forall; [exact Hit|].
        intro. cbn [snd]. constructor; [assumption|].
        apply Forall_app; split; [apply Forall_rev; assumption|repeat constructor; assumption].
    + destruct (with_table_at (Tbl [] decor_default true dotted None None) ptl dotted f)
        as [[sub y]| |] eqn:E; try discriminate.
      inversion H; subst.
      assert (Hn : tb (S h) (Tbl [] decor_default true dotted None None)) by (apply tb_new; lia).
      destruct (IH _ _ _ _ _ _ Hn Hh' Hf' E) as [Hs HQ]. split; [|exact HQ].
      apply tb_set_items; [exact Ht|]. apply kv_push_forall; [exact Hit|].
      cbn [snd]. constructor. exact Hs.
Qed.

(* ---- the parse state --------------------------------------------------------------------- *)
Definition inv (st : pstate) : Prop :=
  tb 0 (st_root st) /\ tb (length (st_path st)) (st_current st) /\ length (st_path st) < LIMIT.

Lemma HMAX_ge : LIMIT - 1 <= HMAX.
Proof. unfold HMAX. pose proof LIMIT_ge2. lia. Qed.

Lemma inv_new : inv state_new.
Proof.
  unfold inv, state_new. cbn [st_root st_current st_path length]. pose proof LIMIT_ge2.
  split; [|split]; [apply tb_new; lia|apply tb_set_span; apply tb_new; lia|lia].
Qed.

Lemma inv_on_ws st sp : inv st -> inv (on_ws st sp).
Proof. intro H. exact H. Qed.

Lemma pop_key_some p pp k : pop_key p = Some (pp, k) -> length p = S (length pp).
Proof.
  unfold pop_key. intro H. destruct (rev p) as [|l r] eqn:R; [discriminate|]. inversion H; subst.
  rewrite <- (rev_length p), R, rev_length. reflexivity.
Qed.
Lemma pop_key_none p : pop_key p = None -> p = [].
Proof.
  unfold pop_key. intro H. destruct (rev p) as [|l r] eqn:R; [|discriminate].
  destruct p as [|x p]; [reflexivity|]. apply (f_equal (@length _)) in R.
  rewrite rev_length in R. discriminate.
Qed.

Lemma inv_on_keyval st path k v st' :
  inv st -> length path + 1 < LIMIT -> ib (length (st_path st) + length path) v ->
  on_keyval st path k v = COk st' -> inv st'.
Proof.
  intros (Hr & Hc & Hp) Hl Hv H. unfold on_keyval in H.
  match type of H with match with_table_at ?c _ _ ?f with _ => _ end = _ =>
    set (cur := c) in H; set (fn := f) in H end.
  assert (Hcur : tb (length (st_path st)) cur).
  { unfold cur. destruct (t_span (st_current st)); [|exact Hc].
    destruct (item_span v); [apply tb_set_span|]; exact Hc. }
  destruct (with_table_at cur path true fn) as [[cur' u]| |] eqn:E; try discriminate.
  inversion H; subst. unfold inv. cbn [st_root st_current st_path].
  split; [exact Hr|]. split; [|exact Hp].
  refine (proj1 (wta_tb (fun _ => True) path cur _ true fn cur' u Hcur _ _ E)).
  - unfold HMAX. lia.
  - intros p p' y Hp0 Hfn. split; [|exact I]. unfold fn in Hfn.
    destruct (Bool.eqb _ _); [discriminate|].
    destruct (kv_get (t_items p) _); [discriminate|]. inversion Hfn; subst.
    apply tb_set_items; [exact Hp0|]. apply kv_push_forall; [apply tb_items; exact Hp0|exact Hv].
Qed.

(* the span bookkeeping of dotted tables keeps the shape of the tree *)
Lemma tb_set_dotted_spans : forall path t h e, tb h t -> tb h (set_dotted_spans t path e).
Proof.
  induction path as [|k ptl IH]; intros t h e Ht; cbn [set_dotted_spans]; [exact Ht|].
  pose proof (tb_items _ _ Ht) as Hit.
  destruct (kv_get (t_items t) (k_key k)) as [[k0 it0]|] eqn:G; [|exact Ht].
  pose proof (kv_get_forall _ _ _ _ _ Hit G) as H0. cbn [snd] in H0.
  destruct it0 as [|v0|sub|ts sp]; try exact Ht.
  inversion H0; subst.
  apply tb_set_items; [exact Ht|]. apply kv_set_forall; [exact Hit|].
  intro. cbn [snd]. constructor. apply IH.
  destruct (t_dotted sub); [|assumption].
  destruct (key_span k); [|assumption]. destruct e; [|assumption]. apply tb_set_span. assumption.
Qed.

Lemma inv_on_keyval_sp st path k v st' :
  inv st -> length path + 1 < LIMIT -> ib (length (st_path st) + length path) v ->
  on_keyval_sp st path k v = COk st' -> inv st'.
Proof.
  intros Hi Hl Hv H. unfold on_keyval_sp in H.
  destruct (on_keyval st path k v) as [st1| |] eqn:E; try discriminate.
  destruct (inv_on_keyval _ _ _ _ _ Hi Hl Hv E) as (Hr & Hc & Hp).
  inversion H; subst. unfold inv. cbn [st_root st_current st_path].
  split; [|split]; [exact Hr|apply tb_set_dotted_spans; exact Hc|exact Hp].
Qed.

Lemma inv_finalize st st' : inv st -> finalize_table st = COk st' -> inv st' /\ st_path st' = [].
Proof.
  intros (Hr & Hc & Hp) H. unfold finalize_table in H. pose proof LIMIT_ge2 as HL.
  assert (Hdone : forall root, tb 0 root ->
            inv (mkState root (st_trailing st) (st_position st) tbl_new (st_is_array st) []) /\
            st_path (mkState root (st_trailing st) (st_position st) tbl_new (st_is_array st) []) = []).
  { intros root Hroot. split; [|reflexivity]. unfold inv. cbn [st_root st_current st_path length].
    split; [|split]; [exact Hroot|apply tb_new; lia|lia]. }
  destruct (pop_key (st_path st)) as [[ppath k]|] eqn:P.
  - apply pop_key_some in P. rewrite P in Hc, Hp.
    assert (Hpp : 0 + length ppath <= HMAX) by (unfold HMAX; lia).
    destruct (st_is_array st).
    + match type of H with match with_table_at _ _ _ ?f with _ => _ end = _ => set (fn := f) in H end.
      destruct (with_table_at (st_root st) ppath false fn) as [[root' u]| |] eqn:E; try discriminate.
      inversion H; subst. apply Hdone.
      refine (proj1 (wta_tb (fun _ => True) ppath _ 0 false fn root' u Hr Hpp _ E)).
      intros p p' y Hp0 Hfn. split; [|exact I]. unfold fn in Hfn. cbn [plus] in *.
      pose proof (tb_items _ _ Hp0) as Hit.
      destruct (kv_get (t_items p) (k_key k)) as [[k0 it0]|] eqn:G.
      * pose proof (kv_get_forall _ _ _ _ _ Hit G) as H0. cbn [snd] in H0.
        destruct it0 as [|v0|sub|ts sp]; try discriminate.
        inversion Hfn; subst. inversion H0; subst.
        apply tb_set_items; [exact Hp0|]. apply kv_set_forall; [exact Hit|].
        intro. cbn [snd]. constructor; [assumption|].
        apply Forall_app. split; [assumption|repeat constructor; exact Hc].
      * inversion Hfn; subst.
        apply tb_set_items; [exact Hp0|]. apply kv_push_forall; [exact Hit|].
        cbn [snd]. constructor; [lia|repeat constructor; exact Hc].
    + match type of H with match with_table_at _ _ _ ?f with _ => _ end = _ => set (fn := f) in H end.
      destruct (with_table_at (st_root st) ppath false fn) as [[root' u]| |] eqn:E; try discriminate.
      inversion H; subst. apply Hdone.
      refine (proj1 (wta_tb (fun _ => True) ppath _ 0 false fn root' u Hr Hpp _ E)).
      intros p p' y Hp0 Hfn. split; [|exact I]. unfold fn in Hfn. cbn [plus] in *.
      pose proof (tb_items _ _ Hp0) as Hit.
      destruct (kv_get (t_items p) (k_key k)) as [[k0 it0]|] eqn:G.
      * destruct it0 as [|v0|sub|ts sp]; try discriminate.
        destruct (t_implicit sub); [|discriminate]. inversion Hfn; subst.
        apply tb_set_items; [exact Hp0|]. apply kv_set_forall; [exact Hit|].
        intro. cbn [snd]. constructor. exact Hc.
      * inversion Hfn; subst.
        apply tb_set_items; [exact Hp0|]. apply kv_push_forall; [exact Hit|].
        cbn [snd]. constructor. exact Hc.
  - apply pop_key_none in P. rewrite P in Hc. cbn [length] in Hc.
    destruct (tbl_is_empty (st_root st)); [|discriminate]. inversion H; subst. apply Hdone. exact Hc.
Qed.

Lemma inv_open_table st root' current path dec sp is_array :
  tb 0 root' -> tb (length path) current -> length path < LIMIT ->
  inv (open_table st root' current path dec sp is_array).
Proof.
  intros Hr Hc Hp. unfold inv, open_table. cbn [st_root st_current st_path].
  split; [|split]; [exact Hr|apply tb_reopen; exact Hc|exact Hp].
Qed.

Lemma inv_start_table st path dec sp st' :
  inv st -> length path < LIMIT -> start_table st path dec sp = COk st' -> inv st'.
Proof.
  intros (Hr & Hc & Hp) Hl H. unfold start_table in H.
  destruct (tbl_is_empty (st_current st)) eqn:Hem; cbn [negb] in H; [|discriminate].
  destruct (st_path st) eqn:Pst; [|discriminate].
  destruct (pop_key path) as [[ppath k]|] eqn:P; [|discriminate].
  apply pop_key_some in P.
  match type of H with match with_table_at _ _ _ ?f with _ => _ end = _ => set (fn := f) in H end.
  destruct (with_table_at (st_root st) ppath false fn) as [[root' taken_]| |] eqn:E; try discriminate.
  inversion H; subst.
  assert (Hpp : 0 + length ppath <= HMAX) by (unfold HMAX; lia).
  assert (Hlev : length path <= HMAX) by (unfold HMAX; lia).
  destruct (wta_tb (fun o : option tbl => match o with Some t => tb (length path) t | None => True end)
              ppath _ 0 false fn root' taken_ Hr Hpp) as [Hr' HQ]; [|exact E|].
  - intros p p' y Hp0 Hfn. unfold fn in Hfn. cbn [plus] in *.
    pose proof (tb_items _ _ Hp0) as Hit.
    destruct (kv_get (t_items p) (k_key k)) as [[k0 it0]|] eqn:G.
    + pose proof (kv_get_forall _ _ _ _ _ Hit G) as H0. cbn [snd] in H0.
      destruct it0 as [|v0|sub|ts sp0]; try discriminate.
      destruct (t_implicit sub && negb (t_dotted sub)); [|discriminate]. inversion Hfn; subst.
      inversion H0; subst. split.
      * apply tb_set_items; [exact Hp0|]. apply kv_remove_forall. exact Hit.
      * rewrite P. assumption.
    + inversion Hfn; subst. split; [exact Hp0|exact I].
  - apply inv_open_table; [exact Hr'| |exact Hl].
    destruct taken_ as [t|]; [exact HQ|]. apply tb_empty; assumption.
Qed.

Lemma inv_start_array_table st path dec sp st' :
  inv st -> length path < LIMIT -> start_array_table st path dec sp = COk st' -> inv st'.
Proof.
  intros (Hr & Hc & Hp) Hl H. unfold start_array_table in H.
  destruct (tbl_is_empty (st_current st)) eqn:Hem; cbn [negb] in H; [|discriminate].
  destruct (st_path st) eqn:Pst; [|discriminate].
  destruct (pop_key path) as [[ppath k]|] eqn:P; [|discriminate].
  apply pop_key_some in P.
  match type of H with match with_table_at _ _ _ ?f with _ => _ end = _ => set (fn := f) in H end.
  destruct (with_table_at (st_root st) ppath false fn) as [[root' u]| |] eqn:E; try discriminate.
  inversion H; subst.
  assert (Hpp : 0 + length ppath <= HMAX) by (unfold HMAX; lia).
  assert (Hlev : length path <= HMAX) by (unfold HMAX; lia).
  apply inv_open_table; [| apply tb_empty; assumption | exact Hl].
  refine (proj1 (wta_tb (fun _ => True) ppath _ 0 false fn root' u Hr Hpp _ E)).
  intros p p' y Hp0 Hfn. split; [|exact I]. unfold fn in Hfn. cbn [plus] in *.
  pose proof (tb_items _ _ Hp0) as Hit.
  destruct (kv_get (t_items p) (k_key k)) as [[k0 it0]|] eqn:G.
  + destruct it0 as [|v0|sub|ts sp0]; try discriminate. inversion Hfn; subst. exact Hp0.
  + inversion Hfn; subst.
    apply tb_set_items; [exact Hp0|]. apply kv_push_forall; [exact Hit|].
    cbn [snd]. constructor; [lia|constructor].
Qed.

Lemma inv_on_header is_array st path trailing sp st' :
  inv st -> length path < LIMIT -> on_header is_array st path trailing sp = COk st' -> inv st'.
Proof.
  intros Hi Hl H. unfold on_header in H. destruct path as [|k0 ptl] eqn:Ep; [discriminate|].
  rewrite <- Ep in *. clear Ep.
  destruct (finalize_table st) as [st1| |] eqn:F; try discriminate.
  destruct (inv_finalize _ _ Hi F) as [Hi1 _].
  unfold take_trailing in H.
  match type of H with (if _ then start_array_table ?s _ _ _ else _) = _ => set (st2 := s) in H end.
  assert (Hi2 : inv st2) by exact Hi1.
  destruct is_array; [eapply inv_start_array_table|eapply inv_start_table]; eassumption.
Qed.

(* ---- key paths --------------------------------------------------------------------------- *)
Lemma fix_key_path_length path p : fix_key_path path = Some p -> length p = length path.
Proof.
  unfold fix_key_path. destruct path as [|first tl]; [discriminate|].
  match goal with |- context [rev (?x :: tl)] => set (first' := x) end.
  destruct (rev (first' :: tl)) as [|last rinit] eqn:R; [discriminate|].
  intro H; inversion H; subst. rewrite app_length, rev_length. cbn [length].
  apply (f_equal (@length _)) in R. rewrite rev_length in R. cbn [length] in R. lia.
Qed.

Lemma key_ok i kp i' : key_ i = Ok kp i' -> length kp < LIMIT.
Proof.
  unfold key_. intro H. apply bind_ok in H as (path & i1 & H1 & H).
  apply try_map_ok in H1 as (k & _ & H1).
  destruct (check_depth (length k)) eqn:C; [discriminate|]. inversion H1; subst.
  apply check_depth_false in C.
  destruct (fix_key_path path) as [p|] eqn:F; [|discriminate].
  inversion H; subst. rewrite (fix_key_path_length _ _ F). exact C.
Qed.

Lemma parse_keyval_ok i p k v i' :
  parse_keyval i = Ok (p, (k, v)) i' ->
  length p + 1 < LIMIT /\ exists v0, v = IValue v0 /\ value_depth v0 <= VMAX.
Proof.
  unfold parse_keyval. intro H.
  apply bind_ok in H as (kp & i1 & H1 & H).
  apply bind_ok in H as ([[pre v1] suf] & i2 & H2 & H).
  apply key_ok in H1.
  destruct (pop_key kp) as [[path k1]|] eqn:P; [|discriminate].
  inversion H; subst. apply pop_key_some in P. split; [lia|].
  eexists; split; [reflexivity|]. rewrite value_depth_decorate.
  apply cut_err_ok in H2.
  apply bind_ok in H2 as (c & j1 & _ & H2).
  apply bind_ok in H2 as (pre' & j2 & _ & H2).
  apply bind_ok in H2 as (v' & j3 & Hv & H2).
  apply bind_ok in H2 as (suf' & j4 & _ & H2).
  inversion H2; subst. exact (value_depth_bound_top _ _ _ Hv).
Qed.

(* ---- the document loop ------------------------------------------------------------------- *)
Lemma lift_state_ok {A} (r : cres A) a : lift_state r = TmOk a -> r = COk a.
Proof. destruct r; cbn; intro H; inversion H; reflexivity. Qed.

Lemma inv_keyval st i st' i' : inv st -> keyval st i = Ok st' i' -> inv st'.
Proof.
  intros Hi H. unfold keyval in H.
  apply try_map_ok in H as ([p [k v]] & H & Hs). apply lift_state_ok in Hs.
  apply parse_keyval_ok in H as (Hl & v0 & -> & Hv).
  eapply inv_on_keyval_sp; [exact Hi|exact Hl| |exact Hs]. constructor. exact Hv.
Qed.

Lemma inv_header is_array st i st' i' : inv st -> header is_array st i = Ok st' i' -> inv st'.
Proof.
  intros Hi H. unfold header in H.
  apply try_map_ok in H as ([[h sp] t] & H & Hs). apply lift_state_ok in Hs.
  unfold pair_ in H.
  apply bind_ok in H as ([h1 sp1] & i1 & H1 & H).
  apply bind_ok in H as (t1 & i2 & H2 & H). inversion H; subst.
  apply with_span_ok in H1 as (h2 & H1 & E). inversion E; subst.
  unfold delimited in H1.
  apply bind_ok in H1 as (o & j1 & _ & H1).
  apply bind_ok in H1 as (kp & j2 & Hk & H1).
  apply bind_ok in H1 as (c & j3 & _ & H1). inversion H1; subst.
  apply cut_err_ok in Hk. apply key_ok in Hk.
  eapply inv_on_header; [exact Hi|exact Hk|exact Hs].
Qed.

Lemma inv_table st i st' i' : inv st -> table st i = Ok st' i' -> inv st'.
Proof.
  intros Hi H. unfold table in H. apply context_ok in H.
  apply bind_ok in H as (two & i1 & _ & H).
  destruct (bytes_eqb two _); eapply inv_header; eassumption.
Qed.

Lemma inv_pmap_on_ws {A} st (p : parser A) (g : A -> N * N) i st' i' :
  inv st -> pmap (fun x => on_ws st (g x)) p i = Ok st' i' -> inv st'.
Proof. intros Hi H. apply pmap_ok in H as (a & _ & ->). exact Hi. Qed.

Lemma inv_doc_line st i st' i' : inv st -> doc_line st i = Ok st' i' -> inv st'.
Proof.
  intros Hi H. unfold doc_line in H.
  apply bind_ok in H as (b & i1 & _ & H).
  apply bind_ok in H as (st1 & i2 & H1 & H).
  assert (Hi1 : inv st1).
  { destruct (byte_eqb b COMMENT_START_SYMBOL).
    { apply cut_err_ok in H1. unfold parse_comment in H1. apply pmap_ok in H1 as (a & _ & ->). exact Hi. }
    destruct (byte_eqb b STD_TABLE_OPEN).
    { apply cut_err_ok in H1. eapply inv_table; eassumption. }
    destruct (byte_eqb b LF || byte_eqb b CR).
    { unfold parse_newline in H1. apply pmap_ok in H1 as (a & _ & ->). exact Hi. }
    apply cut_err_ok in H1. eapply inv_keyval; eassumption. }
  unfold parse_ws in H. apply pmap_ok in H as (a & _ & ->). exact Hi1.
Qed.

Lemma inv_doc_loop : forall fuel st i st' i', inv st -> doc_loop fuel st i = Ok st' i' -> inv st'.
Proof.
  induction fuel as [|f IH]; intros st i st' i' Hi H; cbn [doc_loop] in H; [discriminate|].
  destruct (doc_line st i) as [st1 i1|e i1|e i1|s] eqn:E; try discriminate.
  - destruct (Nat.eqb _ _); [discriminate|]. apply (IH _ _ _ _ (inv_doc_line _ _ _ _ Hi E) H).
  - inversion H; subst. exact Hi.
Qed.

Lemma inv_document i st i' : document i = Ok st i' -> inv st.
Proof.
  unfold document. intro H.
  apply bind_ok in H as (o & i1 & _ & H).
  apply bind_ok in H as (st0 & i2 & H0 & H).
  apply bind_ok in H as (st1 & i3 & H1 & H).
  apply bind_ok in H as (u & i4 & _ & H). inversion H; subst.
  unfold parse_ws in H0. apply pmap_ok in H0 as (a & _ & ->).
  eapply inv_doc_loop; [|exact H1]. apply inv_on_ws. exact inv_new.
Qed.

Lemma parse_document_tb s d : parse_document s = POk d -> tb 0 (doc_root d).
Proof.
  unfold parse_document, parse_all. intro H.
  destruct ((a <- document ;; eof ;;; ret a) (new_input s)) as [st i'|e i'|e i'|p] eqn:E; try discriminate.
  apply bind_ok in E as (st0 & i1 & Hd & E).
  apply bind_ok in E as (u & i2 & _ & E). inversion E; subst.
  destruct (finalize_table st) as [st'| |] eqn:F; try discriminate.
  inversion H; subst. cbn [doc_root].
  destruct (inv_finalize _ _ (inv_document _ _ _ Hd) F) as [(Hr & _) _]. exact Hr.
Qed.

(* ---- from the invariant to the depth ----------------------------------------------------- *)
(* a table h keys below the root is at most this deep (its own level included) *)
Definition DB (h : nat) : nat := S (VMAX + (HMAX - h) + (LIMIT - 1 - h)).

Lemma tb_depth : forall k h t, h + k = HMAX -> tb h t -> tbl_depth t <= DB h.
Proof.
  pose proof LIMIT_ge2 as HL.
  induction k as [|k IH]; intros h t Hk Ht.
  - inversion Ht as [h0 items d im dt p s Hh Hall]; subst. rewrite tbl_depth_eq. unfold DB. apply le_n_S.
    unfold titems_depth. apply lmax_le. intros [k0 it] Hin. cbn [snd].
    rewrite Forall_forall in Hall. specialize (Hall _ Hin). cbn [snd] in Hall.
    inversion Hall as [ ? | ? v Hv | ? s0 Hs | ? ts sp0 Hlt Hts ]; subst; cbn [titem_depth].
    + lia.
    + lia.
    + apply tb_level in Hs. lia.
    + unfold HMAX in *. lia.
  - inversion Ht as [h0 items d im dt p s Hh Hall]; subst. rewrite tbl_depth_eq. apply le_n_S.
    unfold titems_depth. apply lmax_le. intros [k0 it] Hin. cbn [snd].
    rewrite Forall_forall in Hall. specialize (Hall _ Hin). cbn [snd] in Hall.
    assert (Hk' : S h + k = HMAX) by lia.
    inversion Hall as [ ? | ? v Hv | ? s0 Hs | ? ts sp0 Hlt Hts ]; subst; cbn [titem_depth].
    + lia.
    + unfold DB. lia.
    + specialize (IH _ _ Hk' Hs). unfold DB in *. lia.
    + assert (lmax tbl_depth ts <= DB (S h)).
      { apply lmax_le. intros e He. rewrite Forall_forall in Hts. exact (IH _ _ Hk' (Hts _ He)). }
      unfold DB in *. lia.
Qed.

Definition DEPTH_BOUND : nat := 5 * LIMIT - 6.

Lemma tb_root_depth t : tb 0 t -> tbl_depth t <= DEPTH_BOUND.
Proof.
  intro H. pose proof (tb_depth HMAX 0 t eq_refl H) as Hd.
  unfold DB, DEPTH_BOUND, VMAX, HMAX in *. pose proof LIMIT_ge2. lia.
Qed.

Lemma document_depth_bound s d : parse_document s = POk d -> tbl_depth (doc_root d) <= DEPTH_BOUND.
Proof. intro H. apply tb_root_depth. exact (parse_document_tb _ _ H). Qed.

(* the value entry point (`Value::from_str`) *)
Lemma parse_value_depth s v : parse_value_raw s = POk v -> value_depth v <= 2 * LIMIT - 3.
Proof.
  unfold parse_value_raw. intro H.
  destruct (parse_all (terminated_eoi value_) s) as [x| |] eqn:E; try discriminate.
  cbn [lift_outcome] in H. inversion H; subst.
  apply parse_all_eoi_done_inv in E as (i1 & Hv & _).
  exact (value_depth_bound_top _ _ _ Hv).
Qed.

Lemma DEPTH_BOUND_value : DEPTH_BOUND = 394.
Proof. reflexivity. Qed.
