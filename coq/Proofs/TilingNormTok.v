(* Proofs/TilingNormTok.v — C03, scanner side, part 3: the tokens without quotes (booleans,
   integers, floats, date-times, unquoted keys) are plain texts; scalars and keys are
   statement-like pieces with follow condition `qstop`. *)
From TV Require Import Base.Prelude Base.Utf8 Spec.Abnf Spec.Lex Spec.Defs Spec.Syntax Spec.Norm.
From TV Require Import Proofs.LexEquivBase Proofs.LexEquivInt Proofs.LexEquivKey Proofs.GrammarValueTok Proofs.GrammarValueComplete.
From TV Require Import Proofs.TilingDefs Proofs.TilingNormScan Proofs.TilingNormStr.
Require Import Lia ZifyBool ZifyN ZifyNat.

(* ---- qstop -------------------------------------------------------------------------------------------- *)
Lemma qstop_ws w r : ws_tok w -> qstop r -> qstop (w ++ r).
Proof.
  destruct w as [|b w]; [auto|]. unfold ws_tok, all. cbn [forallb app qstop]. intros H _.
  apply andb_true_iff in H as [H _]. split; intros ->; discriminate H.
Qed.

Lemma qstop_optc c r : opt_comment c -> qstop r -> qstop (c ++ r).
Proof. intros [-> | (u & -> & _)] Hr; [exact Hr|]. cbn [app qstop]. split; discriminate. Qed.

Lemma qstop_newline nl r : newline_tok nl -> qstop (nl ++ r).
Proof. intros [-> | ->]; cbn [app qstop]; split; discriminate. Qed.

Lemma qstop_wscn w r : wscn_tok w -> qstop r -> qstop (w ++ r).
Proof.
  intros [|b t Hb _|c nl t Hc Hn _] Hr; [exact Hr| |].
  - cbn [app qstop]. split; intros ->; discriminate Hb.
  - rewrite <- app_assoc. apply qstop_optc; [exact Hc|]. rewrite <- app_assoc. apply qstop_newline, Hn.
Qed.

Lemma lendf_qstop r : lendf r -> qstop r.
Proof. intros [-> | (nl & r' & Hn & ->)]; [exact I|apply qstop_newline, Hn]. Qed.

Ltac qs :=
  rewrite <- ?app_assoc;
  repeat first
    [ assumption
    | apply qstop_ws; [assumption|]
    | apply qstop_wscn; [assumption|]
    | apply qstop_optc; [assumption|]
    | apply lendf_qstop; assumption
    | (progress cbn [app qstop]; split; discriminate) ].

(* ---- the bytes of unquoted tokens ------------------------------------------------------------------------ *)
(* digits, letters, "_" "+" "-" "." ":" and the space of a date-time *)
Definition tokb (b : byte) : bool :=
  rng 48 57 b || rng 65 90 b || rng 97 122 b || rng 95 95 b || rng 43 43 b || rng 45 46 b || rng 58 58 b || rng 32 32 b.
Definition all_tok (t : bytes) : Prop := forallb tokb t = true.

Lemma tokb_plain b : tokb b = true -> plainb b = true.
Proof. unfold tokb, plainb, nqb. cls. lia. Qed.

Lemma tokb_blank b : tokb b = true -> b <> x20 -> blank b = false.
Proof.
  unfold tokb, blank. intros H Hn. assert (b2n b <> 32%N) by (intro E; apply Hn; apply b2n_inj; exact E).
  revert H. cls. lia.
Qed.

Lemma all_tok_plain t : all_tok t -> plain t.
Proof.
  unfold all_tok, plain. induction t as [|b t IH]; [reflexivity|]. cbn [forallb]. intro H.
  apply andb_true_iff in H as [Hb Ht]. rewrite tokb_plain by exact Hb. apply IH, Ht.
Qed.

Lemma all_tok_app a b : all_tok a -> all_tok b -> all_tok (a ++ b).
Proof. unfold all_tok. intros Ha Hb. rewrite forallb_app, Ha, Hb. reflexivity. Qed.

Lemma all_tok_cons b t : tokb b = true -> all_tok t -> all_tok (b :: t).
Proof. unfold all_tok. cbn [forallb]. intros -> ->. reflexivity. Qed.

Lemma all_class (c : byte -> bool) t : (forall b, c b = true -> tokb b = true) -> forallb c t = true -> all_tok t.
Proof.
  intros Hc. unfold all_tok. induction t as [|b t IH]; [reflexivity|]. cbn [forallb]. intro H.
  apply andb_true_iff in H as [Hb Ht]. rewrite Hc by exact Hb. apply IH, Ht.
Qed.

Lemma digit_tokb b : digit b = true -> tokb b = true.
Proof. unfold tokb. cls. lia. Qed.
Lemma digit1_9_tokb b : digit1_9 b = true -> tokb b = true.
Proof. unfold tokb. cls. lia. Qed.
Lemma hexdig_tokb b : hexdig b = true -> tokb b = true.
Proof. unfold tokb. cls. lia. Qed.
Lemma digit0_7_tokb b : digit0_7 b = true -> tokb b = true.
Proof. unfold tokb. cls. lia. Qed.
Lemma digit0_1_tokb b : digit0_1 b = true -> tokb b = true.
Proof. unfold tokb. cls. lia. Qed.
Lemma unquoted_tokb b : unquoted_key_char b = true -> tokb b = true /\ b <> x20.
Proof. unfold tokb. split; [revert H; cls; lia|intros ->; discriminate H]. Qed.
Lemma time_delim_tokb b : time_delim b = true -> tokb b = true.
Proof. unfold tokb, time_delim. cls. lia. Qed.

(* languages whose texts are made of token bytes *)
Definition tall (L : lang) : Prop := forall t v, L t v -> all_tok t.

Lemma tall_one c : (forall b, c b = true -> tokb b = true) -> tall (one c).
Proof. intros H t v (b & Hb & -> & _). apply all_tok_cons; [apply H, Hb|reflexivity]. Qed.
Lemma tall_skip l : all_tok l -> tall (skip l).
Proof. intros H t v [-> _]. exact H. Qed.
Lemma tall_cat L1 L2 : tall L1 -> tall L2 -> tall (cat L1 L2).
Proof. intros H1 H2 t v (t1 & v1 & t2 & v2 & -> & _ & A & B). apply all_tok_app; [apply (H1 _ _ A)|apply (H2 _ _ B)]. Qed.
Lemma tall_either L1 L2 : tall L1 -> tall L2 -> tall (either L1 L2).
Proof. intros H1 H2 t v [A | B]; [apply (H1 _ _ A)|apply (H2 _ _ B)]. Qed.
Lemma tall_star L : tall L -> tall (star L).
Proof. intros H t v. induction 1 as [|t1 v1 t2 v2 A _ IH]; [reflexivity|]. apply all_tok_app; [apply (H _ _ A)|exact IH]. Qed.
Lemma tall_star1 L : tall L -> tall (star1 L).
Proof. intro H. apply tall_cat; [exact H|apply tall_star, H]. Qed.

Lemma tall_us_digit d : (forall b, d b = true -> tokb b = true) -> tall (us_digit d).
Proof. intro H. apply tall_either; [apply tall_one, H|apply tall_cat; [apply tall_skip; reflexivity|apply tall_one, H]]. Qed.

Lemma tall_unsigned : tall unsigned_dec_int.
Proof.
  apply tall_either; [apply tall_one, digit_tokb|].
  apply tall_cat; [apply tall_one, digit1_9_tokb|apply tall_star1, tall_us_digit, digit_tokb].
Qed.

Lemma tall_zpi : tall zero_prefixable_int_tok.
Proof. apply tall_cat; [apply tall_one, digit_tokb|apply tall_star, tall_us_digit, digit_tokb]. Qed.

Lemma tall_frac : tall frac_tok.
Proof. apply tall_cat; [apply tall_skip; reflexivity|apply tall_zpi]. Qed.

Lemma sign_all_tok s neg : sign s neg -> all_tok s.
Proof. intros [[-> _] | [[-> _] | [-> _]]]; reflexivity. Qed.

Lemma exp_all_tok ex e : exp_tok ex e -> all_tok ex.
Proof.
  intros (c & s & neg & u & ds & -> & Hc & Hs & Hu & _). apply all_tok_cons; [destruct Hc as [-> | ->]; reflexivity|].
  apply all_tok_app; [apply (sign_all_tok s neg Hs)|apply (tall_zpi u ds Hu)].
Qed.

Lemma prefixed_all_tok prefix d radix t z : all_tok prefix -> (forall b, d b = true -> tokb b = true) ->
  prefixed_int_tok prefix d radix t z -> all_tok t.
Proof.
  intros Hp Hd (u & ds & -> & Hu & _). apply all_tok_app; [exact Hp|].
  apply (tall_cat (one d) (star (us_digit d))) in Hu; [exact Hu|apply tall_one, Hd|apply tall_star, tall_us_digit, Hd].
Qed.

Lemma integer_all_tok t z : integer_tok t z -> all_tok t.
Proof.
  intros [(s & neg & u & ds & -> & Hs & Hu & _) | [H | [H | H]]].
  - apply all_tok_app; [apply (sign_all_tok s neg Hs)|apply (tall_unsigned u ds Hu)].
  - apply (prefixed_all_tok [x30; x78] hexdig 16%N t z); [reflexivity|apply hexdig_tokb|exact H].
  - apply (prefixed_all_tok [x30; x6f] digit0_7 8%N t z); [reflexivity|apply digit0_7_tokb|exact H].
  - apply (prefixed_all_tok [x30; x62] digit0_1 2%N t z); [reflexivity|apply digit0_1_tokb|exact H].
Qed.

Lemma float_all_tok t f : float_tok t f -> all_tok t.
Proof.
  intros [s neg ip ipd ex e Hs Hi He|s neg ip ipd fr frd Hs Hi Hf|s neg ip ipd fr frd ex e Hs Hi Hf He|s neg Hs|s neg Hs];
    (apply all_tok_app; [apply (sign_all_tok s neg Hs)|]); try reflexivity;
    (apply all_tok_app; [apply (tall_unsigned ip ipd Hi)|]).
  - apply (exp_all_tok ex e He).
  - apply (tall_frac fr frd Hf).
  - apply all_tok_app; [apply (tall_frac fr frd Hf)|apply (exp_all_tok ex e He)].
Qed.

Lemma boolean_all_tok t b : boolean_tok t b -> all_tok t.
Proof. intros [[-> _] | [-> _]]; reflexivity. Qed.

Lemma digits_all_tok n t v : digits_tok n t v -> all_tok t.
Proof. intros (_ & H & _). apply (all_class digit); [apply digit_tokb|exact H]. Qed.

Lemma full_date_all_tok t d : full_date_tok t d -> all_tok t.
Proof.
  intros (ty & tm & td & y & m & dd & -> & Hy & Hm & Hd & _).
  repeat first [apply all_tok_app | apply (digits_all_tok _ _ _ Hy) | apply (digits_all_tok _ _ _ Hm)
               | apply (digits_all_tok _ _ _ Hd) | reflexivity].
Qed.

Lemma partial_time_all_tok t tm : partial_time_tok t tm -> all_tok t.
Proof.
  intros (th & tmi & ts & tf & h & mi & s & ns & -> & Hh & Hm & Hs & Hf & _).
  assert (Af : all_tok tf).
  { destruct Hf as [[-> _] | (ds & -> & _ & Hds & _)]; [reflexivity|].
    apply all_tok_cons; [reflexivity|apply (all_class digit); [apply digit_tokb|exact Hds]]. }
  repeat first [apply all_tok_app | apply (digits_all_tok _ _ _ Hh) | apply (digits_all_tok _ _ _ Hm)
               | apply (digits_all_tok _ _ _ Hs) | exact Af | reflexivity].
Qed.

Lemma time_offset_all_tok t o : time_offset_tok t o -> all_tok t.
Proof.
  intros [[[-> | ->] _] | (sg & neg & th & tmi & h & mi & -> & Hsg & Hh & Hm & _)]; try reflexivity.
  assert (As : all_tok sg) by (destruct Hsg as [[-> _] | [-> _]]; reflexivity).
  repeat first [apply all_tok_app | apply (digits_all_tok _ _ _ Hh) | apply (digits_all_tok _ _ _ Hm) | exact As | reflexivity].
Qed.

Lemma date_time_all_tok t d : date_time_tok t d -> all_tok t.
Proof.
  intros [(td & dl & tt & tz & dt & tm & o & -> & Hd & Hdl & Ht & Hz & _)
         | [(td & dl & tt & dt & tm & -> & Hd & Hdl & Ht & _)
           | [(dt & Hd & _) | (tm & Ht & _)]]].
  - apply all_tok_app; [apply (full_date_all_tok _ _ Hd)|]. apply all_tok_app; [apply all_tok_cons; [apply time_delim_tokb, Hdl|reflexivity]|].
    apply all_tok_app; [apply (partial_time_all_tok _ _ Ht)|apply (time_offset_all_tok _ _ Hz)].
  - apply all_tok_app; [apply (full_date_all_tok _ _ Hd)|]. apply all_tok_app; [apply all_tok_cons; [apply time_delim_tokb, Hdl|reflexivity]|].
    apply (partial_time_all_tok _ _ Ht).
  - apply (full_date_all_tok _ _ Hd).
  - apply (partial_time_all_tok _ _ Ht).
Qed.

(* ---- scalars ------------------------------------------------------------------------------------------- *)
Lemma scalar_val t a : scalar_text t a -> val_tok t a.
Proof.
  intros [t0 s H|t0 b H|t0 d H|t0 f H|t0 z H];
    [apply v_string|apply v_boolean|apply v_date_time|apply v_float|apply v_integer]; exact H.
Qed.

Lemma qt_tok t a : val_tok t a -> all_tok t -> qt CS anyf t.
Proof.
  intros Hv Ht. destruct (val_tok_head t a Hv) as (b & t' & -> & Hb).
  destruct (vhead_facts b Hb) as (Hw & _). apply qt_plain; [apply all_tok_plain, Ht|].
  apply tokb_blank; [unfold all_tok in Ht; cbn [forallb] in Ht; apply andb_true_iff in Ht as [Ht _]; exact Ht|].
  intros ->. discriminate Hw.
Qed.

Lemma til_tok t a : val_tok t a -> all_tok t -> til CS anyf t t.
Proof. intros Hv Ht. apply qt_til, (qt_tok t a Hv Ht). Qed.

Theorem qt_scalar t a : scalar_text t a -> qt CS qstop t.
Proof.
  intro H. pose proof (scalar_val t a H) as Hv.
  destruct H as [t0 s H|t0 b H|t0 d H|t0 f H|t0 z H].
  - apply (qt_string t0 s H).
  - apply qt_any, (qt_tok _ _ Hv), (boolean_all_tok _ _ H).
  - apply qt_any, (qt_tok _ _ Hv), (date_time_all_tok _ _ H).
  - apply qt_any, (qt_tok _ _ Hv), (float_all_tok _ _ H).
  - apply qt_any, (qt_tok _ _ Hv), (integer_all_tok _ _ H).
Qed.

Theorem til_scalar t a : scalar_text t a -> til CS qstop t t.
Proof. intro H. apply qt_til, (qt_scalar t a H). Qed.

(* ---- keys ------------------------------------------------------------------------------------------------ *)
Lemma qt_simple_key t k : simple_key_tok t k -> qt CS qstop t.
Proof.
  intros [H | [H | [[Hne Ha] _]]].
  - apply (qt_basic_string t k H).
  - apply (qt_literal_string t k H).
  - destruct t as [|b t]; [congruence|]. apply qt_any.
    assert (At : all_tok (b :: t)) by (apply (all_class unquoted_key_char); [intros c Hc; apply unquoted_tokb, Hc|exact Ha]).
    apply qt_plain; [apply all_tok_plain, At|].
    unfold all in Ha. cbn [forallb] in Ha. apply andb_true_iff in Ha as [Hb _].
    destruct (unquoted_tokb b Hb) as [H1 H2]. apply tokb_blank; assumption.
Qed.

Lemma til_simple_key t k : simple_key_tok t k -> til CS qstop t t.
Proof. intro H. apply qt_til, (qt_simple_key t k H). Qed.

Lemma qt_key k p : key_tok k p -> qt CS qstop k.
Proof.
  induction 1 as [t k H|t k w1 w2 u ks H Hw1 Hw2 _ IH]; [apply (qt_simple_key t k H)|].
  apply (qt_app CS CS qstop qstop); [apply (qt_simple_key t k H)| |intros r Hr; qs].
  apply (qt_app_any CB CS); [apply qt_ws, Hw1|].
  apply (qt_app_any CS CS); [apply qt_byte; reflexivity|].
  apply (qt_app_any CB CS); [apply qt_ws, Hw2|exact IH].
Qed.

Lemma til_key k p : key_tok k p -> til CS qstop k k.
Proof. intro H. apply qt_til, (qt_key k p H). Qed.
