(* Proofs/PrintBackHKey.v — C03, class (c): the keys of a header.  Every key object that `key` builds
   prints as a simple key between blanks (`hkey`), so a path of such keys — whichever headers they
   came from — prints as the text of a key path; and if that text, between the brackets, is what
   stands in the source where a header was read, it is the text of that header. *)
From TV Require Import Base.Prelude Base.Utf8 Base.Winnow Gen.Consts Spec.Abnf Spec.Lex Spec.Syntax.
From TV Require Import Model.Trivia Model.Strings Model.Datetime Model.Numbers Model.Tree Model.Parse Model.Document Model.Write Model.Encode.
From TV Require Import Proofs.LexEquivBase Proofs.LexEquivTrivia Proofs.LexEquivStrings Proofs.GrammarSep Proofs.LexEquivKey
                       Proofs.GrammarValueSound Proofs.TilingDefs Proofs.PrintBackBase Proofs.PrintBackEnc Proofs.PrintBackKey
                       Proofs.PrintBackSort Proofs.PrintBackEnts.
Require Import Lia ZifyBool ZifyN ZifyNat.

Definition blankraw (s : bytes) (o : option raw) : Prop :=
  match toraw s o with
  | None => True
  | Some REmpty => True
  | Some (RExplicit w) => ws_tok w
  | Some (RSpanned _ _) => False
  end.

Definition hkey (s : bytes) (k : key) : Prop :=
  (exists t, repr_str (toraw s (k_repr k)) = Some t /\ simple_key_tok t (k_key k))
  /\ blankraw s (d_prefix (k_leaf k)) /\ blankraw s (d_suffix (k_leaf k))
  /\ blankraw s (d_prefix (k_dotted k)) /\ blankraw s (d_suffix (k_dotted k)).

Lemma blank_empty s : blankraw s (Some REmpty).
Proof. exact I. Qed.
Lemma blank_none s : blankraw s None.
Proof. exact I. Qed.

Lemma span_blank s i w i' : isrc s i -> splits i w i' -> ws_tok w -> blankraw s (Some (raw_with_span (pos i, pos i'))).
Proof.
  intros Hi S Hw. unfold blankraw, raw_with_span. cbn [fst snd toraw]. destruct (pos i =? pos i')%N; [exact I|]. cbn [traw].
  destruct (isrc_splits s i w i' Hi S) as [_ ->]. unfold raw_of_bytes. destruct w; [exact I|exact Hw].
Qed.

Lemma key_part_hkey s i a i1 : isrc s i -> key_part i = Ok a i1 -> hkey s a /\ isrc s i1.
Proof.
  unfold key_part. intros Hi H.
  apply bind_inv in H as (pre & j1 & H1 & H). pose proof H1 as H1'. apply span_inv in H1 as (w0 & H1 & Epre).
  apply ws_sound in H1 as (Hw0 & S1 & _).
  apply bind_inv in H as ([rw k] & j2 & H2 & H). apply simple_key_sound in H2 as (t & Ht & S2 & Erw).
  apply bind_inv in H as (suf & j3 & H3 & H). apply span_inv in H3 as (w & H3 & Esuf).
  apply ws_sound in H3 as (Hw & S3 & _). apply ret_inv in H as [-> ->].
  destruct (isrc_splits s i w0 j1 Hi S1) as [Hi1 _]. destruct (isrc_splits s j1 t j2 Hi1 S2) as [Hi2 _].
  destruct (isrc_splits s j2 w j3 Hi2 S3) as [Hi3 _]. split; [|exact Hi3].
  unfold hkey. cbn [k_key k_repr k_leaf k_dotted decor_default decor_new d_prefix d_suffix].
  split; [exists t; split; [subst rw; apply (span_repr s j1 t j2 Hi1 S2)|exact Ht]|].
  split; [exact I|]. split; [exact I|]. subst pre suf. split; [apply (span_blank s i w0 j1 Hi S1 Hw0)|apply (span_blank s j2 w j3 Hi2 S3 Hw)].
Qed.

Lemma key_seps_hkey s i l i' : isrc s i -> seps key_part dot_sep i l i' -> Forall (hkey s) l.
Proof.
  intros Hi R. induction R as [i F|i x i1 E Hlt F|i x i1 a i2 l i3 E Hlt E2 Hle R IH]; [constructor|constructor|].
  apply byte_inv in E as [_ S1]. destruct (isrc_splits s i [x2e] i1 Hi S1) as [Hi1 _].
  destruct (key_part_hkey s i1 a i2 Hi1 E2) as [Hk Hi2]. constructor; [exact Hk|apply IH, Hi2].
Qed.

Lemma fix_key_path_hkey s path p : Forall (hkey s) path -> fix_key_path path = Some p -> Forall (hkey s) p.
Proof.
  intros HF Hf. unfold fix_key_path in Hf. destruct path as [|first tl]; [discriminate|]. inversion HF as [|? ? Hfirst Htl]; subst.
  set (first' := match d_prefix (k_dotted first) with Some _ => set_dotted_prefix first REmpty | None => first end) in *.
  set (leaf_pre := match d_prefix (k_dotted first) with Some p => p | None => REmpty end) in *.
  assert (Hf' : hkey s first').
  { unfold first'. destruct (d_prefix (k_dotted first)); [|exact Hfirst]. destruct Hfirst as (H1 & H2 & H3 & H4 & H5).
    unfold hkey. cbn [set_dotted_prefix k_key k_repr k_leaf k_dotted d_prefix d_suffix]. repeat split; try assumption. }
  assert (Hlp : blankraw s (Some leaf_pre)).
  { unfold leaf_pre. destruct Hfirst as (_ & _ & _ & H4 & _). destruct (d_prefix (k_dotted first)); [exact H4|exact I]. }
  assert (HF' : Forall (hkey s) (rev (first' :: tl))) by (apply Forall_rev; constructor; assumption).
  destruct (rev (first' :: tl)) as [|last rinit]; [discriminate|]. injection Hf as <-. inversion HF' as [|? ? Hlast Hinit]; subst.
  cbn [rev]. apply Forall_app. split; [apply Forall_rev, Hinit|]. constructor; [|constructor].
  destruct Hlast as (H1 & H2 & H3 & H4 & H5).
  assert (Hls : blankraw s (Some (match d_suffix (k_dotted last) with Some p => p | None => REmpty end)))
    by (destruct (d_suffix (k_dotted last)); [exact H5|exact I]).
  destruct (d_suffix (k_dotted last)) eqn:Es; unfold hkey;
    cbn [set_leaf set_dotted_suffix k_key k_repr k_leaf k_dotted decor_new d_prefix d_suffix]; repeat split; try assumption.
  rewrite Es. exact I.
Qed.

Theorem key_hkeys s i kp i' : isrc s i -> key_ i = Ok kp i' -> Forall (hkey s) kp.
Proof.
  intros Hi H. rewrite key_unfold in H. apply bind_inv in H as (path & j & H1 & H).
  apply try_map_inv in H1 as (path0 & H1 & Hc). unfold key_check in Hc.
  destruct (check_depth (length path0)); [discriminate|]. injection Hc as ->.
  apply context_inv in H1. apply (separated1_inv _ _ _ _ _ key_part_shrinking dot_sep_shrinking) in H1 as (a & i1 & l & -> & Ea & R).
  destruct (fix_key_path (a :: l)) as [p|] eqn:Ef; [|discriminate]. apply ret_inv in H as [-> ->].
  destruct (key_part_hkey s i a i1 Hi Ea) as [Ha Hi1]. apply (fix_key_path_hkey s (a :: l) _); [|exact Ef].
  constructor; [exact Ha|apply (key_seps_hkey s i1 l j Hi1 R)].
Qed.

(* ---- what a blank decor prints -------------------------------------------------------------------------------- *)
Lemma blank_encode s o dflt : blankraw s o -> ws_tok dflt ->
  ws_tok (match toraw s o with Some r => raw_encode r dflt | None => dflt end).
Proof.
  unfold blankraw. destruct (toraw s o) as [[|w|a b]|]; intros H Hd; try exact Hd; try reflexivity; [|destruct H].
  unfold raw_encode. change (strip_cr w) with (ncr w). rewrite (ncr_ws w H). exact H.
Qed.

Lemma blank_raw_blank s o : blankraw s o -> raw_blank (toraw s o) = true.
Proof.
  unfold blankraw, raw_blank. destruct (toraw s o) as [[|w|a b]|]; intro H; try reflexivity. unfold ws_tok, all in H.
  rewrite forallb_forall in *. intros b Hb. specialize (H b Hb). revert H. cls. lia.
Qed.

Lemma ws_nil : ws_tok [].
Proof. reflexivity. Qed.

Lemma loop_cons leaf d first k tl :
  encode_key_path_loop leaf d first (k :: tl)
  = (if first then decor_prefix leaf (fst d) else [x2e] ++ decor_prefix (k_dotted k) (fst DEFAULT_KEY_PATH_DECOR))
    ++ key_display_repr k
    ++ (if match tl with [] => true | _ => false end then decor_suffix leaf (snd d) else decor_suffix (k_dotted k) (snd DEFAULT_KEY_PATH_DECOR))
    ++ encode_key_path_loop leaf d false tl.
Proof. reflexivity. Qed.

(* the loop of encode_key_path over keys read from headers *)
Lemma loop_shape s leaf : blankraw s (d_prefix leaf) -> blankraw s (d_suffix leaf) ->
  forall ks first, Forall (hkey s) ks -> ks <> [] ->
  exists w1 t w2, ws_tok w1 /\ key_tok t (map k_key ks) /\ ws_tok w2
    /\ encode_key_path_loop (tdecor s leaf) DEFAULT_KEY_PATH_DECOR first (map (tkey s) ks)
       = (if first then [] else [x2e]) ++ w1 ++ t ++ w2.
Proof.
  intros Hlp Hls. induction ks as [|k ks IH]; intros first HF Hne; [congruence|]. inversion HF as [|? ? Hk HF']; subst.
  destruct Hk as ((t & Hr & Ht) & _ & _ & Hdp & Hds).
  assert (Hrepr : key_display_repr (tkey s k) = t) by (unfold key_display_repr; rewrite tkey_fields; cbn [k_repr]; rewrite Hr; reflexivity).
  assert (Hpre : exists w1, ws_tok w1 /\ (if first then decor_prefix (tdecor s leaf) (fst DEFAULT_KEY_PATH_DECOR)
              else [x2e] ++ decor_prefix (k_dotted (tkey s k)) (fst DEFAULT_KEY_PATH_DECOR)) = (if first then [] else [x2e]) ++ w1).
  { destruct first.
    - eexists. split; [|reflexivity]. unfold decor_prefix, tdecor. cbn [d_prefix]. apply (blank_encode s _ _ Hlp ws_nil).
    - eexists. split; [|reflexivity]. rewrite tkey_fields. unfold decor_prefix, tdecor. cbn [k_dotted d_prefix]. apply (blank_encode s _ _ Hdp ws_nil). }
  destruct Hpre as (w1 & Hw1 & Epre).
  destruct ks as [|k2 ks].
  - exists w1, t, (decor_suffix (tdecor s leaf) (snd DEFAULT_KEY_PATH_DECOR)). split; [exact Hw1|]. split; [apply key_one, Ht|].
    split; [unfold decor_suffix, tdecor; cbn [d_suffix]; apply (blank_encode s _ _ Hls ws_nil)|].
    cbn [map]. rewrite loop_cons. destruct first; cbv iota; rewrite Epre, Hrepr; cbn [encode_key_path_loop]; rewrite app_nil_r, <- !app_assoc; reflexivity.
  - destruct (IH false HF' ltac:(discriminate)) as (w1' & t' & w2' & Hw1' & Ht' & Hw2' & E').
    set (wa := decor_suffix (k_dotted (tkey s k)) (snd DEFAULT_KEY_PATH_DECOR)).
    assert (Hwa : ws_tok wa) by (unfold wa; rewrite tkey_fields; unfold decor_suffix, tdecor; cbn [k_dotted d_suffix]; apply (blank_encode s _ _ Hds ws_nil)).
    exists w1, (t ++ wa ++ [x2e] ++ w1' ++ t'), w2'. split; [exact Hw1|]. split; [apply key_dot; assumption|]. split; [exact Hw2'|].
    change (map (tkey s) (k :: k2 :: ks)) with (tkey s k :: map (tkey s) (k2 :: ks)).
    rewrite loop_cons, E'.
    assert (Hl : match map (tkey s) (k2 :: ks) with [] => true | _ => false end = false) by reflexivity. rewrite Hl.
    fold wa. destruct first; cbv iota; rewrite Epre, Hrepr; rewrite <- !app_assoc; reflexivity.
Qed.

Theorem hdr_shape s p a : Forall (hkey s) p -> p <> [] ->
  exists w1 t w2, ws_tok w1 /\ key_tok t (map k_key p) /\ ws_tok w2 /\ hdr_text s p a = hdr_open a ++ (w1 ++ t ++ w2) ++ hdr_close a.
Proof.
  intros HF Hne. destruct (exists_last Hne) as (init & last & ->).
  assert (Hlast : hkey s last) by (apply Forall_app in HF as [_ H]; inversion H; assumption).
  destruct Hlast as (_ & Hlp & Hls & _).
  assert (E0 : hdr_text s (init ++ [last]) a
               = hdr_open a ++ encode_key_path_loop (tdecor s (k_leaf last)) DEFAULT_KEY_PATH_DECOR true (map (tkey s) (init ++ [last])) ++ hdr_close a).
  { assert (Hb : raw_blank (d_prefix (k_leaf (tkey s last))) = true) by (apply (blank_raw_blank s _ Hlp)).
    unfold hdr_text, encode_key_comments, encode_header_key_path. rewrite (map_app (tkey s)), rev_app_distr. cbn [map rev app].
    rewrite Hb. reflexivity. }
  destruct (loop_shape s (k_leaf last) Hlp Hls (init ++ [last]) true HF Hne) as (w1 & t & w2 & Hw1 & Ht & Hw2 & E).
  exists w1, t, w2. split; [exact Hw1|]. split; [exact Ht|]. split; [exact Hw2|]. rewrite E0, E. reflexivity.
Qed.

(* ---- a header read at a position of the source ------------------------------------------------------------- *)
Definition hdr_at (s : bytes) (start : N) (a : bool) (Y : bytes) : Prop :=
  exists i j kp j' r, isrc s i /\ pos i = start /\ splits i (hdr_open a) j /\ key_ j = Ok kp j' /\ splits j Y j' /\ rest j' = hdr_close a ++ r.

Definition starts_with (h t : bytes) : bool := match strip_prefix h t with Some _ => true | None => false end.

Lemma isrc_skipn s i : isrc s i -> skipn (N.to_nat (pos i)) s = rest i.
Proof. intros (p & -> & Ep). rewrite Ep, Nnat.Nat2N.id. apply skipn_app_len. Qed.

Lemma app_same_length {A} (x y r1 r2 : list A) : x ++ r1 = y ++ r2 -> length x = length y -> x = y.
Proof.
  revert y. induction x as [|a x IH]; intros [|b y] H L; try discriminate; [reflexivity|]. cbn [app] in H. injection H as -> H.
  f_equal. apply (IH y H). cbn [length] in L. lia.
Qed.

Theorem hdr_unique s p a start Y : Forall (hkey s) p -> p <> [] -> hdr_at s start a Y ->
  starts_with (hdr_text s p a) (skipn (N.to_nat start) s) = true -> hdr_text s p a = hdr_open a ++ Y ++ hdr_close a.
Proof.
  intros HF Hne (i & j & kp & j' & r & Hi & Ep & So & Hk & SY & Rc) Hs.
  destruct (hdr_shape s p a HF Hne) as (w1 & t & w2 & Hw1 & Ht & Hw2 & E). rewrite E in *.
  unfold starts_with in Hs. destruct (strip_prefix _ _) as [r2|] eqn:Q; [|discriminate]. apply strip_prefix_spec in Q.
  rewrite <- Ep, (isrc_skipn s i Hi) in Q. destruct So as [Ro Ej]. rewrite Ro in Q. rewrite <- !app_assoc in Q. apply app_inv_head in Q.
  (* the key parser reads exactly w1 t w2 at j *)
  assert (Hstop : key_stop (hdr_close a ++ r2)) by (destruct a; eexists _, _; (split; [reflexivity|right; reflexivity])).
  destruct (key_raw_complete j w1 t _ w2 _ Hw1 Ht Hw2 Q Hstop) as (path & Epath & _).
  rewrite key_unfold in Hk. apply bind_inv in Hk as (path1 & j1 & H1 & H). apply try_map_inv in H1 as (path0 & H1 & _).
  rewrite Epath in H1. injection H1 as _ Ej1.
  assert (Ej' : j' = j1). { destruct (fix_key_path path1); [apply ret_inv in H as [_ <-]; reflexivity|discriminate]. }
  destruct SY as [RY EY]. rewrite Ej', <- Ej1 in EY.
  assert (L : length (w1 ++ t ++ w2) = length Y).
  { apply (f_equal pos) in EY. rewrite !pos_adv in EY. lia. }
  f_equal. f_equal. rewrite Q in RY.
  assert (RY' : (w1 ++ t ++ w2) ++ hdr_close a ++ r2 = Y ++ rest j') by (rewrite <- RY, <- !app_assoc; reflexivity).
  apply (app_same_length _ _ _ _ RY' L).
Qed.
