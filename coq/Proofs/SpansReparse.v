(* Proofs/SpansReparse.v — C14: the text at a span re-parses to the same item.
   Keys: `simple_key` run on exactly the text it consumed returns the same key (prefix-closedness of
   simple_key: token soundness + completeness, Proofs/LexEquivStrings.v, with an empty continuation).
   Values: `value` run on exactly the text it consumed returns a value with the same abstract data
   (value grammar soundness + completeness, Proofs/GrammarValue{Sound,Complete}.v) — for scalars, arrays
   and braces-delimited inline tables alike. *)
From TV Require Import Base.Prelude Base.Utf8 Base.Winnow Gen.Consts Spec.Abnf Spec.Lex Spec.Defs Spec.Syntax.
From TV Require Import Model.Trivia Model.Strings Model.Datetime Model.Numbers Model.Tree Model.Parse Model.Document.
From TV Require Import Proofs.Eoi Proofs.NoPanicBase Proofs.NoPanicLex Proofs.NoPanicValue.
From TV Require Import Proofs.LexEquivBase Proofs.LexEquivStrings.
From TV Require Import Proofs.GrammarBase Proofs.GrammarValueBase Proofs.GrammarValueSound Proofs.GrammarValueComplete.
From TV Require Import Proofs.SpansExact.
Require Import Lia ZifyBool ZifyN ZifyNat.

Lemma adv_all t : adv t (new_input t) = mkIn [] (N.of_nat (length t)) 0.
Proof.
  unfold adv, advance, new_input; cbn [rest pos depth].
  replace (skipn (length t) t) with (@nil byte).
  - f_equal.
  - symmetry. rewrite <- (app_nil_r t) at 2. apply skipn_app_exact.
Qed.

(* ---- keys -------------------------------------------------------------------------------------------------- *)
(* prefix-closedness: simple_key on exactly the text it consumed *)
Lemma simple_key_prefix_closed i rw k i' :
  simple_key i = Ok (rw, k) i' ->
  exists t, rest i = t ++ rest i' /\ pos i' = (pos i + N.of_nat (length t))%N
            /\ simple_key (new_input t) = Ok (raw_with_span (0, N.of_nat (length t))%N, k) (mkIn [] (N.of_nat (length t)) 0).
Proof.
  intro E. apply simple_key_sound in E as (t & Ht & [R A] & _). exists t. split; [exact R|]. split.
  - subst i'. unfold adv, advance; cbn [pos]. reflexivity.
  - pose proof (simple_key_complete (new_input t) t k [] Ht) as C. cbn [new_input rest pos] in C.
    rewrite app_nil_r in C. specialize (C eq_refl (fun _ => I)). rewrite C, adv_all. reflexivity.
Qed.

Theorem key_reparse_text i rw k i' :
  simple_key i = Ok (rw, k) i' ->
  exists t, rest i = t ++ rest i' /\ pos i' = (pos i + N.of_nat (length t))%N
            /\ parse_key t = POk (raw_with_span (0, N.of_nat (length t))%N, k).
Proof.
  intro E. apply simple_key_prefix_closed in E as (t & R & P & C). exists t. repeat split; auto.
  unfold parse_key. rewrite parse_all_eoi_unfold, C. reflexivity.
Qed.

(* with the cursor inside a source text s: the repr of the key is (a, b) and slicing s there re-parses to the key *)
Theorem key_reparse s i rw k i' :
  cursor_of s i -> simple_key i = Ok (rw, k) i' ->
  rw = RSpanned (pos i) (pos i') /\
  parse_key (slice s (pos i) (pos i')) = POk (raw_with_span (0, pos i' - pos i)%N, k).
Proof.
  intros C E. pose proof (simple_key_span_exact _ _ _ _ E) as (-> & _ & _).
  apply key_reparse_text in E as (t & R & P & K). split; [reflexivity|].
  destruct (cursor_slice s i i' t C R P) as [-> _]. rewrite K. repeat f_equal. lia.
Qed.

(* ---- values ------------------------------------------------------------------------------------------------ *)
Section AvalInd.
  Variable P : aval -> Prop.
  Hypothesis Hstr : forall s, P (AStr s).
  Hypothesis Hint : forall z, P (AInt z).
  Hypothesis Hfloat : forall f, P (AFloat f).
  Hypothesis Hbool : forall b, P (ABool b).
  Hypothesis Hdate : forall d, P (ADate d).
  Hypothesis Harr : forall l, Forall P l -> P (AArr l).
  Hypothesis Hinl : forall kvs, Forall (fun pv : list bytes * aval => P (snd pv)) kvs -> P (AInl kvs).
  Fixpoint aval_ind2 (a : aval) : P a :=
    match a with
    | AStr s => Hstr s | AInt z => Hint z | AFloat f => Hfloat f | ABool b => Hbool b | ADate d => Hdate d
    | AArr l => Harr l ((fix go (l : list aval) : Forall P l :=
                           match l with [] => Forall_nil _ | x :: r => Forall_cons x (aval_ind2 x) (go r) end) l)
    | AInl kvs => Hinl kvs ((fix go (l : list (list bytes * aval)) : Forall (fun pv => P (snd pv)) l :=
                               match l with [] => Forall_nil _ | x :: r => Forall_cons x (aval_ind2 (snd x)) (go r) end) kvs)
    end.
End AvalInd.

(* fewer enclosing containers: still within the limits *)
Lemma within_le a : forall d d', d' <= d -> within d a = true -> within d' a = true.
Proof.
  induction a as [s|z|f|b|dt|l IH|kvs IH] using aval_ind2; intros d d' Hle H; cbn [within] in *; auto.
  - apply andb_true_iff in H as [H1 H2]. apply andb_true_iff. split.
    + apply Nat.ltb_lt in H1. apply Nat.ltb_lt. lia.
    + rewrite forallb_forall in *. rewrite Forall_forall in IH. intros x Hx. apply (IH x Hx (S d) (S d')); [lia|]. apply H2, Hx.
  - apply andb_true_iff in H as [H1 H2]. apply andb_true_iff. split.
    + apply Nat.ltb_lt in H1. apply Nat.ltb_lt. lia.
    + rewrite forallb_forall in *. rewrite Forall_forall in IH. intros x Hx. specialize (H2 x Hx).
      apply andb_true_iff in H2 as [H3 H4]. apply andb_true_iff. split; [exact H3|].
      apply (IH x Hx (S d) (S d')); [lia|exact H4].
Qed.

Lemma vfollow_nil : vfollow [].
Proof. exists [], []. split; [reflexivity|]. split; [|exact I]. repeat constructor. Qed.

(* `value` on exactly the text it consumed returns a value denoting the same data *)
Theorem value_reparse_text i v i' :
  value_ i = Ok v i' ->
  exists t, rest i = t ++ rest i' /\ pos i' = (pos i + N.of_nat (length t))%N
            /\ exists v', parse_value_raw t = POk v' /\ absv v' = absv v.
Proof.
  intro E. apply value_sound in E as (t & a & Ht & [R A] & (Hd & Hok & Hwi & _)). exists t. split; [exact R|]. split.
  { subst i'. unfold adv, advance; cbn [pos]. reflexivity. }
  destruct (value_complete t a (new_input t) [] Ht) as (v' & C & (Hd' & _)).
  - cbn [new_input rest]. symmetry. apply app_nil_r.
  - apply vfollow_nil.
  - exact Hok.
  - cbn [new_input depth]. eapply within_le; [|exact Hwi]. lia.
  - exists v'. split; [|congruence]. unfold parse_value_raw. rewrite parse_all_eoi_unfold, C, adv_all. reflexivity.
Qed.

Theorem value_reparse s i v i' :
  cursor_of s i -> value_ i = Ok v i' ->
  value_span v = Some (pos i, pos i') /\
  exists v', parse_value_raw (slice s (pos i) (pos i')) = POk v' /\ absv v' = absv v.
Proof.
  intros C E. pose proof (value_exact _ _ _ E) as (S & _). split; [exact S|].
  apply value_reparse_text in E as (t & R & P & v' & K & D). destruct (cursor_slice s i i' t C R P) as [-> _]. eauto.
Qed.
