(* Proofs/NumbersRT_Widen.v — C11, f32 writer: the exact widening f64::from(f32) (Model/WriteFloat.v
   widen32, a function on bit patterns) keeps sign, NaN-ness and zero-ness, and is injective on
   non-NaN patterns — so the f32 that was written is determined by the f64 that is read back
   (narrowing an exactly representable value is exact). *)
From TV Require Import Base.Prelude Model.WriteFloat.
Require Import Lia ZifyBool ZifyN ZifyNat.
Ltac Zify.zify_post_hook ::= Z.div_mod_to_equations.

Local Open Scope N_scope.

Definition p23 : N := 8388608.
Definition p29 : N := 536870912.
Definition p31 : N := 2147483648.
Definition p52 : N := 4503599627370496.
Definition p63 : N := 9223372036854775808.

(* fields of an f64 pattern assembled from sign, exponent, mantissa *)
Lemma assemble_fields s e m :
  s < 2 -> e < 2048 -> m < p52 ->
  let B := s * p63 + e * p52 + m in
  B mod p52 = m /\ (B / p52) mod 2048 = e /\ (B / p63) mod 2 = s.
Proof. intros Hs He Hm. cbv zeta. unfold p52, p63 in *. repeat split; lia. Qed.

Definition ex64 (B : N) : N := (B / p52) mod 2048.
Definition mant64 (B : N) : N := B mod p52.
Definition ex32 (b : N) : N := (b / p23) mod 256.
Definition mant32 (b : N) : N := b mod p23.
Definition sign32 (b : N) : N := (b / p31) mod 2.

Lemma classify64_nan B : fc_nan (classify64 B) = (ex64 B =? 2047) && negb (mant64 B =? 0).
Proof. reflexivity. Qed.
Lemma classify64_zero B : fc_zero (classify64 B) = (ex64 B =? 0) && (mant64 B =? 0).
Proof. reflexivity. Qed.
Lemma classify64_neg B : fc_neg (classify64 B) = N.testbit B 63.
Proof. reflexivity. Qed.
Lemma classify32_nan b : fc_nan (classify32 b) = (ex32 b =? 255) && negb (mant32 b =? 0).
Proof. reflexivity. Qed.
Lemma classify32_zero b : fc_zero (classify32 b) = (ex32 b =? 0) && (mant32 b =? 0).
Proof. reflexivity. Qed.
Lemma classify32_neg b : fc_neg (classify32 b) = N.testbit b 31.
Proof. reflexivity. Qed.

Lemma testbit_div a n : N.testbit a n = ((a / 2 ^ n) mod 2 =? 1).
Proof. apply N.testbit_eqb. Qed.

(* the exponent and mantissa fields widen32 assembles *)
Definition wide_fields (b : N) : N * N :=
  if ex32 b =? 255 then (2047, mant32 b * p29)
  else if ex32 b =? 0 then
    if mant32 b =? 0 then (0, 0)
    else (N.log2 (mant32 b) + 874, (mant32 b - 2 ^ N.log2 (mant32 b)) * 2 ^ (52 - N.log2 (mant32 b)))
  else (ex32 b + 896, mant32 b * p29).

Lemma widen32_eq b :
  widen32 b = sign32 b * p63 + fst (wide_fields b) * p52 + snd (wide_fields b).
Proof.
  unfold widen32, wide_fields, ex32, mant32, sign32.
  change (2 ^ 23) with p23. change (2 ^ 8) with 256. change (2 ^ 31) with p31.
  change (2 ^ 29) with p29. change (2 ^ 52) with p52. change (2 ^ 63) with p63.
  destruct ((b / p23) mod 256 =? 255); [reflexivity|].
  destruct ((b / p23) mod 256 =? 0); [|reflexivity].
  destruct (b mod p23 =? 0); reflexivity.
Qed.

Lemma mant32_lt b : mant32 b < p23.
Proof. unfold mant32, p23. lia. Qed.
Lemma ex32_lt b : ex32 b < 256.
Proof. unfold ex32. lia. Qed.
Lemma sign32_lt b : sign32 b < 2.
Proof. unfold sign32. lia. Qed.

(* subnormal f32: the normalised mantissa fits 52 bits, the exponent is in 874..896 *)
Lemma subnormal_fields m : 0 < m -> m < p23 ->
  N.log2 m <= 22 /\ (m - 2 ^ N.log2 m) * 2 ^ (52 - N.log2 m) < p52.
Proof.
  intros H0 H1.
  destruct (N.log2_spec m H0) as [L1 L2].
  assert (Hk : N.log2 m < 23).
  { apply N.log2_lt_pow2; [exact H0 | exact H1]. }
  split; [lia|].
  set (k := N.log2 m) in *.
  assert (E : p52 = 2 ^ k * 2 ^ (52 - k)).
  { rewrite <- N.pow_add_r. replace (k + (52 - k)) with 52 by lia. reflexivity. }
  rewrite E. apply N.mul_lt_mono_pos_r.
  - apply N.neq_0_lt_0, N.pow_nonzero. discriminate.
  - rewrite N.pow_succ_r' in L2. lia.
Qed.

Lemma wide_fields_bounds b :
  fst (wide_fields b) < 2048 /\ snd (wide_fields b) < p52.
Proof.
  pose proof (mant32_lt b) as Hm. pose proof (ex32_lt b) as He.
  unfold wide_fields.
  destruct (ex32 b =? 255) eqn:E1; cbn [fst snd]; [unfold p23, p29, p52 in *; lia|].
  destruct (ex32 b =? 0) eqn:E2; cbn [fst snd]; [|unfold p23, p29, p52 in *; lia].
  destruct (mant32 b =? 0) eqn:E3; cbn [fst snd]; [unfold p52; lia|].
  destruct (subnormal_fields (mant32 b) ltac:(lia) Hm) as [K1 K2]. lia.
Qed.

Lemma widen32_fields b :
  mant64 (widen32 b) = snd (wide_fields b) /\ ex64 (widen32 b) = fst (wide_fields b) /\
  (widen32 b / p63) mod 2 = sign32 b.
Proof.
  rewrite widen32_eq. destruct (wide_fields_bounds b) as [B1 B2].
  apply (assemble_fields _ _ _ (sign32_lt b) B1 B2).
Qed.

Theorem widen32_nan b : fc_nan (classify64 (widen32 b)) = fc_nan (classify32 b).
Proof.
  rewrite classify64_nan, classify32_nan.
  destruct (widen32_fields b) as (-> & -> & _).
  pose proof (mant32_lt b) as Hm. pose proof (ex32_lt b) as He.
  unfold wide_fields.
  destruct (ex32 b =? 255) eqn:E1; cbn [fst snd]; [unfold p23, p29 in *; lia|].
  destruct (ex32 b =? 0) eqn:E2; cbn [fst snd]; [|lia].
  destruct (mant32 b =? 0) eqn:E3; cbn [fst snd]; [lia|].
  destruct (subnormal_fields (mant32 b) ltac:(lia) Hm) as [K1 K2]. lia.
Qed.

Theorem widen32_zero b : fc_zero (classify64 (widen32 b)) = fc_zero (classify32 b).
Proof.
  rewrite classify64_zero, classify32_zero.
  destruct (widen32_fields b) as (-> & -> & _).
  pose proof (mant32_lt b) as Hm. pose proof (ex32_lt b) as He.
  unfold wide_fields.
  destruct (ex32 b =? 255) eqn:E1; cbn [fst snd]; [lia|].
  destruct (ex32 b =? 0) eqn:E2; cbn [fst snd]; [|lia].
  destruct (mant32 b =? 0) eqn:E3; cbn [fst snd]; [lia|].
  destruct (subnormal_fields (mant32 b) ltac:(lia) Hm) as [K1 K2]. lia.
Qed.

Theorem widen32_neg b : fc_neg (classify64 (widen32 b)) = fc_neg (classify32 b).
Proof.
  rewrite classify64_neg, classify32_neg, !testbit_div.
  change (2 ^ 63) with p63. change (2 ^ 31) with p31.
  destruct (widen32_fields b) as (_ & _ & ->). reflexivity.
Qed.

(* ---- injectivity: the f64 read back determines the f32 that was written ------------------------------ *)
Definition p32 : N := 4294967296.

Lemma decompose32 b : b < p32 -> b = sign32 b * p31 + ex32 b * p23 + mant32 b.
Proof. unfold p32, sign32, ex32, mant32, p31, p23. lia. Qed.

Lemma wide_fields_inj a b :
  fc_nan (classify32 a) = false -> fc_nan (classify32 b) = false ->
  wide_fields a = wide_fields b -> ex32 a = ex32 b /\ mant32 a = mant32 b.
Proof.
  rewrite !classify32_nan. intros Na Nb.
  pose proof (mant32_lt a) as Hma. pose proof (ex32_lt a) as Hea.
  pose proof (mant32_lt b) as Hmb. pose proof (ex32_lt b) as Heb.
  unfold wide_fields.
  destruct (ex32 a =? 255) eqn:A1; destruct (ex32 b =? 255) eqn:B1.
  - intros _. lia.
  - destruct (ex32 b =? 0) eqn:B2; [destruct (mant32 b =? 0) eqn:B3|]; intro H; apply pair_equal_spec in H; destruct H as [H1 H2];
      try lia.
    destruct (subnormal_fields (mant32 b) ltac:(lia) Hmb) as [K1 K2]. lia.
  - destruct (ex32 a =? 0) eqn:A2; [destruct (mant32 a =? 0) eqn:A3|]; intro H; apply pair_equal_spec in H; destruct H as [H1 H2];
      try lia.
    destruct (subnormal_fields (mant32 a) ltac:(lia) Hma) as [K1 K2]. lia.
  - destruct (ex32 a =? 0) eqn:A2; destruct (ex32 b =? 0) eqn:B2.
    + destruct (mant32 a =? 0) eqn:A3; destruct (mant32 b =? 0) eqn:B3; intro H; apply pair_equal_spec in H; destruct H as [H1 H2].
      * lia.
      * lia.
      * lia.
      * (* both subnormal *)
        assert (Hk : N.log2 (mant32 a) = N.log2 (mant32 b)) by lia.
        rewrite Hk in H2.
        destruct (N.log2_spec (mant32 a) ltac:(lia)) as [La _].
        destruct (N.log2_spec (mant32 b) ltac:(lia)) as [Lb _].
        rewrite Hk in La.
        apply N.mul_cancel_r in H2; [lia|]. apply N.pow_nonzero. discriminate.
    + destruct (mant32 a =? 0) eqn:A3; intro H; apply pair_equal_spec in H; destruct H as [H1 H2]; [lia|].
      destruct (subnormal_fields (mant32 a) ltac:(lia) Hma) as [K1 K2]. lia.
    + destruct (mant32 b =? 0) eqn:B3; intro H; apply pair_equal_spec in H; destruct H as [H1 H2]; [lia|].
      destruct (subnormal_fields (mant32 b) ltac:(lia) Hmb) as [K1 K2]. lia.
    + intro H; apply pair_equal_spec in H; destruct H as [H1 H2]. unfold p29 in *. lia.
Qed.

Theorem widen32_inj a b :
  a < p32 -> b < p32 ->
  fc_nan (classify32 a) = false -> fc_nan (classify32 b) = false ->
  widen32 a = widen32 b -> a = b.
Proof.
  intros Ha Hb Na Nb E.
  destruct (widen32_fields a) as (Ma & Ea & Sa). destruct (widen32_fields b) as (Mb & Eb & Sb).
  rewrite E in Ma, Ea, Sa.
  assert (W : wide_fields a = wide_fields b).
  { destruct (wide_fields a), (wide_fields b). cbn [fst snd] in *. congruence. }
  destruct (wide_fields_inj a b Na Nb W) as [X1 X2].
  rewrite (decompose32 a Ha), (decompose32 b Hb). congruence.
Qed.

(* for a finite non-zero f32 the writer is the f64 writer on the widened value *)
Lemma write_f32_finite b text :
  fc_nan (classify32 b) = false -> fc_zero (classify32 b) = false ->
  write_f32 b text = write_f64 (widen32 b) text.
Proof.
  intros Hn Hz. unfold write_f32. rewrite Hn, Hz. destruct (fc_neg (classify32 b)); reflexivity.
Qed.

(* the NaN and zero arms are those of write_float *)
Lemma write_f32_special b text :
  fc_nan (classify32 b) = true \/ fc_zero (classify32 b) = true ->
  write_f32 b text = write_float (classify32 b) text.
Proof.
  intro H. unfold write_f32, write_float.
  destruct (fc_neg (classify32 b)), (fc_nan (classify32 b)), (fc_zero (classify32 b)); try reflexivity;
    destruct H; discriminate.
Qed.

(* ---- the f32 round trip follows from the f64 one ----------------------------------------------------- *)
From TV Require Import Base.Winnow Model.Numbers Model.Tree Model.Parse Model.Document.
From TV Require Import Proofs.NumbersRT_Lex Proofs.NumbersRT_Int Proofs.NumbersRT_Float.

Theorem f32_roundtrip_from_f64 (is_inf : N -> bool) (shortest : N -> bytes) (back : fval -> N) :
  std_roundtrip_hyp classify64 is_inf shortest back ->
  forall b, fc_nan (classify32 b) = false -> fc_zero (classify32 b) = false -> is_inf (widen32 b) = false ->
    exists f r d,
      float (new_input (write_f32 b (shortest (widen32 b))))
      = Ok f (end_input (write_f32 b (shortest (widen32 b)))) /\
      parse_value_raw (write_f32 b (shortest (widen32 b))) = POk (VScalar (SFloat f) r d) /\
      back f = widen32 b.
Proof.
  intros H b Hn Hz Hi.
  rewrite (write_f32_finite b _ Hn Hz). unfold write_f64.
  apply (writer_roundtrip_finite classify64 is_inf shortest back H (widen32 b)).
  - rewrite widen32_nan. exact Hn.
  - rewrite widen32_zero. exact Hz.
  - exact Hi.
Qed.
