(* Proofs/MacroSem.v — C19, the semantic half: on every VALID document the helper functions of
   macros.rs (`insert_toml`, `insert_table_toml`, `push_toml`, all through `traverse`) build, statement
   by statement, exactly the table the TOML definition rules (Spec/Defs.v, via MacroSpec.ref_step)
   give.  No tokens here: `helper_step` is what one expansion step of `toml_internal!(@toplevel ...)`
   does to the root value once keys and value are known (Proofs/MacroStmt.v connects it to the tokens). *)
From TV Require Import Base.Prelude Base.Utf8 Model.Datetime Model.Numbers Model.Macro Spec.Defs Spec.MacroSpec.

(* ---- association lists against ordered trees ---- *)
Lemma mget_erase : forall (t : stree mval) k, mget k (erase_tree t) = optmap erase_node (sget t k).
Proof.
  unfold erase_tree.
  induction t as [|[k' n] t IH]; intro k; cbn [sget List.map fst snd mget]; [reflexivity|].
  destruct (bytes_eqb k' k); [reflexivity|apply IH].
Qed.

Lemma erase_tree_app : forall (a b : stree mval), erase_tree (a ++ b) = erase_tree a ++ erase_tree b.
Proof. intros; unfold erase_tree; apply map_app. Qed.

Lemma mput_absent : forall (t : stree mval) k n, sget t k = None ->
  mput k (erase_node n) (erase_tree t) = erase_tree (spush t k n).
Proof.
  unfold erase_tree, spush.
  induction t as [|[k' n'] t IH]; intros k n H; cbn [sget List.map fst snd mput app] in *; [reflexivity|].
  destruct (bytes_eqb k' k); [discriminate|]. f_equal. apply IH; assumption.
Qed.

Lemma mput_present : forall (t : stree mval) k n n0, sget t k = Some n0 ->
  mput k (erase_node n) (erase_tree t) = erase_tree (sset t k n).
Proof.
  unfold erase_tree.
  induction t as [|[k' n'] t IH]; intros k n n0 H; cbn [sget sset List.map fst snd mput] in *; [discriminate|].
  destruct (bytes_eqb k' k); [reflexivity|]. cbn [List.map fst snd]. f_equal. eapply IH; eassumption.
Qed.

Lemma erase_tab : forall kd (c : stree mval), erase_node (NTab kd c) = MTab (erase_tree c).
Proof. reflexivity. Qed.
Lemma erase_aot : forall (es : list (stree mval)),
  erase_node (NAot es) = MArr (List.map (fun e => MTab (erase_tree e)) es).
Proof. reflexivity. Qed.

Lemma mput_tab_present : forall (t : stree mval) k kd c n0, sget t k = Some n0 ->
  mput k (MTab (erase_tree c)) (erase_tree t) = erase_tree (sset t k (NTab kd c)).
Proof. intros t k kd c n0 H. exact (mput_present t k (NTab kd c) n0 H). Qed.
Lemma mput_tab_absent : forall (t : stree mval) k kd c, sget t k = None ->
  mput k (MTab (erase_tree c)) (erase_tree t) = erase_tree (spush t k (NTab kd c)).
Proof. intros t k kd c H. exact (mput_absent t k (NTab kd c) H). Qed.
Lemma mput_aot_present : forall (t : stree mval) k es n0, sget t k = Some n0 ->
  mput k (MArr (List.map (fun e => MTab (erase_tree e)) es)) (erase_tree t) = erase_tree (sset t k (NAot es)).
Proof. intros t k es n0 H. exact (mput_present t k (NAot es) n0 H). Qed.
Lemma mput_aot_absent : forall (t : stree mval) k es, sget t k = None ->
  mput k (MArr (List.map (fun e => MTab (erase_tree e)) es)) (erase_tree t) = erase_tree (spush t k (NAot es)).
Proof. intros t k es H. exact (mput_absent t k (NAot es) H). Qed.
Lemma mput_val_absent : forall (t : stree mval) k v, sget t k = None ->
  mput k v (erase_tree t) = erase_tree (spush t k (NVal v)).
Proof. intros t k v H. exact (mput_absent t k (NVal v) H). Qed.

(* ---- slot_update, one key at a time ---- *)
Lemma slot_update_tab : forall k p f l,
  slot_update (k :: p) f (MTab l) =
  match slot_update p f (match mget k l with Some c => c | None => MTab [] end) with
  | Some c' => Some (MTab (mput k c' l))
  | None => None
  end.
Proof. reflexivity. Qed.

Lemma slot_update_arr_snoc : forall k p f before l,
  slot_update (k :: p) f (MArr (before ++ [MTab l])) =
  match slot_update (k :: p) f (MTab l) with
  | Some v' => Some (MArr (before ++ [v']))
  | None => None
  end.
Proof.
  intros. cbn [slot_update]. rewrite rev_app_distr. cbn [rev app]. rewrite rev_involutive. reflexivity.
Qed.

Lemma unsnoc_spec : forall {A} (p pre : list A) k, unsnoc p = Some (pre, k) -> p = pre ++ [k].
Proof.
  intros A p pre k H. unfold unsnoc in H. destruct (rev p) as [|l r] eqn:E; [discriminate|].
  injection H as H1 H2; subst. rewrite <- (rev_involutive p), E. reflexivity.
Qed.

Lemma rev_cons_snoc : forall {A} (l : list A) x r, rev l = x :: r -> l = rev r ++ [x].
Proof. intros A l x r H. rewrite <- (rev_involutive l), H. reflexivity. Qed.

(* ---- at_path is traverse ---- *)
(* `q` is what remains of the macro's path below the table that at_path addresses; it is never empty
   (a key always follows), which is what makes "an array stands for its last element" agree *)
Lemma at_path_slot : forall p (g : stree mval -> res (stree mval)) q f,
  q <> [] ->
  (forall c c', g c = ROk c' -> slot_update q f (MTab (erase_tree c)) = Some (MTab (erase_tree c'))) ->
  forall t t', at_path p g t = ROk t' ->
  slot_update (p ++ q) f (MTab (erase_tree t)) = Some (MTab (erase_tree t')).
Proof.
  induction p as [|k p IH]; intros g q f Hq Hg t t' H.
  - simpl in *. apply Hg; assumption.
  - cbn [at_path] in H. cbn [app]. rewrite slot_update_tab, mget_erase.
    destruct (sget t k) as [[v|kd c|es]|] eqn:E; cbn [optmap].
    + discriminate.
    + rewrite erase_tab.
      destruct (at_path p g c) as [c'| |] eqn:E2; cbn [rbind] in H; try discriminate.
      injection H as <-. rewrite (IH g q f Hq Hg c c' E2).
      rewrite (mput_tab_present t k kd c' _ E). reflexivity.
    + destruct (rev es) as [|e before] eqn:E3; [discriminate|].
      destruct (at_path p g e) as [e'| |] eqn:E2; cbn [rbind] in H; try discriminate.
      injection H as <-. apply rev_cons_snoc in E3. subst es.
      rewrite erase_aot, map_app. cbn [List.map].
      destruct (p ++ q) as [|k2 pq] eqn:Epq.
      { apply app_eq_nil in Epq as [_ Hq']. contradiction. }
      rewrite slot_update_arr_snoc. rewrite <- Epq. rewrite (IH g q f Hq Hg e e' E2).
      rewrite <- (mput_aot_present t k (rev before ++ [e']) _ E). rewrite map_app. reflexivity.
    + destruct (at_path p g []) as [c'| |] eqn:E2; cbn [rbind] in H; try discriminate.
      injection H as <-. change (MTab []) with (MTab (erase_tree [])). rewrite (IH g q f Hq Hg [] c' E2).
      rewrite (mput_tab_absent t k KSuper c' E). reflexivity.
Qed.

(* ---- the three operations at the end of the path ---- *)
Lemma insert_kv_cons2 : forall strict k k2 p2 (v : mval) t,
  insert_kv strict (k :: k2 :: p2) v t =
  match sget t k with
  | None => c <~ insert_kv strict (k2 :: p2) v [] ;; ROk (spush t k (NTab KDotted c))
  | Some (NTab KDotted c) => c' <~ insert_kv strict (k2 :: p2) v c ;; ROk (sset t k (NTab KDotted c'))
  | Some (NTab KSuper c) =>
    if strict then RUndecided
    else match p2 with
         | [] => RInvalid
         | _ => c' <~ insert_kv strict (k2 :: p2) v c ;; ROk (sset t k (NTab KSuper c'))
         end
  | Some _ => RInvalid
  end.
Proof. reflexivity. Qed.

Lemma insert_kv_slot : forall p (v : mval) c c', insert_kv true p v c = ROk c' ->
  slot_update p (fun _ => v) (MTab (erase_tree c)) = Some (MTab (erase_tree c')).
Proof.
  induction p as [|k p IH]; intros v c c' H; [discriminate|].
  rewrite slot_update_tab, mget_erase.
  destruct p as [|k2 p2].
  - cbn [insert_kv] in H. destruct (sget c k) eqn:E; [discriminate|]. injection H as <-.
    cbn [optmap slot_update]. rewrite (mput_val_absent c k v E). reflexivity.
  - rewrite insert_kv_cons2 in H.
    destruct (sget c k) as [[v0|[| |] c0|es]|] eqn:E; cbn [optmap]; try discriminate.
    + destruct (insert_kv true (k2 :: p2) v c0) as [c1| |] eqn:E2; cbn [rbind] in H; try discriminate.
      injection H as <-. rewrite erase_tab, (IH v c0 c1 E2).
      rewrite (mput_tab_present c k KDotted c1 _ E). reflexivity.
    + destruct (insert_kv true (k2 :: p2) v []) as [c1| |] eqn:E2; cbn [rbind] in H; try discriminate.
      injection H as <-. change (MTab []) with (MTab (erase_tree [])). rewrite (IH v [] c1 E2).
      rewrite (mput_tab_absent c k KDotted c1 E). reflexivity.
Qed.

Lemma def_table_slot : forall k (c c' : stree mval), def_table_here k c = ROk c' ->
  slot_update [k] (fun t => if is_table t then t else MTab []) (MTab (erase_tree c)) = Some (MTab (erase_tree c')).
Proof.
  intros k c c' H. unfold def_table_here in H. rewrite slot_update_tab, mget_erase.
  destruct (sget c k) as [[v0|[| |] c0|es]|] eqn:E; cbn [optmap]; try discriminate; injection H as <-.
  - cbn [slot_update]. rewrite erase_tab. cbn [is_table].
    rewrite (mput_tab_present c k KHeader c0 _ E). reflexivity.
  - cbn [slot_update is_table]. change (MTab []) with (MTab (erase_tree [])).
    rewrite (mput_tab_absent c k KHeader [] E). reflexivity.
Qed.

Lemma def_elem_slot : forall k (c c' : stree mval), def_elem k c = ROk c' ->
  slot_update [k] (fun t => MArr ((match t with MArr l => l | _ => [] end) ++ [MTab []])) (MTab (erase_tree c))
  = Some (MTab (erase_tree c')).
Proof.
  intros k c c' H. unfold def_elem in H. rewrite slot_update_tab, mget_erase.
  destruct (sget c k) as [[v0|kd c0|es]|] eqn:E; cbn [optmap]; try discriminate; injection H as <-.
  - cbn [slot_update]. rewrite erase_aot.
    rewrite <- (mput_aot_present c k (es ++ [[]]) _ E). rewrite map_app. reflexivity.
  - cbn [slot_update app].
    rewrite <- (mput_aot_absent c k [[]] E). reflexivity.
Qed.

(* ---- one statement ---- *)
(* what one step of @toplevel does to (root, [$($path)*]) once the key strings and the value are known *)
Definition helper_step (root : mval) (cur : list bytes) (st : stmt mval) : option (mval * list bytes) :=
  match st with
  | SKeyVal p v => optmap (fun r => (r, cur)) (insert_toml root (cur ++ p) v)
  | SHeader p => optmap (fun r => (r, p)) (insert_table_toml root p)
  | SArrHeader p => optmap (fun r => (r, p)) (push_toml root p)
  end.

Lemma insert_kv_nonempty : forall strict p (v : mval) c c', insert_kv strict p v c = ROk c' -> p <> [].
Proof. intros strict [|k p] v c c' H; [discriminate|discriminate]. Qed.

Theorem helper_step_ref : forall t cur st t' cur',
  ref_step (t, cur) st = ROk (t', cur') ->
  helper_step (MTab (erase_tree t)) cur st = Some (MTab (erase_tree t'), cur').
Proof.
  intros t cur [p|p|p v] t' cur' H; cbn [ref_step helper_step] in *.
  - destruct (unsnoc p) as [[pre k]|] eqn:U; [|discriminate]. apply unsnoc_spec in U. subst p.
    destruct (at_path pre (def_table_here k) t) as [t1| |] eqn:E; cbn [rbind] in H; try discriminate.
    injection H as <- <-. unfold insert_table_toml.
    rewrite (at_path_slot pre (def_table_here k) [k] _ ltac:(discriminate) (def_table_slot k) t t1 E). reflexivity.
  - destruct (unsnoc p) as [[pre k]|] eqn:U; [|discriminate]. apply unsnoc_spec in U. subst p.
    destruct (at_path pre (def_elem k) t) as [t1| |] eqn:E; cbn [rbind] in H; try discriminate.
    injection H as <- <-. unfold push_toml.
    rewrite (at_path_slot pre (def_elem k) [k] _ ltac:(discriminate) (def_elem_slot k) t t1 E). reflexivity.
  - destruct (at_path cur (insert_kv true p v) t) as [t1| |] eqn:E; cbn [rbind] in H; try discriminate.
    injection H as <- <-. unfold insert_toml.
    assert (Hp : p <> []).
    { destruct p; [|discriminate]. exfalso. clear -E.
      revert t t1 E. induction cur as [|k cur IH]; intros t t1 E; [discriminate|].
      cbn [at_path] in E. destruct (sget t k) as [[v0|kd c|es]|].
      - discriminate.
      - destruct (at_path cur (insert_kv true [] v) c) eqn:E2; cbn [rbind] in E; try discriminate. eapply IH; eassumption.
      - destruct (rev es) as [|e0 before]; [discriminate|].
        destruct (at_path cur (insert_kv true [] v) e0) eqn:E2; cbn [rbind] in E; try discriminate. eapply IH; eassumption.
      - destruct (at_path cur (insert_kv true [] v) []) eqn:E2; cbn [rbind] in E; try discriminate. eapply IH; eassumption. }
    rewrite (at_path_slot cur (insert_kv true p v) p _ Hp (insert_kv_slot p v) t t1 E). reflexivity.
Qed.

(* ---- whole documents, values given by their meaning ---- *)
Fixpoint helper_fold (root : mval) (cur : list bytes) (l : list astmt) : option mval :=
  match l with
  | [] => Some root
  | st :: tl =>
    match stmt_meaning st with
    | Some m => match helper_step root cur m with
                | Some (root', cur') => helper_fold root' cur' tl
                | None => None
                end
    | None => None
    end
  end.

Lemma helper_fold_ref : forall l t cur s',
  ref_fold (t, cur) l = Some s' ->
  helper_fold (MTab (erase_tree t)) cur l = Some (MTab (erase_tree (fst s'))).
Proof.
  induction l as [|st tl IH]; intros t cur s' H; cbn [ref_fold helper_fold] in *.
  - injection H as <-. reflexivity.
  - destruct (stmt_meaning st) as [m|]; [|discriminate].
    destruct (ref_step (t, cur) m) as [[t1 cur1]| |] eqn:E; try discriminate.
    rewrite (helper_step_ref t cur m t1 cur1 E). apply IH; assumption.
Qed.

(* the helper functions follow the definition rules on every valid document *)
Theorem helpers_follow_definition_rules : forall l t,
  eval l = Some t -> helper_fold (MTab []) [] l = Some t.
Proof.
  intros l t H. unfold eval in H.
  destruct (ref_fold sstate0 l) as [[t1 c1]|] eqn:E; [|discriminate]. injection H as <-.
  exact (helper_fold_ref l [] [] (t1, c1) E).
Qed.

(* inline tables: the @table state inserts pair after pair into a fresh table *)
Fixpoint inline_helper_fold (root : mval) (pairs : list (list bytes * mval)) : option mval :=
  match pairs with
  | [] => Some root
  | (p, v) :: tl => match insert_toml root p v with
                    | Some root' => inline_helper_fold root' tl
                    | None => None
                    end
  end.

Lemma inline_helper_fold_ref : forall pairs (t t' : stree mval),
  inline_fold t pairs = ROk t' ->
  inline_helper_fold (MTab (erase_tree t)) pairs = Some (MTab (erase_tree t')).
Proof.
  induction pairs as [|[p v] tl IH]; intros t t' H; cbn [inline_fold inline_helper_fold] in *.
  - injection H as <-. reflexivity.
  - destruct (insert_kv true p v t) as [t1| |] eqn:E; cbn [rbind] in H; try discriminate.
    unfold insert_toml. rewrite (insert_kv_slot p v t t1 E). apply IH; assumption.
Qed.
