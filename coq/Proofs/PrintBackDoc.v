(* Proofs/PrintBackDoc.v — C03 tiling and exactness for documents.
   1. Text level, every accepted document: the loop of document.rs reads complete lines
      (`lines_text`: the grammar-directed normal form of Proofs/TilingDefs.v).
   2. Flat documents (only `key = value` lines with a plain key, comments and blank lines; values
      may be arrays and inline tables with plain keys): the tree printed by Display after
      despanning is that normal form.  The trivia between lines travels in `st_trailing` and
      becomes the prefix decor of the next key; the last stretch becomes the document's trailing. *)
From TV Require Import Base.Prelude Base.Utf8 Base.Winnow Gen.Consts Spec.Abnf Spec.Lex Spec.Defs Spec.Syntax Spec.Norm.
From TV Require Import Model.Trivia Model.Strings Model.Datetime Model.Numbers Model.Tree Model.Parse Model.Document Model.Write Model.Encode.
From TV Require Import Proofs.ConstsOk Proofs.NoPanicBase Proofs.NoPanicLex Proofs.NoPanicValue.
From TV Require Import Proofs.LexEquivBase Proofs.LexEquivTrivia Proofs.LexEquivKey Proofs.GrammarSep Proofs.GrammarBase
                       Proofs.GrammarValueBase Proofs.GrammarValueSound Proofs.GrammarDocLine Proofs.GrammarDoc
                       Proofs.TilingDefs Proofs.PrintBackBase Proofs.PrintBackEnc Proofs.PrintBackKey Proofs.PrintBackValue.
From TV Require Proofs.DefsEquivSim Proofs.GrammarDocComplete.
Require Import Lia ZifyBool ZifyN ZifyNat.

Lemma ncr_comment c : comment_tok c -> ncr c = c.
Proof.
  intros (u & -> & Hu). unfold ncr. cbn [filter]. change (negb (byte_eqb x23 x0d)) with true. cbv iota. f_equal.
  unfold all in Hu. induction u as [|b u IH]; [reflexivity|]. cbn [forallb filter] in *. apply andb_true_iff in Hu as [Hb Hu].
  assert (E : byte_eqb b x0d = false) by (revert Hb; cls; lia). rewrite E. cbn [negb]. rewrite (IH Hu). reflexivity.
Qed.

Lemma ncr_opt_comment c : opt_comment c -> ncr c = c.
Proof. intros [-> | H]; [reflexivity|apply ncr_comment, H]. Qed.

Lemma ncr_newline nl : newline_tok nl -> ncr nl = [x0a].
Proof. intros [-> | ->]; reflexivity. Qed.

Lemma span_repr' s i t i' : isrc s i -> splits i t i' ->
  repr_str (Some (traw s (raw_with_span (pos i, pos i')))) = Some t.
Proof. exact (span_repr s i t i'). Qed.

(* ---- flat statements ---------------------------------------------------------------------------------- *)
Definition flat_stmt (st : astmt) : bool :=
  match st with SKeyVal p _ => Nat.eqb (length p) 1 | _ => false end.
Definition flat (l : list astmt) : bool := forallb flat_stmt l.

(* a key/value line as Display prints it (Model/Encode.v visit_table) *)
Definition kv_line (s : bytes) (kv : key * value) : bytes :=
  encode_key_path [tkey s (fst kv)] DEFAULT_KEY_DECOR ++ [x3d]
  ++ encode_value (S (value_size (tvalue s (snd kv)))) (tvalue s (snd kv)) DEFAULT_VALUE_DECOR ++ [x0a].

(* the key with the pending trivia merged into its prefix (state.rs on_keyval) *)
Definition with_prefix (k : key) (P : raw) : key := set_leaf k (mkDecor (Some P) (d_suffix (k_leaf k))).

(* ---- one key = value line ------------------------------------------------------------------------------- *)
Lemma parse_keyval_render s i x i1 : isrc s i -> parse_keyval i = Ok x i1 ->
  exists j0 w0 kt p w1 w2 t a o w c le,
    ws_tok w0 /\ key_tok kt p /\ ws_tok w1 /\ ws_tok w2 /\ vtext t a o /\ ws_tok w /\ opt_comment c
    /\ splits i w0 j0 /\ splits i (w0 ++ ((kt ++ w1 ++ [x3d] ++ w2 ++ t) ++ w ++ c) ++ le) i1
    /\ lend le (rest i1) /\ isrc s i1
    /\ (length p = 1 ->
        exists k v, x = ([], (k, IValue v))
          /\ d_prefix (k_leaf k) = Some (raw_with_span (pos i, pos j0))
          /\ (vplain v = true -> forall P z, kv_line s (with_prefix k P, v) ++ z
                         = raw_encode (traw s P) [] ++ ((kt ++ w1 ++ [x3d] ++ w2 ++ o) ++ w ++ c) ++ [x0a] ++ z)).
Proof.
  rewrite parse_keyval_unfold. intros Hi H. apply bind_inv in H as (kp & j1 & H1 & H).
  destruct (key_render s i kp j1 Hi H1) as (w0 & kt & w1 & Hw0 & Hkt & Hw1 & S1 & Hj1 & _).
  apply bind_inv in H as ([[pre v] suf] & j2 & H2 & H).
  apply cut_err_inv in H2. apply bind_inv in H2 as (y & k1 & E1 & H2). apply context_inv, byte_inv in E1 as [_ Se].
  destruct (isrc_splits s j1 [x3d] k1 Hj1 Se) as [Hk1 _].
  apply bind_inv in H2 as (pre' & k2 & E2 & H2). pose proof E2 as E2'. apply span_inv in E2' as (u2 & _ & Epre).
  apply span_ws_inv in E2 as (w2 & Hw2 & S2 & _). destruct (isrc_splits s k1 w2 k2 Hk1 S2) as [Hk2 _].
  apply bind_inv in H2 as (v' & k3 & E3 & H2). destruct (value_render s k2 v' k3 Hk2 E3) as (t & a & o & Ht & S3 & Hk3 & Hv).
  apply bind_inv in H2 as (suf' & k4 & E4 & H2). apply context_inv in E4. rewrite line_trailing_unfold in E4.
  apply bind_inv in E4 as (sp & m1 & F1 & E4). pose proof F1 as F1'. apply span_inv in F1' as (u4 & _ & Esp).
  apply span_inv in F1 as (oc & F1 & _). apply bind_inv in F1 as (w & n1 & Fw & F1). apply ws_sound in Fw as (Hw & Sw & _).
  apply bind_inv in E4 as (u5 & m2 & F2 & E4). apply line_ending_sound in F2 as (le & Sle & Hl). apply ret_inv in E4 as [-> ->].
  assert (Hc : exists c, opt_comment c /\ splits n1 c m1).
  { apply opt_inv in F1 as [(x0 & -> & F1) | (-> & -> & _)].
    - apply comment_sound in F1 as (c & Hc & Sc & _). exists c. split; [right; exact Hc|exact Sc].
    - exists []. split; [left; reflexivity|apply splits_nil]. }
  destruct Hc as (c & Hc & Sc). pose proof (splits_trans _ _ _ _ _ Sw Sc) as Swc.
  destruct (isrc_splits s k3 (w ++ c) m1 Hk3 Swc) as [Hm1 _]. destruct (isrc_splits s m1 le m2 Hm1 Sle) as [Hm2 _].
  apply ret_inv in H2 as [E ->]. injection E as -> -> ->.
  destruct (pop_key kp) as [[path k]|] eqn:Ep; [|discriminate]. apply ret_inv in H as [-> ->].
  (* the leading blanks of the key *)
  assert (Hj0 : exists j0, splits i w0 j0).
  { destruct S1 as [R _]. exists (adv w0 i). apply (splits_adv i w0 ((kt ++ w1) ++ rest j1)). rewrite R, <- app_assoc. reflexivity. }
  destruct Hj0 as (j0 & Sj0).
  exists j0, w0, kt, (map k_key kp), w1, w2, t, a, o, w, c, le. repeat (split; [assumption|]).
  split; [|split; [exact Hl|split; [exact Hm2|]]].
  - pose proof (splits_trans _ _ _ _ _ S1 (splits_trans _ _ _ _ _ Se (splits_trans _ _ _ _ _ S2 (splits_trans _ _ _ _ _ S3 (splits_trans _ _ _ _ _ Swc Sle))))) as S.
    rewrite <- !app_assoc in *. exact S.
  - intro Hl1. rewrite map_length in Hl1.
    destruct (key_single s i kp j1 Hi H1 Hl1) as (ja & jb & w0' & kt' & w1' & k0 & -> & Hw0' & Hkt' & Hw1' & Sa & Sb & Sc' & Erepr & Eleaf).
    cbn [pop_key rev app] in Ep. injection Ep as <- <-.
    (* the two decompositions of the key text agree *)
    assert (Ew0 : w0' = w0 /\ ja = j0).
    { destruct S1 as [R1 _]. destruct Sa as [Ra Ea]. destruct Sb as [Rb _]. rewrite Rb in Ra. rewrite Ra in R1.
      destruct (key_tok_head kt _ Hkt) as (b & tk & Ekt & Hb & _). destruct (simple_key_tok_head kt' _ Hkt') as (b' & tk' & Ekt' & Hb' & _).
      assert (Hst1 : stops wschar (kt' ++ rest jb)) by (rewrite Ekt'; exact Hb').
      assert (Hst2 : stops wschar ((kt ++ w1) ++ rest j1)) by (rewrite Ekt; exact Hb).
      rewrite <- app_assoc in R1.
      destruct (GrammarDocComplete.ws_prefix_unique w0' _ w0 _ Hw0' Hw0 Hst1 Hst2 R1) as [-> _].
      split; [reflexivity|]. destruct Sj0 as [_ ->]. exact Ea. }
    destruct Ew0 as [-> ->].
    assert (Etxt : kt' ++ w1' = kt ++ w1).
    { pose proof (splits_trans _ _ _ _ _ Sa (splits_trans _ _ _ _ _ Sb Sc')) as [R' _]. destruct S1 as [R1 _]. rewrite R' in R1.
      rewrite <- !app_assoc in R1. apply app_inv_head in R1. rewrite !app_assoc in R1. apply app_inv_tail in R1. exact R1. }
    exists k0, (value_decorate v' (raw_with_span pre') (raw_with_span sp)). split; [reflexivity|].
    split; [rewrite Eleaf; reflexivity|]. intros Hs P z. rewrite vplain_decorate in Hs.
    destruct (isrc_splits s i w0 j0 Hi Sa) as [Hja _]. destruct (isrc_splits s j0 kt' jb Hja Sb) as [Hjb _].
    unfold kv_line, with_prefix. cbn [fst snd]. unfold encode_key_path. cbn [rev app map encode_key_path_loop].
    unfold key_display_repr, decor_prefix, decor_suffix. rewrite tkey_fields. cbn [set_leaf k_key k_repr k_leaf k_dotted tdecor d_prefix d_suffix toraw].
    rewrite Eleaf, Erepr. cbn [decor_new d_suffix toraw]. rewrite (span_repr' s j0 kt' jb Hja Sb).
    rewrite (span_prints s jb w1' j1 _ Hjb Sc'), (ncr_ws w1' Hw1').
    subst pre' sp.
    rewrite (vrend_decorated s v' o k1 w2 k2 k3 (w ++ c) m1 Hv Hk1 S2 Hk3 Swc Hs _ DEFAULT_VALUE_DECOR (Nat.lt_succ_diag_r _)).
    rewrite (ncr_ws w2 Hw2), ncr_app, (ncr_ws w Hw), (ncr_opt_comment c Hc).
    repeat first [rewrite <- app_assoc | progress cbn [app]]. f_equal.
    assert (E2 : forall y0, kt' ++ w1' ++ y0 = kt ++ w1 ++ y0) by (intro y0; rewrite !app_assoc, Etxt; reflexivity).
    rewrite E2. reflexivity.
Qed.

(* ---- Display of a flat table ------------------------------------------------------------------------------- *)
Lemma ttbl_unfold s items d im dt p sp :
  ttbl s (Tbl items d im dt p sp) = Tbl (map (tkv s) items) (tdecor s d) im dt p None.
Proof.
  cbn [ttbl]. f_equal; try (induction items as [|[k it] tl IH]; [reflexivity|cbn [map tkv fst snd]; rewrite <- IH; reflexivity]).
Qed.

Lemma table_values_plain s f kvl : Forall (fun kv : key * value => undot (snd kv) = true) kvl ->
  table_values (S f) [] (map (tkv s) (map mk_item kvl)) = map (fun kv => ([tkey s (fst kv)], tvalue s (snd kv))) kvl.
Proof.
  induction 1 as [|[k v] tl Hu _ IH]; [reflexivity|]. cbn [snd] in Hu. cbn [map]. unfold mk_item at 1. cbn [fst snd].
  change (table_values (S f) [] (tkv s (k, IValue v) :: map (tkv s) (map mk_item tl)))
    with ((let path := [] ++ [fst (tkv s (k, IValue v))] in
           match snd (tkv s (k, IValue v)) with
           | ITable (Tbl sub _ _ true _ _) => table_values f path sub
           | IValue (VInline sub _ _ true _ _) => inline_values f path sub
           | IValue v0 => [(path, v0)]
           | _ => []
           end) ++ table_values (S f) [] (map (tkv s) (map mk_item tl))).
  rewrite IH. unfold tkv. cbn [fst snd app]. rewrite titem_value. rewrite <- (undot_tvalue s v) in Hu.
  destruct (tvalue s v) as [x r d|vals tr c d sp|items pre im dt d sp]; try reflexivity.
  cbn [undot] in Hu. destruct dt; [discriminate|reflexivity].
Qed.

Lemma nested_flat s n kvl d im ps :
  nested_tables (S n) (Tbl (map (tkv s) (map mk_item kvl)) d im false ps None) [] false
  = [(Tbl (map (tkv s) (map mk_item kvl)) d im false ps None, [], false)].
Proof.
  cbn [nested_tables t_dotted t_items]. cbn [app]. f_equal.
  induction kvl as [|[k v] tl IH]; [reflexivity|]. cbn [map mk_item flat_map tkv fst snd]. rewrite titem_value. cbn [app]. exact IH.
Qed.

Lemma display_flat s kvl ps sp tr : Forall (fun kv : key * value => vplain (snd kv) = true) kvl ->
  display_document (ttbl s (Tbl (map mk_item kvl) decor_default false false ps sp)) tr
  = flat_map (kv_line s) kvl ++ raw_encode tr [].
Proof.
  intro Hpl. assert (Hu : Forall (fun kv : key * value => undot (snd kv) = true) kvl)
    by (eapply Forall_impl; [|exact Hpl]; intros kv0 Hk0; apply vplain_undot, Hk0).
  clear Hpl. rewrite ttbl_unfold. unfold display_document. rewrite nested_flat.
  cbn [assign_positions stable_sort fold_left insert_sorted visit_tables].
  unfold visit_table. cbn [t_items t_implicit t_decor]. rewrite (table_values_plain s _ kvl Hu).
  unfold decor_prefix, decor_suffix. cbn [tdecor decor_default d_prefix d_suffix toraw DEFAULT_ROOT_DECOR fst snd app].
  rewrite app_nil_r. f_equal.
  induction kvl as [|[k v] tl IH]; [reflexivity|]. cbn [map flat_map]. inversion Hu; subst. rewrite (IH H2).
  unfold kv_line. cbn [fst snd]. repeat first [rewrite <- app_assoc | progress cbn [app]]. reflexivity.
Qed.

(* ---- the parse state of a flat document ---------------------------------------------------------------------- *)
(* the pairs stored so far, and for each of them the text its line prints as — provided its value
   is plain (decided on the finished tree) *)
Definition line_out (s : bytes) (kv : key * value) (ol : bytes) : Prop :=
  vplain (snd kv) = true -> forall z, kv_line s kv ++ z = ol ++ z.

Definition flat_inv (s : bytes) (st : pstate) (i : input) (kvl : list (key * value)) (outs : list bytes)
           (i0 : input) (pend : bytes) : Prop :=
  st_root st = tbl_new /\ st_path st = [] /\
  (exists ps sp, st_current st = Tbl (map mk_item kvl) decor_default false false ps sp) /\
  Forall2 (line_out s) kvl outs /\
  st_trailing st = Some (pos i0, pos i) /\ isrc s i0 /\ splits i0 pend i.

Definition flat_out (outs : list bytes) (pend : bytes) : bytes := concat outs ++ ncr pend.

Lemma flat_inv_on_ws s st i kvl outs i0 pend w i1 :
  flat_inv s st i kvl outs i0 pend -> splits i w i1 -> flat_inv s (on_ws st (pos i, pos i1)) i1 kvl outs i0 (pend ++ w).
Proof.
  intros (Hr & Hp & Hc & Hu & Ht & Hi0 & Sp) Sw. unfold flat_inv, on_ws. cbn [st_root st_path st_current st_trailing].
  rewrite Ht. cbn [fst snd]. repeat (split; [assumption|]). split; [reflexivity|]. split; [exact Hi0|exact (splits_trans _ _ _ _ _ Sp Sw)].
Qed.

Lemma raw_span_with_span a b : raw_span (raw_with_span (a, b)) = if (a =? b)%N then None else Some (a, b).
Proof. unfold raw_with_span. cbn [fst snd]. destruct (a =? b)%N; reflexivity. Qed.

(* on_keyval for a plain key in the root section: the pair goes to the end of the table, its key
   takes the pending trivia *)
Lemma on_keyval_flat st k v items ps sp st' :
  st_current st = Tbl items decor_default false false ps sp ->
  on_keyval_sp st [] k (IValue v) = COk st' ->
  exists P sp',
    st_root st' = st_root st /\ st_path st' = st_path st /\ st_trailing st' = None
    /\ st_current st' = Tbl (items ++ [(with_prefix k P, IValue v)]) decor_default false false ps sp'
    /\ P = match (match st_trailing st, (match d_prefix (k_leaf k) with Some r => raw_span r | None => None end) with
                  | Some p, Some kk => Some (fst p, snd kk)
                  | Some p, None => Some p
                  | None, Some p => Some p
                  | None, None => None
                  end) with Some sp0 => raw_with_span sp0 | None => REmpty end.
Proof.
  intros Hc H. unfold on_keyval_sp in H. destruct (on_keyval st [] k (IValue v)) as [st0| |] eqn:E; try discriminate.
  injection H as <-. unfold on_keyval in E. rewrite Hc in E. cbn [t_span] in E.
  set (P := match (match st_trailing st, (match d_prefix (k_leaf k) with Some r => raw_span r | None => None end) with
                   | Some p, Some kk => Some (fst p, snd kk) | Some p, None => Some p | None, Some p => Some p | None, None => None end)
            with Some sp0 => raw_with_span sp0 | None => REmpty end) in *.
  assert (G : forall sp1, with_table_at (Tbl items decor_default false false ps sp1) [] true
                (fun table => if Bool.eqb (t_dotted table) true then CErr DuplicateKey
                              else match kv_get (t_items table) (k_key (with_prefix k P)) with
                                   | None => COk (t_set_items table (kv_push (t_items table) (with_prefix k P) (IValue v)), tt)
                                   | Some _ => CErr DuplicateKey end)
              = match kv_get items (k_key k) with
                | None => COk (Tbl (items ++ [(with_prefix k P, IValue v)]) decor_default false false ps sp1, tt)
                | Some _ => CErr DuplicateKey end).
  { intro sp1. cbn [with_table_at t_dotted Bool.eqb t_items t_set_items kv_push with_prefix set_leaf k_key]. destruct (kv_get items (k_key k)); reflexivity. }
  unfold with_prefix in G. fold P in E.
  destruct sp as [e|]; [destruct (item_span (IValue v)) as [vs|]|]; cbn [t_set_span] in E; rewrite G in E;
    (destruct (kv_get items (k_key k)); [discriminate|]); injection E as <-;
    eexists P, _; cbn [st_root st_path st_trailing st_current set_dotted_spans]; repeat split; reflexivity.
Qed.

(* ---- one iteration of the document loop ------------------------------------------------------------------------ *)
(* the LF written for the end of a line: always for a real newline; at the end of the text only
   after a statement *)
Definition le_out (l : list astmt) (le : bytes) : bytes := match le with [] => stmt_lf l | _ => [x0a] end.

Lemma newline_le_out l le : newline_tok le -> le_out l le = [x0a].
Proof. intros [-> | ->]; reflexivity. Qed.

(* a step of the parser that read the text whose normal form is o *)
Definition step_ok (s : bytes) (st : pstate) (i : input) (st1 : pstate) (i1 : input) (l : list astmt) (o : bytes) : Prop :=
  forall kvl outs i0 pend, flat_inv s st i kvl outs i0 pend -> flat l = true ->
    exists kvl' outs' i0' pend', flat_inv s st1 i1 kvl' outs' i0' pend'
      /\ flat_out outs' pend' = flat_out outs pend ++ o.

Lemma header_item_text arr t p w c : table_tok arr t p -> ws_tok w -> opt_comment c ->
  item_text (t ++ w ++ c) [if arr then SArrHeader p else SHeader p] (t ++ w ++ c).
Proof. destruct arr; intros; [apply itx_arr|apply itx_std]; assumption. Qed.

Lemma parse_ws_exact st i st1 i1 : parse_ws st i = Ok st1 i1 ->
  exists w, ws_tok w /\ splits i w i1 /\ st1 = on_ws st (pos i, pos i1).
Proof.
  unfold parse_ws. intro H. apply pmap_inv in H as (sp & H & ->). pose proof H as H'. apply span_inv in H' as (u & _ & ->).
  apply span_ws_inv in H as (w & Hw & S & _). eauto.
Qed.

Lemma flat_inv_trivia s st i kvl outs i0 pend x j w i1 :
  flat_inv s st i kvl outs i0 pend -> splits i x j -> splits j w i1 ->
  flat_inv s (on_ws (on_ws st (pos i, pos j)) (pos j, pos i1)) i1 kvl outs i0 (pend ++ x ++ w).
Proof.
  intros HI Sx Sw. rewrite app_assoc. apply flat_inv_on_ws; [|exact Sw]. apply flat_inv_on_ws; assumption.
Qed.

Lemma doc_line_render s st i st1 i1 : isrc s i -> doc_line st i = Ok st1 i1 ->
  exists w0 e l o le w,
    ws_tok w0 /\ item_text e l o /\ ws_tok w /\ splits i (w0 ++ e ++ le ++ w) i1
    /\ (newline_tok le \/ (le = [] /\ w = [] /\ rest i1 = [])) /\ isrc s i1
    /\ step_ok s st i st1 i1 l (w0 ++ o ++ le_out l le ++ w).
Proof.
  rewrite doc_line_unfold. intros Hi H. apply bind_inv in H as (b & j & H1 & H). apply peek_inv in H1 as [-> _].
  apply bind_inv in H as (st0 & j1 & H2 & H3). apply parse_ws_exact in H3 as (w & Hw & Sw & ->).
  (* the end of the line, then the blanks *)
  assert (Hend : forall le, lend le (rest j1) -> newline_tok le \/ (le = [] /\ w = [] /\ rest i1 = [])).
  { intros le [Hn | [-> Hr]]; [left; exact Hn|right]. destruct Sw as [R E]. rewrite Hr in R.
    destruct w; [|discriminate]. cbn [app] in R. auto. }
  unfold line_p in H2.
  destruct (byte_eqb b COMMENT_START_SYMBOL).
  { (* a comment line *)
    apply cut_err_inv in H2. unfold parse_comment in H2. apply pmap_inv in H2 as (sp & H2 & ->).
    pose proof H2 as H2'. apply span_inv in H2' as (u0 & _ & ->).
    apply span_inv in H2 as (u & H2 & _). apply bind_inv in H2 as (x & k1 & F1 & F2).
    apply comment_sound in F1 as (c & Hc & S1 & _). apply context_inv, line_ending_sound in F2 as (le & S2 & Hl).
    pose proof (splits_trans _ _ _ _ _ S1 S2) as S12.
    destruct (isrc_splits s i (c ++ le) j1 Hi S12) as [Hj1 _]. destruct (isrc_splits s j1 w i1 Hj1 Sw) as [Hi1 _].
    exists [], c, [], c, le, w. split; [reflexivity|]. split; [apply itx_comment, Hc|]. split; [exact Hw|].
    split; [pose proof (splits_trans _ _ _ _ _ S12 Sw) as S; rewrite <- !app_assoc in S; exact S|].
    split; [apply Hend, Hl|]. split; [exact Hi1|].
    intros kvl outs i0 pend HI _. exists kvl, outs, i0, (pend ++ (c ++ le) ++ w). split; [apply flat_inv_trivia; assumption|].
    unfold flat_out. rewrite !ncr_app, (ncr_comment c Hc), (ncr_ws w Hw). cbn [app].
    assert (El : ncr le = le_out [] le) by (destruct Hl as [[-> | ->] | [-> _]]; reflexivity).
    rewrite El, <- !app_assoc. reflexivity. }
  destruct (byte_eqb b STD_TABLE_OPEN).
  { (* a table header: not a flat document; only its text matters *)
    apply cut_err_inv, table_inv in H2 as (arr & H2). rewrite header_unfold in H2.
    apply try_map_inv in H2 as ([[kp sp] tr] & H2 & _).
    apply header_text_sound in H2 as (t & p & w1 & c & le & Ht & Hw1 & Hc & Sp & Hl & _).
    destruct (isrc_splits s i _ j1 Hi Sp) as [Hj1 _]. destruct (isrc_splits s j1 w i1 Hj1 Sw) as [Hi1 _].
    exists [], (t ++ w1 ++ c), [if arr then SArrHeader p else SHeader p], (t ++ w1 ++ c), le, w.
    split; [reflexivity|]. split; [apply header_item_text; assumption|]. split; [exact Hw|].
    split; [pose proof (splits_trans _ _ _ _ _ Sp Sw) as S; rewrite <- !app_assoc in *; exact S|].
    split; [apply Hend, Hl|]. split; [exact Hi1|]. intros kvl outs i0 pend _ Hf. destruct arr; discriminate Hf. }
  destruct (byte_eqb b LF || byte_eqb b CR).
  { (* a blank line *)
    unfold parse_newline in H2. apply pmap_inv in H2 as (sp & H2 & ->). pose proof H2 as H2'. apply span_inv in H2' as (u0 & _ & ->).
    apply span_inv in H2 as (u & H2 & _). apply newline_sound in H2 as (nl & Hn & S1).
    destruct (isrc_splits s i nl j1 Hi S1) as [Hj1 _]. destruct (isrc_splits s j1 w i1 Hj1 Sw) as [Hi1 _].
    exists [], [], [], [], nl, w. split; [reflexivity|]. split; [apply itx_blank|]. split; [exact Hw|].
    split; [exact (splits_trans _ _ _ _ _ S1 Sw)|]. split; [left; exact Hn|]. split; [exact Hi1|].
    intros kvl outs i0 pend HI _. exists kvl, outs, i0, (pend ++ nl ++ w). split; [apply flat_inv_trivia; assumption|].
    unfold flat_out. rewrite !ncr_app, (ncr_newline nl Hn), (ncr_ws w Hw), (newline_le_out [] nl Hn). cbn [app]. rewrite <- !app_assoc. reflexivity. }
  (* key = value *)
  apply cut_err_inv in H2. unfold keyval in H2. apply try_map_inv in H2 as (x & H2 & Hst).
  destruct (parse_keyval_render s i x j1 Hi H2)
    as (j0 & w0 & kt & p & w1 & w2 & t & a & o & wt & c & le & Hw0 & Hkt & Hw1 & Hw2 & Ht & Hwt & Hc & S0 & Sp & Hl & Hj1 & Hflat).
  destruct (isrc_splits s j1 w i1 Hj1 Sw) as [Hi1 _].
  exists w0, ((kt ++ w1 ++ [x3d] ++ w2 ++ t) ++ wt ++ c), [SKeyVal p a], ((kt ++ w1 ++ [x3d] ++ w2 ++ o) ++ wt ++ c), le, w.
  split; [exact Hw0|]. split; [apply itx_keyval; assumption|]. split; [exact Hw|].
  split; [pose proof (splits_trans _ _ _ _ _ Sp Sw) as S; rewrite <- !app_assoc in *; exact S|].
  split; [apply Hend, Hl|]. split; [exact Hi1|].
  intros kvl outs i0 pend (Hr & Hp & (ps & sp & Hcur) & Hu & Htr & Hi0 & Spend) Hf. cbn [flat forallb flat_stmt] in Hf. rewrite andb_true_r in Hf.
  apply Nat.eqb_eq in Hf. destruct (Hflat Hf) as (k & v & -> & Epre & Hline).
  destruct (on_keyval_sp st [] k (IValue v)) as [st'| |] eqn:Eo; try discriminate. cbn [lift_state] in Hst. injection Hst as <-.
  destruct (on_keyval_flat st k v _ ps sp st' Hcur Eo) as (P & sp' & Er' & Ep' & Et' & Ec' & EP).
  (* the printed line starts with the pending trivia *)
  assert (HP : raw_encode (traw s P) [] = ncr pend ++ w0).
  { rewrite EP, Htr, Epre, raw_span_with_span. cbn [fst snd].
    destruct (pos i =? pos j0)%N eqn:Q.
    - apply N.eqb_eq in Q. assert (w0 = []) by (apply (splits_empty_iff i w0 j0 S0); exact Q). subst w0.
      cbv iota. rewrite (span_prints s i0 pend i [] Hi0 Spend). rewrite app_nil_r. reflexivity.
    - cbv iota. cbn [fst snd]. rewrite (span_prints s i0 (pend ++ w0) j0 [] Hi0 (splits_trans _ _ _ _ _ Spend S0)). rewrite ncr_app, (ncr_ws w0 Hw0). reflexivity. }
  exists (kvl ++ [(with_prefix k P, v)]), (outs ++ [(ncr pend ++ w0) ++ ((kt ++ w1 ++ [x3d] ++ w2 ++ o) ++ wt ++ c) ++ [x0a]]), j1, w. split.
  - unfold flat_inv, on_ws. cbn [st_root st_path st_current st_trailing]. rewrite Er', Ep', Et', Ec'.
    split; [exact Hr|]. split; [exact Hp|]. split; [exists ps, sp'; rewrite map_app; reflexivity|].
    split; [|auto]. apply Forall2_app; [exact Hu|]. constructor; [|constructor].
    intros Hv z. cbn [snd] in Hv. rewrite (Hline Hv P z), HP. rewrite <- !app_assoc. reflexivity.
  - unfold flat_out. rewrite concat_app. cbn [concat]. rewrite app_nil_r, (ncr_ws w Hw).
    assert (El : le_out [SKeyVal p a] le = [x0a]) by (destruct Hl as [[-> | ->] | [-> _]]; reflexivity).
    rewrite El. rewrite <- !app_assoc. reflexivity.
Qed.

(* ---- the loop ------------------------------------------------------------------------------------------------- *)
Lemma step_ok_nil s st i : step_ok s st i st i [] [].
Proof. intros kvl outs i0 pend HI _. exists kvl, outs, i0, pend. split; [exact HI|]. rewrite app_nil_r. reflexivity. Qed.

Lemma flat_app l1 l2 : flat (l1 ++ l2) = flat l1 && flat l2.
Proof. apply forallb_app. Qed.

Lemma step_ok_trans s st i st1 i1 st2 i2 l1 o1 l2 o2 :
  step_ok s st i st1 i1 l1 o1 -> step_ok s st1 i1 st2 i2 l2 o2 -> step_ok s st i st2 i2 (l1 ++ l2) (o1 ++ o2).
Proof.
  intros H1 H2 kvl outs i0 pend HI Hf. rewrite flat_app in Hf. apply andb_true_iff in Hf as [Hf1 Hf2].
  destruct (H1 kvl outs i0 pend HI Hf1) as (kvl1 & outs1 & i01 & pend1 & HI1 & E1).
  destruct (H2 kvl1 outs1 i01 pend1 HI1 Hf2) as (kvl2 & outs2 & i02 & pend2 & HI2 & E2).
  exists kvl2, outs2, i02, pend2. split; [exact HI2|]. rewrite E2, E1, <- app_assoc. reflexivity.
Qed.

Lemma doc_loop_render s : forall fuel st i st' i', isrc s i -> doc_loop fuel st i = Ok st' i' ->
  exists t l o, splits i t i' /\ lines_text t l o /\ isrc s i' /\ step_ok s st i st' i' l o.
Proof.
  induction fuel as [|f IH]; intros st i st' i' Hi H; [discriminate|]. cbn [doc_loop] in H.
  destruct (doc_line st i) as [st1 i1|e j|e j|x] eqn:E; try discriminate.
  - destruct (Nat.eqb (length (rest i1)) (length (rest i))); [discriminate|].
    destruct (doc_line_render s st i st1 i1 Hi E) as (w0 & e & l & o & le & w & Hw0 & He & Hw & Sp & Hle & Hi1 & Hok).
    destruct Hle as [Hn | (-> & -> & R1)].
    + destruct (IH st1 i1 st' i' Hi1 H) as (t & l' & o' & St & Hlt & Hi' & Hok').
      exists ((w0 ++ e ++ le ++ w) ++ t), (l ++ l'), ((w0 ++ o ++ le_out l le ++ w) ++ o').
      split; [exact (splits_trans _ _ _ _ _ Sp St)|]. split; [|split; [exact Hi'|exact (step_ok_trans _ _ _ _ _ _ _ _ _ _ _ Hok Hok')]].
      rewrite (newline_le_out l le Hn).
      replace ((w0 ++ e ++ le ++ w) ++ t) with (w0 ++ e ++ le ++ w ++ t) by (rewrite <- !app_assoc; reflexivity).
      replace ((w0 ++ o ++ [x0a] ++ w) ++ o') with (w0 ++ o ++ [x0a] ++ w ++ o') by (rewrite <- !app_assoc; reflexivity).
      apply ltx_cons; assumption.
    + destruct (doc_loop_at_end f st1 i1 st' i' R1 H) as [-> ->].
      exists (w0 ++ e), l, (w0 ++ o ++ stmt_lf l). rewrite !app_nil_r in Sp. split; [exact Sp|]. split; [apply ltx_last; assumption|].
      split; [exact Hi1|]. cbn [le_out] in Hok. rewrite app_nil_r in Hok. exact Hok.
  - injection H as <- <-. exists [], [], []. split; [apply splits_nil|]. split; [apply ltx_nil|]. split; [exact Hi|apply step_ok_nil].
Qed.
