(* Proofs/SerDocTop.v — C07 through text, assembled: serialize (Model/Ser.v), lay out (Model/SerFmt.v), build the
   toml_edit tree (Model/SerDoc.v), print it (Model/Encode.v), parse the bytes (Model/Document.v), read the parsed
   document as a value tree and deserialize it (Model/De.v): an equal value comes back. *)
From TV Require Import Base.Prelude Base.Utf8 Base.Winnow Gen.Consts.
From TV Require Import Model.Datetime Spec.DatetimeSpec Model.Numbers Model.Tree Model.Parse Model.Document Model.Write Model.Encode Model.Build.
From TV Require Import Proofs.BuiltRTEncode Proofs.BuiltRTValue Proofs.BuiltRTLeaf Proofs.BuiltRTTop Proofs.BuiltRTDocEncode Proofs.BuiltRTDoc.
From TV Require Import Spec.SerdeData Model.Ser Model.De Model.SerFmt Model.SerDoc.
From TV Require Import Proofs.NumbersRT_Float Proofs.SerdeRTBase Proofs.SerDocDe Proofs.SerDocWf Proofs.SerDocBuilt Proofs.SerDocBack.
Require Import Lia.

(* the arrays of the one-line layout are Model/Build.v's constructed arrays *)
Lemma harr_plain es :
  Forall (BuiltValue scalar_ok key_ok) es -> Forall (fun e => value_decor e = decor_default) es ->
  BuiltValue scalar_ok key_ok (mk_array false es).
Proof. intros H _. unfold mk_array. cbn [andb]. unfold array_from_iter. constructor; [apply default_built|exact H]. Qed.

Lemma harr_any ml es :
  Forall (BuiltValue scalar_ok key_ok) es -> Forall (fun e => value_decor e = decor_default) es ->
  BuiltValue scalar_ok key_ok (mk_array ml es).
Proof.
  intros H _. unfold mk_array. destruct (ml && (2 <=? length es)).
  - constructor; [apply default_built|exact H].
  - unfold array_from_iter. constructor; [apply default_built|exact H].
Qed.

Definition arrays_built (ml : bool) : Prop :=
  forall es, Forall (BuiltValue scalar_ok key_ok) es -> Forall (fun e => value_decor e = decor_default) es ->
             BuiltValue scalar_ok key_ok (mk_array ml es).

Section Top.
  Variable fd : N -> fval.
  Variable back : fval -> N.
  Hypothesis Horacle : float_oracle fd back.

  (* the deserializer on an equivalent tree, per route *)
  Lemma text_root_equiv r t v x y : has_type v t -> ser_text r t v = Ok x -> tv_equiv x y ->
    exists v', de_value t y = Ok v' /\ sval_eq v v'.
  Proof.
    intros Hty H He. destruct r; simpl in H;
      first [apply (edit_root_equiv t v x y Hty H He) | apply (toml_root_equiv t v x y Hty H He)].
  Qed.

  Theorem text_roundtrip_gen r t v x :
    arrays_built (multiline r) ->
    has_type v t -> utf8_ty t = true -> utf8_sv v = true ->
    ser_text r t v = Ok x -> tv_depth x <= LIMIT ->
    exists T d v',
      ser_doc fd r t v = Some T
      /\ BuiltTbl scalar_ok key_ok T
      /\ parse_document (display_document (render_tbl float_text T) REmpty) = POk d
      /\ abs_tbl (doc_root d) = printed_entries (abs_tbl T)
      /\ tv_equiv x (tomlval_of_abs back (abs_tbl (doc_root d)))
      /\ de_doc back t (abs_tbl (doc_root d)) = Ok v' /\ sval_eq v v'.
  Proof.
    intros Harr Hty Ht Hu Hser Hd.
    destruct (ser_text_out_ok r t v x Hty Ht Hu Hser) as (Hok & es & ->).
    set (T := doc_root_tbl fd (multiline r) (formatted r) (layout r (VTab es))).
    pose proof (root_built fd back (multiline r) Horacle Harr r es Hok) as HB. fold T in HB.
    destruct (root_depths fd (multiline r) r es Hd) as [Hh Hv]. fold T in Hh, Hv.
    destruct (document_roundtrip T HB Hh Hv) as (d & Ed & Ea).
    pose proof (root_back fd back (multiline r) Horacle r es Hok) as He. fold T in He. rewrite <- Ea in He.
    destruct (text_root_equiv r t v _ _ Hty Hser He) as (v' & Dv & Ev).
    exists T, d, v'. unfold ser_doc, de_doc. rewrite Hser. repeat split; assumption.
  Qed.

  (* all four text routes *)
  Theorem text_roundtrip r t v x :
    has_type v t -> utf8_ty t = true -> utf8_sv v = true ->
    ser_text r t v = Ok x -> tv_depth x <= LIMIT ->
    exists T d v',
      ser_doc fd r t v = Some T
      /\ BuiltTbl scalar_ok key_ok T
      /\ parse_document (display_document (render_tbl float_text T) REmpty) = POk d
      /\ abs_tbl (doc_root d) = printed_entries (abs_tbl T)
      /\ tv_equiv x (tomlval_of_abs back (abs_tbl (doc_root d)))
      /\ de_doc back t (abs_tbl (doc_root d)) = Ok v' /\ sval_eq v v'.
  Proof. apply text_roundtrip_gen. intros es. apply harr_any. Qed.

  (* C07_text_roundtrip *)
  Theorem text_roundtrip_main r t v x :
    has_type v t -> utf8_ty t = true -> utf8_sv v = true ->
    ser_text r t v = Ok x -> tv_depth x <= LIMIT ->
    exists T d v',
      ser_doc fd r t v = Some T
      /\ parse_document (display_document (render_tbl float_text T) REmpty) = POk d
      /\ de_doc back t (abs_tbl (doc_root d)) = Ok v' /\ sval_eq v v'.
  Proof.
    intros Hty Ht Hu Hser Hd. destruct (text_roundtrip r t v x Hty Ht Hu Hser Hd) as (T & d & v' & H1 & _ & H3 & _ & _ & H6 & H7).
    exists T, d, v'. auto.
  Qed.

  (* the nesting bound read off the type *)
  Theorem text_roundtrip_by_type r t v x :
    has_type v t -> utf8_ty t = true -> utf8_sv v = true ->
    ser_text r t v = Ok x -> ty_depth t <= LIMIT ->
    exists T d v',
      ser_doc fd r t v = Some T
      /\ parse_document (display_document (render_tbl float_text T) REmpty) = POk d
      /\ de_doc back t (abs_tbl (doc_root d)) = Ok v' /\ sval_eq v v'.
  Proof.
    intros Hty Ht Hu Hser Hd. apply (text_roundtrip_main r t v x Hty Ht Hu Hser).
    pose proof (ser_text_depth r t v x Hser) as H. unfold LIMIT in *. apply Nat.le_trans with (Nat.max 1 (ty_depth t)); [exact H|].
    apply Nat.max_lub; [|exact Hd]. apply Nat.leb_le. reflexivity.
  Qed.

  (* what comes back is the tree that was written, in the printed order *)
  Theorem text_inverse r t v x :
    has_type v t -> utf8_ty t = true -> utf8_sv v = true ->
    ser_text r t v = Ok x -> tv_depth x <= LIMIT ->
    exists T d,
      ser_doc fd r t v = Some T
      /\ BuiltTbl scalar_ok key_ok T
      /\ parse_document (display_document (render_tbl float_text T) REmpty) = POk d
      /\ abs_tbl (doc_root d) = printed_entries (abs_tbl T)
      /\ tv_equiv x (tomlval_of_abs back (abs_tbl (doc_root d))).
  Proof.
    intros Hty Ht Hu Hser Hd. destruct (text_roundtrip r t v x Hty Ht Hu Hser Hd) as (T & d & v' & H1 & H2 & H3 & H4 & H5 & _).
    exists T, d. auto.
  Qed.
End Top.

(* the two formatters lay a serialized tree out alike *)
Theorem pretty_layouts_agree es : doc_edit_pretty (VTab es) = doc_toml (VTab es).
Proof.
  change (layout EditStringPretty (VTab es) = layout TomlString (VTab es)).
  rewrite !layout_formatted by reflexivity. reflexivity.
Qed.

(* the oracle hypothesis is consistent (a printer that writes the bit pattern itself as a decimal with one fraction
   digit, and the parser that reads the pattern back): the theorems are not vacuous; that std's shortest-digits printer
   and correctly rounded parser satisfy it is DESIGN.md 4.4 *)
Theorem float_oracle_satisfiable : exists fd back, float_oracle fd back.
Proof.
  exists (fun b => FDec false b (-1)), (fun f => match f with FDec _ m _ => m | _ => 0%N end).
  intros b Hb. split; [|left; reflexivity]. split; [lia|].
  destruct (overflows b (-1)) eqn:E; [|reflexivity]. exfalso.
  apply overflows_exact in E. unfold exceeds in E. cbn [Z.leb Z.opp] in E.
  pose proof thr_lo as Hl. change (2 ^ 64)%N with 18446744073709551616%N in Hb.
  assert (H1 : (10 ^ 308 * 10 ^ 1 <= Z.of_N b)%Z) by (eapply Z.le_trans; [|exact E]; apply Z.mul_le_mono_nonneg_r; lia).
  assert (H2 : (Z.of_N b < 18446744073709551616)%Z) by lia.
  assert (H3 : (18446744073709551616 <= 10 ^ 308 * 10 ^ 1)%Z) by (apply Z.leb_le; vm_compute; reflexivity).
  lia.
Qed.
