(* Proofs/SerDocTop.v — C07 through text, assembled: serialize (Model/Ser.v), lay out (Model/SerFmt.v), build the
   toml_edit tree (Model/SerDoc.v), print it (Model/Encode.v), parse the bytes (Model/Document.v), read the parsed
   document as a value tree and deserialize it (Model/De.v): an equal value comes back. *)
From TV Require Import Base.Prelude Base.Utf8 Base.Winnow Gen.Consts.
From TV Require Import Model.Datetime Spec.DatetimeSpec Model.Numbers Model.Tree Model.Parse Model.Document Model.Write Model.Encode Model.Build.
From TV Require Import Proofs.BuiltRTEncode Proofs.BuiltRTValue Proofs.BuiltRTLeaf Proofs.BuiltRTTop Proofs.BuiltRTDocEncode Proofs.BuiltRTDoc.
From TV Require Import Spec.SerdeData Model.Ser Model.De Model.SerFmt Model.SerDoc.
From TV Require Import Proofs.SerdeRTBase Proofs.SerDocDe Proofs.SerDocWf Proofs.SerDocBuilt Proofs.SerDocBack.

(* the arrays of the one-line layout are Model/Build.v's constructed arrays *)
Lemma harr_plain es :
  Forall (BuiltValue scalar_ok key_ok) es -> Forall (fun e => value_decor e = decor_default) es ->
  BuiltValue scalar_ok key_ok (mk_array false es).
Proof. intros H _. unfold mk_array. cbn [andb]. unfold array_from_iter. constructor; [apply default_built|exact H]. Qed.

Definition arrays_built (ml : bool) : Prop :=
  forall es, Forall (BuiltValue scalar_ok key_ok) es -> Forall (fun e => value_decor e = decor_default) es ->
             BuiltValue scalar_ok key_ok (mk_array ml es).

Section Top.
  Variable fd : N -> fval.
  Variable back : fval -> N.
  Hypothesis Horacle : float_oracle fd back.

  (* the deserializer on an equivalent tree, per route *)
  Lemma text_root_equiv r t v x y : has_type v t -> ser_text r t v = Ok x -> tv_equiv x y ->
    exists v', de_value t y = Ok v' /\ sval_eq v v'.
  Proof.
    intros Hty H He. destruct r; simpl in H;
      first [apply (edit_root_equiv t v x y Hty H He) | apply (toml_root_equiv t v x y Hty H He)].
  Qed.

  Theorem text_roundtrip_gen r t v x :
    arrays_built (multiline r) ->
    has_type v t -> utf8_ty t = true -> utf8_sv v = true ->
    ser_text r t v = Ok x -> tv_depth x <= LIMIT ->
    exists T d v',
      ser_doc fd r t v = Some T
      /\ BuiltTbl scalar_ok key_ok T
      /\ parse_document (display_document (render_tbl float_text T) REmpty) = POk d
      /\ tv_equiv x (tomlval_of_abs back (abs_tbl (doc_root d)))
      /\ de_doc back t (abs_tbl (doc_root d)) = Ok v' /\ sval_eq v v'.
  Proof.
    intros Harr Hty Ht Hu Hser Hd.
    destruct (ser_text_out_ok r t v x Hty Ht Hu Hser) as (Hok & es & ->).
    set (T := doc_root_tbl fd (multiline r) (formatted r) (layout r (VTab es))).
    pose proof (root_built fd back (multiline r) Horacle Harr r es Hok) as HB. fold T in HB.
    destruct (root_depths fd (multiline r) r es Hd) as [Hh Hv]. fold T in Hh, Hv.
    destruct (document_roundtrip T HB Hh Hv) as (d & Ed & Ea).
    pose proof (root_back fd back (multiline r) Horacle r es Hok) as He. fold T in He. rewrite <- Ea in He.
    destruct (text_root_equiv r t v _ _ Hty Hser He) as (v' & Dv & Ev).
    exists T, d, v'. unfold ser_doc, de_doc. rewrite Hser. repeat split; assumption.
  Qed.

  (* the one-line array layout: toml_edit::ser::to_string, toml::to_string *)
  Theorem text_roundtrip_plain r t v x :
    multiline r = false ->
    has_type v t -> utf8_ty t = true -> utf8_sv v = true ->
    ser_text r t v = Ok x -> tv_depth x <= LIMIT ->
    exists T d v',
      ser_doc fd r t v = Some T
      /\ BuiltTbl scalar_ok key_ok T
      /\ parse_document (display_document (render_tbl float_text T) REmpty) = POk d
      /\ tv_equiv x (tomlval_of_abs back (abs_tbl (doc_root d)))
      /\ de_doc back t (abs_tbl (doc_root d)) = Ok v' /\ sval_eq v v'.
  Proof.
    intro Hml. apply text_roundtrip_gen. rewrite Hml. exact harr_plain.
  Qed.
End Top.
