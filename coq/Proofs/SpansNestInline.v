(* Proofs/SpansNestInline.v — C14, nesting inside inline tables: the tables made of dotted keys
   (`{ a.b = 1, a.c = 2 }`) get spans that cover their keys and values.

   inline_table.rs widens the spans while descending for each pair; the model (Model/Parse.v) inserts all
   pairs first and runs the span bookkeeping afterwards (`inline_spans_pass`).  Here:
     1. one insertion followed by its own bookkeeping keeps the nesting invariant (`ins_sp_nest`);
     2. the bookkeeping of an earlier pair commutes with later insertions (`insert_set_spans_comm`), hence
        the separate pass equals the interleaved computation (`pass_eq_interleaved`);
     3. so the items built by `table_from_pairs` are nested (`table_from_pairs_nest`). *)
From TV Require Import Base.Prelude Base.Utf8 Base.Winnow Gen.Consts.
From TV Require Import Model.Trivia Model.Strings Model.Datetime Model.Numbers Model.Tree Model.Parse Model.Document.
From TV Require Import Proofs.NoPanicBase Proofs.NoPanicState.
From TV Require Import Proofs.SpansDefs Proofs.SpansBase Proofs.SpansLex Proofs.SpansValue Proofs.SpansNestLex.
Require Import Lia ZifyBool ZifyN ZifyNat.

(* ---- association lists: more laws ------------------------------------------------------------------------- *)
Lemma kv_set_set m k x y : kv_set (kv_set m k x) k y = kv_set m k y.
Proof.
  induction m as [|[k0 v0] m IH]; [reflexivity|]. cbn [kv_set]. destruct (bytes_eqb (k_key k0) k) eqn:E; cbn [kv_set]; rewrite E.
  - reflexivity.
  - rewrite IH. reflexivity.
Qed.
Lemma kv_set_push_none m kk x y : kv_get m (k_key kk) = None -> kv_set (kv_push m kk x) (k_key kk) y = kv_push m kk y.
Proof.
  unfold kv_push. induction m as [|[k0 v0] m IH]; cbn [kv_get kv_set app].
  - rewrite bytes_eqb_refl. reflexivity.
  - destruct (bytes_eqb (k_key k0) (k_key kk)); [discriminate|]. intro H. rewrite (IH H). reflexivity.
Qed.
Lemma kv_get_set_other m k1 k2 x : bytes_eqb k1 k2 = false -> kv_get (kv_set m k1 x) k2 = kv_get m k2.
Proof.
  intro N. induction m as [|[k0 v0] m IH]; [reflexivity|]. cbn [kv_set kv_get].
  destruct (bytes_eqb (k_key k0) k1) eqn:E1; cbn [kv_get].
  - apply bytes_eqb_eq in E1. subst k1. rewrite N. reflexivity.
  - destruct (bytes_eqb (k_key k0) k2); [reflexivity|exact IH].
Qed.
Lemma kv_get_set_none m k x k' : kv_get m k' = None -> kv_get (kv_set m k x) k' = None.
Proof.
  induction m as [|[k0 v0] m IH]; [reflexivity|]. cbn [kv_set kv_get].
  destruct (bytes_eqb (k_key k0) k') eqn:E2; [discriminate|]. intro H.
  destruct (bytes_eqb (k_key k0) k) eqn:E1; cbn [kv_get]; rewrite E2; [exact H|apply IH, H].
Qed.
Lemma kv_set_comm m k1 k2 x y : bytes_eqb k1 k2 = false ->
  kv_set (kv_set m k1 x) k2 y = kv_set (kv_set m k2 y) k1 x.
Proof.
  intro N. induction m as [|[k0 v0] m IH]; [reflexivity|]. cbn [kv_set].
  destruct (bytes_eqb (k_key k0) k1) eqn:E1; destruct (bytes_eqb (k_key k0) k2) eqn:E2; cbn [kv_set]; rewrite ?E1, ?E2.
  - apply bytes_eqb_eq in E1, E2. subst. rewrite bytes_eqb_refl in N. discriminate.
  - reflexivity.
  - reflexivity.
  - rewrite IH. reflexivity.
Qed.
Lemma kv_get_push_found m kk x k r : kv_get m k = Some r -> kv_get (kv_push m kk x) k = Some r.
Proof.
  unfold kv_push. induction m as [|[k0 v0] m IH]; cbn [kv_get app]; [discriminate|].
  destruct (bytes_eqb (k_key k0) k); [auto|exact IH].
Qed.
Lemma kv_set_push_found m kk x k y r : kv_get m k = Some r -> kv_set (kv_push m kk x) k y = kv_push (kv_set m k y) kk x.
Proof.
  unfold kv_push. induction m as [|[k0 v0] m IH]; cbn [kv_get kv_set app]; [discriminate|].
  destruct (bytes_eqb (k_key k0) k); [reflexivity|]. intro H. rewrite (IH H). reflexivity.
Qed.
Lemma kv_get_bytes m k1 k2 : bytes_eqb k1 k2 = true -> kv_get m k1 = kv_get m k2.
Proof. intro E. apply bytes_eqb_eq in E. subst. reflexivity. Qed.

(* ---- the nesting invariant on items ------------------------------------------------------------------------ *)
Definition Inest (m : kvs) : bool := forallb (fun kv => inest (snd kv)) m.

Lemma vnest_inline items pre im dt d sp :
  vnest (VInline items pre im dt d sp)
  = match sp with
    | Some (a, b) => if dt then dnest a b items else forallb (kv_in a b) items && raw_in a b pre
    | None => false
    end && (negb im || dt) && Inest items.
Proof. reflexivity. Qed.
Lemma vnest_array vals tr c d sp :
  vnest (VArray vals tr c d sp)
  = match sp with Some (a, b) => forallb (item_in a b) vals && raw_in a b tr | None => false end && forallb inest vals.
Proof. reflexivity. Qed.
Lemma inest_value v : inest (IValue v) = vnest v. Proof. reflexivity. Qed.

Lemma Inest_get m k k' it : Inest m = true -> kv_get m k = Some (k', it) -> inest it = true.
Proof.
  induction m as [|[k0 v0] m IH]; cbn [kv_get Inest forallb snd]; [discriminate|].
  intros H E. apply andb_true_iff in H as [H1 H2]. destruct (bytes_eqb _ _); [inversion E; subst; exact H1|].
  apply IH; assumption.
Qed.
Lemma Inest_push m k v : Inest m = true -> inest v = true -> Inest (kv_push m k v) = true.
Proof. intros H1 H2. unfold kv_push, Inest in *. rewrite forallb_app, H1. cbn. rewrite H2. reflexivity. Qed.
Lemma Inest_set m k v : Inest m = true -> inest v = true -> Inest (kv_set m k v) = true.
Proof.
  intros H1 H2. induction m as [|[k0 v0] m IH]; [reflexivity|]. cbn [kv_set Inest forallb snd] in *.
  apply andb_true_iff in H1 as [Ha Hb]. destruct (bytes_eqb _ _); cbn [forallb snd].
  - rewrite H2. exact Hb.
  - rewrite Ha. apply IH, Hb.
Qed.

Definition dn1 (a b : N) (kv : key * item) : bool := kspan_in a b (fst kv) && osp_in a b (item_span (snd kv)).
Lemma dnest_push a b m k v : dnest a b m = true -> kspan_in a b k = true -> osp_in a b (item_span v) = true ->
  dnest a b (kv_push m k v) = true.
Proof. intros H1 H2 H3. unfold kv_push, dnest in *. rewrite forallb_app, H1. cbn. rewrite H2, H3. reflexivity. Qed.
Lemma dnest_set a b m k v : dnest a b m = true -> osp_in a b (item_span v) = true -> dnest a b (kv_set m k v) = true.
Proof.
  intros H1 H2. induction m as [|[k0 v0] m IH]; [reflexivity|]. unfold dnest in *. cbn [kv_set forallb fst snd] in *.
  apply andb_true_iff in H1 as [Ha Hb]. destruct (bytes_eqb _ _); cbn [forallb fst snd].
  - apply andb_true_iff in Ha as [Ha _]. rewrite Ha, H2. exact Hb.
  - rewrite Ha. apply IH, Hb.
Qed.
Lemma dnest_get a b m k k' it : dnest a b m = true -> kv_get m k = Some (k', it) -> osp_in a b (item_span it) = true.
Proof.
  unfold dnest. induction m as [|[k0 v0] m IH]; cbn [kv_get forallb fst snd]; [discriminate|].
  intros H E. apply andb_true_iff in H as [H1 H2]. destruct (bytes_eqb _ _).
  - inversion E; subst. apply andb_true_iff in H1. tauto.
  - apply IH; assumption.
Qed.
Lemma dnest_mono a b a' b' m : (a' <= a)%N -> (b <= b')%N -> dnest a b m = true -> dnest a' b' m = true.
Proof.
  intros L U. unfold dnest. apply forallb_Forall_imp. apply Forall_forall. intros kv _ H.
  apply andb_true_iff in H as [H1 H2]. unfold kspan_in in *.
  rewrite (oraw_in_mono a b a' b' L U _ H1), (osp_in_mono a b a' b' L U _ H2). reflexivity.
Qed.

Lemma kspan_of_key_span a b k x y : key_span k = Some (x, y) -> (a <= x)%N -> (x <= y)%N -> (y <= b)%N -> kspan_in a b k = true.
Proof.
  unfold key_span, kspan_in. destruct (k_repr k) as [r|]; [|discriminate]. intros S H1 H2 H3.
  cbn [oraw_in]. unfold raw_in. rewrite S. cbn [osp_in]. apply sp_in_pair; assumption.
Qed.

(* ---- 1. one insertion followed by its own span bookkeeping -------------------------------------------------------- *)
Lemma ins_sp_nest : forall path m dh pe k v m1 c mid av e,
  Inest m = true -> inline_insert m dh path pe k v = COk m1 ->
  kchain c mid (path ++ [k]) -> item_span v = Some (av, e) -> (mid <= av)%N -> (av <= e)%N -> inest v = true ->
  Inest (inline_set_spans m1 path (Some e)) = true
  /\ forall a b, (a <= c)%N -> (e <= b)%N -> dnest a b m = true -> dnest a b (inline_set_spans m1 path (Some e)) = true.
Proof.
  induction path as [|pk ptl IH]; intros m dh pe k v m1 c mid av e Hm E Hch Sv L1 L2 Hv; cbn [inline_insert] in E.
  - destruct (Bool.eqb dh pe); [discriminate|]. destruct (kv_get m (k_key k)); [discriminate|]. inversion E; subst m1.
    cbn [inline_set_spans]. split; [apply Inest_push; assumption|]. intros a b La Ub Hd.
    unfold kchain in Hch. cbn [app map chain] in Hch. destruct Hch as (x & y & Sk & G1 & G2 & G3).
    apply dnest_push; [exact Hd|eapply kspan_of_key_span; [exact Sk|nlia|nlia|nlia]|].
    rewrite Sv. cbn [osp_in]. apply sp_in_pair; nlia.
  - unfold kchain in Hch. cbn [app map chain] in Hch. destruct Hch as (x & y & Sk & G1 & G2 & G3).
    fold (kchain y mid (ptl ++ [k])) in G3. pose proof (chain_le _ _ _ G3) as Gle.
    destruct (kv_get m (k_key pk)) as [[k' it]|] eqn:G.
    + pose proof (Inest_get _ _ _ _ Hm G) as Hit. destruct it as [|val| |]; try discriminate E.
      destruct val as [s r d|vals tr c0 d sp|sub pre imp dt dec sp]; try discriminate E.
      destruct imp; cbn [negb] in E; [|discriminate].
      destruct (inline_insert sub dt ptl pe k v) as [sub1| |] eqn:R; try discriminate E. inversion E; subst m1. clear E.
      rewrite inest_value, vnest_inline in Hit. apply andb3 in Hit as (Hsp & Hdt & Hsub).
      cbn [negb orb] in Hdt. subst dt. destruct sp as [[a0 b0]|]; [|discriminate].
      cbn [inline_set_spans]. rewrite (kv_get_set _ _ _ _ _ G). rewrite Sk. unfold widen; cbn [fst snd]. rewrite kv_set_set.
      destruct (IH sub true pe k v sub1 y mid av e Hsub R G3 Sv L1 L2 Hv) as [N1 N2].
      assert (D1 : dnest (N.min a0 x) (N.max b0 e) (inline_set_spans sub1 ptl (Some e)) = true).
      { apply N2; [nlia|nlia|]. eapply dnest_mono; [| |exact Hsp]; nlia. }
      split.
      * apply Inest_set; [exact Hm|]. rewrite inest_value, vnest_inline. rewrite D1, N1. reflexivity.
      * intros a b La Ub Hd. pose proof (dnest_get _ _ _ _ _ _ Hd G) as Ho. cbn [item_span value_span osp_in] in Ho.
        apply dnest_set; [exact Hd|]. cbn [item_span value_span osp_in]. unfold sp_in in *; cbn [fst snd] in *. nlia.
    + destruct (inline_insert [] true ptl pe k v) as [sub1| |] eqn:R; try discriminate E. inversion E; subst m1. clear E.
      cbn [inline_set_spans]. rewrite (kv_get_push _ _ _ G). rewrite Sk. unfold widen; cbn [fst snd]. rewrite (kv_set_push_none _ _ _ _ G).
      destruct (IH [] true pe k v sub1 y mid av e eq_refl R G3 Sv L1 L2 Hv) as [N1 N2].
      assert (D1 : dnest x e (inline_set_spans sub1 ptl (Some e)) = true) by (apply N2; [nlia|nlia|reflexivity]).
      split.
      * apply Inest_push; [exact Hm|]. rewrite inest_value, vnest_inline. rewrite D1, N1. reflexivity.
      * intros a b La Ub Hd. apply dnest_push; [exact Hd|eapply kspan_of_key_span; [exact Sk|nlia|nlia|nlia]|].
        cbn [item_span value_span osp_in]. apply sp_in_pair; nlia.
Qed.

(* ---- 2. the bookkeeping of an earlier pair commutes with later insertions ------------------------------------------ *)
Lemma bytes_eqb_sym a b : bytes_eqb a b = bytes_eqb b a.
Proof.
  destruct (bytes_eqb a b) eqn:E1; destruct (bytes_eqb b a) eqn:E2; auto.
  - apply bytes_eqb_eq in E1. subst. rewrite bytes_eqb_refl in E2. discriminate.
  - apply bytes_eqb_eq in E2. subst. rewrite bytes_eqb_refl in E1. discriminate.
Qed.

(* the path leads through inline tables that exist *)
Fixpoint resolves (m : kvs) (p : list key) : Prop :=
  match p with
  | [] => True
  | kp :: ptl =>
    exists k' sub pre imp dt dec sp,
      kv_get m (k_key kp) = Some (k', IValue (VInline sub pre imp dt dec sp)) /\ resolves sub ptl
  end.

Lemma insert_resolves : forall p m dh pe k v m1, inline_insert m dh p pe k v = COk m1 -> resolves m1 p.
Proof.
  induction p as [|kp ptl IH]; intros m dh pe k v m1 E; cbn [resolves]; [exact I|]. cbn [inline_insert] in E.
  destruct (kv_get m (k_key kp)) as [[k' it]|] eqn:G.
  - destruct it as [|val| |]; try discriminate E.
    destruct val as [s r d|vals tr c0 d sp|sub pre imp dt dec sp]; try discriminate E.
    destruct (negb imp); [discriminate|].
    destruct (inline_insert sub dt ptl pe k v) as [sub1| |] eqn:R; try discriminate E. inversion E; subst m1.
    rewrite (kv_get_set _ _ _ _ _ G). do 7 eexists. split; [reflexivity|]. eapply IH, R.
  - destruct (inline_insert [] true ptl pe k v) as [sub1| |] eqn:R; try discriminate E. inversion E; subst m1.
    rewrite (kv_get_push _ _ _ G). do 7 eexists. split; [reflexivity|]. eapply IH, R.
Qed.

Lemma set_spans_cons m kp ptl e k' sub pre imp dt dec sp :
  kv_get m (k_key kp) = Some (k', IValue (VInline sub pre imp dt dec sp)) ->
  inline_set_spans m (kp :: ptl) e
  = kv_set m (k_key kp)
      (IValue (VInline (inline_set_spans sub ptl e) pre imp dt dec
                       (if dt then match key_span kp, e with Some ks, Some e0 => widen sp ks e0 | _, _ => sp end else sp))).
Proof. intro G. cbn [inline_set_spans]. rewrite G. reflexivity. Qed.

Lemma insert_set_spans_comm : forall q m dh pe k v m' p e,
  resolves m p -> inline_insert m dh q pe k v = COk m' ->
  inline_insert (inline_set_spans m p e) dh q pe k v = COk (inline_set_spans m' p e) /\ resolves m' p.
Proof.
  induction q as [|qk qtl IH]; intros m dh pe k v m' p e Hres E.
  - cbn [inline_insert] in E. destruct (Bool.eqb dh pe) eqn:B; [discriminate|].
    destruct (kv_get m (k_key k)) eqn:Gk; [discriminate|]. inversion E; subst m'. clear E.
    destruct p as [|kp ptl]; [cbn [inline_set_spans inline_insert resolves]; rewrite B, Gk; auto|].
    cbn [resolves] in Hres. destruct Hres as (k' & sub & pre & imp & dt & dec & sp & G & Hsub).
    rewrite (set_spans_cons _ _ _ _ _ _ _ _ _ _ _ G).
    rewrite (set_spans_cons _ _ _ _ _ _ _ _ _ _ _ (kv_get_push_found _ _ _ _ _ G)).
    cbn [inline_insert]. rewrite B, (kv_get_set_none _ _ _ _ Gk). rewrite (kv_set_push_found _ _ _ _ _ _ G).
    split; [reflexivity|]. cbn [resolves]. rewrite (kv_get_push_found _ _ _ _ _ G). do 7 eexists. split; [reflexivity|exact Hsub].
  - cbn [inline_insert] in E. destruct (kv_get m (k_key qk)) as [[k1 it]|] eqn:Gq.
    + destruct it as [|val| |]; try discriminate E.
      destruct val as [s r d|vals tr c0 d spq0|subq preq impq dtq decq spq]; try discriminate E.
      destruct impq; cbn [negb] in E; [|discriminate].
      destruct (inline_insert subq dtq qtl pe k v) as [subq'| |] eqn:R; try discriminate E. inversion E; subst m'. clear E.
      destruct p as [|kp ptl].
      { cbn [inline_set_spans resolves]. split; [|exact I]. cbn [inline_insert]. rewrite Gq. cbn [negb]. rewrite R. reflexivity. }
      cbn [resolves] in Hres. destruct Hres as (k' & sub & pre & imp & dt & dec & sp & G & Hsub).
      rewrite (set_spans_cons _ _ _ _ _ _ _ _ _ _ _ G).
      destruct (bytes_eqb (k_key kp) (k_key qk)) eqn:Same.
      * apply bytes_eqb_eq in Same. assert (Gq2 := Gq). rewrite <- Same, G in Gq2.
        inversion Gq2; subst k1 subq preq imp dtq decq spq. clear Gq2.
        destruct (IH sub dt pe k v subq' ptl e Hsub R) as [C1 C2].
        cbn [inline_insert]. rewrite <- Same.
        rewrite (set_spans_cons _ _ _ _ _ _ _ _ _ _ _ (kv_get_set _ _ _ _ _ G)).
        rewrite (kv_get_set _ _ _ _ _ G). cbn [negb]. rewrite C1. rewrite !kv_set_set.
        split; [reflexivity|]. cbn [resolves]. rewrite (kv_get_set _ _ _ _ _ G). do 7 eexists. split; [reflexivity|exact C2].
      * assert (Same' : bytes_eqb (k_key qk) (k_key kp) = false) by (rewrite bytes_eqb_sym; exact Same).
        assert (G' : kv_get (kv_set m (k_key qk) (IValue (VInline subq' preq true dtq decq spq))) (k_key kp)
                     = Some (k', IValue (VInline sub pre imp dt dec sp))) by (rewrite (kv_get_set_other _ _ _ _ Same'); exact G).
        rewrite (set_spans_cons _ _ _ _ _ _ _ _ _ _ _ G').
        cbn [inline_insert]. rewrite (kv_get_set_other _ _ _ _ Same), Gq. cbn [negb]. rewrite R.
        rewrite (kv_set_comm _ _ _ _ _ Same). split; [reflexivity|]. cbn [resolves]. rewrite G'. do 7 eexists. split; [reflexivity|exact Hsub].
    + destruct (inline_insert [] true qtl pe k v) as [sub1| |] eqn:R; try discriminate E. inversion E; subst m'. clear E.
      destruct p as [|kp ptl].
      { cbn [inline_set_spans resolves]. split; [|exact I]. cbn [inline_insert]. rewrite Gq, R. reflexivity. }
      cbn [resolves] in Hres. destruct Hres as (k' & sub & pre & imp & dt & dec & sp & G & Hsub).
      rewrite (set_spans_cons _ _ _ _ _ _ _ _ _ _ _ G).
      rewrite (set_spans_cons _ _ _ _ _ _ _ _ _ _ _ (kv_get_push_found _ _ _ _ _ G)).
      cbn [inline_insert]. rewrite (kv_get_set_none _ _ _ _ Gq), R. rewrite (kv_set_push_found _ _ _ _ _ _ G).
      split; [reflexivity|]. cbn [resolves]. rewrite (kv_get_push_found _ _ _ _ _ G). do 7 eexists. split; [reflexivity|exact Hsub].
Qed.

Lemma loop_comm : forall tl m mf p e,
  resolves m p -> table_from_pairs_loop_d m tl = COk mf ->
  table_from_pairs_loop_d (inline_set_spans m p e) tl = COk (inline_set_spans mf p e).
Proof.
  induction tl as [|[path [k v]] tl IH]; intros m mf p e Hres E; cbn [table_from_pairs_loop_d] in *.
  - inversion E; subst. reflexivity.
  - destruct (check_depth _); [discriminate|].
    destruct (inline_insert m false path _ k v) as [m1| |] eqn:R; try discriminate E.
    destruct (insert_set_spans_comm _ _ _ _ _ _ _ p e Hres R) as [C1 C2]. rewrite C1. apply IH; assumption.
Qed.

(* the computation as inline_table.rs performs it: bookkeeping right after each insertion *)
Fixpoint loop_int (m : kvs) (pairs : list (list key * (key * item))) : cres kvs :=
  match pairs with
  | [] => COk m
  | (path, (k, v)) :: tl =>
    if check_depth (length path + 1 + item_depth v) then CErr RecursionLimit
    else
      match inline_insert m false path (match path with [] => true | _ => false end) k v with
      | COk m1 => loop_int (inline_set_spans m1 path (item_end v)) tl
      | e => e
      end
  end.

Lemma pass_eq_interleaved : forall pairs m mf,
  table_from_pairs_loop_d m pairs = COk mf -> loop_int m pairs = COk (inline_spans_pass mf pairs).
Proof.
  induction pairs as [|[path [k v]] tl IH]; intros m mf E; cbn [table_from_pairs_loop_d loop_int] in *.
  - inversion E; subst. reflexivity.
  - destruct (check_depth _); [discriminate|].
    destruct (inline_insert m false path _ k v) as [m1| |] eqn:R; try discriminate E.
    unfold inline_spans_pass. cbn [fold_left]. apply IH. apply loop_comm; [eapply insert_resolves, R|exact E].
Qed.

(* ---- 3. table_from_pairs ---------------------------------------------------------------------------------------------- *)
Definition pair_nest (x : list key * (key * item)) : Prop :=
  exists c mid av e, kchain c mid (fst x ++ [fst (snd x)]) /\ item_span (snd (snd x)) = Some (av, e)
                     /\ (mid <= av)%N /\ (av <= e)%N /\ inest (snd (snd x)) = true.

Lemma loop_int_nest : forall pairs m mf,
  Inest m = true -> Forall pair_nest pairs -> loop_int m pairs = COk mf -> Inest mf = true.
Proof.
  induction pairs as [|[path [k v]] tl IH]; intros m mf Hm Hp E; cbn [loop_int] in E.
  - inversion E; subst. exact Hm.
  - inversion Hp as [|? ? Hx Htl]; subst. destruct Hx as (c & mid & av & e & Hch & Sv & L1 & L2 & Hv). cbn [fst snd] in *.
    destruct (check_depth _); [discriminate|].
    destruct (inline_insert m false path _ k v) as [m1| |] eqn:R; try discriminate E.
    eapply IH; [|exact Htl|exact E]. unfold item_end. rewrite Sv. cbn [snd].
    eapply (ins_sp_nest path m false _ k v m1 c mid av e); eassumption.
Qed.

Lemma table_from_pairs_nest pairs pre v :
  Forall pair_nest pairs -> table_from_pairs pairs pre = TmOk v ->
  exists items, v = VInline items pre false false decor_default None /\ Inest items = true.
Proof.
  intros Hp E. unfold table_from_pairs in E.
  destruct (table_from_pairs_loop_d [] pairs) as [m| |] eqn:R; try discriminate E. inversion E; subst.
  eexists. split; [reflexivity|]. eapply loop_int_nest; [|exact Hp|apply pass_eq_interleaved, R]. reflexivity.
Qed.
