(* Proofs/ConstsOk.v — L0: the constants and tables generated from the Rust sources
   (Gen/Consts.v, regenerated on every run) equal the grammar's.  Finite sweeps over all 256
   byte values, done inside Coq (`destruct b; reflexivity`). *)
From TV Require Import Base.Prelude Base.Winnow Gen.Consts Spec.Abnf Model.Strings Model.Datetime Spec.DatetimeSpec.

Ltac sweep := let b := fresh "b" in intro b; destruct b; reflexivity.

Lemma WSCHAR_ok : forall b, in_class WSCHAR b = wschar b. Proof. sweep. Qed.
Lemma NON_EOL_ok : forall b, in_class NON_EOL b = non_eol b. Proof. sweep. Qed.
Lemma NON_ASCII_ok : forall b, in_class NON_ASCII b = non_ascii b. Proof. sweep. Qed.
Lemma BASIC_UNESCAPED_ok : forall b, in_class BASIC_UNESCAPED b = basic_unescaped b. Proof. sweep. Qed.
Lemma MLB_UNESCAPED_ok : forall b, in_class MLB_UNESCAPED b = mlb_unescaped b. Proof. sweep. Qed.
Lemma LITERAL_CHAR_ok : forall b, in_class LITERAL_CHAR b = literal_char b. Proof. sweep. Qed.
Lemma MLL_CHAR_ok : forall b, in_class MLL_CHAR b = mll_char b. Proof. sweep. Qed.
Lemma UNQUOTED_CHAR_ok : forall b, in_class UNQUOTED_CHAR b = unquoted_key_char b. Proof. sweep. Qed.
Lemma DIGIT_ok : forall b, in_class DIGIT b = Abnf.digit b. Proof. sweep. Qed.
Lemma DT_DIGIT_ok : forall b, in_class DT_DIGIT b = Abnf.digit b. Proof. sweep. Qed.
Lemma DIGIT1_9_ok : forall b, in_class DIGIT1_9 b = Abnf.digit1_9 b. Proof. sweep. Qed.
Lemma DIGIT0_7_ok : forall b, in_class DIGIT0_7 b = Abnf.digit0_7 b. Proof. sweep. Qed.
Lemma DIGIT0_1_ok : forall b, in_class DIGIT0_1 b = Abnf.digit0_1 b. Proof. sweep. Qed.
Lemma HEXDIG_ok : forall b, in_class HEXDIG b = Abnf.hexdig b. Proof. sweep. Qed.
Lemma TIME_DELIM_ok : forall b, in_class TIME_DELIM b = Abnf.time_delim b. Proof. sweep. Qed.
Lemma ESCAPE_SIMPLE_ok : forall b, assoc_byte ESCAPE_SIMPLE b = escape_simple b. Proof. sweep. Qed.
Lemma ESCAPE_HEX_ok : forall b, assoc_byte ESCAPE_HEX b = escape_hex b. Proof. sweep. Qed.
Lemma VALUE_NUMBER_START_ok : forall b, in_class VALUE_NUMBER_START b = (byte_eqb b x2b || byte_eqb b x2d || Abnf.digit b).
Proof. sweep. Qed.

Lemma tokens_ok :
  COMMENT_START_SYMBOL = x23 /\ LF = x0a /\ CR = x0d /\ QUOTATION_MARK = x22 /\ APOSTROPHE = x27 /\ ESCAPE = x5c
  /\ ML_BASIC_STRING_DELIM = [x22; x22; x22] /\ ML_LITERAL_STRING_DELIM = [x27; x27; x27]
  /\ DOT_SEP = x2e /\ KEYVAL_SEP = x3d
  /\ ARRAY_OPEN = x5b /\ ARRAY_CLOSE = x5d /\ ARRAY_SEP = x2c
  /\ INLINE_TABLE_OPEN = x7b /\ INLINE_TABLE_CLOSE = x7d /\ INLINE_TABLE_SEP = x2c
  /\ STD_TABLE_OPEN = x5b /\ STD_TABLE_CLOSE = x5d /\ ARRAY_TABLE_OPEN = [x5b; x5b] /\ ARRAY_TABLE_CLOSE = [x5d; x5d]
  /\ TRUE = t_true /\ FALSE = t_false /\ INF = t_inf /\ NAN = t_nan
  /\ HEX_PREFIX = [x30; x78] /\ OCT_PREFIX = [x30; x6f] /\ BIN_PREFIX = [x30; x62].
Proof. repeat split; reflexivity. Qed.

(* date-time ranges: RFC 3339 5.6 / 5.7 as TOML uses them, for both parsers *)
Lemma datetime_ranges_ok :
  (DT_MONTH_MIN, DT_MONTH_MAX) = (1, 12)%N /\ (DT_MDAY_MIN, DT_MDAY_MAX) = (1, 31)%N
  /\ (DT_HOUR_MIN, DT_HOUR_MAX) = (0, 23)%N /\ (DT_MINUTE_MIN, DT_MINUTE_MAX) = (0, 59)%N
  /\ (DT_SECOND_MIN, DT_SECOND_MAX) = (0, 60)%N
  /\ (SD_MONTH_MIN, SD_MONTH_MAX) = (1, 12)%N /\ SD_DAY_MIN = 1%N /\ SD_HOUR_MAX = 23%N
  /\ SD_MINUTE_MAX = 59%N /\ SD_SECOND_MAX = 60%N /\ SD_NANO_MAX = 999999999%N
  /\ (SD_OFFSET_HOUR_MAX, SD_OFFSET_MINUTE_MAX) = (23, 59)%N
  /\ DT_SCALE = [0; 100000000; 10000000; 1000000; 100000; 10000; 1000; 100; 10; 1]%N.
Proof. repeat split; reflexivity. Qed.

(* the 12 x {leap, common} table of days per month, both copies *)
Lemma maxdays_ok : forall m leap_, (1 <= m <= 12)%N ->
  max_days DT_MAXDAYS m leap_ = (if (m =? 2)%N then (if leap_ then 29 else 28) else if ((m =? 4) || (m =? 6) || (m =? 9) || (m =? 11))%N then 30 else 31)%N
  /\ max_days SD_MAXDAYS m leap_ = max_days DT_MAXDAYS m leap_.
Proof.
  intros m l H.
  assert (Hm : In m [1;2;3;4;5;6;7;8;9;10;11;12]%N).
  { assert (m = 1 \/ m = 2 \/ m = 3 \/ m = 4 \/ m = 5 \/ m = 6 \/ m = 7 \/ m = 8 \/ m = 9 \/ m = 10 \/ m = 11 \/ m = 12)%N by lia.
    simpl; intuition. }
  simpl in Hm. destruct l; intuition; subst; split; reflexivity.
Qed.

Lemma float_guard_ok : FLOAT_REJECT_POS_INF = true /\ FLOAT_REJECT_NEG_INF = true.
Proof. split; reflexivity. Qed.
