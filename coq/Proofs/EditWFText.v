(* Proofs/EditWFText.v — property C08, text half: every edit operation preserves Spec/WF.v under a
   decidable side condition on (operation, tree); histories.  (The print/parse round trip of edited
   documents, closed against the WF backbone, is Proofs/EditTextClose.v.)

   WF root = t_dotted root = false /\ tbl_wf true root /\ tbl_lim 0 0 root /\ order_ok root.
     * `t_dotted root = false` and `tbl_wf true root`: proved per operation from the node lemmas of
       Proofs/EditWFTextOps.v, lifted along the path (Proofs/EditWFTextBase.v).  Side condition `wf_side`.
     * `tbl_lim 0 0 root` (implementation limits: nesting / key-path length below LIMIT): the side condition
       is the boolean limit check of the RESULT (`lim_side`), sound by `tbl_lim_b_sound` below — no
       operation-specific argument is made for the limits.
     * `order_ok root`: likewise the boolean check of the result (`order_side`), sound by `order_b_sound`.
       Operations that cannot change the section positions at all are listed in `order_free`. *)
From TV Require Import Base.Prelude Base.Utf8 Gen.Consts Spec.Abnf Spec.Lex Spec.Syntax Spec.Ordered.
From TV Require Import Model.Datetime Model.Numbers Model.Tree Model.Parse Model.Document Model.Write Model.Encode Spec.WF.
From TV Require Import Proofs.WFBool.
From TV Require Import Spec.EditSpec Model.Edit Proofs.EditRefineBase Proofs.EditRefine Proofs.EditVerbatim.
From TV Require Import Proofs.EditWFTextBase Proofs.EditWFTextOps.
Require Import Lia.

(* ==================================================================================== *)
(** * The side condition for tbl_wf, per operation *)

Definition wf_side (o : op) (t : tbl) : bool :=
  match o with
  | OInsert p k v => utf8_valid_b k && pv_ok v
  | OInsertTable p k =>
    utf8_valid_b k && node_sat p (tbl_after (op_insert_item k (ITable tbl_new))) (ITable t)
  | OInsertAot p k =>
    utf8_valid_b k && node_sat p (tbl_after (op_insert_item k (IAot [tbl_new] None))) (ITable t)
  | ORemove p k => node_sat p (remove_after k) (ITable t)
  | OArrPush p v | OArrInsert p _ v | OArrReplace p _ v => pv_ok v
  | OArrRemove _ _ | OAotPush _ | OSort _ | OFmt _ | OSortBy _ _ => true
  | OAotRemove p i => node_sat p (aot_remove_after i) (ITable t)
  | OMakeValue p k => node_sat p (slot_after k make_value mv_good) (ITable t)
  | OIntoTable p k => node_sat p (slot_after k into_table_slot (fun _ => true)) (ITable t)
  | OIntoAot p k => node_sat p (slot_after k into_aot_slot (fun _ => true)) (ITable t)
  | OISet ks x => forallb utf8_valid_b ks && ipay_ok x && iset_side ks x (ITable t)
  end.

Lemma root_step f t t' :
  node_ok f -> f (ITable t) = Some (ITable t') -> tbl_wf true t -> tbl_wf true t' /\ Rt t t'.
Proof. intros Hf H Hw. exact (Hf KRoot (ITable t) (ITable t') H Hw). Qed.

Theorem step_tbl_wf : forall t o t',
  tbl_wf true t -> apply o t = Some t' -> wf_side o t = true -> tbl_wf true t' /\ Rt t t'.
Proof.
  intros t o t' Hw H Hs. unfold apply in H.
  destruct (op_fun o) as [P f] eqn:EO. apply as_tbl_abs in H.
  assert (Plain : forall f0, f0 = f -> node_ok f0 -> tbl_wf true t' /\ Rt t t').
  { intros f0 -> Hn. exact (at_path_wf P f Hn KRoot (ITable t) (ITable t') H Hw). }
  assert (Guarded : forall g f0, f0 = f -> node_ok (guard g f0) -> node_sat P g (ITable t) = true ->
                                 tbl_wf true t' /\ Rt t t').
  { intros g f0 -> Hn Hg.
    exact (at_path_wf P (guard g f) Hn KRoot (ITable t) (ITable t') (at_path_guard P f g _ _ H Hg) Hw). }
  destruct o as [q k v|q k|q k|q k|q v|q i v|q i v|q i|q|q i|q|q|q k|q k|q k|ks x|q cm];
    simpl in EO; injection EO as <- <-; simpl in Hs.
  - apply andb_true_iff in Hs as [Hk Hv]. exact (Plain _ eq_refl (op_insert_node k v Hk Hv)).
  - apply andb_true_iff in Hs as [Hk Hg].
    exact (Guarded _ _ eq_refl (op_insert_item_node k _ Hk tbl_new_entry) Hg).
  - apply andb_true_iff in Hs as [Hk Hg].
    exact (Guarded _ _ eq_refl (op_insert_item_node k _ Hk aot_new_entry) Hg).
  - exact (Guarded _ _ eq_refl (op_remove_node k) Hs).
  - exact (Plain _ eq_refl (op_arr_push_node v Hs)).
  - exact (Plain _ eq_refl (op_arr_insert_node i v Hs)).
  - exact (Plain _ eq_refl (op_arr_replace_node i v Hs)).
  - exact (Plain _ eq_refl (op_arr_remove_node i)).
  - exact (Plain _ eq_refl op_aot_push_node).
  - exact (Guarded _ _ eq_refl (op_aot_remove_node i) Hs).
  - exact (Plain _ eq_refl op_sort_node).
  - exact (Plain _ eq_refl op_fmt_node).
  - exact (Guarded _ _ eq_refl (op_slot_node k make_value mv_good make_value_slot_wf) Hs).
  - exact (Guarded _ _ eq_refl (op_slot_node k into_table_slot (fun _ => true) (fun e He _ => into_table_slot_wf e He)) Hs).
  - exact (Guarded _ _ eq_refl (op_slot_node k into_aot_slot (fun _ => true) (fun e He _ => into_aot_slot_wf e He)) Hs).
  - apply andb_true_iff in Hs as [Hs Hside]. apply andb_true_iff in Hs as [Hu Hp].
    simpl in H. destruct ks as [|k ks]; [discriminate|].
    exact (iset_wf x Hp (k :: ks) KRoot (ITable t) (ITable t') Hu H ltac:(discriminate) Hw Hside).
  - exact (Plain _ eq_refl (op_sort_by_node cm)).
Qed.

(* ==================================================================================== *)
(** * Limits and order: decided on the result *)

Lemma forallb_all_P {A} (g : A -> bool) (P : A -> Prop) l :
  (forall x, In x l -> g x = true -> P x) -> forallb g l = true -> all_P P l.
Proof.
  induction l as [|y l IH]; simpl; intros H Hf; [exact I|].
  apply andb_true_iff in Hf as [Hy Hl]. split; [apply H; [left; reflexivity|exact Hy]|].
  apply IH; [intros; apply H; [right; assumption|assumption]|exact Hl].
Qed.

Lemma lim_b_sound :
  (forall v, (forall d, value_lim_b d v = true -> value_lim d v)
             /\ (forall d n, pair_lim_b d n (IValue v) = true -> pair_lim d n (IValue v))
             /\ (forall n, line_lim_b n (IValue v) = true -> line_lim n (IValue v)))
  /\ (forall t h n, tbl_lim_b h n t = true -> tbl_lim h n t).
Proof.
  pose (Pv := fun v => (forall d, value_lim_b d v = true -> value_lim d v)
                       /\ (forall d n, pair_lim_b d n (IValue v) = true -> pair_lim d n (IValue v))
                       /\ (forall n, line_lim_b n (IValue v) = true -> line_lim n (IValue v))).
  pose (Pt := fun t => forall h n, tbl_lim_b h n t = true -> tbl_lim h n t).
  pose (Pi := fun i => match i with IValue v => Pv v | ITable t => Pt t | IAot ts _ => Forall Pt ts | INone => True end).
  assert (Hval : forall v, (forall d, value_lim_b d v = true -> value_lim d v) ->
                           is_dotted_inl (IValue v) = false -> Pv v).
  { intros v Hv Hd. split; [exact Hv|]. split.
    - intros d n H.
      assert (Eb : pair_lim_b d n (IValue v) = Nat.ltb (n + value_depth v) LIMIT && value_lim_b d v)
        by (destruct v as [| |items pre im [|] d0 sp]; try discriminate Hd; reflexivity).
      assert (Ep : pair_lim d n (IValue v) = (n + value_depth v < LIMIT /\ value_lim d v))
        by (destruct v as [| |items pre im [|] d0 sp]; try discriminate Hd; reflexivity).
      rewrite Eb in H. rewrite Ep. apply andb_true_iff in H as [H1 H2].
      split; [apply Nat.ltb_lt; exact H1|exact (Hv _ H2)].
    - intros n H.
      assert (Eb : line_lim_b n (IValue v) = Nat.ltb n LIMIT && value_lim_b 0 v)
        by (destruct v as [| |items pre im [|] d0 sp]; try discriminate Hd; reflexivity).
      assert (Ep : line_lim n (IValue v) = (n < LIMIT /\ value_lim 0 v))
        by (destruct v as [| |items pre im [|] d0 sp]; try discriminate Hd; reflexivity).
      rewrite Eb in H. rewrite Ep. apply andb_true_iff in H as [H1 H2].
      split; [apply Nat.ltb_lt; exact H1|exact (Hv _ H2)]. }
  assert (HV : forall v, Pv v).
  { apply (value_ind4 Pv Pi Pt); unfold Pi; try (intros; exact I); try (intros; assumption).
    - intros s r d. apply Hval; [intros; exact I|reflexivity].
    - intros vals tr c d sp IH. apply Hval; [|reflexivity].
      intros d0 H. simpl in H |- *. apply andb_true_iff in H as [H1 H2]. split; [apply Nat.ltb_lt; exact H1|].
      rewrite Forall_forall in IH. eapply forallb_all_P; [|exact H2]. intros x Hx Hg. destruct x as [|e| |]; try exact I. exact (proj1 (IH _ Hx) _ Hg).
    - intros items pre im dt d sp IH. rewrite Forall_forall in IH.
      assert (Hv : forall d0, value_lim_b d0 (VInline items pre im dt d sp) = true ->
                              value_lim d0 (VInline items pre im dt d sp)).
      { intros d0 H. simpl in H |- *. apply andb_true_iff in H as [H1 H2]. split; [apply Nat.ltb_lt; exact H1|].
        eapply forallb_all_P; [|exact H2]. intros x Hx Hg. destruct x as [k i]. specialize (IH _ Hx). simpl in IH, Hg |- *.
        destruct i as [|v| |]; try exact I. exact (proj1 (proj2 IH) _ _ Hg). }
      destruct dt; [|apply Hval; [exact Hv|reflexivity]].
      split; [exact Hv|]. split.
      + intros d0 n H. simpl in H |- *. eapply forallb_all_P; [|exact H]. intros x Hx Hg. destruct x as [k i]. specialize (IH _ Hx). simpl in IH, Hg |- *.
        destruct i as [|v| |]; try exact I. exact (proj1 (proj2 IH) _ _ Hg).
      + intros n H. simpl in H |- *. eapply forallb_all_P; [|exact H]. intros x Hx Hg. destruct x as [k i]. specialize (IH _ Hx). simpl in IH, Hg |- *.
        destruct i as [|v| |]; try exact I. exact (proj2 (proj2 IH) _ Hg).
    - intros items d im dt p sp IH h n H. rewrite Forall_forall in IH. simpl in H |- *.
      eapply forallb_all_P; [|exact H]. intros x Hx Hg. destruct x as [k i]. specialize (IH _ Hx). simpl in IH, Hg |- *.
      destruct i as [|v|sub|ts sp0]; try exact I.
      + exact (proj2 (proj2 IH) _ Hg).
      + destruct (t_dotted sub); [exact (IH _ _ Hg)|].
        apply andb_true_iff in Hg as [H1 H2]. split; [apply Nat.ltb_lt; exact H1|exact (IH _ _ H2)].
      + apply andb_true_iff in Hg as [H1 H2]. split; [apply Nat.ltb_lt; exact H1|].
        rewrite Forall_forall in IH. apply (forallb_all_P _ _ _ (fun e He Hge => IH e He _ _ Hge) H2). }
  split; [exact HV|].
  apply (tbl_ind4 Pv Pi Pt); unfold Pi; try (intros; exact I); try (intros; assumption); try (intros; apply HV).
  intros items d im dt p sp IH h n H. rewrite Forall_forall in IH. simpl in H |- *.
  eapply forallb_all_P; [|exact H]. intros x Hx Hg. destruct x as [k i]. specialize (IH _ Hx). simpl in IH, Hg |- *.
  destruct i as [|v|sub|ts sp0]; try exact I.
  - exact (proj2 (proj2 IH) _ Hg).
  - destruct (t_dotted sub); [exact (IH _ _ Hg)|].
    apply andb_true_iff in Hg as [H1 H2]. split; [apply Nat.ltb_lt; exact H1|exact (IH _ _ H2)].
  - apply andb_true_iff in Hg as [H1 H2]. split; [apply Nat.ltb_lt; exact H1|].
    rewrite Forall_forall in IH. apply (forallb_all_P _ _ _ (fun e He Hge => IH e He _ _ Hge) H2).
Qed.

Lemma tbl_lim_b_sound t : tbl_lim_b 0 0 t = true -> tbl_lim 0 0 t.
Proof. apply (proj2 lim_b_sound). Qed.

Lemma nondecreasing_b_sound l : nondecreasing_b l = true -> nondecreasing l.
Proof.
  induction l as [|a l IH]; [intros _; exact I|]. destruct l as [|b l]; [intros _; exact I|].
  intro H. change (nondecreasing_b (a :: b :: l)) with ((a <=? b)%N && nondecreasing_b (b :: l)) in H.
  apply andb_true_iff in H as [H1 H2]. split; [apply N.leb_le; exact H1|apply IH; exact H2].
Qed.
Lemma order_b_sound t : order_b t = true -> order_ok t.
Proof. apply nondecreasing_b_sound. Qed.

Definition lim_side (o : op) (t : tbl) : bool :=
  match apply o t with Some t' => tbl_lim_b 0 0 t' | None => true end.
Definition order_side (o : op) (t : tbl) : bool :=
  match apply o t with Some t' => order_b t' | None => true end.

(* the complete side condition of one step *)
Definition step_side (o : op) (t : tbl) : bool := wf_side o t && lim_side o t && order_side o t.

Theorem step_WF : forall t o t', WF t -> apply o t = Some t' -> step_side o t = true -> WF t'.
Proof.
  intros t o t' (Hd & Hw & _ & _) H Hs. unfold step_side in Hs.
  apply andb_true_iff in Hs as [Hs Ho]. apply andb_true_iff in Hs as [Hs Hl].
  unfold lim_side in Hl. unfold order_side in Ho. rewrite H in Hl, Ho.
  destruct (step_tbl_wf t o t' Hw H Hs) as [Hw' (Hdd & _)].
  split; [rewrite <- Hdd; exact Hd|]. split; [exact Hw'|]. split; [apply tbl_lim_b_sound; exact Hl|apply order_b_sound; exact Ho].
Qed.

(* ==================================================================================== *)
(** * Histories *)

Fixpoint history_side (ops : list op) (t : tbl) : bool :=
  match ops with
  | [] => true
  | o :: tl => match apply o t with
               | Some t' => step_side o t && history_side tl t'
               | None => false
               end
  end.

Theorem history_WF : forall ops t t',
  WF t -> apply_seq ops t = Some t' -> history_side ops t = true -> WF t'.
Proof.
  induction ops as [|o ops IH]; intros t t' Hw H Hs; simpl in *.
  - injection H as <-. exact Hw.
  - destruct (apply o t) as [t1|] eqn:E; [|discriminate].
    apply andb_true_iff in Hs as [H1 H2].
    exact (IH t1 t' (step_WF t o t1 Hw E H1) H H2).
Qed.

(* ==================================================================================== *)
(** * The text half of C08 as a corollary of the WF backbone *)

(* Closed in Proofs/EditTextClose.v against the backbone's `WF_print_parse` (Proofs/WFPrintTop.v):
   the printed text of the edited tree parses back to the DATA of the edited tree, every standard
   table listed key/value lines first (`text_data`).  The conditional form that stood here took
   `abs (doc_root d) = abs t` as the backbone's conclusion; that equation is false for well-formed
   trees that store a value behind a sub-table (Props/C08.v ex_roundtrip_exact_refuted). *)

(* ==================================================================================== *)
(** * Which operations cannot touch the order of the sections *)

(* the positions of the sections in visiting order *)
Fixpoint tpos (t : tbl) : list (option N) :=
  match t with
  | Tbl items _ _ dotted pos _ =>
    (if dotted then [] else [pos])
    ++ flat_map (fun kv => match snd kv with
                           | ITable sub => tpos sub
                           | IAot ts _ => flat_map tpos ts
                           | _ => []
                           end) items
  end.
Definition ipos (i : item) : list (option N) :=
  match i with ITable t => tpos t | IAot ts _ => flat_map tpos ts | _ => [] end.
Lemma tpos_eq items d im dt pos sp :
  tpos (Tbl items d im dt pos sp) = (if dt then [] else [pos]) ++ flat_map (fun kv => ipos (snd kv)) items.
Proof. reflexivity. Qed.

Lemma map_flat_map {A B C} (f : B -> C) (g : A -> list B) l :
  map f (flat_map g l) = flat_map (fun x => map f (g x)) l.
Proof. induction l as [|x l IH]; simpl; [reflexivity|]. rewrite map_app, IH. reflexivity. Qed.

Definition spos (s : tbl * list key * bool) : option N := t_position (fst (fst s)).

Lemma sections_tpos : forall t path arr, map spos (sections t path arr) = tpos t.
Proof.
  pose (Pt := fun t => forall path arr, map spos (sections t path arr) = tpos t).
  pose (Pi := fun i => match i with ITable t => Pt t | IAot ts _ => Forall Pt ts | _ => True end).
  pose (Pv := fun _ : value => True).
  apply (tbl_ind4 Pv Pi Pt); unfold Pv, Pi; try (intros; exact I); try (intros; assumption).
  intros items d im dt pos sp IH path arr. rewrite Forall_forall in IH.
  simpl sections. rewrite map_app, tpos_eq. f_equal; [destruct dt; reflexivity|].
  rewrite map_flat_map. apply flat_map_ext_in || idtac.
  induction items as [|[k i] items IHi]; [reflexivity|]. simpl. f_equal.
  - specialize (IH (k, i) (or_introl eq_refl)). simpl in IH.
    destruct i as [|v|sub|ts sp0]; try reflexivity.
    + apply IH.
    + rewrite map_flat_map. rewrite Forall_forall in IH. clear -IH.
      induction ts as [|e ts IHt]; [reflexivity|]. simpl. f_equal; [apply IH; left; reflexivity|].
      apply IHt. intros. apply IH. right. assumption.
  - apply IHi. intros. apply IH. right. assumption.
Qed.

Fixpoint assign_N (last : N) (l : list (option N)) : list N :=
  match l with
  | [] => []
  | o :: tl => let pos := match o with Some q => q | None => last end in pos :: assign_N pos tl
  end.
Lemma assign_positions_N last l : map fst (assign_positions last l) = assign_N last (map spos l).
Proof.
  revert last. induction l as [|[[t p] a] l IH]; intro last; simpl; [reflexivity|].
  unfold spos at 1. simpl. f_equal. apply IH.
Qed.
Lemma order_ok_tpos t : order_ok t <-> nondecreasing (assign_N 0 (tpos t)).
Proof. unfold order_ok. rewrite assign_positions_N, sections_tpos. reflexivity. Qed.

(* an operation that leaves the positions of its node alone leaves those of the document alone *)
Lemma flat_map_kv_upd k F m m' :
  kv_upd k F m = Some m' -> (forall i i', F i = Some i' -> ipos i' = ipos i) ->
  flat_map (fun kv => ipos (snd kv)) m' = flat_map (fun kv => ipos (snd kv)) m.
Proof.
  revert m'. induction m as [|[k1 i1] m IH]; intros m' H Hf; simpl in H; [discriminate|].
  destruct (bytes_eqb (k_key k1) k).
  - destruct (F i1) as [i1'|] eqn:Fi; simpl in H; [|discriminate]. injection H as <-. simpl.
    rewrite (Hf _ _ Fi). reflexivity.
  - destruct (kv_upd k F m) as [m1|]; simpl in H; [|discriminate]. injection H as <-. simpl.
    rewrite (IH m1 eq_refl Hf). reflexivity.
Qed.
Lemma flat_map_nth_upd n F (l l' : list tbl) :
  nth_upd n F l = Some l' -> (forall x x', F x = Some x' -> tpos x' = tpos x) ->
  flat_map tpos l' = flat_map tpos l.
Proof.
  revert n l'. induction l as [|y l IH]; intros [|n] l' H Hf; simpl in H; try discriminate.
  - destruct (F y) as [y'|] eqn:Fy; simpl in H; [|discriminate]. injection H as <-. simpl. rewrite (Hf _ _ Fy). reflexivity.
  - destruct (nth_upd n F l) as [l1|] eqn:E; simpl in H; [|discriminate]. injection H as <-. simpl.
    rewrite (IH n l1 E Hf). reflexivity.
Qed.

Lemma at_path_ipos P f :
  (forall i i', f i = Some i' -> ipos i' = ipos i) ->
  forall it it', at_path P f it = Some it' -> ipos it' = ipos it.
Proof.
  intro Hf. induction P as [|s P IH]; intros it it' H; [exact (Hf _ _ H)|].
  destruct s as [k|n]; simpl in H.
  - destruct it as [|[sc r d|vals tr cm d sp|items pre im dt d sp]|[items d im dt pos sp]|ts sp]; try discriminate.
    + destruct (kv_upd k _ items) as [items'|]; simpl in H; [|discriminate]. injection H as <-. reflexivity.
    + destruct (kv_upd k _ items) as [items'|] eqn:E; simpl in H; [|discriminate]. injection H as <-.
      cbn [ipos]. rewrite !tpos_eq. f_equal. apply (flat_map_kv_upd _ _ _ _ E).
      intros i i' Fi. cbv beta in Fi. destruct (item_is_none i); [discriminate|]. exact (IH _ _ Fi).
  - destruct it as [|[sc r d|vals tr cm d sp|items pre im dt d sp]|[items d im dt pos sp]|ts sp]; try discriminate.
    + destruct (nth_upd n _ vals) as [vals'|]; simpl in H; [|discriminate]. injection H as <-. reflexivity.
    + destruct (nth_upd n _ ts) as [ts'|] eqn:E; simpl in H; [|discriminate]. injection H as <-.
      simpl. apply (flat_map_nth_upd _ _ _ _ E).
      intros x x' Fx. cbv beta in Fx. destruct (at_path P f (ITable x)) as [[| |t'|]|] eqn:A; simpl in Fx; try discriminate.
      injection Fx as <-. exact (IH _ _ A).
Qed.

(* the array operations and fmt work on values / formatting only *)
Definition order_free (o : op) : bool :=
  match o with
  | OArrPush _ _ | OArrInsert _ _ _ | OArrReplace _ _ _ | OArrRemove _ _ | OFmt _ => true
  | _ => false
  end.

Lemma decorate_ipos m :
  flat_map (fun kv => ipos (snd kv)) (decorate_items m) = flat_map (fun kv => ipos (snd kv)) m.
Proof.
  unfold decorate_items. induction m as [|[k i] m IH]; simpl; [reflexivity|]. rewrite IH. destruct i; reflexivity.
Qed.

Theorem order_free_ok : forall o t t',
  order_free o = true -> apply o t = Some t' -> order_ok t -> order_ok t'.
Proof.
  intros o t t' Hf H Ho. unfold apply in H. destruct (op_fun o) as [P f] eqn:EO. apply as_tbl_abs in H.
  assert (K : (forall i i', f i = Some i' -> ipos i' = ipos i) -> order_ok t').
  { intro Hn. pose proof (at_path_ipos P f Hn _ _ H) as E. simpl in E.
    apply order_ok_tpos. rewrite E. apply order_ok_tpos. exact Ho. }
  destruct o; try discriminate Hf; simpl in EO; injection EO as <- <-; apply K; intros i0 i' Hi.
  - destruct i0 as [|[|vals tr c d sp|]| |]; simpl in Hi; try discriminate. injection Hi as <-. reflexivity.
  - destruct i0 as [|[|vals tr c d sp|]| |]; simpl in Hi; try discriminate.
    destruct (vec_insert _ _ vals); simpl in Hi; [|discriminate]. injection Hi as <-. reflexivity.
  - destruct i0 as [|[|vals tr c d sp|]| |]; simpl in Hi; try discriminate.
    destruct (nth_upd _ _ vals); simpl in Hi; [|discriminate]. injection Hi as <-. reflexivity.
  - destruct i0 as [|[|vals tr c d sp|]| |]; simpl in Hi; try discriminate.
    destruct (vec_remove _ vals) as [[[| | |] ?]|]; try discriminate. injection Hi as <-. reflexivity.
  - destruct i0 as [|[|vals tr c d sp|items pre im dt d sp]|[items d im dt pos sp]|]; simpl in Hi; try discriminate;
      injection Hi as <-; try reflexivity.
    cbn [ipos tbl_with_items]. rewrite !tpos_eq, decorate_ipos. reflexivity.
Qed.

(* sorting moves whole entries: the positions of the sections are permuted with them, so `order_side` (the check
   of the result) is the side condition of sort_values / sort_values_by on a TABLE.  On an INLINE table there
   are no sections: the order cannot break, whatever the comparator *)
Definition is_value_node (i : item) : bool := match i with IValue _ => true | _ => false end.
Definition sort_path (o : op) : option path :=
  match o with OSort p | OSortBy p _ => Some p | _ => None end.

Theorem sort_inline_order_ok : forall o p t t',
  sort_path o = Some p -> node_sat p is_value_node (ITable t) = true ->
  apply o t = Some t' -> order_ok t -> order_ok t'.
Proof.
  intros o p t t' Hp Hg H Ho. unfold apply in H. destruct (op_fun o) as [P f] eqn:EO. apply as_tbl_abs in H.
  assert (K : P = p -> (forall i i', guard is_value_node f i = Some i' -> ipos i' = ipos i) -> order_ok t').
  { intros -> Hn. pose proof (at_path_ipos p (guard is_value_node f) Hn _ _ (at_path_guard p f is_value_node _ _ H Hg)) as E.
    simpl in E. apply order_ok_tpos. rewrite E. apply order_ok_tpos. exact Ho. }
  destruct o; try discriminate Hp; simpl in EO, Hp; injection EO as <- <-; injection Hp as <-; apply K; try reflexivity;
    intros i0 i' Hi; unfold guard in Hi; destruct i0 as [|v| |]; try discriminate Hi; cbn [is_value_node] in Hi.
  - destruct v; simpl in Hi; try discriminate. injection Hi as <-. reflexivity.
  - destruct v as [| |items pre im dt d sp]; unfold op_sort_by in Hi; try discriminate.
    destruct (inline_is_map (VInline items pre im dt d sp)); [|discriminate]. injection Hi as <-. reflexivity.
Qed.
