(* Proofs/NoPanicTop.v — C04: the statements of Props/C04.v in plain terms (no auxiliary judgement
   in the conclusion where avoidable), derived from NoPanicBase/Lex/Value/State/Doc. *)
From TV Require Import Base.Prelude Base.Utf8 Base.Winnow Gen.Consts.
From TV Require Import Model.Trivia Model.Strings Model.Datetime Model.Numbers Model.Tree Model.Parse Model.Document.
From TV Require Import Proofs.NoPanicBase Proofs.NoPanicLex Proofs.NoPanicValue Proofs.NoPanicState Proofs.NoPanicDoc.
Require Import Lia.

Lemma safe_plain {A} (p : parser A) : safe p <-> forall i s, p i <> Panic s.
Proof.
  split.
  - intros H i s E. specialize (H i I). rewrite E in H. exact H.
  - intros H i _. specialize (H i). destruct (p i); try exact I. eapply H. reflexivity.
Qed.

(* what the four judgements mean, in terms of the model only *)
Lemma judgements_meaning :
  (forall A (p : parser A), safe p <-> forall i s, p i <> Panic s)
  /\ (forall A (p : parser A), mono p <->
        forall i a i', p i = Ok a i' ->
          exists t, rest i = t ++ rest i' /\ pos i' = (pos i + N.of_nat (length t))%N /\ depth i' = depth i)
  /\ (forall A (p : parser A), progress p <-> forall i a i', p i = Ok a i' -> length (rest i') < length (rest i)).
Proof.
  refine (conj _ (conj _ _)).
  - intros. apply safe_plain.
  - intros A p. split.
    + intros H i a i' E. destruct (H i a i' E) as (t & R & P & D & _). eauto.
    + intros H i a i' E. destruct (H i a i' E) as (t & R & P & D). exists t. repeat split; auto. apply forallb_anyb.
  - intros. reflexivity.
Qed.

(* Goal 1: the loops of Base/Winnow.v over ARBITRARY sub-parsers: mono is preserved; with mono, safe and
   progressing elements (separators) the loop started with fuel S (length (rest i)) never panics — neither
   P_out_of_fuel nor P_repeat_no_progress. *)
Lemma loops_total :
  (forall A (p : parser A), mono p -> mono (repeat0 p) /\ mono (repeat1 p))
  /\ (forall A S (p : parser A) (sep : parser S), mono p -> mono sep -> mono (separated0 p sep) /\ mono (separated1 p sep))
  /\ (forall A (p : parser A), mono p -> progress p -> safe p -> safe (repeat0 p) /\ safe (repeat1 p))
  /\ (forall A S (p : parser A) (sep : parser S), mono p -> mono sep -> progress sep -> safe p -> safe sep ->
        safe (separated0 p sep) /\ safe (separated1 p sep))
  /\ (forall p, mono p -> progress p -> safe p -> safe (chunks p)).
Proof.
  refine (conj _ (conj _ (conj _ (conj _ _)))); intros.
  - split; np.
  - split; np.
  - split; np.
  - split; np.
  - np.
Qed.

(* Goal 1, sequencing combinators: mono and safe are preserved *)
Lemma combinators_total :
  (forall A B (p : parser A) (f : A -> parser B), mono p -> (forall a, mono (f a)) -> mono (bind p f))
  /\ (forall A B (p : parser A) (f : A -> parser B), mono p -> safe p -> (forall a, safe (f a)) -> safe (bind p f))
  /\ (forall A (p q : parser A), mono p -> mono q -> mono (alt p q))
  /\ (forall A (p q : parser A), safe p -> safe q -> safe (alt p q))
  /\ (forall A (p : parser A), mono p -> mono (opt p) /\ mono (peek p) /\ mono (cut_err p) /\ mono (context p)
                                         /\ mono (span_ p) /\ mono (with_span p) /\ mono (taken p))
  /\ (forall A (p : parser A), safe p -> safe (opt p) /\ safe (peek p) /\ safe (cut_err p) /\ safe (context p)
                                         /\ safe (span_ p) /\ safe (with_span p) /\ safe (taken p))
  /\ (forall A B (g : A -> B) (p : parser A), (mono p -> mono (pmap g p)) /\ (safe p -> safe (pmap g p)))
  /\ (forall A (g : A -> bool) (p : parser A), (mono p -> mono (verify g p)) /\ (safe p -> safe (verify g p)))
  /\ (forall A B (g : A -> option B) (p : parser A), (mono p -> mono (verify_map g p)) /\ (safe p -> safe (verify_map g p)))
  /\ (forall A B (g : A -> tm B) (p : parser A),
        (mono p -> mono (try_map g p)) /\ (safe p -> (forall a s, g a <> TmPanic s) -> safe (try_map g p)))
  /\ (forall A B (p : parser A) (g : A -> sub B),
        (mono p -> mono (and_then p g)) /\ (safe p -> (forall a s, g a <> SubPanic s) -> safe (and_then p g)))
  /\ (forall n (p : parser bytes),
        (mono p -> mono (unchecked_utf8 n p))
        /\ (safe p -> valP (fun b => forallb ascii b = true) p -> safe (unchecked_utf8 n p)))
  /\ (forall A (p : parser A), mono p -> safe p -> mono (check_recursion p) /\ safe (check_recursion p)).
Proof.
  refine (conj _ (conj _ (conj _ (conj _ (conj _ (conj _ (conj _ (conj _ (conj _ (conj _ (conj _ (conj _ _))))))))))));
    intros; repeat apply conj; intros; try solve [np].
  - apply safe_try_map_total; assumption.
  - apply safe_and_then; assumption.
  - apply safe_unchecked; assumption.
Qed.

(* Goal 4 in plain form *)
Lemma lexical_total_plain : forall (i : input) (s : site),
  ws i <> Panic s /\ comment i <> Panic s /\ newline i <> Panic s /\ ws_newline i <> Panic s
  /\ ws_newlines i <> Panic s /\ ws_comment_newline i <> Panic s /\ line_ending i <> Panic s
  /\ line_trailing i <> Panic s
  /\ basic_string i <> Panic s /\ ml_basic_string i <> Panic s /\ literal_string i <> Panic s
  /\ ml_literal_string i <> Panic s /\ string_ i <> Panic s
  /\ integer i <> Panic s /\ float i <> Panic s /\ true_ i <> Panic s /\ false_ i <> Panic s
  /\ date_time i <> Panic s /\ simple_key i <> Panic s /\ key_ i <> Panic s.
Proof.
  intros i s. repeat apply conj; apply safe_plain; np.
Qed.

Lemma value_total_plain : forall (i : input) (s : site), value_ i <> Panic s.
Proof. intros i s. apply safe_plain, value_safe. Qed.

Lemma document_total_plain : forall (i : input) (s : site), document i <> Panic s.
Proof. intros i s. apply safe_plain, document_safe. Qed.

Lemma entry_points_total : forall (s : bytes) (st : site),
  parse_document s <> PPanic st /\ parse_value_raw s <> PPanic st
  /\ parse_key s <> PPanic st /\ parse_key_path s <> PPanic st.
Proof.
  intros s st. repeat apply conj;
    [apply parse_document_total|apply parse_value_total|apply parse_key_total|apply parse_key_path_total].
Qed.
