(* Proofs/NumbersRT_Value.v — C11: number tokens seen through the value parser
   (`Value::from_str`): in the `b'+' | b'-' | b'0'..=b'9'` arm date_time is tried first, then
   float, then integer.  On a digit run that is not followed by `-` or `:` date_time
   backtracks (it never commits), so the number parsers decide. *)
From TV Require Import Base.Prelude Base.Utf8 Base.Winnow Gen.Consts.
From TV Require Import Model.Trivia Model.Strings Model.Datetime Model.Numbers Model.Tree Model.Parse Model.Document.
From TV Require Import Proofs.NumbersRT_Lex.
Require Import Lia ZifyBool ZifyN ZifyNat.

(* ---- date_time backtracks on number-like text ---------------------------------------------------- *)
(* the head of s is not a byte on which date_time could commit: after a digit run, not `-` or `:` *)
Fixpoint no_dt (s : bytes) : Prop :=
  match s with
  | [] => True
  | b :: s' => if is_digit b then no_dt s' else b <> dash /\ b <> colon
  end.

Lemma no_dt_head s : no_dt s -> match s with [] => True | b :: _ => b <> dash /\ b <> colon end.
Proof.
  destruct s as [|b s]; [auto|]. cbn [no_dt]. destruct (is_digit b) eqn:E; [|auto].
  intros _. split; intro H; subst; discriminate E.
Qed.

Lemma byte_not s (x : byte) i :
  rest i = s -> match s with [] => True | b :: _ => b <> x end -> byte_ x i = Bt err0 i.
Proof.
  intros Hr H. unfold byte_, one_of. rewrite Hr. destruct s as [|b s]; [reflexivity|].
  destruct (byte_eqb x b) eqn:E; [apply byte_eqb_eq in E; subst; contradiction | reflexivity].
Qed.

Lemma take_upto_digits n s :
  forallb is_digit (take_upto (in_class DT_DIGIT) n s) = true.
Proof.
  revert s; induction n as [|n IH]; intros [|b s]; cbn [take_upto]; try reflexivity.
  destruct (in_class DT_DIGIT b) eqn:E; [|reflexivity].
  cbn [forallb]. rewrite <- DT_DIGIT_is_digit, E. apply IH.
Qed.

Lemma take_upto_prefix n s :
  exists r, s = take_upto (in_class DT_DIGIT) n s ++ r /\
            (no_dt s -> no_dt r).
Proof.
  revert s; induction n as [|n IH]; intros [|b s]; cbn [take_upto].
  - exists []. auto.
  - exists (b :: s). auto.
  - exists []. auto.
  - destruct (in_class DT_DIGIT b) eqn:E.
    + destruct (IH s) as (r & Hr & Hn). exists r. split; [cbn [app]; congruence|].
      cbn [no_dt]. rewrite <- DT_DIGIT_is_digit, E. exact Hn.
    + exists (b :: s). auto.
Qed.

Lemma digits_ascii s : forallb is_digit s = true -> forallb ascii s = true.
Proof.
  induction s as [|b s IH]; [reflexivity|]. cbn [forallb]. intro H.
  apply andb_true_iff in H as [Hb Hs]. rewrite (IH Hs).
  unfold is_digit in Hb. unfold ascii. replace (b2n b <=? 127)%N with true by lia. reflexivity.
Qed.

Lemma dec_value_acc_bound s : forall acc, forallb is_digit s = true ->
  (dec_value_acc acc s < (acc + 1) * 10 ^ N.of_nat (length s))%N.
Proof.
  induction s as [|b s IH]; intros acc H.
  - cbn. lia.
  - cbn [forallb] in H. apply andb_true_iff in H as [Hb Hs].
    cbn [dec_value_acc length]. specialize (IH (acc * 10 + digit_val b)%N Hs).
    rewrite Nat2N.inj_succ, N.pow_succ_r'.
    unfold digit_val in *. unfold is_digit in Hb. nia.
Qed.

(* unsigned_digits m (Some m): either backtracks in place or yields exactly m digits *)
Lemma unsigned_digits_spec m i :
  unsigned_digits m (Some m) i = Bt err0 i \/
  exists ds r, rest i = ds ++ r /\ length ds = m /\ forallb is_digit ds = true /\
               (no_dt (rest i) -> no_dt r) /\
               unsigned_digits m (Some m) i = Ok ds (advance m i).
Proof.
  unfold unsigned_digits, unchecked_utf8, take_while_mn.
  destruct (take_upto_prefix m (rest i)) as (r & Hr & Hn).
  pose proof (take_upto_digits m (rest i)) as Hd.
  set (got := take_upto (in_class DT_DIGIT) m (rest i)) in *.
  destruct (Nat.ltb (length got) m) eqn:El; [left; reflexivity|].
  right. exists got, r.
  assert (Hlen : length got = m).
  { apply Nat.ltb_ge in El. assert (length got <= m); [|lia].
    unfold got. clear. revert m. induction (rest i) as [|b s IH]; intros [|m]; cbn [take_upto length]; try lia.
    destruct (in_class DT_DIGIT b); cbn [length]; [specialize (IH m)|]; lia. }
  rewrite (ascii_utf8 _ (digits_ascii _ Hd)), Hlen. auto.
Qed.

Lemma date_fullyear_spec i :
  no_dt (rest i) ->
  is_bt (date_fullyear i) \/ exists y j, date_fullyear i = Ok y j /\ no_dt (rest j).
Proof.
  intro Hn. unfold date_fullyear, try_map.
  destruct (unsigned_digits_spec 4 i) as [E | (ds & r & Hr & Hl & Hd & Hnr & E)]; rewrite E.
  - left. exact I.
  - right. unfold parse_unsigned.
    destruct ds as [|d0 ds']; [discriminate|]. rewrite Hd.
    pose proof (dec_value_acc_bound (d0 :: ds') 0 Hd) as Hb. rewrite Hl in Hb.
    fold (dec_value (d0 :: ds')) in Hb.
    replace (dec_value (d0 :: ds') <? 2 ^ 16)%N with true by (change (2 ^ 16)%N with 65536%N; change (10 ^ N.of_nat 4)%N with 10000%N in Hb; lia).
    eexists _, _. split; [reflexivity|].
    rewrite rest_advance, Hr, <- Hl, skipn_app_exact. apply Hnr, Hn.
Qed.

Lemma two_digit_field_spec lo hi i :
  no_dt (rest i) ->
  is_bt (two_digit_field lo hi i) \/ exists v j, two_digit_field lo hi i = Ok v j /\ no_dt (rest j).
Proof.
  intro Hn. unfold two_digit_field, try_map.
  destruct (unsigned_digits_spec 2 i) as [E | (ds & r & Hr & Hl & Hd & Hnr & E)]; rewrite E.
  - left. exact I.
  - unfold parse_unsigned.
    destruct ds as [|d0 ds']; [discriminate|]. rewrite Hd.
    pose proof (dec_value_acc_bound (d0 :: ds') 0 Hd) as Hb. rewrite Hl in Hb.
    fold (dec_value (d0 :: ds')) in Hb.
    replace (dec_value (d0 :: ds') <? 2 ^ 8)%N with true by (change (2 ^ 8)%N with 256%N; change (10 ^ N.of_nat 2)%N with 100%N in Hb; lia).
    destruct ((lo <=? dec_value (d0 :: ds'))%N && (dec_value (d0 :: ds') <=? hi)%N).
    + right. eexists _, _. split; [reflexivity|].
      rewrite rest_advance, Hr, <- Hl, skipn_app_exact. apply Hnr, Hn.
    + left. exact I.
Qed.

Lemma date_time_bt i : no_dt (rest i) -> is_bt (date_time i).
Proof.
  intro Hn. unfold date_time, alt.
  assert (H1 : is_bt (full_date i)).
  { unfold full_date, bind.
    destruct (date_fullyear_spec i Hn) as [H | (y & j & E & Hj)].
    - destruct (date_fullyear i); simpl in H; try contradiction. exact I.
    - rewrite E. pose proof (no_dt_head _ Hj) as Hh.
      rewrite (byte_not (rest j) dash j eq_refl); [exact I|].
      destruct (rest j); [exact I | tauto]. }
  assert (H2 : is_bt (partial_time i)).
  { unfold partial_time, bind, time_hour.
    destruct (two_digit_field_spec DT_HOUR_MIN DT_HOUR_MAX i Hn) as [H | (v & j & E & Hj)].
    - destruct (two_digit_field _ _ i); simpl in H; try contradiction. exact I.
    - rewrite E. pose proof (no_dt_head _ Hj) as Hh.
      rewrite (byte_not (rest j) colon j eq_refl); [exact I|].
      destruct (rest j); [exact I | tauto]. }
  unfold context at 1. unfold bind at 1.
  destruct (full_date i); simpl in H1; try contradiction.
  unfold context, pmap. destruct (partial_time i); simpl in H2; try contradiction. exact I.
Qed.

(* a leading sign: no digit at all, both alternatives backtrack at once *)
Lemma no_dt_sign b s : is_sign b = true -> no_dt (b :: s).
Proof.
  intro H. cbn [no_dt]. unfold is_sign in H.
  apply orb_true_iff in H as [H|H]; apply byte_eqb_eq in H; subst b.
  - cbn. split; discriminate.
  - (* `-`: handled separately below; no_dt is too strong here *)
Abort.
