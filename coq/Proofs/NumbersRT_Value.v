(* Proofs/NumbersRT_Value.v — C11: number tokens seen through the value parser
   (`Value::from_str`): in the `b'+' | b'-' | b'0'..=b'9'` arm date_time is tried first, then
   float, then integer.  On a digit run that is not followed by `-` or `:` date_time
   backtracks (it never commits), so the number parsers decide. *)
From TV Require Import Base.Prelude Base.Utf8 Base.Winnow Gen.Consts.
From TV Require Import Model.Trivia Model.Strings Model.Datetime Model.Numbers Model.Tree Model.Parse Model.Document.
From TV Require Import Model.Write Proofs.Eoi Proofs.NumbersRT_Lex Proofs.NumbersRT_Int.
Require Import Lia ZifyBool ZifyN ZifyNat.

(* ---- date_time backtracks on number-like text ---------------------------------------------------- *)
(* the head of s is not a byte on which date_time could commit: after a digit run, not `-` or `:` *)
Fixpoint no_dt (s : bytes) : Prop :=
  match s with
  | [] => True
  | b :: s' => if is_digit b then no_dt s' else b <> dash /\ b <> colon
  end.

Lemma no_dt_head s : no_dt s -> match s with [] => True | b :: _ => b <> dash /\ b <> colon end.
Proof.
  destruct s as [|b s]; [auto|]. cbn [no_dt]. destruct (is_digit b) eqn:E; [|auto].
  intros _. split; intro H; subst; discriminate E.
Qed.

Lemma byte_not s (x : byte) i :
  rest i = s -> match s with [] => True | b :: _ => b <> x end -> byte_ x i = Bt err0 i.
Proof.
  intros Hr H. unfold byte_, one_of. rewrite Hr. destruct s as [|b s]; [reflexivity|].
  destruct (byte_eqb x b) eqn:E; [apply byte_eqb_eq in E; subst; contradiction | reflexivity].
Qed.

Lemma take_upto_digits n s :
  forallb is_digit (take_upto (in_class DT_DIGIT) n s) = true.
Proof.
  revert s; induction n as [|n IH]; intros [|b s]; cbn [take_upto]; try reflexivity.
  destruct (in_class DT_DIGIT b) eqn:E; [|reflexivity].
  cbn [forallb]. rewrite <- DT_DIGIT_is_digit, E. apply IH.
Qed.

Lemma take_upto_prefix n s :
  exists r, s = take_upto (in_class DT_DIGIT) n s ++ r /\
            (no_dt s -> no_dt r).
Proof.
  revert s; induction n as [|n IH]; intros [|b s]; cbn [take_upto].
  - exists []. auto.
  - exists (b :: s). auto.
  - exists []. auto.
  - destruct (in_class DT_DIGIT b) eqn:E.
    + destruct (IH s) as (r & Hr & Hn). exists r. split; [cbn [app]; congruence|].
      cbn [no_dt]. rewrite <- DT_DIGIT_is_digit, E. exact Hn.
    + exists (b :: s). auto.
Qed.

Lemma digits_ascii s : forallb is_digit s = true -> forallb ascii s = true.
Proof.
  induction s as [|b s IH]; [reflexivity|]. cbn [forallb]. intro H.
  apply andb_true_iff in H as [Hb Hs]. rewrite (IH Hs).
  unfold is_digit in Hb. unfold ascii. replace (b2n b <=? 127)%N with true by lia. reflexivity.
Qed.

Lemma dec_value_acc_bound s : forall acc, forallb is_digit s = true ->
  (dec_value_acc acc s < (acc + 1) * 10 ^ N.of_nat (length s))%N.
Proof.
  induction s as [|b s IH]; intros acc H.
  - cbn. lia.
  - cbn [forallb] in H. apply andb_true_iff in H as [Hb Hs].
    cbn [dec_value_acc length]. specialize (IH (acc * 10 + digit_val b)%N Hs).
    rewrite Nat2N.inj_succ, N.pow_succ_r'.
    unfold digit_val in *. unfold is_digit in Hb. nia.
Qed.

(* unsigned_digits m (Some m): either backtracks in place or yields exactly m digits *)
Lemma unsigned_digits_spec m i :
  unsigned_digits m (Some m) i = Bt err0 i \/
  exists ds r, rest i = ds ++ r /\ length ds = m /\ forallb is_digit ds = true /\
               (no_dt (rest i) -> no_dt r) /\
               unsigned_digits m (Some m) i = Ok ds (advance m i).
Proof.
  unfold unsigned_digits, unchecked_utf8, take_while_mn.
  destruct (take_upto_prefix m (rest i)) as (r & Hr & Hn).
  pose proof (take_upto_digits m (rest i)) as Hd.
  set (got := take_upto (in_class DT_DIGIT) m (rest i)) in *.
  destruct (Nat.ltb (length got) m) eqn:El; [left; reflexivity|].
  right. exists got, r.
  assert (Hlen : length got = m).
  { apply Nat.ltb_ge in El. assert (length got <= m); [|lia].
    unfold got. clear. revert m. induction (rest i) as [|b s IH]; intros [|m]; cbn [take_upto length]; try lia.
    destruct (in_class DT_DIGIT b); cbn [length]; [specialize (IH m)|]; lia. }
  rewrite (ascii_utf8 _ (digits_ascii _ Hd)), Hlen. auto.
Qed.

Lemma date_fullyear_spec i :
  no_dt (rest i) ->
  is_bt (date_fullyear i) \/ exists y j, date_fullyear i = Ok y j /\ no_dt (rest j).
Proof.
  intro Hn. unfold date_fullyear, try_map.
  destruct (unsigned_digits_spec 4 i) as [E | (ds & r & Hr & Hl & Hd & Hnr & E)]; rewrite E.
  - left. exact I.
  - right. unfold parse_unsigned.
    destruct ds as [|d0 ds']; [discriminate|]. rewrite Hd.
    pose proof (dec_value_acc_bound (d0 :: ds') 0 Hd) as Hb. rewrite Hl in Hb.
    fold (dec_value (d0 :: ds')) in Hb.
    replace (dec_value (d0 :: ds') <? 2 ^ 16)%N with true by (change (2 ^ 16)%N with 65536%N; change (10 ^ N.of_nat 4)%N with 10000%N in Hb; lia).
    eexists _, _. split; [reflexivity|].
    rewrite rest_advance, Hr, <- Hl, skipn_app_exact. apply Hnr, Hn.
Qed.

Lemma two_digit_field_spec lo hi i :
  no_dt (rest i) ->
  is_bt (two_digit_field lo hi i) \/ exists v j, two_digit_field lo hi i = Ok v j /\ no_dt (rest j).
Proof.
  intro Hn. unfold two_digit_field, try_map.
  destruct (unsigned_digits_spec 2 i) as [E | (ds & r & Hr & Hl & Hd & Hnr & E)]; rewrite E.
  - left. exact I.
  - unfold parse_unsigned.
    destruct ds as [|d0 ds']; [discriminate|]. rewrite Hd.
    pose proof (dec_value_acc_bound (d0 :: ds') 0 Hd) as Hb. rewrite Hl in Hb.
    fold (dec_value (d0 :: ds')) in Hb.
    replace (dec_value (d0 :: ds') <? 2 ^ 8)%N with true by (change (2 ^ 8)%N with 256%N; change (10 ^ N.of_nat 2)%N with 100%N in Hb; lia).
    destruct ((lo <=? dec_value (d0 :: ds'))%N && (dec_value (d0 :: ds') <=? hi)%N).
    + right. eexists _, _. split; [reflexivity|].
      rewrite rest_advance, Hr, <- Hl, skipn_app_exact. apply Hnr, Hn.
    + left. exact I.
Qed.

Lemma date_time_bt i : no_dt (rest i) -> is_bt (date_time i).
Proof.
  intro Hn. unfold date_time, alt.
  assert (H1 : is_bt (full_date i)).
  { unfold full_date, bind.
    destruct (date_fullyear_spec i Hn) as [H | (y & j & E & Hj)].
    - destruct (date_fullyear i); simpl in H; try contradiction. exact I.
    - rewrite E. pose proof (no_dt_head _ Hj) as Hh.
      rewrite (byte_not (rest j) dash j eq_refl); [exact I|].
      destruct (rest j); [exact I | tauto]. }
  assert (H2 : is_bt (partial_time i)).
  { unfold partial_time, bind, time_hour.
    destruct (two_digit_field_spec DT_HOUR_MIN DT_HOUR_MAX i Hn) as [H | (v & j & E & Hj)].
    - destruct (two_digit_field _ _ i); simpl in H; try contradiction. exact I.
    - rewrite E. pose proof (no_dt_head _ Hj) as Hh.
      rewrite (byte_not (rest j) colon j eq_refl); [exact I|].
      destruct (rest j); [exact I | tauto]. }
  unfold context at 1. unfold bind at 1.
  destruct (full_date i); simpl in H1; try contradiction.
  unfold context, pmap. destruct (partial_time i); simpl in H2; try contradiction. exact I.
Qed.

(* a leading non-digit (a sign): no digit at all, both alternatives backtrack at once *)
Definition no_dt0 (s : bytes) : Prop :=
  match s with
  | [] => True
  | b :: s' => if is_digit b then no_dt s' else True
  end.

Lemma unsigned_digits_nodigit m i :
  match rest i with [] => True | b :: _ => is_digit b = false end ->
  unsigned_digits (S m) (Some (S m)) i = Bt err0 i.
Proof.
  intro H. unfold unsigned_digits, unchecked_utf8, take_while_mn.
  destruct (rest i) as [|b s]; [reflexivity|]. cbn [take_upto].
  rewrite DT_DIGIT_is_digit, H. reflexivity.
Qed.

Lemma date_time_bt0 i : no_dt0 (rest i) -> is_bt (date_time i).
Proof.
  intro H0.
  assert (C : no_dt (rest i) \/ match rest i with [] => True | b :: _ => is_digit b = false end).
  { unfold no_dt0 in H0. destruct (rest i) as [|b s]; [left; exact I|].
    destruct (is_digit b) eqn:E; [left; cbn [no_dt]; rewrite E; exact H0 | right; reflexivity]. }
  destruct C as [C|C]; [apply date_time_bt, C|].
  unfold date_time, alt, context, full_date, partial_time, time_hour, date_fullyear, two_digit_field, bind, try_map, pmap.
  rewrite (unsigned_digits_nodigit 3 i C), (unsigned_digits_nodigit 1 i C). exact I.
Qed.

(* ---- float backtracks on integer text; float reads `[-] digits . digits` -------------------------- *)
Definition is_e (b : byte) : bool := byte_eqb b x65 || byte_eqb b x45.

Lemma exp_bt i : match rest i with [] => True | b :: _ => is_e b = false end -> exp i = Bt err0 i.
Proof.
  intro H. unfold exp, unchecked_utf8, taken, bind, one_of.
  destruct (rest i) as [|b s]; [reflexivity|]. unfold is_e in H. cbv beta. rewrite H. reflexivity.
Qed.

Lemma frac_bt i : match rest i with [] => True | b :: _ => b <> dot end -> frac i = Bt err0 i.
Proof.
  intro H. unfold frac, unchecked_utf8, taken, bind.
  rewrite (byte_not (rest i) dot i eq_refl H). reflexivity.
Qed.

Lemma float__bt i n :
  dec_int_len (rest i) = LOk n ->
  match skipn n (rest i) with [] => True | b :: _ => is_e b = false /\ b <> dot end ->
  is_bt (float_ i).
Proof.
  intros EL Hh. pose proof (dec_int_spec i) as L. rewrite EL in L.
  unfold float_, unchecked_utf8, taken, bind. rewrite L.
  unfold alt, pvoid, pmap, bind.
  rewrite exp_bt by (rewrite rest_advance; destruct (skipn n (rest i)); tauto).
  rewrite frac_bt by (rewrite rest_advance; destruct (skipn n (rest i)); tauto).
  exact I.
Qed.

Lemma special_float_bt i :
  match (match rest i with b :: t => if is_sign b then t else rest i | [] => [] end) with
  | [] => True
  | c :: _ => c <> x69 /\ c <> x6e
  end ->
  is_bt (special_float i).
Proof.
  intro H. unfold special_float, bind, opt, one_of. fold is_sign.
  assert (G : forall j, match rest j with [] => True | c :: _ => c <> x69 /\ c <> x6e end -> is_bt ((inf <|> nan) j)).
  { intros j Hj. unfold alt, inf, nan, pvalue, pmap, lit, INF, NAN.
    destruct (rest j) as [|c s]; [exact I|]. destruct Hj as [H1 H2]. cbn [strip_prefix].
    destruct (byte_eqb x69 c) eqn:E1; [apply byte_eqb_eq in E1; congruence|].
    destruct (byte_eqb x6e c) eqn:E2; [apply byte_eqb_eq in E2; congruence|]. exact I. }
  destruct (rest i) as [|b t] eqn:Hr.
  - specialize (G i). rewrite Hr in G. specialize (G I).
    destruct ((inf <|> nan) i); simpl in G; try contradiction. exact I.
  - destruct (is_sign b) eqn:Es; unfold is_sign in Es; cbv beta; rewrite Es.
    + specialize (G (advance 1 i)). rewrite rest_advance, Hr in G. cbn [skipn] in G. specialize (G H).
      destruct ((inf <|> nan) (advance 1 i)); simpl in G; try contradiction. exact I.
    + specialize (G i). rewrite Hr in G. specialize (G H).
      destruct ((inf <|> nan) i); simpl in G; try contradiction. exact I.
Qed.

Lemma float_bt i :
  is_bt (float_ i) -> is_bt (special_float i) -> is_bt (float i).
Proof.
  intros H1 H2. unfold float, context, alt, and_then.
  destruct (float_ i); simpl in H1; try contradiction.
  destruct (special_float i); simpl in H2; try contradiction. exact I.
Qed.

(* zero_prefixable_int on a digit run that ends the input *)
Lemma zpi_digits i fp :
  rest i = fp -> fp <> [] -> forallb is_digit fp = true ->
  zero_prefixable_int i = Ok fp (advance (length fp) i).
Proof.
  intros Hr Hne Hd. unfold zero_prefixable_int, unchecked_utf8, digit.
  pose proof (digits_us_spec (in_class DIGIT) (in_class DIGIT) i) as H. rewrite Hr in H.
  destruct fp as [|f0 ftl]; [contradiction|].
  cbn [forallb] in Hd. apply andb_true_iff in Hd as [H0 Htl].
  rewrite DIGIT_is_digit, H0 in H.
  assert (Hcls : forallb (in_class DIGIT) ftl = true).
  { clear - Htl. induction ftl as [|c s IH]; [reflexivity|]. cbn [forallb] in *.
    apply andb_true_iff in Htl as [Hc Hs]. rewrite DIGIT_is_digit, Hc. apply IH, Hs. }
  assert (EU : us_tail (in_class DIGIT) ftl = Some (length ftl)).
  { rewrite <- (app_nil_r ftl) at 1. rewrite (us_tail_app _ [] _ (wf_tail_all _ _ Hcls)). cbn [us_tail]. f_equal. lia. }
  rewrite EU in H.
  rewrite (taken_ok _ _ _ _ H), Hr.
  change (S (length ftl)) with (length (f0 :: ftl)).
  rewrite firstn_all.
  rewrite (ascii_utf8 (f0 :: ftl)); [reflexivity|].
  apply digits_ascii. cbn [forallb]. rewrite H0, Htl. reflexivity.
Qed.

Lemma frac_digits i fp :
  rest i = dot :: fp -> fp <> [] -> forallb is_digit fp = true ->
  frac i = Ok (dot :: fp) (advance (S (length fp)) i).
Proof.
  intros Hr Hne Hd. unfold frac, unchecked_utf8.
  assert (T : taken (byte_ dot ;;; context (cut_err zero_prefixable_int)) i
              = Ok (firstn (S (length fp)) (rest i)) (advance (S (length fp)) i)).
  { apply taken_ok with (a := fp). unfold bind, byte_, one_of. rewrite Hr.
    change (byte_eqb dot dot) with true. cbv iota.
    unfold context, cut_err.
    rewrite (zpi_digits (advance 1 i) fp); [rewrite advance_advance; reflexivity | | exact Hne | exact Hd].
    rewrite rest_advance, Hr. reflexivity. }
  rewrite T, Hr. change (S (length fp)) with (length (dot :: fp)).
  rewrite firstn_all.
  rewrite (ascii_utf8 (dot :: fp)); [reflexivity|].
  cbn [forallb]. rewrite (digits_ascii _ Hd). reflexivity.
Qed.

(* float_ on  pre ++ "." ++ fp  where dec_int reads exactly pre *)
Lemma float__plain pre fp :
  dec_int_len (pre ++ dot :: fp) = LOk (length pre) ->
  fp <> [] -> forallb is_digit fp = true ->
  float_ (new_input (pre ++ dot :: fp)) = Ok (pre ++ dot :: fp) (end_input (pre ++ dot :: fp)).
Proof.
  intros EL Hne Hd. set (t := pre ++ dot :: fp). set (i := new_input t).
  pose proof (dec_int_spec i) as L. change (rest i) with t in L. unfold t in L at 1. rewrite EL in L.
  pose proof (dec_int_len_ascii _ _ EL) as Hpre. rewrite firstn_app_exact in Hpre.
  unfold float_, unchecked_utf8.
  assert (T : taken (dec_int ;;; (pvoid exp <|> (frac ;;; pvoid (opt exp)))) i
              = Ok (firstn (length t) (rest i)) (advance (length t) i)).
  { apply taken_ok with (a := tt). unfold bind at 1. rewrite L.
    set (j := advance (length pre) i).
    assert (Hj : rest j = dot :: fp).
    { unfold j. rewrite rest_advance. change (rest i) with (pre ++ dot :: fp). apply skipn_app_exact. }
    unfold alt, pvoid at 1, pmap.
    rewrite exp_bt by (rewrite Hj; reflexivity).
    unfold bind. rewrite (frac_digits j fp Hj Hne Hd).
    set (k := advance (S (length fp)) j).
    assert (Hk : rest k = []).
    { unfold k. rewrite rest_advance, Hj. change (S (length fp)) with (length (dot :: fp)).
      apply skipn_all. }
    unfold pvoid, pmap, opt. rewrite exp_bt by (rewrite Hk; exact I).
    unfold k, j. rewrite advance_advance. f_equal. f_equal. unfold t. rewrite app_length. reflexivity. }
  rewrite T. change (rest i) with t. rewrite firstn_all.
  rewrite (ascii_utf8 t).
  - unfold i. rewrite advance_all. reflexivity.
  - unfold t. rewrite forallb_app, Hpre. cbn [forallb]. rewrite (digits_ascii _ Hd). reflexivity.
Qed.

(* ---- the number arm of `value` ------------------------------------------------------------------- *)
Definition num_start (b : byte) : bool := is_digit b || is_sign b.

Lemma num_start_class b : num_start b = true -> in_class VALUE_NUMBER_START b = true.
Proof.
  unfold num_start. intro H. apply orb_true_iff in H as [H|H].
  - unfold in_class, VALUE_NUMBER_START. cbn [existsb fst snd]. unfold is_digit in H. lia.
  - unfold is_sign in H. apply orb_true_iff in H as [H|H]; apply byte_eqb_eq in H; subst; reflexivity.
Qed.

Definition number_arm : parser value :=
  pmap (fun d => scalar_value (SDatetime d)) date_time
  <|> pmap (fun f => scalar_value (SFloat f)) float
  <|> pmap (fun z => scalar_value (SInt z)) integer.

Lemma value_body_number vr i b tl :
  rest i = b :: tl -> num_start b = true -> value_body vr i = number_arm i.
Proof.
  intros Hr Hn. unfold value_body, bind, context at 1, peek, any. rewrite Hr.
  assert (F : forall x, num_start x = false -> byte_eqb b x = false).
  { intros x Hx. destruct (byte_eqb b x) eqn:E; [|reflexivity].
    apply byte_eqb_eq in E. subst. congruence. }
  rewrite (F QUOTATION_MARK eq_refl), (F APOSTROPHE eq_refl), (F ARRAY_OPEN eq_refl), (F INLINE_TABLE_OPEN eq_refl).
  cbn [orb]. rewrite (num_start_class _ Hn). reflexivity.
Qed.

Lemma parse_value_number t b tl (s : scalar) :
  t = b :: tl -> num_start b = true ->
  number_arm (new_input t) = Ok (scalar_value s) (end_input t) ->
  exists r d, parse_value_raw t = POk (VScalar s r d).
Proof.
  intros Ht Hn Harm.
  unfold parse_value_raw. rewrite parse_all_eoi_unfold. unfold value_. cbn [value_f].
  unfold value_step, pmap, with_span.
  rewrite (value_body_number _ (new_input t) b tl); [|rewrite Ht; reflexivity | exact Hn].
  rewrite Harm. unfold end_input. cbn [rest]. cbn [lift_outcome].
  unfold apply_raw, scalar_value, value_decorate. eauto.
Qed.

Lemma number_arm_int i z j :
  is_bt (date_time i) -> is_bt (float i) -> integer i = Ok z j ->
  number_arm i = Ok (scalar_value (SInt z)) j.
Proof.
  intros H1 H2 H3. unfold number_arm, alt, pmap.
  destruct (date_time i); simpl in H1; try contradiction.
  destruct (float i); simpl in H2; try contradiction.
  rewrite H3. reflexivity.
Qed.

Lemma number_arm_float i f j :
  is_bt (date_time i) -> float i = Ok f j ->
  number_arm i = Ok (scalar_value (SFloat f)) j.
Proof.
  intros H1 H2. unfold number_arm, alt, pmap.
  destruct (date_time i); simpl in H1; try contradiction.
  rewrite H2. reflexivity.
Qed.

(* ---- C11_int_roundtrip through Value::from_str ----------------------------------------------------- *)
Lemma no_dt_digits ds : forallb is_digit ds = true -> no_dt ds.
Proof.
  induction ds as [|b s IH]; [intros _; exact I|]. cbn [forallb no_dt]. intro H.
  apply andb_true_iff in H as [Hb Hs]. rewrite Hb. apply IH, Hs.
Qed.

Lemma digits_then_end_bt t sgn ds :
  t = sgn ++ ds -> (sgn = [] \/ sgn = [dash]) -> proper_digits ds \/ ds = [x30] ->
  is_bt (date_time (new_input t)) /\ is_bt (float (new_input t)).
Proof.
  intros Ht Hs Hds.
  assert (Hall : forallb is_digit ds = true /\ ds <> []).
  { destruct Hds as [[H (d & tl & -> & _)] | ->]; split; auto; discriminate. }
  destruct Hall as [Hall Hne].
  split.
  - apply date_time_bt0. cbn [new_input rest]. subst t.
    destruct Hs as [-> | ->]; cbn [app].
    + unfold no_dt0. destruct ds as [|b s]; [exact I|]. cbn [forallb] in Hall.
      apply andb_true_iff in Hall as [Hb Hs']. rewrite Hb. apply no_dt_digits, Hs'.
    + exact I.
  - assert (EB : dec_body_len ds = LOk (length ds)).
    { destruct Hds as [Hp | ->]; [apply proper_dec_body, Hp | reflexivity]. }
    assert (EL : dec_int_len t = LOk (length t)).
    { subst t. destruct Hs as [-> | ->]; cbn [app].
      - unfold dec_int_len. destruct ds as [|b s]; [contradiction|].
        cbn [forallb] in Hall. apply andb_true_iff in Hall as [Hb _].
        unfold is_sign. destruct (digit_not_sign _ Hb) as [-> ->]. exact EB.
      - unfold dec_int_len. change (is_sign dash) with true. cbv iota. rewrite EB. reflexivity. }
    apply float_bt.
    + apply (float__bt _ (length t)); cbn [new_input rest]; [exact EL|]. rewrite skipn_all. exact I.
    + apply special_float_bt. cbn [new_input rest]. subst t.
      assert (G : match ds with [] => True | c :: _ => c <> x69 /\ c <> x6e end).
      { destruct ds as [|c s]; [exact I|]. cbn [forallb] in Hall. apply andb_true_iff in Hall as [Hc _].
        split; intro E; subst c; discriminate Hc. }
      destruct Hs as [-> | ->]; cbn [app].
      * destruct ds as [|c s]; [exact I|]. cbn [forallb] in Hall. apply andb_true_iff in Hall as [Hc _].
        unfold is_sign. destruct (digit_not_sign _ Hc) as [-> ->]. exact G.
      * exact G.
Qed.

Theorem value_write_i64 z :
  in_i64 z = true -> exists r d, parse_value_raw (write_i64 z) = POk (VScalar (SInt z) r d).
Proof.
  intro Hz.
  pose proof (integer_write_i64 z Hz) as HI.
  assert (Hshape : exists sgn ds, write_i64 z = sgn ++ ds /\ (sgn = [] \/ sgn = [dash]) /\ (proper_digits ds \/ ds = [x30])).
  { destruct (write_i64_shape z) as [[_ ->] | (ds & Hp & [(_ & -> & _) | (_ & -> & _)])].
    - exists [], [x30]. auto.
    - exists [], ds. auto.
    - exists [dash], ds. auto. }
  destruct Hshape as (sgn & ds & Ht & Hs & Hds).
  destruct (digits_then_end_bt _ sgn ds Ht Hs Hds) as [H1 H2].
  assert (Hb : exists b tl, write_i64 z = b :: tl /\ num_start b = true).
  { rewrite Ht. destruct Hs as [-> | ->]; cbn [app].
    - destruct Hds as [[Hall (d & tl & -> & _)] | ->].
      + exists d, tl. split; [reflexivity|]. cbn [forallb] in Hall. apply andb_true_iff in Hall as [Hd _].
        unfold num_start. rewrite Hd. reflexivity.
      + exists x30, []. auto.
    - exists dash, ds. auto. }
  destruct Hb as (b & tl & Hbt & Hn).
  apply (parse_value_number _ b tl (SInt z) Hbt Hn).
  apply number_arm_int; assumption.
Qed.
