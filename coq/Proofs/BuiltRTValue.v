(* Proofs/BuiltRTValue.v — C06: the text of a constructed value (Proofs/BuiltRTEncode.v: txt) is read
   back by the value parser as a value with the same abstract tree, nested to any depth below the
   recursion limit; leaves are abstracted by `leaf_ok` (discharged in Proofs/BuiltRTLeaf.v). *)
From TV Require Import Base.Prelude Base.Utf8 Base.Winnow Gen.Consts.
From TV Require Import Model.Trivia Model.Strings Model.Datetime Model.Numbers Model.Tree Model.Parse Model.Document.
From TV Require Import Model.Write Model.Encode Model.Build.
From TV Require Import Proofs.StringsRTDefs Proofs.StringsRTBase Proofs.StringsRTBasic Proofs.StringsRTTop Proofs.StringsRTDoc.
From TV Require Import Proofs.BuiltRTBase Proofs.BuiltRTEncode Proofs.BuiltRTParse Proofs.BuiltRTKey.
Require Import Lia ZifyBool ZifyN ZifyNat.

(* ---- what may follow a value, what a value starts with ------------------------------------------------ *)
Definition cend (b : byte) : Prop := b = x2c \/ b = x5d \/ b = x7d.       (* , ] } *)
Definition chead (r : bytes) : Prop := exists c r', r = c :: r' /\ cend c.
Definition vterm (r : bytes) : Prop :=
  match r with
  | [] => True
  | b :: r' => cend b \/ b = x0a \/ (b = x20 /\ chead r')
  end.

Definition vstart (b : byte) : Prop :=
  in_class WSCHAR b = false /\ byte_eqb b x23 = false /\ byte_eqb b x0a = false /\ byte_eqb b x0d = false /\
  byte_eqb x5d b = false.
Definition vhead (t : bytes) : Prop := exists b tl, t = b :: tl /\ vstart b.

Lemma vhead_wscn t r : vhead t -> wscn_stop (t ++ r).
Proof. intros (b & tl & -> & H1 & H2 & H3 & H4 & _). cbn [app wscn_stop]. auto. Qed.
Lemma vhead_ws t r : vhead t -> stops (in_class WSCHAR) (t ++ r).
Proof. intro H. apply wscn_stop_ws, vhead_wscn, H. Qed.

Lemma chead_wscn r : chead r -> wscn_stop r.
Proof. intros (c & r' & -> & [-> | [-> | ->]]); cbn; repeat split; reflexivity. Qed.
Lemma chead_ws r : chead r -> stops (in_class WSCHAR) r.
Proof. intro H. apply wscn_stop_ws, chead_wscn, H. Qed.
Lemma chead_vterm b r : sp b -> chead r -> vterm (b ++ r).
Proof.
  intros [-> | ->] H; cbn [app].
  - destruct H as (c & r' & -> & Hc). left. exact Hc.
  - right. right. split; [reflexivity|exact H].
Qed.

(* ---- decor of constructed values: nothing or one space on each side ------------------------------------ *)
Lemma prefix_sp d p0 : prefix_built (d_prefix d) -> sp p0 -> sp (decor_prefix d p0).
Proof.
  unfold decor_prefix. intros [-> | [-> | ->]] H0; [exact H0 | left; reflexivity | right; reflexivity].
Qed.
Lemma suffix_sp d s0 : suffix_built (d_suffix d) -> sp s0 -> sp (decor_suffix d s0).
Proof. unfold decor_suffix. intros [-> | ->] H0; [exact H0 | left; reflexivity]. Qed.

Definition sp2 (dflt : bytes * bytes) : Prop := sp (fst dflt) /\ sp (snd dflt).
Lemma sp2_leading : sp2 DEFAULT_LEADING_VALUE_DECOR. Proof. split; left; reflexivity. Qed.
Lemma sp2_value : sp2 DEFAULT_VALUE_DECOR. Proof. split; [right|left]; reflexivity. Qed.
Lemma sp2_trailing : sp2 DEFAULT_TRAILING_VALUE_DECOR. Proof. split; right; reflexivity. Qed.

Lemma wrap_sp d dflt t : decor_built d -> sp2 dflt ->
  exists a b, wrap d dflt t = a ++ t ++ b /\ sp a /\ sp b.
Proof.
  intros [Hp Hs] [H1 H2]. exists (decor_prefix d (fst dflt)), (decor_suffix d (snd dflt)).
  split; [reflexivity|]. split; [apply prefix_sp | apply suffix_sp]; assumption.
Qed.

Lemma built_decor PS PK v : BuiltValue PS PK v -> decor_built (value_decor v).
Proof. intro H. destruct H; assumption. Qed.

(* ---- abstract tree of what the parser wraps around a value ----------------------------------------------- *)
Definition item_abs (it : item) : option aval := match it with IValue v => Some (abs_value v) | _ => None end.

Lemma abs_decorate v p s : abs_value (value_decorate v p s) = abs_value v.
Proof. destruct v; reflexivity. Qed.
Lemma abs_apply_raw v sp : abs_value (apply_raw v sp) = abs_value v.
Proof. unfold apply_raw. rewrite abs_decorate. destruct v; reflexivity. Qed.

(* nesting depth is a function of the abstract tree *)
Fixpoint adepth (a : aval) : nat :=
  match a with
  | AScalar _ => 0
  | AArr l => S (fold_right (fun x acc => Nat.max (adepth x) acc) 0 l)
  | AInl l => S (fold_right (fun kv acc => Nat.max (adepth (snd kv)) acc) 0 l)
  end.

(* ---- value.rs: dispatch and apply_raw -------------------------------------------------------------------- *)
Lemma value_body_array vr tl p d :
  value_body vr (mkIn (x5b :: tl) p d) = check_recursion (array vr) (mkIn (x5b :: tl) p d).
Proof. reflexivity. Qed.
Lemma value_body_inline vr tl p d :
  value_body vr (mkIn (x7b :: tl) p d) = check_recursion (inline_table vr) (mkIn (x7b :: tl) p d).
Proof. reflexivity. Qed.

Lemma pto_value_step vr t r d (Q : aval -> Prop) :
  pto (value_body vr) t r d (fun v => Q (abs_value v)) -> pto (value_step vr) t r d (fun v => Q (abs_value v)).
Proof.
  intro H. unfold value_step. apply pto_pmap.
  eapply pto_weaken; [apply (pto_with_span _ _ _ _ _ H)|].
  intros [v sp0] Hv. cbn [fst] in Hv. rewrite abs_apply_raw. exact Hv.
Qed.

(* ---- array.rs ------------------------------------------------------------------------------------------------ *)
Section Arrays.
  Variable vr : parser value.
  Variable d : nat.

  (* one element between its blanks, in front of `,` or `]` *)
  Lemma array_value_pto t (Q : aval -> Prop) a b R :
    sp a -> sp b -> vhead t -> chead R ->
    pto vr t (b ++ R) d (fun v' => Q (abs_value v')) ->
    pto (array_value vr) (a ++ t ++ b) R d (fun it => exists x, item_abs it = Some x /\ Q x).
  Proof.
    intros Ha Hb Hh HR Hv. unfold array_value.
    apply pto_bind with (Q1 := fun _ => True).
    { rewrite <- app_assoc. apply (pto_span _ _ _ _ (fun _ => True)). apply pto_wscn; [exact Ha|apply vhead_wscn, Hh]. }
    intros pre _. apply pto_bind with (Q1 := fun v' => Q (abs_value v')); [exact Hv|].
    intros v' Hv'. apply pto_bind_ret with (Q1 := fun _ => True).
    { apply (pto_span _ _ _ _ (fun _ => True)). apply pto_wscn; [exact Hb|apply chead_wscn, HR]. }
    intros suf _. exists (abs_value v'). cbn [item_abs]. rewrite abs_decorate. auto.
  Qed.

  Definition elem_seg (dflt : bytes * bytes) (x : decor * bytes * (aval -> Prop)) : seg :=
    mkSeg (wrap (fst (fst x)) dflt (snd (fst x))) (fun it => exists y, item_abs it = Some y /\ snd x y).

  Lemma elem_seg_parses dflt x :
    sp2 dflt -> decor_built (fst (fst x)) -> vhead (snd (fst x)) ->
    (forall r, vterm r -> pto vr (snd (fst x)) r d (fun v' => snd x (abs_value v'))) ->
    seg_parses (array_value vr) d chead (elem_seg dflt x).
  Proof.
    intros Hd Hb Hh Hv R HR. cbn [elem_seg seg_txt seg_ok].
    destruct (wrap_sp (fst (fst x)) dflt (snd (fst x)) Hb Hd) as (a & b & -> & Ha & Hsb).
    apply array_value_pto; auto. apply Hv. apply chead_vterm; assumption.
  Qed.

  Lemma chead_sep R : chead (x2c :: R).
  Proof. exists x2c, R. split; [reflexivity|left; reflexivity]. Qed.

  Lemma arr_tail_segs (l : list (decor * bytes * (aval -> Prop))) :
    concat (map (fun dt => x2c :: wrap (fst dt) DEFAULT_VALUE_DECOR (snd dt)) (map fst l))
    = segs_txt x2c (map (elem_seg DEFAULT_VALUE_DECOR) l).
  Proof. induction l as [|x l IH]; [reflexivity|]. cbn [map concat segs_txt elem_seg seg_txt app]. rewrite IH. reflexivity. Qed.

  (* array_values on the printed elements, in front of `]` *)
  Lemma array_values_pto (l : list (decor * bytes * (aval -> Prop))) r :
    Forall (fun x => decor_built (fst (fst x)) /\ vhead (snd (fst x)) /\
                     forall r', vterm r' -> pto vr (snd (fst x)) r' d (fun v' => snd x (abs_value v'))) l ->
    pto (array_values vr) (arr_txt (map fst l)) (x5d :: r) d
        (fun v' => exists ys, abs_value v' = AArr ys /\ Forall2 (fun x y => snd x y) l ys).
  Proof.
    intros Hl p. destruct l as [|x0 l].
    - exists (VArray [] REmpty false decor_default None), p. split; [reflexivity|]. exists []. split; [reflexivity|constructor].
    - inversion Hl as [|? ? (Hb0 & Hh0 & Hv0) Hl']; subst.
      assert (Hsegs : Forall (seg_parses (array_value vr) d chead) (map (elem_seg DEFAULT_VALUE_DECOR) l)).
      { clear - Hl'. induction Hl' as [|x l (Hb & Hh & Hv) _ IH]; constructor; [|exact IH].
        apply elem_seg_parses; auto using sp2_value. }
      pose proof (elem_seg_parses DEFAULT_LEADING_VALUE_DECOR x0 sp2_leading Hb0 Hh0 Hv0) as Hs0.
      assert (HC : chead (x5d :: r)) by (exists x5d, r; split; [reflexivity|right; left; reflexivity]).
      destruct (separated0_segs (array_value vr) x2c d chead chead_sep _ _ (x5d :: r) Hs0 Hsegs HC eq_refl p)
        as (res & p1 & E & Hres).
      destruct (pto_wscn [] (x5d :: r) d (or_introl eq_refl) (chead_wscn _ HC) p1) as (u & p2 & Ew & _).
      cbn [app] in Ew.
      assert (Etxt : arr_txt (map fst (x0 :: l)) ++ x5d :: r
                     = seg_txt (elem_seg DEFAULT_LEADING_VALUE_DECOR x0)
                       ++ segs_txt x2c (map (elem_seg DEFAULT_VALUE_DECOR) l) ++ x5d :: r).
      { cbn [map arr_txt]. destruct x0 as [[d0 t0] Q0]. cbn [fst snd elem_seg seg_txt].
        rewrite arr_tail_segs, <- app_assoc. reflexivity. }
      rewrite Etxt.
      set (TXT := seg_txt (elem_seg DEFAULT_LEADING_VALUE_DECOR x0) ++ segs_txt x2c (map (elem_seg DEFAULT_VALUE_DECOR) l) ++ x5d :: r) in *.
      assert (Hhead : stops (byte_eqb ARRAY_CLOSE) TXT).
      { unfold TXT. cbn [elem_seg seg_txt].
        destruct (wrap_sp (fst (fst x0)) DEFAULT_LEADING_VALUE_DECOR (snd (fst x0)) Hb0 sp2_leading) as (a & b & -> & Ha & _).
        destruct Hh0 as (c & tl & -> & (_ & _ & _ & _ & Hc)).
        destruct Ha as [-> | ->]; cbn [app stops]; [exact Hc|reflexivity]. }
      inversion Hres as [|s0 a0 ? res' Ha0 Hres']; subst.
      exists (VArray (a0 :: res') (raw_with_span (p1, p2)) false decor_default None), p2. split.
      + unfold array_values.
        rewrite (bind_ok _ _ _ None (mkIn TXT p d)).
        2:{ eapply peek_ok. eapply opt_bt. apply byte_no. exact Hhead. }
        cbv beta iota. rewrite (bind_ok _ _ _ _ _ E). cbv beta iota.
        rewrite (bind_ok _ _ _ false (mkIn (x5d :: r) p1 d)).
        2:{ rewrite (pmap_ok _ _ _ None (mkIn (x5d :: r) p1 d)); [reflexivity|]. eapply opt_bt. apply byte_no. reflexivity. }
        rewrite (bind_ok _ _ _ (p1, p2) (mkIn (x5d :: r) p2 d)).
        2:{ unfold span_. rewrite Ew. reflexivity. }
        reflexivity.
      + cbn [elem_seg seg_ok] in Ha0. destruct Ha0 as (y0 & Ey0 & Hy0).
        assert (Htl : exists ys, flat_map (fun it => match it with IValue e => [abs_value e] | _ => [] end) res' = ys
                                 /\ Forall2 (fun x y => snd x y) l ys).
        { clear - Hres'. revert res' Hres'. induction l as [|x l IH]; intros res' H; inversion H as [|? a ? res2 Ha Hr]; subst.
          - exists []. split; [reflexivity|constructor].
          - destruct (IH _ Hr) as (ys & Eys & Hys). cbn [elem_seg seg_ok] in Ha. destruct Ha as (y & Ey & Hy).
            exists (y :: ys). split; [|constructor; assumption].
            cbn [flat_map]. rewrite Eys. destruct a; try discriminate. cbn [item_abs] in Ey. injection Ey as <-. reflexivity. }
        destruct Htl as (ys & Eys & Hys).
        exists (y0 :: ys). split; [|constructor; assumption].
        cbn [abs_value flat_map]. rewrite Eys. destruct a0; try discriminate. cbn [item_abs] in Ey0. injection Ey0 as <-. reflexivity.
  Qed.

  (* ---- the multi-line layout: "[" ("\n    " element ",")* "\n" "]" ---- *)
  Definition ml_decor_ok (dc : decor) : Prop := d_prefix dc = Some (RExplicit ML_PREFIX) /\ suffix_built (d_suffix dc).

  Lemma wrap_ml dc dflt t : ml_decor_ok dc -> sp2 dflt -> exists b, wrap dc dflt t = ML_PREFIX ++ t ++ b /\ sp b.
  Proof.
    intros [Hp Hs] [_ H2]. exists (decor_suffix dc (snd dflt)). split; [|apply suffix_sp; assumption].
    unfold wrap, decor_prefix. rewrite Hp. reflexivity.
  Qed.

  Lemma array_value_ml_pto t (Q : aval -> Prop) b R :
    sp b -> vhead t -> chead R ->
    pto vr t (b ++ R) d (fun v' => Q (abs_value v')) ->
    pto (array_value vr) (ML_PREFIX ++ t ++ b) R d (fun it => exists x, item_abs it = Some x /\ Q x).
  Proof.
    intros Hb Hh HR Hv. unfold array_value.
    apply pto_bind with (Q1 := fun _ => True).
    { rewrite <- app_assoc. apply (pto_span _ _ _ _ (fun _ => True)). apply (pto_wscn_nl 4). apply vhead_wscn, Hh. }
    intros pre _. apply pto_bind with (Q1 := fun v' => Q (abs_value v')); [exact Hv|].
    intros v' Hv'. apply pto_bind_ret with (Q1 := fun _ => True).
    { apply (pto_span _ _ _ _ (fun _ => True)). apply pto_wscn; [exact Hb|apply chead_wscn, HR]. }
    intros suf _. exists (abs_value v'). cbn [item_abs]. rewrite abs_decorate. auto.
  Qed.

  Lemma elem_seg_parses_ml dflt x :
    sp2 dflt -> ml_decor_ok (fst (fst x)) -> vhead (snd (fst x)) ->
    (forall r, vterm r -> pto vr (snd (fst x)) r d (fun v' => snd x (abs_value v'))) ->
    seg_parses (array_value vr) d chead (elem_seg dflt x).
  Proof.
    intros Hd Hb Hh Hv R HR. cbn [elem_seg seg_txt seg_ok].
    destruct (wrap_ml (fst (fst x)) dflt (snd (fst x)) Hb Hd) as (b & -> & Hsb).
    apply array_value_ml_pto; auto. apply Hv. apply chead_vterm; assumption.
  Qed.

  (* the element parser backtracks in front of the closing bracket *)
  Definition vr_bt_close : Prop := forall r' p, exists e i', vr (mkIn (x5d :: r') p d) = Bt e i'.

  Lemma array_value_bt_close r' : vr_bt_close -> bt_after (array_value vr) d (x0a :: x5d :: r').
  Proof.
    intros Hbt p. unfold array_value.
    assert (Hstop : wscn_stop (x5d :: r')) by (cbn; repeat split; reflexivity).
    destruct (pto_span _ _ _ _ (fun _ => True) (pto_wscn_nl 0 (x5d :: r') d Hstop) p) as (sp0 & p1 & E & _).
    cbn [nl_blank repeat app] in E.
    destruct (Hbt r' p1) as (e & i' & Ev).
    exists e, i'. unfold bind at 1. rewrite E. unfold bind at 1. rewrite Ev. reflexivity.
  Qed.

  Lemma array_values_ml_pto (l : list (decor * bytes * (aval -> Prop))) r :
    vr_bt_close ->
    Forall (fun x => ml_decor_ok (fst (fst x)) /\ vhead (snd (fst x)) /\
                     forall r', vterm r' -> pto vr (snd (fst x)) r' d (fun v' => snd x (abs_value v'))) l ->
    pto (array_values vr) (arr_txt (map fst l) ++ (match l with [] => [] | _ => [x2c] end) ++ [x0a]) (x5d :: r) d
        (fun v' => exists ys, abs_value v' = AArr ys /\ Forall2 (fun x y => snd x y) l ys).
  Proof.
    intros Hbt Hl p.
    assert (Hstop : wscn_stop (x5d :: r)) by (cbn; repeat split; reflexivity).
    destruct l as [|x0 l].
    - (* "[" "\n" "]" *)
      cbn [map arr_txt app].
      destruct (array_value_bt_close r Hbt p) as (e & i' & Eb).
      destruct (pto_span _ _ _ _ (fun _ => True) (pto_wscn_nl 0 (x5d :: r) d Hstop) p) as (tr & p2 & Ew & _).
      cbn [nl_blank repeat app] in Ew.
      exists (VArray [] (raw_with_span tr) false decor_default None), p2. split; [|exists []; split; [reflexivity|constructor]].
      unfold array_values.
      rewrite (bind_ok _ _ _ None (mkIn (x0a :: x5d :: r) p d)).
      2:{ eapply peek_ok. eapply opt_bt. apply byte_no. reflexivity. }
      cbv beta iota.
      rewrite (bind_ok _ _ _ [] (mkIn (x0a :: x5d :: r) p d)) by (unfold separated0; rewrite Eb; reflexivity).
      cbv beta iota. rewrite (bind_ok _ _ _ false (mkIn (x0a :: x5d :: r) p d)) by reflexivity.
      rewrite (bind_ok _ _ _ _ _ Ew). reflexivity.
    - inversion Hl as [|? ? (Hb0 & Hh0 & Hv0) Hl']; subst.
      assert (Hsegs : Forall (seg_parses (array_value vr) d chead) (map (elem_seg DEFAULT_VALUE_DECOR) l)).
      { clear - Hl'. induction Hl' as [|x l (Hb & Hh & Hv) _ IH]; constructor; [|exact IH].
        apply elem_seg_parses_ml; auto using sp2_value. }
      pose proof (elem_seg_parses_ml DEFAULT_LEADING_VALUE_DECOR x0 sp2_leading Hb0 Hh0 Hv0) as Hs0.
      destruct (separated0_segs_tr (array_value vr) x2c d chead chead_sep _ _ (x0a :: x5d :: r) Hs0 Hsegs
                                   (array_value_bt_close r Hbt) p) as (res & p1 & E & Hres).
      destruct (pto_span _ _ _ _ (fun _ => True) (pto_wscn_nl 0 (x5d :: r) d Hstop) (p1 + 1)%N) as (tr & p2 & Ew & _).
      cbn [nl_blank repeat app] in Ew.
      assert (Etxt : (arr_txt (map fst (x0 :: l)) ++ [x2c] ++ [x0a]) ++ x5d :: r
                     = seg_txt (elem_seg DEFAULT_LEADING_VALUE_DECOR x0)
                       ++ segs_txt x2c (map (elem_seg DEFAULT_VALUE_DECOR) l) ++ x2c :: x0a :: x5d :: r).
      { cbn [map arr_txt]. destruct x0 as [[d0 t0] Q0]. cbn [fst snd elem_seg seg_txt].
        rewrite arr_tail_segs, <- !app_assoc. reflexivity. }
      rewrite Etxt.
      set (TXT := seg_txt (elem_seg DEFAULT_LEADING_VALUE_DECOR x0) ++ segs_txt x2c (map (elem_seg DEFAULT_VALUE_DECOR) l)
                  ++ x2c :: x0a :: x5d :: r) in *.
      assert (Hhead : stops (byte_eqb ARRAY_CLOSE) TXT).
      { unfold TXT. cbn [elem_seg seg_txt].
        destruct (wrap_ml (fst (fst x0)) DEFAULT_LEADING_VALUE_DECOR (snd (fst x0)) Hb0 sp2_leading) as (b & -> & _).
        reflexivity. }
      inversion Hres as [|s0 a0 ? res' Ha0 Hres']; subst.
      exists (VArray (a0 :: res') (raw_with_span tr) true decor_default None), p2. split.
      + unfold array_values.
        rewrite (bind_ok _ _ _ None (mkIn TXT p d)).
        2:{ eapply peek_ok. eapply opt_bt. apply byte_no. exact Hhead. }
        cbv beta iota. rewrite (bind_ok _ _ _ _ _ E). cbv beta iota.
        rewrite (bind_ok _ _ _ true (mkIn (x0a :: x5d :: r) (p1 + 1)%N d)).
        2:{ rewrite (pmap_ok _ _ _ (Some x2c) (mkIn (x0a :: x5d :: r) (p1 + 1)%N d)); [reflexivity|].
            apply opt_ok. apply byte_yes. }
        rewrite (bind_ok _ _ _ _ _ Ew). reflexivity.
      + cbn [elem_seg seg_ok] in Ha0. destruct Ha0 as (y0 & Ey0 & Hy0).
        assert (Htl : exists ys, flat_map (fun it => match it with IValue e => [abs_value e] | _ => [] end) res' = ys
                                 /\ Forall2 (fun x y => snd x y) l ys).
        { clear - Hres'. revert res' Hres'. induction l as [|x l IH]; intros res' H; inversion H as [|? a ? res2 Ha Hr]; subst.
          - exists []. split; [reflexivity|constructor].
          - destruct (IH _ Hr) as (ys & Eys & Hys). cbn [elem_seg seg_ok] in Ha. destruct Ha as (y & Ey & Hy).
            exists (y :: ys). split; [|constructor; assumption].
            cbn [flat_map]. rewrite Eys. destruct a; try discriminate. cbn [item_abs] in Ey. injection Ey as <-. reflexivity. }
        destruct Htl as (ys & Eys & Hys).
        exists (y0 :: ys). split; [|constructor; assumption].
        cbn [abs_value flat_map]. rewrite Eys. destruct a0; try discriminate. cbn [item_abs] in Ey0. injection Ey0 as <-. reflexivity.
  Qed.

  Lemma array_ml_pto l r :
    vr_bt_close ->
    Forall (fun x => ml_decor_ok (fst (fst x)) /\ vhead (snd (fst x)) /\
                     forall r', vterm r' -> pto vr (snd (fst x)) r' d (fun v' => snd x (abs_value v'))) l ->
    pto (array vr) (x5b :: (arr_txt (map fst l) ++ (match l with [] => [] | _ => [x2c] end) ++ [x0a]) ++ [x5d]) r d
        (fun v' => exists ys, abs_value v' = AArr ys /\ Forall2 (fun x y => snd x y) l ys).
  Proof.
    intros Hbt Hl. unfold array.
    change (x5b :: (arr_txt (map fst l) ++ (match l with [] => [] | _ => [x2c] end) ++ [x0a]) ++ [x5d])
      with ([x5b] ++ (arr_txt (map fst l) ++ (match l with [] => [] | _ => [x2c] end) ++ [x0a]) ++ [x5d]).
    apply pto_bind with (Q1 := fun _ => True); [apply pto_byte|]. intros _ _.
    apply pto_bind with (Q1 := fun v' => exists ys, abs_value v' = AArr ys /\ Forall2 (fun x y => snd x y) l ys).
    { apply pto_cut_err. apply array_values_ml_pto; assumption. }
    intros v' Hv'.
    change (context (cut_err (byte_ ARRAY_CLOSE));;; ret v') with (bind (context (cut_err (byte_ ARRAY_CLOSE))) (fun _ => ret v')).
    apply pto_bind_ret with (Q1 := fun _ => True); [|intros _ _; exact Hv'].
    apply pto_context, pto_cut_err, pto_byte.
  Qed.

  (* array = `[` array_values `]` *)
  Lemma array_pto l r :
    Forall (fun x => decor_built (fst (fst x)) /\ vhead (snd (fst x)) /\
                     forall r', vterm r' -> pto vr (snd (fst x)) r' d (fun v' => snd x (abs_value v'))) l ->
    pto (array vr) (x5b :: arr_txt (map fst l) ++ [x5d]) r d
        (fun v' => exists ys, abs_value v' = AArr ys /\ Forall2 (fun x y => snd x y) l ys).
  Proof.
    intro Hl. unfold array.
    change (x5b :: arr_txt (map fst l) ++ [x5d]) with ([x5b] ++ arr_txt (map fst l) ++ [x5d]).
    apply pto_bind with (Q1 := fun _ => True); [apply pto_byte|]. intros _ _.
    apply pto_bind with (Q1 := fun v' => exists ys, abs_value v' = AArr ys /\ Forall2 (fun x y => snd x y) l ys).
    { apply pto_cut_err. apply array_values_pto. exact Hl. }
    intros v' Hv'.
    change (context (cut_err (byte_ ARRAY_CLOSE));;; ret v') with (bind (context (cut_err (byte_ ARRAY_CLOSE))) (fun _ => ret v')).
    apply pto_bind_ret with (Q1 := fun _ => True); [|intros _ _; exact Hv'].
    apply pto_context, pto_cut_err, pto_byte.
  Qed.
End Arrays.

(* ---- inline_table.rs -------------------------------------------------------------------------------------------- *)
Lemma value_depth_adepth : forall v, value_depth v = adepth (abs_value v).
Proof.
  fix IH 1. intros [s r d|vals tr c d sp0|items pre im dt d sp0]; [reflexivity|..].
  - cbn [value_depth abs_value adepth]. f_equal.
    induction vals as [|it vals IHv]; [reflexivity|]. cbn [fold_right flat_map].
    destruct it as [|e| |]; cbn [app fold_right]; rewrite IHv; [reflexivity| |reflexivity|reflexivity].
    rewrite (IH e). reflexivity.
  - cbn [value_depth abs_value adepth]. f_equal.
    induction items as [|[k it] items IHv]; [reflexivity|]. cbn [fold_right flat_map].
    destruct it as [|e| |]; cbn [app fold_right snd]; rewrite IHv; [reflexivity| |reflexivity|reflexivity].
    rewrite (IH e). reflexivity.
Qed.

Lemma kv_get_none m k : ~ In k (map (fun kv => k_key (fst kv)) m) -> kv_get m k = None.
Proof.
  induction m as [|[k' v] m IH]; [reflexivity|]. cbn [map fst In kv_get]. intro H.
  destruct (bytes_eqb (k_key k') k) eqn:E; [apply bytes_eqb_eq in E; tauto|]. apply IH. tauto.
Qed.

(* an element of an inline table as the proofs see it: key text, its token, decor, value text, abstract value *)
Record ielem : Type := mkIE { ie_key : bytes; ie_tok : bytes; ie_decor : decor; ie_txt : bytes; ie_abs : aval }.

Definition pair_ok (x : ielem) (pr : list key * (key * item)) : Prop :=
  exists kk it, pr = ([], (kk, it)) /\ k_key kk = ie_key x /\ item_abs it = Some (ie_abs x).

Lemma table_from_pairs_loop_ok (l : list ielem) : forall pairs m,
  Forall2 pair_ok l pairs ->
  NoDup (map ie_key l) -> (forall x, In x l -> ~ In (ie_key x) (map (fun kv => k_key (fst kv)) m)) ->
  Forall (fun x => S (adepth (ie_abs x)) < LIMIT) l ->
  table_from_pairs_loop_d m pairs = COk (m ++ map snd pairs).
Proof.
  induction l as [|x l IH]; intros pairs m H2 Hnd Hm Hdep; inversion H2 as [|? pr ? pairs' Hpr Hrest]; subst.
  - cbn [table_from_pairs_loop_d map]. rewrite app_nil_r. reflexivity.
  - destruct Hpr as (kk & it & -> & Hk & Hit).
    inversion Hnd as [|? ? Hnotin Hnd']; subst. inversion Hdep as [|? ? Hd0 Hdep']; subst.
    cbn [table_from_pairs_loop_d length Nat.add].
    assert (Hdepth : item_depth it = adepth (ie_abs x)).
    { destruct it as [|e| |]; try discriminate. cbn [item_abs] in Hit. injection Hit as <-. apply value_depth_adepth. }
    unfold check_depth. rewrite Hdepth. cbn [Nat.add].
    destruct (Nat.leb LIMIT (S (adepth (ie_abs x)))) eqn:El; [apply Nat.leb_le in El; lia|].
    cbn [inline_insert Bool.eqb].
    rewrite kv_get_none by (rewrite Hk; apply Hm; left; reflexivity).
    unfold kv_push. rewrite (IH pairs' (m ++ [(kk, it)]) Hrest Hnd').
    + cbn [map snd]. rewrite <- app_assoc. reflexivity.
    + intros y Hy. rewrite map_app. cbn [map fst]. intro Hin. apply in_app_or in Hin as [Hin|[Hin|[]]].
      * apply (Hm y (or_intror Hy) Hin).
      * apply Hnotin. rewrite Hk in Hin. rewrite Hin. apply in_map. exact Hy.
    + exact Hdep'.
Qed.

Lemma inline_spans_pass_nil m pairs :
  Forall (fun pr => fst pr = []) pairs -> inline_spans_pass m pairs = m.
Proof.
  unfold inline_spans_pass. revert m. induction pairs as [|[path [k v]] pairs IH]; intros m H; [reflexivity|].
  inversion H as [|? ? Hp Hrest]; subst. cbn [fst] in Hp. subst path. cbn [fold_left inline_set_spans]. apply IH, Hrest.
Qed.

Lemma table_from_pairs_ok (l : list ielem) pairs pre :
  Forall2 pair_ok l pairs -> NoDup (map ie_key l) -> Forall (fun x => S (adepth (ie_abs x)) < LIMIT) l ->
  exists v, table_from_pairs pairs pre = TmOk v /\ abs_value v = AInl (map (fun x => (ie_key x, ie_abs x)) l).
Proof.
  intros H2 Hnd Hdep. unfold table_from_pairs.
  rewrite (table_from_pairs_loop_ok l pairs [] H2 Hnd (fun _ _ Hin => Hin) Hdep). cbn [app].
  eexists. split; [reflexivity|].
  rewrite inline_spans_pass_nil.
  2:{ clear - H2. induction H2 as [|x pr l pairs (kk & it & -> & _) _ IH]; constructor; [reflexivity|exact IH]. }
  cbn [abs_value]. f_equal.
  clear - H2. induction H2 as [|x pr l pairs (kk & it & -> & Hk & Hit) _ IH]; [reflexivity|].
  cbn [map snd flat_map]. rewrite IH. destruct it as [|e| |]; try discriminate.
  cbn [item_abs] in Hit. injection Hit as <-. rewrite Hk. reflexivity.
Qed.

Section Inline.
  Variable vr : parser value.
  Variable d : nat.

  Definition ielem_ok (x : ielem) : Prop :=
    utf8_valid_b (ie_key x) = true /\ write_key KDefault (ie_key x) = Some (ie_tok x) /\
    decor_built (ie_decor x) /\ vhead (ie_txt x) /\
    forall r, vterm r -> pto vr (ie_txt x) r d (fun v' => abs_value v' = ie_abs x).

  Definition entry_txt (dflt : bytes * bytes) (x : ielem) : bytes :=
    key_txt (key_new (ie_key x)) ++ x3d :: wrap (ie_decor x) dflt (ie_txt x).
  Definition entry_seg (dflt : bytes * bytes) (x : ielem) : seg := mkSeg (entry_txt dflt x) (pair_ok x).

  (* inline_table.rs: keyval *)
  Lemma entry_seg_parses dflt x : sp2 dflt -> ielem_ok x -> seg_parses (inline_keyval vr) d chead (entry_seg dflt x).
  Proof.
    intros Hd (Hu & Hw & Hb & Hh & Hv) R HR. cbn [entry_seg seg_txt seg_ok]. unfold entry_txt.
    destruct (wrap_sp (ie_decor x) dflt (ie_txt x) Hb Hd) as (a & b & -> & Ha & Hsb).
    unfold key_txt. rewrite (encode_key_path_one _ _ _ Hw). cbn [fst snd DEFAULT_INLINE_KEY_DECOR].
    unfold inline_keyval.
    apply pto_bind with (Q1 := fun kp => exists kk, kp = [kk] /\ k_key kk = ie_key x).
    { change ((x3d :: a ++ ie_txt x ++ b) ++ R) with (x3d :: (a ++ ie_txt x ++ b) ++ R).
      apply key_one_pto; auto; right; reflexivity. }
    intros kp (kk & -> & Hkk).
    rewrite <- (app_nil_r (x3d :: a ++ ie_txt x ++ b)).
    apply pto_bind with (Q1 := fun x3 => abs_value (snd (fst x3)) = ie_abs x).
    { apply pto_cut_err. change (x3d :: a ++ ie_txt x ++ b) with ([x3d] ++ a ++ ie_txt x ++ b).
      apply pto_bind with (Q1 := fun _ => True); [apply pto_context, pto_byte|]. intros _ _.
      apply pto_bind with (Q1 := fun _ => True).
      { rewrite <- app_assoc. apply (pto_span _ _ _ _ (fun _ => True)). apply pto_ws; [exact Ha|]. apply vhead_ws, Hh. }
      intros pre _. apply pto_bind with (Q1 := fun v' => abs_value v' = ie_abs x).
      { apply Hv. apply chead_vterm; assumption. }
      intros v' Hv'. apply pto_bind_ret with (Q1 := fun _ => True).
      { apply (pto_span _ _ _ _ (fun _ => True)). apply pto_ws; [exact Hsb|]. apply chead_ws, HR. }
      intros suf _. exact Hv'. }
    intros [[pre v'] suf] Hv'. cbn [fst snd] in Hv'. cbn [pop_key rev app].
    apply pto_ret. exists kk, (IValue (value_decorate v' (raw_with_span pre) (raw_with_span suf))).
    split; [reflexivity|]. split; [exact Hkk|]. cbn [item_abs]. rewrite abs_decorate, Hv'. reflexivity.
  Qed.

  (* the entries of `{ ... }` as segments: the last one carries the trailing decor *)
  Fixpoint inl_segs (l : list ielem) : list seg :=
    match l with
    | [] => []
    | [x] => [entry_seg DEFAULT_TRAILING_VALUE_DECOR x]
    | x :: tl => entry_seg DEFAULT_VALUE_DECOR x :: inl_segs tl
    end.

  Definition ie_kdt (x : ielem) : key * (decor * bytes) := (key_new (ie_key x), (ie_decor x, ie_txt x)).

  Lemma inl_txt_segs x0 l :
    inl_txt (map ie_kdt (x0 :: l))
    = match inl_segs (x0 :: l) with [] => [] | s0 :: tl => seg_txt s0 ++ segs_txt x2c tl end.
  Proof.
    revert x0. induction l as [|x1 l IH]; intro x0.
    - cbn [map inl_segs segs_txt]. unfold ie_kdt. rewrite inl_txt_one, app_nil_r. reflexivity.
    - change (map ie_kdt (x0 :: x1 :: l)) with (ie_kdt x0 :: ie_kdt x1 :: map ie_kdt l).
      unfold ie_kdt at 1. rewrite inl_txt_cons.
      change (ie_kdt x1 :: map ie_kdt l) with (map ie_kdt (x1 :: l)). rewrite IH.
      change (inl_segs (x0 :: x1 :: l)) with (entry_seg DEFAULT_VALUE_DECOR x0 :: inl_segs (x1 :: l)).
      destruct (inl_segs (x1 :: l)) as [|s1 tl] eqn:E.
      { destruct l; discriminate E. }
      cbn [segs_txt entry_seg seg_txt]. unfold entry_txt. rewrite <- !app_assoc. cbn [app]. rewrite <- ?app_assoc. reflexivity.
  Qed.

  Lemma inl_segs_parses l : Forall ielem_ok l -> Forall (seg_parses (inline_keyval vr) d chead) (inl_segs l).
  Proof.
    induction l as [|x0 l IH]; intro H; [constructor|]. inversion H as [|? ? H0 Hl]; subst.
    destruct l as [|x1 l].
    - cbn [inl_segs]. constructor; [|constructor]. apply entry_seg_parses; [apply sp2_trailing|exact H0].
    - change (inl_segs (x0 :: x1 :: l)) with (entry_seg DEFAULT_VALUE_DECOR x0 :: inl_segs (x1 :: l)).
      constructor; [apply entry_seg_parses; [apply sp2_value|exact H0] | apply IH, Hl].
  Qed.

  Lemma inl_segs_ok l : forall res, Forall2 (fun s a => seg_ok s a) (inl_segs l) res -> Forall2 pair_ok l res.
  Proof.
    induction l as [|x0 l IH]; intros res H.
    - inversion H; constructor.
    - destruct l as [|x1 l].
      + cbn [inl_segs] in H. inversion H as [|? a ? res' Ha Hr]; subst. inversion Hr; subst. constructor; [exact Ha|constructor].
      + change (inl_segs (x0 :: x1 :: l)) with (entry_seg DEFAULT_VALUE_DECOR x0 :: inl_segs (x1 :: l)) in H.
        inversion H as [|? a ? res' Ha Hr]; subst. constructor; [exact Ha|apply IH, Hr].
  Qed.

  Lemma key_bt_close r p : exists e i', key_ (mkIn (x7d :: r) p d) = Bt e i'.
  Proof. eexists. eexists. reflexivity. Qed.

  (* inline_table = `{` keyvals `}` *)
  Lemma inline_table_pto (l : list ielem) r :
    Forall ielem_ok l -> NoDup (map ie_key l) -> Forall (fun x => S (adepth (ie_abs x)) < LIMIT) l ->
    pto (inline_table vr) (x7b :: inl_txt (map ie_kdt l) ++ [x7d]) r d
        (fun v' => abs_value v' = AInl (map (fun x => (ie_key x, ie_abs x)) l)).
  Proof.
    intros Hl Hnd Hdep. unfold inline_table.
    change (x7b :: inl_txt (map ie_kdt l) ++ [x7d]) with ([x7b] ++ inl_txt (map ie_kdt l) ++ [x7d]).
    apply pto_bind with (Q1 := fun _ => True); [apply pto_byte|]. intros _ _.
    apply pto_bind with (Q1 := fun v' => abs_value v' = AInl (map (fun x => (ie_key x, ie_abs x)) l)).
    2:{ intros v' Hv'.
        change (context (cut_err (byte_ INLINE_TABLE_CLOSE));;; ret v')
          with (bind (context (cut_err (byte_ INLINE_TABLE_CLOSE))) (fun _ => ret v')).
        apply pto_bind_ret with (Q1 := fun _ => True); [|intros _ _; exact Hv'].
        apply pto_context, pto_cut_err, pto_byte. }
    apply pto_cut_err.
    apply pto_try_map with (Q0 := fun x => Forall2 pair_ok l (fst x)).
    2:{ intros [kv pr] Hkv. cbn [fst] in Hkv. apply (table_from_pairs_ok l kv pr Hkv Hnd Hdep). }
    assert (HC : chead (x7d :: r)) by (exists x7d, r; split; [reflexivity|right; right; reflexivity]).
    intro p.
    assert (Hsep : exists res p1, separated0 (inline_keyval vr) (byte_ INLINE_TABLE_SEP)
                                              (mkIn (inl_txt (map ie_kdt l) ++ x7d :: r) p d)
                                  = Ok res (mkIn (x7d :: r) p1 d) /\ Forall2 pair_ok l res).
    { destruct l as [|x0 l'].
      - exists [], p. split; [|constructor]. cbn [map inl_txt app]. unfold separated0, inline_keyval.
        destruct (key_bt_close r p) as (e & i' & E). rewrite (bind_bt _ _ _ _ _ E). reflexivity.
      - rewrite inl_txt_segs.
        pose proof (inl_segs_parses (x0 :: l') Hl) as Hsegs.
        destruct (inl_segs (x0 :: l')) as [|s0 tl] eqn:Es; [destruct l'; discriminate Es|].
        inversion Hsegs as [|? ? Hs0 Htl]; subst.
        destruct (separated0_segs (inline_keyval vr) x2c d chead chead_sep s0 tl (x7d :: r) Hs0 Htl HC eq_refl p)
          as (res & p1 & E & Hres).
        exists res, p1. rewrite <- app_assoc. split; [exact E|]. apply inl_segs_ok. rewrite Es. exact Hres. }
    destruct Hsep as (res & p1 & E & Hres).
    destruct (pto_ws [] (x7d :: r) d (or_introl eq_refl) eq_refl p1) as (w & p2 & Ew & _). cbn [app] in Ew.
    exists (res, raw_with_span (p1, p2)), p2. split; [|exact Hres].
    rewrite (bind_ok _ _ _ _ _ E).
    rewrite (bind_ok _ _ _ (p1, p2) (mkIn (x7d :: r) p2 d)); [reflexivity|].
    unfold span_. rewrite Ew. reflexivity.
  Qed.
End Inline.

(* ---- the induction over constructed values -------------------------------------------------------------------- *)
Lemma abs_built_array es tr c d sp0 : abs_value (VArray (map IValue es) tr c d sp0) = AArr (map abs_value es).
Proof.
  cbn [abs_value]. f_equal. induction es as [|e es IH]; [reflexivity|]. cbn [map flat_map app]. rewrite IH. reflexivity.
Qed.
Lemma abs_built_inline l pre im dt d sp0 :
  abs_value (VInline (mk_inline_items l) pre im dt d sp0) = AInl (map (fun kv => (fst kv, abs_value (snd kv))) l).
Proof.
  cbn [abs_value]. f_equal. unfold mk_inline_items. induction l as [|[k e] l IH]; [reflexivity|].
  cbn [map flat_map app fst snd]. rewrite IH. reflexivity.
Qed.

Lemma depth_built_array es tr c d sp0 e :
  In e es -> value_depth e < value_depth (VArray (map IValue es) tr c d sp0).
Proof.
  intro H. cbn [value_depth]. apply Nat.lt_succ_r.
  induction es as [|x es IH]; [contradiction|]. cbn [map fold_right]. destruct H as [-> | H]; [lia|].
  specialize (IH H). lia.
Qed.
Lemma depth_built_inline l pre im dt d sp0 kv :
  In kv l -> value_depth (snd kv) < value_depth (VInline (mk_inline_items l) pre im dt d sp0).
Proof.
  intro H. cbn [value_depth]. apply Nat.lt_succ_r. unfold mk_inline_items.
  induction l as [|x l IH]; [contradiction|]. cbn [map fold_right fst snd]. destruct H as [-> | H]; [lia|].
  specialize (IH H). lia.
Qed.

Lemma value_depth_ml_elem e : value_depth (ml_elem e) = value_depth e.
Proof. destruct e; reflexivity. Qed.
Lemma abs_ml_elem e : abs_value (ml_elem e) = abs_value e.
Proof. destruct e; reflexivity. Qed.
Lemma abs_built_array_ml es tr c d sp0 :
  abs_value (VArray (map (fun e => IValue (ml_elem e)) es) tr c d sp0) = AArr (map abs_value es).
Proof.
  cbn [abs_value]. f_equal. induction es as [|e es IH]; [reflexivity|]. cbn [map flat_map app]. rewrite IH, abs_ml_elem. reflexivity.
Qed.
Lemma depth_built_array_ml es tr c d sp0 e :
  In e es -> value_depth e < value_depth (VArray (map (fun e => IValue (ml_elem e)) es) tr c d sp0).
Proof.
  intro H. cbn [value_depth]. apply Nat.lt_succ_r.
  induction es as [|x es IH]; [contradiction|]. cbn [map fold_right]. rewrite value_depth_ml_elem.
  destruct H as [-> | H]; [lia|]. specialize (IH H). lia.
Qed.

(* the value parser backtracks on a closing bracket (dispatch: `_ => fail`) *)
Lemma value_f_bt_close f r p d : exists e i', value_f (S f) (mkIn (x5d :: r) p d) = Bt e i'.
Proof.
  cbn [value_f]. unfold value_step, with_span, pmap, value_body, bind.
  assert (E : context (peek any) (mkIn (x5d :: r) p d) = Ok x5d (mkIn (x5d :: r) p d)) by reflexivity.
  rewrite E. do 2 eexists. reflexivity.
Qed.

Section Main.
  Variable ftext : fval -> bytes.
  Local Notation txt := (txt ftext).

  (* what is asked of a leaf: its text starts like a value and the value parser reads it back, in front
     of anything that can follow a value in printed text *)
  Definition leaf_ok (s : scalar) : Prop :=
    vhead (scalar_txt ftext s) /\
    forall vr r d, vterm r -> pto (value_step vr) (scalar_txt ftext s) r d (fun v => abs_value v = AScalar s).
  Definition key_ok (k : bytes) : Prop := utf8_valid_b k = true.

  Definition value_rt (v : value) : Prop :=
    vhead (txt v) /\
    forall fuel r d, vterm r -> value_depth v < fuel -> d + value_depth v < LIMIT ->
      pto (value_f fuel) (txt v) r d (fun v' => abs_value v' = abs_value v).

  Lemma vstart_open_array : vstart x5b. Proof. repeat split. Qed.
  Lemma vstart_open_inline : vstart x7b. Proof. repeat split. Qed.

  Theorem value_txt_rt : forall v, BuiltValue leaf_ok key_ok v -> value_rt v.
  Proof.
    apply BuiltValue_sind.
    - (* scalars *)
      intros s dcr [Hh Hp] _. split; [exact Hh|].
      intros fuel r d Hr Hf _. destruct fuel as [|f]; [cbn in Hf; lia|].
      intro p. exact (Hp (value_f f) r d Hr p).
    - (* arrays *)
      intros es dcr _ Hes IH. split.
      { rewrite txt_array. exists x5b. eexists. split; [reflexivity|apply vstart_open_array]. }
      intros fuel r d Hr Hf Hd. destruct fuel as [|f]; [lia|].
      set (v := VArray (map IValue es) REmpty false dcr None) in *.
      set (l := map (fun e => (value_decor e, txt e, fun y => y = abs_value e)) es).
      assert (Etxt : txt v = x5b :: arr_txt (map fst l) ++ [x5d]).
      { unfold v, l. rewrite txt_array, map_map. reflexivity. }
      rewrite Etxt.
      assert (Hl : Forall (fun x => decor_built (fst (fst x)) /\ vhead (snd (fst x)) /\
                                    forall r', vterm r' -> pto (value_f f) (snd (fst x)) r' (S d) (fun v' => snd x (abs_value v'))) l).
      { unfold l. apply Forall_forall. intros x Hx. apply in_map_iff in Hx as (e & <- & He). cbn [fst snd].
        rewrite Forall_forall in IH, Hes. destruct (IH e He) as [Hh Hp].
        split; [apply (built_decor _ _ _ (Hes e He))|]. split; [exact Hh|].
        intros r' Hr'. pose proof (depth_built_array es REmpty false dcr None e He) as Hlt. fold v in Hlt.
        apply Hp; [exact Hr'|lia|lia]. }
      assert (Hrec : S d < LIMIT) by (unfold v in Hd; cbn [value_depth] in Hd; lia).
      intro p.
      destruct (pto_value_step (value_f f) (x5b :: arr_txt (map fst l) ++ [x5d]) r d
                  (fun a => exists ys, a = AArr ys /\ Forall2 (fun x y => snd x y) l ys)) with (p := p)
        as (v' & p' & E & ys & Ea & Hys).
      { apply pto_eq with (q' := check_recursion (array (value_f f))); [intro p0; apply value_body_array|].
        apply pto_check_recursion; [exact Hrec|]. apply array_pto. exact Hl. }
      exists v', p'. split; [exact E|]. rewrite Ea. unfold v. rewrite abs_built_array. f_equal.
      clear - Hys. unfold l in Hys. revert ys Hys. induction es as [|e es IHes]; intros ys H; inversion H; subst; [reflexivity|].
      cbn [map snd] in *. f_equal; [assumption|apply IHes; assumption].
    - (* arrays in the multi-line layout *)
      intros es dcr _ Hes IH. split.
      { rewrite txt_array_ml. exists x5b. eexists. split; [reflexivity|apply vstart_open_array]. }
      intros fuel r d Hr Hf Hd. destruct fuel as [|f]; [lia|].
      set (v := VArray (map (fun e => IValue (ml_elem e)) es) (RExplicit [x0a]) true dcr None) in *.
      set (l := map (fun e => (ml_decor e, txt e, fun y => y = abs_value e)) es).
      assert (Etxt : txt v = x5b :: (arr_txt (map fst l) ++ (match l with [] => [] | _ => [x2c] end) ++ [x0a]) ++ [x5d]).
      { unfold v, l. rewrite txt_array_ml, map_map. cbn [fst]. destruct es; cbn [map]; rewrite <- ?app_assoc; reflexivity. }
      rewrite Etxt.
      assert (Hl : Forall (fun x => ml_decor_ok (fst (fst x)) /\ vhead (snd (fst x)) /\
                                    forall r', vterm r' -> pto (value_f f) (snd (fst x)) r' (S d) (fun v' => snd x (abs_value v'))) l).
      { unfold l. apply Forall_forall. intros x Hx. apply in_map_iff in Hx as (e & <- & He). cbn [fst snd].
        rewrite Forall_forall in IH, Hes. destruct (IH e He) as [Hh Hp].
        split; [split; [reflexivity|apply (built_decor _ _ _ (Hes e He))]|]. split; [exact Hh|].
        intros r' Hr'. pose proof (depth_built_array_ml es (RExplicit [x0a]) true dcr None e He) as Hlt. fold v in Hlt.
        apply Hp; [exact Hr'|lia|lia]. }
      assert (Hrec : S d < LIMIT) by (unfold v in Hd; cbn [value_depth] in Hd; lia).
      assert (Hbt : vr_bt_close (value_f f) (S d)).
      { intros r' p0. destruct f as [|f']; [unfold v in Hf; cbn [value_depth] in Hf; lia|]. apply value_f_bt_close. }
      intro p.
      destruct (pto_value_step (value_f f) (x5b :: (arr_txt (map fst l) ++ (match l with [] => [] | _ => [x2c] end) ++ [x0a]) ++ [x5d]) r d
                  (fun a => exists ys, a = AArr ys /\ Forall2 (fun x y => snd x y) l ys)) with (p := p)
        as (v' & p' & E & ys & Ea & Hys).
      { apply pto_eq with (q' := check_recursion (array (value_f f))); [intro p0; apply value_body_array|].
        apply pto_check_recursion; [exact Hrec|]. apply array_ml_pto; [exact Hbt|exact Hl]. }
      exists v', p'. split; [exact E|]. rewrite Ea. unfold v. rewrite abs_built_array_ml. f_equal.
      clear - Hys. unfold l in Hys. revert ys Hys. induction es as [|e es IHes]; intros ys H; inversion H; subst; [reflexivity|].
      cbn [map snd] in *. f_equal; [assumption|apply IHes; assumption].
    - (* inline tables *)
      intros l0 dcr _ Hnd Hk Hes IH. split.
      { rewrite txt_inline. exists x7b. eexists. split; [reflexivity|apply vstart_open_inline]. }
      intros fuel r d Hr Hf Hd. destruct fuel as [|f]; [lia|].
      set (v := VInline (mk_inline_items l0) REmpty false false dcr None) in *.
      set (l := map (fun kv => mkIE (fst kv) (key_display_repr (key_new (fst kv))) (value_decor (snd kv))
                                   (txt (snd kv)) (abs_value (snd kv))) l0).
      assert (Etxt : txt v = x7b :: inl_txt (map ie_kdt l) ++ [x7d]).
      { unfold v, l. rewrite txt_inline, map_map. reflexivity. }
      rewrite Etxt.
      assert (Hkeys : map ie_key l = map fst l0) by (unfold l; rewrite map_map; reflexivity).
      assert (Hl : Forall (ielem_ok (value_f f) (S d)) l).
      { unfold l. apply Forall_forall. intros x Hx. apply in_map_iff in Hx as (kv & <- & Hkv).
        rewrite Forall_forall in IH, Hes, Hk.
        assert (Hin : In (snd kv) (map snd l0)) by (apply in_map; exact Hkv).
        destruct (IH _ Hin) as [Hh Hp].
        destruct (key_display_new (fst kv)) as (tk & Hw & Etk).
        unfold ielem_ok. cbn [ie_key ie_tok ie_decor ie_txt ie_abs].
        split; [apply Hk, in_map, Hkv|]. split; [rewrite Etk; exact Hw|].
        split; [apply (built_decor _ _ _ (Hes _ Hin))|]. split; [exact Hh|].
        intros r' Hr'. pose proof (depth_built_inline l0 REmpty false false dcr None kv Hkv) as Hlt. fold v in Hlt.
        apply Hp; [exact Hr'|lia|lia]. }
      assert (Hdep : Forall (fun x => S (adepth (ie_abs x)) < LIMIT) l).
      { unfold l. apply Forall_forall. intros x Hx. apply in_map_iff in Hx as (kv & <- & Hkv). cbn [ie_abs].
        rewrite <- value_depth_adepth.
        pose proof (depth_built_inline l0 REmpty false false dcr None kv Hkv) as Hlt. fold v in Hlt. lia. }
      assert (Hrec : S d < LIMIT) by (unfold v in Hd; cbn [value_depth] in Hd; lia).
      intro p.
      destruct (pto_value_step (value_f f) (x7b :: inl_txt (map ie_kdt l) ++ [x7d]) r d
                  (fun a => a = AInl (map (fun x => (ie_key x, ie_abs x)) l))) with (p := p)
        as (v' & p' & E & Ea).
      { apply pto_eq with (q' := check_recursion (inline_table (value_f f))); [intro p0; apply value_body_inline|].
        apply pto_check_recursion; [exact Hrec|]. apply inline_table_pto; [exact Hl| |exact Hdep].
        rewrite Hkeys. exact Hnd. }
      exists v', p'. split; [exact E|]. rewrite Ea. unfold v. rewrite abs_built_inline. f_equal.
      unfold l. rewrite map_map. reflexivity.
  Qed.
End Main.
