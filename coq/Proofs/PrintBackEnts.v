(* Proofs/PrintBackEnts.v — C03, class (c): the tables Display visits (Model/Encode.v nested_tables)
   as a structural function of the tree (`ents`), independent of the fuel, and compatible with the
   substitution of spans (`ttbl`). *)
From TV Require Import Base.Prelude Base.Utf8 Base.Winnow Gen.Consts.
From TV Require Import Model.Datetime Model.Numbers Model.Tree Model.Parse Model.Document Model.Write Model.Encode.
From TV Require Import Proofs.SpansDefs Proofs.PrintBackBase Proofs.PrintBackValue Proofs.PrintBackDoc Proofs.PrintBackSort.
Require Import Lia ZifyBool ZifyN ZifyNat Sorting.Sorted Sorting.Permutation.

Lemma flat_map_in_ext {A B} (f g : A -> list B) l : (forall x, In x l -> f x = g x) -> flat_map f l = flat_map g l.
Proof.
  induction l as [|x l IH]; intro H; [reflexivity|]. cbn [flat_map]. rewrite (H x (or_introl eq_refl)), IH; [reflexivity|].
  intros y Hy. apply H. right. exact Hy.
Qed.

(* ---- the entries of a table: itself (unless made by dotted keys), then those of its sub-tables ------------ *)
Fixpoint ents (t : tbl) (p : list key) (a : bool) {struct t} : list entry :=
  match t with
  | Tbl items _ _ dt _ _ =>
    (if dt then [] else [(t, p, a)]) ++
    (fix go (l : list (key * item)) : list entry :=
       match l with [] => [] | (k, it) :: tl => ients it (p ++ [k]) ++ go tl end) items
  end
with ients (it : item) (p : list key) {struct it} : list entry :=
  match it with
  | ITable sub => ents sub p false
  | IAot ts _ => (fix goa (l : list tbl) : list entry := match l with [] => [] | sub :: tl => ents sub p true ++ goa tl end) ts
  | _ => []
  end.

Definition sub_ents (items : list (key * item)) (p : list key) : list entry :=
  flat_map (fun kv => ients (snd kv) (p ++ [fst kv])) items.

Lemma ents_eq t p a : ents t p a = (if t_dotted t then [] else [(t, p, a)]) ++ sub_ents (t_items t) p.
Proof.
  destruct t as [items d im dt pos sp]. cbn [ents t_dotted t_items]. f_equal. unfold sub_ents.
  induction items as [|[k it] tl IH]; [reflexivity|]. cbn [flat_map fst snd]. rewrite <- IH. reflexivity.
Qed.

Lemma ients_aot ts sp p : ients (IAot ts sp) p = flat_map (fun sub => ents sub p true) ts.
Proof. cbn [ients]. induction ts as [|t tl IH]; [reflexivity|]. cbn [flat_map]. rewrite <- IH. reflexivity. Qed.

Lemma ients_table t p : ients (ITable t) p = ents t p false.
Proof. reflexivity. Qed.

(* ---- enough fuel ------------------------------------------------------------------------------------------- *)
Lemma kv_size_in' (m : list (key * item)) kv : In kv m ->
  item_size (snd kv) <= fold_right (fun kv acc => match kv with (_, i0) => item_size i0 + acc end) 0 m.
Proof. destruct kv as [k it]. apply kv_size_in. Qed.

Lemma tbl_size_in (ts : list tbl) t : In t ts -> tbl_size t <= fold_right (fun t acc => tbl_size t + acc) 0 ts.
Proof. induction ts as [|x l IH]; [intros []|]. intros [-> | H]; cbn [fold_right]; [lia|]. specialize (IH H). lia. Qed.

Lemma nested_tables_ents : forall f t p a, tbl_size t < f -> nested_tables f t p a = ents t p a.
Proof.
  induction f as [|f IH]; intros t p a Hf; [lia|]. rewrite ents_eq. cbn [nested_tables]. f_equal. unfold sub_ents.
  apply flat_map_in_ext. intros [k it] Hin. cbn [fst snd].
  assert (Hsz : item_size it <= f).
  { pose proof (kv_size_in' (t_items t) (k, it) Hin) as H. cbn [snd] in H. destruct t as [items d im dt pos sp]. cbn [tbl_size t_items] in *. lia. }
  destruct it as [|v|sub|ts sp]; try reflexivity.
  - cbn [item_size] in Hsz. rewrite ients_table. apply IH. lia.
  - rewrite ients_aot. apply flat_map_in_ext. intros sub Hs. apply IH.
    pose proof (tbl_size_in ts sub Hs). cbn [item_size] in Hsz. lia.
Qed.

(* ---- substitution of spans ------------------------------------------------------------------------------------ *)
Definition tent (s : bytes) (e : entry) : entry := let '(t, p, a) := e in (ttbl s t, map (tkey s) p, a).

Lemma ttbl_fields s t :
  ttbl s t = Tbl (map (tkv s) (t_items t)) (tdecor s (t_decor t)) (t_implicit t) (t_dotted t) (t_position t) None.
Proof. destruct t. apply ttbl_unfold. Qed.

Lemma titem_aot s ts sp : titem s (IAot ts sp) = IAot (map (ttbl s) ts) None.
Proof. reflexivity. Qed.

Lemma ents_ttbl s :
  (forall v : value, True)
  /\ (forall it, forall p, ients (titem s it) (map (tkey s) p) = map (tent s) (ients it p))
  /\ (forall t, forall p a, ents (ttbl s t) (map (tkey s) p) a = map (tent s) (ents t p a)).
Proof.
  apply tree_ind3; try (intros; exact I).
  - intros p. reflexivity.
  - intros v _ p. reflexivity.
  - intros t IH p. change (titem s (ITable t)) with (ITable (ttbl s t)). rewrite !ients_table. apply IH.
  - intros ts sp IH p. rewrite titem_aot, !ients_aot. rewrite !flat_map_concat_map, concat_map, !map_map. f_equal.
    apply map_ext_Forall. eapply Forall_impl; [|exact IH]. intros t Ht. apply Ht.
  - intros items d im dt pos sp IH p a. rewrite (ents_eq (ttbl s _)), (ents_eq (Tbl _ _ _ _ _ _)), ttbl_fields. cbn [t_dotted t_items].
    assert (Hsub : sub_ents (map (tkv s) items) (map (tkey s) p) = map (tent s) (sub_ents items p)).
    { unfold sub_ents. rewrite !flat_map_concat_map, concat_map, !map_map. f_equal.
      apply map_ext_Forall. eapply Forall_impl; [|exact IH]. intros [k it] Hk. unfold tkv. cbn [fst snd] in *.
      rewrite <- Hk, map_app. reflexivity. }
    rewrite Hsub, map_app. f_equal. destruct dt; [reflexivity|]. cbn [map tent]. rewrite ttbl_unfold. reflexivity.
Qed.

Lemma ents_ttbl_root s t : ents (ttbl s t) [] false = map (tent s) (ents t [] false).
Proof. apply (proj2 (proj2 (ents_ttbl s)) t [] false). Qed.

(* ---- trees of sections: no table made by dotted keys, plain values ------------------------------------------- *)
Fixpoint sec_tbl (t : tbl) : bool :=
  match t with
  | Tbl items _ _ dt _ _ =>
    negb dt && (fix go (l : list (key * item)) : bool := match l with [] => true | (_, it) :: tl => sec_item it && go tl end) items
  end
with sec_item (it : item) : bool :=
  match it with
  | INone => false
  | IValue v => vplain v
  | ITable sub => sec_tbl sub
  | IAot ts _ => (fix goa (l : list tbl) : bool := match l with [] => true | sub :: tl => sec_tbl sub && goa tl end) ts
  end.

Lemma sec_tbl_eq t : sec_tbl t = negb (t_dotted t) && forallb (fun kv => sec_item (snd kv)) (t_items t).
Proof.
  destruct t as [items d im dt pos sp]. cbn [sec_tbl t_dotted t_items]. f_equal.
  induction items as [|[k it] tl IH]; [reflexivity|]. cbn [forallb snd]. rewrite <- IH. reflexivity.
Qed.

Lemma sec_item_aot ts sp : sec_item (IAot ts sp) = forallb sec_tbl ts.
Proof. cbn [sec_item]. induction ts as [|t tl IH]; [reflexivity|]. cbn [forallb]. rewrite <- IH. reflexivity. Qed.

Definition esec (e : entry) : Prop := sec_tbl (fst (fst e)) = true.
Definition epath (e : entry) : list key := snd (fst e).

Lemma ents_sec :
  (forall v : value, True)
  /\ (forall it, forall p, sec_item it = true -> p <> [] -> Forall (fun e => esec e /\ epath e <> []) (ients it p))
  /\ (forall t, forall p a, sec_tbl t = true -> p <> [] -> Forall (fun e => esec e /\ epath e <> []) (ents t p a)).
Proof.
  apply tree_ind3; try (intros; exact I).
  - intros; constructor.
  - intros; constructor.
  - intros t IH p Hs Hp. rewrite ients_table. apply IH; assumption.
  - intros ts sp IH p Hs Hp. rewrite ients_aot. rewrite sec_item_aot in Hs. rewrite forallb_forall in Hs.
    rewrite Forall_forall in *. intros e He. apply in_flat_map in He as (t & Ht & He).
    specialize (IH t Ht p true (Hs t Ht) Hp). rewrite Forall_forall in IH. apply IH, He.
  - intros items d im dt pos sp IH p a Hs Hp. rewrite ents_eq. pose proof Hs as Hs0. rewrite sec_tbl_eq in Hs. cbn [t_dotted t_items] in *.
    apply andb_true_iff in Hs as [Hd Hi]. destruct dt; [discriminate|]. apply Forall_app. split.
    + constructor; [|constructor]. split; [exact Hs0|exact Hp].
    + unfold sub_ents. rewrite forallb_forall in Hi. rewrite Forall_forall in *. intros e He. apply in_flat_map in He as ([k it] & Hk & He).
      cbn [fst snd] in He. specialize (IH (k, it) Hk (p ++ [k]) (Hi _ Hk)). cbn [snd] in IH.
      assert (Hne : p ++ [k] <> []) by (destruct p; discriminate). specialize (IH Hne). rewrite Forall_forall in IH. apply IH, He.
Qed.

Lemma sub_ents_sec t : sec_tbl t = true -> Forall (fun e => esec e /\ epath e <> []) (sub_ents (t_items t) []).
Proof.
  intro Hs. rewrite sec_tbl_eq in Hs. apply andb_true_iff in Hs as [_ Hi]. rewrite forallb_forall in Hi.
  unfold sub_ents. rewrite Forall_forall. intros e He. apply in_flat_map in He as ([k it] & Hk & He). cbn [fst snd app] in He.
  pose proof (proj1 (proj2 ents_sec) it [k] (Hi _ Hk) ltac:(discriminate)) as H. rewrite Forall_forall in H. apply H, He.
Qed.

(* ---- the key/value lines of a section ------------------------------------------------------------------------ *)
Definition vals (items : list (key * item)) : list (key * value) :=
  flat_map (fun kv => match snd kv with IValue v => [(fst kv, v)] | _ => [] end) items.
Definition ktext (s : bytes) (items : list (key * item)) : bytes := flat_map (kv_line s) (vals items).

Lemma table_values_sec s f items : forallb (fun kv => sec_item (snd kv)) items = true ->
  table_values (S f) [] (map (tkv s) items) = map (fun kv => ([tkey s (fst kv)], tvalue s (snd kv))) (vals items).
Proof.
  induction items as [|[k it] tl IH]; [reflexivity|]. cbn [forallb snd]. intro H. apply andb_true_iff in H as [Hi Ht].
  cbn [map]. change (table_values (S f) [] (tkv s (k, it) :: map (tkv s) tl))
    with ((let path := [] ++ [fst (tkv s (k, it))] in
           match snd (tkv s (k, it)) with
           | ITable (Tbl sub _ _ true _ _) => table_values f path sub
           | IValue (VInline sub _ _ true _ _) => inline_values f path sub
           | IValue v0 => [(path, v0)]
           | _ => []
           end) ++ table_values (S f) [] (map (tkv s) tl)).
  rewrite (IH Ht). unfold tkv. cbn [fst snd app]. unfold vals. cbn [flat_map snd fst]. fold (vals tl).
  destruct it as [|v|sub|ts sp]; cbn [sec_item] in Hi; try discriminate.
  - rewrite titem_value. pose proof (vplain_undot v Hi) as Hu. rewrite <- (undot_tvalue s v) in Hu. cbn [map app fst snd].
    destruct (tvalue s v) as [x r d|vs tr c d sp|its pre im dt d sp]; try reflexivity.
    cbn [undot] in Hu. destruct dt; [discriminate|reflexivity].
  - change (titem s (ITable sub)) with (ITable (ttbl s sub)). rewrite ttbl_fields.
    rewrite sec_tbl_eq in Hi. apply andb_true_iff in Hi as [Hd _]. destruct (t_dotted sub); [discriminate|]. reflexivity.
  - rewrite titem_aot. reflexivity.
Qed.

(* ---- what one table prints ---------------------------------------------------------------------------------- *)
Definition no_vals (t : tbl) : bool := match vals (t_items t) with [] => true | _ => false end.
(* a table below the root prints if it is an array element, was defined by a header, or holds values *)
Definition svis (e : entry) : bool := let '(t, p, a) := e in a || negb (t_implicit t && no_vals t).
Definition hdr_open (a : bool) : bytes := if a then [x5b; x5b] else [x5b].
Definition hdr_close (a : bool) : bytes := if a then [x5d; x5d] else [x5d].
(* the header as printed: comments of the key, [ key path ] *)
Definition hdr_text (s : bytes) (p : list key) (a : bool) : bytes :=
  encode_key_comments (map (tkey s) p) ++ hdr_open a
  ++ encode_header_key_path (map (tkey s) p) DEFAULT_KEY_PATH_DECOR ++ hdr_close a.
Definition etxt (s : bytes) (e : entry) : bytes :=
  let '(t, p, a) := e in
  match p with
  | [] => ktext s (t_items t)
  | _ => raw_encode (traw s (match d_prefix (t_decor t) with Some r => r | None => REmpty end)) []
         ++ hdr_text s p a
         ++ raw_encode (traw s (match d_suffix (t_decor t) with Some r => r | None => REmpty end)) [] ++ [x0a]
         ++ ktext s (t_items t)
  end.
Definition decor_some (d : decor) : Prop := d_prefix d <> None /\ d_suffix d <> None.

Lemma children_sec s t : sec_tbl t = true ->
  table_values (S (tbl_size (ttbl s t))) [] (t_items (ttbl s t)) = map (fun kv => ([tkey s (fst kv)], tvalue s (snd kv))) (vals (t_items t)).
Proof.
  intro Hs. rewrite sec_tbl_eq in Hs. apply andb_true_iff in Hs as [_ Hi]. rewrite ttbl_fields at 2. cbn [t_items].
  apply table_values_sec, Hi.
Qed.

Lemma lines_ktext s (l : list (key * value)) :
  flat_map (fun '(kp, v) => encode_key_path kp DEFAULT_KEY_DECOR ++ [x3d] ++ encode_value (S (value_size v)) v DEFAULT_VALUE_DECOR ++ [x0a])
           (map (fun kv => ([tkey s (fst kv)], tvalue s (snd kv))) l)
  = flat_map (kv_line s) l.
Proof.
  induction l as [|[k v] tl IH]; [reflexivity|]. cbn [map flat_map]. rewrite IH. unfold kv_line. cbn [fst snd].
  repeat first [rewrite <- app_assoc | progress cbn [app]]. reflexivity.
Qed.

(* a table that does not print *)
Lemma visit_invisible s t p a b : sec_tbl t = true -> p <> [] -> svis (t, p, a) = false ->
  visit_table (ttbl s t) (map (tkey s) p) a b = ([], b).
Proof.
  intros Hs Hp Hv. unfold visit_table. rewrite (children_sec s t Hs). cbn [svis] in Hv.
  apply orb_false_iff in Hv as [-> Hv]. apply negb_false_iff, andb_true_iff in Hv as [Him Hn].
  unfold no_vals in Hn. destruct (vals (t_items t)) as [|x l] eqn:Ev; [|discriminate]. cbn [map].
  rewrite ttbl_fields. cbn [t_implicit]. rewrite Him. cbn [andb negb].
  destruct (map (tkey s) p) eqn:Ep; [destruct p; [congruence|discriminate]|]. reflexivity.
Qed.

(* a table that prints *)
Lemma visit_visible s t p a b : sec_tbl t = true -> (p = [] \/ (svis (t, p, a) = true /\ decor_some (t_decor t))) ->
  fst (visit_table (ttbl s t) (map (tkey s) p) a b) = etxt s (t, p, a).
Proof.
  intros Hs Hp. unfold visit_table. rewrite (children_sec s t Hs). rewrite lines_ktext. fold (ktext s (t_items t)).
  destruct Hp as [-> | [Hv [Hd1 Hd2]]].
  - cbn [map etxt]. destruct (match map _ (vals (t_items t)) with [] => true | _ => false end); reflexivity.
  - destruct p as [|k0 p0]; [cbn [map etxt]; destruct (match map _ (vals (t_items t)) with [] => true | _ => false end); reflexivity|].
    cbn [svis] in Hv. set (P := map (tkey s) (k0 :: p0)). assert (EP : exists q0 ql, P = q0 :: ql) by (eexists _, _; reflexivity).
    destruct EP as (q0 & ql & EP). cbn [etxt]. fold P. unfold hdr_text. fold P.
    assert (Hh : forall o c, (let default := if b then ([], snd DEFAULT_TABLE_DECOR) else DEFAULT_TABLE_DECOR in
                     decor_prefix (t_decor (ttbl s t)) (fst default) ++ encode_key_comments P ++ o
                     ++ encode_header_key_path P DEFAULT_KEY_PATH_DECOR ++ c
                     ++ decor_suffix (t_decor (ttbl s t)) (snd default) ++ [x0a])
                    = raw_encode (traw s (match d_prefix (t_decor t) with Some r => r | None => REmpty end)) []
                      ++ (encode_key_comments P ++ o ++ encode_header_key_path P DEFAULT_KEY_PATH_DECOR ++ c)
                      ++ raw_encode (traw s (match d_suffix (t_decor t) with Some r => r | None => REmpty end)) [] ++ [x0a]).
    { intros o c. cbv zeta. rewrite ttbl_fields. cbn [t_decor]. unfold decor_prefix, decor_suffix, tdecor. cbn [d_prefix d_suffix].
      destruct (d_prefix (t_decor t)) as [r1|]; [|congruence]. destruct (d_suffix (t_decor t)) as [r2|]; [|congruence]. cbn [toraw].
      assert (Hraw : forall r x y, raw_encode (traw s r) x = raw_encode (traw s r) y).
      { intros r x y. destruct r as [|u|u v]; cbn [traw]; try reflexivity. unfold raw_of_bytes. destruct (slice s u v); reflexivity. }
      rewrite (Hraw r1 _ []), (Hraw r2 _ []). rewrite <- !app_assoc. reflexivity. }
    rewrite EP. rewrite <- EP.
    destruct a.
    + rewrite EP. cbn [fst]. rewrite <- EP. cbv zeta in Hh. rewrite (Hh [x5b; x5b] [x5d; x5d]). unfold hdr_open, hdr_close. rewrite <- !app_assoc. reflexivity.
    + cbn [orb] in Hv. rewrite ttbl_fields. cbn [t_implicit].
      assert (Hvis : negb (t_implicit t && match map (fun kv : key * value => ([tkey s (fst kv)], tvalue s (snd kv))) (vals (t_items t)) with [] => true | _ => false end) = true).
      { unfold no_vals in Hv. destruct (vals (t_items t)); exact Hv. }
      rewrite Hvis. rewrite EP. cbn [fst]. rewrite <- EP. rewrite <- ttbl_fields. cbv zeta in Hh. rewrite (Hh [x5b] [x5d]).
      unfold hdr_open, hdr_close. rewrite <- !app_assoc. reflexivity.
Qed.
