(* Proofs/MacroEq.v — C19: `eval` (Spec/MacroSpec.v) against the unmodified claims interpreter `spec_run`
   (Spec/Defs.v, the specification C09 proves the parser's state machine equal to).  The two differ in ONE
   place: when a `[header]` arrives for a table that so far exists only as a super-table, Spec/Defs.v moves
   the table to the end of its parent (`def_table`), `eval` leaves it where it is (`def_table_here`).
   Consequently the trees have the same content under every key, recursively, and may differ in the ORDER
   of keys only (`same`), which a toml::Table (a BTreeMap) does not observe. *)
From TV Require Import Base.Prelude Base.Utf8 Model.Macro Spec.Defs Spec.MacroSpec.

Lemma NoDup_app_snoc : forall {A} (l : list A) x, NoDup l -> ~ In x l -> NoDup (l ++ [x]).
Proof.
  induction l as [|a l IH]; intros x H Hx; cbn [app]; [constructor; [intros []|constructor]|].
  inversion H as [|? ? Ha Hl]; subst. constructor.
  - intro Hin. apply in_app_or in Hin as [Hin|[Hin|[]]]; [exact (Ha Hin)|]. subst. apply Hx. left. reflexivity.
  - apply IH; [exact Hl|]. intro Hin. apply Hx. right. exact Hin.
Qed.

Section Eq.
Variable V : Type.
Notation tree := (stree V).

(* same content under every key, to depth n *)
Fixpoint same (n : nat) (a b : tree) : Prop :=
  match n with
  | O => True
  | S m =>
    forall k,
      match sget a k, sget b k with
      | None, None => True
      | Some (NVal x), Some (NVal y) => x = y
      | Some (NTab k1 c1), Some (NTab k2 c2) => k1 = k2 /\ same m c1 c2
      | Some (NAot e1), Some (NAot e2) => Forall2 (same m) e1 e2
      | _, _ => False
      end
  end.
Definition Same (a b : tree) : Prop := forall n, same n a b.

(* keys are unique at every level, to depth n *)
Fixpoint wf (n : nat) (t : tree) : Prop :=
  NoDup (List.map fst t) /\
  match n with
  | O => True
  | S m => Forall (fun kn => match snd kn with
                             | NVal _ => True
                             | NTab _ c => wf m c
                             | NAot es => Forall (wf m) es
                             end) t
  end.
Definition Wf (t : tree) : Prop := forall n, wf n t.

(* ---- get / set ---- *)
Lemma bytes_eqb_sym : forall a b, bytes_eqb a b = bytes_eqb b a.
Proof.
  intros a b. destruct (bytes_eqb a b) eqn:E1; destruct (bytes_eqb b a) eqn:E2; try reflexivity.
  - apply bytes_eqb_eq in E1. subst. rewrite bytes_eqb_refl in E2. discriminate.
  - apply bytes_eqb_eq in E2. subst. rewrite bytes_eqb_refl in E1. discriminate.
Qed.

Lemma sget_sset : forall (t : tree) k n k',
  sget (sset t k n) k' = if bytes_eqb k k' then (match sget t k with Some _ => Some n | None => None end) else sget t k'.
Proof.
  induction t as [|[k0 n0] t IH]; intros k n k'; cbn [sget sset].
  - destruct (bytes_eqb k k'); reflexivity.
  - destruct (bytes_eqb k0 k) eqn:E0.
    + apply bytes_eqb_eq in E0. subst k0. cbn [sget]. destruct (bytes_eqb k k') eqn:E; reflexivity.
    + cbn [sget]. rewrite IH. destruct (bytes_eqb k k') eqn:E.
      * apply bytes_eqb_eq in E. subst k'. rewrite E0. reflexivity.
      * destruct (bytes_eqb k0 k'); reflexivity.
Qed.

Lemma sget_spush : forall (t : tree) k n k',
  sget (spush t k n) k' = match sget t k' with Some x => Some x | None => if bytes_eqb k k' then Some n else None end.
Proof.
  unfold spush. induction t as [|[k0 n0] t IH]; intros k n k'; cbn [sget app].
  - reflexivity.
  - destruct (bytes_eqb k0 k'); [reflexivity|apply IH].
Qed.

Lemma sget_sremove_other : forall (t : tree) k k', bytes_eqb k k' = false -> sget (sremove t k) k' = sget t k'.
Proof.
  induction t as [|[k0 n0] t IH]; intros k k' H; cbn [sget sremove]; [reflexivity|].
  destruct (bytes_eqb k0 k) eqn:E0.
  - apply bytes_eqb_eq in E0. subst k0. rewrite H. reflexivity.
  - cbn [sget]. destruct (bytes_eqb k0 k'); [reflexivity|apply IH; exact H].
Qed.

Lemma sget_in : forall (t : tree) k n, sget t k = Some n -> In (k, n) t.
Proof.
  induction t as [|[k0 n0] t IH]; intros k n H; cbn [sget] in H; [discriminate|].
  destruct (bytes_eqb k0 k) eqn:E.
  - apply bytes_eqb_eq in E. subst. injection H as ->. left. reflexivity.
  - right. apply IH. exact H.
Qed.

Lemma sget_none_notin : forall (t : tree) k, sget t k = None -> ~ In k (List.map fst t).
Proof.
  induction t as [|[k0 n0] t IH]; intros k H Hin; cbn [sget] in H; [exact Hin|].
  destruct (bytes_eqb k0 k) eqn:E; [discriminate|]. cbn [List.map fst] in Hin. destruct Hin as [Hin|Hin].
  - subst. rewrite bytes_eqb_refl in E. discriminate.
  - exact (IH k H Hin).
Qed.

Lemma sget_sremove_same : forall (t : tree) k, NoDup (List.map fst t) -> sget (sremove t k) k = None.
Proof.
  induction t as [|[k0 n0] t IH]; intros k Hnd; cbn [sget sremove]; [reflexivity|].
  cbn [List.map fst] in Hnd. inversion Hnd as [|? ? Hnot Hnd']; subst.
  destruct (bytes_eqb k0 k) eqn:E0.
  - apply bytes_eqb_eq in E0. subst k0.
    destruct (sget t k) as [x|] eqn:Eg; [|reflexivity].
    exfalso. apply Hnot. apply sget_in in Eg. apply (in_map fst) in Eg. exact Eg.
  - cbn [sget]. rewrite E0. apply IH. exact Hnd'.
Qed.

(* ---- one-level unfoldings of Same and Wf ---- *)
Definition shape (R : tree -> tree -> Prop) (x y : option (node V)) : Prop :=
  match x, y with
  | None, None => True
  | Some (NVal a), Some (NVal b) => a = b
  | Some (NTab k1 c1), Some (NTab k2 c2) => k1 = k2 /\ R c1 c2
  | Some (NAot e1), Some (NAot e2) => Forall2 R e1 e2
  | _, _ => False
  end.

Lemma same_S : forall m a b, same (S m) a b <-> forall k, shape (same m) (sget a k) (sget b k).
Proof. intros. reflexivity. Qed.

Lemma Forall2_all : forall (e1 e2 : list tree), (forall n, Forall2 (same n) e1 e2) -> Forall2 Same e1 e2.
Proof.
  induction e1 as [|a e1 IH]; intros e2 H.
  - specialize (H 0). inversion H. constructor.
  - destruct e2 as [|b e2]; [specialize (H 0); inversion H|].
    constructor.
    + intro n. specialize (H n). inversion H; assumption.
    + apply IH. intro n. specialize (H n). inversion H; assumption.
Qed.

Lemma Forall2_each : forall (e1 e2 : list tree) n, Forall2 Same e1 e2 -> Forall2 (same n) e1 e2.
Proof. intros e1 e2 n H. induction H; constructor; auto. Qed.

Lemma Same_get : forall a b k, Same a b -> shape Same (sget a k) (sget b k).
Proof.
  intros a b k H. pose proof (H 1) as H1. rewrite same_S in H1. specialize (H1 k).
  destruct (sget a k) as [[x|k1 c1|e1]|] eqn:Ea; destruct (sget b k) as [[y|k2 c2|e2]|] eqn:Eb; cbn [shape] in *; try contradiction; auto.
  - destruct H1 as [-> _]. split; [reflexivity|]. intro n. specialize (H (S n)). rewrite same_S in H. specialize (H k).
    rewrite Ea, Eb in H. cbn [shape] in H. tauto.
  - apply Forall2_all. intro n. specialize (H (S n)). rewrite same_S in H. specialize (H k). rewrite Ea, Eb in H. exact H.
Qed.

Lemma Same_intro : forall a b, (forall k, shape Same (sget a k) (sget b k)) -> Same a b.
Proof.
  intros a b H [|n]; [exact I|]. rewrite same_S. intro k. specialize (H k).
  destruct (sget a k) as [[x|k1 c1|e1]|]; destruct (sget b k) as [[y|k2 c2|e2]|]; cbn [shape] in *; try contradiction; auto.
  - destruct H as [-> H]. split; [reflexivity|apply H].
  - apply Forall2_each. exact H.
Qed.

Lemma Same_nil : Same [] [].
Proof. apply Same_intro. intro k. exact I. Qed.

Definition sub_wf (kn : bytes * node V) : Prop :=
  match snd kn with NVal _ => True | NTab _ c => Wf c | NAot es => Forall Wf es end.

Lemma Wf_unfold : forall t, Wf t <-> NoDup (List.map fst t) /\ Forall sub_wf t.
Proof.
  intro t. split.
  - intro H. split; [exact (proj1 (H 0))|].
    apply Forall_forall. intros [k nd] Hin. unfold sub_wf. cbn [snd].
    destruct nd as [x|kd c|es]; [exact I| |].
    + intro n. pose proof (proj2 (H (S n))) as H2. cbn beta iota in H2. rewrite Forall_forall in H2. exact (H2 _ Hin).
    + apply Forall_forall. intros e He n. pose proof (proj2 (H (S n))) as H2. cbn beta iota in H2. rewrite Forall_forall in H2.
      specialize (H2 _ Hin). cbn [snd] in H2. rewrite Forall_forall in H2. exact (H2 e He).
  - intros [Hnd Hsub] [|n]; [split; [exact Hnd|exact I]|]. split; [exact Hnd|].
    apply Forall_forall. intros [k nd] Hin. rewrite Forall_forall in Hsub. specialize (Hsub _ Hin). unfold sub_wf in Hsub. cbn [snd] in *.
    destruct nd as [x|kd c|es]; [exact I|apply Hsub|].
    apply Forall_forall. intros e He. rewrite Forall_forall in Hsub. apply Hsub. exact He.
Qed.

Lemma Wf_nil : Wf [].
Proof. apply Wf_unfold. split; constructor. Qed.

Lemma Wf_get : forall t k nd, Wf t -> sget t k = Some nd -> sub_wf (k, nd).
Proof.
  intros t k nd H Hg. apply Wf_unfold in H as [_ Hs]. rewrite Forall_forall in Hs. apply Hs. apply sget_in. exact Hg.
Qed.

Lemma keys_sset : forall (t : tree) k n, List.map fst (sset t k n) = List.map fst t.
Proof.
  induction t as [|[k0 n0] t IH]; intros k n; cbn [sset List.map fst]; [reflexivity|].
  destruct (bytes_eqb k0 k); cbn [List.map fst]; [reflexivity|]. rewrite IH. reflexivity.
Qed.

Lemma Forall_sset : forall (P : bytes * node V -> Prop) (t : tree) k n,
  Forall P t -> (forall k0, P (k0, n)) -> Forall P (sset t k n).
Proof.
  induction t as [|[k0 n0] t IH]; intros k n H Hn; cbn [sset]; [constructor|].
  inversion H; subst. destruct (bytes_eqb k0 k); constructor; auto.
Qed.

Lemma Wf_sset : forall t k nd, Wf t -> sub_wf (k, nd) -> Wf (sset t k nd).
Proof.
  intros t k nd H Hn. apply Wf_unfold in H as [Hnd Hs]. apply Wf_unfold. split.
  - rewrite keys_sset. exact Hnd.
  - apply Forall_sset; [exact Hs|]. intro k0. exact Hn.
Qed.

Lemma Wf_spush : forall t k nd, Wf t -> sget t k = None -> sub_wf (k, nd) -> Wf (spush t k nd).
Proof.
  intros t k nd H Hg Hn. apply Wf_unfold in H as [Hnd Hs]. apply Wf_unfold. unfold spush. split.
  - rewrite map_app. cbn [List.map fst]. apply NoDup_app_snoc; [exact Hnd|apply sget_none_notin; exact Hg].
  - apply Forall_app. split; [exact Hs|]. constructor; [exact Hn|constructor].
Qed.

(* ---- Same under updates ---- *)
Lemma Same_sset : forall a b k na nb, Same a b -> sget a k <> None -> sget b k <> None ->
  shape Same (Some na) (Some nb) -> Same (sset a k na) (sset b k nb).
Proof.
  intros a b k na nb H Ha Hb Hn. apply Same_intro. intro k'. rewrite !sget_sset.
  destruct (bytes_eqb k k').
  - destruct (sget a k); [|contradiction]. destruct (sget b k); [|contradiction]. exact Hn.
  - apply Same_get. exact H.
Qed.

Lemma Same_spush : forall a b k na nb, Same a b -> sget a k = None -> sget b k = None ->
  shape Same (Some na) (Some nb) -> Same (spush a k na) (spush b k nb).
Proof.
  intros a b k na nb H Ha Hb Hn. apply Same_intro. intro k'. rewrite !sget_spush.
  pose proof (Same_get a b k' H) as Hs.
  destruct (sget a k') as [xa|] eqn:Ea; destruct (sget b k') as [xb|] eqn:Eb; try exact Hs.
  - destruct xa; contradiction.
  - contradiction.
  - destruct (bytes_eqb k k'); [exact Hn|exact I].
Qed.

Lemma shape_none_r : forall R x, shape R x None -> x = None.
Proof. intros R [[x|k c|e]|] H; try contradiction; reflexivity. Qed.

(* ---- operations related: whenever the specification's succeeds, so does eval's, with the same content ---- *)
Definition op_rel (fe fs : tree -> res tree) : Prop :=
  forall ce cs cs', Same ce cs -> Wf ce -> Wf cs -> fs cs = ROk cs' ->
  exists ce', fe ce = ROk ce' /\ Same ce' cs' /\ Wf ce' /\ Wf cs'.

Lemma Forall2_snoc_inv : forall {A B} (R : A -> B -> Prop) l1 l2 b, Forall2 R l1 (l2 ++ [b]) ->
  exists l1' a, l1 = l1' ++ [a] /\ Forall2 R l1' l2 /\ R a b.
Proof.
  intros A B R l1 l2 b H. apply Forall2_app_inv_r in H as [l1' [la [H1 [H2 ->]]]].
  inversion H2 as [|a ? ? ? Hab Hnil]; subst. inversion Hnil; subst. exists l1', a. auto.
Qed.

Lemma at_path_rel : forall p fe fs, op_rel fe fs -> op_rel (at_path p fe) (at_path p fs).
Proof.
  induction p as [|k p IH]; intros fe fs Hop ce cs cs' HS We Ws H; [exact (Hop ce cs cs' HS We Ws H)|].
  cbn [at_path] in *. pose proof (Same_get ce cs k HS) as Hk.
  destruct (sget cs k) as [[y|kd c|es]|] eqn:Es.
  - discriminate.
  - destruct (sget ce k) as [[x|kd' c'|es']|] eqn:Ee; cbn [shape] in Hk; try contradiction. destruct Hk as [-> Hc].
    destruct (at_path p fs c) as [c1| |] eqn:E1; cbn [rbind] in H; try discriminate. injection H as <-.
    destruct (IH fe fs Hop c' c c1 Hc (Wf_get ce k _ We Ee) (Wf_get cs k _ Ws Es) E1) as [c1' [E1' [HS1 [W1e W1s]]]].
    rewrite E1'. cbn [rbind]. eexists. split; [reflexivity|]. split; [|split].
    + apply Same_sset; [exact HS|rewrite Ee; discriminate|rewrite Es; discriminate|]. cbn [shape]. split; [reflexivity|exact HS1].
    + apply Wf_sset; [exact We|exact W1e].
    + apply Wf_sset; [exact Ws|exact W1s].
  - destruct (sget ce k) as [[x|kd' c'|es']|] eqn:Ee; cbn [shape] in Hk; try contradiction.
    destruct (rev es) as [|e before] eqn:Er; [discriminate|].
    destruct (at_path p fs e) as [e1| |] eqn:E1; cbn [rbind] in H; try discriminate. injection H as <-.
    assert (Hes : es = rev before ++ [e]) by (rewrite <- (rev_involutive es), Er; reflexivity).
    rewrite Hes in Hk. destruct (Forall2_snoc_inv _ _ _ _ Hk) as [bef' [e' [-> [Hbef He]]]].
    rewrite rev_app_distr. cbn [rev app].
    pose proof (Wf_get ce k _ We Ee) as Wse. pose proof (Wf_get cs k _ Ws Es) as Wss. unfold sub_wf in Wse, Wss. cbn [snd] in Wse, Wss.
    rewrite Hes in Wss. apply Forall_app in Wse as [Wbe We']. apply Forall_app in Wss as [Wbs Ws'].
    inversion We' as [|? ? We1 _]; subst. inversion Ws' as [|? ? Ws1 _]; subst.
    destruct (IH fe fs Hop e' e e1 He We1 Ws1 E1) as [e1' [E1' [HS1 [W1e W1s]]]].
    rewrite E1'. cbn [rbind]. eexists. split; [reflexivity|]. rewrite rev_involutive. split; [|split].
    + apply Same_sset; [exact HS|rewrite Ee; discriminate|rewrite Es; discriminate|]. cbn [shape].
      apply Forall2_app; [exact Hbef|constructor; [exact HS1|constructor]].
    + apply Wf_sset; [exact We|]. unfold sub_wf. cbn [snd]. apply Forall_app. split; [exact Wbe|constructor; [exact W1e|constructor]].
    + apply Wf_sset; [exact Ws|]. unfold sub_wf. cbn [snd]. apply Forall_app. split; [exact Wbs|constructor; [exact W1s|constructor]].
  - apply shape_none_r in Hk. rewrite Hk.
    destruct (at_path p fs []) as [c1| |] eqn:E1; cbn [rbind] in H; try discriminate. injection H as <-.
    destruct (IH fe fs Hop [] [] c1 Same_nil Wf_nil Wf_nil E1) as [c1' [E1' [HS1 [W1e W1s]]]].
    rewrite E1'. cbn [rbind]. eexists. split; [reflexivity|]. split; [|split].
    + apply Same_spush; [exact HS|exact Hk|exact Es|]. cbn [shape]. split; [reflexivity|exact HS1].
    + apply Wf_spush; [exact We|exact Hk|exact W1e].
    + apply Wf_spush; [exact Ws|exact Es|exact W1s].
Qed.

(* ---- the operations at the end of the path ---- *)
Lemma insert_kv_cons2' : forall strict k k2 p2 (v : V) t,
  insert_kv strict (k :: k2 :: p2) v t =
  match sget t k with
  | None => c <~ insert_kv strict (k2 :: p2) v [] ;; ROk (spush t k (NTab KDotted c))
  | Some (NTab KDotted c) => c' <~ insert_kv strict (k2 :: p2) v c ;; ROk (sset t k (NTab KDotted c'))
  | Some (NTab KSuper c) =>
    if strict then RUndecided
    else match p2 with
         | [] => RInvalid
         | _ => c' <~ insert_kv strict (k2 :: p2) v c ;; ROk (sset t k (NTab KSuper c'))
         end
  | Some _ => RInvalid
  end.
Proof. reflexivity. Qed.

Lemma insert_kv_rel : forall p v, op_rel (insert_kv true p v) (insert_kv true p v).
Proof.
  induction p as [|k p IH]; intros v ce cs cs' HS We Ws H; [discriminate|].
  pose proof (Same_get ce cs k HS) as Hk.
  destruct p as [|k2 p2].
  - cbn [insert_kv] in *. destruct (sget cs k) eqn:Es; [discriminate|]. injection H as <-.
    apply shape_none_r in Hk. rewrite Hk. eexists. split; [reflexivity|]. split; [|split].
    + apply Same_spush; [exact HS|exact Hk|exact Es|reflexivity].
    + apply Wf_spush; [exact We|exact Hk|exact I].
    + apply Wf_spush; [exact Ws|exact Es|exact I].
  - rewrite insert_kv_cons2' in *.
    destruct (sget cs k) as [[y|[| |] c|es]|] eqn:Es; try discriminate.
    + destruct (sget ce k) as [[x|kd' c'|es']|] eqn:Ee; cbn [shape] in Hk; try contradiction. destruct Hk as [-> Hc].
      destruct (insert_kv true (k2 :: p2) v c) as [c1| |] eqn:E1; cbn [rbind] in H; try discriminate. injection H as <-.
      destruct (IH v c' c c1 Hc (Wf_get ce k _ We Ee) (Wf_get cs k _ Ws Es) E1) as [c1' [E1' [HS1 [W1e W1s]]]].
      rewrite E1'. cbn [rbind]. eexists. split; [reflexivity|]. split; [|split].
      * apply Same_sset; [exact HS|rewrite Ee; discriminate|rewrite Es; discriminate|]. cbn [shape]. split; [reflexivity|exact HS1].
      * apply Wf_sset; [exact We|exact W1e].
      * apply Wf_sset; [exact Ws|exact W1s].
    + apply shape_none_r in Hk. rewrite Hk.
      destruct (insert_kv true (k2 :: p2) v []) as [c1| |] eqn:E1; cbn [rbind] in H; try discriminate. injection H as <-.
      destruct (IH v [] [] c1 Same_nil Wf_nil Wf_nil E1) as [c1' [E1' [HS1 [W1e W1s]]]].
      assert (Hc1 : c1' = c1) by congruence. subst c1'. cbn [rbind]. eexists. split; [reflexivity|]. split; [|split].
      * apply Same_spush; [exact HS|exact Hk|exact Es|]. cbn [shape]. split; [reflexivity|exact HS1].
      * apply Wf_spush; [exact We|exact Hk|exact W1e].
      * apply Wf_spush; [exact Ws|exact Es|exact W1s].
Qed.

Lemma def_elem_rel : forall k, op_rel (def_elem k) (def_elem k).
Proof.
  intros k ce cs cs' HS We Ws H. unfold def_elem in *. pose proof (Same_get ce cs k HS) as Hk.
  destruct (sget cs k) as [[y|kd c|es]|] eqn:Es; try discriminate; injection H as <-.
  - destruct (sget ce k) as [[x|kd' c'|es']|] eqn:Ee; cbn [shape] in Hk; try contradiction.
    eexists. split; [reflexivity|].
    pose proof (Wf_get ce k _ We Ee) as Wse. pose proof (Wf_get cs k _ Ws Es) as Wss. unfold sub_wf in Wse, Wss. cbn [snd] in Wse, Wss.
    split; [|split].
    + apply Same_sset; [exact HS|rewrite Ee; discriminate|rewrite Es; discriminate|]. cbn [shape].
      apply Forall2_app; [exact Hk|constructor; [exact Same_nil|constructor]].
    + apply Wf_sset; [exact We|]. unfold sub_wf. cbn [snd]. apply Forall_app. split; [exact Wse|constructor; [exact Wf_nil|constructor]].
    + apply Wf_sset; [exact Ws|]. unfold sub_wf. cbn [snd]. apply Forall_app. split; [exact Wss|constructor; [exact Wf_nil|constructor]].
  - apply shape_none_r in Hk. rewrite Hk. eexists. split; [reflexivity|]. split; [|split].
    + apply Same_spush; [exact HS|exact Hk|exact Es|]. cbn [shape]. constructor; [exact Same_nil|constructor].
    + apply Wf_spush; [exact We|exact Hk|]. unfold sub_wf. cbn [snd]. constructor; [exact Wf_nil|constructor].
    + apply Wf_spush; [exact Ws|exact Es|]. unfold sub_wf. cbn [snd]. constructor; [exact Wf_nil|constructor].
Qed.

Lemma keys_sremove_sub : forall (t : tree) k x, In x (List.map fst (sremove t k)) -> In x (List.map fst t).
Proof.
  induction t as [|[k0 n0] t IH]; intros k x H; cbn [sremove] in H; [exact H|].
  destruct (bytes_eqb k0 k); cbn [List.map fst] in *; [right; exact H|].
  destruct H as [H|H]; [left; exact H|right; exact (IH k x H)].
Qed.

Lemma Wf_sremove : forall t k, Wf t -> Wf (sremove t k).
Proof.
  intros t k H. apply Wf_unfold in H as [Hnd Hs]. apply Wf_unfold. split.
  - induction t as [|[k0 n0] t IH]; cbn [sremove]; [constructor|].
    cbn [List.map fst] in Hnd. inversion Hnd as [|? ? Hnot Hnd']; subst. inversion Hs; subst.
    destruct (bytes_eqb k0 k); [exact Hnd'|]. cbn [List.map fst]. constructor; [|apply IH; assumption].
    intro Hin. apply Hnot. exact (keys_sremove_sub t k k0 Hin).
  - induction t as [|[k0 n0] t IH]; cbn [sremove]; [constructor|].
    inversion Hs; subst. cbn [List.map fst] in Hnd. inversion Hnd; subst.
    destruct (bytes_eqb k0 k); [assumption|]. constructor; [assumption|apply IH; assumption].
Qed.

(* the one difference: in place (eval) against move-to-end (Spec/Defs.v) *)
Definition def_table_here' (k : bytes) (t : tree) : res tree :=
  match sget t k with
  | None => ROk (spush t k (NTab KHeader []))
  | Some (NTab KSuper c) => ROk (sset t k (NTab KHeader c))
  | Some _ => RInvalid
  end.

Lemma def_table_rel : forall k, op_rel (def_table_here' k) (def_table k).
Proof.
  intros k ce cs cs' HS We Ws H. unfold def_table, def_table_here' in *. pose proof (Same_get ce cs k HS) as Hk.
  destruct (sget cs k) as [[y|[| |] c|es]|] eqn:Es; try discriminate; injection H as <-.
  - destruct (sget ce k) as [[x|kd' c'|es']|] eqn:Ee; cbn [shape] in Hk; try contradiction. destruct Hk as [-> Hc].
    eexists. split; [reflexivity|].
    assert (Hrm : sget (sremove cs k) k = None) by (apply sget_sremove_same; exact (proj1 (proj1 (Wf_unfold cs) Ws))).
    split; [|split].
    + apply Same_intro. intro k'. rewrite sget_sset, sget_spush, Ee.
      destruct (bytes_eqb k k') eqn:E.
      * apply bytes_eqb_eq in E. subst k'. rewrite Hrm. cbn [shape]. split; [reflexivity|exact Hc].
      * rewrite (sget_sremove_other cs k k' E). pose proof (Same_get ce cs k' HS) as Hk'.
        destruct (sget cs k'); exact Hk'.
    + apply Wf_sset; [exact We|]. exact (Wf_get ce k _ We Ee).
    + apply Wf_spush; [apply Wf_sremove; exact Ws|exact Hrm|]. exact (Wf_get cs k _ Ws Es).
  - apply shape_none_r in Hk. rewrite Hk. eexists. split; [reflexivity|]. split; [|split].
    + apply Same_spush; [exact HS|exact Hk|exact Es|]. cbn [shape]. split; [reflexivity|exact Same_nil].
    + apply Wf_spush; [exact We|exact Hk|exact Wf_nil].
    + apply Wf_spush; [exact Ws|exact Es|exact Wf_nil].
Qed.
End Eq.

(* ---- statements and documents (values are mval) ---- *)
Lemma step_rel : forall te ts cur st ts' cur', Same mval te ts -> Wf mval te -> Wf mval ts ->
  spec_step true (ts, cur) st = ROk (ts', cur') ->
  exists te', ref_step (te, cur) st = ROk (te', cur') /\ Same mval te' ts' /\ Wf mval te' /\ Wf mval ts'.
Proof.
  intros te ts cur [p|p|p v] ts' cur' HS We Ws H; cbn [spec_step ref_step] in *.
  - destruct (unsnoc p) as [[pre k]|]; [|discriminate].
    destruct (at_path pre (def_table k) ts) as [t1| |] eqn:E; cbn [rbind] in H; try discriminate. injection H as <- <-.
    change (def_table_here k) with (def_table_here' mval k).
    destruct (at_path_rel mval pre _ _ (def_table_rel mval k) te ts t1 HS We Ws E) as [te' [E' [HS' [We' Ws']]]].
    rewrite E'. cbn [rbind]. eauto.
  - destruct (unsnoc p) as [[pre k]|]; [|discriminate].
    destruct (at_path pre (def_elem k) ts) as [t1| |] eqn:E; cbn [rbind] in H; try discriminate. injection H as <- <-.
    destruct (at_path_rel mval pre _ _ (def_elem_rel mval k) te ts t1 HS We Ws E) as [te' [E' [HS' [We' Ws']]]].
    rewrite E'. cbn [rbind]. eauto.
  - destruct (at_path cur (insert_kv true p v) ts) as [t1| |] eqn:E; cbn [rbind] in H; try discriminate. injection H as <- <-.
    destruct (at_path_rel mval cur _ _ (insert_kv_rel mval p v) te ts t1 HS We Ws E) as [te' [E' [HS' [We' Ws']]]].
    rewrite E'. cbn [rbind]. eauto.
Qed.

Lemma fold_rel : forall l ms te ts cur ts' cur', stmts_meaning l = Some ms ->
  Same mval te ts -> Wf mval te -> Wf mval ts ->
  spec_fold true (ts, cur) ms = ROk (ts', cur') ->
  exists te', ref_fold (te, cur) l = Some (te', cur') /\ Same mval te' ts'.
Proof.
  induction l as [|st l IH]; intros ms te ts cur ts' cur' Hm HS We Ws H.
  - cbn [stmts_meaning] in Hm. injection Hm as <-. cbn [spec_fold] in H. injection H as <- <-.
    exists te. split; [reflexivity|exact HS].
  - cbn [stmts_meaning] in Hm. destruct (stmt_meaning st) as [m|] eqn:Em; [|discriminate].
    destruct (stmts_meaning l) as [ms'|] eqn:El; [|discriminate]. injection Hm as <-.
    cbn [spec_fold] in H. destruct (spec_step true (ts, cur) m) as [[ts1 cur1]| |] eqn:Es; cbn [rbind] in H; try discriminate.
    destruct (step_rel te ts cur m ts1 cur1 HS We Ws Es) as [te1 [Er [HS1 [We1 Ws1]]]].
    cbn [ref_fold]. rewrite Em, Er. exact (IH ms' te1 ts1 cur1 ts' cur' eq_refl HS1 We1 Ws1 H).
Qed.

(* every document the claims specification calls valid is valid for `eval`, and `eval`'s table has the same
   content under every key path as the specification's tree (only the order of keys may differ) *)
Theorem eval_same_as_spec : forall l tr, spec_eval l = Some tr ->
  exists t, eval l = Some (MTab (erase_tree t)) /\ Same mval t tr.
Proof.
  intros l tr H. unfold spec_eval in H. destruct (stmts_meaning l) as [ms|] eqn:Em; [|discriminate].
  unfold spec_run, run in H. destruct (spec_fold true sstate0 ms) as [[ts' cur']| |] eqn:Ef; try discriminate. injection H as <-.
  destruct (fold_rel l ms [] [] [] ts' cur' Em (Same_nil mval) (Wf_nil mval) (Wf_nil mval) Ef) as [te' [Er HS]].
  exists te'. unfold eval. change sstate0 with (([] : stree mval), ([] : list bytes)). rewrite Er. split; [reflexivity|exact HS].
Qed.

(* with the main theorem: the macro's table has the same content as the specification's tree *)
