(* Proofs/WFOrderDoc.v — sections in Display's order, part 3: the parse of a document whose key/value lines have
   undotted keys (`nodot`: no table made of dotted keys anywhere in the tree; dotted keys inside inline tables and in
   headers are fine).  Through every line, the positioned sections of the state, sorted by position, are the
   statements read so far — header after header in source order, each with its lines — and they run (Spec/Defs.v) to
   the state C09's simulation gives.  Hence `replay_stmts` of the parsed tree define its data, whatever the order of
   the sections. *)
From TV Require Import Base.Prelude Base.Utf8 Base.Winnow Gen.Consts Spec.Abnf Spec.Lex Spec.Defs Spec.DatetimeSpec Spec.Syntax Spec.WF.
From TV Require Import Model.Trivia Model.Strings Model.Datetime Model.Numbers Model.Tree Model.Parse Model.Document Model.Write Model.Encode.
From TV Require Import Proofs.DefsEquivBase Proofs.DefsEquivSpec Proofs.DefsEquivKv Proofs.DefsEquivSim Proofs.DefsEquivMain Proofs.GrammarBase Proofs.GrammarDocBase
                       Proofs.LexEquivBase Proofs.LexEquivKey Proofs.GrammarDocLine Proofs.GrammarDoc Proofs.PrintBackSort Proofs.PrintBackSecs Proofs.PrintBackDAll.
From TV Require Proofs.PrintBackDState.
From TV Require Import Proofs.WFSem Proofs.WFSemDoc Proofs.WFPrintKey Proofs.WFPrintFlat Proofs.WFTree Proofs.WFPrintDoc Proofs.WFParseBase Proofs.WFParseValue
                       Proofs.WFParseState Proofs.WFReplay Proofs.WFOrderBase Proofs.WFOrderState.
Require Import Lia NArith Sorting.Sorted Sorting.Permutation.

(* ---- no table made of dotted keys ---------------------------------------------------------------------------------------- *)
Fixpoint nodot (t : tbl) {struct t} : bool :=
  match t with
  | Tbl items _ _ _ _ _ =>
    forallb (fun kv => match snd kv with
                       | ITable sub => negb (t_dotted sub) && nodot sub
                       | IAot ts _ => forallb (fun e => negb (t_dotted e) && nodot e) ts
                       | _ => true
                       end) items
  end.
Definition nodoti (it : item) : bool :=
  match it with
  | ITable sub => negb (t_dotted sub) && nodot sub
  | IAot ts _ => forallb (fun e => negb (t_dotted e) && nodot e) ts
  | _ => true
  end.
Definition nds (m : list (key * item)) : bool := forallb (fun kv => nodoti (snd kv)) m.
Lemma nodot_eq t : nodot t = nds (t_items t).
Proof. destruct t; reflexivity. Qed.
Lemma nds_app a b : nds (a ++ b) = nds a && nds b.
Proof. apply forallb_app. Qed.
Lemma nodot_set_items t m : nodot (t_set_items t m) = nds m.
Proof. destruct t; reflexivity. Qed.
Lemma nodot_set_span t sp : nodot (t_set_span t sp) = nodot t.
Proof. destruct t; reflexivity. Qed.

Lemma nds_set_back m k k0 it it' : kv_get m k = Some (k0, it) -> nds (kv_set m k it') = true ->
  nodoti it' = true /\ ((nodoti it = true) -> nds m = true).
Proof.
  intros G H. destruct (kv_get_split m k k0 it G) as (A & B & -> & _ & Hs & _). rewrite Hs, nds_app in H. unfold nds at 2 in H. cbn [forallb snd] in H.
  apply andb_true_iff in H as [HA H']. apply andb_true_iff in H' as [Hi HB]. split; [exact Hi|]. intro Hit. rewrite nds_app. unfold nds at 2. cbn [forallb snd].
  rewrite HA, Hit. exact HB.
Qed.
Lemma nds_push_back m k it : nds (kv_push m k it) = true -> nds m = true /\ nodoti it = true.
Proof. unfold kv_push. rewrite nds_app. unfold nds at 2. cbn [forallb snd]. rewrite andb_true_r. apply andb_true_iff. Qed.
Lemma nds_remove_back m k k0 it : kv_get m k = Some (k0, it) -> nds (kv_remove m k) = true -> nodoti it = true -> nds m = true.
Proof.
  intros G H Hit. destruct (kv_get_split m k k0 it G) as (A & B & -> & _ & _ & Hr). rewrite Hr, nds_app in H. apply andb_true_iff in H as [HA HB].
  rewrite nds_app. unfold nds at 2. cbn [forallb snd]. rewrite HA, Hit. exact HB.
Qed.

Lemma dctx_dotted d p r r' par par' : dctx_rel d p r r' par par' -> t_dotted par' = t_dotted par -> t_dotted r' = t_dotted r.
Proof. induction 1; intro Hd0; [exact Hd0|apply t_dotted_set_items..]. Qed.

(* from the tree after descend_path back to the tree before *)
Lemma dctx_nodot_back d p r r' par par' : dctx_rel d p r r' par par' -> t_dotted par' = t_dotted par ->
  nodot r' = true -> nodot par' = true /\ (nodot par = true -> nodot r = true).
Proof.
  induction 1 as [t t'|t k p sub par par' G Hc IH|t k p k0 sub sub' par par' G Hc IH|t k p k0 ts sp last rinit last' par par' G Er Hc IH]; intros Hd H.
  - auto.
  - rewrite nodot_set_items in H. apply nds_push_back in H as [Hm Hs]. cbn [nodoti] in Hs. apply andb_true_iff in Hs as [_ Hs].
    destruct (IH Hd Hs) as [H1 _]. split; [exact H1|]. intros _. rewrite nodot_eq. exact Hm.
  - rewrite nodot_set_items in H. destruct (nds_set_back _ _ _ _ _ G H) as [Hs Hback]. cbn [nodoti] in Hs. apply andb_true_iff in Hs as [Hds Hs].
    destruct (IH Hd Hs) as [H1 H2]. split; [exact H1|]. intro Hp. rewrite nodot_eq. apply Hback. cbn [nodoti].
    rewrite <- (dctx_dotted _ _ _ _ _ _ Hc Hd), Hds, (H2 Hp). reflexivity.
  - rewrite nodot_set_items in H. destruct (nds_set_back _ _ _ _ _ G H) as [Hs Hback]. cbn [nodoti rev] in Hs. rewrite forallb_app in Hs.
    apply andb_true_iff in Hs as [Hinit Hl]. cbn [forallb] in Hl. rewrite andb_true_r in Hl. apply andb_true_iff in Hl as [Hdl Hl].
    destruct (IH Hd Hl) as [H1 H2]. split; [exact H1|]. intro Hp. rewrite nodot_eq. apply Hback. cbn [nodoti].
    assert (Ets : ts = rev rinit ++ [last]) by (rewrite <- (rev_involutive ts), Er; reflexivity).
    rewrite Ets, forallb_app, Hinit. cbn [forallb]. rewrite <- (dctx_dotted _ _ _ _ _ _ Hc Hd), Hdl, (H2 Hp). reflexivity.
Qed.

(* a dotted key leaves a dotted table behind *)
Lemma nds_false_in m k it : In (k, it) m -> nodoti it = false -> nds m = false.
Proof.
  intros Hin Hf. unfold nds. destruct (forallb (fun kv => nodoti (snd kv)) m) eqn:E; [|reflexivity]. rewrite forallb_forall in E. specialize (E _ Hin). cbn [snd] in E. congruence.
Qed.
Lemma in_kv_push m k it : In (k, it) (kv_push m k it).
Proof. unfold kv_push. apply in_or_app. right. left. reflexivity. Qed.
Lemma in_kv_set m k k0 it it' : kv_get m k = Some (k0, it) -> In (k0, it') (kv_set m k it').
Proof. intro G. destruct (kv_get_split m k k0 it G) as (A & B & _ & _ & Hs & _). rewrite Hs. apply in_or_app. right. left. reflexivity. Qed.

Lemma dctx_dotted_seen d p r r' par par' : dctx_rel d p r r' par par' -> p <> [] -> t_dotted par' = true -> nodot r' = false.
Proof.
  induction 1 as [t t'|t k p sub par par' G Hc IH|t k p k0 sub sub' par par' G Hc IH|t k p k0 ts sp last rinit last' par par' G Er Hc IH]; intros Hne Hd.
  - congruence.
  - rewrite nodot_set_items. apply (nds_false_in _ k (ITable sub) (in_kv_push _ _ _)). cbn [nodoti].
    destruct p as [|k1 p1]; [inversion Hc; subst; rewrite Hd; reflexivity|]. rewrite IH; [apply andb_false_r|discriminate|exact Hd].
  - rewrite nodot_set_items. apply (nds_false_in _ k0 (ITable sub') (in_kv_set _ _ _ _ _ G)). cbn [nodoti].
    destruct p as [|k1 p1]; [inversion Hc; subst; rewrite Hd; reflexivity|]. rewrite IH; [apply andb_false_r|discriminate|exact Hd].
  - rewrite nodot_set_items. apply (nds_false_in _ k0 _ (in_kv_set _ _ _ _ _ G)). cbn [nodoti rev]. rewrite forallb_app. cbn [forallb].
    destruct p as [|k1 p1]; [inversion Hc; subst; rewrite Hd; cbn [negb andb]; apply andb_false_r|]. rewrite IH; [rewrite andb_false_r; apply andb_false_r|discriminate|exact Hd].
Qed.

(* ---- small facts ------------------------------------------------------------------------------------------------------------ *)
Lemma value_written i v i' : value_ i = Ok v i' -> written v.
Proof.
  intro H. set (p := repeat x00 (N.to_nat (pos i))). assert (Hi : PrintBackEnc.isrc (p ++ rest i) i).
  { exists p. split; [reflexivity|]. unfold p. rewrite repeat_length. lia. }
  destruct (value_good (p ++ rest i) i v i' Hi H) as (_ & _ & _ & Hw). exact Hw.
Qed.

Lemma sorted_snoc_key (E0 : list ent) q x y : StronglySorted klt (E0 ++ [(q, x)]) -> StronglySorted klt (E0 ++ [(q, y)]).
Proof.
  induction E0 as [|e E0 IH]; cbn [app]; intro H; [repeat constructor|]. inversion H as [|? ? Hs Hf]; subst. constructor; [apply IH, Hs|].
  rewrite Forall_app in *. destruct Hf as [H1 H2]. split; [exact H1|]. inversion H2 as [|? ? Hk _]; subst. constructor; [exact Hk|constructor].
Qed.
Lemma sorted_snoc (E : list ent) c c' : StronglySorted klt (E ++ [c]) -> (fst c < fst c')%N -> StronglySorted klt ((E ++ [c]) ++ [c']).
Proof.
  induction E as [|e E IH]; cbn [app]; intros H Hlt.
  - repeat constructor. exact Hlt.
  - inversion H as [|? ? Hs Hf]; subst. constructor; [apply IH; assumption|]. rewrite Forall_app. split; [exact Hf|]. constructor; [|constructor].
    rewrite Forall_app in Hf. destruct Hf as [_ Hf]. inversion Hf; subst. unfold klt in *. lia.
Qed.
Lemma flat_snd_snoc (E : list ent) q L s : flat_map snd (E ++ [(q, L ++ [s])]) = flat_map snd (E ++ [(q, L)]) ++ [s].
Proof. rewrite !flat_map_app. cbn [flat_map snd]. rewrite !app_nil_r, app_assoc. reflexivity. Qed.
Lemma flat_snd_snoc1 (E : list ent) q s : flat_map snd (E ++ [(q, [s])]) = flat_map snd E ++ [s].
Proof. rewrite flat_map_app. cbn [flat_map snd]. reflexivity. Qed.

Lemma BbI_values m P : Forall (fun kv : key * item => is_tab (snd kv) = false) m -> BbI m P = [].
Proof. induction 1 as [|[k it] m H _ IH]; [reflexivity|]. cbn [BbI flat_map]. fold (BbI m P). rewrite IH. destruct it; try discriminate. reflexivity. Qed.

(* the lines of a table with one more value at the end *)
Lemma line_stmts_push t k v : written v ->
  line_stmts dval (sb_tbl (t_set_items t (kv_push (t_items t) k (IValue v))))
  = line_stmts dval (sb_tbl t) ++ [SKeyVal [k_key k] (absv v)].
Proof.
  intro Hw. unfold line_stmts. rewrite !sb_tbl_eq, t_items_set. unfold kv_push. rewrite map_app. unfold dpart. rewrite flat_map_app. cbn [map flat_map fst snd].
  unfold sn_item. rewrite dpart_node_sn_dn. cbn [app]. unfold dflat. rewrite flat_map_app, map_app. cbn [flat_map fst snd]. f_equal.
  assert (E : dn_item (IValue v) = DV (absv v)) by (destruct v as [x r d|vals tr c d sp|sub pre im dt d sp]; try reflexivity; destruct Hw as [_ ->]; reflexivity).
  rewrite E. reflexivity.
Qed.

Lemma own_b_push t k v P a : written v -> t_implicit t = false ->
  own_b (t_set_items t (kv_push (t_items t) k (IValue v))) P a = own_b t P a ++ [SKeyVal [k_key k] (absv v)].
Proof.
  intros Hw Hi. unfold own_b. rewrite (line_stmts_push t k v Hw), app_assoc. f_equal. f_equal.
  assert (E : t_implicit (t_set_items t (kv_push (t_items t) k (IValue v))) = false) by (destruct t; exact Hi). rewrite E, Hi. reflexivity.
Qed.

(* ---- the invariant -------------------------------------------------------------------------------------------------------- *)
Local Notation uk2' := (uk2 anyk).

Definition Brest (st : pstate) : list ent :=
  match st_path st with
  | [] => BbI (t_items (st_current st)) []
  | _ => Broot (st_root st) ++ BbI (t_items (st_current st)) (keys (st_path st))
  end.
Definition cur_ent (st : pstate) : ent :=
  match st_path st with
  | [] => (0%N, own_b (st_current st) [] false)
  | _ => (st_position st, own_b (st_current st) (keys (st_path st)) (st_is_array st))
  end.

Definition simple_stmt (x : stmt dval) : Prop := match x with SKeyVal p _ => exists k, p = [k] | _ => True end.

Record oinv (st : pstate) (S : sstate value) : Prop := mk_oinv {
  oi_inv : Inv st S;
  oi_E : exists E0, Permutation (Brest st) E0 /\ StronglySorted klt (E0 ++ [cur_ent st])
                    /\ spec_fold false (dstate sstate0) (flat_map snd (E0 ++ [cur_ent st])) = ROk (dstate S)
                    /\ Forall simple_stmt (flat_map snd (E0 ++ [cur_ent st]));
  oi_pos : fst (cur_ent st) = st_position st;
  oi_root : uk2' (st_root st) /\ hp (st_root st) /\ t_dotted (st_root st) = false /\ t_position (st_root st) = None;
  oi_cur : cur_ok (st_current st);
  oi_path : match st_path st with
            | [] => t_position (st_current st) = None /\ t_items (st_root st) = []
                    /\ Forall (fun kv : key * item => is_tab (snd kv) = false) (t_items (st_current st))
            | path => t_position (st_current st) = Some (st_position st)
                      /\ (st_is_array st = false ->
                          exists ppath k par, pop_key path = Some (ppath, k) /\ reach (st_root st) ppath = Some par /\ kv_get (t_items par) (k_key k) = None)
            end
}.

Lemma uk2_new : uk2' tbl_new.
Proof. apply uk2_eq. split; constructor. Qed.
Lemma hp_new : hp tbl_new.
Proof. apply hp_eq. exact I. Qed.

Lemma oinv_init : oinv state_new sstate0.
Proof.
  constructor.
  - apply Inv_init.
  - exists []. split; [reflexivity|]. split; [repeat constructor|]. split; [reflexivity|constructor].
  - reflexivity.
  - split; [apply uk2_new|]. split; [apply hp_new|]. split; reflexivity.
  - split; [reflexivity|]. split; [reflexivity|]. split; [apply hp_eq; exact I|apply uk2_eq; split; constructor].
  - cbn. split; [reflexivity|]. split; [reflexivity|constructor].
Qed.

Lemma oinv_on_ws st S sp : oinv st S -> oinv (on_ws st sp) S.
Proof. intros [H1 H2 H3 H4 H5 H6]. constructor; [apply Inv_on_ws, H1|exact H2|exact H3|exact H4|exact H5|exact H6]. Qed.

(* ---- a key/value line with an undotted key ---------------------------------------------------------------------------------- *)
Lemma on_keyval_sp_nil st k v st' : on_keyval_sp st [] k (IValue v) = COk st' ->
  exists cur0 k', t_items cur0 = t_items (st_current st) /\ t_implicit cur0 = t_implicit (st_current st) /\ t_dotted cur0 = t_dotted (st_current st)
                  /\ t_position cur0 = t_position (st_current st) /\ sb_tbl cur0 = sb_tbl (st_current st) /\ tflat [] cur0 = tflat [] (st_current st)
                  /\ k_key k' = k_key k /\ kv_get (t_items cur0) (k_key k') = None
                  /\ st' = mkState (st_root st) None (st_position st) (t_set_items cur0 (kv_push (t_items cur0) k' (IValue v))) (st_is_array st) (st_path st).
Proof.
  unfold on_keyval_sp, on_keyval. cbv zeta. cbn [set_dotted_spans].
  match goal with |- context [kv_push _ ?K (IValue v)] => set (k' := K) end.
  match goal with |- context [with_table_at ?c [] true ?F] => set (cur0 := c); set (f := F) end.
  intro H. cbn [with_table_at] in H. subst f. cbv beta in H. destruct (Bool.eqb (t_dotted cur0) true); [discriminate|].
  destruct (kv_get (t_items cur0) (k_key k')) eqn:G; [discriminate|]. injection H as <-. exists cur0, k'.
  assert (Hc : cur0 = st_current st \/ exists sp, cur0 = t_set_span (st_current st) sp).
  { subst cur0. destruct (t_span (st_current st)); [destruct (item_span (IValue v)); [right; eauto|left; reflexivity]|left; reflexivity]. }
  assert (F : t_items cur0 = t_items (st_current st) /\ t_implicit cur0 = t_implicit (st_current st) /\ t_dotted cur0 = t_dotted (st_current st)
              /\ t_position cur0 = t_position (st_current st) /\ sb_tbl cur0 = sb_tbl (st_current st) /\ tflat [] cur0 = tflat [] (st_current st)).
  { destruct Hc as [->|[sp ->]]; [repeat split|]. destruct (st_current st); repeat split. }
  destruct F as (F1 & F2 & F3 & F4 & F5 & F6). repeat (split; [assumption|]). split; [reflexivity|]. split; [exact G|reflexivity].
Qed.

Lemma own_b_same t t' P a : t_implicit t' = t_implicit t -> sb_tbl t' = sb_tbl t -> tflat [] t' = tflat [] t -> own_b t' P a = own_b t P a.
Proof. intros H1 H2 H3. unfold own_b, no_lines. rewrite H1, H2, H3. reflexivity. Qed.

Lemma keyval_step st S k v st' : on_keyval_sp st [] k (IValue v) = COk st' -> written v -> oinv st S -> exists S1, oinv st' S1.
Proof.
  intros H Hw [HI (E0 & HP & HS & HR & HSi) Hpos (Hur & Hhr & Hrd & Hrp) (Hcd & Hci & Hhc & Huc) Hpath].
  destruct (kv_step_sound st S [] k v st' HI H) as (S1 & Es & HI1). exists S1.
  destruct (on_keyval_sp_nil st k v st' H) as (cur0 & k' & F1 & F2 & F3 & F4 & F5 & F6 & Ek & G & ->).
  set (cur' := t_set_items cur0 (kv_push (t_items cur0) k' (IValue v))).
  assert (Hown : forall P a, own_b cur' P a = own_b (st_current st) P a ++ [SKeyVal [k_key k] (absv v)]).
  { intros P a. unfold cur'. rewrite (own_b_push cur0 k' v P a Hw (eq_trans F2 Hci)), Ek. f_equal. apply own_b_same; assumption. }
  assert (Hitems : t_items cur' = t_items (st_current st) ++ [(k', IValue v)]) by (unfold cur'; rewrite t_items_set, F1; reflexivity).
  assert (HB : forall P, BbI (t_items cur') P = BbI (t_items (st_current st)) P).
  { intro P. rewrite Hitems, BbI_app. unfold BbI at 2. cbn [flat_map Bit snd]. rewrite !app_nil_r. reflexivity. }
  assert (Hfl : t_implicit cur' = t_implicit (st_current st) /\ t_dotted cur' = t_dotted (st_current st) /\ t_position cur' = t_position (st_current st))
    by (unfold cur'; destruct cur0; cbn in *; auto).
  destruct Hfl as (G1 & G2 & G3).
  apply step_to_data in Es. cbn [stmt_map keys map app] in Es.
  constructor; cbn [st_root st_current st_path st_position st_is_array].
  - exact HI1.
  - exists E0. unfold Brest, cur_ent in *. cbn [st_root st_current st_path st_position st_is_array].
    destruct (st_path st) as [|k0 pth] eqn:Epath.
    + rewrite HB. split; [exact HP|]. rewrite Hown. split; [apply (sorted_snoc_key E0 _ _ _ HS)|].
      rewrite flat_snd_snoc, GrammarDocBase.spec_fold_app, HR. cbn [spec_fold]. rewrite Es. split; [reflexivity|].
      apply Forall_app. split; [exact HSi|]. constructor; [eexists; reflexivity|constructor].
    + rewrite HB. split; [exact HP|]. rewrite Hown. split; [apply (sorted_snoc_key E0 _ _ _ HS)|].
      rewrite flat_snd_snoc, GrammarDocBase.spec_fold_app, HR. cbn [spec_fold]. rewrite Es. split; [reflexivity|].
      apply Forall_app. split; [exact HSi|]. constructor; [eexists; reflexivity|constructor].
  - unfold cur_ent in *. cbn [st_root st_current st_path st_position st_is_array]. destruct (st_path st); exact Hpos.
  - auto.
  - split; [congruence|]. split; [congruence|]. split.
    + apply hp_eq. rewrite Hitems. apply all_P_app. split; [apply hp_eq, Hhc|split; exact I].
    + apply uk2_eq in Huc as [Hn Hs]. unfold cur'. apply uk2_set_items.
      * apply nodup_push; [rewrite F1; exact Hn|exact G].
      * apply uks2_push; [rewrite F1; exact Hs|discriminate|exact I].
  - destruct (st_path st) as [|k0 pth].
    + destruct Hpath as (H1 & H2 & H3). split; [congruence|]. split; [exact H2|]. rewrite Hitems. apply Forall_app. split; [exact H3|constructor; [reflexivity|constructor]].
    + destruct Hpath as [H1 H2]. split; [congruence|exact H2].
Qed.

(* ---- a header line ---------------------------------------------------------------------------------------------------------- *)
Lemma keys_nonempty (p : list key) : p <> [] -> keys p <> [].
Proof. destruct p; [congruence|discriminate]. Qed.

Lemma own_b_opened T0 dec pos sp P a : P <> [] -> tfl [] T0 = [] ->
  own_b (Tbl T0 dec false false pos sp) P a = [if a then SArrHeader P else SHeader P].
Proof.
  intros HP Hn. unfold own_b. cbn [t_implicit andb negb]. rewrite orb_true_r.
  assert (Hno : no_lines (Tbl T0 dec false false pos sp) = true) by (unfold no_lines; rewrite tflat_tfl; cbn [t_items]; rewrite Hn; reflexivity).
  rewrite (no_lines_stmts _ Hno), app_nil_r. destruct P; [congruence|reflexivity].
Qed.

Lemma open_oinv st2 root' T0 path dec sp arr S1 E c :
  Inv (open_table st2 root' (Tbl T0 decor_default false false None None) path dec sp arr) S1 ->
  path <> [] -> fst c = st_position st2 ->
  Permutation (Broot root' ++ BbI T0 (keys path)) (E ++ [c]) -> StronglySorted klt (E ++ [c]) ->
  spec_fold false (dstate sstate0) (flat_map snd (E ++ [c]) ++ [if arr then SArrHeader (keys path) else SHeader (keys path)]) = ROk (dstate S1) ->
  Forall simple_stmt (flat_map snd (E ++ [c])) ->
  uk2' root' -> hp root' -> t_dotted root' = false -> t_position root' = None ->
  uks2 anyk T0 -> NoDup (map kk T0) -> all_P hentry T0 -> tfl [] T0 = [] ->
  (arr = false -> exists ppath k par, pop_key path = Some (ppath, k) /\ reach root' ppath = Some par /\ kv_get (t_items par) (k_key k) = None) ->
  oinv (open_table st2 root' (Tbl T0 decor_default false false None None) path dec sp arr) S1.
Proof.
  intros HI Hne Hc HP HS HR HSi Hur Hhr Hrd Hrp Hs0 Hn0 Hh0 Hl0 Hreach.
  unfold open_table in *. cbn [t_items] in *.
  set (pos' := (st_position st2 + 1)%N) in *.
  assert (Hown : own_b (Tbl T0 dec false false (Some pos') (Some sp)) (keys path) arr = [if arr then SArrHeader (keys path) else SHeader (keys path)])
    by (apply own_b_opened; [apply keys_nonempty, Hne|exact Hl0]).
  constructor; cbn [st_root st_current st_path st_position st_is_array].
  - exact HI.
  - exists (E ++ [c]). unfold Brest, cur_ent. cbn [st_root st_current st_path st_position st_is_array t_items].
    destruct path as [|k0 pth]; [congruence|]. rewrite Hown. split; [exact HP|]. split; [apply sorted_snoc; [exact HS|cbn [fst]; lia]|].
    rewrite flat_snd_snoc1. split; [exact HR|]. apply Forall_app. split; [exact HSi|]. constructor; [destruct arr; exact I|constructor].
  - unfold cur_ent. cbn [st_path st_position]. destruct path; [congruence|reflexivity].
  - auto.
  - split; [reflexivity|]. split; [reflexivity|]. split; [apply hp_eq; exact Hh0|apply uk2_eq; split; assumption].
  - destruct path as [|k0 pth]; [congruence|]. split; [reflexivity|exact Hreach].
Qed.

Lemma header_step arr st S pre k tr sp st' : on_header arr st (pre ++ [k]) tr sp = COk st' -> oinv st S -> exists S1, oinv st' S1.
Proof.
  intros H [HI (E0 & HP & HS & HR & HSi) Hpos (Hur & Hhr & Hrd & Hrp) Hcur Hpath].
  destruct (hdr_step_sound arr st S pre k tr sp st' HI H) as (S1 & Es & HI1). exists S1.
  apply step_to_data in Es.
  assert (Est : stmt_map absv (hdr_stmt arr (keys pre ++ [k_key k])) = (if arr then SArrHeader (keys (pre ++ [k])) else SHeader (keys (pre ++ [k]))))
    by (unfold keys; rewrite map_app; destruct arr; reflexivity).
  rewrite Est in Es. clear Est.
  assert (Hne : pre ++ [k] <> []) by (destruct pre; discriminate).
  unfold on_header in H. destruct (pre ++ [k]) as [|k1 p1] eqn:Epk; [congruence|]. rewrite <- Epk in *.
  destruct (finalize_table st) as [st1| |] eqn:Ef; try discriminate.
  (* the tree with the open section put back *)
  assert (F : exists root1, st1 = finalized st root1 /\ uk2' root1 /\ hp root1 /\ t_dotted root1 = false /\ t_position root1 = None
                            /\ Permutation (Broot root1) (E0 ++ [cur_ent st])).
  { pose proof Hcur as (Hcd & Hci & Hhc & Huc). unfold Brest, cur_ent in *. destruct (st_path st) as [|k0 pth] eqn:Epath.
    - rewrite finalize_table_eq, Epath in Ef. cbn [pop_key rev] in Ef. destruct (tbl_is_empty (st_root st)); [|discriminate]. injection Ef as <-.
      destruct Hpath as (Hq & _ & _). exists (st_current st). split; [reflexivity|]. repeat (split; [assumption|]).
      unfold Broot. rewrite <- HP. apply Permutation_cons_append.
    - destruct Hpath as [Hq Hfree]. destruct (pop_key_total (k0 :: pth) ltac:(discriminate)) as (ppath & kl & Ep). rewrite <- Epath in *.
      destruct (finalize_B st st1 ppath kl Ep Ef Hur Hhr Hcur ltac:(rewrite Hq; discriminate)) as (E1 & Hlf & Hu1 & Hh1 & Hperm).
      { intro Ea. destruct (Hfree Ea) as (pp & kk0 & par & Ep' & Hr & Hg). rewrite Ep in Ep'. injection Ep' as <- <-. eauto. }
      exists (st_root st1). split; [exact E1|]. split; [exact Hu1|]. split; [exact Hh1|]. destruct Hlf as (_ & Hd1 & Hq1 & _).
      split; [congruence|]. split; [congruence|]. rewrite Hperm, Bb_eq. unfold own_e. rewrite Hcd, Hq. rewrite <- HP.
      rewrite <- app_assoc. apply Permutation_app_head. cbn [app]. apply Permutation_cons_append. }
  destruct F as (root1 & -> & Hu1 & Hh1 & Hd1 & Hq1 & Hfull). unfold take_trailing in H. cbv zeta in H. cbn [finalized st_root st_position st_current st_is_array st_path st_trailing] in H.
  set (st2 := mkState root1 None (st_position st) tbl_new (st_is_array st) []) in *.
  assert (Hrun : spec_fold false (dstate sstate0) (flat_map snd (E0 ++ [cur_ent st]) ++ [if arr then SArrHeader (keys (pre ++ [k])) else SHeader (keys (pre ++ [k]))]) = ROk (dstate S1)).
  { rewrite GrammarDocBase.spec_fold_app, HR. cbn [spec_fold]. rewrite Es. reflexivity. }
  destruct arr.
  - destruct (start_array_B st2 (pre ++ [k]) _ sp st' pre k H (DefsEquivSim.pop_key_app pre k) Hu1 Hh1) as (Est' & Hlf & Hu' & Hh' & Hperm).
    rewrite Est' in HI1 |- *. cbn [st_current st2] in *. change tbl_new with (Tbl [] decor_default false false None None) in *.
    destruct Hlf as (_ & Hd' & Hq' & _).
    apply (open_oinv st2 (st_root st') [] (pre ++ [k]) _ sp true S1 E0 (cur_ent st) HI1 Hne Hpos); try assumption.
    + cbn [BbI flat_map]. rewrite app_nil_r, Hperm. exact Hfull.
    + rewrite Hd'. exact Hd1.
    + rewrite Hq'. exact Hq1.
    + constructor.
    + constructor.
    + exact I.
    + reflexivity.
    + discriminate.
  - destruct (start_table_B st2 (pre ++ [k]) _ sp st' pre k H (DefsEquivSim.pop_key_app pre k) Hu1 Hh1 eq_refl)
      as (T0 & Est' & Hs0 & Hn0 & Hh0 & Hl0 & Hlf & Hu' & Hh' & Hperm & par & Hr & Hg).
    rewrite Est' in HI1 |- *. destruct Hlf as (_ & Hd' & Hq' & _).
    apply (open_oinv st2 (st_root st') T0 (pre ++ [k]) _ sp false S1 E0 (cur_ent st) HI1 Hne Hpos); try assumption.
    + rewrite Hperm. exact Hfull.
    + rewrite Hd'. exact Hd1.
    + rewrite Hq'. exact Hq1.
    + intros _. exists pre, k, par. split; [apply DefsEquivSim.pop_key_app|]. auto.
Qed.

(* ---- undotted keys only: from a state back to the one before ----------------------------------------------------------- *)
Definition nodot_st (st : pstate) : bool := nodot (st_root st) && nodot (st_current st).

Lemma nds_set_same m k k0 it it' : kv_get m k = Some (k0, it) -> nodoti it' = nodoti it -> nds (kv_set m k it') = nds m.
Proof.
  intros G E. destruct (kv_get_split m k k0 it G) as (A & B & -> & _ & Hs & _). rewrite Hs, !nds_app. unfold nds at 2 4. cbn [forallb snd]. rewrite E. reflexivity.
Qed.
Lemma nodot_set_dotted_spans : forall path t e, nodot (set_dotted_spans t path e) = nodot t.
Proof.
  induction path as [|k ptl IH]; intros t e; [reflexivity|]. cbn [set_dotted_spans].
  destruct (kv_get (t_items t) (k_key k)) as [[k0 [|v0|sub|ts asp]]|] eqn:G; try reflexivity.
  rewrite nodot_set_items, nodot_eq. apply (nds_set_same _ _ _ _ _ G). cbn [nodoti]. rewrite IH.
  destruct (set_dotted_spans_dotted ptl (if t_dotted sub then match key_span k, e with Some ks, Some e0 => t_set_span sub (widen (t_span sub) ks e0) | _, _ => sub end else sub) e) as [Ed _].
  rewrite Ed. destruct (t_dotted sub) eqn:Es; [|rewrite Es; reflexivity].
  destruct (key_span k); [|rewrite Es; reflexivity]. destruct e; [|rewrite Es; reflexivity]. destruct sub; cbn in *. rewrite Es. reflexivity.
Qed.

Lemma keyval_back st path k v st' : on_keyval_sp st path k (IValue v) = COk st' -> nodot_st st' = true ->
  path = [] /\ nodot_st st = true.
Proof.
  unfold on_keyval_sp. intros H Hn. destruct (on_keyval st path k (IValue v)) as [st0| |] eqn:E0; try discriminate. injection H as <-.
  unfold nodot_st in *. cbn [st_root st_current] in Hn. rewrite nodot_set_dotted_spans in Hn.
  unfold on_keyval in E0. cbv zeta in E0.
  match type of E0 with context [with_table_at ?c path true ?F] => set (cur0 := c) in *; set (f := F) in * end.
  destruct (with_table_at cur0 path true f) as [[cur' u]| |] eqn:E; try discriminate. injection E0 as <-. cbn [st_root st_current] in Hn.
  apply andb_true_iff in Hn as [Hr Hc].
  assert (Hcur0 : nodot cur0 = nodot (st_current st)).
  { subst cur0. destruct (t_span (st_current st)); [destruct (item_span (IValue v)); [apply nodot_set_span|reflexivity]|reflexivity]. }
  destruct path as [|k1 p1].
  - split; [reflexivity|]. cbn [with_table_at] in E. subst f. cbv beta in E. destruct (Bool.eqb (t_dotted cur0) true); [discriminate|].
    destruct (kv_get (t_items cur0) _); [discriminate|]. injection E as <- _. rewrite nodot_set_items in Hc. apply nds_push_back in Hc as [Hc _].
    rewrite Hr, <- Hcur0, nodot_eq, Hc. reflexivity.
  - exfalso. destruct (wta_dctx true _ _ _ _ _ E) as (par & par' & Hfp & Hctx). subst f. cbv beta in Hfp.
    destruct (Bool.eqb (t_dotted par) false) eqn:Eb; [discriminate|]. destruct (kv_get (t_items par) _); [discriminate|]. injection Hfp as <-.
    assert (Hd : t_dotted par = true) by (destruct (t_dotted par); [reflexivity|discriminate]).
    rewrite (dctx_dotted_seen true _ _ _ _ _ Hctx ltac:(discriminate)) in Hc; [discriminate|]. rewrite t_dotted_set_items. exact Hd.
Qed.

Lemma empty_nodot t : tbl_is_empty t = true -> nodot t = true.
Proof.
  unfold tbl_is_empty. rewrite nodot_eq. unfold nds. induction (t_items t) as [|[k it] l IH]; [reflexivity|]. cbn [forallb snd]. intro H.
  apply andb_true_iff in H as [H1 H2]. rewrite (IH H2). destruct it; try discriminate. reflexivity.
Qed.

Definition name_free (st : pstate) : Prop :=
  st_path st <> [] -> st_is_array st = false ->
  exists ppath k par, pop_key (st_path st) = Some (ppath, k) /\ reach (st_root st) ppath = Some par /\ kv_get (t_items par) (k_key k) = None.

Lemma finalize_back st st1 : finalize_table st = COk st1 -> name_free st -> nodot (st_root st1) = true -> nodot_st st = true.
Proof.
  intros Hf Hnf Hn. rewrite finalize_table_eq in Hf. unfold nodot_st. destruct (pop_key (st_path st)) as [[ppath k]|] eqn:Ep.
  - destruct (with_table_at (st_root st) ppath false ((if st_is_array st then faf else ftf) k (st_current st))) as [[root' u]| |] eqn:E; try discriminate.
    injection Hf as <-. cbn [finalized st_root] in Hn. destruct (wta_dctx false _ _ _ _ _ E) as (par & par' & Hfp & Hc).
    assert (Hpne : st_path st <> []) by (intro X; rewrite X in Ep; discriminate).
    assert (G : t_dotted par' = t_dotted par /\ (nodot par' = true -> nodot par = true /\ nodot (st_current st) = true)).
    { destruct (st_is_array st) eqn:Ea.
      - unfold faf in Hfp. destruct (kv_get (t_items par) (k_key k)) as [[k0 [|v0|t0|ts asp]]|] eqn:G; try discriminate; injection Hfp as <-.
        + split; [apply t_dotted_set_items|]. rewrite nodot_set_items. intro Hnd. destruct (nds_set_back _ _ _ _ _ G Hnd) as [Hi Hb]. cbn [nodoti] in Hi.
          rewrite forallb_app in Hi. apply andb_true_iff in Hi as [Hts Hcur]. cbn [forallb] in Hcur. rewrite andb_true_r in Hcur. apply andb_true_iff in Hcur as [_ Hcur].
          split; [rewrite nodot_eq; apply Hb; exact Hts|exact Hcur].
        + split; [apply t_dotted_set_items|]. rewrite nodot_set_items. intro Hnd. apply nds_push_back in Hnd as [Hm Hi]. cbn [nodoti forallb] in Hi.
          rewrite andb_true_r in Hi. apply andb_true_iff in Hi as [_ Hcur]. split; [rewrite nodot_eq; exact Hm|exact Hcur].
      - destruct (Hnf Hpne Ea) as (pp & kk0 & par0 & Ep' & Hr & Hg). rewrite Ep in Ep'. injection Ep' as <- <-.
        destruct (dctx_reach _ _ _ _ _ _ Hc) as [_ Hpar]. rewrite (Hpar par0 Hr) in Hg.
        unfold ftf in Hfp. rewrite Hg in Hfp. injection Hfp as <-. split; [apply t_dotted_set_items|]. rewrite nodot_set_items. intro Hnd. apply nds_push_back in Hnd as [Hm Hi]. cbn [nodoti] in Hi.
        apply andb_true_iff in Hi as [_ Hcur]. split; [rewrite nodot_eq; exact Hm|exact Hcur]. }
    destruct G as [Hd G]. destruct (dctx_nodot_back false _ _ _ _ _ Hc Hd Hn) as [Hp' Hback]. destruct (G Hp') as [Hp Hcur]. rewrite (Hback Hp), Hcur. reflexivity.
  - destruct (tbl_is_empty (st_root st)) eqn:Ee; [|discriminate]. injection Hf as <-. cbn [finalized st_root] in Hn. rewrite (empty_nodot _ Ee), Hn. reflexivity.
Qed.

Lemma start_table_back st2 path dec sp st' : start_table st2 path dec sp = COk st' -> nodot_st st' = true -> nodot (st_root st2) = true.
Proof.
  unfold start_table. intros H Hn. destruct (negb (tbl_is_empty (st_current st2))); [discriminate|]. destruct (st_path st2); [|discriminate].
  destruct (pop_key path) as [[ppath k]|]; [|discriminate].
  match type of H with match with_table_at _ _ _ ?f with _ => _ end = _ => set (F := f) in * end.
  destruct (with_table_at (st_root st2) ppath false F) as [[root' taken_]| |] eqn:E; try discriminate. injection H as <-.
  unfold nodot_st, open_table in Hn. cbn [st_root st_current] in Hn. apply andb_true_iff in Hn as [Hr Hc].
  destruct (wta_dctx false _ _ _ _ _ E) as (par & par' & Hfp & Hctx). unfold F in Hfp.
  destruct (kv_get (t_items par) (k_key k)) as [[k0 [|v0|t0|ts asp]]|] eqn:G; try discriminate.
  - destruct (t_implicit t0 && negb (t_dotted t0)) eqn:Et; [|discriminate]. injection Hfp as <- <-. apply andb_true_iff in Et as [_ Edt].
    destruct (dctx_nodot_back false _ _ _ _ _ Hctx (t_dotted_set_items _ _) Hr) as [Hp' Hback]. apply Hback.
    rewrite nodot_set_items in Hp'. rewrite nodot_eq. apply (nds_remove_back _ _ _ _ G Hp'). cbn [nodoti]. rewrite Edt. cbn [andb].
    rewrite nodot_eq. destruct t0; exact Hc.
  - injection Hfp as <- <-. destruct (dctx_nodot_back false _ _ _ _ _ Hctx eq_refl Hr) as [Hp' Hback]. apply Hback, Hp'.
Qed.

Lemma start_array_back st2 path dec sp st' : start_array_table st2 path dec sp = COk st' -> nodot_st st' = true -> nodot (st_root st2) = true.
Proof.
  unfold start_array_table. intros H Hn. destruct (negb (tbl_is_empty (st_current st2))); [discriminate|]. destruct (st_path st2); [|discriminate].
  destruct (pop_key path) as [[ppath k]|]; [|discriminate].
  match type of H with match with_table_at _ _ _ ?f with _ => _ end = _ => set (F := f) in * end.
  destruct (with_table_at (st_root st2) ppath false F) as [[root' u]| |] eqn:E; try discriminate. injection H as <-.
  unfold nodot_st, open_table in Hn. cbn [st_root st_current] in Hn. apply andb_true_iff in Hn as [Hr _].
  destruct (wta_dctx false _ _ _ _ _ E) as (par & par' & Hfp & Hctx). unfold F in Hfp.
  destruct (kv_get (t_items par) (k_key k)) as [[k0 [|v0|t0|ts asp]]|] eqn:G; try discriminate.
  - injection Hfp as <-. destruct (dctx_nodot_back false _ _ _ _ _ Hctx eq_refl Hr) as [Hp' Hback]. apply Hback, Hp'.
  - injection Hfp as <-. destruct (dctx_nodot_back false _ _ _ _ _ Hctx (t_dotted_set_items _ _) Hr) as [Hp' Hback]. apply Hback.
    rewrite nodot_set_items in Hp'. apply nds_push_back in Hp' as [Hm _]. rewrite nodot_eq. exact Hm.
Qed.

Lemma header_back arr st path tr sp st' : on_header arr st path tr sp = COk st' -> name_free st -> nodot_st st' = true -> nodot_st st = true.
Proof.
  unfold on_header. intros H Hnf Hn. destruct path as [|k1 p1] eqn:Epk; [discriminate|]. rewrite <- Epk in *.
  destruct (finalize_table st) as [st1| |] eqn:Ef; try discriminate. unfold take_trailing in H. cbv zeta in H.
  apply (finalize_back st st1 Ef Hnf). destruct arr; [apply (start_array_back _ _ _ _ _ H Hn)|apply (start_table_back _ _ _ _ _ H Hn)].
Qed.

(* ---- what holds through every run: unique keys, and the name of the open table is free in its parent ------------------- *)
Definition gi (st : pstate) : Prop := uk2' (st_root st) /\ uk2' (st_current st) /\ name_free st.

Lemma gi_init : gi state_new.
Proof. split; [apply uk2_new|]. split; [apply uk2_eq; split; constructor|]. intros H. contradiction. Qed.
Lemma gi_on_ws st sp : gi st -> gi (on_ws st sp).
Proof. exact (fun H => H). Qed.

Lemma gi_keyval st path k v st' : on_keyval_sp st path k (IValue v) = COk st' -> gi st -> gi st'.
Proof.
  intros H (Hur & Huc & Hnf). destruct (PrintBackDState.on_keyval_all anyk st path k v st' H Huc (all_anyk _)) as (E1 & E2 & _ & E4 & _ & _ & Hu' & _).
  split; [rewrite E1; exact Hur|]. split; [exact Hu'|]. unfold name_free. rewrite E1, E2, E4. exact Hnf.
Qed.

Lemma gi_header arr st pre k tr sp st' : on_header arr st (pre ++ [k]) tr sp = COk st' -> gi st -> gi st'.
Proof.
  intros H (Hur & Huc & Hnf). unfold on_header in H. destruct (pre ++ [k]) as [|k1 p1] eqn:Epk; [destruct pre; discriminate|]. rewrite <- Epk in *.
  destruct (finalize_table st) as [st1| |] eqn:Ef; try discriminate.
  assert (F : exists root1, st1 = finalized st root1 /\ uk2' root1).
  { destruct (pop_key (st_path st)) as [[ppath kl]|] eqn:Ep.
    - assert (Hpne : st_path st <> []) by (intro X; rewrite X in Ep; discriminate).
      destruct (PrintBackDState.finalize_all anyk st st1 ppath kl Ep Ef Hur Huc I (all_anyk _)) as (E1 & _ & Hu1 & _).
      { intro Ea. destruct (Hnf Hpne Ea) as (pp & kk0 & par & Ep' & Hr & Hg). rewrite Ep in Ep'. injection Ep' as <- <-. eauto. }
      exists (st_root st1). auto.
    - rewrite finalize_table_eq, Ep in Ef. destruct (tbl_is_empty (st_root st)); [|discriminate]. injection Ef as <-. exists (st_current st). auto. }
  destruct F as (root1 & -> & Hu1). unfold take_trailing in H. cbv zeta in H. cbn [finalized st_root st_position st_current st_is_array st_path st_trailing] in H.
  set (st2 := mkState root1 None (st_position st) tbl_new (st_is_array st) []) in *.
  destruct arr.
  - destruct (PrintBackDState.start_array_all anyk st2 (pre ++ [k]) _ sp st' pre k H (DefsEquivSim.pop_key_app pre k) Hu1 (all_anyk _) I) as (-> & _ & Hu' & _).
    unfold open_table. split; [exact Hu'|]. split; [apply uk2_eq; split; constructor|]. intros _ Ha. discriminate.
  - destruct (PrintBackDState.start_table_all anyk st2 (pre ++ [k]) _ sp st' pre k H (DefsEquivSim.pop_key_app pre k) Hu1 (all_anyk _) eq_refl)
      as (T0 & -> & Hs0 & Hn0 & _ & Hu' & _ & par & Hr & Hg).
    unfold open_table. split; [exact Hu'|]. split; [apply uk2_eq; split; assumption|]. intros _ _. cbn [st_path st_root].
    exists pre, k, par. split; [apply DefsEquivSim.pop_key_app|]. auto.
Qed.

(* ---- one line, the loop, the document ----------------------------------------------------------------------------------- *)
Definition step_ok (st st1 : pstate) : Prop :=
  gi st -> gi st1 /\ (nodot_st st1 = true -> nodot_st st = true /\ forall S, oinv st S -> exists S1, oinv st1 S1).

Lemma step_ok_ws st sp : step_ok st (on_ws st sp).
Proof. intro Hg. split; [exact Hg|]. intro Hn. split; [exact Hn|]. intros S H. exists S. apply oinv_on_ws, H. Qed.
Lemma step_ok_trans a b c : step_ok a b -> step_ok b c -> step_ok a c.
Proof.
  intros H1 H2 Hg. destruct (H1 Hg) as [Hgb Hb]. destruct (H2 Hgb) as [Hgc Hc]. split; [exact Hgc|]. intro Hn. destruct (Hc Hn) as [Hnb Hbc].
  destruct (Hb Hnb) as [Hna Hab]. split; [exact Hna|]. intros S HS. destruct (Hab S HS) as (S1 & H1'). exact (Hbc S1 H1').
Qed.

Lemma keyval_ok st i st1 i1 : keyval st i = Ok st1 i1 -> step_ok st st1.
Proof.
  unfold keyval. intro H. apply try_map_inv in H as ([path [k it]] & H & Hst).
  rewrite GrammarDocLine.parse_keyval_unfold in H. apply bind_inv in H as (kp & j1 & _ & H).
  apply bind_inv in H as ([[pre v] suf] & j2 & H2 & H).
  apply cut_err_inv in H2. apply bind_inv in H2 as (y & k1 & _ & H2). apply bind_inv in H2 as (pre' & k2 & _ & H2).
  apply bind_inv in H2 as (v' & k3 & E3 & H2). pose proof (value_written _ _ _ E3) as Hw.
  apply bind_inv in H2 as (suf' & k4 & _ & H2). apply ret_inv in H2 as [E _]. injection E as -> -> ->.
  destruct (pop_key kp) as [[pth kk0]|]; [|discriminate]. apply ret_inv in H as [E _]. injection E as <- <- ->.
  destruct (on_keyval_sp st path k _) as [st'| |] eqn:Eo; try discriminate. cbn [lift_state] in Hst. injection Hst as <-.
  intro Hg. split; [apply (gi_keyval _ _ _ _ _ Eo Hg)|]. intro Hn. destruct (keyval_back _ _ _ _ _ Eo Hn) as [-> Hn0]. split; [exact Hn0|].
  intros S HS. apply (keyval_step st S k _ st' Eo); [apply written_decorate, Hw|exact HS].
Qed.

Lemma header_ok arr st i st1 i1 : header arr st i = Ok st1 i1 -> step_ok st st1.
Proof.
  rewrite GrammarDocLine.header_unfold. intro H. apply try_map_inv in H as ([[kp sp] tr] & H & Hst).
  apply GrammarDocLine.header_text_sound in H as (t0 & p0 & w0 & c0 & le0 & _ & _ & _ & _ & _ & _ & _ & Hne).
  destruct (pop_key_total kp Hne) as (pre & k & Ep). pose proof (DefsEquivSim.pop_key_some _ _ _ Ep) as Ekp. subst kp.
  destruct (on_header arr st (pre ++ [k]) tr sp) as [st'| |] eqn:Eh; try discriminate. cbn [lift_state] in Hst. injection Hst as <-.
  intro Hg. split; [apply (gi_header _ _ _ _ _ _ _ Eh Hg)|]. intro Hn. destruct Hg as (_ & _ & Hnf).
  split; [apply (header_back _ _ _ _ _ _ Eh Hnf Hn)|]. intros S HS. apply (header_step arr st S pre k tr sp st' Eh HS).
Qed.

Lemma line_p_ok st b i st1 i1 : GrammarDoc.line_p st b i = Ok st1 i1 -> step_ok st st1.
Proof.
  unfold GrammarDoc.line_p. intro H.
  destruct (byte_eqb b COMMENT_START_SYMBOL).
  { apply cut_err_inv in H. unfold parse_comment in H. apply pmap_inv in H as (sp & _ & ->). apply step_ok_ws. }
  destruct (byte_eqb b STD_TABLE_OPEN).
  { apply cut_err_inv, GrammarDocLine.table_inv in H as (arr & H). apply (header_ok _ _ _ _ _ H). }
  destruct (byte_eqb b LF || byte_eqb b CR).
  { unfold parse_newline in H. apply pmap_inv in H as (sp & _ & ->). apply step_ok_ws. }
  apply cut_err_inv in H. apply (keyval_ok _ _ _ _ H).
Qed.

Lemma doc_line_ok st i st1 i1 : doc_line st i = Ok st1 i1 -> step_ok st st1.
Proof.
  rewrite GrammarDoc.doc_line_unfold. intro H. apply bind_inv in H as (b & j & _ & H). apply bind_inv in H as (st0 & j1 & H2 & H3).
  unfold parse_ws in H3. apply pmap_inv in H3 as (sp & _ & ->). eapply step_ok_trans; [apply (line_p_ok _ _ _ _ _ H2)|apply step_ok_ws].
Qed.

Lemma doc_loop_ok : forall fuel st i st' i', doc_loop fuel st i = Ok st' i' -> step_ok st st'.
Proof.
  induction fuel as [|f IH]; intros st i st' i' H; [discriminate|]. cbn [doc_loop] in H.
  destruct (doc_line st i) as [st1 i1|e j|e j|x] eqn:E; try discriminate.
  - destruct (Nat.eqb (length (rest i1)) (length (rest i))); [discriminate|]. eapply step_ok_trans; [apply (doc_line_ok _ _ _ _ E)|apply (IH _ _ _ _ H)].
  - injection H as <- <-. intro Hg. split; [exact Hg|]. intro Hn. split; [exact Hn|]. intros S HS. eauto.
Qed.

(* a run of undotted statements is decided *)
Lemma simple_strict : forall (l : list (stmt dval)) S, Forall simple_stmt l -> spec_fold true S l = spec_fold false S l.
Proof.
  induction l as [|x l IH]; intros S H; [reflexivity|]. inversion H as [|? ? Hx Hl]; subst. cbn [spec_fold].
  assert (E : spec_step true S x = spec_step false S x).
  { destruct S as [t cur]. destruct x as [p|p|p v]; try reflexivity. destruct Hx as [k ->]. reflexivity. }
  rewrite E. destruct (spec_step false S x); cbn [rbind]; [apply IH, Hl|reflexivity|reflexivity].
Qed.

(* ---- THE theorem: the sections in Display's order define the document's data -------------------------------------------- *)
Theorem nodot_replay s d : parse_document s = POk d -> nodot (doc_root d) = true ->
  spec_run (replay_stmts (doc_root d)) = Valid (abs_doc d).
Proof.
  unfold parse_document, parse_all. intros H Hn.
  destruct ((a <- document ;; eof ;;; ret a) (new_input s)) as [st i|e j|e j|x] eqn:E; try discriminate.
  destruct (finalize_table st) as [st'| |] eqn:Ef; try discriminate. injection H as <-. cbn [doc_root] in *.
  apply bind_inv in E as (st0 & i0 & E & E'). apply bind_inv in E' as (u0 & i0' & _ & E'). apply ret_inv in E' as [-> _].
  rewrite GrammarDoc.document_unfold in E.
  apply bind_inv in E as (o & i1 & _ & E). apply bind_inv in E as (stw & i2 & Ew & E).
  apply bind_inv in E as (stl & i3 & El & E). apply bind_inv in E as (u & i4 & _ & E). apply ret_inv in E as [-> _].
  unfold parse_ws in Ew. apply pmap_inv in Ew as (sp & _ & ->).
  destruct (doc_loop_ok _ _ _ _ _ El (gi_on_ws _ sp gi_init)) as [(Hur & Huc & Hnf) Hback].
  pose proof (finalize_back stl st' Ef Hnf Hn) as Hnl. destruct (Hback Hnl) as [_ Hfw].
  destruct (Hfw sstate0 (oinv_on_ws _ _ sp oinv_init)) as ([T cp] & [HI (E0 & HP & HS & HR & HSi) Hpos (Hur' & Hhr & Hrd & Hrp) Hcur Hpath]).
  (* the tree with the last section put back *)
  assert (F : t_dotted (st_root st') = false /\ t_position (st_root st') = None /\ hp (st_root st') /\ Permutation (Broot (st_root st')) (E0 ++ [cur_ent stl])).
  { pose proof Hcur as (Hcd & Hci & Hhc & Huc'). unfold Brest, cur_ent in *. destruct (st_path stl) as [|k0 pth] eqn:Epath.
    - rewrite finalize_table_eq, Epath in Ef. cbn [pop_key rev] in Ef. destruct (tbl_is_empty (st_root stl)); [|discriminate]. injection Ef as <-.
      destruct Hpath as (Hq & _ & _). cbn [finalized st_root]. repeat (split; [assumption|]). unfold Broot. rewrite <- HP. apply Permutation_cons_append.
    - destruct Hpath as [Hq Hfree]. destruct (pop_key_total (k0 :: pth) ltac:(discriminate)) as (ppath & kl & Ep). rewrite <- Epath in *.
      destruct (finalize_B stl st' ppath kl Ep Ef Hur' Hhr Hcur ltac:(rewrite Hq; discriminate)) as (E1 & Hlf & Hu1 & Hh1 & Hperm).
      { intro Ea. destruct (Hfree Ea) as (pp & kk0 & par & Ep' & Hr & Hg). rewrite Ep in Ep'. injection Ep' as <- <-. eauto. }
      destruct Hlf as (_ & Hd1 & Hq1 & _). split; [congruence|]. split; [congruence|]. split; [exact Hh1|]. rewrite Hperm, Bb_eq. unfold own_e. rewrite Hcd, Hq. rewrite <- HP.
      rewrite <- app_assoc. apply Permutation_app_head. cbn [app]. apply Permutation_cons_append. }
  destruct F as (Hd' & Hq' & Hh' & Hperm).
  rewrite (replay_sorted _ Hd' Hq' Hh'), (stable_sort_unique _ _ HS Hperm).
  destruct (finalize_sim stl T cp HI) as (root' & Ef' & Ha & _). rewrite Ef' in Ef. injection Ef as <-. cbn [finalized st_root] in *.
  unfold spec_run, run. change (@sstate0 dval) with (dstate sstate0). rewrite (simple_strict _ _ HSi), HR. unfold abs_doc. cbn [doc_root]. rewrite Ha. reflexivity.
Qed.
