(* Proofs/SpansNestLex.v — C14, nesting: the reprs of the keys of a dotted key are consecutive windows,
   in source order (`kchain`), all inside the text `key` consumed. *)
From TV Require Import Base.Prelude Base.Utf8 Base.Winnow Gen.Consts Spec.Abnf.
From TV Require Import Model.Trivia Model.Strings Model.Datetime Model.Numbers Model.Tree Model.Parse Model.Document.
From TV Require Import Proofs.ConstsOk Proofs.NoPanicBase Proofs.NoPanicLex Proofs.NoPanicState.
From TV Require Import Proofs.SpansDefs Proofs.SpansBase Proofs.SpansLex.
Require Import Lia ZifyBool ZifyN ZifyNat.

Fixpoint chain (lo hi : N) (l : list ospan) : Prop :=
  match l with
  | [] => (lo <= hi)%N
  | o :: tl => exists a b, o = Some (a, b) /\ (lo <= a)%N /\ (a <= b)%N /\ chain b hi tl
  end.
Definition kchain (lo hi : N) (l : list key) : Prop := chain lo hi (map key_span l).

Lemma chain_le : forall l lo hi, chain lo hi l -> (lo <= hi)%N.
Proof.
  induction l as [|o tl IH]; intros lo hi H; cbn [chain] in H; [exact H|].
  destruct H as (a & b & _ & H1 & H2 & H3). apply IH in H3. lia.
Qed.
Lemma chain_mono : forall l lo hi lo' hi', chain lo hi l -> (lo' <= lo)%N -> (hi <= hi')%N -> chain lo' hi' l.
Proof.
  induction l as [|o tl IH]; intros lo hi lo' hi' H L U; cbn [chain] in *; [lia|].
  destruct H as (a & b & E & H1 & H2 & H3). exists a, b. repeat split; auto; [lia|]. eapply IH; [exact H3|lia|exact U].
Qed.
Lemma chain_snoc : forall l lo mid hi a b,
  chain lo mid l -> (mid <= a)%N -> (a <= b)%N -> (b <= hi)%N -> chain lo hi (l ++ [Some (a, b)]).
Proof.
  induction l as [|o tl IH]; intros lo mid hi a b H H1 H2 H3; cbn [chain app] in *.
  - exists a, b. repeat split; auto. lia.
  - destruct H as (x & y & E & G1 & G2 & G3). exists x, y. repeat split; auto. eapply IH; eauto.
Qed.
Lemma chain_app_inv : forall l1 l2 lo hi, chain lo hi (l1 ++ l2) -> exists mid, chain lo mid l1 /\ chain mid hi l2.
Proof.
  induction l1 as [|o tl IH]; intros l2 lo hi H; cbn [chain app] in *.
  - exists lo. split; [lia|exact H].
  - destruct H as (x & y & E & G1 & G2 & G3). destruct (IH _ _ _ G3) as (mid & M1 & M2).
    exists mid. split; [|exact M2]. exists x, y. auto.
Qed.

(* ---- the separated(1.., key_part, '.') loop ------------------------------------------------------------ *)
Lemma key_part_span i k i' :
  key_part i = Ok k i' -> exists a b, key_span k = Some (a, b) /\ (pos i <= a)%N /\ (a < b)%N /\ (b <= pos i')%N.
Proof.
  intro E. apply key_part_exact in E as (a & b & H1 & H2 & H3 & R & _). exists a, b. unfold key_span. rewrite R. auto.
Qed.

Lemma key_loop_chain : forall fuel acc i l i',
  separated_loop fuel key_part (byte_ DOT_SEP) acc i = Ok l i' ->
  forall lo, chain lo (pos i) (map key_span (rev acc)) -> chain lo (pos i') (map key_span l).
Proof.
  induction fuel as [|f IH]; intros acc i l i' H lo Hc; cbn [separated_loop] in H; [discriminate|].
  destruct (byte_ DOT_SEP i) as [x i1|? ?|? ?|?] eqn:E; try discriminate.
  - destruct (Nat.eqb _ _); [discriminate|].
    destruct (key_part i1) as [a i2|? ?|? ?|?] eqn:E2; try discriminate.
    + eapply IH; [exact H|]. cbn [rev]. rewrite map_app. cbn [map].
      destruct (key_part_span _ _ _ E2) as (x1 & y1 & S & G1 & G2 & G3). rewrite S.
      assert (M : (pos i <= pos i1)%N) by (eapply mono_le; [|exact E]; np).
      eapply chain_snoc; [exact Hc|lia|lia|lia].
    + inversion H; subst. exact Hc.
  - inversion H; subst. exact Hc.
Qed.

Lemma key_raw_chain i l i' : key_raw i = Ok l i' -> kchain (pos i) (pos i') l.
Proof.
  unfold key_raw. intro E. apply try_map_ok in E as (l0 & E & G). destruct (check_depth _); inversion G; subst l0.
  apply context_ok in E. unfold separated1 in E. destruct (key_part i) as [a i1|? ?|? ?|?] eqn:E1; try discriminate.
  eapply key_loop_chain; [exact E|]. cbn [rev app map chain].
  destruct (key_part_span _ _ _ E1) as (x1 & y1 & S & G1 & G2 & G3). rewrite S. exists x1, y1. repeat split; auto; lia.
Qed.

(* the decor shuffle at the end of `key` does not touch the reprs *)
Lemma key_span_set_leaf k d : key_span (set_leaf k d) = key_span k. Proof. reflexivity. Qed.
Lemma key_span_set_dotted_prefix k r : key_span (set_dotted_prefix k r) = key_span k. Proof. reflexivity. Qed.
Lemma key_span_set_dotted_suffix k r : key_span (set_dotted_suffix k r) = key_span k. Proof. reflexivity. Qed.

Lemma fix_key_path_spans path p : fix_key_path path = Some p -> map key_span p = map key_span path.
Proof.
  unfold fix_key_path. destruct path as [|first tl]; [discriminate|].
  set (first' := match d_prefix (k_dotted first) with Some _ => set_dotted_prefix first REmpty | None => first end).
  assert (Hf : key_span first' = key_span first) by (subst first'; destruct (d_prefix (k_dotted first)); reflexivity).
  destruct (rev (first' :: tl)) as [|last rinit] eqn:R; [discriminate|]. intro E. inversion E; subst p. clear E.
  set (last' := match d_suffix (k_dotted last) with Some _ => set_dotted_suffix last REmpty | None => last end).
  assert (Hl : key_span (set_leaf last' (decor_new match d_prefix (k_dotted first) with Some p0 => p0 | None => REmpty end
                                                   match d_suffix (k_dotted last) with Some p0 => p0 | None => REmpty end))
               = key_span last).
  { rewrite key_span_set_leaf. subst last'. destruct (d_suffix (k_dotted last)); reflexivity. }
  cbn [rev]. rewrite map_app. cbn [map]. rewrite Hl.
  change (map key_span (rev rinit) ++ [key_span last]) with (map key_span (rev rinit) ++ map key_span [last]).
  rewrite <- map_app. change (rev rinit ++ [last]) with (rev (last :: rinit)). rewrite <- R, rev_involutive.
  cbn [map]. rewrite Hf. reflexivity.
Qed.

Lemma key_chain i l i' : key_ i = Ok l i' -> kchain (pos i) (pos i') l.
Proof.
  rewrite key_eq. intro E. apply bind_ok in E as (path & j & E1 & E).
  destruct (fix_key_path path) as [p|] eqn:F; [|discriminate]. apply ret_ok in E as [-> ->].
  unfold kchain. rewrite (fix_key_path_spans _ _ F). apply key_raw_chain, E1.
Qed.

Lemma pop_key_app kp path k : pop_key kp = Some (path, k) -> kp = path ++ [k].
Proof.
  unfold pop_key. destruct (rev kp) as [|last rinit] eqn:R; [discriminate|]. intro E. inversion E; subst.
  apply (f_equal (@rev key)) in R. rewrite rev_involutive in R. exact R.
Qed.
