(* Proofs/GrammarValueBase.v — C01/C02 layer L2, values: what relates a parsed toml_edit value
   to an abstract value of Spec/Syntax.v (`vrel`), well-formedness of parsed values (`vwf`:
   arrays and inline tables hold values only, hereditarily), depth of a value = depth of its
   datum, the bridge from C09's abstraction of inline tables (Proofs/DefsEquivInline.v) to
   data, and first-byte / follow-set facts of the value grammar. *)
From TV Require Import Base.Prelude Base.Utf8 Base.Winnow Gen.Consts Spec.Abnf Spec.Lex Spec.Defs Spec.Syntax.
From TV Require Import Model.Trivia Model.Strings Model.Datetime Model.Numbers Model.Tree Model.Parse.
From TV Require Import Proofs.LexEquivBase Proofs.LexEquivTrivia Proofs.DefsEquivBase Proofs.DefsEquivInline
                       Proofs.DepthBase Proofs.DepthValue Proofs.GrammarBase Proofs.GrammarParam Proofs.LexEquivKey
                       Proofs.LexEquivDatetime.
Require Import Lia ZifyBool ZifyN ZifyNat.

(* ================================================================================================ *)
(* well-formed values                                                                               *)
(* ================================================================================================ *)
Fixpoint vwf (v : value) : bool :=
  match v with
  | VScalar _ _ _ => true
  | VArray vals _ _ _ _ =>
    (fix go (l : list item) : bool := match l with [] => true | it :: tl => iwf it && go tl end) vals
  | VInline items _ _ _ _ _ =>
    (fix go (l : list (key * item)) : bool := match l with [] => true | (_, it) :: tl => iwf it && go tl end) items
  end
with iwf (it : item) : bool := match it with IValue v => vwf v | _ => false end.

Definition items_wf (m : kvs) : bool := forallb (fun kv => iwf (snd kv)) m.

Lemma vwf_array vals tr c d sp : vwf (VArray vals tr c d sp) = forallb iwf vals.
Proof.
  cbn [vwf]. induction vals as [|it tl IH]; [reflexivity|]. cbn [forallb]. rewrite <- IH. reflexivity.
Qed.
Lemma vwf_inline items pre im dt d sp : vwf (VInline items pre im dt d sp) = items_wf items.
Proof.
  cbn [vwf]. unfold items_wf. induction items as [|[k it] tl IH]; [reflexivity|]. cbn [forallb snd]. rewrite <- IH. reflexivity.
Qed.
Lemma vwf_decorate v p s : vwf (value_decorate v p s) = vwf v.
Proof. destruct v; reflexivity. Qed.
Lemma vwf_apply_raw v sp : vwf (apply_raw v sp) = vwf v.
Proof. unfold apply_raw. rewrite vwf_decorate. destruct v; reflexivity. Qed.

(* induction over the values reachable through IValue items *)
Section ValueInd.
  Variable P : value -> Prop.
  Definition Pit (it : item) : Prop := match it with IValue w => P w | _ => True end.
  Hypothesis Hs : forall s r d, P (VScalar s r d).
  Hypothesis Ha : forall vals tr c d sp, Forall Pit vals -> P (VArray vals tr c d sp).
  Hypothesis Hi : forall items pre im dt d sp,
    Forall (fun kv : key * item => Pit (snd kv)) items -> P (VInline items pre im dt d sp).

  Fixpoint value_ind' (v : value) : P v :=
    match v with
    | VScalar s r d => Hs s r d
    | VArray vals tr c d sp =>
      Ha vals tr c d sp
        ((fix go (l : list item) : Forall Pit l :=
            match l with
            | [] => Forall_nil _
            | it :: tl =>
              Forall_cons it
                (match it as it0 return Pit it0 with
                 | IValue v0 => value_ind' v0
                 | _ => I
                 end) (go tl)
            end) vals)
    | VInline items pre im dt d sp =>
      Hi items pre im dt d sp
        ((fix go (l : list (key * item)) : Forall (fun kv : key * item => Pit (snd kv)) l :=
            match l with
            | [] => Forall_nil _
            | (k, it) :: tl =>
              Forall_cons (k, it)
                (match it as it0 return Pit it0 with
                 | IValue v0 => value_ind' v0
                 | _ => I
                 end) (go tl)
            end) items)
    end.
End ValueInd.

Lemma Pit_wf (P : value -> Prop) it : iwf it = true -> Pit P it -> exists v, it = IValue v /\ vwf v = true /\ P v.
Proof. destruct it as [|v| |]; try discriminate. intros H1 H2. exists v. auto. Qed.

(* ---- depth of a value = depth of its datum --------------------------------------------------- *)
Lemma lmaxn_map {A B} (f : B -> nat) (g : A -> B) l : lmaxn f (map g l) = lmaxn (fun x => f (g x)) l.
Proof. induction l as [|x l IH]; [reflexivity|]. cbn [map lmaxn fold_right]. fold (lmaxn f (map g l)). rewrite IH. reflexivity. Qed.

Lemma lmaxn_ext_in {A} (f g : A -> nat) l : (forall x, In x l -> f x = g x) -> lmaxn f l = lmaxn g l.
Proof.
  induction l as [|x l IH]; intro H; [reflexivity|]. unfold lmaxn in *. cbn [fold_right].
  rewrite (H x) by (left; reflexivity). rewrite IH; [reflexivity|]. intros y Hy. apply H. right. exact Hy.
Qed.

Lemma lmaxn_lmax {A} (f : A -> nat) l : lmaxn f l = lmax f l.
Proof. reflexivity. Qed.

Lemma value_depth_ddepth v : vwf v = true -> value_depth v = ddepth (absv v).
Proof.
  induction v as [s r d|vals tr c d sp IH|items pre im dt d sp IH] using value_ind'; intro Hw.
  - destruct s; reflexivity.
  - rewrite value_depth_array, absv_array. cbn [ddepth]. f_equal. rewrite vwf_array in Hw.
    unfold items_depth. rewrite <- lmaxn_lmax, lmaxn_map. apply lmaxn_ext_in. intros it Hin.
    rewrite forallb_forall in Hw. rewrite Forall_forall in IH.
    destruct (Pit_wf _ it (Hw it Hin) (IH it Hin)) as (v & -> & Hv & Hp). cbn [item_depth absi]. apply Hp, Hv.
  - rewrite value_depth_inline, absv_inline. cbn [ddepth]. f_equal. rewrite vwf_inline in Hw. unfold items_wf in Hw.
    unfold kvs_depth. rewrite <- lmaxn_lmax, lmaxn_map. apply lmaxn_ext_in. intros [k it] Hin.
    rewrite forallb_forall in Hw. rewrite Forall_forall in IH.
    destruct (Pit_wf _ it (Hw _ Hin) (IH _ Hin)) as (v & -> & Hv & Hp). cbn [item_depth absi absi_kv fst snd]. apply Hp, Hv.
Qed.

(* ================================================================================================ *)
(* the relation between a parsed value and an abstract value                                        *)
(* ================================================================================================ *)
(* d = RecursionCheck counter at the value: same data; the abstract value is well-defined and within
   the limits; the tree value holds values only and is not a table made by dotted keys *)
Definition vrel (d : nat) (v : value) (a : aval) : Prop :=
  absv v = den a /\ aval_ok a = true /\ within d a = true /\ vwf v = true /\ closed_value v = true.

Definition irel (d : nat) (it : item) (a : aval) : Prop := exists v, it = IValue v /\ vrel d v a.

Lemma closed_decorate v p s : closed_value (value_decorate v p s) = closed_value v.
Proof. destruct v; reflexivity. Qed.
Lemma closed_apply_raw v sp : closed_value (apply_raw v sp) = closed_value v.
Proof. unfold apply_raw. rewrite closed_decorate. destruct v; reflexivity. Qed.

Lemma vrel_decorate d v a p s : vrel d v a -> vrel d (value_decorate v p s) a.
Proof. intros (H1 & H2 & H3 & H4 & H5). unfold vrel. rewrite absv_decorate, vwf_decorate, closed_decorate. auto. Qed.
Lemma vrel_apply_raw d v a sp : vrel d v a -> vrel d (apply_raw v sp) a.
Proof. intros (H1 & H2 & H3 & H4 & H5). unfold vrel. rewrite absv_apply_raw, vwf_apply_raw, closed_apply_raw. auto. Qed.

Lemma vrel_scalar d s a : abs_scalar s = den a -> aval_ok a = true -> within d a = true -> vrel d (scalar_value s) a.
Proof. intros H1 H2 H3. unfold vrel, scalar_value. cbn [absv vwf closed_value]. auto. Qed.

(* arrays *)
Lemma vrel_array d items l tr c dec sp :
  S d < LIMIT -> Forall2 (irel (S d)) items l -> vrel d (VArray items tr c dec sp) (AArr l).
Proof.
  intros Hd HF. unfold vrel. rewrite absv_array, vwf_array. cbn [den aval_ok within closed_value].
  assert (E : map absi items = map den l /\ forallb aval_ok l = true /\ forallb (within (S d)) l = true
              /\ forallb iwf items = true).
  { induction HF as [|it a items l (v & -> & H1 & H2 & H3 & H4 & H5) HF IH]; [auto|].
    destruct IH as (I1 & I2 & I3 & I4). cbn [map forallb absi iwf]. rewrite H1, H2, H3, H4, I1, I2, I3, I4. auto. }
  destruct E as (E1 & E2 & E3 & E4). rewrite E1, E2, E3, E4.
  assert (Hl : Nat.ltb (S d) LIMIT = true) by (apply Nat.ltb_lt; exact Hd). rewrite Hl. auto.
Qed.

(* ================================================================================================ *)
(* inline tables: from C09's abstraction (Proofs/DefsEquivInline.v) to data                         *)
(* ================================================================================================ *)
Lemma node_dval_tab kd items : node_dval (NTab kd items) = DTab (tree_dval items).
Proof. reflexivity. Qed.

Lemma items_wf_in m k it : items_wf m = true -> In (k, it) m -> iwf it = true.
Proof. unfold items_wf. rewrite forallb_forall. intros H Hin. apply (H (k, it) Hin). Qed.

(* the data of C09's spec tree for the items of an inline table under construction *)
Lemma absi_value_data v : vwf v = true -> node_dval (nmap absv (absi_value v)) = absv v.
Proof.
  induction v as [s r d|vals tr c d sp IH|items pre im dt d sp IH] using value_ind'; intro Hw; try reflexivity.
  destruct im; [|reflexivity].
  rewrite absi_value_implicit, nmap_tab, node_dval_tab, absv_inline. f_equal.
  rewrite vwf_inline in Hw. unfold tree_dval, smap, absi_items. rewrite !map_map.
  apply map_ext_in. intros [k it] Hin. unfold kmap, absi_kv. cbn [fst snd]. f_equal.
  rewrite Forall_forall in IH.
  destruct (Pit_wf _ it (items_wf_in _ _ _ Hw Hin) (IH _ Hin)) as (v & -> & Hv & Hp). cbn [absi_item absi]. apply Hp, Hv.
Qed.

Lemma absi_items_data m : items_wf m = true -> tree_dval (smap absv (absi_items m)) = map absi_kv m.
Proof.
  intro Hw. unfold tree_dval, smap, absi_items. rewrite !map_map. apply map_ext_in. intros [k it] Hin.
  unfold kmap, absi_kv. cbn [fst snd]. f_equal. pose proof (items_wf_in _ _ _ Hw Hin) as Hit.
  destruct it as [|v| |]; try discriminate. cbn [absi_item absi]. apply absi_value_data, Hit.
Qed.

(* ---- items_wf is preserved by the insertion loop and the span pass --------------------------- *)
Lemma items_wf_get m k k' it : items_wf m = true -> kv_get m k = Some (k', it) -> iwf it = true.
Proof.
  induction m as [|[k0 v0] m IH]; cbn [kv_get items_wf forallb snd]; [discriminate|].
  intros H E. apply andb_true_iff in H as [H1 H2]. destruct (bytes_eqb _ _); [inversion E; subst; exact H1|].
  apply IH; assumption.
Qed.
Lemma items_wf_push m k v : items_wf m = true -> iwf v = true -> items_wf (kv_push m k v) = true.
Proof. intros H1 H2. unfold kv_push, items_wf in *. rewrite forallb_app, H1. cbn [forallb snd]. rewrite H2. reflexivity. Qed.
Lemma items_wf_set m k v : items_wf m = true -> iwf v = true -> items_wf (kv_set m k v) = true.
Proof.
  intros H1 H2. induction m as [|[k0 v0] m IH]; [reflexivity|]. cbn [kv_set items_wf forallb snd] in *.
  apply andb_true_iff in H1 as [Ha Hb]. destruct (bytes_eqb _ _); cbn [forallb snd].
  - rewrite H2. exact Hb.
  - rewrite Ha. apply IH, Hb.
Qed.

Lemma inline_insert_wf : forall path m dh pe k v m',
  items_wf m = true -> iwf v = true -> inline_insert m dh path pe k v = COk m' -> items_wf m' = true.
Proof.
  induction path as [|pk ptl IH]; intros m dh pe k v m' Hm Hv; cbn [inline_insert].
  - destruct (Bool.eqb dh pe); [discriminate|]. destruct (kv_get m (k_key k)); [discriminate|].
    intro E. injection E as <-. apply items_wf_push; assumption.
  - destruct (kv_get m (k_key pk)) as [[k' it]|] eqn:G.
    + pose proof (items_wf_get _ _ _ _ Hm G) as Hit. destruct it as [|val| |]; try discriminate Hit.
      destruct val as [s r d|vals tr c d sp|sub pre imp dt dec sp]; try discriminate.
      destruct (negb imp); [discriminate|]. cbn [iwf] in Hit. rewrite vwf_inline in Hit.
      destruct (inline_insert sub dt ptl pe k v) as [sub'| |] eqn:E; try discriminate.
      intro E2. injection E2 as <-. apply items_wf_set; [exact Hm|]. cbn [iwf]. rewrite vwf_inline.
      eapply IH; [exact Hit|exact Hv|exact E].
    + destruct (inline_insert [] true ptl pe k v) as [sub'| |] eqn:E; try discriminate.
      intro E2. injection E2 as <-. apply items_wf_push; [exact Hm|]. cbn [iwf]. rewrite vwf_inline.
      exact (IH [] true pe k v sub' eq_refl Hv E).
Qed.

Lemma table_from_pairs_loop_wf : forall pairs m m',
  items_wf m = true -> Forall (fun x : list key * (key * item) => iwf (snd (snd x)) = true) pairs ->
  table_from_pairs_loop m pairs = COk m' -> items_wf m' = true.
Proof.
  induction pairs as [|[path [k v]] tl IH]; intros m m' Hm Hp; cbn [table_from_pairs_loop].
  - intro E. injection E as <-. exact Hm.
  - inversion Hp as [|? ? Hx Htl]; subst. cbn [snd] in Hx.
    destruct (inline_insert m false path _ k v) as [m1| |] eqn:E; try discriminate.
    apply IH; [|exact Htl]. eapply inline_insert_wf; [exact Hm|exact Hx|exact E].
Qed.

Lemma kv_set_same_data m k k' it it' :
  kv_get m k = Some (k', it) -> absi it' = absi it -> map absi_kv (kv_set m k it') = map absi_kv m.
Proof.
  induction m as [|[k0 v0] m IH]; cbn [kv_get kv_set]; [discriminate|].
  destruct (bytes_eqb (k_key k0) k); intros E H.
  - injection E as <- <-. cbn [map]. unfold absi_kv at 1 3. cbn [fst snd]. rewrite H. reflexivity.
  - cbn [map]. rewrite (IH E H). reflexivity.
Qed.

Lemma inline_set_spans_data : forall path m e,
  map absi_kv (inline_set_spans m path e) = map absi_kv m /\
  (items_wf m = true -> items_wf (inline_set_spans m path e) = true).
Proof.
  induction path as [|k ptl IH]; intros m e; cbn [inline_set_spans]; [auto|].
  destruct (kv_get m (k_key k)) as [[k' it]|] eqn:G; [|auto].
  destruct it as [|val| |]; auto. destruct val as [s r d|vals tr c d sp|sub pre imp dt dec sp]; auto.
  destruct (IH sub e) as [I1 I2]. split.
  - eapply kv_set_same_data; [exact G|]. cbn [absi]. rewrite !absv_inline, I1. reflexivity.
  - intro Hm. pose proof (items_wf_get _ _ _ _ Hm G) as Hit. cbn [iwf] in Hit. rewrite vwf_inline in Hit.
    apply items_wf_set; [exact Hm|]. cbn [iwf]. rewrite vwf_inline. apply I2, Hit.
Qed.

Lemma inline_spans_pass_data : forall pairs m,
  map absi_kv (inline_spans_pass m pairs) = map absi_kv m /\
  (items_wf m = true -> items_wf (inline_spans_pass m pairs) = true).
Proof.
  unfold inline_spans_pass. induction pairs as [|[path [k v]] tl IH]; intros m; cbn [fold_left]; [auto|].
  destruct (IH (inline_set_spans m path (item_end v))) as [I1 I2].
  destruct (inline_set_spans_data path m (item_end v)) as [J1 J2]. split.
  - rewrite I1. exact J1.
  - intro Hm. apply I2, J2, Hm.
Qed.

(* ---- pairs of an inline table ------------------------------------------------------------------ *)
Definition prel (d : nat) (x : list key * (key * item)) (pa : list bytes * aval) : Prop :=
  fst pa = keys (fst x) ++ [k_key (fst (snd x))] /\ irel d (snd (snd x)) (snd pa).

Definition iprel (d : nat) (y : ipair) (pa : list bytes * aval) : Prop :=
  fst pa = keys (fst y) ++ [k_key (fst (snd y))] /\ vrel d (snd (snd y)) (snd pa).

Lemma prel_ipairs d pairs kvs : Forall2 (prel d) pairs kvs ->
  exists l, pairs = to_pairs l /\ Forall2 (iprel d) l kvs.
Proof.
  induction 1 as [|[path [k it]] pa pairs kvs [Hp (v & Hit & Hv)] HF (l & -> & Hl)].
  - exists []. split; [reflexivity|constructor].
  - cbn [fst snd] in *. subst it. exists ((path, (k, v)) :: l). split; [reflexivity|].
    constructor; [|exact Hl]. split; assumption.
Qed.

Lemma ipairs_prel d l kvs : Forall2 (iprel d) l kvs -> Forall2 (prel d) (to_pairs l) kvs.
Proof.
  induction 1 as [|[path [k v]] pa l kvs [Hp Hv] HF IH]; [constructor|].
  cbn [to_pairs map fst snd]. constructor; [|exact IH]. split; [exact Hp|]. exists v. auto.
Qed.

Lemma ipairs_closed d l kvs : Forall2 (iprel d) l kvs -> pairs_closed l.
Proof.
  unfold pairs_closed. induction 1 as [|y pa l0 kvs0 [_ (_ & _ & _ & _ & Hc)] _ IH]; constructor; assumption.
Qed.

Lemma ipairs_wf d l kvs : Forall2 (iprel d) l kvs ->
  Forall (fun x : list key * (key * item) => iwf (snd (snd x)) = true) (to_pairs l).
Proof.
  induction 1 as [|[path [k v]] pa l0 kvs0 [_ (_ & _ & _ & Hw & _)] _ IH]; cbn [to_pairs map]; constructor; assumption.
Qed.

Lemma ipairs_den d l kvs : Forall2 (iprel d) l kvs ->
  map (fun pv => (fst pv, den (snd pv))) kvs = map (pair_map absv) (erase_pairs l).
Proof.
  induction 1 as [|[path [k v]] [p a] l0 kvs0 [Hp (Ha & _)] _ IH]; [reflexivity|].
  cbn [erase_pairs map fst snd] in *. fold (erase_pairs l0). rewrite IH. unfold pair_map at 2. cbn [fst snd].
  rewrite Hp, Ha. reflexivity.
Qed.

Lemma ipairs_unit d l kvs : Forall2 (iprel d) l kvs ->
  map (fun pv : list bytes * aval => (fst pv, tt)) kvs = map (pair_map (fun _ : value => tt)) (erase_pairs l).
Proof.
  induction 1 as [|[path [k v]] [p a] l0 kvs0 [Hp _] _ IH]; [reflexivity|].
  cbn [erase_pairs map fst snd] in *. fold (erase_pairs l0). rewrite IH. unfold pair_map at 2. cbn [fst snd].
  rewrite Hp. reflexivity.
Qed.

(* the depth check of table_from_pairs is the limit of Spec/Syntax.v `within` *)
Lemma ipairs_checks d l kvs : Forall2 (iprel d) l kvs ->
  forallb (fun pv : list bytes * aval => Nat.ltb (length (fst pv) + ddepth (den (snd pv))) LIMIT && within d (snd pv)) kvs = true
  <-> (forall p k v, In (p, (k, v)) (to_pairs l) -> check_depth (length p + 1 + item_depth v) = false).
Proof.
  induction 1 as [|[path [k v]] [p a] l0 kvs0 [Hp (Ha & _ & Hwi & Hw & _)] _ IH].
  - split; [intros _ ? ? ? []|reflexivity].
  - cbn [fst snd] in *. cbn [forallb to_pairs map fst snd]. fold (to_pairs l0).
    assert (E : length p + ddepth (den a) = length path + 1 + item_depth (IValue v)).
    { rewrite Hp, app_length. unfold keys. rewrite map_length. cbn [length item_depth].
      rewrite (value_depth_ddepth v Hw), Ha. lia. }
    rewrite E, Hwi, andb_true_r. split.
    + intro H0. apply andb_true_iff in H0 as [H1 H2]. intros p' k' v' [Hin|Hin].
      * injection Hin as <- <- <-. apply check_depth_false. apply Nat.ltb_lt in H1. exact H1.
      * apply (proj1 IH H2 _ _ _ Hin).
    + intro H0. apply andb_true_iff. split.
      * apply Nat.ltb_lt. apply check_depth_false. apply (H0 path k (IValue v)). left. reflexivity.
      * apply (proj2 IH). intros p' k' v' Hin. apply (H0 p' k' v'). right. exact Hin.
Qed.

Lemma ipairs_aval_ok d l kvs : Forall2 (iprel d) l kvs ->
  forallb (fun pv : list bytes * aval => aval_ok (snd pv)) kvs = true.
Proof. induction 1 as [|y pa l0 kvs0 [_ (_ & Hok & _)] _ IH]; [reflexivity|]. cbn [forallb]. rewrite Hok, IH. reflexivity. Qed.

Section InlineBridge.
  Variable d : nat.
  Variable l : list ipair.
  Variable kvs : list (list bytes * aval).
  Hypothesis HF : Forall2 (iprel d) l kvs.

  (* what the insertion loop computes, in terms of the spec *)
  Lemma inline_loop_spec :
    match inline_run (erase_pairs l) with
    | Some T => exists m, table_from_pairs_loop [] (to_pairs l) = COk m /\ absi_items m = T /\ items_wf m = true
    | None => exists c, table_from_pairs_loop [] (to_pairs l) = CErr c
    end.
  Proof.
    pose proof (inline_loop_sim l [] eq_refl (ipairs_closed _ _ _ HF)) as H. unfold inline_run.
    change (absi_items []) with (@nil (bytes * node value)) in H.
    destruct (inline_fold [] (erase_pairs l)) as [T| |]; cbn [simi] in H; [|exact H|contradiction].
    destruct H as (m & H1 & H2 & _). exists m. split; [exact H1|]. split; [exact H2|].
    exact (table_from_pairs_loop_wf _ [] m eq_refl (ipairs_wf _ _ _ HF) H1).
  Qed.

  Lemma inline_ok_iff :
    (match inline_run (map (fun pv : list bytes * aval => (fst pv, tt)) kvs) with Some _ => true | None => false end) = true
    <-> exists T, inline_run (erase_pairs l) = Some T.
  Proof.
    rewrite (ipairs_unit _ _ _ HF), inline_run_smap. destruct (inline_run (erase_pairs l)) as [T|]; cbn [option_map].
    - split; [eauto|reflexivity].
    - split; [discriminate|intros [T E]; discriminate].
  Qed.

  Lemma inline_den T m :
    inline_run (erase_pairs l) = Some T -> absi_items m = T -> items_wf m = true ->
    den (AInl kvs) = DTab (map absi_kv m).
  Proof.
    intros E Hm Hw. cbn [den]. rewrite (ipairs_den _ _ _ HF), inline_run_smap, E. cbn [option_map]. f_equal.
    rewrite <- Hm. apply absi_items_data, Hw.
  Qed.

  (* soundness: a successful table_from_pairs yields a value related to the abstract inline table *)
  Lemma inline_bridge_sound d0 pre v :
    d = S d0 -> S d0 < LIMIT -> table_from_pairs (to_pairs l) pre = TmOk v -> vrel d0 v (AInl kvs).
  Proof.
    intros Ed Hd H. unfold table_from_pairs in H.
    destruct (table_from_pairs_loop_d [] (to_pairs l)) as [m| |] eqn:E; try discriminate. injection H as <-.
    pose proof (DepthValue.loop_d_ok_checks _ _ _ E) as Hchk. apply DepthValue.loop_d_ok_agrees in E.
    pose proof inline_loop_spec as Hs. destruct (inline_run (erase_pairs l)) as [T|] eqn:Er.
    2:{ destruct Hs as [c Hc]. rewrite Hc in E. discriminate. }
    destruct Hs as (m0 & E0 & Hm & Hw). rewrite E0 in E. injection E as ->.
    destruct (inline_spans_pass_data (to_pairs l) m) as [I1 I2].
    unfold vrel. rewrite absv_inline, vwf_inline, I1. cbn [closed_value negb]. split; [|split; [|split; [|split]]].
    - symmetry. apply (inline_den T m Er Hm Hw).
    - cbn [aval_ok]. rewrite (ipairs_aval_ok _ _ _ HF). apply andb_true_iff. split; [reflexivity|].
      apply (proj2 inline_ok_iff). eauto.
    - cbn [within]. apply andb_true_iff. split; [apply Nat.ltb_lt; exact Hd|].
      rewrite <- Ed. apply (proj2 (ipairs_checks _ _ _ HF)). exact Hchk.
    - apply I2, Hw.
    - reflexivity.
  Qed.

  (* completeness: a well-defined inline table within the limits is built *)
  Lemma inline_bridge_complete d0 pre :
    d = S d0 -> aval_ok (AInl kvs) = true -> within d0 (AInl kvs) = true ->
    exists v, table_from_pairs (to_pairs l) pre = TmOk v.
  Proof.
    intros Ed Hok Hwi. cbn [aval_ok] in Hok. apply andb_true_iff in Hok as [_ Hok].
    apply (proj1 inline_ok_iff) in Hok as [T Er].
    cbn [within] in Hwi. apply andb_true_iff in Hwi as [_ Hwi]. rewrite <- Ed in Hwi.
    pose proof (proj1 (ipairs_checks _ _ _ HF) Hwi) as Hchk.
    pose proof inline_loop_spec as Hs. rewrite Er in Hs. destruct Hs as (m & E & _).
    unfold table_from_pairs. rewrite (DepthValue.loop_d_agrees _ _ Hchk), E. eauto.
  Qed.
End InlineBridge.
