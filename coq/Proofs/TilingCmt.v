(* Proofs/TilingCmt.v — C03: the comments of a text (Spec/Norm.v `comments`) along the grammar.
   `cj F t cs`: the text t is a piece of the scanner (from state normal back to state normal, for every
   continuation in F), it does not end inside a comment, and the comments in it are cs.
   Tokens have none (`qt`, Proofs/TilingNormScan.v); ws-comment-newline has the comments written in it;
   the normal form o of `vtext t a o` / `lines_text t l o` has the comments of t. *)
From TV Require Import Base.Prelude Base.Utf8 Spec.Abnf Spec.Lex Spec.Defs Spec.Syntax Spec.Norm.
From TV Require Proofs.GrammarDocLine.
From TV Require Import Proofs.TilingDefs Proofs.TilingNormScan Proofs.TilingNormStr Proofs.TilingNormTok Proofs.TilingNormDoc.
Require Import Lia.

(* ---- comments of labelled texts ------------------------------------------------------------------------------- *)
Definition ends_cmt (zs : lz) : bool := match rev zs with z :: _ => is_comment (snd z) | [] => false end.

Lemma ends_cmt_snoc a z : ends_cmt (a ++ [z]) = is_comment (snd z).
Proof. unfold ends_cmt. rewrite rev_app_distr. reflexivity. Qed.
Lemma ends_cmt_app a b : b <> [] -> ends_cmt (a ++ b) = ends_cmt b.
Proof. intro H. destruct b as [|z b _] using rev_ind; [congruence|]. rewrite app_assoc, !ends_cmt_snoc. reflexivity. Qed.
Lemma ends_cmt_app_false a b : ends_cmt a = false -> ends_cmt b = false -> ends_cmt (a ++ b) = false.
Proof. intros Ha Hb. destruct b; [rewrite app_nil_r; exact Ha|rewrite ends_cmt_app by discriminate; exact Hb]. Qed.
Lemma ends_cmt_cons z a : a <> [] -> ends_cmt (z :: a) = ends_cmt a.
Proof. intro H. apply (ends_cmt_app [z] a H). Qed.

Lemma comments_of_app b : forall a cur, ends_cmt a = false -> (a = [] -> cur = None) ->
  comments_of (a ++ b) cur = comments_of a cur ++ comments_of b None.
Proof.
  induction a as [|[c l] a IH]; intros cur He Hn.
  - rewrite (Hn eq_refl). reflexivity.
  - cbn [app comments_of]. destruct (is_comment l) eqn:El.
    + apply IH.
      * destruct a; [unfold ends_cmt in He; cbn in He; rewrite El in He; discriminate|rewrite ends_cmt_cons in He by discriminate; exact He].
      * intros ->. unfold ends_cmt in He. cbn in He. congruence.
    + assert (He' : ends_cmt a = false) by (destruct a; [reflexivity|rewrite ends_cmt_cons in He by discriminate; exact He]).
      destruct cur; cbn [app]; [f_equal|]; apply IH; auto.
Qed.

Definition flush (cur : option bytes) : list bytes := match cur with Some c => [rev c] | None => [] end.

Lemma comments_of_quiet b cur : nocmt b -> comments_of b cur = flush cur.
Proof.
  unfold nocmt. revert cur. induction b as [|[c l] b IH]; intros cur H; [reflexivity|]. cbn [forallb snd] in H.
  apply andb_true_iff in H as [Hl Hb]. apply negb_true_iff in Hl. cbn [comments_of]. rewrite Hl.
  destruct cur; rewrite (IH None Hb); reflexivity.
Qed.

Lemma comments_of_quiet_tail b : nocmt b -> forall a cur, comments_of (a ++ b) cur = comments_of a cur.
Proof.
  intros Hb. induction a as [|[c l] a IH]; intro cur.
  - cbn [app]. rewrite comments_of_quiet by exact Hb. destruct cur; reflexivity.
  - cbn [app comments_of]. destruct (is_comment l); [apply IH|]. destruct cur; rewrite IH; reflexivity.
Qed.

Lemma nocmt_ends zs : nocmt zs -> ends_cmt zs = false.
Proof.
  unfold nocmt. destruct zs as [|z zs _] using rev_ind; [reflexivity|]. rewrite forallb_app, ends_cmt_snoc. cbn [forallb]. intro H.
  apply andb_true_iff in H as [_ H]. rewrite andb_true_r in H. apply negb_true_iff in H. exact H.
Qed.

Lemma comments_of_cmt_some rest : forall c x, nocr c ->
  comments_of (tag LComment c ++ rest) (Some x) = comments_of rest (Some (rev c ++ x)).
Proof.
  unfold nocr. induction c as [|b c IH]; intros x H; [reflexivity|]. cbn [forallb] in H. apply andb_true_iff in H as [Hb Hc].
  apply negb_true_iff in Hb. cbn [tag map app comments_of is_comment]. rewrite Hb. fold (tag LComment c). rewrite (IH _ Hc).
  cbn [rev]. rewrite <- app_assoc. reflexivity.
Qed.

Lemma comments_of_cmt b c rest cur : nocr (b :: c) ->
  comments_of (tag LComment (b :: c) ++ rest) cur = comments_of rest (Some (rev (b :: c) ++ match cur with Some x => x | None => [] end)).
Proof.
  intro H. pose proof H as H'. unfold nocr in H'. cbn [forallb] in H'. apply andb_true_iff in H' as [Hb Hc]. apply negb_true_iff in Hb.
  cbn [tag map app comments_of is_comment]. rewrite Hb. fold (tag LComment c). rewrite (comments_of_cmt_some rest c _ Hc).
  cbn [rev]. rewrite <- app_assoc. reflexivity.
Qed.

(* ---- pieces with their comments --------------------------------------------------------------------------------- *)
(* ec = true: the piece may end inside a comment (a line before its line end) *)
Definition cjx (ec : bool) (F : bytes -> Prop) (t : bytes) (cs : list bytes) : Prop :=
  exists zs, txt zs = t /\ piece F zs /\ (ec = false -> ends_cmt zs = false) /\ comments_of zs None = cs.
Notation cj := (cjx false).

Lemma cjx_open ec F t cs : cjx ec F t cs -> cjx true F t cs.
Proof. intros (zs & T & P & _ & C). exists zs. split; [exact T|]. split; [exact P|]. split; [discriminate|exact C]. Qed.

Lemma cjx_weaken ec (F G : bytes -> Prop) t cs : (forall r, G r -> F r) -> cjx ec F t cs -> cjx ec G t cs.
Proof. intros H (zs & T & P & S). exists zs. split; [exact T|]. split; [apply (piece_weaken F G); assumption|exact S]. Qed.

Lemma cjx_any ec (F : bytes -> Prop) t cs : cjx ec anyf t cs -> cjx ec F t cs.
Proof. apply cjx_weaken. intros; exact I. Qed.

Lemma cj_nil F : cj F [] [].
Proof. exists []. split; [reflexivity|]. split; [apply piece_nil|]. split; reflexivity. Qed.

Lemma cj_qt k F t : qt k F t -> cj F t [].
Proof.
  intros (zs & T & P & _ & Q). exists zs. split; [exact T|]. split; [exact P|]. split; [intros _; apply nocmt_ends, Q|].
  apply (comments_of_quiet zs None Q).
Qed.

Lemma cjx_app ec (F1 F2 : bytes -> Prop) t1 t2 c1 c2 :
  cj F1 t1 c1 -> cjx ec F2 t2 c2 -> (forall r, F2 r -> F1 (t2 ++ r)) -> cjx ec F2 (t1 ++ t2) (c1 ++ c2).
Proof.
  intros (z1 & T1 & P1 & E1 & C1) (z2 & T2 & P2 & E2 & C2) H. specialize (E1 eq_refl). exists (z1 ++ z2).
  split; [rewrite txt_app, T1, T2; reflexivity|]. split; [apply (piece_app F1 F2); [assumption|assumption|rewrite T2; exact H]|]. split.
  - intro Hec. apply ends_cmt_app_false; [exact E1|apply E2, Hec].
  - rewrite comments_of_app by (auto). rewrite C1, C2. reflexivity.
Qed.

Lemma cjx_app_any ec (F2 : bytes -> Prop) t1 t2 c1 c2 : cj anyf t1 c1 -> cjx ec F2 t2 c2 -> cjx ec F2 (t1 ++ t2) (c1 ++ c2).
Proof. intros H1 H2. apply (cjx_app ec anyf F2); [assumption|assumption|intros; exact I]. Qed.

(* a quiet piece after a piece that may end in a comment *)
Lemma cjx_quiet_tail k (F1 F2 : bytes -> Prop) t1 t2 c1 : t2 <> [] ->
  cjx true F1 t1 c1 -> qt k F2 t2 -> (forall r, F2 r -> F1 (t2 ++ r)) -> cj F2 (t1 ++ t2) c1.
Proof.
  intros Hne (z1 & T1 & P1 & _ & C1) (z2 & T2 & P2 & _ & Q2) H. exists (z1 ++ z2).
  split; [rewrite txt_app, T1, T2; reflexivity|]. split; [apply (piece_app F1 F2); [assumption|assumption|rewrite T2; exact H]|]. split.
  - intros _. rewrite ends_cmt_app; [apply nocmt_ends, Q2|]. intros ->. apply Hne. rewrite <- T2. reflexivity.
  - rewrite comments_of_quiet_tail by exact Q2. exact C1.
Qed.

(* ---- the comments of a whole text ------------------------------------------------------------------------------- *)
Definition scan (t : bytes) : lz := combine t (labels SNormal t).
Definition cmts (t : bytes) : list bytes := comments_of (scan t) None.

Lemma comments_cmts s : comments s = cmts (drop_bom s).
Proof. reflexivity. Qed.

Lemma piece_scan (F : bytes -> Prop) zs x : piece F zs -> F x -> scan (txt zs ++ x) = zs ++ scan x.
Proof.
  intros P Hx. unfold scan. rewrite (P x Hx). rewrite <- (combine_txt_lab zs) at 3.
  assert (L : length (txt zs) = length (lab zs)) by (unfold txt, lab; rewrite !map_length; reflexivity).
  revert L. generalize (txt zs) (lab zs). intros a. induction a as [|b a IH]; intros l L; destruct l as [|y l]; try discriminate; [reflexivity|].
  cbn [app combine]. f_equal. apply IH. cbn [length] in L. lia.
Qed.

(* a closed piece at the head of a text *)
Lemma cj_cmts (F : bytes -> Prop) p c x : cj F p c -> F x -> cmts (p ++ x) = c ++ cmts x.
Proof.
  intros (zs & T & P & E & C) Hx. unfold cmts. rewrite <- T, (piece_scan F zs x P Hx), comments_of_app by (auto). rewrite C. reflexivity.
Qed.

(* a piece that is the whole text *)
Lemma cjx_cmts ec (F : bytes -> Prop) p c : cjx ec F p c -> F [] -> cmts p = c.
Proof.
  intros (zs & T & P & _ & C) Hx. unfold cmts. pose proof (piece_scan F zs [] P Hx) as E. rewrite !app_nil_r, T in E. rewrite E. exact C.
Qed.

(* ---- trivia ------------------------------------------------------------------------------------------------------- *)
Lemma cj_ws w : ws_tok w -> cj anyf w [].
Proof. intro H. apply (cj_qt CB), qt_ws, H. Qed.

Lemma qt_newline nl : newline_tok nl -> exists zs, txt zs = nl /\ piece anyf zs /\ nocmt zs.
Proof.
  intro H. exists (tag LNormal nl). split; [apply txt_tag|]. split; [apply piece_nq, newline_nq, H|apply nocmt_tag; reflexivity].
Qed.

Lemma cj_newline nl : newline_tok nl -> cj anyf nl [].
Proof.
  intro H. destruct (qt_newline nl H) as (zs & T & P & Q). exists zs. split; [exact T|]. split; [exact P|].
  split; [intros _; apply nocmt_ends, Q|apply (comments_of_quiet zs None Q)].
Qed.

(* a comment: a piece that a line end follows, ending inside the comment *)
Lemma cjx_comment c : comment_tok c -> cjx true lendf c [c].
Proof.
  intro Hc. exists (tag LComment c). split; [apply txt_tag|]. split; [apply piece_comment, Hc|]. split; [discriminate|].
  pose proof (nocrlf_nocr c (comment_nocrlf c Hc)) as Hn. destruct Hc as (u & -> & _).
  pose proof (comments_of_cmt x23 u [] None Hn) as E. rewrite !app_nil_r in E. rewrite E. cbn [comments_of]. rewrite rev_involutive. reflexivity.
Qed.

Lemma cjx_opt_comment c : opt_comment c -> exists cs, cjx true lendf c cs /\ (c = [] -> cs = []).
Proof.
  intros [-> | Hc].
  - exists []. split; [apply (cjx_open false), cj_nil|reflexivity].
  - exists [c]. split; [apply cjx_comment, Hc|]. intros ->. destruct Hc as (u & E & _). discriminate.
Qed.

(* a line end after something that may end in a comment *)
Lemma cjx_nl (F : bytes -> Prop) t cs nl : cjx true lendf t cs -> newline_tok nl -> cj F (t ++ nl) cs.
Proof.
  intros (z1 & T1 & P1 & _ & C1) Hn. destruct (qt_newline nl Hn) as (z2 & T2 & P2 & Q2). exists (z1 ++ z2).
  split; [rewrite txt_app, T1, T2; reflexivity|]. split.
  - apply (piece_weaken anyf); [intros; exact I|]. apply (piece_app lendf anyf); [assumption|assumption|].
    intros r _. rewrite T2. apply lendf_newline, Hn.
  - split.
    + intros _. rewrite ends_cmt_app; [apply nocmt_ends, Q2|]. intros ->. cbn in T2. destruct Hn as [-> | ->]; discriminate.
    + rewrite comments_of_quiet_tail by exact Q2. exact C1.
Qed.

Lemma ncr_newline' nl : newline_tok nl -> ncr nl = [x0a].
Proof. intros [-> | ->]; reflexivity. Qed.

Lemma lf_newline : newline_tok [x0a].
Proof. left. reflexivity. Qed.

Lemma ncr_comment' c : opt_comment c -> ncr c = c.
Proof. intros [-> | Hc]; [reflexivity|]. apply ncr_nocr, nocrlf_nocr, comment_nocrlf, Hc. Qed.

Lemma ncr_ws' w : ws_tok w -> ncr w = w.
Proof. intro H. apply ncr_nocr, plain_nocr, ws_plain, H. Qed.

(* t and its normal form o are pieces with the same comments *)
Definition D (ec : bool) (F : bytes -> Prop) (t o : bytes) : Prop := exists cs, cjx ec F t cs /\ cjx ec F o cs.

Lemma D_app ec (F1 F2 : bytes -> Prop) t1 t2 o1 o2 :
  D false F1 t1 o1 -> D ec F2 t2 o2 -> (forall r, F2 r -> F1 (t2 ++ r)) -> (forall r, F2 r -> F1 (o2 ++ r)) ->
  D ec F2 (t1 ++ t2) (o1 ++ o2).
Proof.
  intros (c1 & A1 & B1) (c2 & A2 & B2) H1 H2. exists (c1 ++ c2). split; apply (cjx_app ec F1 F2); assumption.
Qed.

Lemma D_app_any ec (F2 : bytes -> Prop) t1 t2 o1 o2 : D false anyf t1 o1 -> D ec F2 t2 o2 -> D ec F2 (t1 ++ t2) (o1 ++ o2).
Proof. intros H1 H2. apply (D_app ec anyf F2); [assumption|assumption|intros; exact I|intros; exact I]. Qed.

Lemma D_qt k F t : qt k F t -> D false F t t.
Proof. intro H. exists []. split; apply (cj_qt k), H. Qed.

Lemma D_any ec (F : bytes -> Prop) t o : D ec anyf t o -> D ec F t o.
Proof. intros (cs & A & B). exists cs. split; apply cjx_any; assumption. Qed.

Lemma D_nil F : D false F [] [].
Proof. exists []. split; apply cj_nil. Qed.

Lemma wscn_ncr w : wscn_tok w -> wscn_tok (ncr w).
Proof.
  induction 1 as [|b t Hb Ht IH|c nl t Hc Hn Ht IH]; [constructor| |].
  - change (b :: t) with ([b] ++ t). rewrite ncr_app.
    assert (Hw : ws_tok [b]) by (unfold ws_tok, all; cbn [forallb]; rewrite Hb; reflexivity).
    rewrite (ncr_ws' [b] Hw). cbn [app]. constructor; assumption.
  - rewrite !ncr_app, (ncr_comment' c Hc), (ncr_newline' nl Hn). apply wscn_nl; [exact Hc|apply lf_newline|exact IH].
Qed.

Lemma D_wscn w : wscn_tok w -> D false anyf w (ncr w).
Proof.
  induction 1 as [|b t Hb Ht IH|c nl t Hc Hn Ht IH]; [apply D_nil| |].
  - change (b :: t) with ([b] ++ t). rewrite ncr_app.
    assert (Hw : ws_tok [b]) by (unfold ws_tok, all; cbn [forallb]; rewrite Hb; reflexivity).
    rewrite (ncr_ws' [b] Hw). apply (D_app_any false); [apply (D_qt CB), qt_ws, Hw|exact IH].
  - rewrite !ncr_app, (ncr_comment' c Hc), (ncr_newline' nl Hn). rewrite !app_assoc. apply (D_app_any false); [|exact IH].
    destruct (cjx_opt_comment c Hc) as (cs & Hcs & _). exists cs. split; apply cjx_nl; try assumption. apply lf_newline.
Qed.

(* ---- values -------------------------------------------------------------------------------------------------------- *)
Lemma D_byte b : plainb b = true -> blank b = false -> D false anyf [b] [b].
Proof. intros Hp Hb. apply (D_qt CS), qt_byte; assumption. Qed.

Lemma D_ws w : ws_tok w -> D false anyf w w.
Proof. intro H. apply (D_qt CB), qt_ws, H. Qed.

Lemma D_keyval k p w1 w2 t o :
  key_tok k p -> ws_tok w1 -> ws_tok w2 -> D false qstop t o ->
  D false qstop (k ++ w1 ++ [x3d] ++ w2 ++ t) (k ++ w1 ++ [x3d] ++ w2 ++ o).
Proof.
  intros Hk H1 H2 Ht.
  apply (D_app false qstop qstop); [apply (D_qt CS), (qt_key k p Hk)| |intros r Hr; qs|intros r Hr; qs].
  apply (D_app_any false); [apply D_ws, H1|].
  apply (D_app_any false); [apply D_byte; reflexivity|].
  apply (D_app_any false); [apply D_ws, H2|exact Ht].
Qed.

Theorem D_values :
  (forall t a o, vtext t a o -> D false qstop t o)
  /\ (forall vs l o, avtext vs l o -> D false qstop vs o)
  /\ (forall kvs l o, iktext kvs l o -> D false qstop kvs o).
Proof.
  apply vtext_mutind.
  - (* scalar *) intros t a H. apply (D_qt CS), (qt_scalar t a H).
  - (* [] *) intros w Hw.
    apply (D_app_any false); [apply D_byte; reflexivity|].
    apply (D_app_any false); [apply D_wscn, Hw|apply D_any, D_byte; reflexivity].
  - (* [ values ] *) intros vs l o w _ IH Hw. pose proof (wscn_ncr w Hw) as Hw'.
    apply (D_app_any false); [apply D_byte; reflexivity|].
    apply (D_app false qstop qstop); [exact IH| |intros r Hr; qs|intros r Hr; qs].
    apply (D_app_any false); [apply D_wscn, Hw|apply D_any, D_byte; reflexivity].
  - (* {} *) intros w Hw.
    apply (D_app_any false); [apply D_byte; reflexivity|].
    apply (D_app_any false); [apply D_ws, Hw|apply D_any, D_byte; reflexivity].
  - (* { keyvals } *) intros w1 kvs l o w2 H1 _ IH H2.
    apply (D_app_any false); [apply D_byte; reflexivity|].
    apply (D_app_any false); [apply D_ws, H1|].
    apply (D_app false qstop qstop); [exact IH| |intros r Hr; qs|intros r Hr; qs].
    apply (D_app_any false); [apply D_ws, H2|apply D_any, D_byte; reflexivity].
  - (* last array value *) intros w1 t a o w2 c H1 _ IH H2 Hc. pose proof (wscn_ncr w2 H2) as H2'.
    apply (D_app_any false); [apply D_wscn, H1|].
    apply (D_app false qstop qstop); [exact IH| |intros r Hr; destruct Hc as [-> | ->]; qs|intros r Hr; destruct Hc as [-> | ->]; qs].
    destruct Hc as [-> | ->].
    + apply (D_app_any false); [apply D_wscn, H2|apply D_nil].
    + apply (D_app_any false); [apply D_wscn, H2|apply D_any, D_byte; reflexivity].
  - (* array value, more *) intros w1 t a o w2 u l ou H1 _ IH H2 _ IHu. pose proof (wscn_ncr w2 H2) as H2'.
    apply (D_app_any false); [apply D_wscn, H1|].
    apply (D_app false qstop qstop); [exact IH| |intros r Hr; qs|intros r Hr; qs].
    apply (D_app_any false); [apply D_wscn, H2|].
    apply (D_app_any false); [apply D_byte; reflexivity|exact IHu].
  - (* last keyval *) intros k p w1 w2 t a o Hk H1 H2 _ IH. apply (D_keyval k p); assumption.
  - (* keyval, more *) intros k p w1 w2 t a o w3 w4 u l ou Hk H1 H2 _ IH H3 H4 _ IHu.
    assert (E : forall x y, k ++ w1 ++ [x3d] ++ w2 ++ x ++ w3 ++ [x2c] ++ w4 ++ y
                          = (k ++ w1 ++ [x3d] ++ w2 ++ x) ++ w3 ++ [x2c] ++ w4 ++ y)
      by (intros x y; rewrite <- !app_assoc; reflexivity).
    rewrite !E.
    apply (D_app false qstop qstop); [apply (D_keyval k p); assumption| |intros r Hr; qs|intros r Hr; qs].
    apply (D_app_any false); [apply D_ws, H3|].
    apply (D_app_any false); [apply D_byte; reflexivity|].
    apply (D_app_any false); [apply D_ws, H4|exact IHu].
Qed.

Lemma D_vtext t a o : vtext t a o -> D false qstop t o.
Proof. apply (proj1 D_values). Qed.

(* ---- items and lines ------------------------------------------------------------------------------------------------ *)
Lemma D_open ec F t o : D ec F t o -> D true F t o.
Proof. intros (cs & A & B). exists cs. split; apply (cjx_open ec); assumption. Qed.

Lemma D_opt_comment c : opt_comment c -> D true lendf c c.
Proof. intro H. destruct (cjx_opt_comment c H) as (cs & Hcs & _). exists cs. auto. Qed.

Lemma D_item_end t o w c : D false qstop t o -> ws_tok w -> opt_comment c -> D true lendf (t ++ w ++ c) (o ++ w ++ c).
Proof.
  intros Ht Hw Hc. apply (D_app true qstop lendf); [exact Ht| |intros r Hr; qs|intros r Hr; qs].
  apply (D_app_any true); [apply D_ws, Hw|apply D_opt_comment, Hc].
Qed.

Theorem D_item e l o : item_text e l o -> D true lendf e o.
Proof.
  intros [|c Hc|k p w1 w2 t a o0 w c Hk H1 H2 Hv Hw Hc|t p w c Ht Hw Hc|t p w c Ht Hw Hc].
  - apply (D_open false), D_nil.
  - apply D_opt_comment. right. exact Hc.
  - apply D_item_end; [|exact Hw|exact Hc]. apply (D_keyval k p); [assumption..|apply (D_vtext t a o0 Hv)].
  - apply D_item_end; [apply (D_qt CS), (qt_std_table t p Ht)|exact Hw|exact Hc].
  - apply D_item_end; [apply (D_qt CS), (qt_array_table t p Ht)|exact Hw|exact Hc].
Qed.

Lemma lendf_nil : lendf [].
Proof. left. reflexivity. Qed.

(* the normal form of a document has the comments of the document *)
Theorem lines_cmts t l o : lines_text t l o -> forall w, ws_tok w -> cmts (w ++ t) = cmts (w ++ o).
Proof.
  induction 1 as [|w0 e l o Hw0 He|w0 e l o nl w' t l' o' Hw0 He Hn Hw' _ IH]; intros w Hw; [reflexivity| |].
  - destruct (D_item e l o He) as (cs & A & B).
    assert (At : cjx true lendf (w ++ w0 ++ e) ([] ++ [] ++ cs)) by (apply cjx_app_any; [apply cj_ws, Hw|apply cjx_app_any; [apply cj_ws, Hw0|exact A]]).
    rewrite (cjx_cmts true lendf _ _ At lendf_nil). symmetry. destruct l as [|x l]; cbn [stmt_lf].
    + rewrite app_nil_r.
      assert (Ao : cjx true lendf (w ++ w0 ++ o) ([] ++ [] ++ cs)) by (apply cjx_app_any; [apply cj_ws, Hw|apply cjx_app_any; [apply cj_ws, Hw0|exact B]]).
      apply (cjx_cmts true lendf _ _ Ao lendf_nil).
    + assert (Ao : cj anyf (w ++ w0 ++ o ++ [x0a]) ([] ++ [] ++ cs))
        by (apply cjx_app_any; [apply cj_ws, Hw|apply cjx_app_any; [apply cj_ws, Hw0|apply cjx_nl; [exact B|apply lf_newline]]]).
      apply (cjx_cmts false anyf _ _ Ao I).
  - destruct (D_item e l o He) as (cs & A & B).
    assert (At : cj anyf (w ++ w0 ++ e ++ nl) ([] ++ [] ++ cs))
      by (apply cjx_app_any; [apply cj_ws, Hw|apply cjx_app_any; [apply cj_ws, Hw0|apply cjx_nl; assumption]]).
    assert (Ao : cj anyf (w ++ w0 ++ o ++ [x0a]) ([] ++ [] ++ cs))
      by (apply cjx_app_any; [apply cj_ws, Hw|apply cjx_app_any; [apply cj_ws, Hw0|apply cjx_nl; [exact B|apply lf_newline]]]).
    replace (w ++ w0 ++ e ++ nl ++ w' ++ t) with ((w ++ w0 ++ e ++ nl) ++ w' ++ t) by (rewrite <- !app_assoc; reflexivity).
    replace (w ++ w0 ++ o ++ [x0a] ++ w' ++ o') with ((w ++ w0 ++ o ++ [x0a]) ++ w' ++ o') by (rewrite <- !app_assoc; reflexivity).
    rewrite (cj_cmts anyf _ _ _ At I), (cj_cmts anyf _ _ _ Ao I), (IH w' Hw'). reflexivity.
Qed.

(* C03: normalising a document keeps its comments *)
Theorem normalize_cmts s w t l o : drop_bom s = w ++ t -> ws_tok w -> lines_text t l o -> comments s = cmts (normalize s).
Proof.
  intros Es Hw Hl. rewrite (norm_lines s w t l o Es Hw Hl), comments_cmts, Es. apply (lines_cmts t l o Hl w Hw).
Qed.

(* ---- the parts of a line around its key path (for Proofs/PrintBackD*.v) ---------------------------------------------- *)
Lemma cj_trail w c : ws_tok w -> opt_comment c ->
  exists ct, cj anyf ((w ++ c) ++ [x0a]) ct /\ forall r, qstop (((w ++ c) ++ [x0a]) ++ r).
Proof.
  intros Hw Hc. destruct (cjx_opt_comment c Hc) as (cs & Hcs & _). exists ([] ++ cs). split.
  - apply cjx_nl; [|apply lf_newline]. apply cjx_app_any; [apply cj_ws, Hw|exact Hcs].
  - intro r. pose proof lf_newline as Hn. assert (Hl : lendf ([x0a] ++ r)) by (apply lendf_newline, Hn). qs.
Qed.

Lemma cj_kv_rest w1 w2 t a o w c : ws_tok w1 -> ws_tok w2 -> vtext t a o -> ws_tok w -> opt_comment c ->
  exists ct, cj anyf ((w1 ++ [x3d] ++ w2 ++ o ++ w ++ c) ++ [x0a]) ct /\ forall r, qstop (((w1 ++ [x3d] ++ w2 ++ o ++ w ++ c) ++ [x0a]) ++ r).
Proof.
  intros H1 H2 Hv Hw Hc. destruct (D_vtext t a o Hv) as (cv & _ & Bo). destruct (cjx_opt_comment c Hc) as (cs & Hcs & _).
  exists ([] ++ [] ++ [] ++ cv ++ [] ++ cs). split.
  - apply cjx_nl; [|apply lf_newline].
    apply cjx_app_any; [apply cj_ws, H1|]. apply cjx_app_any; [apply (cj_qt CS), qt_byte; reflexivity|]. apply cjx_app_any; [apply cj_ws, H2|].
    apply (cjx_app true qstop lendf); [exact Bo| |intros r Hr; qs]. apply cjx_app_any; [apply cj_ws, Hw|exact Hcs].
  - intro r. qs.
Qed.

(* pending lines: a comment line, a blank line *)
Lemma cj_pend_comment p cp c nl w : cj anyf p cp -> comment_tok c -> newline_tok nl -> ws_tok w ->
  cj anyf (p ++ ncr ((c ++ nl) ++ w)) (cp ++ [c] ++ []).
Proof.
  intros Hp Hc Hn Hw. rewrite !ncr_app, (ncr_comment' c (or_intror Hc)), (ncr_newline' nl Hn), (ncr_ws' w Hw).
  apply cjx_app_any; [exact Hp|]. apply cjx_app_any; [|apply cj_ws, Hw]. apply cjx_nl; [apply cjx_comment, Hc|apply lf_newline].
Qed.

Lemma cj_pend_blank p cp nl w : cj anyf p cp -> newline_tok nl -> ws_tok w -> cj anyf (p ++ ncr (nl ++ w)) (cp ++ [] ++ []).
Proof.
  intros Hp Hn Hw. rewrite !ncr_app, (ncr_newline' nl Hn), (ncr_ws' w Hw).
  apply cjx_app_any; [exact Hp|]. apply cjx_app_any; [apply cj_newline, lf_newline|apply cj_ws, Hw].
Qed.

Lemma qt_table arr t p : GrammarDocLine.table_tok arr t p -> qt CS qstop t.
Proof. destruct arr; [apply qt_array_table|apply qt_std_table]. Qed.
