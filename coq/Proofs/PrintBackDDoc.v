(* Proofs/PrintBackDDoc.v — C03, class (d): the parse of a document whose key/value lines may have dotted
   keys.  The invariant of the loop of document.rs: the print items of the tree are, as a multiset, the
   headers and key/value lines read so far, each with its position in the source and its text. *)
From TV Require Import Base.Prelude Base.Utf8 Base.Winnow Gen.Consts Spec.Abnf Spec.Lex Spec.Defs Spec.Syntax Spec.Norm.
From TV Require Import Model.Trivia Model.Strings Model.Datetime Model.Numbers Model.Tree Model.Parse Model.Document Model.Write Model.Encode.
From TV Require Import Proofs.ConstsOk Proofs.NoPanicBase Proofs.NoPanicLex Proofs.NoPanicValue.
From TV Require Import Proofs.LexEquivBase Proofs.LexEquivTrivia Proofs.LexEquivKey Proofs.GrammarSep Proofs.GrammarBase
                       Proofs.GrammarValueBase Proofs.GrammarValueSound Proofs.GrammarDocLine Proofs.GrammarDoc
                       Proofs.TilingDefs Proofs.PrintBackBase Proofs.PrintBackEnc Proofs.PrintBackKey Proofs.PrintBackValue Proofs.PrintBackDoc
                       Proofs.PrintBackSort Proofs.PrintBackEnts Proofs.PrintBackDisplay Proofs.PrintBackSecs Proofs.PrintBackState
                       Proofs.PrintBackHKey Proofs.PrintBackFinal Proofs.PrintBackSecDoc
                       Proofs.PrintBackDVals Proofs.PrintBackDAll Proofs.PrintBackDState Proofs.PrintBackDKey Proofs.PrintBackIValue Proofs.PrintBackDItems.
From TV Require Import Proofs.TilingNormScan Proofs.TilingNormStr Proofs.TilingNormTok Proofs.TilingCmt.
From TV Require Proofs.DefsEquivSim Proofs.GrammarDocComplete.
Require Import Lia ZifyBool ZifyN ZifyNat Sorting.Sorted Sorting.Permutation.

Lemma raw_encode_traw s r x y : raw_encode (traw s r) x = raw_encode (traw s r) y.
Proof. destruct r as [|u|u v]; cbn [traw]; try reflexivity. unfold raw_of_bytes. destruct (slice s u v); reflexivity. Qed.

Section DDoc.
  Variable s : bytes.
  Notation K := (hkey s).

  Lemma splits_pos i t i' : splits i t i' -> pos i' = (pos i + N.of_nat (length t))%N.
  Proof. intros [_ ->]. apply pos_adv. Qed.

  (* ---- one key = value line, any key path ------------------------------------------------------------------------ *)
  Lemma parse_keyval_render_d i x i1 : isrc s i -> parse_keyval i = Ok x i1 ->
    exists path k v j0 ja jb jk w0 pre R w1 w2 t a o w c le r,
      x = (path, (k, IValue v))
      /\ ws_tok w0 /\ ws_tok w1 /\ ws_tok w2 /\ vtext t a o /\ ws_tok w /\ opt_comment c
      /\ key_tok (pre ++ R) (map k_key (path ++ [k]))
      /\ splits i w0 j0 /\ splits i (w0 ++ (((pre ++ R) ++ w1 ++ [x3d] ++ w2 ++ t) ++ w ++ c) ++ le) i1
      /\ lend le (rest i1) /\ isrc s i1 /\ isrc s j0
      /\ rest j0 = (pre ++ R) ++ w1 ++ [x3d] ++ r
      /\ Forall K (path ++ [k])
      /\ k_repr k = Some (raw_with_span (pos ja, pos jb)) /\ pos ja = (pos j0 + N.of_nat (length pre))%N /\ pos ja <> pos jb
      /\ k_leaf k = decor_new (raw_with_span (pos i, pos j0)) (raw_with_span (pos jb, pos jk)) /\ splits jb w1 jk
      /\ isrc s jb /\ (pos ja < pos i1)%N
      /\ pre = pre_text s path k /\ R = krepr s k
      /\ val_fact v
      /\ (vok s v = true -> forall ks P z, pre_text s ks (with_prefix k P) = pre ->
            dline s (ks ++ [with_prefix k P], v) ++ z
            = raw_encode (traw s P) [] ++ (((pre ++ R) ++ w1 ++ [x3d] ++ w2 ++ o) ++ w ++ c) ++ [x0a] ++ z).
  Proof.
    rewrite parse_keyval_unfold. intros Hi H. apply bind_inv in H as (kp & j1 & H1 & H).
    pose proof (key_hkeys s i kp j1 Hi H1) as HK.
    destruct (key_exact s i kp j1 Hi H1) as (path & k & j0 & ja & jb & w0 & pre & R & w1 & Ekp & Hw0 & Hw1 & S0 & Spre & SR & S1 & Erepr & Eleaf).
    destruct (key_render s i kp j1 Hi H1) as (w0r & ktr & w1r & Hw0r & Hktr & Hw1r & Skr & Hj1 & Hkenc).
    destruct (isrc_splits s i w0 j0 Hi S0) as [Hj0 _]. destruct (isrc_splits s j0 pre ja Hj0 Spre) as [Hja _].
    destruct (isrc_splits s ja R jb Hja SR) as [Hjb _].
    (* the texts of the last key *)
    assert (EkR : krepr s k = R).
    { unfold krepr, key_display_repr. rewrite tkey_fields. cbn [k_repr]. rewrite Erepr. cbn [toraw]. rewrite (span_repr' s ja R jb Hja SR). reflexivity. }
    assert (ELP : forall d, decor_prefix (k_leaf (tkey s k)) d = w0).
    { intro d. rewrite tkey_fields. unfold decor_prefix, tdecor. cbn [k_leaf]. rewrite Eleaf. cbn [decor_new d_prefix toraw].
      rewrite (span_prints s i w0 j0 d Hi S0). apply ncr_ws, Hw0. }
    assert (ELS : forall d, decor_suffix (k_leaf (tkey s k)) d = w1).
    { intro d. rewrite tkey_fields. unfold decor_suffix, tdecor. cbn [k_leaf]. rewrite Eleaf. cbn [decor_new d_suffix toraw].
      rewrite (span_prints s jb w1 j1 d Hjb S1). apply ncr_ws, Hw1. }
    assert (Epre : pre_text s path k = pre).
    { pose proof (Hkenc DEFAULT_KEY_DECOR) as E1. rewrite Ekp, enc_split, ELP, ELS, EkR in E1.
      pose proof (splits_trans _ _ _ _ _ S0 (splits_trans _ _ _ _ _ Spre (splits_trans _ _ _ _ _ SR S1))) as [Ra _]. destruct Skr as [Rb _].
      rewrite Ra in Rb. apply app_inv_tail in Rb. rewrite <- Rb in E1. apply app_inv_head in E1. rewrite !app_assoc in E1.
      apply app_inv_tail in E1. apply app_inv_tail in E1. exact E1. }
    assert (HKk : Forall K path /\ lkey s k).
    { rewrite Ekp in HK. apply Forall_app in HK as [H1' H2']. inversion H2'; subst. split; [assumption|apply hkey_lkey; assumption]. }
    destruct HKk as [HKp HKk].
    assert (Hkt : key_tok (pre ++ R) (map k_key (path ++ [k]))).
    { destruct (pre_shape s path k HKp HKk) as (tt & Htt & Ett). rewrite Epre, EkR in Ett. rewrite Ett. exact Htt. }
    (* the rest of the line *)
    apply bind_inv in H as ([[prev v] suf] & j2 & H2 & H).
    apply cut_err_inv in H2. apply bind_inv in H2 as (y & k1 & E1 & H2). apply context_inv, byte_inv in E1 as [_ Se].
    destruct (isrc_splits s j1 [x3d] k1 Hj1 Se) as [Hk1 _].
    apply bind_inv in H2 as (pre' & k2 & E2 & H2). pose proof E2 as E2'. apply span_inv in E2' as (u2 & _ & Epre').
    apply span_ws_inv in E2 as (w2 & Hw2 & S2 & _). destruct (isrc_splits s k1 w2 k2 Hk1 S2) as [Hk2 _].
    apply bind_inv in H2 as (v' & k3 & E3 & H2). destruct (value_renderK s k2 v' k3 Hk2 E3) as (t & a & o & Ht & S3 & Hk3 & Hv & _).
    apply bind_inv in H2 as (suf' & k4 & E4 & H2). apply context_inv in E4. rewrite line_trailing_unfold in E4.
    apply bind_inv in E4 as (sp & m1 & F1 & E4). pose proof F1 as F1'. apply span_inv in F1' as (u4 & _ & Esp).
    apply span_inv in F1 as (oc & F1 & _). apply bind_inv in F1 as (w & n1 & Fw & F1). apply ws_sound in Fw as (Hw & Sw & _).
    apply bind_inv in E4 as (u5 & m2 & F2 & E4). apply line_ending_sound in F2 as (le & Sle & Hl). apply ret_inv in E4 as [-> ->].
    assert (Hc : exists c, opt_comment c /\ splits n1 c m1).
    { apply opt_inv in F1 as [(x0 & -> & F1) | (-> & -> & _)].
      - apply comment_sound in F1 as (c & Hc & Sc & _). exists c. split; [right; exact Hc|exact Sc].
      - exists []. split; [left; reflexivity|apply splits_nil]. }
    destruct Hc as (c & Hc & Sc). pose proof (splits_trans _ _ _ _ _ Sw Sc) as Swc.
    destruct (isrc_splits s k3 (w ++ c) m1 Hk3 Swc) as [Hm1 _]. destruct (isrc_splits s m1 le m2 Hm1 Sle) as [Hm2 _].
    apply ret_inv in H2 as [E ->]. injection E as -> -> ->.
    rewrite Ekp, DefsEquivSim.pop_key_app in H. apply ret_inv in H as [-> ->].
    exists path, k, (value_decorate v' (raw_with_span pre') (raw_with_span sp)), j0, ja, jb, j1, w0, pre, R, w1, w2, t, a, o, w, c, le.
    pose proof Se as Se'. destruct Se' as [Re _]. eexists. split; [reflexivity|].
    repeat (split; [assumption|]).
    split.
    { pose proof (splits_trans _ _ _ _ _ S0 (splits_trans _ _ _ _ _ Spre (splits_trans _ _ _ _ _ SR (splits_trans _ _ _ _ _ S1
                   (splits_trans _ _ _ _ _ Se (splits_trans _ _ _ _ _ S2 (splits_trans _ _ _ _ _ S3 (splits_trans _ _ _ _ _ Swc Sle)))))))) as S.
      rewrite <- !app_assoc in *. exact S. }
    split; [exact Hl|]. split; [exact Hm2|]. split; [exact Hj0|]. split.
    { pose proof (splits_trans _ _ _ _ _ Spre (splits_trans _ _ _ _ _ SR S1)) as [Rq _]. rewrite Rq, Re, <- !app_assoc. reflexivity. }
    split; [rewrite <- Ekp; exact HK|]. split; [exact Erepr|].
    split; [destruct Spre as [_ ->]; rewrite pos_adv; reflexivity|].
    split.
    { destruct SR as [RR ->]. rewrite pos_adv. destruct (pre_shape s path k HKp HKk) as (tt & Htt & Ett).
      assert (Hne : R <> []).
      { pose proof (krepr_tok s k HKk) as Hs. rewrite EkR in Hs. destruct (simple_key_khead _ _ Hs) as (b & t' & -> & _). discriminate. }
      destruct R; [congruence|]. cbn [length]. lia. }
    split; [exact Eleaf|]. split; [exact S1|]. split; [exact Hjb|].
    split.
    { pose proof (splits_pos _ _ _ SR) as P1. pose proof (splits_pos _ _ _ S1) as P2. pose proof (splits_pos _ _ _ Se) as P3.
      pose proof (splits_pos _ _ _ S2) as P4. pose proof (splits_pos _ _ _ S3) as P5. pose proof (splits_pos _ _ _ Swc) as P6.
      pose proof (splits_pos _ _ _ Sle) as P7. cbn [length] in P3. lia. }
    split; [symmetry; exact Epre|]. split; [symmetry; exact EkR|].
    split.
    { destruct (GrammarValueSound.value_sound k2 v' k3 E3) as (tv0 & av0 & Htv0 & _ & (Hv1 & Hv2 & _ & Hv4 & _)).
      exists tv0, av0. rewrite absv_decorate, vwf_decorate. auto. }
    intros Hs ks P z Eks. rewrite vok_decorate in Hs. unfold dline. cbn [fst snd].
    rewrite enc_split. unfold with_prefix.
    assert (E1 : decor_prefix (k_leaf (tkey s (set_leaf k (mkDecor (Some P) (d_suffix (k_leaf k)))))) (fst DEFAULT_KEY_DECOR) = raw_encode (traw s P) []).
    { rewrite tkey_fields. unfold decor_prefix, tdecor. cbn [set_leaf k_leaf d_prefix toraw]. apply raw_encode_traw. }
    assert (E2' : decor_suffix (k_leaf (tkey s (set_leaf k (mkDecor (Some P) (d_suffix (k_leaf k)))))) (snd DEFAULT_KEY_DECOR) = w1).
    { rewrite <- (ELS (snd DEFAULT_KEY_DECOR)). rewrite !tkey_fields. unfold decor_suffix, tdecor. cbn [set_leaf k_leaf d_suffix]. reflexivity. }
    assert (E3' : krepr s (set_leaf k (mkDecor (Some P) (d_suffix (k_leaf k)))) = R) by (rewrite <- EkR; reflexivity).
    rewrite E1, E2', E3'. unfold with_prefix in Eks. rewrite Eks.
    subst pre' sp.
    rewrite (vrendK_decorated s v' o k1 w2 k2 k3 (w ++ c) m1 Hv Hk1 S2 Hk3 Swc Hs _ DEFAULT_VALUE_DECOR (Nat.lt_succ_diag_r _)).
    rewrite (ncr_ws w2 Hw2), ncr_app, (ncr_ws w Hw), (ncr_opt_comment c Hc).
    repeat first [rewrite <- app_assoc | progress cbn [app]]. reflexivity.
  Qed.

  (* ---- the invariant ------------------------------------------------------------------------------------------------ *)
  Definition at_start (i0 : input) : Prop := rest i0 = [] \/ lstart s (N.to_nat (pos i0)).
  (* the pending text is made of complete lines and blanks (unless the document ends in it) *)
  Definition pend_ok (i : input) (pend : bytes) : Prop := rest i = [] \/ exists cp, cj anyf (ncr pend) cp.

  Definition dinv0 (st : pstate) (i : input) (out : bytes) (i0 : input) (pend : bytes) : Prop :=
    exists items : list sitem,
      uk2 K (st_root st) /\ uk2 K (st_current st) /\ t_dotted (st_current st) = false /\ t_implicit (st_current st) = false /\
      (match pop_key (st_path st) with
       | None => st_root st = tbl_new /\ t_decor (st_current st) = decor_default /\ t_position (st_current st) = None
                 /\ Permutation (ALLI (t_items (st_current st))) (map fst items)
       | Some (ppath, k) =>
         K k /\ Forall K ppath
         /\ (st_is_array st = false -> exists par, reach (st_root st) ppath = Some par /\ kv_get (t_items par) (k_key k) = None)
         /\ t_dotted (st_root st) = false /\ t_decor (st_root st) = decor_default /\ t_position (st_root st) = None
         /\ Permutation (ALLI (t_items (st_root st)) ++ ALL (st_current st) (st_is_array st)) (map fst items)
       end) /\
      Forall (sitem_ok s) items /\ StronglySorted N.lt (map (fun it : sitem => ppos (fst it)) items)
      /\ Forall (fun it : sitem => (ppos (fst it) < pos i0)%N) items
      /\ out = concat (map snd items)
      /\ st_trailing st = Some (pos i0, pos i) /\ isrc s i0 /\ splits i0 pend i /\ at_start i0
      /\ Forall (sitem_cj s) items.

  Definition dinv (st : pstate) (i : input) (out : bytes) (i0 : input) (pend : bytes) : Prop :=
    dinv0 st i out i0 pend /\ pend_ok i pend.

  Lemma dinv_on_ws st i out i0 pend w i1 :
    dinv0 st i out i0 pend -> splits i w i1 -> dinv0 (on_ws st (pos i, pos i1)) i1 out i0 (pend ++ w).
  Proof.
    intros (items & H1 & H2 & H3 & H4 & H5 & H6 & H7 & H8 & H9 & Ht & Hi0 & Sp & Hst & Hcj) Sw. exists items.
    unfold on_ws. cbn [st_root st_path st_current st_trailing st_position st_is_array]. rewrite Ht. cbn [fst snd].
    repeat (split; [assumption|]). split; [reflexivity|]. split; [exact Hi0|]. split; [exact (splits_trans _ _ _ _ _ Sp Sw)|]. auto.
  Qed.

  Lemma dinv_trivia st i out i0 pend x j w i1 :
    dinv st i out i0 pend -> splits i x j -> splits j w i1 -> pend_ok i1 (pend ++ x ++ w) ->
    dinv (on_ws (on_ws st (pos i, pos j)) (pos j, pos i1)) i1 out i0 (pend ++ x ++ w).
  Proof.
    intros [HI _] Sx Sw Hpo. split; [|exact Hpo]. rewrite app_assoc. apply dinv_on_ws; [|exact Sw]. apply dinv_on_ws; assumption.
  Qed.

  (* ---- key = value -------------------------------------------------------------------------------------------------- *)
  Lemma merged_prefix_eq st i i0 k j0 :
    st_trailing st = Some (pos i0, pos i) -> d_prefix (k_leaf k) = Some (raw_with_span (pos i, pos j0)) -> (pos i <= pos j0)%N ->
    merged_prefix st k = raw_with_span (pos i0, pos j0).
  Proof.
    intros Ht Ek Hle. unfold merged_prefix. rewrite Ht, Ek, raw_span_with_span. cbn [fst snd].
    destruct (pos i =? pos j0)%N eqn:Q; [apply N.eqb_eq in Q; rewrite Q; reflexivity|reflexivity].
  Qed.

  Lemma pre_text_with_prefix ks k P : pre_text s ks (with_prefix k P) = pre_text s ks k.
  Proof.
    assert (Hm : forall r, mid_text s r (with_prefix k P) = mid_text s r k) by (induction r as [|a r IH]; [reflexivity|cbn [mid_text]; rewrite IH; reflexivity]).
    destruct ks as [|a r]; [reflexivity|]. cbn [pre_text]. rewrite Hm. reflexivity.
  Qed.

  Lemma newline_at_start m1 le m2 : isrc s m1 -> splits m1 le m2 -> newline_tok le -> at_start m2.
  Proof.
    intros (p & Es & Ep) [R E] Hn. right. right. rewrite E, pos_adv, Ep.
    destruct Hn as [-> | ->].
    - exists p, (rest m2). split; [rewrite Es, R; reflexivity|]. cbn [length]. lia.
    - exists (p ++ [x0d]), (rest m2). split; [rewrite Es, R, <- !app_assoc; reflexivity|]. rewrite app_length. cbn [length]. lia.
  Qed.

  Lemma dinv_keyval st i out i0 pend path k v st0 j0 ja jb jk w0 pre R w1 r body j1 w i1 :
    dinv st i out i0 pend -> on_keyval_sp st path k (IValue v) = COk st0 ->
    isrc s j0 -> splits i w0 j0 -> ws_tok w0 -> ws_tok w1 ->
    rest j0 = (pre ++ R) ++ w1 ++ [x3d] ++ r -> Forall K (path ++ [k]) ->
    k_repr k = Some (raw_with_span (pos ja, pos jb)) -> pos ja = (pos j0 + N.of_nat (length pre))%N -> pos ja <> pos jb ->
    k_leaf k = decor_new (raw_with_span (pos i, pos j0)) (raw_with_span (pos jb, pos jk)) -> splits jb w1 jk -> isrc s jb ->
    pre = pre_text s path k -> R = krepr s k ->
    (vok s v = true -> forall ks P z, pre_text s ks (with_prefix k P) = pre ->
       dline s (ks ++ [with_prefix k P], v) ++ z = raw_encode (traw s P) [] ++ body ++ [x0a] ++ z) ->
    isrc s j1 -> (pos ja < pos j1)%N -> at_start j1 -> splits j1 w i1 ->
    forall B0 ct, body = (pre ++ R) ++ B0 -> cj anyf (B0 ++ [x0a]) ct -> (forall z, qstop ((B0 ++ [x0a]) ++ z)) -> ws_tok w ->
    val_fact v ->
    dinv (on_ws st0 (pos j1, pos i1)) i1 (out ++ ncr pend ++ w0 ++ body ++ [x0a]) j1 w.
  Proof.
    intros [(items & Hur & Huc & Hdot & Himp & Hpath & Hok & Hsort & Hlt & Eout & Ht & Hi0 & Sp & Hst & Hcj) Hpo] Eo Hj0 S0 Hw0 Hw1 Rj HK Erepr Eja Hne Eleaf S1 Hjb Epre ER Hline Hj1 Hlt1 Hst1 Sw B0 ct Ebody HB0 HqB Hw Hvf.
    apply Forall_app in HK as [HKp HKk]. assert (HKk0 : K k) by (inversion HKk; assumption).
    destruct (on_keyval_all K st path k v st0 Eo Huc HKp) as (Er' & Ep' & Eq' & Ea' & Et' & Hfr & Huc' & Hperm).
    set (k' := with_prefix k (merged_prefix st k)) in *.
    assert (Hpos : (pos i0 <= pos i)%N /\ (pos i <= pos j0)%N) by (pose proof (splits_pos _ _ _ Sp); pose proof (splits_pos _ _ _ S0); lia).
    assert (Em : merged_prefix st k = raw_with_span (pos i0, pos j0)).
    { apply (merged_prefix_eq st i i0 k j0 Ht); [rewrite Eleaf; reflexivity|apply Hpos]. }
    assert (HP : raw_encode (traw s (merged_prefix st k)) [] = ncr pend ++ w0).
    { apply (merged_prefix_text s st i i0 pend k j0 w0 Ht Hi0 Sp S0 Hw0). rewrite Eleaf. reflexivity. }
    set (txt := (ncr pend ++ w0) ++ body ++ [x0a]).
    assert (Hitem : sitem_ok s (PL k' v, txt)).
    { cbn [sitem_ok]. exists j0, i0, ja, jb, path, w1, r. split; [exact Hj0|].
      split; [unfold k'; rewrite pre_text_with_prefix, <- Epre; change (krepr s (with_prefix k (merged_prefix st k))) with (krepr s k); rewrite <- ER; exact Rj|].
      split.
      { unfold k', with_prefix. rewrite tkey_fields. unfold decor_suffix, tdecor. cbn [set_leaf k_leaf d_suffix]. rewrite Eleaf. cbn [decor_new d_suffix toraw].
        rewrite (span_prints s jb w1 jk _ Hjb S1). apply ncr_ws, Hw1. }
      split; [exact Hw1|]. split; [exact Erepr|].
      split; [unfold k'; rewrite pre_text_with_prefix, <- Epre; exact Eja|]. split; [exact Hne|].
      split; [unfold k', with_prefix; cbn [set_leaf k_leaf d_prefix]; rewrite Em; reflexivity|].
      split.
      { intro E0. destruct Hst as [Hr | Hl].
        - exfalso. destruct Sp as [Rp _]. destruct S0 as [R0 _]. rewrite Hr in Rp. destruct pend; [|discriminate]. cbn [app] in Rp.
          rewrite <- Rp in R0. destruct w0; [|discriminate]. cbn [app] in R0. rewrite <- R0 in Rj.
          destruct (pre ++ R) eqn:Epr; [|discriminate].
          pose proof (krepr_tok s k (hkey_lkey s k HKk0)) as Hs. rewrite <- ER in Hs. destruct (simple_key_khead _ _ Hs) as (b & t' & -> & _).
          destruct pre; discriminate.
        - rewrite <- E0. exact Hl. }
      split; [exact HKp|]. split.
      { destruct HKk0 as (H1 & _ & H3 & H4 & _). unfold k', with_prefix. split; [exact H1|]. split; [exact H4|exact H3]. }
      intros ks Eks Hv.
      assert (Eks' : pre_text s ks (with_prefix k (merged_prefix st k)) = pre).
      { fold k'. rewrite Eks. unfold k'. rewrite pre_text_with_prefix. symmetry. exact Epre. }
      pose proof (Hline Hv ks (merged_prefix st k) [] Eks') as El.
      rewrite !app_nil_r in El. fold k' in El. rewrite El, HP. unfold txt. rewrite <- !app_assoc. reflexivity. }
    assert (Hppos : ppos (PL k' v) = pos ja) by (apply (ppos_line k' v ja jb); [exact Erepr|exact Hne]).
    assert (Hitemc : sitem_cj s (PL k' v, txt)).
    { cbn [sitem_cj]. split; [exact Hvf|]. intro Hv.
      assert (HR : exists b t', R = b :: t').
      { pose proof (krepr_tok s k (hkey_lkey s k HKk0)) as Hs. rewrite <- ER in Hs. destruct (simple_key_khead _ _ Hs) as (b & t' & -> & _). eauto. }
      assert (Hcp : exists cp, cj anyf (ncr pend) cp).
      { destruct Hpo as [Hr | H]; [|exact H]. exfalso. destruct S0 as [R0 _]. rewrite Hr in R0. destruct w0; [|discriminate]. cbn [app] in R0.
        rewrite <- R0 in Rj. destruct HR as (b & t' & ->). destruct pre; discriminate. }
      destruct Hcp as (cp & Hcp).
      assert (Elead : line_lead s k' = ncr pend ++ w0).
      { unfold line_lead, k', with_prefix. rewrite tkey_fields. unfold decor_prefix, tdecor. cbn [set_leaf k_leaf d_prefix toraw].
        rewrite (raw_encode_traw s _ _ []). exact HP. }
      assert (Hqk : qt CS qstop (pre ++ R)).
      { destruct (pre_shape s path k HKp (hkey_lkey s k HKk0)) as (tt & Htt & Ett). rewrite <- Epre, <- ER in Ett. rewrite Ett. apply (qt_key _ _ Htt). }
      assert (Erest : line_rest s k' v = B0 ++ [x0a]).
      { assert (Eks' : pre_text s path (with_prefix k (merged_prefix st k)) = pre) by (rewrite pre_text_with_prefix; symmetry; exact Epre).
        pose proof (Hline Hv path (merged_prefix st k) [] Eks') as El. rewrite !app_nil_r in El. fold k' in El.
        unfold dline in El. cbn [fst snd] in El. rewrite enc_split in El. fold (line_lead s k') in El. rewrite Elead, <- HP in El.
        fold k' in Eks'. rewrite Eks' in El. change (krepr s k') with (krepr s k) in El. rewrite <- ER, Ebody in El.
        unfold line_rest. rewrite <- !app_assoc in El. do 3 apply app_inv_head in El. rewrite <- ?app_assoc. rewrite <- ?app_assoc in El. exact El. }
      exists (cp ++ []), ct. rewrite Elead, Erest.
      split; [apply cjx_app_any; [exact Hcp|apply cj_ws, Hw0]|]. split; [exact HB0|]. split; [exact HqB|].
      unfold txt. rewrite Ebody. replace (((pre ++ R) ++ B0) ++ [x0a]) with ((pre ++ R) ++ (B0 ++ [x0a])) by (rewrite <- !app_assoc; reflexivity).
      apply cjx_app_any; [apply cjx_app_any; [exact Hcp|apply cj_ws, Hw0]|].
      change ct with ([] ++ ct). apply (cjx_app false qstop anyf); [apply (cj_qt CS), Hqk|exact HB0|intros z _; apply HqB]. }
    split; [|right; exists []; rewrite (ncr_ws w Hw); apply cj_ws, Hw].
    exists (items ++ [(PL k' v, txt)]).
    unfold on_ws. cbn [st_root st_path st_current st_trailing st_position st_is_array]. rewrite Er', Ep', Ea', Et'.
    destruct Hfr as (F1 & F2 & F3 & F4 & F5).
    split; [exact Hur|]. split; [exact Huc'|]. split; [rewrite F3; exact Hdot|]. split; [rewrite F2; exact Himp|]. split.
    { rewrite map_app. cbn [map fst]. destruct (pop_key (st_path st)) as [[ppath k0]|].
      - destruct Hpath as (P1 & P2 & P3 & P4 & P5 & P6 & P7). repeat (split; [assumption|]).
        rewrite ALL_eq, (hframe_hdr _ _ _ (conj F1 (conj F2 (conj F3 (conj F4 F5))))), Hperm, <- P7, ALL_eq. rewrite !app_assoc. reflexivity.
      - destruct Hpath as (P1 & P2 & P3 & P4). split; [exact P1|]. split; [rewrite F1; exact P2|]. split; [rewrite F4; exact P3|].
        rewrite Hperm, P4. reflexivity. }
    split; [apply Forall_app; split; [exact Hok|constructor; [exact Hitem|constructor]]|].
    split.
    { rewrite map_app. cbn [map fst]. apply sorted_snoc; [exact Hsort|]. rewrite Forall_map. eapply Forall_impl; [|exact Hlt].
      intros it Hit. cbn beta in Hit. rewrite Hppos. lia. }
    split.
    { apply Forall_app. split.
      - eapply Forall_impl; [|exact Hlt]. intros it Hit. cbn beta in Hit. lia.
      - constructor; [|constructor]. cbn [fst]. rewrite Hppos. exact Hlt1. }
    split; [rewrite map_app, concat_app; cbn [map concat snd]; rewrite app_nil_r, Eout; unfold txt; rewrite <- !app_assoc; reflexivity|].
    split; [reflexivity|]. split; [exact Hj1|]. split; [exact Sw|]. split; [exact Hst1|].
    apply Forall_app; split; [exact Hcj|constructor; [exact Hitemc|constructor]].
  Qed.

  (* ---- the end of a section ------------------------------------------------------------------------------------------ *)
  Definition dfin (st stf : pstate) (out : bytes) (i i0 : input) (pend : bytes) : Prop :=
    exists items : list sitem,
      stf = DefsEquivSim.finalized st (st_root stf) /\ uk2 K (st_root stf)
      /\ t_dotted (st_root stf) = false /\ t_decor (st_root stf) = decor_default /\ t_position (st_root stf) = None
      /\ Permutation (ALLI (t_items (st_root stf))) (map fst items)
      /\ Forall (sitem_ok s) items /\ StronglySorted N.lt (map (fun it : sitem => ppos (fst it)) items)
      /\ Forall (fun it : sitem => (ppos (fst it) < pos i0)%N) items
      /\ out = concat (map snd items)
      /\ st_trailing st = Some (pos i0, pos i) /\ isrc s i0 /\ splits i0 pend i /\ at_start i0
      /\ Forall (sitem_cj s) items.

  Lemma dinv_finalize st i out i0 pend stf : dinv0 st i out i0 pend -> finalize_table st = COk stf -> dfin st stf out i i0 pend.
  Proof.
    intros (items & Hur & Huc & Hdot & Himp & Hpath & Hok & Hsort & Hlt & Eout & Ht & Hi0 & Sp & Hst & Hcj) Hf. exists items.
    destruct (pop_key (st_path st)) as [[ppath k]|] eqn:Ep.
    - destruct Hpath as (P1 & P2 & P3 & P4 & P5 & P6 & P7).
      destruct (finalize_all K st stf ppath k Ep Hf Hur Huc P1 P2 P3) as (Estf & (F1 & F2 & F3 & F4 & F5) & Hur' & Hperm).
      split; [exact Estf|]. split; [exact Hur'|]. split; [rewrite F3; exact P4|]. split; [rewrite F1; exact P5|]. split; [rewrite F4; exact P6|].
      split; [rewrite Hperm; exact P7|]. repeat (split; [assumption|]). assumption.
    - destruct Hpath as (P1 & P2 & P3 & P4).
      rewrite DefsEquivSim.finalize_table_eq, Ep, P1 in Hf. cbn [tbl_is_empty tbl_new t_items forallb] in Hf. injection Hf as <-.
      cbn [DefsEquivSim.finalized st_root]. split; [reflexivity|]. repeat (split; [assumption|]). assumption.
  Qed.

  (* ---- a header --------------------------------------------------------------------------------------------------------- *)
  Lemma dinv_header arr st i out i0 pend kp j jt Y w c st1 jl w' i1 :
    dinv st i out i0 pend -> isrc s i ->
    on_header arr st kp (pos j, pos jt) (pos i, pos j) = COk st1 ->
    hdr_at s (pos i) arr Y -> Forall K kp -> kp <> [] -> isrc s j -> splits j (w ++ c) jt -> ws_tok w -> opt_comment c ->
    isrc s jl -> (pos i < pos jl)%N -> at_start jl -> splits jl w' i1 ->
    rest i <> [] -> qt CS qstop (hdr_open arr ++ Y ++ hdr_close arr) -> ws_tok w' ->
    dinv (on_ws st1 (pos jl, pos i1)) i1 (out ++ ncr pend ++ (hdr_open arr ++ Y ++ hdr_close arr) ++ (w ++ c) ++ [x0a]) jl w'.
  Proof.
    intros [HI Hpo] Hi Hh Hat HK Hne Hj Swc Hw Hc Hjl Hltl Hstl Sw' Hri HqY Hw'.
    split; [|right; exists []; rewrite (ncr_ws w' Hw'); apply cj_ws, Hw'].
    destruct Hpo as [Hr | (cp & Hcp)]; [congruence|].
    unfold on_header in Hh. destruct kp as [|k0 kp0] eqn:Ekp; [congruence|]. rewrite <- Ekp in *. clear Ekp k0 kp0.
    destruct (finalize_table st) as [stf| |] eqn:Ef; try discriminate.
    destruct (dinv_finalize st i out i0 pend stf HI Ef) as (items & Estf & Hur & Hrd & Hdec & Hpos & Hperm & Hok & Hsort & Hlt & Eout & Htr & Hi0 & Sp & Hst & Hcj).
    unfold take_trailing in Hh. cbv zeta beta iota in Hh.
    set (st2 := mkState (st_root stf) None (st_position stf) (st_current stf) (st_is_array stf) (st_path stf)) in *.
    set (lead := match st_trailing stf with Some sp => raw_with_span sp | None => REmpty end) in *.
    set (trail := raw_with_span (pos j, pos jt)) in *.
    assert (Elead : raw_encode (traw s lead) [] = ncr pend).
    { unfold lead. rewrite Estf. cbn [DefsEquivSim.finalized st_trailing]. rewrite Htr. apply (span_prints s i0 pend i [] Hi0 Sp). }
    assert (Etrail : raw_encode (traw s trail) [] = w ++ c).
    { unfold trail. rewrite (span_prints s j (w ++ c) jt [] Hj Swc), ncr_app, (ncr_ws w Hw), (ncr_opt_comment c Hc). reflexivity. }
    assert (Ecur2 : t_items (st_current st2) = []) by (unfold st2; rewrite Estf; reflexivity).
    destruct (pop_key_total kp Hne) as (ppath & k & Ep). destruct (Forall_pop s kp ppath k Ep HK) as [Hk Hpp].
    set (q := (st_position st2 + 1)%N).
    set (xh := PH (Some (pos i)) (Some q) arr (decor_new lead trail)).
    set (txt := raw_encode (traw s lead) [] ++ (hdr_open arr ++ Y ++ hdr_close arr) ++ raw_encode (traw s trail) [] ++ [x0a]).
    assert (Hitem : sitem_ok s (xh, txt)) by (cbn [sitem_ok]; exists (pos i), q, lead, trail, Y; auto).
    assert (Hpi : (pos i0 <= pos i)%N) by (pose proof (splits_pos _ _ _ Sp); lia).
    assert (Hitemc : sitem_cj s (xh, txt)).
    { cbn [sitem_cj xh]. unfold pre_raw, suf_raw. cbn [decor_new d_prefix d_suffix].
      destruct (cj_trail w c Hw Hc) as (ct & Hct & Hqt). exists cp, ct. rewrite Elead, Etrail.
      split; [exact Hcp|]. split; [exact Hct|]. split; [exact Hqt|]. unfold txt. rewrite Elead, Etrail.
      apply cjx_app_any; [exact Hcp|]. change ct with ([] ++ ct).
      apply (cjx_app false qstop anyf); [apply (cj_qt CS), HqY|exact Hct|intros z _; apply Hqt]. }
    assert (Hcj' : Forall (sitem_cj s) (items ++ [(xh, txt)])) by (apply Forall_app; split; [exact Hcj|constructor; [exact Hitemc|constructor]]).
    exists (items ++ [(xh, txt)]).
    assert (Hcommon : Forall (sitem_ok s) (items ++ [(xh, txt)])
                      /\ StronglySorted N.lt (map (fun it : sitem => ppos (fst it)) (items ++ [(xh, txt)]))
                      /\ Forall (fun it : sitem => (ppos (fst it) < pos jl)%N) (items ++ [(xh, txt)])
                      /\ out ++ ncr pend ++ (hdr_open arr ++ Y ++ hdr_close arr) ++ (w ++ c) ++ [x0a] = concat (map snd (items ++ [(xh, txt)]))).
    { split; [apply Forall_app; split; [exact Hok|constructor; [exact Hitem|constructor]]|]. split.
      - rewrite map_app. cbn [map fst ppos xh]. apply sorted_snoc; [exact Hsort|]. rewrite Forall_map. eapply Forall_impl; [|exact Hlt]. intros it Hit. cbn beta in Hit. lia.
      - split.
        + apply Forall_app. split; [eapply Forall_impl; [|exact Hlt]; intros it Hit; cbn beta in Hit; lia|]. constructor; [cbn [fst ppos xh]; exact Hltl|constructor].
        + rewrite map_app, concat_app. change (concat (map snd [(xh, txt)])) with (txt ++ []). rewrite app_nil_r, Eout. unfold txt. rewrite Elead, Etrail, <- !app_assoc. reflexivity. }
    destruct Hcommon as (C1 & C2 & C3 & C4).
    destruct arr.
    - destruct (start_array_all K st2 kp (decor_new lead trail) (pos i, pos j) st1 ppath k Hh Ep Hur Hpp Hk) as (Est1 & (F1 & F2 & F3 & F4 & F5) & Hur1 & Hperm1).
      change (st_root st2) with (st_root stf) in *.
      rewrite Est1. unfold open_table, on_ws. cbn [st_root st_path st_current st_trailing st_position st_is_array]. rewrite Ep, Ecur2.
      split; [exact Hur1|]. split; [apply uk2_eq; split; constructor|]. split; [reflexivity|]. split; [reflexivity|]. split.
      { split; [exact Hk|]. split; [exact Hpp|]. split; [discriminate|]. split; [rewrite F3; exact Hrd|]. split; [rewrite F1; exact Hdec|]. split; [rewrite F4; exact Hpos|].
        rewrite ALL_eq. unfold hdr, span_start. cbn [t_dotted t_implicit t_span t_position t_decor t_items negb andb orb fst ALLI flat_map].
        rewrite app_nil_r, map_app, Hperm1, Hperm. reflexivity. }
      split; [exact C1|]. split; [exact C2|]. split; [exact C3|]. split; [exact C4|]. auto.
    - destruct (start_table_all K st2 kp (decor_new lead trail) (pos i, pos j) st1 ppath k Hh Ep Hur Hpp Ecur2)
        as (T0 & Est1 & HuT & HnT & (F1 & F2 & F3 & F4 & F5) & Hur1 & Hperm1 & Habs).
      change (st_root st2) with (st_root stf) in *.
      rewrite Est1. unfold open_table, on_ws. cbn [st_root st_path st_current st_trailing st_position st_is_array t_items]. rewrite Ep.
      split; [exact Hur1|]. split; [apply uk2_eq; cbn [t_items]; split; assumption|]. split; [reflexivity|]. split; [reflexivity|]. split.
      { split; [exact Hk|]. split; [exact Hpp|]. split; [intros _; exact Habs|]. split; [rewrite F3; exact Hrd|]. split; [rewrite F1; exact Hdec|]. split; [rewrite F4; exact Hpos|].
        rewrite ALL_eq. unfold hdr, span_start. cbn [t_dotted t_implicit t_span t_position t_decor t_items negb andb orb fst].
        rewrite map_app. cbn [map fst]. rewrite <- Hperm, <- Hperm1. fold q. fold xh.
        rewrite <- !app_assoc. apply Permutation_app_head. cbn [app]. apply Permutation_cons_append. }
      split; [exact C1|]. split; [exact C2|]. split; [exact C3|]. split; [exact C4|]. auto.
  Qed.

  (* ---- one iteration of the loop ------------------------------------------------------------------------------------- *)
  Definition step3 (st : pstate) (i : input) (st1 : pstate) (i1 : input) (o : bytes) : Prop :=
    forall out i0 pend, dinv st i out i0 pend ->
      exists out' i0' pend', dinv st1 i1 out' i0' pend' /\ out' ++ ncr pend' = out ++ ncr pend ++ o.

  Lemma lend_at_start m1 le m2 : isrc s m1 -> splits m1 le m2 -> lend le (rest m2) -> at_start m2.
  Proof. intros Hm S [Hn | [-> Hr]]; [apply (newline_at_start m1 le m2 Hm S Hn)|left; exact Hr]. Qed.

  Lemma doc_line_render3 st i st1 i1 : isrc s i -> doc_line st i = Ok st1 i1 ->
    exists w0 e l o le w,
      ws_tok w0 /\ item_text e l o /\ ws_tok w /\ splits i (w0 ++ e ++ le ++ w) i1
      /\ (newline_tok le \/ (le = [] /\ w = [] /\ rest i1 = [])) /\ isrc s i1
      /\ step3 st i st1 i1 (w0 ++ o ++ le_out l le ++ w).
  Proof.
    rewrite doc_line_unfold. intros Hi H. apply bind_inv in H as (b & j & H1 & H). apply peek_inv in H1 as [-> _].
    apply bind_inv in H as (st0 & j1 & H2 & H3). apply parse_ws_exact in H3 as (w & Hw & Sw & ->).
    assert (Hend : forall le, lend le (rest j1) -> newline_tok le \/ (le = [] /\ w = [] /\ rest i1 = [])).
    { intros le [Hn | [-> Hr]]; [left; exact Hn|right]. destruct Sw as [R E]. rewrite Hr in R.
      destruct w; [|discriminate]. cbn [app] in R. auto. }
    unfold line_p in H2.
    destruct (byte_eqb b COMMENT_START_SYMBOL).
    { apply cut_err_inv in H2. unfold parse_comment in H2. apply pmap_inv in H2 as (sp & H2 & ->).
      pose proof H2 as H2'. apply span_inv in H2' as (u0 & _ & ->).
      apply span_inv in H2 as (u & H2 & _). apply bind_inv in H2 as (x & k1 & F1 & F2).
      apply comment_sound in F1 as (c & Hc & S1 & _). apply context_inv, line_ending_sound in F2 as (le & S2 & Hl).
      pose proof (splits_trans _ _ _ _ _ S1 S2) as S12.
      destruct (isrc_splits s i (c ++ le) j1 Hi S12) as [Hj1 _]. destruct (isrc_splits s j1 w i1 Hj1 Sw) as [Hi1 _].
      exists [], c, [], c, le, w. split; [reflexivity|]. split; [apply itx_comment, Hc|]. split; [exact Hw|].
      split; [pose proof (splits_trans _ _ _ _ _ S12 Sw) as S; rewrite <- !app_assoc in S; exact S|].
      split; [apply Hend, Hl|]. split; [exact Hi1|].
      intros out i0 pend HI. exists out, i0, (pend ++ (c ++ le) ++ w). split.
      { apply dinv_trivia; try assumption. destruct HI as [_ [Hr | (cp & Hcp)]].
        - exfalso. destruct S1 as [R1 _]. rewrite Hr in R1. destruct Hc as (uc & -> & _). discriminate.
        - destruct Hl as [Hn | [-> Hr]].
          + right. eexists. rewrite ncr_app. apply (cj_pend_comment _ cp c le w Hcp Hc Hn Hw).
          + left. destruct Sw as [R _]. rewrite Hr in R. destruct w; [|discriminate]. destruct (Hend [] (or_intror (conj eq_refl Hr))) as [[H | H] | (_ & _ & H)]; [discriminate..|exact H]. }
      rewrite !ncr_app, (ncr_comment c Hc), (ncr_ws w Hw). cbn [app].
      assert (El : ncr le = le_out [] le) by (destruct Hl as [[-> | ->] | [-> _]]; reflexivity).
      rewrite El, <- !app_assoc. reflexivity. }
    destruct (byte_eqb b STD_TABLE_OPEN).
    { apply cut_err_inv, table_inv in H2 as (arr & H2). rewrite header_unfold in H2.
      apply try_map_inv in H2 as ([[kp sp] tr] & H2 & Hst).
      destruct (header_text_render s arr i kp sp tr j1 Hi H2)
        as (jh & Y & wt & c & jt & le & -> & Sh & Hat & HK & Hne & Htok & Hwt & Hc & Swc & -> & Hjh & Sle & Hl & Hj1).
      destruct (isrc_splits s j1 w i1 Hj1 Sw) as [Hi1 _]. destruct (isrc_splits s jh (wt ++ c) jt Hjh Swc) as [Hjt _].
      exists [], ((hdr_open arr ++ Y ++ hdr_close arr) ++ wt ++ c), [if arr then SArrHeader (map k_key kp) else SHeader (map k_key kp)],
             ((hdr_open arr ++ Y ++ hdr_close arr) ++ wt ++ c), le, w.
      split; [reflexivity|]. split; [apply header_item_text; assumption|]. split; [exact Hw|].
      split; [pose proof (splits_trans _ _ _ _ _ Sh (splits_trans _ _ _ _ _ Swc (splits_trans _ _ _ _ _ Sle Sw))) as S; cbn [app]; rewrite <- ?app_assoc; rewrite <- ?app_assoc in S; exact S|].
      split; [apply Hend, Hl|]. split; [exact Hi1|].
      intros out i0 pend HI.
      destruct (on_header arr st kp (pos jh, pos jt) (pos i, pos jh)) as [st'| |] eqn:Eo; try discriminate. cbn [lift_state] in Hst. injection Hst as <-.
      assert (Hlt : (pos i < pos j1)%N).
      { pose proof (splits_pos _ _ _ Sh) as P1. pose proof (splits_pos _ _ _ Swc) as P2. pose proof (splits_pos _ _ _ Sle) as P3.
        rewrite app_length in P1. assert (0 < length (hdr_open arr)) by (destruct arr; cbn; lia). lia. }
      eexists _, j1, w. split.
      { apply (dinv_header arr st i out i0 pend kp jh jt Y wt c st' j1 w i1); try assumption.
        - apply (lend_at_start jt le j1 Hjt Sle Hl).
        - destruct Sh as [Rh _]. rewrite Rh. destruct arr; discriminate.
        - apply (qt_table arr _ _ Htok). }
      rewrite (ncr_ws w Hw).
      assert (El : le_out [if arr then SArrHeader (map k_key kp) else SHeader (map k_key kp)] le = [x0a])
        by (destruct arr; destruct Hl as [[-> | ->] | [-> _]]; reflexivity).
      rewrite El. cbn [app]. rewrite <- !app_assoc. reflexivity. }
    destruct (byte_eqb b LF || byte_eqb b CR).
    { unfold parse_newline in H2. apply pmap_inv in H2 as (sp & H2 & ->). pose proof H2 as H2'. apply span_inv in H2' as (u0 & _ & ->).
      apply span_inv in H2 as (u & H2 & _). apply newline_sound in H2 as (nl & Hn & S1).
      destruct (isrc_splits s i nl j1 Hi S1) as [Hj1 _]. destruct (isrc_splits s j1 w i1 Hj1 Sw) as [Hi1 _].
      exists [], [], [], [], nl, w. split; [reflexivity|]. split; [apply itx_blank|]. split; [exact Hw|].
      split; [exact (splits_trans _ _ _ _ _ S1 Sw)|]. split; [left; exact Hn|]. split; [exact Hi1|].
      intros out i0 pend HI. exists out, i0, (pend ++ nl ++ w). split.
      { apply dinv_trivia; try assumption. destruct HI as [_ [Hr | (cp & Hcp)]].
        - exfalso. destruct S1 as [R1 _]. rewrite Hr in R1. destruct Hn as [-> | ->]; discriminate.
        - right. eexists. rewrite ncr_app. apply (cj_pend_blank _ cp nl w Hcp Hn Hw). }
      rewrite !ncr_app, (ncr_newline nl Hn), (ncr_ws w Hw), (newline_le_out [] nl Hn). cbn [app]. rewrite <- ?app_assoc. reflexivity. }
    (* key = value *)
    apply cut_err_inv in H2. unfold keyval in H2. apply try_map_inv in H2 as (x & H2 & Hst).
    destruct (parse_keyval_render_d i x j1 Hi H2)
      as (path & k & v & j0 & ja & jb & jk & w0 & pre & R & w1 & w2 & t & a & o & wt & c & le & r & -> & Hw0 & Hw1 & Hw2 & Ht & Hwt & Hc & Hkt
          & S0 & Sp & Hl & Hj1 & Hj0 & Rj & HK & Erepr & Eja & Hne & Eleaf & S1 & Hjb & Hlt & Epre & ER & Hvf & Hline).
    destruct (isrc_splits s j1 w i1 Hj1 Sw) as [Hi1 _].
    exists w0, (((pre ++ R) ++ w1 ++ [x3d] ++ w2 ++ t) ++ wt ++ c), [SKeyVal (map k_key (path ++ [k])) a], (((pre ++ R) ++ w1 ++ [x3d] ++ w2 ++ o) ++ wt ++ c), le, w.
    split; [exact Hw0|]. split; [apply itx_keyval; assumption|]. split; [exact Hw|].
    split; [pose proof (splits_trans _ _ _ _ _ Sp Sw) as S; rewrite <- !app_assoc in *; exact S|].
    split; [apply Hend, Hl|]. split; [exact Hi1|].
    intros out i0 pend HI.
    destruct (on_keyval_sp st path k (IValue v)) as [st'| |] eqn:Eo; try discriminate. cbn [lift_state] in Hst. injection Hst as <-.
    assert (Hst1 : at_start j1).
    { destruct Hl as [Hn | [-> Hr]]; [|left; exact Hr]. (* the line ending is the last piece read *)
      destruct Sp as [Rp Ep]. right. right. destruct Hi as (p0 & Es0 & Ep0).
      set (body := w0 ++ (((pre ++ R) ++ w1 ++ [x3d] ++ w2 ++ t) ++ wt ++ c)) in *.
      assert (Rp' : rest i = (body ++ le) ++ rest j1) by (unfold body; rewrite Rp, <- !app_assoc; reflexivity).
      assert (Ep' : pos j1 = (pos i + N.of_nat (length (body ++ le)))%N) by (rewrite Ep, pos_adv; unfold body; rewrite <- !app_assoc; reflexivity).
      destruct Hn as [-> | ->].
      - exists (p0 ++ body), (rest j1). split; [rewrite Es0, Rp', <- !app_assoc; reflexivity|]. rewrite Ep', Ep0, !app_length. cbn [length]. lia.
      - exists (p0 ++ body ++ [x0d]), (rest j1). split; [rewrite Es0, Rp', <- !app_assoc; reflexivity|]. rewrite Ep', Ep0, !app_length. cbn [length]. lia. }
    eexists _, j1, w. split.
    - destruct (cj_kv_rest w1 w2 t a o wt c Hw1 Hw2 Ht Hwt Hc) as (ct & Hct & Hqct).
      apply (dinv_keyval st i out i0 pend path k v st' j0 ja jb jk w0 pre R w1 r (((pre ++ R) ++ w1 ++ [x3d] ++ w2 ++ o) ++ wt ++ c) j1 w i1
               HI Eo Hj0 S0 Hw0 Hw1 Rj HK Erepr Eja Hne Eleaf S1 Hjb Epre ER Hline Hj1 Hlt Hst1 Sw (w1 ++ [x3d] ++ w2 ++ o ++ wt ++ c) ct);
        [rewrite <- !app_assoc; reflexivity|exact Hct|exact Hqct|exact Hw|exact Hvf].
    - rewrite (ncr_ws w Hw).
      assert (El : le_out [SKeyVal (map k_key (path ++ [k])) a] le = [x0a]) by (destruct Hl as [[-> | ->] | [-> _]]; reflexivity).
      rewrite El. rewrite <- !app_assoc. reflexivity.
  Qed.

  (* ---- the loop ------------------------------------------------------------------------------------------------------ *)
  Lemma step3_nil st i : step3 st i st i [].
  Proof. intros out i0 pend HI. exists out, i0, pend. split; [exact HI|]. rewrite !app_nil_r. reflexivity. Qed.

  Lemma step3_trans st i st1 i1 st2 i2 o1 o2 : step3 st i st1 i1 o1 -> step3 st1 i1 st2 i2 o2 -> step3 st i st2 i2 (o1 ++ o2).
  Proof.
    intros H1 H2 out i0 pend HI.
    destruct (H1 out i0 pend HI) as (out1 & i01 & pend1 & HI1 & E1).
    destruct (H2 out1 i01 pend1 HI1) as (out2 & i02 & pend2 & HI2 & E2).
    exists out2, i02, pend2. split; [exact HI2|]. rewrite E2, (app_assoc out1), E1, <- !app_assoc. reflexivity.
  Qed.

  Lemma doc_loop_render3 : forall fuel st i st' i', isrc s i -> doc_loop fuel st i = Ok st' i' ->
    exists t l o, splits i t i' /\ lines_text t l o /\ isrc s i' /\ step3 st i st' i' o.
  Proof.
    induction fuel as [|f IH]; intros st i st' i' Hi H; [discriminate|]. cbn [doc_loop] in H.
    destruct (doc_line st i) as [st1 i1|e j|e j|x] eqn:E; try discriminate.
    - destruct (Nat.eqb (length (rest i1)) (length (rest i))); [discriminate|].
      destruct (doc_line_render3 st i st1 i1 Hi E) as (w0 & e & l & o & le & w & Hw0 & He & Hw & Sp & Hle & Hi1 & Hok).
      destruct Hle as [Hn | (-> & -> & R1)].
      + destruct (IH st1 i1 st' i' Hi1 H) as (t & l' & o' & St & Hlt & Hi' & Hok').
        exists ((w0 ++ e ++ le ++ w) ++ t), (l ++ l'), ((w0 ++ o ++ le_out l le ++ w) ++ o').
        split; [exact (splits_trans _ _ _ _ _ Sp St)|]. split; [|split; [exact Hi'|exact (step3_trans _ _ _ _ _ _ _ _ Hok Hok')]].
        rewrite (newline_le_out l le Hn).
        replace ((w0 ++ e ++ le ++ w) ++ t) with (w0 ++ e ++ le ++ w ++ t) by (rewrite <- !app_assoc; reflexivity).
        replace ((w0 ++ o ++ [x0a] ++ w) ++ o') with (w0 ++ o ++ [x0a] ++ w ++ o') by (rewrite <- !app_assoc; reflexivity).
        apply ltx_cons; assumption.
      + destruct (doc_loop_at_end f st1 i1 st' i' R1 H) as [-> ->].
        exists (w0 ++ e), l, (w0 ++ o ++ stmt_lf l). rewrite !app_nil_r in Sp. split; [exact Sp|]. split; [apply ltx_last; assumption|].
        split; [exact Hi1|]. cbn [le_out] in Hok. rewrite app_nil_r in Hok. exact Hok.
    - injection H as <- <-. exists [], [], []. split; [apply splits_nil|]. split; [apply ltx_nil|]. split; [exact Hi|apply step3_nil].
  Qed.
End DDoc.
