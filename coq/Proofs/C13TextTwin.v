(* Proofs/C13TextTwin.v — C13 at the level of text, the routes through toml::Value / toml::Table on serialized text:
   the tree a text parses to equals the tree the serializer wrote only up to the order of table entries and the payload
   of NaNs (Props/C07text.v tv_equiv).  toml::Value's visitor sorts tables, so the order is gone after `to_toml_value`;
   what remains is the payload of NaNs (`feq`), which `tv_de` does not see (`sval_eq`). *)
From TV Require Import Base.Prelude Model.Datetime Model.DatetimeStd Model.SerNum Spec.SerdeData Model.Ser Model.De Model.SerdeRoutes.
From TV Require Import Proofs.SerdeRTFmt Proofs.SerdeRTBase Proofs.SerdeRTBTree Proofs.RoutesConv Proofs.RoutesTwins Proofs.RoutesTop Proofs.RoutesDecode Proofs.SerDocDe.
From Coq Require Import Permutation Sorted.
Require Import Lia.

(* ---- sval_eq is transitive ------------------------------------------------------------------------------------ *)
Lemma f32_eq_trans a b c : f32_eq a b -> f32_eq b c -> f32_eq a c.
Proof. intros [-> | [H1 H2]] [-> | [H3 H4]]; [left; reflexivity|right; auto|right; auto|right; auto]. Qed.

Lemma Forall2_trans_l {A} (R : A -> A -> Prop) l :
  Forall (fun x => forall y z, R x y -> R y z -> R x z) l -> forall m r, Forall2 R l m -> Forall2 R m r -> Forall2 R l r.
Proof.
  induction 1 as [|x l Hx _ IH]; intros m r F1 F2; inversion F1; subst; inversion F2; subst; constructor; eauto.
Qed.

Definition pair_eq (p q : sval * sval) : Prop := sval_eq (fst p) (fst q) /\ sval_eq (snd p) (snd q).

Theorem sval_eq_trans : forall a y0 z0, sval_eq a y0 -> sval_eq y0 z0 -> sval_eq a z0.
Proof.
  induction a using sval_ind2; intros y0 z0 H1 H2; inversion H1; subst; inversion H2; subst; try (constructor; fail).
  - constructor. eapply f64_eq_trans; eassumption.
  - constructor. eapply f32_eq_trans; eassumption.
  - constructor. eapply IHa; eassumption.
  - constructor. eapply (Forall2_trans_l sval_eq vs); eassumption.
  - (* maps *)
    rename H3 into P1, H4 into F1, H5 into P2, H6 into F2.
    destruct (Forall2_perm_l _ _ _ P1 _ F2) as (gs2 & P3 & F3).
    eapply eq_map; [eapply Permutation_trans; [exact P2|exact P3]|].
    apply (Forall2_trans_l pair_eq es) with (m := fs'); [|exact F1|exact F3].
    eapply Forall_impl; [|exact H]. intros [k v] [Hk Hv] [k1 v1] [k2 v2] [A1 A2] [B1 B2]. cbn [fst snd] in *.
    split; [eapply Hk; eassumption|eapply Hv; eassumption].
  - constructor. eapply (Forall2_trans_l sval_eq vs); eassumption.
  - constructor. eapply IHa; eassumption.
  - constructor. eapply IHa; eassumption.
Qed.

(* ---- the same tree up to the payload of NaNs ------------------------------------------------------------------- *)
Inductive feq : tomlval -> tomlval -> Prop :=
| fq_str s : feq (VStr s) (VStr s)
| fq_int z : feq (VInt z) (VInt z)
| fq_float a b : f64_eq a b -> feq (VFloat a) (VFloat b)
| fq_bool b : feq (VBool b) (VBool b)
| fq_dt d : feq (VDatetime d) (VDatetime d)
| fq_arr xs ys : Forall2 feq xs ys -> feq (VArr xs) (VArr ys)
| fq_tab es fs : Forall2 (fun p q => fst p = fst q /\ feq (snd p) (snd q)) es fs -> feq (VTab es) (VTab fs).
Definition efeq (p q : bytes * tomlval) : Prop := fst p = fst q /\ feq (snd p) (snd q).

Lemma efeq_keys es fs : Forall2 efeq es fs -> map fst es = map fst fs.
Proof. induction 1 as [|p q l l' [H _] _ IH]; [reflexivity|]. cbn [map]. rewrite H, IH. reflexivity. Qed.

Lemma tab_get_feq k es fs : Forall2 efeq es fs ->
  match tab_get k es with
  | Some x => exists x', tab_get k fs = Some x' /\ feq x x'
  | None => tab_get k fs = None
  end.
Proof.
  induction 1 as [|[k1 x1] [k2 x2] l l' [Hk Hx] _ IH]; [reflexivity|]. cbn [fst snd] in *. subst k2. cbn [tab_get].
  destruct (bytes_eqb k1 k); [eauto|exact IH].
Qed.

Section Congruence.
  Variable de : ty -> tomlval -> result sval.
  Definition Pde (t : ty) : Prop := forall y y' v, feq y y' -> de t y = Ok v -> exists v', de t y' = Ok v' /\ sval_eq v v'.

  Lemma mapM_feq t : Pde t -> forall xs ys vs, Forall2 feq xs ys -> mapM (de t) xs = Ok vs ->
    exists vs', mapM (de t) ys = Ok vs' /\ Forall2 sval_eq vs vs'.
  Proof.
    intros HP xs ys vs F. revert vs. induction F as [|x y l l' Hxy _ IH]; intros vs H; cbn [mapM] in *.
    - injection H as <-. exists []. split; [reflexivity|constructor].
    - apply rbind_ok in H as (c & Hc & H). apply rbind_ok in H as (cs & Hcs & H). injection H as <-.
      destruct (HP _ _ _ Hxy Hc) as (c' & -> & Ec). destruct (IH _ Hcs) as (cs' & -> & Ecs). cbn [rbind]. eexists. split; [reflexivity|constructor; assumption].
  Qed.

  Lemma pos_feq {A} (proj : A -> ty) l : Forall (fun a => Pde (proj a)) l -> forall xs ys r, Forall2 feq xs ys ->
    de_pos de proj l xs = Ok r ->
    exists r', de_pos de proj l ys = Ok r' /\ Forall2 sval_eq (fst r) (fst r') /\ Forall2 feq (snd r) (snd r').
  Proof.
    induction 1 as [|a l Ha _ IH]; intros xs ys r F H; cbn [de_pos] in *.
    - injection H as <-. exists ([], ys). split; [reflexivity|]. split; [constructor|exact F].
    - destruct F as [|x y xs' ys' Hxy F]; [discriminate|]. apply rbind_ok in H as (v & Hv & H). apply rbind_ok in H as (r0 & Hr0 & H). injection H as <-.
      destruct (Ha _ _ _ Hxy Hv) as (v' & -> & Ev). destruct (IH _ _ _ F Hr0) as (r0' & -> & E1 & E2). cbn [rbind fst snd].
      eexists. split; [reflexivity|]. cbn [fst snd]. split; [constructor; assumption|exact E2].
  Qed.

  Lemma all_read_feq (r r' : list sval * list tomlval) vs : Forall2 sval_eq (fst r) (fst r') -> Forall2 feq (snd r) (snd r') ->
    all_read (Ok r) = Ok vs -> exists vs', all_read (Ok r') = Ok vs' /\ Forall2 sval_eq vs vs'.
  Proof.
    unfold all_read. cbn [rbind]. intros E1 E2 H. destruct (snd r); [|discriminate]. injection H as <-. inversion E2; subst.
    eexists. split; [reflexivity|exact E1].
  Qed.

  Lemma fields_feq fs0 : Forall (fun ft : bytes * ty => Pde (snd ft)) fs0 -> forall seen es es' vs, Forall2 efeq es es' ->
    de_fields_map de es seen fs0 = Ok vs -> exists vs', de_fields_map de es' seen fs0 = Ok vs' /\ Forall2 sval_eq vs vs'.
  Proof.
    induction 1 as [|[f t] l Hf _ IH]; intros seen es es' vs F H; cbn [de_fields_map] in *.
    - injection H as <-. exists []. split; [reflexivity|constructor].
    - apply rbind_ok in H as (v & Hv & H). apply rbind_ok in H as (vs0 & Hvs0 & H). injection H as <-.
      destruct (IH _ _ _ _ F Hvs0) as (vs0' & E0 & E1). rewrite E0.
      assert (G : exists v', (if mem_bytes f seen then missing_field t else match tab_get f es' with Some x => de t x | None => missing_field t end) = Ok v' /\ sval_eq v v').
      { destruct (mem_bytes f seen); [exists v; split; [exact Hv|apply sval_eq_refl]|].
        pose proof (tab_get_feq f es es' F) as G. destruct (tab_get f es) as [x|].
        - destruct G as (x' & -> & Hx). apply (Hf _ _ _ Hx Hv).
        - rewrite G. exists v. split; [exact Hv|apply sval_eq_refl]. }
      destruct G as (v' & -> & Ev). cbn [rbind]. eexists. split; [reflexivity|constructor; assumption].
  Qed.

  Lemma struct_map_feq fs0 es es' vs : Forall (fun ft : bytes * ty => Pde (snd ft)) fs0 -> Forall2 efeq es es' ->
    de_struct_map de fs0 es = Ok vs -> exists vs', de_struct_map de fs0 es' = Ok vs' /\ Forall2 sval_eq vs vs'.
  Proof.
    intros HP F H. unfold de_struct_map, dup_field_hit in *. rewrite <- (efeq_keys es es' F).
    destruct (negb _); [discriminate|]. apply (fields_feq fs0 HP [] es es' vs F H).
  Qed.
End Congruence.

Lemma index_keys_feq : forall es fs i, Forall2 efeq es fs ->
  match index_keys i es with
  | Some xs => exists xs', index_keys i fs = Some xs' /\ Forall2 feq xs xs'
  | None => index_keys i fs = None
  end.
Proof.
  intros es fs i F. revert i. induction F as [|[k1 x1] [k2 x2] l l' [Hk Hx] _ IH]; intro i; [exists []; split; [reflexivity|constructor]|].
  cbn [fst snd] in *. subst k2. cbn [index_keys]. destruct (parse_usize k1) as [j|]; [|reflexivity]. destruct (j =? i)%N; [|reflexivity].
  specialize (IH (i + 1)%N). destruct (index_keys (i + 1) l) as [xs|].
  - destruct IH as (xs' & -> & E). cbn [optmap]. eexists. split; [reflexivity|constructor; assumption].
  - rewrite IH. reflexivity.
Qed.

(* maps: equal keys, equal values up to sval_eq *)
Definition keq (p q : sval * sval) : Prop := fst p = fst q /\ sval_eq (snd p) (snd q).

Lemma smap_insert_keq k v v' : sval_eq v v' -> forall es es', Forall2 keq es es' -> Forall2 keq (smap_insert k v es) (smap_insert k v' es').
Proof.
  intros Hv es es' F. induction F as [|[k1 v1] [k2 v2] l l' [Hk Hx] Fl IH]; cbn [smap_insert].
  - constructor; [split; [reflexivity|exact Hv]|constructor].
  - cbn [fst snd] in *. subst k2. destruct (sval_beq k1 k).
    + constructor; [split; [reflexivity|exact Hv]|exact Fl].
    + constructor; [split; [reflexivity|exact Hx]|exact IH].
Qed.

Lemma smap_of_pairs_keq ps ps' : Forall2 keq ps ps' -> Forall2 keq (smap_of_pairs ps) (smap_of_pairs ps').
Proof.
  unfold smap_of_pairs. intro F. assert (G : Forall2 keq (@nil (sval * sval)) []) by constructor. revert G. generalize (@nil (sval * sval)) at 1 3. generalize (@nil (sval * sval)).
  induction F as [|[k1 v1] [k2 v2] l l' [Hk Hx] _ IH]; intros acc' acc G; cbn [fold_left]; [exact G|].
  cbn [fst snd] in *. subst k2. apply IH. apply smap_insert_keq; assumption.
Qed.

Lemma keq_map_eq es es' : Forall2 keq es es' -> sval_eq (SMap es) (SMap es').
Proof.
  intro F. apply (eq_map es es' es'); [apply Permutation_refl|]. eapply Forall2_impl; [|exact F].
  intros [k v] [k' v'] [Hk Hv]. cbn [fst snd] in *. subst k'. split; [apply sval_eq_refl|exact Hv].
Qed.

(* ---- tv_de does not see the payload of a NaN ------------------------------------------------------------------- *)
Lemma dt_feq y y' : feq y y' -> tv_de_datetime y' = tv_de_datetime y.
Proof.
  intro F. inversion F as [s|z|a b Hab|b|d|xs ys Fx|es fs Fe]; subst; try reflexivity.
  destruct Fe as [|[k x] [k' x'] l l' [Hk Hx] Fl]; [reflexivity|]. cbn [fst snd] in *. subst k'.
  destruct Fl; [|reflexivity]. cbn [tv_de_datetime]. destruct (bytes_eqb k DT_FIELD); [|reflexivity]. inversion Hx; subst; reflexivity.
Qed.

Lemma empty_feq y y' : feq y y' -> empty_container y' = empty_container y.
Proof. intro F. inversion F as [s|z|a b Hab|b|d|xs ys Fx|es fs Fe]; subst; try reflexivity; [destruct Fx; reflexivity|destruct Fe; reflexivity]. Qed.

Lemma F2_length {A B} (R : A -> B -> Prop) l l' : Forall2 R l l' -> length l' = length l.
Proof. induction 1; cbn [length]; congruence. Qed.

Definition Pt (t : ty) : Prop := Pde tv_de t.
Definition Qv (var : variant) : Prop :=
  forall y y' v, feq y y' -> tv_de_payload var y = Ok v -> exists v', tv_de_payload var y' = Ok v' /\ sval_eq v v'.

Lemma seq_result (P : list sval -> sval) (HP : forall a b, Forall2 sval_eq a b -> sval_eq (P a) (P b)) r r' vs :
  (exists vs', r' = Ok vs' /\ Forall2 sval_eq vs vs') -> r = Ok vs -> forall v, rmap P r = Ok v -> exists v', rmap P r' = Ok v' /\ sval_eq v v'.
Proof. intros (vs' & -> & E) -> v H. cbn [rmap] in *. injection H as <-. eexists. split; [reflexivity|apply HP, E]. Qed.

Lemma tuple_feq ts xs ys v (C : list sval -> sval) : (forall a b, Forall2 sval_eq a b -> sval_eq (C a) (C b)) ->
  Forall Pt ts -> Forall2 feq xs ys -> rmap C (all_read (de_pos tv_de (fun t' => t') ts xs)) = Ok v ->
  exists v', rmap C (all_read (de_pos tv_de (fun t' => t') ts ys)) = Ok v' /\ sval_eq v v'.
Proof.
  intros HC HP F H. apply rmap_ok in H as (vs & Hvs & ->). destruct (de_pos tv_de (fun t' => t') ts xs) as [r|] eqn:E; [|discriminate].
  destruct (pos_feq tv_de (fun t' => t') ts HP xs ys r F E) as (r' & -> & E1 & E2).
  destruct (all_read_feq r r' vs E1 E2 Hvs) as (vs' & -> & E3). cbn [rmap]. eexists. split; [reflexivity|apply HC, E3].
Qed.

Lemma fields_pos_feq (fs0 : list (bytes * ty)) xs ys v (C : list sval -> sval) : (forall a b, Forall2 sval_eq a b -> sval_eq (C a) (C b)) ->
  Forall (fun ft => Pt (snd ft)) fs0 -> Forall2 feq xs ys -> rmap C (all_read (de_pos tv_de (fun ft : bytes * ty => snd ft) fs0 xs)) = Ok v ->
  exists v', rmap C (all_read (de_pos tv_de (fun ft : bytes * ty => snd ft) fs0 ys)) = Ok v' /\ sval_eq v v'.
Proof.
  intros HC HP F H. apply rmap_ok in H as (vs & Hvs & ->). destruct (de_pos tv_de (fun ft : bytes * ty => snd ft) fs0 xs) as [r|] eqn:E; [|discriminate].
  destruct (pos_feq tv_de (fun ft : bytes * ty => snd ft) fs0 HP xs ys r F E) as (r' & -> & E1 & E2).
  destruct (all_read_feq r r' vs E1 E2 Hvs) as (vs' & -> & E3). cbn [rmap]. eexists. split; [reflexivity|apply HC, E3].
Qed.

Lemma struct_feq fs0 es es' v : Forall (fun ft => Pt (snd ft)) fs0 -> Forall2 efeq es es' ->
  rmap SRec (de_struct_map tv_de fs0 es) = Ok v -> exists v', rmap SRec (de_struct_map tv_de fs0 es') = Ok v' /\ sval_eq v v'.
Proof.
  intros HP F H. apply rmap_ok in H as (vs & Hvs & ->). destruct (struct_map_feq tv_de fs0 es es' vs HP F Hvs) as (vs' & -> & E).
  cbn [rmap]. eexists. split; [reflexivity|constructor; exact E].
Qed.

Lemma find_name_feq (vs : list (bytes * variant)) k y y' : Forall (fun nv => Qv (snd nv)) vs -> feq y y' -> forall i v,
  find_name (fun i var => rmap (SVariant i) (tv_de_payload var y)) (Err EDe) k vs i = Ok v ->
  exists v', find_name (fun i var => rmap (SVariant i) (tv_de_payload var y')) (Err EDe) k vs i = Ok v' /\ sval_eq v v'.
Proof.
  intros HQ F. induction HQ as [|[n var] l Hv _ IH]; intros i v H; cbn [find_name] in *; [discriminate|].
  destruct (bytes_eqb n k); [|apply IH, H]. apply rmap_ok in H as (p & Hp & ->). cbn [snd] in Hv. destruct (Hv _ _ _ F Hp) as (p' & -> & E).
  cbn [rmap]. eexists. split; [reflexivity|constructor; exact E].
Qed.

Lemma map_entries_feq kt vt es fs ps : Pt vt -> Forall2 efeq es fs ->
  mapM (fun kx : bytes * tomlval => rbind (tv_de kt (VStr (fst kx))) (fun k => rmap (fun v => (k, v)) (tv_de vt (snd kx)))) es = Ok ps ->
  exists ps', mapM (fun kx : bytes * tomlval => rbind (tv_de kt (VStr (fst kx))) (fun k => rmap (fun v => (k, v)) (tv_de vt (snd kx)))) fs = Ok ps'
              /\ Forall2 keq ps ps'.
Proof.
  intros HP F. revert ps. induction F as [|[k x] [k' x'] l l' [Hk Hx] _ IH]; intros ps H; cbn [mapM] in *.
  - injection H as <-. exists []. split; [reflexivity|constructor].
  - cbn [fst snd] in *. subst k'. apply rbind_ok in H as (c & Hc & H). apply rbind_ok in H as (cs & Hcs & H). injection H as <-.
    apply rbind_ok in Hc as (kv & Hkv & Hc). apply rmap_ok in Hc as (v & Hv & ->). rewrite Hkv. cbn [rbind].
    destruct (HP _ _ _ Hx Hv) as (v' & -> & Ev). cbn [rmap rbind]. destruct (IH _ Hcs) as (cs' & -> & Ecs). cbn [rbind].
    eexists. split; [reflexivity|]. constructor; [split; [reflexivity|exact Ev]|exact Ecs].
Qed.

Lemma seq_cong a b : Forall2 sval_eq a b -> sval_eq (SSeq a) (SSeq b). Proof. intro H. constructor. exact H. Qed.
Lemma rec_cong a b : Forall2 sval_eq a b -> sval_eq (SRec a) (SRec b). Proof. intro H. constructor. exact H. Qed.

Theorem tv_de_feq : forall t, Pt t.
Proof.
  induction t using ty_ind2 with (Q := Qv); unfold Pt, Pde, Qv in *.
  - (* TBool *) intros y y' v F H. inversion F; subst; cbn [tv_de] in *; try discriminate. eexists. split; [exact H|apply sval_eq_refl].
  - (* TInt *) intros y y' v F H. inversion F; subst; cbn [tv_de] in *; try discriminate. eexists. split; [exact H|apply sval_eq_refl].
  - (* TFloat *) intros y y' v F H. inversion F; subst; destruct w; cbn [tv_de] in *; try discriminate; injection H as <-; eexists; (split; [reflexivity|]).
    + constructor. match goal with Hab : f64_eq _ _ |- _ => destruct Hab as [-> | [N1 N2]]; [left; reflexivity|right; split; apply narrow32_nan; assumption] end.
    + constructor. assumption.
  - (* TChar *) intros y y' v F H. inversion F; subst; cbn [tv_de] in *; try discriminate. eexists. split; [exact H|apply sval_eq_refl].
  - (* TStr *) intros y y' v F H. inversion F; subst; cbn [tv_de] in *; try discriminate. eexists. split; [exact H|apply sval_eq_refl].
  - (* TDatetime *) intros y y' v F H. cbn [tv_de] in *. rewrite (dt_feq y y' F). eexists. split; [exact H|apply sval_eq_refl].
  - (* TUnit *) intros y y' v F H. discriminate.
  - (* TUnitStruct *) intros y y' v F H. discriminate.
  - (* TOpt *) intros y y' v F H. cbn [tv_de] in *. apply rmap_ok in H as (v0 & Hv0 & ->). destruct (IHt _ _ _ F Hv0) as (v' & -> & E).
    cbn [rmap]. eexists. split; [reflexivity|constructor; exact E].
  - (* TSeq *) intros y y' v F H. inversion F; subst; cbn [tv_de] in *; try discriminate. apply rmap_ok in H as (vs & Hvs & ->).
    match goal with Fx : Forall2 feq _ _ |- _ => destruct (mapM_feq tv_de t IHt _ _ _ Fx Hvs) as (vs' & -> & E) end.
    cbn [rmap]. eexists. split; [reflexivity|constructor; exact E].
  - (* TTuple *) intros y y' v F Hv. inversion F; subst; cbn [tv_de] in *; try discriminate. eapply tuple_feq; [apply seq_cong|exact H|eassumption|exact Hv].
  - (* TMap *) intros y y' v F H. inversion F; subst; cbn [tv_de] in *; try discriminate. apply rmap_ok in H as (ps & Hps & ->).
    match goal with Fe : Forall2 _ es fs |- _ => destruct (map_entries_feq t1 t2 es fs ps IHt2 Fe Hps) as (ps' & -> & E) end.
    cbn [rmap]. eexists. split; [reflexivity|apply keq_map_eq, smap_of_pairs_keq, E].
  - (* TStruct *) intros y y' v F Hv. inversion F; subst; cbn [tv_de] in *; try discriminate.
    + eapply fields_pos_feq; [apply rec_cong|exact H|eassumption|exact Hv].
    + eapply struct_feq; [exact H|eassumption|exact Hv].
  - (* TNewtype *) intros y y' v F H. cbn [tv_de] in *. apply rmap_ok in H as (v0 & Hv0 & ->). destruct (IHt _ _ _ F Hv0) as (v' & -> & E).
    cbn [rmap]. eexists. split; [reflexivity|constructor; exact E].
  - (* TTupleStruct *) intros y y' v F Hv. inversion F; subst; cbn [tv_de] in *; try discriminate. eapply tuple_feq; [apply seq_cong|exact H|eassumption|exact Hv].
  - (* TEnum *) intros y y' v F Hv. inversion F as [s|z|a b Hab|b|d|xs ys Fx|es fs Fe]; subst; cbn [tv_de] in *; try discriminate.
    + eexists. split; [exact Hv|apply sval_eq_refl].
    + destruct Fe as [|[k x] [k' x'] l l' [Hk Hx] Fl]; [discriminate|]. cbn [fst snd] in *. subst k'. destruct Fl; [|destruct l; discriminate].
      apply (find_name_feq vs k x x' H Hx 0 v Hv).
  - (* VUnit *) intros y y' v F H. cbn [tv_de_payload] in *. rewrite (empty_feq y y' F). eexists. split; [exact H|apply sval_eq_refl].
  - (* VNewtype *) intros y y' v F H. cbn [tv_de_payload] in *. apply (IHt _ _ _ F H).
  - (* VTuple *) intros y y' v F Hv. inversion F as [s|z|a b Hab|b|d|xs ys Fx|es fs Fe]; subst; cbn [tv_de_payload] in *; try discriminate.
    + rewrite (F2_length _ _ _ Fx). destruct (Nat.eqb (length xs) (length ts)); [|discriminate]. eapply tuple_feq; [apply seq_cong|exact H|exact Fx|exact Hv].
    + pose proof (index_keys_feq es fs 0 Fe) as G. destruct (index_keys 0 es) as [xs|]; [|discriminate]. destruct G as (xs' & -> & Fx).
      rewrite (F2_length _ _ _ Fx). destruct (Nat.eqb (length xs) (length ts)); [|discriminate]. eapply tuple_feq; [apply seq_cong|exact H|exact Fx|exact Hv].
  - (* VStruct *) intros y y' v F Hv. inversion F; subst; cbn [tv_de_payload] in *; try discriminate.
    + eapply fields_pos_feq; [apply rec_cong|exact H|eassumption|exact Hv].
    + eapply struct_feq; [exact H|eassumption|exact Hv].
Qed.


(* ================================================================================================================== *)
(* to_toml_value forgets the order of table entries                                                                   *)
(* ================================================================================================================== *)
(* sorted tables with the same entries are equal *)
Lemma bsorted_ext : forall l l', bsorted l -> bsorted l' -> (forall kx, In kx l <-> In kx l') -> l = l'.
Proof.
  induction l as [|p l IH]; intros l' Hs Hs' Hm.
  - destruct l' as [|q l']; [reflexivity|]. exfalso. apply (proj2 (Hm q)). left. reflexivity.
  - destruct l' as [|q l']; [exfalso; apply (proj1 (Hm p)); left; reflexivity|].
    apply StronglySorted_inv in Hs as [Hs Hp]. apply StronglySorted_inv in Hs' as [Hs' Hq]. rewrite Forall_forall in Hp, Hq.
    assert (Epq : p = q).
    { destruct (proj1 (Hm p) (or_introl eq_refl)) as [E | Hin]; [symmetry; exact E|].
      destruct (proj2 (Hm q) (or_introl eq_refl)) as [E | Hin']; [exact E|].
      exfalso. pose proof (Hq _ Hin) as L1. pose proof (Hp _ Hin') as L2. unfold key_lt in *.
      pose proof (bytes_ltb_trans _ _ _ L1 L2) as L3. rewrite bytes_ltb_irrefl in L3. discriminate. }
    subst q. f_equal. apply IH; [exact Hs|exact Hs'|]. intro kx. split; intro Hin.
    + destruct (proj1 (Hm kx) (or_intror Hin)) as [E | H']; [|exact H']. subst kx. exfalso. pose proof (Hp _ Hin) as L. unfold key_lt in L.
      rewrite bytes_ltb_irrefl in L. discriminate.
    + destruct (proj2 (Hm kx) (or_intror Hin)) as [E | H']; [|exact H']. subst kx. exfalso. pose proof (Hq _ Hin) as L. unfold key_lt in L.
      rewrite bytes_ltb_irrefl in L. discriminate.
Qed.

Lemma btree_perm ps ps' : Permutation ps ps' -> NoDup (map fst ps) -> btree_of_pairs ps = btree_of_pairs ps'.
Proof.
  intros P Hnd. assert (Hnd' : NoDup (map fst ps')) by (eapply Permutation_NoDup; [apply Permutation_map, P|exact Hnd]).
  destruct (btree_of_pairs_spec ps Hnd) as [S1 M1]. destruct (btree_of_pairs_spec ps' Hnd') as [S2 M2].
  apply bsorted_ext; [exact S1|exact S2|]. intro kx. rewrite M1, M2. split; intro H; [apply (Permutation_in _ P), H|apply (Permutation_in _ (Permutation_sym P)), H].
Qed.

Lemma btree_insert_efeq k x x' : feq x x' -> forall acc acc', Forall2 efeq acc acc' -> Forall2 efeq (btree_insert k x acc) (btree_insert k x' acc').
Proof.
  intros Hx acc acc' F. induction F as [|[k1 y1] [k2 y2] l l' [Hk Hy] Fl IH]; cbn [btree_insert].
  - constructor; [split; [reflexivity|exact Hx]|constructor].
  - cbn [fst snd] in *. subst k2. destruct (bytes_eqb k1 k).
    + constructor; [split; [reflexivity|exact Hx]|exact Fl].
    + destruct (bytes_ltb k k1).
      * constructor; [split; [reflexivity|exact Hx]|]. constructor; [split; [reflexivity|exact Hy]|exact Fl].
      * constructor; [split; [reflexivity|exact Hy]|exact IH].
Qed.

Lemma btree_efeq ps ps' : Forall2 efeq ps ps' -> Forall2 efeq (btree_of_pairs ps) (btree_of_pairs ps').
Proof.
  unfold btree_of_pairs. intro F. assert (G : Forall2 efeq (@nil (bytes * tomlval)) []) by constructor. revert G.
  generalize (@nil (bytes * tomlval)) at 1 3. generalize (@nil (bytes * tomlval)).
  induction F as [|[k1 v1] [k2 v2] l l' [Hk Hx] _ IH]; intros acc' acc G; cbn [fold_left]; [exact G|].
  cbn [fst snd] in *. subst k2. apply IH. apply btree_insert_efeq; assumption.
Qed.

Definition conv1 (kx : bytes * tomlval) : result (bytes * tomlval) := rmap (fun y' => (fst kx, y')) (to_toml_value (snd kx)).

Lemma feq_refl : forall y, feq y y.
Proof.
  induction y using tomlval_ind2; try (constructor; fail).
  - constructor. left. reflexivity.
  - constructor. induction H; constructor; assumption.
  - constructor. induction H as [|[k x] l Hx _ IH]; constructor; [split; [reflexivity|exact Hx]|exact IH].
Qed.

Definition Cv (x : tomlval) : Prop :=
  forall x' y, tv_equiv x x' -> tunnel_free x = true -> to_toml_value x = Ok y -> exists y', to_toml_value x' = Ok y' /\ feq y y'.

Theorem conv_equiv : forall x, Cv x.
Proof.
  induction x using tomlval_ind2; unfold Cv in *; intros x' y E Ht Hy.
  - apply equiv_str in E. subst x'. exists y. split; [exact Hy|apply feq_refl].
  - apply equiv_int in E. subst x'. exists y. split; [exact Hy|apply feq_refl].
  - inversion E; subst. cbn [to_toml_value] in *. injection Hy as <-. eexists. split; [reflexivity|constructor; assumption].
  - apply equiv_bool in E. subst x'. exists y. split; [exact Hy|apply feq_refl].
  - apply equiv_dt in E. subst x'. exists y. split; [exact Hy|apply feq_refl].
  - (* arrays *) apply equiv_arr in E as (ys & -> & F). rewrite ttv_arr in *. apply rmap_ok in Hy as (rs & Hrs & ->). cbn [tunnel_free] in Ht.
    assert (G : exists rs', mapM to_toml_value ys = Ok rs' /\ Forall2 feq rs rs').
    { revert rs Hrs. induction F as [|a b l l' Hab _ IH]; intros rs Hrs; cbn [mapM] in *.
      - injection Hrs as <-. exists []. split; [reflexivity|constructor].
      - inversion H as [|? ? Ha Hl]; subst. cbn [forallb] in Ht. apply andb_true_iff in Ht as [Ht1 Ht2].
        apply rbind_ok in Hrs as (c & Hc & Hrs). apply rbind_ok in Hrs as (cs & Hcs & Hrs). injection Hrs as <-.
        destruct (Ha _ _ Hab Ht1 Hc) as (c' & -> & Ec). destruct (IH Hl Ht2 _ Hcs) as (cs' & -> & Ecs). cbn [rbind].
        eexists. split; [reflexivity|constructor; assumption]. }
    destruct G as (rs' & -> & Ers). cbn [rmap]. eexists. split; [reflexivity|constructor; exact Ers].
  - (* tables *) apply tab_equiv_inv in E as (es' & fs & -> & P & F). cbn [tunnel_free] in Ht.
    assert (Hkeys : forall k, In k (map fst es) -> bytes_eqb k DT_FIELD = false).
    { intros k Hin. apply in_map_iff in Hin as ([k0 x0] & <- & Hin). rewrite forallb_forall in Ht. specialize (Ht _ Hin). cbn [fst snd] in *.
      apply andb_true_iff in Ht as [Hk _]. apply negb_true_iff in Hk. exact Hk. }
    assert (Hfp : first_key_plain es = true).
    { destruct es as [|[k x] es0]; [reflexivity|]. cbn [first_key_plain]. rewrite (Hkeys k (or_introl eq_refl)). reflexivity. }
    assert (Pk : Permutation (map fst es) (map fst fs)) by (rewrite <- (equiv_keys _ _ F); apply Permutation_map, P).
    assert (Hfp' : first_key_plain fs = true).
    { destruct fs as [|[k x] fs0]; [reflexivity|]. cbn [first_key_plain]. rewrite (Hkeys k); [reflexivity|].
      apply (Permutation_in _ (Permutation_sym Pk)). left. reflexivity. }
    rewrite (ttv_tab_plain es Hfp) in Hy. rewrite (ttv_tab_plain fs Hfp'). apply rbind_ok in Hy as (es1 & Hes1 & Hy).
    destruct (nodup_bytes (map fst es1)) eqn:Hnd; [|discriminate]. injection Hy as <-.
    unfold conv_entries in *. fold conv1 in *. apply mapM_ok in Hes1.
    (* the results along the permutation *)
    destruct (Forall2_perm_l _ _ _ P _ Hes1) as (es1' & P1 & F1).
    assert (G : exists fs1, mapM conv1 fs = Ok fs1 /\ Forall2 efeq es1' fs1).
    { assert (Hin' : forall e, In e es' -> In e es) by (intros e He; apply (Permutation_in _ (Permutation_sym P)), He).
      clear P P1 Pk Hfp'. revert es1' F1. induction F as [|a b l l' [Hk Hab] _ IH]; intros es1' F1; inversion F1 as [|? r ? rl Hr Frl]; subst; cbn [mapM].
      - exists []. split; [reflexivity|constructor].
      - rewrite Forall_forall in H. pose proof (H a (Hin' a (or_introl eq_refl))) as Ha. unfold conv1 in Hr. apply rmap_ok in Hr as (ya & Hya & ->).
        assert (Hta : tunnel_free (snd a) = true).
        { rewrite forallb_forall in Ht. specialize (Ht a (Hin' a (or_introl eq_refl))). apply andb_true_iff in Ht as [_ Ht]. exact Ht. }
        destruct (Ha _ _ Hab Hta Hya) as (yb & Eyb & Eab). unfold conv1 at 1. rewrite Eyb. cbn [rmap rbind].
        destruct (IH (fun e He => Hin' e (or_intror He)) rl Frl) as (fs1 & -> & Efs). cbn [rbind].
        eexists. split; [reflexivity|]. constructor; [split; [cbn [fst]; exact Hk|exact Eab]|exact Efs]. }
    destruct G as (fs1 & -> & Efs). cbn [rbind].
    assert (Ek1 : map fst es1' = map fst fs1) by (apply efeq_keys, Efs).
    assert (Hnd1 : NoDup (map fst es1)) by (apply nodup_bytes_NoDup, Hnd).
    assert (Hnd' : nodup_bytes (map fst fs1) = true).
    { apply nodup_bytes_NoDup. rewrite <- Ek1. eapply Permutation_NoDup; [apply Permutation_map, P1|exact Hnd1]. }
    rewrite Hnd'. eexists. split; [reflexivity|]. constructor. rewrite (btree_perm es1 es1' P1 Hnd1). apply btree_efeq, Efs.
Qed.

(* ================================================================================================================== *)
(* on the tree a text route serializes, read back up to tv_equiv, the routes through toml::Value return the value     *)
(* ================================================================================================================== *)
From TV Require Import Proofs.SerdeRTTv Model.SerDoc.

Lemma first_key_equiv es x' : tv_equiv (VTab es) x' -> tunnel_free (VTab es) = true -> exists fs, x' = VTab fs /\ first_key_plain fs = true.
Proof.
  intros E Ht. apply tab_equiv_inv in E as (es' & fs & -> & P & F). exists fs. split; [reflexivity|].
  destruct fs as [|[k x] fs0]; [reflexivity|]. cbn [first_key_plain]. apply negb_true_iff.
  assert (Pk : Permutation (map fst es) (map fst ((k, x) :: fs0))) by (rewrite <- (equiv_keys _ _ F); apply Permutation_map, P).
  assert (Hin : In k (map fst es)) by (apply (Permutation_in _ (Permutation_sym Pk)); left; reflexivity).
  apply in_map_iff in Hin as ([k0 x0] & <- & Hin). cbn [tunnel_free] in Ht. rewrite forallb_forall in Ht. specialize (Ht _ Hin). cbn [fst snd] in *.
  apply andb_true_iff in Ht as [Hk _]. apply negb_true_iff in Hk. exact Hk.
Qed.

(* the tree of a text route, read by toml::Value's visitor, then by try_into *)
Lemma text_route_value_tree r0 ty v out : has_type v ty -> ser_text r0 ty v = Ok out -> tunnel_free out = true ->
  exists y v1, to_toml_value out = Ok y /\ tv_de ty y = Ok v1 /\ sval_eq v v1 /\ exists es, out = VTab es.
Proof.
  intros Hty Hser Hf.
  assert (Htoml : ser_toml_root ty v = Ok out -> exists y v1, to_toml_value out = Ok y /\ tv_de ty y = Ok v1 /\ sval_eq v v1 /\ exists es, out = VTab es).
  { intro H. destruct (try_from_is_parsed_text ty v out Hty H Hf) as (y & C1 & _ & T & _).
    pose proof (toml_root_is_value ty v out Hty H Hf) as Hv.
    destruct (tv_roundtrip_supported ty v y Hty (ser_ok_supported ty v out Hty Hv) T) as (v1 & D & E).
    exists y, v1. split; [exact C1|]. split; [exact D|]. split; [exact E|apply (toml_root_is_table ty v out H)]. }
  assert (Hedit : ser_edit_root ty v = Ok out -> exists y v1, to_toml_value out = Ok y /\ tv_de ty y = Ok v1 /\ sval_eq v v1 /\ exists es, out = VTab es).
  { intro H. unfold ser_edit_root in H. apply rbind_ok in H as (x & Hx & Hr). unfold root_table in Hr. destruct x; try discriminate. injection Hr as <-.
    destruct (try_from_twin ty v (VTab es) Hty Hx Hf) as (y & C1 & T).
    destruct (tv_roundtrip_supported ty v y Hty (ser_ok_supported ty v _ Hty Hx) T) as (v1 & D & E).
    exists y, v1. split; [exact C1|]. split; [exact D|]. split; [exact E|eauto]. }
  destruct r0; cbn [ser_text] in Hser; auto.
Qed.

Theorem text_route_value_back r0 ty v out x' : has_type v ty -> ser_text r0 ty v = Ok out -> tunnel_free out = true -> tv_equiv out x' ->
  exists y' v2, to_toml_value x' = Ok y' /\ to_toml_table x' = Ok y' /\ tv_de ty y' = Ok v2 /\ sval_eq v v2.
Proof.
  intros Hty Hser Hf E. destruct (text_route_value_tree r0 ty v out Hty Hser Hf) as (y & v1 & C & D & Ev & es & ->).
  destruct (conv_equiv (VTab es) x' y E Hf C) as (y' & C' & Fy). destruct (tv_de_feq ty y y' v1 Fy D) as (v2 & D' & Ev').
  exists y', v2. split; [exact C'|]. split; [|split; [exact D'|eapply sval_eq_trans; eassumption]].
  destruct (first_key_equiv es x' E Hf) as (fs & -> & Hfp). rewrite plain_root_same; [exact C'|].
  unfold plain_root. rewrite (ttv_nodup fs y' Hfp C'). exact Hfp.
Qed.
