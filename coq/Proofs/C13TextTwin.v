(* Proofs/C13TextTwin.v — C13 at the level of text, the routes through toml::Value / toml::Table on serialized text:
   the tree a text parses to equals the tree the serializer wrote only up to the order of table entries and the payload
   of NaNs (Props/C07text.v tv_equiv).  toml::Value's visitor sorts tables, so the order is gone after `to_toml_value`;
   what remains is the payload of NaNs (`feq`), which `tv_de` does not see (`sval_eq`). *)
From TV Require Import Base.Prelude Model.Datetime Model.DatetimeStd Model.SerNum Spec.SerdeData Model.Ser Model.De Model.SerdeRoutes.
From TV Require Import Proofs.SerdeRTBase Proofs.SerdeRTBTree Proofs.RoutesConv Proofs.RoutesTwins Proofs.RoutesTop Proofs.RoutesDecode Proofs.SerDocDe.
From Coq Require Import Permutation.
Require Import Lia.

(* ---- sval_eq is transitive ------------------------------------------------------------------------------------ *)
Lemma f32_eq_trans a b c : f32_eq a b -> f32_eq b c -> f32_eq a c.
Proof. intros [-> | [H1 H2]] [-> | [H3 H4]]; [left; reflexivity|right; auto|right; auto|right; auto]. Qed.

Lemma Forall2_trans_l {A} (R : A -> A -> Prop) l :
  Forall (fun x => forall y z, R x y -> R y z -> R x z) l -> forall m r, Forall2 R l m -> Forall2 R m r -> Forall2 R l r.
Proof.
  induction 1 as [|x l Hx _ IH]; intros m r F1 F2; inversion F1; subst; inversion F2; subst; constructor; eauto.
Qed.

Definition pair_eq (p q : sval * sval) : Prop := sval_eq (fst p) (fst q) /\ sval_eq (snd p) (snd q).

Theorem sval_eq_trans : forall a y0 z0, sval_eq a y0 -> sval_eq y0 z0 -> sval_eq a z0.
Proof.
  induction a using sval_ind2; intros y0 z0 H1 H2; inversion H1; subst; inversion H2; subst; try (constructor; fail).
  - constructor. eapply f64_eq_trans; eassumption.
  - constructor. eapply f32_eq_trans; eassumption.
  - constructor. eapply IHa; eassumption.
  - constructor. eapply (Forall2_trans_l sval_eq vs); eassumption.
  - (* maps *)
    rename H3 into P1, H4 into F1, H5 into P2, H6 into F2.
    destruct (Forall2_perm_l _ _ _ P1 _ F2) as (gs2 & P3 & F3).
    eapply eq_map; [eapply Permutation_trans; [exact P2|exact P3]|].
    apply (Forall2_trans_l pair_eq es) with (m := fs'); [|exact F1|exact F3].
    eapply Forall_impl; [|exact H]. intros [k v] [Hk Hv] [k1 v1] [k2 v2] [A1 A2] [B1 B2]. cbn [fst snd] in *.
    split; [eapply Hk; eassumption|eapply Hv; eassumption].
  - constructor. eapply (Forall2_trans_l sval_eq vs); eassumption.
  - constructor. eapply IHa; eassumption.
  - constructor. eapply IHa; eassumption.
Qed.
