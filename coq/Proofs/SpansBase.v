(* Proofs/SpansBase.v — C14: the window judgement and its combinator lemmas.

     winP Q p   whenever p i = Ok a i', and [lo, hi] is ANY window enclosing what p consumed
                (lo <= pos i, pos i' <= hi), then Q lo hi a.
   With `mono p` (Proofs/NoPanicBase.v: pos i <= pos i', the consumed text is a prefix) this is the
   statement "the spans recorded by p point into the text p consumed".  The window is universally
   quantified so that results compose under sequencing without a separate monotonicity argument.

   Also: monotonicity of the `*_in lo hi` predicates in the window (tree induction), and the laws of
   the association-list operations for `items_in`. *)
From TV Require Import Base.Prelude Base.Utf8 Base.Winnow.
From TV Require Import Model.Datetime Model.Numbers Model.Tree Model.Parse Model.Document.
From TV Require Import Proofs.NoPanicBase Proofs.SpansDefs.
Require Import Lia ZifyBool ZifyN ZifyNat.

(* lia on a goal whose context is full of boolean facts about trees: keep the arithmetic only *)
Ltac nlia :=
  repeat match goal with
         | H : ?T |- _ =>
           lazymatch T with
           | (_ <= _)%N => fail
           | (_ < _)%N => fail
           | @eq N _ _ => fail
           | context [N.leb] => fail
           | _ => clear H
           end
         end; lia.

Definition winP {A} (Q : N -> N -> A -> Prop) (p : parser A) : Prop :=
  forall lo hi i a i', p i = Ok a i' -> (lo <= pos i)%N -> (pos i' <= hi)%N -> Q lo hi a.

Lemma mono_le {A} (p : parser A) i a i' : mono p -> p i = Ok a i' -> (pos i <= pos i')%N.
Proof. intros H E. eapply ext_pos_le, H, E. Qed.

(* ---- inversion of the combinators on success ------------------------------------------------------- *)
Lemma bind_ok {A B} (p : parser A) (f : A -> parser B) i b i' :
  bind p f i = Ok b i' -> exists a i1, p i = Ok a i1 /\ f a i1 = Ok b i'.
Proof. unfold bind. destruct (p i) as [a i1|? ?|? ?|?]; try discriminate. eauto. Qed.
Lemma pmap_ok {A B} (g : A -> B) (p : parser A) i b i' :
  pmap g p i = Ok b i' -> exists a, p i = Ok a i' /\ b = g a.
Proof. unfold pmap. destruct (p i) as [a i1|? ?|? ?|?]; try discriminate. intro H; inversion H; subst. eauto. Qed.
Lemma span_ok {A} (p : parser A) i sp i' :
  span_ p i = Ok sp i' -> sp = (pos i, pos i') /\ exists x, p i = Ok x i'.
Proof. unfold span_. destruct (p i) as [a i1|? ?|? ?|?]; try discriminate. intro H; inversion H; subst. eauto. Qed.
Lemma with_span_ok {A} (p : parser A) i x i' :
  with_span p i = Ok x i' -> snd x = (pos i, pos i') /\ p i = Ok (fst x) i'.
Proof. unfold with_span. destruct (p i) as [a i1|? ?|? ?|?]; try discriminate. intro H; inversion H; subst. auto. Qed.
Lemma cut_err_ok {A} (p : parser A) i a i' : cut_err p i = Ok a i' -> p i = Ok a i'.
Proof. unfold cut_err. destruct (p i); try discriminate. auto. Qed.
Lemma context_ok {A} (p : parser A) i a i' : context p i = Ok a i' -> p i = Ok a i'.
Proof. unfold context. destruct (p i); try discriminate. auto. Qed.
Lemma try_map_ok {A B} (g : A -> tm B) (p : parser A) i b i' :
  try_map g p i = Ok b i' -> exists a, p i = Ok a i' /\ g a = TmOk b.
Proof.
  unfold try_map. destruct (p i) as [a i1|? ?|? ?|?]; try discriminate. destruct (g a) eqn:G; try discriminate.
  intro H; inversion H; subst. eauto.
Qed.
Lemma peek_ok {A} (p : parser A) i a i' : peek p i = Ok a i' -> i' = i /\ exists j, p i = Ok a j.
Proof. unfold peek. destruct (p i) as [x i1|? ?|? ?|?]; try discriminate. intro H; inversion H; subst. eauto. Qed.
Lemma ret_ok {A} (a b : A) i i' : ret a i = Ok b i' -> b = a /\ i' = i.
Proof. unfold ret. intro H; inversion H; auto. Qed.

(* ---- winP: combinators ------------------------------------------------------------------------------ *)
Lemma winP_weaken {A} (Q R : N -> N -> A -> Prop) (p : parser A) :
  (forall lo hi a, Q lo hi a -> R lo hi a) -> winP Q p -> winP R p.
Proof. intros H Hp lo hi i a i' E L U. eapply H, Hp; eauto. Qed.
Lemma winP_and {A} (Q R : N -> N -> A -> Prop) (p : parser A) :
  winP Q p -> winP R p -> winP (fun lo hi a => Q lo hi a /\ R lo hi a) p.
Proof. intros H1 H2 lo hi i a i' E L U. split; [eapply H1|eapply H2]; eauto. Qed.
Lemma winP_true {A} (p : parser A) : winP (fun _ _ _ => True) p.
Proof. intros lo hi i a i' _ _ _. exact I. Qed.
Lemma winP_valP {A} (V : A -> Prop) (p : parser A) : valP V p -> winP (fun _ _ a => V a) p.
Proof. intros H lo hi i a i' E _ _. eapply H, E. Qed.

Lemma winP_ret {A} (Q : N -> N -> A -> Prop) (a : A) : (forall lo hi, (lo <= hi)%N -> Q lo hi a) -> winP Q (ret a).
Proof. intros H lo hi i x i' E L U. apply ret_ok in E as [-> ->]. apply H. lia. Qed.
Lemma winP_fail {A} (Q : N -> N -> A -> Prop) : winP Q (@fail A).
Proof. intros lo hi i x i' E. discriminate. Qed.
Lemma winP_const_panic {A} (Q : N -> N -> A -> Prop) s : winP Q (fun _ : input => @Panic A s).
Proof. intros lo hi i x i' E. discriminate. Qed.

(* sequencing: the continuation may use what is known of the first result IN THE WHOLE WINDOW *)
Lemma winP_bind {A B} (Qa : N -> N -> A -> Prop) (Qb : N -> N -> B -> Prop) (p : parser A) (f : A -> parser B) :
  mono p -> (forall a, mono (f a)) -> winP Qa p ->
  (forall a, winP (fun lo hi b => Qa lo hi a -> Qb lo hi b) (f a)) -> winP Qb (bind p f).
Proof.
  intros Mp Mf Hp Hf lo hi i b i' E L U. apply bind_ok in E as (a & i1 & E1 & E2).
  pose proof (mono_le _ _ _ _ Mp E1). pose proof (mono_le _ _ _ _ (Mf a) E2).
  eapply (Hf a); [exact E2|lia|exact U|]. eapply Hp; [exact E1|exact L|lia].
Qed.
(* ... and the first result need not matter *)
Lemma winP_bind_r {A B} (Qb : N -> N -> B -> Prop) (p : parser A) (f : A -> parser B) :
  mono p -> (forall a, winP Qb (f a)) -> winP Qb (bind p f).
Proof.
  intros Mp Hf lo hi i b i' E L U. apply bind_ok in E as (a & i1 & E1 & E2).
  pose proof (mono_le _ _ _ _ Mp E1). eapply (Hf a); [exact E2|lia|exact U].
Qed.

Lemma winP_pmap {A B} (Q : N -> N -> A -> Prop) (R : N -> N -> B -> Prop) (g : A -> B) (p : parser A) :
  winP Q p -> (forall lo hi a, Q lo hi a -> R lo hi (g a)) -> winP R (pmap g p).
Proof. intros Hp Hg lo hi i b i' E L U. apply pmap_ok in E as (a & E & ->). eapply Hg, Hp; eauto. Qed.
Lemma winP_cut_err {A} (Q : N -> N -> A -> Prop) (p : parser A) : winP Q p -> winP Q (cut_err p).
Proof. intros Hp lo hi i a i' E. apply cut_err_ok in E. eapply Hp, E. Qed.
Lemma winP_context {A} (Q : N -> N -> A -> Prop) (p : parser A) : winP Q p -> winP Q (context p).
Proof. intros Hp lo hi i a i' E. apply context_ok in E. eapply Hp, E. Qed.
Lemma winP_alt {A} (Q : N -> N -> A -> Prop) (p q : parser A) : winP Q p -> winP Q q -> winP Q (alt p q).
Proof.
  intros Hp Hq lo hi i a i' E. unfold alt in E. destruct (p i) eqn:E1; try discriminate.
  - eapply Hp. rewrite E1. exact E.
  - eapply Hq, E.
Qed.
Lemma winP_try_map {A B} (Q : N -> N -> A -> Prop) (R : N -> N -> B -> Prop) (g : A -> tm B) (p : parser A) :
  winP Q p -> (forall lo hi a b, Q lo hi a -> g a = TmOk b -> R lo hi b) -> winP R (try_map g p).
Proof. intros Hp Hg lo hi i b i' E L U. apply try_map_ok in E as (a & E & G). eapply Hg; [eapply Hp; eauto|exact G]. Qed.

(* what .span() / .with_span() record lies in every window enclosing the consumed text *)
Lemma winP_span_ {A} (p : parser A) : mono p -> winP (fun lo hi sp => sp_in lo hi sp = true) (span_ p).
Proof.
  intros Mp lo hi i sp i' E L U. apply span_ok in E as (-> & x & E). pose proof (mono_le _ _ _ _ Mp E).
  unfold sp_in; cbn [fst snd]. lia.
Qed.
Lemma winP_with_span {A} (Q : N -> N -> A -> Prop) (p : parser A) :
  mono p -> winP Q p -> winP (fun lo hi x => Q lo hi (fst x) /\ sp_in lo hi (snd x) = true) (with_span p).
Proof.
  intros Mp Hp lo hi i x i' E L U. apply with_span_ok in E as (S & E). pose proof (mono_le _ _ _ _ Mp E).
  split; [eapply Hp; eauto|]. rewrite S. unfold sp_in; cbn [fst snd]. lia.
Qed.

Lemma winP_diag {A} (Q : N -> N -> A -> Prop) (h : input -> parser A) :
  (forall j, winP Q (h j)) -> winP Q (fun j => h j j).
Proof. intros H lo hi i a i' E. eapply H, E. Qed.

(* separated(0.., p, sep): every element lies in the window of the whole list *)
Lemma winP_separated_loop {A Sp} (Q : N -> N -> A -> Prop) (p : parser A) (sep : parser Sp) :
  mono p -> mono sep -> winP Q p ->
  forall fuel acc lo hi i l i', separated_loop fuel p sep acc i = Ok l i' ->
    (lo <= pos i)%N -> (pos i' <= hi)%N -> Forall (Q lo hi) acc -> Forall (Q lo hi) l.
Proof.
  intros Mp Ms Hp. induction fuel as [|f IH]; intros acc lo hi i l i' H L U Ha; cbn [separated_loop] in H; [discriminate|].
  destruct (sep i) as [x i1|? ?|? ?|?] eqn:E; try discriminate.
  - destruct (Nat.eqb _ _); [discriminate|].
    destruct (p i1) as [a i2|? ?|? ?|?] eqn:E2; try discriminate.
    + pose proof (mono_le _ _ _ _ Ms E). pose proof (mono_le _ _ _ _ Mp E2).
      pose proof (ext_pos_le _ _ _ (separated_loop_mono anyb p sep Mp Ms _ _ _ _ _ H)).
      eapply IH; [exact H|lia|exact U|]. constructor; [|exact Ha]. eapply Hp; [exact E2|lia|lia].
    + inversion H; subst. apply Forall_rev, Ha.
  - inversion H; subst. apply Forall_rev, Ha.
Qed.
Lemma winP_separated0 {A Sp} (Q : N -> N -> A -> Prop) (p : parser A) (sep : parser Sp) :
  mono p -> mono sep -> winP Q p -> winP (fun lo hi l => Forall (Q lo hi) l) (separated0 p sep).
Proof.
  intros Mp Ms Hp lo hi i l i' H L U. unfold separated0 in H.
  destruct (p i) as [a i1|? ?|? ?|?] eqn:E; try discriminate.
  - pose proof (mono_le _ _ _ _ Mp E).
    pose proof (ext_pos_le _ _ _ (separated_loop_mono anyb p sep Mp Ms _ _ _ _ _ H)).
    eapply winP_separated_loop; eauto; [lia|]. constructor; [|constructor]. eapply Hp; [exact E|lia|lia].
  - inversion H; subst. constructor.
Qed.
Lemma winP_separated1 {A Sp} (Q : N -> N -> A -> Prop) (p : parser A) (sep : parser Sp) :
  mono p -> mono sep -> winP Q p -> winP (fun lo hi l => Forall (Q lo hi) l) (separated1 p sep).
Proof.
  intros Mp Ms Hp lo hi i l i' H L U. unfold separated1 in H.
  destruct (p i) as [a i1|? ?|? ?|?] eqn:E; try discriminate.
  pose proof (mono_le _ _ _ _ Mp E).
  pose proof (ext_pos_le _ _ _ (separated_loop_mono anyb p sep Mp Ms _ _ _ _ _ H)).
  eapply winP_separated_loop; eauto; [lia|]. constructor; [|constructor]. eapply Hp; [exact E|lia|lia].
Qed.

(* ---- small facts about the predicates -------------------------------------------------------------- *)
Lemma raw_with_span_in lo hi sp : sp_in lo hi sp = true -> raw_in lo hi (raw_with_span sp) = true.
Proof.
  intro H. unfold raw_with_span. destruct (fst sp =? snd sp)%N; [reflexivity|].
  unfold raw_in; cbn [raw_span osp_in]. unfold sp_in in *; cbn [fst snd]. exact H.
Qed.
Lemma raw_in_empty lo hi : raw_in lo hi REmpty = true. Proof. reflexivity. Qed.
Lemma decor_in_default lo hi : decor_in lo hi decor_default = true. Proof. reflexivity. Qed.
Lemma decor_in_new lo hi p s : raw_in lo hi p = true -> raw_in lo hi s = true -> decor_in lo hi (decor_new p s) = true.
Proof. intros H1 H2. unfold decor_in, decor_new; cbn [d_prefix d_suffix oraw_in]. rewrite H1, H2. reflexivity. Qed.

Lemma andb3 a b c : a && b && c = true <-> a = true /\ b = true /\ c = true.
Proof. destruct a, b, c; cbn; tauto. Qed.
Lemma andb4 a b c d : a && b && c && d = true <-> a = true /\ b = true /\ c = true /\ d = true.
Proof. destruct a, b, c, d; cbn; tauto. Qed.

Lemma value_in_decorate lo hi v p s :
  value_in lo hi v = true -> raw_in lo hi p = true -> raw_in lo hi s = true ->
  value_in lo hi (value_decorate v p s) = true.
Proof.
  intros Hv Hp Hs. pose proof (decor_in_new lo hi p s Hp Hs) as D.
  destruct v as [x r d|vals tr c d sp|items pre im dt d sp]; cbn [value_decorate value_in] in *.
  - apply andb_true_iff in Hv as [H1 _]. rewrite H1, D. reflexivity.
  - apply andb4 in Hv as (H1 & H2 & _ & H4). apply andb4. auto.
  - apply andb4 in Hv as (H1 & H2 & _ & H4). apply andb4. auto.
Qed.

(* ---- monotonicity in the window ------------------------------------------------------------------------ *)
Section Mono.
  Variables lo hi lo' hi' : N.
  Hypothesis Hlo : (lo' <= lo)%N.
  Hypothesis Hhi : (hi <= hi')%N.

  Lemma sp_in_mono sp : sp_in lo hi sp = true -> sp_in lo' hi' sp = true.
  Proof. unfold sp_in. lia. Qed.
  Lemma osp_in_mono o : osp_in lo hi o = true -> osp_in lo' hi' o = true.
  Proof. destruct o; cbn [osp_in]; [apply sp_in_mono|auto]. Qed.
  Lemma raw_in_mono r : raw_in lo hi r = true -> raw_in lo' hi' r = true.
  Proof. apply osp_in_mono. Qed.
  Lemma oraw_in_mono o : oraw_in lo hi o = true -> oraw_in lo' hi' o = true.
  Proof. destruct o; cbn [oraw_in]; [apply raw_in_mono|auto]. Qed.
  Lemma decor_in_mono d : decor_in lo hi d = true -> decor_in lo' hi' d = true.
  Proof.
    unfold decor_in. intro H. apply andb_true_iff in H as [H1 H2].
    rewrite (oraw_in_mono _ H1), (oraw_in_mono _ H2). reflexivity.
  Qed.
  Lemma key_in_mono k : key_in lo hi k = true -> key_in lo' hi' k = true.
  Proof.
    unfold key_in. intro H. apply andb3 in H as (H1 & H2 & H3).
    rewrite (oraw_in_mono _ H1), (decor_in_mono _ H2), (decor_in_mono _ H3). reflexivity.
  Qed.

  Lemma forallb_Forall_imp {A} (f g : A -> bool) l :
    Forall (fun x => f x = true -> g x = true) l -> forallb f l = true -> forallb g l = true.
  Proof.
    induction 1 as [|x l Hx Hl IH]; [auto|]. cbn [forallb]. intro H. apply andb_true_iff in H as [H1 H2].
    rewrite (Hx H1), (IH H2). reflexivity.
  Qed.
  Lemma forallb_kv_imp (P : item -> Prop) (l : list (key * item)) :
    Forall (fun kv => item_in lo hi (snd kv) = true -> item_in lo' hi' (snd kv) = true) l ->
    forallb (fun kv => key_in lo hi (fst kv) && item_in lo hi (snd kv)) l = true ->
    forallb (fun kv => key_in lo' hi' (fst kv) && item_in lo' hi' (snd kv)) l = true.
  Proof.
    intro H. apply forallb_Forall_imp. eapply Forall_impl; [|exact H]. intros kv Hkv E.
    apply andb_true_iff in E as [E1 E2]. rewrite (key_in_mono _ E1), (Hkv E2). reflexivity.
  Qed.

  Lemma tree_in_mono :
    (forall v, value_in lo hi v = true -> value_in lo' hi' v = true)
    /\ (forall it, item_in lo hi it = true -> item_in lo' hi' it = true)
    /\ (forall t, tbl_in lo hi t = true -> tbl_in lo' hi' t = true).
  Proof.
    apply tree_ind3.
    - intros s r d H. cbn [value_in] in *. apply andb_true_iff in H as [H1 H2].
      rewrite (oraw_in_mono _ H1), (decor_in_mono _ H2). reflexivity.
    - intros vals tr c d sp IH H. cbn [value_in] in *. apply andb4 in H as (H1 & H2 & H3 & H4). apply andb4.
      repeat split; [eapply forallb_Forall_imp; eauto|apply raw_in_mono|apply decor_in_mono|apply osp_in_mono]; assumption.
    - intros items pre im dt d sp IH H. cbn [value_in] in *. apply andb4 in H as (H1 & H2 & H3 & H4). apply andb4.
      repeat split; [eapply (forallb_kv_imp (fun _ => True)); eauto|apply raw_in_mono|apply decor_in_mono|apply osp_in_mono]; assumption.
    - auto.
    - intros v IH H. exact (IH H).
    - intros t IH H. exact (IH H).
    - intros ts sp IH H. cbn [item_in] in *. apply andb_true_iff in H as [H1 H2]. apply andb_true_iff.
      split; [eapply forallb_Forall_imp; eauto|apply osp_in_mono; assumption].
    - intros items d im dt p sp IH H. cbn [tbl_in] in *. apply andb3 in H as (H1 & H2 & H3). apply andb3.
      repeat split; [eapply (forallb_kv_imp (fun _ => True)); eauto|apply decor_in_mono|apply osp_in_mono]; assumption.
  Qed.
  Lemma value_in_mono v : value_in lo hi v = true -> value_in lo' hi' v = true.
  Proof. apply tree_in_mono. Qed.
  Lemma item_in_mono it : item_in lo hi it = true -> item_in lo' hi' it = true.
  Proof. apply tree_in_mono. Qed.
  Lemma tbl_in_mono t : tbl_in lo hi t = true -> tbl_in lo' hi' t = true.
  Proof. apply tree_in_mono. Qed.
  Lemma kv_in_mono kv : kv_in lo hi kv = true -> kv_in lo' hi' kv = true.
  Proof.
    unfold kv_in. intro H. apply andb_true_iff in H as [H1 H2].
    rewrite (key_in_mono _ H1), (item_in_mono _ H2). reflexivity.
  Qed.
  Lemma items_in_mono m : items_in lo hi m = true -> items_in lo' hi' m = true.
  Proof.
    unfold items_in. apply forallb_Forall_imp. apply Forall_forall. intros kv _. apply kv_in_mono.
  Qed.
End Mono.

(* ---- association lists ----------------------------------------------------------------------------------- *)
Lemma tbl_in_items lo hi t :
  tbl_in lo hi t = items_in lo hi (t_items t) && decor_in lo hi (t_decor t) && osp_in lo hi (t_span t).
Proof. destruct t; reflexivity. Qed.
Lemma inline_in_items lo hi items pre im dt d sp :
  value_in lo hi (VInline items pre im dt d sp)
  = items_in lo hi items && raw_in lo hi pre && decor_in lo hi d && osp_in lo hi sp.
Proof. reflexivity. Qed.
Lemma value_in_scalar lo hi s r d : value_in lo hi (VScalar s r d) = oraw_in lo hi r && decor_in lo hi d.
Proof. reflexivity. Qed.
Lemma value_in_array lo hi vals tr c d sp :
  value_in lo hi (VArray vals tr c d sp)
  = forallb (item_in lo hi) vals && raw_in lo hi tr && decor_in lo hi d && osp_in lo hi sp.
Proof. reflexivity. Qed.
Lemma item_in_inline lo hi items pre im dt d sp :
  item_in lo hi (IValue (VInline items pre im dt d sp))
  = items_in lo hi items && raw_in lo hi pre && decor_in lo hi d && osp_in lo hi sp.
Proof. reflexivity. Qed.
Lemma item_in_table lo hi t : item_in lo hi (ITable t) = tbl_in lo hi t.
Proof. reflexivity. Qed.
Lemma item_in_value lo hi v : item_in lo hi (IValue v) = value_in lo hi v.
Proof. reflexivity. Qed.
Lemma item_in_aot lo hi ts sp : item_in lo hi (IAot ts sp) = forallb (tbl_in lo hi) ts && osp_in lo hi sp.
Proof. reflexivity. Qed.

Section Kvs.
  Variables lo hi : N.
  Lemma items_in_get m k k' it : items_in lo hi m = true -> kv_get m k = Some (k', it) ->
    key_in lo hi k' = true /\ item_in lo hi it = true.
  Proof.
    induction m as [|[k0 v0] m IH]; cbn [kv_get items_in forallb]; [discriminate|].
    intros H E. apply andb_true_iff in H as [H1 H2]. destruct (bytes_eqb _ _).
    - inversion E; subst. unfold kv_in in H1; cbn [fst snd] in H1. apply andb_true_iff in H1. exact H1.
    - apply IH; assumption.
  Qed.
  Lemma items_in_push m k v : items_in lo hi m = true -> key_in lo hi k = true -> item_in lo hi v = true ->
    items_in lo hi (kv_push m k v) = true.
  Proof.
    intros H1 H2 H3. unfold kv_push, items_in in *. rewrite forallb_app, H1. cbn [forallb]. unfold kv_in; cbn [fst snd].
    rewrite H2, H3. reflexivity.
  Qed.
  Lemma items_in_set m k v : items_in lo hi m = true -> item_in lo hi v = true -> items_in lo hi (kv_set m k v) = true.
  Proof.
    intros H1 H2. induction m as [|[k0 v0] m IH]; [reflexivity|]. cbn [kv_set items_in forallb] in *.
    apply andb_true_iff in H1 as [Ha Hb]. destruct (bytes_eqb _ _); cbn [forallb].
    - unfold kv_in in *; cbn [fst snd] in *. apply andb_true_iff in Ha as [Ha _]. rewrite Ha, H2. exact Hb.
    - rewrite Ha. apply IH, Hb.
  Qed.
  Lemma items_in_remove m k : items_in lo hi m = true -> items_in lo hi (kv_remove m k) = true.
  Proof.
    induction m as [|[k0 v0] m IH]; [reflexivity|]. cbn [kv_remove items_in forallb]. intro H.
    apply andb_true_iff in H as [Ha Hb]. destruct (bytes_eqb _ _); [exact Hb|]. cbn [forallb]. rewrite Ha. apply IH, Hb.
  Qed.
End Kvs.
