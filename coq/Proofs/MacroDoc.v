(* Proofs/MacroDoc.v — C19: arrays and inline tables (the @trailingcomma / @array / @table loops), statements
   and whole documents: the expansion of `toml!{ tokens_of l }` returns what `eval l` says, within the fuel
   the model gives itself. *)
From TV Require Import Base.Prelude Base.Utf8 Model.Datetime Model.DatetimeStd Model.Numbers Model.Macro Spec.Defs Spec.MacroSpec.
From TV Require Import Proofs.MacroSem Proofs.MacroMatch Proofs.MacroRules Proofs.MacroTails Proofs.MacroEval Proofs.MacroAux
  Proofs.MacroCtx Proofs.MacroStmt Proofs.MacroScalar.
Require Import Lia.

(* ---- an induction principle for values ---- *)
Lemma aval_ind' : forall P : aval -> Prop,
  (forall s, P (AStr s)) -> (forall sg t, P (AInt sg t)) -> (forall sg t, P (AFloat sg t)) ->
  (forall sg nan, P (ASpecial sg nan)) -> (forall b, P (ABool b)) -> (forall d, P (ADt d)) ->
  (forall l tr, Forall P l -> P (AArr l tr)) ->
  (forall ps, Forall (fun px => P (snd px)) ps -> P (AInl ps)) ->
  forall v, P v.
Proof.
  intros P Hs Hi Hf Hx Hb Hd Ha Hl.
  fix F 1. intros [s|sg t|sg t|sg nan|b|d|l tr|ps].
  - apply Hs. - apply Hi. - apply Hf. - apply Hx. - apply Hb. - apply Hd.
  - apply Ha. induction l as [|x l IH]; constructor; [apply F|exact IH].
  - apply Hl. induction ps as [|[p x] ps IH]; constructor; [apply F|exact IH].
Qed.

(* ---- token lists with commas ---- *)
Definition with_commas (groups : list (list tt)) : list tt := flat_map (fun g => g ++ [TPunct c_comma]) groups.

Lemma join_commas : forall groups, groups <> [] ->
  join_tts (Some c_comma) groups ++ [TPunct c_comma] = with_commas groups.
Proof.
  induction groups as [|g [|g2 groups] IH]; intro H; [contradiction| |].
  - cbn. rewrite app_nil_r. reflexivity.
  - change (join_tts (Some c_comma) (g :: g2 :: groups)) with (g ++ [TPunct c_comma] ++ join_tts (Some c_comma) (g2 :: groups)).
    change (with_commas (g :: g2 :: groups)) with ((g ++ [TPunct c_comma]) ++ with_commas (g2 :: groups)).
    rewrite <- IH by discriminate. rewrite <- !app_assoc. reflexivity.
Qed.

Lemma join_last : forall groups X t, groups <> [] -> (forall g, In g groups -> g <> []) ->
  last groups [] = X ++ [t] ->
  exists Y, join_tts (Some c_comma) groups = Y ++ [t].
Proof.
  induction groups as [|g [|g2 groups] IH]; intros X t Hne Hall Hl; [contradiction| |].
  - cbn in *. exists X. exact Hl.
  - change (join_tts (Some c_comma) (g :: g2 :: groups)) with (g ++ [TPunct c_comma] ++ join_tts (Some c_comma) (g2 :: groups)).
    destruct (IH X t) as [Y HY]; [discriminate|intros; apply Hall; right; assumption|exact Hl|].
    rewrite HY. exists (g ++ [TPunct c_comma] ++ Y). rewrite <- !app_assoc. reflexivity.
Qed.

(* ---- first and last token of a value ---- *)
Lemma dt_toks_shape : forall d, dt_ok d = true ->
  (exists l X, dt_toks d = TLit l :: X) /\ (exists X l, dt_toks d = X ++ [TLit l]).
Proof.
  intros [date delim time off] H. unfold dt_ok in H. unfold dt_toks. cbn [ds_date ds_time ds_delim ds_off] in *.
  destruct date as [[[y m] dd]|]; destruct time as [[[[hh mi] ss] fr]|]; try discriminate H.
  - apply andb_true_iff in H as [_ Hoff]. unfold time_toks. rewrite sec_tok_lit.
    split; [eexists; eexists; reflexivity|].
    destruct off as [|c|neg oh om]; cbn [off_toks].
    + destruct (byte_eqb delim c_space); rewrite app_nil_r.
      * eexists [_; _; _; _; _; _; _; _; _]; eexists; reflexivity.
      * eexists [_; _; _; _; _; _; _; _]; eexists; reflexivity.
    + destruct (byte_eqb delim c_space); rewrite app_nil_r.
      * eexists [_; _; _; _; _; _; _; _; _]; eexists; reflexivity.
      * eexists [_; _; _; _; _; _; _; _]; eexists; reflexivity.
    + destruct (byte_eqb delim c_space).
      * eexists [_; _; _; _; _; _; _; _; _; _; _; _; _]; eexists; reflexivity.
      * eexists [_; _; _; _; _; _; _; _; _; _; _; _]; eexists; reflexivity.
  - split; [eexists; eexists; reflexivity|]. eexists [_; _; _; _]; eexists; reflexivity.
  - unfold time_toks. rewrite sec_tok_lit. apply andb_true_iff in H as [_ Hoff]. destruct off; try discriminate Hoff.
    cbn [off_toks]. split; [eexists; eexists; reflexivity|]. eexists [_; _; _; _]; eexists; reflexivity.
Qed.

Lemma val_toks_last : forall v, val_ok v = true -> exists X t, val_toks v = X ++ [t] /\ is_plain t = true.
Proof.
  intros [s|sg t|sg t|sg nan|b|d|l tr|ps] H; cbn [val_toks].
  - exists [], (TLit (LStr s)). split; reflexivity.
  - exists (sign_toks sg), (TLit (LInt t)). split; reflexivity.
  - exists (sign_toks sg), (TLit (LFloat t)). split; reflexivity.
  - exists (sign_toks sg), (TIdent (if nan then id_nan else id_inf)). split; reflexivity.
  - exists [], (TIdent (if b then id_true else id_false)). split; reflexivity.
  - destruct (dt_toks_shape d H) as [_ [X [l Hl]]]. exists X, (TLit l). split; [exact Hl|reflexivity].
  - eexists [], _. split; reflexivity.
  - eexists [], _. split; reflexivity.
Qed.

Lemma val_toks_comma_head : forall v X, val_ok v = true -> comma_rest_ok (val_toks v ++ X) = true.
Proof.
  intros [s|sg t|sg t|sg nan|b|d|l tr|ps] X H; cbn [val_toks]; try reflexivity.
  - destruct sg; reflexivity.
  - destruct sg; reflexivity.
  - destruct sg; reflexivity.
  - destruct (dt_toks_shape d H) as [[l [Y Hl]] _]. rewrite Hl. reflexivity.
Qed.

Lemma val_toks_nonempty : forall v, val_ok v = true -> val_toks v <> [].
Proof.
  intros v H. destruct (val_toks_last v H) as [X [t [E _]]]. rewrite E. destruct X; discriminate.
Qed.

(* ---- costs (an upper bound of the expansion depth, as a sum) ---- *)
Definition arr_inner (l : list aval) (tr : bool) : list tt :=
  join_tts (Some c_comma) (List.map val_toks l) ++ (if tr then [TPunct c_comma] else []).
Definition pair_toks (px : kpath * aval) : list tt := key_toks (fst px) ++ [TPunct c_eq] ++ val_toks (snd px).
Definition inl_inner (ps : list (kpath * aval)) : list tt := join_tts (Some c_comma) (List.map pair_toks ps).

Lemma val_toks_arr : forall l tr, val_toks (AArr l tr) = [TGroup DBracket (arr_inner l tr)].
Proof. reflexivity. Qed.
Lemma val_toks_inl : forall ps, val_toks (AInl ps) = [TGroup DBrace (inl_inner ps)].
Proof. reflexivity. Qed.

Fixpoint vcost (v : aval) : nat :=
  match v with
  | AArr l tr =>
    3 + List.length (arr_inner l tr)
    + (fix sum (l : list aval) : nat := match l with [] => 0 | x :: tl => 2 + vcost x + sum tl end) l
  | AInl ps =>
    3 + List.length (inl_inner ps)
    + (fix sum (ps : list (kpath * aval)) : nat := match ps with [] => 0 | px :: tl => 2 + vcost (snd px) + sum tl end) ps
  | _ => 1
  end.
Definition elems_cost (l : list aval) : nat := fold_right (fun x acc => 2 + vcost x + acc) 0 l.
Definition pairs_cost (ps : list (kpath * aval)) : nat := fold_right (fun px acc => 2 + vcost (snd px) + acc) 0 ps.

Lemma elems_sum_eq : forall l,
  (fix sum (l : list aval) : nat := match l with [] => 0 | x :: tl => 2 + vcost x + sum tl end) l = elems_cost l.
Proof. induction l as [|x l IH]; [reflexivity|]. change (elems_cost (x :: l)) with (2 + vcost x + elems_cost l). rewrite <- IH. reflexivity. Qed.
Lemma pairs_sum_eq : forall ps,
  (fix sum (ps : list (kpath * aval)) : nat := match ps with [] => 0 | px :: tl => 2 + vcost (snd px) + sum tl end) ps = pairs_cost ps.
Proof. induction ps as [|x l IH]; [reflexivity|]. change (pairs_cost (x :: l)) with (2 + vcost (snd x) + pairs_cost l). rewrite <- IH. reflexivity. Qed.

Lemma vcost_arr : forall l tr, vcost (AArr l tr) = 3 + List.length (arr_inner l tr) + elems_cost l.
Proof. intros l tr. rewrite <- elems_sum_eq. reflexivity. Qed.
Lemma vcost_inl : forall ps, vcost (AInl ps) = 3 + List.length (inl_inner ps) + pairs_cost ps.
Proof. intros ps. rewrite <- pairs_sum_eq. reflexivity. Qed.

(* ---- the @array loop ---- *)
Lemma array_loop : forall r l ms acc, ident_frag_ok r = true ->
  Forall2 (fun v m => val_ok v = true /\ val_ev v m (vcost v)) l ms ->
  Ev (MArr acc) (st_in id_array r (with_commas (List.map val_toks l))) (EOk (MArr (acc ++ ms))) (1 + elems_cost l).
Proof.
  intros r l ms acc Hr H. revert acc. induction H as [|v m l ms [Hok Hev] Hrest IH]; intro acc.
  - cbn [List.map with_commas flat_map elems_cost fold_right]. rewrite app_nil_r.
    eapply Ev_mono; [eapply Ev_nothing; apply (arr_first_match_end r Hr)|lia].
  - cbn [List.map with_commas flat_map elems_cost fold_right]. rewrite <- app_assoc. cbn [app].
    eapply Ev_mono.
    + eapply (arr_value r acc v _ m); [exact Hr|exact Hok| |exact Hev|].
      * destruct l as [|v2 l2]; [reflexivity|]. inversion Hrest as [|? ? ? ? [Hok2 _] _]; subst.
        cbn [List.map flat_map]. rewrite <- app_assoc. apply val_toks_comma_head. exact Hok2.
      * specialize (IH (acc ++ [m])). rewrite <- app_assoc in IH. exact IH.
    + unfold elems_cost. lia.
Qed.

(* ---- the @table loop ---- *)
Lemma part_tok_key : forall p, key_tok (part_tok p) = true.
Proof. intros [s|s]; reflexivity. Qed.
Lemma key_segs_tok : forall p, Forall (Forall (fun t => key_tok t = true)) (List.map seg_parts p).
Proof.
  induction p as [|s p IH]; constructor; [|exact IH].
  destruct s as [ps|q]; cbn [seg_parts]; [|repeat constructor].
  induction ps as [|a ps IHp]; constructor; [apply part_tok_key|exact IHp].
Qed.

Lemma key_toks_head : forall p, path_ok p = true -> exists t X, key_toks p = t :: X /\ key_tok t = true.
Proof.
  intros p Hp. rewrite key_toks_dot.
  apply dot_join_not_group; [exact (proj1 (path_segs_ok p Hp))|apply key_segs_tok].
Qed.

Definition pair_ok (px : kpath * aval) (pr : list bytes * mval) : Prop :=
  path_ok (fst px) = true /\ val_ok (snd px) = true /\ fst pr = path_strings (fst px) /\ val_ev (snd px) (snd pr) (vcost (snd px)).

Lemma table_loop : forall r ps pairs, ident_frag_ok r = true -> Forall2 pair_ok ps pairs ->
  forall cur final, inline_helper_fold cur pairs = Some final ->
  Ev cur (st_in id_table r (with_commas (List.map pair_toks ps))) (EOk final) (1 + pairs_cost ps).
Proof.
  intros r ps pairs Hr H. induction H as [|[p v] [ks m] ps pairs [Hp [Hv [Hk Hev]]] Hrest IH]; intros cur final Hf.
  - cbn [inline_helper_fold] in Hf. injection Hf as <-.
    cbn [List.map with_commas flat_map pairs_cost fold_right]. 
    eapply Ev_mono; [eapply Ev_nothing; apply (tab_first_match_end r Hr)|lia].
  - cbn [fst snd] in *. subst ks. cbn [inline_helper_fold] in Hf.
    destruct (insert_toml cur (path_strings p) m) as [cur'|] eqn:Ei; [|discriminate].
    cbn [List.map with_commas flat_map pairs_cost fold_right snd]. unfold pair_toks at 1. cbn [fst snd].
    rewrite <- !app_assoc. cbn [app].
    eapply Ev_mono.
    + eapply (tab_value r p cur v _ m cur'); [exact Hr|exact Hp|exact Hv| |exact Hev|exact Ei|].
      * destruct ps as [|[p2 v2] ps2]; [reflexivity|]. inversion Hrest as [|? ? ? ? [Hp2 _] _]; subst.
        cbn [List.map flat_map]. unfold pair_toks at 1. cbn [fst snd].
        destruct (key_toks_head p2 Hp2) as [t [X [E Ht]]]. rewrite E. cbn [app].
        destruct t; try discriminate Ht; reflexivity.
      * apply IH. exact Hf.
    + unfold pairs_cost. lia.
Qed.

(* ---- arrays and inline tables as values ---- *)
Lemma id_array_ok : ident_frag_ok id_array = true. Proof. reflexivity. Qed.
Lemma id_table_ok : ident_frag_ok id_table = true. Proof. reflexivity. Qed.
Lemma id_root_ok : ident_frag_ok id_root = true. Proof. reflexivity. Qed.

Lemma tr_array_inline : forall X,
  transcribe_seq q_array_inline [(Vinline, tts_bnd X)] = tc_in [TPunct c_at; TIdent id_array; TIdent id_array] X.
Proof.
  intro X. unfold transcribe_seq, q_array_inline, qstate. cbn [app flat_map].
  rewrite (transcribe_star Vinline [(Vinline, tts_bnd X)] X eq_refl). cbn [transcribe flat_map Q app]. rewrite app_nil_r. reflexivity.
Qed.
Lemma tr_table_inline : forall X,
  transcribe_seq q_table_inline [(Vinline, tts_bnd X)] = tc_in [TPunct c_at; TIdent id_table; TIdent id_table] X.
Proof.
  intro X. unfold transcribe_seq, q_table_inline, qstate. cbn [app flat_map].
  rewrite (transcribe_star Vinline [(Vinline, tts_bnd X)] X eq_refl). cbn [transcribe flat_map Q app]. rewrite app_nil_r. reflexivity.
Qed.

Lemma last_map_ne : forall {A B} (f : A -> B) (l : list A) d d', l <> [] -> last (List.map f l) d' = f (last l d).
Proof.
  induction l as [|a [|b l] IH]; intros d d' H; [contradiction|reflexivity|].
  change (last (List.map f (a :: b :: l)) d') with (last (List.map f (b :: l)) d').
  change (last (a :: b :: l) d) with (last (b :: l) d). apply IH. discriminate.
Qed.

Lemma last_in : forall {A} (l : list A) d, l <> [] -> In (last l d) l.
Proof.
  induction l as [|a [|b l] IH]; intros d H; [contradiction|left; reflexivity|].
  right. change (last (a :: b :: l) d) with (last (b :: l) d). apply IH. discriminate.
Qed.

Lemma arr_ev : forall l tr ms, val_ok (AArr l tr) = true ->
  Forall2 (fun v m => val_ok v = true /\ val_ev v m (vcost v)) l ms ->
  val_ev (AArr l tr) (MArr ms) (vcost (AArr l tr)).
Proof.
  intros l tr ms Hok H. cbn [val_ev]. rewrite val_toks_arr, vcost_arr.
  set (X := arr_inner l tr).
  replace (3 + List.length X + elems_cost l) with (S (2 + List.length X + elems_cost l)) by lia.
  eapply Ev_valarray; [apply value_rule_bracket|]. rewrite tr_array_inline.
  cbn [val_ok] in Hok. apply andb_true_iff in Hok as [Hall Htr].
  destruct l as [|v0 l0].
  - (* [] *)
    destruct tr; [discriminate Htr|]. inversion H; subst. subst X. unfold arr_inner. cbn [List.map join_tts app elems_cost fold_right List.length].
    apply Ev_tc_nil. eapply Ev_nothing. apply (arr_first_match_end id_array id_array_ok).
  - set (l := v0 :: l0) in *.
    assert (Hne : List.map val_toks l <> []) by discriminate.
    assert (Hloop : Ev (MArr []) ([TPunct c_at; TIdent id_array; TIdent id_array] ++ join_tts (Some c_comma) (List.map val_toks l) ++ [TPunct c_comma])
                       (EOk (MArr ms)) (1 + elems_cost l)).
    { rewrite (join_commas _ Hne). exact (array_loop id_array l ms [] id_array_ok H). }
    destruct tr.
    + subst X. unfold arr_inner.
      eapply Ev_mono; [apply Ev_tc_comma; exact Hloop|]. rewrite app_length. cbn [List.length]. lia.
    + subst X. unfold arr_inner. rewrite app_nil_r.
      assert (Hlast : exists Y t, join_tts (Some c_comma) (List.map val_toks l) = Y ++ [t] /\ is_plain t = true).
      { assert (Hin : In (last l (AStr [])) l) by (apply last_in; discriminate).
        assert (Hvok : val_ok (last l (AStr [])) = true) by (rewrite forallb_forall in Hall; apply Hall; exact Hin).
        destruct (val_toks_last _ Hvok) as [Xl [t [El Ht]]].
        destruct (join_last (List.map val_toks l) Xl t Hne) as [Y HY].
        - intros g Hg. apply in_map_iff in Hg as [v [<- Hv]]. apply val_toks_nonempty. rewrite forallb_forall in Hall. apply Hall; exact Hv.
        - rewrite (last_map_ne val_toks l (AStr []) []) by discriminate. exact El.
        - exists Y, t. split; assumption. }
      destruct Hlast as [Y [t [EY Ht]]]. rewrite EY in *.
      rewrite <- app_assoc in Hloop.
      eapply Ev_mono; [apply (Ev_tc_plain _ Y _ t _ _ Ht Hloop)|].
      rewrite app_length. cbn [List.length]. lia.
Qed.

Lemma inl_ev : forall ps pairs t, val_ok (AInl ps) = true -> Forall2 pair_ok ps pairs ->
  inline_fold [] pairs = ROk t ->
  val_ev (AInl ps) (MTab (erase_tree t)) (vcost (AInl ps)).
Proof.
  intros ps pairs t Hok H Hfold. cbn [val_ev]. rewrite val_toks_inl, vcost_inl.
  set (X := inl_inner ps).
  replace (3 + List.length X + pairs_cost ps) with (S (2 + List.length X + pairs_cost ps)) by lia.
  eapply Ev_valtable; [apply value_rule_brace|]. rewrite tr_table_inline.
  pose proof (inline_helper_fold_ref pairs [] t Hfold) as Hh. change (MTab (erase_tree [])) with (MTab []) in Hh.
  cbn [val_ok] in Hok.
  destruct ps as [|px0 ps0].
  - inversion H; subst. cbn [inline_fold] in Hfold. injection Hfold as <-.
    subst X. unfold inl_inner. cbn [List.map join_tts pairs_cost fold_right List.length].
    apply Ev_tc_nil. eapply Ev_nothing. apply (tab_first_match_end id_table id_table_ok).
  - set (ps := px0 :: ps0) in *.
    assert (Hne : List.map pair_toks ps <> []) by discriminate.
    assert (Hloop : Ev (MTab []) ([TPunct c_at; TIdent id_table; TIdent id_table] ++ join_tts (Some c_comma) (List.map pair_toks ps) ++ [TPunct c_comma])
                       (EOk (MTab (erase_tree t))) (1 + pairs_cost ps)).
    { rewrite (join_commas _ Hne). exact (table_loop id_table ps pairs id_table_ok H (MTab []) _ Hh). }
    assert (Hlast : exists Y t, join_tts (Some c_comma) (List.map pair_toks ps) = Y ++ [t] /\ is_plain t = true).
    { assert (Hin : In (last ps ([], AStr [])) ps) by (apply last_in; discriminate).
      assert (Hvok : val_ok (snd (last ps ([], AStr []))) = true).
      { rewrite forallb_forall in Hok. specialize (Hok _ Hin). apply andb_true_iff in Hok as [_ Hv]. exact Hv. }
      destruct (val_toks_last _ Hvok) as [Xl [t0 [El Ht]]].
      destruct (join_last (List.map pair_toks ps) (key_toks (fst (last ps ([], AStr []))) ++ [TPunct c_eq] ++ Xl) t0 Hne) as [Y HY].
      - intros g Hg. apply in_map_iff in Hg as [px [<- Hpx]]. unfold pair_toks. destruct (key_toks (fst px)); discriminate.
      - rewrite (last_map_ne pair_toks ps ([], AStr []) []) by discriminate. unfold pair_toks. rewrite El.
        rewrite <- !app_assoc. reflexivity.
      - exists Y, t0. split; assumption. }
    destruct Hlast as [Y [t0 [EY Ht]]]. subst X. unfold inl_inner. rewrite EY in *.
    rewrite <- app_assoc in Hloop.
    eapply Ev_mono; [apply (Ev_tc_plain _ Y _ t0 _ _ Ht Hloop)|].
    rewrite app_length. cbn [List.length]. lia.
Qed.

(* ---- the meaning of composite values, element by element ---- *)
Lemma arr_meaning : forall l tr m, val_meaning (AArr l tr) = Some m ->
  exists ms, m = MArr ms /\ Forall2 (fun v m => val_meaning v = Some m) l ms.
Proof.
  intros l tr m H. cbn [val_meaning] in H.
  match type of H with optmap MArr (?F l) = _ => set (go := F) in * end.
  destruct (go l) as [ms|] eqn:E; [|discriminate]. injection H as <-. exists ms. split; [reflexivity|].
  revert ms E. induction l as [|x l IH]; intros ms E.
  - cbn in E. injection E as <-. constructor.
  - cbn in E. fold go in E. destruct (val_meaning x) as [a|] eqn:Ex; [|discriminate].
    destruct (go l) as [b|] eqn:El; [|discriminate]. injection E as <-. constructor; [exact Ex|apply IH; reflexivity].
Qed.

Lemma inl_meaning : forall ps m, val_meaning (AInl ps) = Some m ->
  exists pairs t, Forall2 (fun px pr => fst pr = path_strings (fst px) /\ val_meaning (snd px) = Some (snd pr)) ps pairs
                  /\ inline_fold [] pairs = ROk t /\ m = MTab (erase_tree t).
Proof.
  intros ps m H. cbn [val_meaning] in H.
  match type of H with match ?F ps with _ => _ end = _ => set (go := F) in * end.
  destruct (go ps) as [pairs|] eqn:E; [|discriminate].
  destruct (inline_fold [] pairs) as [t| |] eqn:Ef; try discriminate. injection H as <-.
  exists pairs, t. split; [|split; [exact Ef|reflexivity]].
  clear Ef. revert pairs E. induction ps as [|px ps IH]; intros pairs E.
  - cbn in E. injection E as <-. constructor.
  - cbn in E. fold go in E. destruct (val_meaning (snd px)) as [a|] eqn:Ex; [|discriminate].
    destruct (go ps) as [b|] eqn:El; [|discriminate]. injection E as <-. constructor; [split; [reflexivity|exact Ex]|apply IH; reflexivity].
Qed.

(* ---- every supported value ---- *)
Section Values.
(* date-times: proved in Proofs/MacroDt.v and discharged in Proofs/MacroTop.v *)
Hypothesis dt_agree : forall d dv, dt_ok d = true -> doc_datetime (dt_text d) = Some dv ->
  datetime_value (dt_norm_toks d) = EOk (MDatetime dv).

Theorem val_ev_holds : forall v m, val_ok v = true -> val_meaning v = Some m -> val_ev v m (vcost v).
Proof.
  induction v as [s|sg t|sg t|sg nan|b|d|l tr IH|ps IH] using aval_ind'; intros m Hok Hm.
  - cbn [val_meaning] in Hm. injection Hm as <-. apply str_ev.
  - cbn [val_meaning val_ok] in *. destruct (int_meaning sg t) as [z|] eqn:E; [|discriminate]. injection Hm as <-.
    apply int_ev; assumption.
  - cbn [val_meaning val_ok] in *. destruct (float_meaning sg t) as [f|] eqn:E; [|discriminate]. injection Hm as <-.
    apply float_ev; assumption.
  - cbn [val_meaning] in Hm. injection Hm as <-. apply special_ev.
  - cbn [val_meaning] in Hm. injection Hm as <-. apply bool_ev.
  - cbn [val_meaning val_ok] in *. destruct (doc_datetime (dt_text d)) as [dv|] eqn:E; [|discriminate]. injection Hm as <-.
    cbn [val_ev]. apply dt_agree; assumption.
  - destruct (arr_meaning l tr m Hm) as [ms [-> HF]].
    apply arr_ev; [exact Hok|].
    cbn [val_ok] in Hok. apply andb_true_iff in Hok as [Hall _].
    clear Hm. revert ms HF. induction l as [|x l IHl]; intros ms HF; inversion HF; subst; constructor.
    + inversion IH as [|? ? Hx _]; subst. cbn [forallb] in Hall. apply andb_true_iff in Hall as [Hxok _].
      split; [exact Hxok|apply Hx; assumption].
    + inversion IH; subst. cbn [forallb] in Hall. apply andb_true_iff in Hall as [_ Hlok]. apply IHl; assumption.
  - destruct (inl_meaning ps m Hm) as [pairs [t [HF [Hfold ->]]]].
    apply (inl_ev ps pairs t Hok); [|exact Hfold].
    cbn [val_ok] in Hok. clear Hm Hfold. revert pairs HF. induction ps as [|px ps IHp]; intros pairs HF; inversion HF as [|? pr ? ? [Hk Hv] Hrest]; subst; constructor.
    + inversion IH as [|? ? Hx _]; subst. cbn [forallb] in Hok. apply andb_true_iff in Hok as [Hpx _].
      apply andb_true_iff in Hpx as [Hp Hvok]. unfold pair_ok. repeat split; try assumption. apply Hx; assumption.
    + inversion IH; subst. cbn [forallb] in Hok. apply andb_true_iff in Hok as [_ Hlok]. apply IHp; assumption.
Qed.
End Values.

(* ---- what follows a statement ---- *)
Lemma tokens_of_cons : forall s l, tokens_of (s :: l) = stmt_toks s ++ tokens_of l.
Proof. reflexivity. Qed.

Lemma stmt_toks_head : forall s, stmt_ok s = true -> exists t X, stmt_toks s = t :: X /\ is_plain t = true.
Proof.
  intros [p|p|p v] H; cbn [stmt_ok stmt_toks] in *.
  - eexists; eexists; split; reflexivity.
  - eexists; eexists; split; reflexivity.
  - apply andb_true_iff in H as [Hp _]. destruct (key_toks_head p Hp) as [t [X [E Ht]]]. rewrite E.
    exists t. eexists. split; [reflexivity|]. destruct t; try discriminate Ht; reflexivity.
Qed.

Lemma tokens_head_plain : forall l, forallb stmt_ok l = true ->
  match tokens_of l with TPunct _ :: _ => False | _ => True end.
Proof.
  intros [|s l] H; [exact I|]. cbn [forallb] in H. apply andb_true_iff in H as [Hs _].
  rewrite tokens_of_cons. destruct (stmt_toks_head s Hs) as [t [X [E Ht]]]. rewrite E. cbn [app].
  destruct t; try discriminate Ht; exact I.
Qed.

Lemma key_eq_rest_ok : forall p Y, path_ok p = true -> rest_ok (key_toks p ++ TPunct c_eq :: Y) = true.
Proof.
  intros p Y Hp. rewrite key_toks_dot.
  pose proof (key_segs_tok p) as Hk. destruct (path_segs_ok p Hp) as [[Hne Hall] _].
  destruct (List.map seg_parts p) as [|s segs]; [contradiction|].
  inversion Hall as [|? ? Hs Hrest]; subst. inversion Hk as [|? ? Hks _]; subst.
  destruct s as [|t1 s]; [contradiction|]. inversion Hks as [|? ? Ht1 _]; subst.
  assert (Hpl : is_plain t1 = true) by (destruct t1; try discriminate Ht1; reflexivity).
  destruct s as [|t2 s].
  - destruct segs as [|s2 segs].
    + unfold dot_join. cbn [List.map join_tts dash_join app]. cbn [rest_ok]. rewrite Hpl. reflexivity.
    + rewrite dot_join_cons2. cbn [dash_join List.map join_tts app]. cbn [rest_ok]. rewrite Hpl. reflexivity.
  - destruct segs as [|s2 segs].
    + unfold dot_join. cbn [List.map join_tts]. rewrite dash_join_cons2. cbn [app rest_ok]. rewrite Hpl. reflexivity.
    + rewrite dot_join_cons2, dash_join_cons2. cbn [app rest_ok]. rewrite Hpl. reflexivity.
Qed.

Lemma rest_ok_tokens : forall l, forallb stmt_ok l = true -> rest_ok (tokens_of l) = true.
Proof.
  intros [|s l] H; [reflexivity|]. cbn [forallb] in H. apply andb_true_iff in H as [Hs Hl].
  rewrite tokens_of_cons. pose proof (tokens_head_plain l Hl) as Hh.
  destruct s as [p|p|p v]; cbn [stmt_ok stmt_toks] in *.
  - cbn [app rest_ok is_plain andb]. destruct (tokens_of l) as [|[]]; try reflexivity. contradiction.
  - cbn [app rest_ok is_plain andb]. destruct (tokens_of l) as [|[]]; try reflexivity. contradiction.
  - apply andb_true_iff in Hs as [Hp _]. rewrite <- app_assoc. cbn [app]. apply key_eq_rest_ok. exact Hp.
Qed.

(* ---- statements and documents ---- *)
Definition stmt_cost (s : astmt) : nat := match s with AKeyVal _ v => 2 + vcost v | _ => 1 end.
Definition dcost (l : list astmt) : nat := fold_right (fun s acc => stmt_cost s + acc) 1 l.

Section Doc.
Hypothesis dt_agree : forall d dv, dt_ok d = true -> doc_datetime (dt_text d) = Some dv ->
  datetime_value (dt_norm_toks d) = EOk (MDatetime dv).

Lemma hdr_continue : forall r pt segs R path,
  state_toks id_toplevel ++ [TIdent r; TGroup DBracket (List.map path_tok path)] ++ env_tts Vrest (E_hdr r pt segs R)
  = top_in r (List.map path_tok path) R.
Proof. intros. rewrite (env_tts_lookup Vrest _ R) by reflexivity. reflexivity. Qed.

Theorem doc_ev : forall l t cp s', forallb stmt_ok l = true -> ref_fold (t, cp) l = Some s' ->
  Ev (MTab (erase_tree t)) (top_in id_root (List.map path_tok cp) (tokens_of l)) (EOk (MTab (erase_tree (fst s')))) (dcost l).
Proof.
  induction l as [|st l IH]; intros t cp s' Hok Hf.
  - cbn [ref_fold] in Hf. injection Hf as <-. cbn [tokens_of flat_map dcost fold_right fst].
    eapply Ev_nothing. apply (top_first_match_end id_root _ id_root_ok).
  - cbn [forallb] in Hok. apply andb_true_iff in Hok as [Hst Hl].
    cbn [ref_fold] in Hf. destruct (stmt_meaning st) as [m|] eqn:Em; [|discriminate].
    destruct (ref_step (t, cp) m) as [[t1 cp1]| |] eqn:Es; try discriminate.
    pose proof (helper_step_ref t cp m t1 cp1 Es) as Hh.
    specialize (IH t1 cp1 s' Hl Hf). pose proof (rest_ok_tokens l Hl) as HR.
    rewrite tokens_of_cons. change (dcost (st :: l)) with (stmt_cost st + dcost l).
    destruct st as [p|p|p v]; cbn [stmt_ok stmt_toks stmt_meaning stmt_cost] in *.
    + (* [p] *)
      injection Em as <-. cbn [helper_step] in Hh.
      destruct (insert_table_toml (MTab (erase_tree t)) (path_strings p)) as [root'|] eqn:Ei; [|discriminate]. injection Hh as -> <-.
      destruct (path_segs_ok p Hst) as [Hsegs Hsok].
      rewrite key_toks_dot. cbn [app].
      eapply Ev_tabheader.
      * apply (tabhdr_first_match id_root _ _ _ id_root_ok Hsegs (key_segs_tok p) HR).
      * rewrite (env_segs_lookup Vpath _ (List.map seg_parts p)) by reflexivity. apply key_strs_path. exact Hsok.
      * reflexivity.
      * exact Ei.
      * rewrite hdr_continue. exact IH.
    + (* [[p]] *)
      injection Em as <-. cbn [helper_step] in Hh.
      destruct (push_toml (MTab (erase_tree t)) (path_strings p)) as [root'|] eqn:Ei; [|discriminate]. injection Hh as -> <-.
      destruct (path_segs_ok p Hst) as [Hsegs Hsok].
      rewrite key_toks_dot. cbn [app].
      eapply Ev_arrheader.
      * apply (arrhdr_first_match id_root _ _ _ id_root_ok Hsegs HR).
      * rewrite (env_segs_lookup Vpath _ (List.map seg_parts p)) by reflexivity. apply key_strs_path. exact Hsok.
      * reflexivity.
      * exact Ei.
      * rewrite hdr_continue. exact IH.
    + (* p = v *)
      apply andb_true_iff in Hst as [Hp Hv].
      destruct (val_meaning v) as [mv|] eqn:Ev; [|discriminate]. cbn [optmap] in Em. injection Em as <-.
      cbn [helper_step] in Hh.
      destruct (insert_toml (MTab (erase_tree t)) (cp ++ path_strings p) mv) as [root'|] eqn:Ei; [|discriminate].
      cbn [optmap] in Hh. injection Hh as -> <-.
      rewrite <- !app_assoc.
      eapply Ev_mono.
      * eapply (top_value id_root cp p _ v _ mv); [exact id_root_ok|exact Hp|exact Hv|exact HR| |exact Ei|exact IH].
        apply (val_ev_holds dt_agree); assumption.
      * lia.
Qed.
End Doc.
