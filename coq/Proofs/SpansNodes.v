(* Proofs/SpansNodes.v — C14, re-parsing at document level, part 1: the keys and value nodes of the tree.

   `tbl_nodes t` lists, for every key stored anywhere in t, the pair (key text, repr), and for every value
   node that is written as a value in the source (scalars, arrays, braces-delimited inline tables — not the
   tables made of dotted keys), the pair (span, data).  The state machine and the inline-table builder never
   change such a pair: every node of what they build is a node of what they were given.  So any property P of
   nodes established where the parser creates them holds for the whole document. *)
From TV Require Import Base.Prelude Base.Utf8 Base.Winnow Gen.Consts Spec.Abnf Spec.Lex Spec.Defs Spec.Syntax.
From TV Require Import Model.Trivia Model.Strings Model.Datetime Model.Numbers Model.Tree Model.Parse Model.Document.
From TV Require Import Proofs.LexEquivBase Proofs.GrammarBase.
From TV Require Import Proofs.NoPanicBase Proofs.NoPanicState.
From TV Require Import Proofs.SpansDefs Proofs.SpansBase Proofs.SpansLex Proofs.SpansState.
Require Import Lia.

Inductive nnode : Type :=
| NKey (text : bytes) (repr : option raw)
| NVal (sp : ospan) (d : dval).

Definition nk (k : key) : nnode := NKey (k_key k) (k_repr k).
(* tables made of dotted keys are not written as values *)
Definition exempt (v : value) : bool := match v with VInline _ _ im dt _ _ => im || dt | _ => false end.
Definition own_node (v : value) : list nnode := if exempt v then [] else [NVal (value_span v) (absv v)].

Fixpoint value_nodes (v : value) : list nnode :=
  own_node v ++
  match v with
  | VScalar _ _ _ => []
  | VArray vals _ _ _ _ => flat_map item_nodes vals
  | VInline items _ _ _ _ _ => flat_map (fun kv => nk (fst kv) :: item_nodes (snd kv)) items
  end
with item_nodes (it : item) : list nnode :=
  match it with
  | INone => []
  | IValue v => value_nodes v
  | ITable t => tbl_nodes t
  | IAot ts _ => flat_map tbl_nodes ts
  end
with tbl_nodes (t : tbl) : list nnode :=
  match t with
  | Tbl items _ _ _ _ _ => flat_map (fun kv => nk (fst kv) :: item_nodes (snd kv)) items
  end.

Definition items_nodes (m : kvs) : list nnode := flat_map (fun kv => nk (fst kv) :: item_nodes (snd kv)) m.
Definition sub_nodes (v : value) : list nnode :=
  match v with
  | VScalar _ _ _ => []
  | VArray vals _ _ _ _ => flat_map item_nodes vals
  | VInline items _ _ _ _ _ => items_nodes items
  end.

Lemma value_nodes_eq v : value_nodes v = own_node v ++ sub_nodes v.
Proof. destruct v; reflexivity. Qed.
Lemma tbl_nodes_eq t : tbl_nodes t = items_nodes (t_items t).
Proof. destruct t; reflexivity. Qed.
Lemma item_nodes_value v : item_nodes (IValue v) = value_nodes v. Proof. reflexivity. Qed.
Lemma item_nodes_table t : item_nodes (ITable t) = tbl_nodes t. Proof. reflexivity. Qed.
Lemma item_nodes_aot ts sp : item_nodes (IAot ts sp) = flat_map tbl_nodes ts. Proof. reflexivity. Qed.
Lemma tbl_nodes_set_items t m : tbl_nodes (t_set_items t m) = items_nodes m.
Proof. destruct t; reflexivity. Qed.
Lemma tbl_nodes_set_span t s : tbl_nodes (t_set_span t s) = tbl_nodes t.
Proof. destruct t; reflexivity. Qed.

Lemma value_nodes_decorate v p s : value_nodes (value_decorate v p s) = value_nodes v.
Proof. destruct v; reflexivity. Qed.
Lemma nk_set_leaf k d : nk (set_leaf k d) = nk k. Proof. reflexivity. Qed.
Lemma nk_set_dotted_prefix k r : nk (set_dotted_prefix k r) = nk k. Proof. reflexivity. Qed.
Lemma nk_set_dotted_suffix k r : nk (set_dotted_suffix k r) = nk k. Proof. reflexivity. Qed.

Lemma fix_key_path_nk path p : fix_key_path path = Some p -> map nk p = map nk path.
Proof.
  unfold fix_key_path. destruct path as [|first tl]; [discriminate|].
  set (first' := match d_prefix (k_dotted first) with Some _ => set_dotted_prefix first REmpty | None => first end).
  assert (Hf : nk first' = nk first) by (subst first'; destruct (d_prefix (k_dotted first)); reflexivity).
  destruct (rev (first' :: tl)) as [|last rinit] eqn:R; [discriminate|]. intro E. inversion E; subst p. clear E.
  set (last' := match d_suffix (k_dotted last) with Some _ => set_dotted_suffix last REmpty | None => last end).
  assert (Hl : forall d, nk (set_leaf last' d) = nk last).
  { intro d. rewrite nk_set_leaf. subst last'. destruct (d_suffix (k_dotted last)); reflexivity. }
  cbn [rev]. rewrite map_app. cbn [map]. rewrite Hl.
  change (map nk (rev rinit) ++ [nk last]) with (map nk (rev rinit) ++ map nk [last]).
  rewrite <- map_app. change (rev rinit ++ [last]) with (rev (last :: rinit)). rewrite <- R, rev_involutive.
  cbn [map]. rewrite Hf. reflexivity.
Qed.

(* ---- data is insensitive to the span bookkeeping ---------------------------------------------------------------- *)
Lemma absi_kv_set m k k0 old new :
  kv_get m k = Some (k0, old) -> absi new = absi old -> map absi_kv (kv_set m k new) = map absi_kv m.
Proof.
  induction m as [|[k1 v1] m IH]; cbn [kv_get kv_set map]; [discriminate|]. intros G E.
  destruct (bytes_eqb (k_key k1) k); cbn [map].
  - inversion G; subst. unfold absi_kv; cbn [fst snd]. rewrite E. reflexivity.
  - rewrite (IH G E). reflexivity.
Qed.
Lemma inline_set_spans_abs : forall path m ve, map absi_kv (inline_set_spans m path ve) = map absi_kv m.
Proof.
  induction path as [|k ptl IH]; intros m ve; cbn [inline_set_spans]; [reflexivity|].
  destruct (kv_get m (k_key k)) as [[k' it]|] eqn:G; [|reflexivity]. destruct it as [|val| |]; try reflexivity.
  destruct val as [s r d|vals tr c d sp|sub pre imp dt dec sp]; try reflexivity.
  eapply absi_kv_set; [exact G|]. cbn [absi]. rewrite !absv_inline, IH. reflexivity.
Qed.

Section P.
  Variable P : nnode -> Prop.
  Notation FP := (Forall P).

  Lemma Forall_flat_map {A} (f : A -> list nnode) l : Forall (fun a => FP (f a)) l -> FP (flat_map f l).
  Proof. induction 1 as [|a l Ha _ IH]; [constructor|]. cbn [flat_map]. apply Forall_app. auto. Qed.
  Lemma Forall_flat_map_inv {A} (f : A -> list nnode) l : FP (flat_map f l) -> Forall (fun a => FP (f a)) l.
  Proof.
    induction l as [|a l IH]; [constructor|]. cbn [flat_map]. intro H. apply Forall_app in H as [H1 H2]. constructor; auto.
  Qed.

  (* ---- association lists ------------------------------------------------------------------------------------------ *)
  Lemma nodes_get m k k' it : FP (items_nodes m) -> kv_get m k = Some (k', it) -> P (nk k') /\ FP (item_nodes it).
  Proof.
    induction m as [|[k0 v0] m IH]; cbn [kv_get]; [discriminate|]. unfold items_nodes. cbn [flat_map fst snd]. intros H E.
    inversion H as [|? ? H1 H2]; subst. apply Forall_app in H2 as [H2 H3]. destruct (bytes_eqb _ _); [inversion E; subst; auto|].
    apply IH; assumption.
  Qed.
  Lemma nodes_push m k v : FP (items_nodes m) -> P (nk k) -> FP (item_nodes v) -> FP (items_nodes (kv_push m k v)).
  Proof.
    intros H1 H2 H3. unfold kv_push, items_nodes. rewrite flat_map_app. apply Forall_app. split; [exact H1|].
    cbn [flat_map fst snd]. rewrite app_nil_r. constructor; assumption.
  Qed.
  Lemma nodes_set m k v : FP (items_nodes m) -> FP (item_nodes v) -> FP (items_nodes (kv_set m k v)).
  Proof.
    intros H1 H2. induction m as [|[k0 v0] m IH]; [constructor|]. unfold items_nodes in *. cbn [kv_set flat_map fst snd] in *.
    inversion H1 as [|? ? Ha Hb]; subst. apply Forall_app in Hb as [Hb Hc].
    destruct (bytes_eqb _ _); cbn [flat_map fst snd].
    - constructor; [exact Ha|]. apply Forall_app. auto.
    - constructor; [exact Ha|]. apply Forall_app. split; [exact Hb|]. apply IH, Hc.
  Qed.
  Lemma nodes_remove m k : FP (items_nodes m) -> FP (items_nodes (kv_remove m k)).
  Proof.
    induction m as [|[k0 v0] m IH]; [auto|]. unfold items_nodes in *. cbn [kv_remove flat_map fst snd]. intro H.
    inversion H as [|? ? Ha Hb]; subst. apply Forall_app in Hb as [Hb Hc]. destruct (bytes_eqb _ _); [exact Hc|].
    cbn [flat_map fst snd]. constructor; [exact Ha|]. apply Forall_app. auto.
  Qed.

  (* ---- inline tables ------------------------------------------------------------------------------------------------ *)
  Lemma inline_insert_n : forall path m dh pe k v m',
    FP (items_nodes m) -> FP (map nk path) -> P (nk k) -> FP (item_nodes v) ->
    inline_insert m dh path pe k v = COk m' -> FP (items_nodes m').
  Proof.
    induction path as [|pk ptl IH]; intros m dh pe k v m' Hm Hp Hk Hv E; cbn [inline_insert] in E.
    - destruct (Bool.eqb dh pe); [discriminate|]. destruct (kv_get m (k_key k)); [discriminate|].
      inversion E; subst. apply nodes_push; assumption.
    - cbn [map] in Hp. inversion Hp as [|? ? Hpk Hptl]; subst.
      destruct (kv_get m (k_key pk)) as [[k' it]|] eqn:G.
      + destruct (nodes_get _ _ _ _ Hm G) as [_ Hit]. destruct it as [|val| |]; try discriminate E.
        destruct val as [s r d|vals tr c d sp|sub pre imp dt dec sp]; try discriminate E.
        destruct imp; cbn [negb] in E; [|discriminate].
        destruct (inline_insert sub dt ptl pe k v) as [sub'| |] eqn:R; try discriminate E. inversion E; subst.
        rewrite item_nodes_value, value_nodes_eq in Hit. cbn [own_node exempt orb sub_nodes app] in Hit.
        apply nodes_set; [exact Hm|]. rewrite item_nodes_value, value_nodes_eq. cbn [own_node exempt orb sub_nodes app].
        eapply IH; [exact Hit|exact Hptl|exact Hk|exact Hv|exact R].
      + destruct (inline_insert [] true ptl pe k v) as [sub'| |] eqn:R; try discriminate E. inversion E; subst.
        apply nodes_push; [exact Hm|exact Hpk|]. rewrite item_nodes_value, value_nodes_eq. cbn [own_node exempt orb sub_nodes app].
        eapply IH; [|exact Hptl|exact Hk|exact Hv|exact R]. constructor.
  Qed.

  Definition pair_n (x : list key * (key * item)) : Prop :=
    FP (map nk (fst x)) /\ P (nk (fst (snd x))) /\ FP (item_nodes (snd (snd x))).

  Lemma table_from_pairs_loop_d_n : forall pairs m m',
    FP (items_nodes m) -> Forall pair_n pairs -> table_from_pairs_loop_d m pairs = COk m' -> FP (items_nodes m').
  Proof.
    induction pairs as [|[path [k v]] tl IH]; intros m m' Hm Hp E; cbn [table_from_pairs_loop_d] in E.
    - inversion E; subst. exact Hm.
    - inversion Hp as [|? ? Hx Htl]; subst. destruct Hx as (H1 & H2 & H3). cbn [fst snd] in *.
      destruct (check_depth _); [discriminate|].
      destruct (inline_insert m false path _ k v) as [m1| |] eqn:R; try discriminate E.
      eapply IH; [|exact Htl|exact E]. eapply inline_insert_n; eauto.
  Qed.

  Lemma inline_set_spans_n : forall path m ve, FP (items_nodes m) -> FP (items_nodes (inline_set_spans m path ve)).
  Proof.
    induction path as [|k ptl IH]; intros m ve Hm; cbn [inline_set_spans]; [exact Hm|].
    destruct (kv_get m (k_key k)) as [[k' it]|] eqn:G; [|exact Hm].
    destruct (nodes_get _ _ _ _ Hm G) as [_ Hit]. destruct it as [|val| |]; try exact Hm.
    destruct val as [s r d|vals tr c d sp|sub pre imp dt dec sp]; try exact Hm.
    apply nodes_set; [exact Hm|]. rewrite item_nodes_value, value_nodes_eq in *. apply Forall_app in Hit as [H1 H2].
    apply Forall_app. split; [|cbn [sub_nodes] in *; apply IH, H2].
    unfold own_node in *. cbn [exempt] in *. destruct (imp || dt) eqn:Ex; [constructor|].
    destruct dt; [rewrite orb_true_r in Ex; discriminate|]. cbn [value_span] in *.
    rewrite !absv_inline in *. rewrite inline_set_spans_abs. exact H1.
  Qed.
  Lemma inline_spans_pass_n : forall pairs m, FP (items_nodes m) -> FP (items_nodes (inline_spans_pass m pairs)).
  Proof.
    unfold inline_spans_pass. induction pairs as [|[path [k v]] tl IH]; intros m Hm; cbn [fold_left]; [exact Hm|].
    apply IH, inline_set_spans_n, Hm.
  Qed.

  Lemma table_from_pairs_n pairs pre v :
    Forall pair_n pairs -> table_from_pairs pairs pre = TmOk v -> FP (sub_nodes v) /\ exempt v = false /\ value_span v = None.
  Proof.
    intros Hp E. unfold table_from_pairs in E.
    destruct (table_from_pairs_loop_d [] pairs) as [m| |] eqn:R; try discriminate E. inversion E; subst.
    cbn [sub_nodes exempt orb value_span]. repeat split. apply inline_spans_pass_n.
    eapply table_from_pairs_loop_d_n; [|exact Hp|exact R]. constructor.
  Qed.

  (* ---- descend_path / the state machine -------------------------------------------------------------------------------- *)
  Lemma wta_n {X} (Q : X -> Prop) : forall path t dotted (f : tbl -> cres (tbl * X)),
    FP (tbl_nodes t) -> FP (map nk path) ->
    (forall p, FP (tbl_nodes p) -> cres_post (fun p' x => FP (tbl_nodes p') /\ Q x) (f p)) ->
    cres_post (fun t' x => FP (tbl_nodes t') /\ Q x) (with_table_at t path dotted f).
  Proof.
    induction path as [|k ptl IH]; intros t dotted f Ht Hp Hf; cbn [with_table_at]; [apply Hf, Ht|].
    cbn [map] in Hp. inversion Hp as [|? ? Hk Hptl]; subst. pose proof Ht as Hi. rewrite tbl_nodes_eq in Hi.
    destruct (kv_get (t_items t) (k_key k)) as [[k' it]|] eqn:G.
    - destruct (nodes_get _ _ _ _ Hi G) as [_ Hit]. destruct it as [|v|sub|ts sp]; try exact I.
      + destruct (dotted && negb (t_implicit sub)); [exact I|]. rewrite item_nodes_table in Hit.
        specialize (IH sub dotted f Hit Hptl Hf). destruct (with_table_at sub ptl dotted f) as [[sub' x]| |]; try exact I.
        destruct IH as [Hs Hq]. cbn [cres_post]. split; [|exact Hq].
        rewrite tbl_nodes_set_items. apply nodes_set; [exact Hi|]. rewrite item_nodes_table. exact Hs.
      + destruct (dotted && _); [exact I|]. destruct (rev ts) as [|last rinit] eqn:R; [exact I|].
        rewrite item_nodes_aot in Hit. apply Forall_flat_map_inv in Hit.
        assert (Hrev : Forall (fun t0 => FP (tbl_nodes t0)) (rev ts)) by (apply Forall_rev, Hit).
        rewrite R in Hrev. inversion Hrev as [|? ? Hl Hr]; subst.
        specialize (IH last dotted f Hl Hptl Hf). destruct (with_table_at last ptl dotted f) as [[last' x]| |]; try exact I.
        destruct IH as [Hs Hq]. cbn [cres_post]. split; [|exact Hq].
        rewrite tbl_nodes_set_items. apply nodes_set; [exact Hi|]. rewrite item_nodes_aot. apply Forall_flat_map.
        apply Forall_rev. constructor; assumption.
    - specialize (IH (Tbl [] decor_default true dotted None None) dotted f (Forall_nil _) Hptl Hf).
      destruct (with_table_at _ ptl dotted f) as [[sub' x]| |]; try exact I.
      destruct IH as [Hs Hq]. cbn [cres_post]. split; [|exact Hq].
      rewrite tbl_nodes_set_items. apply nodes_push; [exact Hi|exact Hk|]. rewrite item_nodes_table. exact Hs.
  Qed.

  Lemma items_nodes_set_same m k k0 old new :
    kv_get m k = Some (k0, old) -> item_nodes new = item_nodes old -> items_nodes (kv_set m k new) = items_nodes m.
  Proof.
    induction m as [|[k1 v1] m IH]; cbn [kv_get kv_set]; [discriminate|]. intros G E. unfold items_nodes in *.
    destruct (bytes_eqb (k_key k1) k); cbn [flat_map fst snd].
    - inversion G; subst. rewrite E. reflexivity.
    - rewrite (IH G E). reflexivity.
  Qed.
  Lemma set_dotted_spans_nodes : forall path t ve, tbl_nodes (set_dotted_spans t path ve) = tbl_nodes t.
  Proof.
    induction path as [|k ptl IH]; intros t ve; cbn [set_dotted_spans]; [reflexivity|].
    destruct (kv_get (t_items t) (k_key k)) as [[k' it]|] eqn:G; [|reflexivity]. destruct it as [|v|sub|ts sp]; try reflexivity.
    rewrite tbl_nodes_set_items, tbl_nodes_eq. eapply items_nodes_set_same; [exact G|].
    rewrite !item_nodes_table, IH. destruct (t_dotted sub); [|reflexivity].
    destruct (key_span k); [|reflexivity]. destruct ve; [|reflexivity]. apply tbl_nodes_set_span.
  Qed.

  Definition st_n (st : pstate) : Prop :=
    FP (tbl_nodes (st_root st)) /\ FP (tbl_nodes (st_current st)) /\ FP (map nk (st_path st)).

  Lemma st_n_new : st_n state_new.
  Proof. unfold st_n. cbn. repeat split; constructor. Qed.
  Lemma st_n_on_ws st sp : st_n st -> st_n (on_ws st sp).
  Proof. intro H. exact H. Qed.

  Lemma on_keyval_sp_n st path k v st' :
    st_n st -> FP (map nk path) -> P (nk k) -> FP (item_nodes v) -> on_keyval_sp st path k v = COk st' -> st_n st'.
  Proof.
    intros (Hr & Hc & Hp) Hpath Hk Hv E. unfold on_keyval_sp in E.
    destruct (on_keyval st path k v) as [st1| |] eqn:R; try discriminate E. inversion E; subst st'. clear E.
    unfold on_keyval in R. cbv zeta in R. set (k' := set_leaf k _) in *.
    set (cur := match t_span (st_current st), item_span v with
                | Some e, Some vs => t_set_span (st_current st) (Some (fst e, snd vs)) | _, _ => st_current st end) in *.
    assert (Hcur : FP (tbl_nodes cur)).
    { subst cur. destruct (t_span (st_current st)); [|exact Hc]. destruct (item_span v); [|exact Hc]. rewrite tbl_nodes_set_span. exact Hc. }
    match type of R with context [with_table_at cur path true ?f] =>
      pose proof (wta_n (fun _ : unit => True) path cur true f Hcur Hpath) as W end.
    match type of W with ?B -> _ => assert (X2 : B); [|specialize (W X2)] end.
    { intros t Ht0. destruct (Bool.eqb _ _); [exact I|]. destruct (kv_get _ _); [exact I|].
      cbn [cres_post]. split; [|exact I]. rewrite tbl_nodes_set_items. rewrite tbl_nodes_eq in Ht0.
      apply nodes_push; [exact Ht0|subst k'; rewrite nk_set_leaf; exact Hk|exact Hv]. }
    match type of R with match ?r with _ => _ end = _ => destruct r as [[cur' u]| |]; try discriminate R end.
    inversion R; subst st1. cbn [cres_post] in W. destruct W as [W _].
    unfold st_n; cbn [st_root st_current st_path]. rewrite set_dotted_spans_nodes. auto.
  Qed.

  Lemma pop_key_n kp path k : FP (map nk kp) -> pop_key kp = Some (path, k) -> FP (map nk path) /\ P (nk k).
  Proof.
    intros H E. unfold pop_key in E. destruct (rev kp) as [|last rinit] eqn:R; [discriminate|]. inversion E; subst.
    apply (f_equal (@rev key)) in R. rewrite rev_involutive in R. subst kp. cbn [rev] in H. rewrite map_app in H.
    apply Forall_app in H as [H1 H2]. cbn [map] in H2. inversion H2; subst. auto.
  Qed.

  Lemma finalize_n st st' :
    st_n st -> finalize_table st = COk st' -> FP (tbl_nodes (st_root st')) /\ st_current st' = tbl_new /\ st_path st' = [].
  Proof.
    intros (Hr & Hc & Hp) E. destruct st as [root tr posn cur ia path]. cbn [st_current st_root st_path] in *.
    destruct (pop_key path) as [[ppath k]|] eqn:Pk.
    - rewrite (finalize_eq _ _ _ _ _ _ _ _ Pk) in E. destruct (pop_key_n _ _ _ Hp Pk) as [Hpp Hk].
      assert (W : cres_post (fun p' (_ : unit) => FP (tbl_nodes p') /\ True)
                            (with_table_at root ppath false (if ia then f_fin_aot k cur else f_fin_std k cur))).
      { apply (wta_n (fun _ : unit => True)); [exact Hr|exact Hpp|]. intros parent Hpar. pose proof Hpar as Hi. rewrite tbl_nodes_eq in Hi.
        destruct ia.
        - unfold f_fin_aot. destruct (kv_get (t_items parent) (k_key k)) as [[k' it]|] eqn:G.
          + destruct (nodes_get _ _ _ _ Hi G) as [_ Hit]. destruct it as [|v|t|ts sp]; try exact I. cbv zeta.
            cbn [cres_post]. split; [|exact I]. rewrite tbl_nodes_set_items. apply nodes_set; [exact Hi|].
            rewrite item_nodes_aot in *. rewrite flat_map_app. apply Forall_app. split; [exact Hit|]. cbn [flat_map]. rewrite app_nil_r. exact Hc.
          + cbn [cres_post]. split; [|exact I]. rewrite tbl_nodes_set_items. apply nodes_push; [exact Hi|exact Hk|].
            rewrite item_nodes_aot. cbn [flat_map]. rewrite app_nil_r. exact Hc.
        - unfold f_fin_std. destruct (kv_get (t_items parent) (k_key k)) as [[k' it]|].
          + destruct it as [|v|t|ts sp]; try exact I. destruct (t_implicit t); [|exact I]. cbn [cres_post]. split; [|exact I].
            rewrite tbl_nodes_set_items. apply nodes_set; [exact Hi|]. rewrite item_nodes_table. exact Hc.
          + cbn [cres_post]. split; [|exact I]. rewrite tbl_nodes_set_items. apply nodes_push; [exact Hi|exact Hk|].
            rewrite item_nodes_table. exact Hc. }
      destruct (with_table_at root ppath false _) as [[root' u]| |]; try discriminate E. inversion E; subst st'.
      cbn [cres_post] in W. cbn [st_current st_root st_path]. tauto.
    - unfold finalize_table in E. cbn [st_current st_root st_trailing st_path st_is_array st_position] in E. rewrite Pk in E.
      destruct (tbl_is_empty root); [|discriminate]. inversion E; subst st'. cbn [st_current st_root st_path]. auto.
  Qed.

  Lemma start_n (ia : bool) st path dec sp st' :
    FP (tbl_nodes (st_root st)) -> st_current st = tbl_new -> FP (map nk path) ->
    (if ia then start_array_table st path dec sp else start_table st path dec sp) = COk st' -> st_n st'.
  Proof.
    intros Hr Hc Hpath E. destruct ia.
    - unfold start_array_table in E. destruct (negb _); [discriminate|]. destruct (st_path st); [|discriminate].
      destruct (pop_key path) as [[ppath k]|] eqn:Pk; [|discriminate]. destruct (pop_key_n _ _ _ Hpath Pk) as [Hpp Hk].
      match type of E with context [with_table_at _ ppath false ?f] =>
        pose proof (wta_n (fun _ : unit => True) ppath (st_root st) false f Hr Hpp) as W end.
      match type of W with ?B -> _ => assert (X2 : B); [|specialize (W X2)] end.
      { intros parent Hpar. destruct (kv_get (t_items parent) (k_key k)) as [[k' it]|].
        - destruct it; try exact I. cbn [cres_post]. auto.
        - cbn [cres_post]. split; [|exact I]. rewrite tbl_nodes_set_items. rewrite tbl_nodes_eq in Hpar.
          apply nodes_push; [exact Hpar|exact Hk|constructor]. }
      match type of E with match ?r with _ => _ end = _ => destruct r as [[root' u]| |]; try discriminate E end.
      inversion E; subst st'. cbn [cres_post] in W. destruct W as [W _]. unfold open_table, st_n.
      cbn [st_current st_root st_path]. rewrite Hc. cbn [t_items tbl_new tbl_nodes flat_map]. repeat split; auto.
    - unfold start_table in E. destruct (negb _); [discriminate|]. destruct (st_path st); [|discriminate].
      destruct (pop_key path) as [[ppath k]|] eqn:Pk; [|discriminate]. destruct (pop_key_n _ _ _ Hpath Pk) as [Hpp Hk].
      match type of E with context [with_table_at _ ppath false ?f] =>
        pose proof (wta_n (fun x : option tbl => match x with Some t => FP (tbl_nodes t) | None => True end)
                          ppath (st_root st) false f Hr Hpp) as W end.
      match type of W with ?B -> _ => assert (X2 : B); [|specialize (W X2)] end.
      { intros parent Hpar. pose proof Hpar as Hi. rewrite tbl_nodes_eq in Hi.
        destruct (kv_get (t_items parent) (k_key k)) as [[k' it]|] eqn:G; [|cbn [cres_post]; auto].
        destruct (nodes_get _ _ _ _ Hi G) as [_ Hit].
        destruct it as [|v|t|ts sp0]; try exact I. destruct (t_implicit t && negb (t_dotted t)); [|exact I].
        cbn [cres_post]. split; [|exact Hit]. rewrite tbl_nodes_set_items. apply nodes_remove, Hi. }
      match type of E with match ?r with _ => _ end = _ => destruct r as [[root' tk]| |]; try discriminate E end.
      inversion E; subst st'. cbn [cres_post] in W. destruct W as [W Wt]. unfold open_table, st_n.
      cbn [st_current st_root st_path]. repeat split; auto. cbn [tbl_nodes]. fold (items_nodes (t_items match tk with Some t => t | None => st_current st end)).
      destruct tk as [t|]; [rewrite <- tbl_nodes_eq; exact Wt|rewrite Hc; constructor].
  Qed.

  Lemma on_header_n (ia : bool) st path trailing sp st' :
    st_n st -> FP (map nk path) -> on_header ia st path trailing sp = COk st' -> st_n st'.
  Proof.
    intros Hst Hpath E. unfold on_header in E. destruct path as [|k0 ptl] eqn:Ep; [discriminate|]. rewrite <- Ep in *.
    destruct (finalize_table st) as [st1| |] eqn:F; try discriminate E.
    destruct (finalize_n _ _ Hst F) as (Hr & Hc & Hp). unfold take_trailing in E.
    eapply (start_n ia); [| | |exact E]; cbn [st_root st_current]; auto.
  Qed.
End P.
