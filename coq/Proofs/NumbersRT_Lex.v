(* Proofs/NumbersRT_Lex.v — what the digit-run lexers of parser/numbers.rs consume.
   `us_tail d s` is the length of the run `*( d / "_" d )` at the head of s (None: an underscore
   is not followed by a digit, where the grammar commits with cut_err).  The lemmas below say
   that the mini-winnow transcriptions compute exactly that. *)
From TV Require Import Base.Prelude Base.Utf8 Base.Winnow Gen.Consts Model.Datetime Model.Strings Model.Numbers.
Require Import Lia ZifyBool ZifyN ZifyNat.

(* ---- inputs -------------------------------------------------------------------------------- *)
Lemma advance_0 i : advance 0 i = i.
Proof. destruct i as [s p d]. unfold advance; cbn [rest pos depth skipn]. f_equal. lia. Qed.

Lemma skipn_skipn_ {A} (a b : nat) (l : list A) : skipn a (skipn b l) = skipn (b + a) l.
Proof.
  revert l; induction b as [|b IH]; intros l; [reflexivity|].
  destruct l as [|x l]; cbn [skipn plus]; [destruct a; reflexivity | apply IH].
Qed.

Lemma advance_advance a b i : advance a (advance b i) = advance (b + a) i.
Proof.
  destruct i as [s p d]. unfold advance; cbn [rest pos depth]. f_equal; [apply skipn_skipn_ | lia].
Qed.

Lemma rest_advance n i : rest (advance n i) = skipn n (rest i).
Proof. reflexivity. Qed.
Lemma pos_advance n i : pos (advance n i) = (pos i + N.of_nat n)%N.
Proof. reflexivity. Qed.
Lemma depth_advance n i : depth (advance n i) = depth i.
Proof. reflexivity. Qed.

Lemma pos_advance_sub n i : N.to_nat (pos (advance n i) - pos i) = n.
Proof. rewrite pos_advance. lia. Qed.

(* ---- result shapes ------------------------------------------------------------------------- *)
Definition is_cut {A} (r : res A) : Prop := match r with Cut _ _ => True | _ => False end.
Definition is_bt {A} (r : res A) : Prop := match r with Bt _ _ => True | _ => False end.
Definition is_err {A} (r : res A) : Prop := match r with Bt _ _ | Cut _ _ => True | _ => False end.
Definition is_ok {A} (r : res A) : Prop := match r with Ok _ _ => True | _ => False end.

Lemma is_cut_err {A} (r : res A) : is_cut r -> is_err r.
Proof. destruct r; simpl; auto. Qed.
Lemma is_bt_err {A} (r : res A) : is_bt r -> is_err r.
Proof. destruct r; simpl; auto. Qed.
Lemma is_err_not_ok {A} (r : res A) : is_err r -> forall a i, r <> Ok a i.
Proof. destruct r; simpl; intros H a' i' E; try discriminate; contradiction. Qed.

(* ---- ASCII text is valid UTF-8 -------------------------------------------------------------- *)
Definition ascii (b : byte) : bool := (b2n b <=? 127)%N.

Lemma ascii_utf8 s : forallb ascii s = true -> utf8_valid_b s = true.
Proof.
  induction s as [|b s IH]; [reflexivity|].
  cbn [forallb]. intro H. apply andb_true_iff in H as [Hb Hs].
  cbn [utf8_valid_b]. unfold ascii in Hb. rewrite Hb. apply IH, Hs.
Qed.

Lemma forallb_firstn {A} (f : A -> bool) n l : forallb f l = true -> forallb f (firstn n l) = true.
Proof.
  revert l; induction n as [|n IH]; intros [|x l]; cbn [firstn forallb]; auto.
  intro H. apply andb_true_iff in H as [H1 H2]. rewrite H1, (IH _ H2). reflexivity.
Qed.

(* ---- the digit-run scanner -------------------------------------------------------------------- *)
Fixpoint us_tail (d : byte -> bool) (s : bytes) : option nat :=
  match s with
  | [] => Some 0
  | b :: s' =>
    if d b then match us_tail d s' with Some n => Some (S n) | None => None end
    else if byte_eqb underscore b then
      match s' with
      | c :: s'' => if d c then match us_tail d s'' with Some n => Some (S (S n)) | None => None end
                    else None
      | [] => None
      end
    else Some 0
  end.

Lemma bytes_ind2 (P : bytes -> Prop) :
  P [] -> (forall b, P [b]) -> (forall b c s, P s -> P (c :: s) -> P (b :: c :: s)) -> forall s, P s.
Proof.
  intros H0 H1 H2.
  assert (H : forall s, P s /\ forall b, P (b :: s)).
  { induction s as [|c s [IH1 IH2]]; split; auto. }
  intro s; apply H.
Qed.

Lemma us_tail_cons d b s :
  us_tail d (b :: s) =
  if d b then match us_tail d s with Some n => Some (S n) | None => None end
  else if byte_eqb underscore b then
    match s with
    | c :: s'' => if d c then match us_tail d s'' with Some n => Some (S (S n)) | None => None end else None
    | [] => None
    end
  else Some 0.
Proof. reflexivity. Qed.

Lemma us_tail_le d s : forall n, us_tail d s = Some n -> n <= length s.
Proof.
  induction s as [|b|b c s IH1 IH2] using bytes_ind2; intros n H.
  - injection H as <-. auto.
  - cbn [us_tail] in H. destruct (d b); [injection H as <-; auto|].
    destruct (byte_eqb underscore b); [discriminate | injection H as <-; cbn; lia].
  - rewrite us_tail_cons in H. destruct (d b).
    + destruct (us_tail d (c :: s)) as [m|] eqn:E; [|discriminate].
      injection H as <-. specialize (IH2 _ eq_refl). cbn [length] in *. lia.
    + destruct (byte_eqb underscore b); [|injection H as <-; cbn; lia].
      destruct (d c); [|discriminate].
      destruct (us_tail d s) as [m|] eqn:E; [|discriminate]. injection H as <-.
      specialize (IH1 _ eq_refl). cbn [length]. lia.
Qed.

(* one iteration of `repeat(0.., alt((d.void(), (one_of(b'_'), cut_err(d).context(..)).void())))` *)
Definition us_step (d : byte -> bool) : parser unit :=
  pvoid (one_of d) <|> (byte_ underscore ;;; pvoid (context (cut_err (one_of d)))).

Lemma us_step_spec d i :
  us_step d i =
  match rest i with
  | b :: tl =>
    if d b then Ok tt (advance 1 i)
    else if byte_eqb underscore b then
      match tl with
      | c :: _ => if d c then Ok tt (advance 2 i) else Cut (mkErr None true) (advance 1 i)
      | [] => Cut (mkErr None true) (advance 1 i)
      end
    else Bt err0 i
  | [] => Bt err0 i
  end.
Proof.
  unfold us_step, alt, pvoid, pmap, bind, byte_, context, cut_err, one_of.
  destruct (rest i) as [|b tl] eqn:Hr; [reflexivity|].
  destruct (d b) eqn:Hd; [reflexivity|].
  destruct (byte_eqb underscore b) eqn:Hu; [|reflexivity].
  rewrite rest_advance, Hr. cbn [skipn].
  destruct tl as [|c tl]; [reflexivity|].
  destruct (d c); [|reflexivity].
  rewrite advance_advance. reflexivity.
Qed.

Lemma repeat_us d : forall fuel i acc,
  length (rest i) < fuel ->
  match us_tail d (rest i) with
  | Some n => exists l, repeat0_f fuel (us_step d) acc i = Ok l (advance n i)
  | None => is_cut (repeat0_f fuel (us_step d) acc i)
  end.
Proof.
  induction fuel as [|fuel IH]; intros i acc Hf; [lia|].
  cbn [repeat0_f]. rewrite us_step_spec.
  destruct (rest i) as [|b tl] eqn:Hr.
  - cbn [us_tail]. rewrite advance_0. eauto.
  - rewrite us_tail_cons. destruct (d b) eqn:Hd.
    + rewrite rest_advance, Hr. cbn [skipn length].
      replace (Nat.eqb (length tl) (S (length tl))) with false by (symmetry; apply Nat.eqb_neq; lia).
      specialize (IH (advance 1 i) (tt :: acc)).
      rewrite rest_advance, Hr in IH. cbn [skipn] in IH. cbn [length] in Hf.
      specialize (IH ltac:(lia)).
      destruct (us_tail d tl) as [n|].
      * destruct IH as [l IH]. exists l. rewrite IH, advance_advance. reflexivity.
      * exact IH.
    + destruct (byte_eqb underscore b) eqn:Hu.
      * destruct tl as [|c tl]; [exact I|].
        destruct (d c) eqn:Hc; [|exact I].
        rewrite rest_advance, Hr. cbn [skipn length].
        replace (Nat.eqb (length tl) (S (S (length tl)))) with false by (symmetry; apply Nat.eqb_neq; lia).
        specialize (IH (advance 2 i) (tt :: acc)).
        rewrite rest_advance, Hr in IH. cbn [skipn] in IH. cbn [length] in Hf.
        specialize (IH ltac:(lia)).
        destruct (us_tail d tl) as [n|].
        -- destruct IH as [l IH]. exists l. rewrite IH, advance_advance. reflexivity.
        -- exact IH.
      * rewrite advance_0. eauto.
Qed.

(* digits_us (one_of first) (one_of d) *)
Lemma digits_us_spec first d i :
  match rest i with
  | b :: tl =>
    if first b then
      match us_tail d tl with
      | Some n => digits_us (one_of first) (one_of d) i = Ok tt (advance (S n) i)
      | None => is_cut (digits_us (one_of first) (one_of d) i)
      end
    else digits_us (one_of first) (one_of d) i = Bt err0 i
  | [] => digits_us (one_of first) (one_of d) i = Bt err0 i
  end.
Proof.
  assert (E : digits_us (one_of first) (one_of d) i =
              match rest i with
              | b :: tl => if first b then pvoid (repeat0 (us_step d)) (advance 1 i) else Bt err0 i
              | [] => Bt err0 i
              end).
  { unfold digits_us. fold (us_step d). unfold bind, one_of.
    destruct (rest i) as [|b tl]; [reflexivity|]. destruct (first b); reflexivity. }
  rewrite E. clear E.
  destruct (rest i) as [|b tl] eqn:Hr; [reflexivity|].
  destruct (first b); [|reflexivity].
  unfold pvoid, pmap, repeat0.
  pose proof (repeat_us d (S (length (rest (advance 1 i)))) (advance 1 i) [] ltac:(lia)) as H.
  rewrite rest_advance, Hr in H. cbn [skipn] in H.
  rewrite rest_advance, Hr. cbn [skipn].
  destruct (us_tail d tl) as [n|].
  - destruct H as [l H]. rewrite H, advance_advance. reflexivity.
  - destruct (repeat0_f _ _ _ _); simpl in H; try contradiction. exact I.
Qed.

(* the consumed run is made of d-bytes and underscores *)
Lemma us_tail_forall (P : byte -> bool) d s :
  (forall b, d b = true -> P b = true) -> P underscore = true ->
  forall n, us_tail d s = Some n -> forallb P (firstn n s) = true.
Proof.
  intros Hd Hu.
  induction s as [|b|b c s IH1 IH2] using bytes_ind2; intros n H.
  - injection H as <-. reflexivity.
  - rewrite us_tail_cons in H. destruct (d b) eqn:Eb.
    + cbn [us_tail] in H. injection H as <-. cbn. rewrite (Hd _ Eb). reflexivity.
    + destruct (byte_eqb underscore b); [discriminate | injection H as <-; reflexivity].
  - rewrite us_tail_cons in H. destruct (d b) eqn:Eb.
    + destruct (us_tail d (c :: s)) as [m|] eqn:E; [|discriminate]. injection H as <-.
      cbn [firstn forallb]. rewrite (Hd _ Eb), (IH2 _ eq_refl). reflexivity.
    + destruct (byte_eqb underscore b) eqn:Eu; [|injection H as <-; reflexivity].
      apply byte_eqb_eq in Eu. subst b.
      destruct (d c) eqn:Ec; [|discriminate].
      destruct (us_tail d s) as [m|] eqn:E; [|discriminate]. injection H as <-.
      cbn [firstn forallb]. rewrite Hu, (Hd _ Ec), (IH1 _ eq_refl). reflexivity.
Qed.

(* ---- byte classes (generated constants) ------------------------------------------------------ *)
Definition is_sign (b : byte) : bool := byte_eqb b plus || byte_eqb b dash.

Lemma DIGIT_is_digit b : in_class DIGIT b = is_digit b.
Proof. unfold in_class, DIGIT, is_digit. cbn [existsb fst snd]. apply orb_false_r. Qed.
Lemma DT_DIGIT_is_digit b : in_class DT_DIGIT b = is_digit b.
Proof. unfold in_class, DT_DIGIT, is_digit. cbn [existsb fst snd]. apply orb_false_r. Qed.
Lemma DIGIT_ascii b : in_class DIGIT b = true -> ascii b = true.
Proof. unfold in_class, DIGIT, ascii. cbn [existsb fst snd]. lia. Qed.
Lemma DIGIT1_9_DIGIT b : in_class DIGIT1_9 b = true -> in_class DIGIT b = true.
Proof. unfold in_class, DIGIT, DIGIT1_9. cbn [existsb fst snd]. lia. Qed.
Lemma DIGIT0_7_ascii b : in_class DIGIT0_7 b = true -> ascii b = true.
Proof. unfold in_class, DIGIT0_7, ascii. cbn [existsb fst snd]. lia. Qed.
Lemma DIGIT0_1_ascii b : in_class DIGIT0_1 b = true -> ascii b = true.
Proof. unfold in_class, DIGIT0_1, ascii. cbn [existsb fst snd]. lia. Qed.
Lemma HEXDIG_ascii b : in_class HEXDIG b = true -> ascii b = true.
Proof. unfold in_class, HEXDIG, ascii. cbn [existsb fst snd]. lia. Qed.
Lemma sign_ascii b : is_sign b = true -> ascii b = true.
Proof.
  unfold is_sign. intro H. apply orb_true_iff in H as [H|H]; apply byte_eqb_eq in H; subst; reflexivity.
Qed.

(* ---- dec_int ------------------------------------------------------------------------------- *)
Inductive lexres : Set := LOk (n : nat) | LBt | LCut.

Definition dec_body_len (s : bytes) : lexres :=
  match s with
  | b :: tl =>
    if in_class DIGIT1_9 b
    then match us_tail (in_class DIGIT) tl with Some n => LOk (S n) | None => LCut end
    else if in_class DIGIT b then LOk 1 else LBt
  | [] => LBt
  end.
Definition dec_int_len (s : bytes) : lexres :=
  match s with
  | b :: tl => if is_sign b then match dec_body_len tl with LOk n => LOk (S n) | r => r end
               else dec_body_len s
  | [] => LBt
  end.

Definition dec_body : parser unit :=
  digits_us (one_of (in_class DIGIT1_9)) digit <|> pvoid digit.

Lemma dec_body_spec i :
  match dec_body_len (rest i) with
  | LOk n => dec_body i = Ok tt (advance n i)
  | LBt => is_bt (dec_body i)
  | LCut => is_cut (dec_body i)
  end.
Proof.
  unfold dec_body, alt, digit.
  pose proof (digits_us_spec (in_class DIGIT1_9) (in_class DIGIT) i) as H.
  unfold dec_body_len. destruct (rest i) as [|b tl] eqn:Hr.
  - rewrite H. unfold pvoid, pmap, one_of. rewrite Hr. exact I.
  - destruct (in_class DIGIT1_9 b) eqn:E19.
    + destruct (us_tail (in_class DIGIT) tl) as [n|].
      * rewrite H. reflexivity.
      * destruct (digits_us _ _ i); simpl in H; try contradiction. exact I.
    + rewrite H. unfold pvoid, pmap, one_of. rewrite Hr.
      destruct (in_class DIGIT b); [reflexivity | exact I].
Qed.

Lemma dec_body_len_ascii s n :
  dec_body_len s = LOk n -> forallb ascii (firstn n s) = true.
Proof.
  unfold dec_body_len. destruct s as [|b tl]; [discriminate|].
  destruct (in_class DIGIT1_9 b) eqn:E19.
  - destruct (us_tail (in_class DIGIT) tl) as [m|] eqn:E; [|discriminate].
    intro H; injection H as <-. cbn [firstn forallb].
    rewrite (DIGIT_ascii _ (DIGIT1_9_DIGIT _ E19)).
    apply (us_tail_forall ascii _ _ DIGIT_ascii eq_refl _ E).
  - destruct (in_class DIGIT b) eqn:Ed; [|discriminate].
    intro H; injection H as <-. cbn. rewrite (DIGIT_ascii _ Ed). reflexivity.
Qed.

Lemma dec_int_len_ascii s n :
  dec_int_len s = LOk n -> forallb ascii (firstn n s) = true.
Proof.
  unfold dec_int_len. destruct s as [|b tl]; [discriminate|].
  destruct (is_sign b) eqn:Es.
  - destruct (dec_body_len tl) as [m| |] eqn:E; try discriminate.
    intro H; injection H as <-. cbn [firstn forallb]. rewrite (sign_ascii _ Es).
    apply dec_body_len_ascii, E.
  - apply dec_body_len_ascii.
Qed.

Lemma taken_ok {A} (p : parser A) i a n :
  p i = Ok a (advance n i) -> taken p i = Ok (firstn n (rest i)) (advance n i).
Proof. intro H. unfold taken. rewrite H, pos_advance_sub. reflexivity. Qed.

Lemma dec_int_spec i :
  match dec_int_len (rest i) with
  | LOk n => dec_int i = Ok (firstn n (rest i)) (advance n i)
  | LBt => is_bt (dec_int i)
  | LCut => is_cut (dec_int i)
  end.
Proof.
  unfold dec_int. fold dec_body. fold is_sign.
  set (inner := opt (one_of is_sign) ;;; dec_body).
  assert (E : match dec_int_len (rest i) with
              | LOk n => inner i = Ok tt (advance n i)
              | LBt => is_bt (inner i)
              | LCut => is_cut (inner i)
              end).
  { unfold inner, bind, opt, one_of, dec_int_len.
    destruct (rest i) as [|b tl] eqn:Hr.
    - pose proof (dec_body_spec i) as H. rewrite Hr in H. cbn [dec_body_len] in H.
      destruct (dec_body i); simpl in H; try contradiction. exact I.
    - destruct (is_sign b) eqn:Es.
      + pose proof (dec_body_spec (advance 1 i)) as H. rewrite rest_advance, Hr in H. cbn [skipn] in H.
        destruct (dec_body_len tl) as [n| |].
        * rewrite H, advance_advance. reflexivity.
        * destruct (dec_body (advance 1 i)); simpl in H; try contradiction. exact I.
        * destruct (dec_body (advance 1 i)); simpl in H; try contradiction. exact I.
      + pose proof (dec_body_spec i) as H. rewrite Hr in H.
        destruct (dec_body_len (b :: tl)) as [n| |].
        * exact H.
        * destruct (dec_body i); simpl in H; try contradiction. exact I.
        * destruct (dec_body i); simpl in H; try contradiction. exact I. }
  pose proof (dec_int_len_ascii (rest i)) as Ha.
  destruct (dec_int_len (rest i)) as [n| |].
  - unfold context, unchecked_utf8. rewrite (taken_ok _ _ _ _ E).
    rewrite (ascii_utf8 _ (Ha _ eq_refl)). reflexivity.
  - unfold context, unchecked_utf8, taken. destruct (inner i); simpl in E; try contradiction. exact I.
  - unfold context, unchecked_utf8, taken. destruct (inner i); simpl in E; try contradiction. exact I.
Qed.

(* ---- well-formed runs: `*( d / "_" d )` exactly, and appending what follows ------------------- *)
Fixpoint wf_tail (d : byte -> bool) (s : bytes) : bool :=
  match s with
  | [] => true
  | b :: s' =>
    if d b then wf_tail d s'
    else if byte_eqb underscore b then
      match s' with c :: s'' => d c && wf_tail d s'' | [] => false end
    else false
  end.

Lemma wf_tail_cons d b s :
  wf_tail d (b :: s) =
  if d b then wf_tail d s
  else if byte_eqb underscore b then match s with c :: s'' => d c && wf_tail d s'' | [] => false end
  else false.
Proof. reflexivity. Qed.

Lemma us_tail_app d r a :
  wf_tail d a = true ->
  us_tail d (a ++ r) = match us_tail d r with Some n => Some (length a + n) | None => None end.
Proof.
  induction a as [|b|b c a IH1 IH2] using bytes_ind2; intro H.
  - cbn [app length plus]. destruct (us_tail d r); reflexivity.
  - rewrite wf_tail_cons in H. change ([b] ++ r) with (b :: r). rewrite us_tail_cons.
    destruct (d b); [|destruct (byte_eqb underscore b); discriminate].
    destruct (us_tail d r); reflexivity.
  - rewrite wf_tail_cons in H. change ((b :: c :: a) ++ r) with (b :: (c :: a) ++ r). rewrite us_tail_cons.
    destruct (d b).
    + rewrite (IH2 H). destruct (us_tail d r); reflexivity.
    + destruct (byte_eqb underscore b); [|discriminate].
      cbn [app]. apply andb_true_iff in H as [Hc Ha]. rewrite Hc, (IH1 Ha).
      destruct (us_tail d r); reflexivity.
Qed.

Lemma wf_tail_all d s : forallb d s = true -> wf_tail d s = true.
Proof.
  induction s as [|b s IH]; [reflexivity|]. cbn [forallb]. intro H.
  apply andb_true_iff in H as [Hb Hs]. rewrite wf_tail_cons, Hb. apply IH, Hs.
Qed.

Lemma us_tail_stop d s : match s with [] => True | b :: _ => d b = false /\ byte_eqb underscore b = false end ->
  us_tail d s = Some 0.
Proof. destruct s as [|b s]; [reflexivity|]. intros [H1 H2]. rewrite us_tail_cons, H1, H2. reflexivity. Qed.

Lemma firstn_app_exact {A} (a r : list A) : firstn (length a) (a ++ r) = a.
Proof. rewrite <- (Nat.add_0_r (length a)), firstn_app_2. cbn [firstn]. apply app_nil_r. Qed.
Lemma skipn_app_exact {A} (a r : list A) : skipn (length a) (a ++ r) = r.
Proof. induction a as [|x a IH]; [reflexivity | exact IH]. Qed.

(* ---- prefixed integers ------------------------------------------------------------------------ *)
Lemma prefixed_int_spec where_ prefix d i body :
  rest i = prefix ++ body ->
  (forall b, d b = true -> ascii b = true) ->
  match body with
  | b :: tl =>
    if d b then
      match us_tail d tl with
      | Some n => prefixed_int where_ prefix (one_of d) i
                  = Ok (firstn (S n) body) (advance (length prefix + S n) i)
      | None => is_cut (prefixed_int where_ prefix (one_of d) i)
      end
    else is_cut (prefixed_int where_ prefix (one_of d) i)
  | [] => is_cut (prefixed_int where_ prefix (one_of d) i)
  end.
Proof.
  intros Hr Hd.
  assert (E : prefixed_int where_ prefix (one_of d) i =
              context (unchecked_utf8 where_
                (taken (cut_err (digits_us (one_of d) (one_of d))))) (advance (length prefix) i)).
  { unfold prefixed_int, preceded, bind, lit, context, unchecked_utf8.
    assert (Hs : strip_prefix prefix (rest i) = Some body) by (apply strip_prefix_spec; exact Hr).
    rewrite Hs. reflexivity. }
  rewrite E. clear E.
  set (j := advance (length prefix) i).
  assert (Hj : rest j = body).
  { unfold j. rewrite rest_advance, Hr. apply skipn_app_exact. }
  pose proof (digits_us_spec d d j) as H. rewrite Hj in H.
  destruct body as [|b tl].
  - unfold context, unchecked_utf8, taken, cut_err. rewrite H. exact I.
  - destruct (d b) eqn:Eb.
    + destruct (us_tail d tl) as [n|] eqn:En.
      * assert (T : taken (cut_err (digits_us (one_of d) (one_of d))) j = Ok (firstn (S n) (rest j)) (advance (S n) j)).
        { apply taken_ok with (a := tt). unfold cut_err. rewrite H. reflexivity. }
        unfold context, unchecked_utf8. rewrite T, Hj.
        assert (Ha : forallb ascii (firstn (S n) (b :: tl)) = true).
        { cbn [firstn forallb]. rewrite (Hd _ Eb). apply (us_tail_forall ascii d tl Hd eq_refl _ En). }
        rewrite (ascii_utf8 _ Ha). unfold j. rewrite advance_advance. reflexivity.
      * unfold context, unchecked_utf8, taken, cut_err.
        destruct (digits_us (one_of d) (one_of d) j); simpl in H; try contradiction. exact I.
    + unfold context, unchecked_utf8, taken, cut_err. rewrite H. exact I.
Qed.

(* ---- the dispatch of `integer` ---------------------------------------------------------------- *)
Definition dec_conv (s : bytes) : sub Z :=
  match int_of 10 s with
  | TmOk z => SubOk z
  | TmErr c => SubCut (err_of c)
  | TmPanic st => SubPanic st
  end.

Lemma integer_dec i :
  match rest i with b :: _ => b <> x30 | [] => True end ->
  integer i = and_then dec_int dec_conv i.
Proof.
  intro H. unfold integer. fold dec_conv.
  destruct (rest i) as [|b [|c tl]]; [reflexivity| |];
    cbn [firstn bytes_eqb];
    (destruct (byte_eqb b x30) eqn:E; [apply byte_eqb_eq in E; contradiction | reflexivity]).
Qed.

Lemma integer_zero i : rest i = [x30] -> integer i = and_then dec_int dec_conv i.
Proof. intro H. unfold integer. fold dec_conv. rewrite H. reflexivity. Qed.

Lemma integer_hex i body : rest i = HEX_PREFIX ++ body ->
  integer i = cut_err (try_map (int_of 16) hex_int) i.
Proof. intro H. unfold integer. rewrite H. reflexivity. Qed.
Lemma integer_oct i body : rest i = OCT_PREFIX ++ body ->
  integer i = cut_err (try_map (int_of 8) oct_int) i.
Proof. intro H. unfold integer. rewrite H. reflexivity. Qed.
Lemma integer_bin i body : rest i = BIN_PREFIX ++ body ->
  integer i = cut_err (try_map (int_of 2) bin_int) i.
Proof. intro H. unfold integer. rewrite H. reflexivity. Qed.
