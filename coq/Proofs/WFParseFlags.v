(* Proofs/WFParseFlags.v — parsed documents are well-formed, part 5: which tables print something.
   Specification side (any leaf type): every tree the definition rules of Spec/Defs.v build — the pinned code's
   resolution of class U1 included (`spec_fold false`) — satisfies `gtree`: a table that exists only as a super-table
   is not empty, a table made of dotted keys holds a key/value line (directly or through tables made of dotted keys),
   an array of tables has an element.  The tree of an accepted document is such a tree (C02: `code_run`), so the flag
   clauses of Spec/WF.v hold for it (`flags_of_gtree`). *)
From TV Require Import Base.Prelude Spec.Defs.
From TV Require Import Proofs.DefsEquivSpec Proofs.WFSem.
Require Import Lia.

Section G.
  Variable V : Type.
  Local Notation T := (stree V).
  Local Notation node := (node V).

  (* the entry is, or holds through tables made of dotted keys, a key/value line *)
  Fixpoint lineish (n : node) : bool :=
    match n with
    | NVal _ => true
    | NTab KDotted c => (fix go (l : list (bytes * node)) : bool := match l with [] => false | kn :: tl => lineish (snd kn) || go tl end) c
    | _ => false
    end.
  Definition t_line (c : T) : bool := existsb (fun kn => lineish (snd kn)) c.
  Lemma lineish_dotted c : lineish (NTab KDotted c) = t_line c.
  Proof. cbn [lineish]. unfold t_line. induction c as [|kn c IH]; [reflexivity|]. cbn [existsb]. rewrite IH. reflexivity. Qed.

  Fixpoint gnode (n : node) : Prop :=
    match n with
    | NVal _ => True
    | NTab kd c =>
      match kd with KSuper => c <> [] | KDotted => t_line c = true | KHeader => True end
      /\ (fix go (l : list (bytes * node)) : Prop := match l with [] => True | kn :: tl => gnode (snd kn) /\ go tl end) c
    | NAot es =>
      es <> []
      /\ (fix goe (l : list (list (bytes * node))) : Prop :=
            match l with
            | [] => True
            | e :: tl => (fix go (l : list (bytes * node)) : Prop := match l with [] => True | kn :: tl => gnode (snd kn) /\ go tl end) e /\ goe tl
            end) es
    end.
  Definition gtree (c : T) : Prop := Forall (fun kn => gnode (snd kn)) c.
  Lemma gnode_go c : (fix go (l : list (bytes * node)) : Prop := match l with [] => True | kn :: tl => gnode (snd kn) /\ go tl end) c <-> gtree c.
  Proof. unfold gtree. induction c as [|kn c IH]; [split; [constructor|exact (fun _ => I)]|]. rewrite IH. split; [intros [H1 H2]; constructor; assumption|intro H; inversion H; auto]. Qed.
  Lemma gnode_tab kd c : gnode (NTab kd c) <-> (match kd with KSuper => c <> [] | KDotted => t_line c = true | KHeader => True end) /\ gtree c.
  Proof. cbn [gnode]. rewrite gnode_go. reflexivity. Qed.
  Lemma gnode_aot es : gnode (NAot es) <-> es <> [] /\ Forall gtree es.
  Proof.
    cbn [gnode]. split; intros [H1 H2]; (split; [exact H1|]).
    - clear H1. induction es as [|e es IH]; [constructor|]. destruct H2 as [H2 H3]. constructor; [apply gnode_go, H2|apply IH, H3].
    - clear H1. induction H2 as [|e es He _ IH]; [exact I|]. split; [apply gnode_go, He|exact IH].
  Qed.

  (* ---- elementary facts ----------------------------------------------------------------------------------------------- *)
  Lemma gtree_sget (t : T) k n : gtree t -> sget t k = Some n -> gnode n.
  Proof.
    unfold gtree. induction t as [|[k' n'] t IH]; cbn [sget]; [discriminate|]. intros H E. inversion H; subst.
    destruct (bytes_eqb k' k); [inversion E; subst; assumption|auto].
  Qed.
  Lemma gtree_sset (t : T) k n : gtree t -> gnode n -> gtree (sset t k n).
  Proof.
    unfold gtree. induction t as [|[k' n'] t IH]; cbn [sset]; [auto|]. intros H Hn. inversion H; subst.
    destruct (bytes_eqb k' k); constructor; auto.
  Qed.
  Lemma gtree_spush (t : T) k n : gtree t -> gnode n -> gtree (spush t k n).
  Proof. unfold gtree, spush. intros H Hn. apply Forall_app. split; [exact H|constructor; [exact Hn|constructor]]. Qed.
  Lemma gtree_sremove (t : T) k : gtree t -> gtree (sremove t k).
  Proof.
    unfold gtree. induction t as [|[k' n'] t IH]; cbn [sremove]; [auto|]. intro H. inversion H; subst.
    destruct (bytes_eqb k' k); [assumption|constructor; auto].
  Qed.

  Lemma t_line_spush (t : T) k n : t_line (spush t k n) = t_line t || lineish n.
  Proof. unfold t_line, spush. rewrite existsb_app. cbn [existsb snd]. rewrite orb_false_r. reflexivity. Qed.
  Lemma t_line_sset (t : T) k n0 n : sget t k = Some n0 -> (lineish n0 = true -> lineish n = true) -> t_line t = true -> t_line (sset t k n) = true.
  Proof.
    unfold t_line. induction t as [|[k' n'] t IH]; cbn [sget sset existsb snd]; [discriminate|]. destruct (bytes_eqb k' k).
    - intros E Hn H. inversion E; subst. cbn [existsb snd]. apply orb_true_iff in H as [H|H]; [rewrite (Hn H); reflexivity|rewrite H; apply orb_true_r].
    - intros E Hn H. cbn [existsb snd]. apply orb_true_iff in H as [H|H]; [rewrite H; reflexivity|rewrite (IH E Hn H); apply orb_true_r].
  Qed.
  Lemma t_line_sset_new (t : T) k n0 n : sget t k = Some n0 -> lineish n = true -> t_line (sset t k n) = true.
  Proof.
    unfold t_line. induction t as [|[k' n'] t IH]; cbn [sget sset existsb snd]; [discriminate|]. destruct (bytes_eqb k' k).
    - intros _ Hn. cbn [existsb snd]. rewrite Hn. reflexivity.
    - intros E Hn. cbn [existsb snd]. rewrite (IH E Hn). apply orb_true_r.
  Qed.
  Lemma t_line_sremove (t : T) k n0 : sget t k = Some n0 -> lineish n0 = false -> t_line (sremove t k) = t_line t.
  Proof.
    unfold t_line. induction t as [|[k' n'] t IH]; cbn [sget sremove existsb snd]; [reflexivity|]. destruct (bytes_eqb k' k).
    - intros E Hn. inversion E; subst. rewrite Hn. reflexivity.
    - intros E Hn. cbn [existsb snd]. rewrite (IH E Hn). reflexivity.
  Qed.
  Lemma t_line_nonempty (t : T) : t_line t = true -> t <> [].
  Proof. destruct t; [discriminate|discriminate]. Qed.
  Lemma spush_nonempty (t : T) k n : spush t k n <> [].
  Proof. unfold spush. destruct t; discriminate. Qed.
  Lemma sset_nonempty (t : T) k n0 n : sget t k = Some n0 -> sset t k n <> [].
  Proof. destruct t as [|[k' n'] t]; cbn [sget sset]; [discriminate|]. destruct (bytes_eqb k' k); discriminate. Qed.

  (* what a step at the end of a path must do: keep the tree good, leave it non-empty, keep its lines *)
  Definition gstep (f : T -> res T) : Prop :=
    forall t t', gtree t -> f t = ROk t' -> gtree t' /\ t' <> [] /\ (t_line t = true -> t_line t' = true).

  Lemma insert_kv_g : forall p v, gstep (insert_kv false p v) /\ forall t', insert_kv false p v [] = ROk t' -> t_line t' = true.
  Proof.
    induction p as [|k p IH]; intro v; [split; [intros t t' _ H; discriminate|intros t' H; discriminate]|].
    assert (G : gstep (insert_kv false (k :: p) v)).
    { intros t t' Ht H. destruct p as [|k1 p1].
      - cbn [insert_kv] in H. destruct (sget t k); [discriminate|]. injection H as <-.
        split; [apply gtree_spush; [exact Ht|exact I]|]. split; [apply spush_nonempty|]. intros _. rewrite t_line_spush. apply orb_true_r.
      - rewrite (insert_kv_cons V) in H. destruct (IH v) as [IH1 IH2]. destruct (sget t k) as [[v0|kd c|es]|] eqn:E; try discriminate.
        + destruct kd; try discriminate.
          * (* a super-table on the way: the pinned code walks through it unless it would receive the key *)
            cbn [negb] in H. destruct p1 as [|k2 p2]; [discriminate|].
            destruct (insert_kv false (k1 :: k2 :: p2) v c) as [c'| |] eqn:Ec; try discriminate. injection H as <-.
            pose proof (gtree_sget _ _ _ Ht E) as Hn. apply gnode_tab in Hn as [_ Hc]. destruct (IH1 c c' Hc Ec) as (Hc' & Hne & _).
            split; [apply gtree_sset; [exact Ht|apply gnode_tab; auto]|]. split; [apply (sset_nonempty _ _ _ _ E)|].
            apply (t_line_sset _ _ _ _ E). discriminate.
          * destruct (insert_kv false (k1 :: p1) v c) as [c'| |] eqn:Ec; try discriminate. injection H as <-.
            pose proof (gtree_sget _ _ _ Ht E) as Hn. apply gnode_tab in Hn as [Hl Hc]. destruct (IH1 c c' Hc Ec) as (Hc' & Hne & Hl').
            split; [apply gtree_sset; [exact Ht|apply gnode_tab; auto]|]. split; [apply (sset_nonempty _ _ _ _ E)|].
            intros _. apply (t_line_sset_new _ _ _ _ E). rewrite lineish_dotted. auto.
        + destruct (insert_kv false (k1 :: p1) v []) as [c'| |] eqn:Ec; try discriminate. injection H as <-.
          destruct (IH1 [] c' (Forall_nil _) Ec) as (Hc' & Hne & _). pose proof (IH2 c' eq_refl) as Hl.
          split; [apply gtree_spush; [exact Ht|apply gnode_tab; auto]|]. split; [apply spush_nonempty|].
          intros _. rewrite t_line_spush, lineish_dotted, Hl. apply orb_true_r. }
    split; [exact G|]. intros t' H. destruct p as [|k1 p1].
    - cbn [insert_kv sget] in H. injection H as <-. reflexivity.
    - rewrite (insert_kv_cons V) in H. cbn [sget] in H. destruct (IH v) as [IH1 IH2].
      destruct (insert_kv false (k1 :: p1) v []) as [c'| |] eqn:Ec; try discriminate. injection H as <-.
      rewrite t_line_spush, lineish_dotted, (IH2 c' eq_refl). reflexivity.
  Qed.

  Lemma def_table_g k : gstep (def_table k).
  Proof.
    intros t t' Ht H. unfold def_table in H. destruct (sget t k) as [[v0|kd c|es]|] eqn:E; try discriminate.
    - destruct kd; try discriminate. injection H as <-. pose proof (gtree_sget _ _ _ Ht E) as Hn. apply gnode_tab in Hn as [_ Hc].
      split; [apply gtree_spush; [apply gtree_sremove, Ht|apply gnode_tab; auto]|]. split; [apply spush_nonempty|].
      intro Hl. rewrite t_line_spush, (t_line_sremove _ _ _ E eq_refl), Hl. reflexivity.
    - injection H as <-. split; [apply gtree_spush; [exact Ht|apply gnode_tab; split; [exact I|constructor]]|]. split; [apply spush_nonempty|].
      intro Hl. rewrite t_line_spush, Hl. reflexivity.
  Qed.
  Lemma def_elem_g k : gstep (def_elem k).
  Proof.
    intros t t' Ht H. unfold def_elem in H. destruct (sget t k) as [[v0|kd c|es]|] eqn:E; try discriminate.
    - injection H as <-. pose proof (gtree_sget _ _ _ Ht E) as Hn. apply gnode_aot in Hn as [Hne Hes].
      split; [apply gtree_sset; [exact Ht|apply gnode_aot; split; [destruct es; discriminate|apply Forall_app; split; [exact Hes|constructor; [constructor|constructor]]]]|].
      split; [apply (sset_nonempty _ _ _ _ E)|]. apply (t_line_sset _ _ _ _ E). discriminate.
    - injection H as <-. split; [apply gtree_spush; [exact Ht|apply gnode_aot; split; [discriminate|constructor; [constructor|constructor]]]|].
      split; [apply spush_nonempty|]. intro Hl. rewrite t_line_spush, Hl. reflexivity.
  Qed.

  Lemma at_path_g f : gstep f -> forall p, gstep (at_path p f).
  Proof.
    intros Hf. induction p as [|k p IH]; [exact Hf|]. intros t t' Ht H. cbn [at_path] in H.
    destruct (sget t k) as [[v0|kd c|es]|] eqn:E; try discriminate.
    - destruct (at_path p f c) as [c'| |] eqn:Ec; try discriminate. injection H as <-.
      pose proof (gtree_sget _ _ _ Ht E) as Hn. apply gnode_tab in Hn as [Hk Hc]. destruct (IH c c' Hc Ec) as (Hc' & Hne & Hl').
      split; [apply gtree_sset; [exact Ht|apply gnode_tab; split; [destruct kd; auto|exact Hc']]|]. split; [apply (sset_nonempty _ _ _ _ E)|].
      apply (t_line_sset _ _ _ _ E). destruct kd; try discriminate. rewrite !lineish_dotted. exact Hl'.
    - destruct (rev es) as [|e before] eqn:Er; [discriminate|]. destruct (at_path p f e) as [e'| |] eqn:Ee; try discriminate. injection H as <-.
      pose proof (gtree_sget _ _ _ Ht E) as Hn. apply gnode_aot in Hn as [_ Hes].
      assert (Ees : es = rev before ++ [e]) by (rewrite <- (rev_involutive es), Er; reflexivity). rewrite Ees in Hes. apply Forall_app in Hes as [Hb He]. inversion He; subst.
      destruct (IH e e' H1 Ee) as (He' & _ & _).
      split; [apply gtree_sset; [exact Ht|apply gnode_aot; split; [destruct (rev before); discriminate|apply Forall_app; split; [exact Hb|constructor; [exact He'|constructor]]]]|].
      split; [apply (sset_nonempty _ _ _ _ E)|]. apply (t_line_sset _ _ _ _ E). discriminate.
    - destruct (at_path p f []) as [c'| |] eqn:Ec; try discriminate. injection H as <-. destruct (IH [] c' (Forall_nil _) Ec) as (Hc' & Hne & _).
      split; [apply gtree_spush; [exact Ht|apply gnode_tab; auto]|]. split; [apply spush_nonempty|]. intro Hl. rewrite t_line_spush, Hl. reflexivity.
  Qed.

  Lemma spec_step_g S st S' : spec_step false S st = ROk S' -> gtree (fst S) -> gtree (fst S').
  Proof.
    destruct S as [t cur]. destruct st as [p|p|p v]; cbn [spec_step fst].
    - destruct (unsnoc p) as [[pre k]|]; [|discriminate]. destruct (at_path pre (def_table k) t) as [t'| |] eqn:E; try discriminate.
      intros H Ht. injection H as <-. cbn [fst]. apply (at_path_g _ (def_table_g k) pre t t' Ht E).
    - destruct (unsnoc p) as [[pre k]|]; [|discriminate]. destruct (at_path pre (def_elem k) t) as [t'| |] eqn:E; try discriminate.
      intros H Ht. injection H as <-. cbn [fst]. apply (at_path_g _ (def_elem_g k) pre t t' Ht E).
    - destruct (at_path cur (insert_kv false p v) t) as [t'| |] eqn:E; try discriminate.
      intros H Ht. injection H as <-. cbn [fst]. apply (at_path_g _ (proj1 (insert_kv_g p v)) cur t t' Ht E).
  Qed.
  Lemma spec_fold_g l : forall S S', spec_fold false S l = ROk S' -> gtree (fst S) -> gtree (fst S').
  Proof.
    induction l as [|st l IH]; intros S S' H Ht; cbn [spec_fold] in H; [injection H as <-; exact Ht|].
    destruct (spec_step false S st) as [S1| |] eqn:E; try discriminate. apply (IH S1 S' H). apply (spec_step_g S st S1 E Ht).
  Qed.
  Theorem code_run_g l t : code_run l = Valid t -> gtree t.
  Proof.
    unfold code_run, run. destruct (spec_fold false sstate0 l) as [[t0 cur]| |] eqn:E; try discriminate. intro H. injection H as <-.
    apply (spec_fold_g l sstate0 (t0, cur) E). constructor.
  Qed.
End G.
