(* Proofs/NoPanicBase.v — C04, part 1: panic-freedom and termination facts of the mini-winnow
   combinators (Base/Winnow.v), proved once over ARBITRARY sub-parsers.

   Four judgements on a parser p:
     monoC C p   every successful run consumes a prefix t of the input (rest i = t ++ rest i'),
                 advances `pos` by exactly |t|, leaves `depth` unchanged, and every consumed byte
                 is in the class C (`mono` = no constraint on the bytes);
     progress p  every successful run consumes at least one byte;
     safe_on P p on every input satisfying P the result is not `Panic _` (`safe` = on every input);
     valP V p    every value returned satisfies V.
   Nothing is required of the cursor carried by Bt/Cut (it is never used to continue parsing).

   For the fuelled loops: if the element (and separator) parsers are mono, safe and make
   progress, the loop with fuel `S (length (rest i))` is safe: in particular it reaches neither
   `P_out_of_fuel` (termination: every iteration that continues has consumed >= 1 byte) nor
   `P_repeat_no_progress` (winnow's debug assertion). *)
From TV Require Import Base.Prelude Base.Utf8 Base.Winnow.
Require Import Lia ZifyBool ZifyN ZifyNat.

Definition nopanic {A} (r : res A) : Prop := match r with Panic _ => False | _ => True end.

Definition anyb (b : byte) : bool := true.
Definition ascii (b : byte) : bool := (b2n b <=? 127)%N.

(* i' is i after consuming a prefix whose bytes are all in C *)
Definition ext (C : byte -> bool) (i i' : input) : Prop :=
  exists t, rest i = t ++ rest i' /\ pos i' = (pos i + N.of_nat (length t))%N
            /\ depth i' = depth i /\ forallb C t = true.

Definition monoC (C : byte -> bool) {A} (p : parser A) : Prop :=
  forall i a i', p i = Ok a i' -> ext C i i'.
Notation mono := (monoC anyb).
Definition progress {A} (p : parser A) : Prop :=
  forall i a i', p i = Ok a i' -> length (rest i') < length (rest i).
Definition safe_on (P : input -> Prop) {A} (p : parser A) : Prop :=
  forall i, P i -> nopanic (p i).
Definition anyi (i : input) : Prop := True.
Notation safe := (safe_on anyi).
Definition valP {A} (V : A -> Prop) (p : parser A) : Prop :=
  forall i a i', p i = Ok a i' -> V a.

(* input predicates that only look at how much input is left (downward closed) *)
Definition closed (P : input -> Prop) : Prop :=
  forall i i', P i -> length (rest i') <= length (rest i) -> P i'.
Definition shorter (n : nat) (i : input) : Prop := length (rest i) < n.

Lemma closed_anyi : closed anyi. Proof. intros i i' _ _. exact I. Qed.
Lemma closed_shorter n : closed (shorter n). Proof. unfold closed, shorter. intros. lia. Qed.

(* ---- ext -------------------------------------------------------------------------------------- *)
Lemma forallb_anyb t : forallb anyb t = true.
Proof. induction t; simpl; auto. Qed.

Lemma ext_refl C i : ext C i i.
Proof. exists []. cbn. repeat split; auto. lia. Qed.

Lemma ext_trans C i1 i2 i3 : ext C i1 i2 -> ext C i2 i3 -> ext C i1 i3.
Proof.
  intros (t1 & R1 & P1 & D1 & C1) (t2 & R2 & P2 & D2 & C2). exists (t1 ++ t2).
  split; [rewrite R1, R2, app_assoc; reflexivity|]. split; [rewrite P2, P1, app_length; lia|].
  split; [congruence|]. rewrite forallb_app, C1, C2. reflexivity.
Qed.

Lemma ext_len C i i' : ext C i i' -> length (rest i') <= length (rest i).
Proof. intros (t & R & _). rewrite R, app_length. lia. Qed.

Lemma ext_depth C i i' : ext C i i' -> depth i' = depth i.
Proof. intros (t & _ & _ & D & _). exact D. Qed.

Lemma ext_weaken (C C' : byte -> bool) i i' :
  (forall b, C b = true -> C' b = true) -> ext C i i' -> ext C' i i'.
Proof.
  intros H (t & R & P & D & F). exists t. repeat split; auto.
  rewrite forallb_forall in *. auto.
Qed.

Lemma ext_any C i i' : ext C i i' -> ext anyb i i'.
Proof. apply ext_weaken. reflexivity. Qed.

Lemma ext_advance C n i :
  n <= length (rest i) -> forallb C (firstn n (rest i)) = true -> ext C i (advance n i).
Proof.
  intros Hn HC. exists (firstn n (rest i)). unfold advance; cbn [rest pos depth].
  rewrite firstn_skipn, firstn_length. repeat split; auto. lia.
Qed.

(* the text consumed, as `taken` computes it *)
Lemma ext_taken C i i' :
  ext C i i' -> forallb C (firstn (N.to_nat (pos i' - pos i)) (rest i)) = true.
Proof.
  intros (t & R & P & _ & F). rewrite R, P.
  replace (N.to_nat (pos i + N.of_nat (length t) - pos i)) with (length t) by lia.
  rewrite firstn_app, Nat.sub_diag, firstn_all. cbn [firstn]. rewrite app_nil_r. exact F.
Qed.

Lemma ext_pos C i i' : ext C i i' ->
  (pos i' + N.of_nat (length (rest i')) = pos i + N.of_nat (length (rest i)))%N.
Proof. intros (t & R & P & _). rewrite R, P, app_length. lia. Qed.

Lemma ext_pos_le C i i' : ext C i i' -> (pos i <= pos i')%N.
Proof. intros (t & R & P & _). lia. Qed.

(* pos unchanged <-> nothing consumed *)
Lemma ext_pos_eq C i i' : ext C i i' -> pos i' = pos i -> length (rest i') = length (rest i).
Proof. intros (t & R & P & _) E. rewrite R, app_length. assert (length t = 0) by lia. lia. Qed.

(* ---- generic facts about the judgements ---------------------------------------------------------- *)
Lemma monoC_weaken (C C' : byte -> bool) {A} (p : parser A) :
  (forall b, C b = true -> C' b = true) -> monoC C p -> monoC C' p.
Proof. intros H Hp i a i' E. eapply ext_weaken; eauto. Qed.

Lemma monoC_mono C {A} (p : parser A) : monoC C p -> mono p.
Proof. apply monoC_weaken. reflexivity. Qed.

Lemma safe_safe_on P {A} (p : parser A) : safe p -> safe_on P p.
Proof. intros H i _. apply H. exact I. Qed.

Lemma safe_on_weaken (P Q : input -> Prop) {A} (p : parser A) :
  (forall i, Q i -> P i) -> safe_on P p -> safe_on Q p.
Proof. intros H Hp i Hi. apply Hp, H, Hi. Qed.

Lemma valP_weaken {A} (V W : A -> Prop) (p : parser A) :
  (forall a, V a -> W a) -> valP V p -> valP W p.
Proof. intros H Hp i a i' E. eapply H, Hp, E. Qed.

Lemma valP_and {A} (V W : A -> Prop) (p : parser A) :
  valP V p -> valP W p -> valP (fun a => V a /\ W a) p.
Proof. intros H1 H2 i a i' E. split; eauto. Qed.

Lemma valP_true {A} (p : parser A) : valP (fun _ => True) p.
Proof. intros i a i' _. exact I. Qed.

(* `fun j => h j j`: parsers whose body mentions their own input (checkpoints) *)
Lemma monoC_diag C {A} (h : input -> parser A) : (forall j, monoC C (h j)) -> monoC C (fun j => h j j).
Proof. intros H i a i' E. eapply H; eauto. Qed.
Lemma progress_diag {A} (h : input -> parser A) : (forall j, progress (h j)) -> progress (fun j => h j j).
Proof. intros H i a i' E. eapply H; eauto. Qed.
Lemma safe_diag P {A} (h : input -> parser A) : (forall j, safe_on P (h j)) -> safe_on P (fun j => h j j).
Proof. intros H i Hi. apply H, Hi. Qed.
Lemma valP_diag {A} (V : A -> Prop) (h : input -> parser A) : (forall j, valP V (h j)) -> valP V (fun j => h j j).
Proof. intros H i a i' E. eapply H; eauto. Qed.

Ltac dres E := match goal with
  | |- context [match ?p ?i with Ok _ _ => _ | Bt _ _ => _ | Cut _ _ => _ | Panic _ => _ end] =>
      destruct (p i) as [?a ?i|?e ?i|?e ?i|?s] eqn:E
  end.
Ltac dresH H E := match type of H with
  | context [match ?p ?i with Ok _ _ => _ | Bt _ _ => _ | Cut _ _ => _ | Panic _ => _ end] =>
      destruct (p i) as [?a ?i|?e ?i|?e ?i|?s] eqn:E; try discriminate H
  end.

(* ---- primitives --------------------------------------------------------------------------------- *)
Section Prims.
  Context {A : Type}.
  Variable C : byte -> bool.

  Lemma monoC_ret (a : A) : monoC C (ret a).
  Proof. intros i x i' E. inversion E; subst. apply ext_refl. Qed.
  Lemma safe_ret P (a : A) : safe_on P (ret a).
  Proof. intros i _. exact I. Qed.
  Lemma valP_ret (V : A -> Prop) (a : A) : V a -> valP V (ret a).
  Proof. intros H i x i' E. inversion E; subst; auto. Qed.

  Lemma monoC_fail : monoC C (@fail A).
  Proof. intros i x i' E. discriminate. Qed.
  Lemma progress_fail : progress (@fail A).
  Proof. intros i x i' E. discriminate. Qed.
  Lemma safe_fail P : safe_on P (@fail A).
  Proof. intros i _. exact I. Qed.
  Lemma valP_fail (V : A -> Prop) : valP V (@fail A).
  Proof. intros i x i' E. discriminate. Qed.

  Lemma monoC_cut_custom c : monoC C (@cut_custom A c).
  Proof. intros i x i' E. discriminate. Qed.
  Lemma safe_cut_custom P c : safe_on P (@cut_custom A c).
  Proof. intros i _. exact I. Qed.
End Prims.

Lemma monoC_empty C : monoC C empty. Proof. apply monoC_ret. Qed.
Lemma safe_empty P : safe_on P empty. Proof. apply safe_ret. Qed.

Lemma advance1_ext C i b r : rest i = b :: r -> C b = true -> ext C i (advance 1 i).
Proof.
  intros R Hb. apply ext_advance; rewrite R; cbn; [lia|]. rewrite Hb. reflexivity.
Qed.
Lemma advance1_len i b r : rest i = b :: r -> length (rest (advance 1 i)) < length (rest i).
Proof. intros R. unfold advance; cbn [rest]. rewrite R. cbn. lia. Qed.

Lemma mono_any : mono any.
Proof.
  intros i a i' E. unfold any in E. destruct (rest i) as [|b r] eqn:R; [discriminate|].
  inversion E; subst. eapply advance1_ext; eauto.
Qed.
Lemma progress_any : progress any.
Proof.
  intros i a i' E. unfold any in E. destruct (rest i) as [|b r] eqn:R; [discriminate|].
  inversion E; subst. rewrite <- R. eapply advance1_len; eauto.
Qed.
Lemma safe_any P : safe_on P any.
Proof. intros i _. unfold any. destruct (rest i); exact I. Qed.

Lemma monoC_one_of C f : (forall b, f b = true -> C b = true) -> monoC C (one_of f).
Proof.
  intros H i a i' E. unfold one_of in E. destruct (rest i) as [|b r] eqn:R; [discriminate|].
  destruct (f b) eqn:F; [|discriminate]. inversion E; subst. eapply advance1_ext; eauto.
Qed.
Lemma mono_one_of f : mono (one_of f).
Proof. apply monoC_one_of. reflexivity. Qed.
Lemma progress_one_of f : progress (one_of f).
Proof.
  intros i a i' E. unfold one_of in E. destruct (rest i) as [|b r] eqn:R; [discriminate|].
  destruct (f b) eqn:F; [|discriminate]. inversion E; subst. rewrite <- R. eapply advance1_len; eauto.
Qed.
Lemma safe_one_of P f : safe_on P (one_of f).
Proof. intros i _. unfold one_of. destruct (rest i) as [|b r]; [exact I|]. destruct (f b); exact I. Qed.
Lemma valP_one_of f : valP (fun b => f b = true) (one_of f).
Proof.
  intros i a i' E. unfold one_of in E. destruct (rest i) as [|b r] eqn:R; [discriminate|].
  destruct (f b) eqn:F; [|discriminate]. inversion E; subst. exact F.
Qed.

Lemma monoC_none_of C f : (forall b, f b = false -> C b = true) -> monoC C (none_of f).
Proof. intro H. apply monoC_one_of. intros b Hb. apply H. destruct (f b); [discriminate|reflexivity]. Qed.
Lemma mono_none_of f : mono (none_of f). Proof. apply mono_one_of. Qed.
Lemma progress_none_of f : progress (none_of f). Proof. apply progress_one_of. Qed.
Lemma safe_none_of P f : safe_on P (none_of f). Proof. apply safe_one_of. Qed.

Lemma monoC_byte_ C x : C x = true -> monoC C (byte_ x).
Proof. intro H. apply monoC_one_of. intros b Hb. apply byte_eqb_eq in Hb. subst. exact H. Qed.
Lemma mono_byte_ x : mono (byte_ x). Proof. apply mono_one_of. Qed.
Lemma progress_byte_ x : progress (byte_ x). Proof. apply progress_one_of. Qed.
Lemma safe_byte_ P x : safe_on P (byte_ x). Proof. apply safe_one_of. Qed.
Lemma valP_byte_ x : valP (fun b => b = x) (byte_ x).
Proof. eapply valP_weaken; [|apply valP_one_of]. intros a H. apply byte_eqb_eq in H. auto. Qed.

Lemma lit_inv l i a i' : lit l i = Ok a i' -> a = l /\ i' = advance (length l) i /\ rest i = l ++ rest i'.
Proof.
  unfold lit. destruct (strip_prefix l (rest i)) as [r|] eqn:S; [|discriminate].
  intro E; inversion E; subst a i'. apply strip_prefix_spec in S. repeat split.
  unfold advance; cbn [rest]. rewrite S at 1. f_equal. rewrite S. clear. induction l; simpl; auto.
Qed.
Lemma monoC_lit C l : forallb C l = true -> monoC C (lit l).
Proof.
  intros H i a i' E. apply lit_inv in E as (-> & -> & R). exists l.
  unfold advance in *; cbn [rest pos depth] in *. repeat split; auto.
Qed.
Lemma mono_lit l : mono (lit l). Proof. apply monoC_lit, forallb_anyb. Qed.
Lemma progress_lit l : l <> [] -> progress (lit l).
Proof.
  intros H i a i' E. apply lit_inv in E as (_ & _ & R). rewrite R, app_length.
  destruct l; [congruence|]. cbn. lia.
Qed.
Lemma safe_lit P l : safe_on P (lit l).
Proof. intros i _. unfold lit. destruct (strip_prefix l (rest i)); exact I. Qed.
Lemma valP_lit l : valP (fun b => b = l) (lit l).
Proof. intros i a i' E. apply lit_inv in E. tauto. Qed.

(* take_while *)
Lemma take_upto_prefix f n s : exists r, s = take_upto f n s ++ r.
Proof.
  revert s. induction n as [|n IH]; intros [|b s]; cbn; eauto.
  destruct (f b); cbn; eauto. destruct (IH s) as [r Hr]. exists r. congruence.
Qed.
Lemma take_upto_all f n s : forallb f (take_upto f n s) = true.
Proof.
  revert s. induction n as [|n IH]; intros [|b s]; cbn; auto.
  destruct (f b) eqn:F; cbn; auto. rewrite F, IH. reflexivity.
Qed.
Lemma take_upto_len f n s : length (take_upto f n s) <= n.
Proof.
  revert s. induction n as [|n IH]; intros [|b s]; cbn; try lia.
  destruct (f b); cbn; [|lia]. specialize (IH s). lia.
Qed.

Lemma take_while_inv m n f i a i' :
  take_while_mn m n f i = Ok a i' ->
  rest i = a ++ rest i' /\ i' = advance (length a) i /\ forallb f a = true /\ m <= length a
  /\ match n with Some n' => length a <= n' | None => True end.
Proof.
  unfold take_while_mn.
  set (got := match n with Some n' => take_upto f n' (rest i) | None => fst (span_while f (rest i)) end).
  assert (Hp : exists r, rest i = got ++ r).
  { subst got. destruct n; [apply take_upto_prefix|]. eexists. symmetry. apply span_while_app. }
  assert (Ha : forallb f got = true).
  { subst got. destruct n; [apply take_upto_all | apply span_while_all]. }
  assert (Hn : match n with Some n' => length got <= n' | None => True end).
  { subst got. destruct n; [apply take_upto_len | exact I]. }
  destruct (Nat.ltb (length got) m) eqn:L; [discriminate|]. apply Nat.ltb_ge in L.
  intro E; inversion E; subst a i'. destruct Hp as [r Hr]. repeat split; auto.
  unfold advance; cbn [rest]. rewrite Hr at 1. f_equal. rewrite Hr.
  clear. induction got; simpl; auto.
Qed.

Lemma monoC_take_while C m n f : (forall b, f b = true -> C b = true) -> monoC C (take_while_mn m n f).
Proof.
  intros H i a i' E. apply take_while_inv in E as (R & -> & F & _). exists a.
  unfold advance in *; cbn [rest pos depth] in *. repeat split; auto.
  rewrite forallb_forall in *. auto.
Qed.
Lemma mono_take_while m n f : mono (take_while_mn m n f).
Proof. apply monoC_take_while. reflexivity. Qed.
Lemma progress_take_while m n f : 1 <= m -> progress (take_while_mn m n f).
Proof.
  intros H i a i' E. apply take_while_inv in E as (R & _ & _ & L & _). rewrite R, app_length. lia.
Qed.
Lemma safe_take_while P m n f : safe_on P (take_while_mn m n f).
Proof. intros i _. unfold take_while_mn. match goal with |- context [if ?c then _ else _] => destruct c end; exact I. Qed.
Lemma valP_take_while m n f :
  valP (fun a => forallb f a = true /\ m <= length a /\ match n with Some n' => length a <= n' | None => True end)
       (take_while_mn m n f).
Proof. intros i a i' E. apply take_while_inv in E. tauto. Qed.

Lemma mono_take_while0 f : mono (take_while0 f). Proof. apply mono_take_while. Qed.
Lemma mono_take_while1 f : mono (take_while1 f). Proof. apply mono_take_while. Qed.
Lemma progress_take_while1 f : progress (take_while1 f). Proof. apply progress_take_while. lia. Qed.
Lemma safe_take_while0 P f : safe_on P (take_while0 f). Proof. apply safe_take_while. Qed.
Lemma safe_take_while1 P f : safe_on P (take_while1 f). Proof. apply safe_take_while. Qed.

Lemma mono_take_n n : mono (take_n n).
Proof.
  intros i a i' E. unfold take_n in E. destruct (Nat.ltb (length (rest i)) n) eqn:L; [discriminate|].
  apply Nat.ltb_ge in L. inversion E; subst. apply ext_advance; [lia|apply forallb_anyb].
Qed.
Lemma safe_take_n P n : safe_on P (take_n n).
Proof. intros i _. unfold take_n. destruct (Nat.ltb (length (rest i)) n); exact I. Qed.

Lemma mono_rest_ : mono rest_.
Proof. intros i a i' E. inversion E; subst. apply ext_advance; [lia|apply forallb_anyb]. Qed.
Lemma safe_rest_ P : safe_on P rest_.
Proof. intros i _. exact I. Qed.

Lemma monoC_eof C : monoC C eof.
Proof. intros i a i' E. unfold eof in E. destruct (rest i); inversion E; subst. apply ext_refl. Qed.
Lemma safe_eof P : safe_on P eof.
Proof. intros i _. unfold eof. destruct (rest i); exact I. Qed.

(* ---- combinators ---------------------------------------------------------------------------------- *)
Section Combs.
  Context {A B : Type}.
  Variable C : byte -> bool.
  Variable P : input -> Prop.
  Hypothesis Pc : closed P.

  Lemma monoC_bind (p : parser A) (f : A -> parser B) :
    monoC C p -> (forall a, monoC C (f a)) -> monoC C (bind p f).
  Proof.
    intros Hp Hf i b i' H. unfold bind in H. dresH H E.
    eapply ext_trans; [eapply Hp; eauto | eapply Hf; eauto].
  Qed.
  (* the continuation only needs to be mono on the values p can return *)
  Lemma monoC_bind_val (V : A -> Prop) (p : parser A) (f : A -> parser B) :
    monoC C p -> valP V p -> (forall a, V a -> monoC C (f a)) -> monoC C (bind p f).
  Proof.
    intros Hp Hv Hf i b i' H. unfold bind in H. dresH H E.
    eapply ext_trans; [eapply Hp; eauto | eapply Hf; eauto].
  Qed.
  Lemma progress_bind_l (p : parser A) (f : A -> parser B) :
    progress p -> (forall a, mono (f a)) -> progress (bind p f).
  Proof.
    intros Hp Hf i b i' H. unfold bind in H. dresH H E.
    apply Hp in E. apply Hf, ext_len in H. lia.
  Qed.
  Lemma progress_bind_r (p : parser A) (f : A -> parser B) :
    mono p -> (forall a, progress (f a)) -> progress (bind p f).
  Proof.
    intros Hp Hf i b i' H. unfold bind in H. dresH H E.
    apply Hp, ext_len in E. apply Hf in H. lia.
  Qed.
  Lemma safe_bind (p : parser A) (f : A -> parser B) :
    mono p -> safe_on P p -> (forall a, safe_on P (f a)) -> safe_on P (bind p f).
  Proof.
    intros Hm Hp Hf i Hi. unfold bind. specialize (Hp i Hi). dres E; auto.
    apply Hf. eapply Pc; eauto. eapply ext_len, Hm, E.
  Qed.
  Lemma safe_bind_val (V : A -> Prop) (p : parser A) (f : A -> parser B) :
    mono p -> safe_on P p -> valP V p -> (forall a, V a -> safe_on P (f a)) -> safe_on P (bind p f).
  Proof.
    intros Hm Hp Hv Hf i Hi. unfold bind. specialize (Hp i Hi). dres E; auto.
    apply Hf; [eapply Hv, E|]. eapply Pc; eauto. eapply ext_len, Hm, E.
  Qed.
  Lemma valP_bind (V : B -> Prop) (p : parser A) (f : A -> parser B) :
    (forall a, valP V (f a)) -> valP V (bind p f).
  Proof. intros Hf i b i' H. unfold bind in H. dresH H E. eapply Hf, H. Qed.
  Lemma valP_bind_val (W : A -> Prop) (V : B -> Prop) (p : parser A) (f : A -> parser B) :
    valP W p -> (forall a, W a -> valP V (f a)) -> valP V (bind p f).
  Proof. intros Hw Hf i b i' H. unfold bind in H. dresH H E. eapply Hf; [eapply Hw, E|apply H]. Qed.

  Lemma monoC_pmap (g : A -> B) (p : parser A) : monoC C p -> monoC C (pmap g p).
  Proof. intros Hp i b i' H. unfold pmap in H. dresH H E. inversion H; subst. eapply Hp, E. Qed.
  Lemma progress_pmap (g : A -> B) (p : parser A) : progress p -> progress (pmap g p).
  Proof. intros Hp i b i' H. unfold pmap in H. dresH H E. inversion H; subst. eapply Hp, E. Qed.
  Lemma safe_pmap (g : A -> B) (p : parser A) : safe_on P p -> safe_on P (pmap g p).
  Proof. intros Hp i Hi. unfold pmap. specialize (Hp i Hi). dres E; auto. Qed.
  Lemma valP_pmap (V : A -> Prop) (W : B -> Prop) (g : A -> B) (p : parser A) :
    valP V p -> (forall a, V a -> W (g a)) -> valP W (pmap g p).
  Proof. intros Hp Hg i b i' H. unfold pmap in H. dresH H E. inversion H; subst. eapply Hg, Hp, E. Qed.

  Lemma monoC_pvalue (b : B) (p : parser A) : monoC C p -> monoC C (pvalue b p).
  Proof. apply monoC_pmap. Qed.
  Lemma progress_pvalue (b : B) (p : parser A) : progress p -> progress (pvalue b p).
  Proof. apply progress_pmap. Qed.
  Lemma safe_pvalue (b : B) (p : parser A) : safe_on P p -> safe_on P (pvalue b p).
  Proof. apply safe_pmap. Qed.

  Lemma monoC_verify_map (g : A -> option B) (p : parser A) : monoC C p -> monoC C (verify_map g p).
  Proof.
    intros Hp i b i' H. unfold verify_map in H. dresH H E. destruct (g a); inversion H; subst. eapply Hp, E.
  Qed.
  Lemma progress_verify_map (g : A -> option B) (p : parser A) : progress p -> progress (verify_map g p).
  Proof.
    intros Hp i b i' H. unfold verify_map in H. dresH H E. destruct (g a); inversion H; subst. eapply Hp, E.
  Qed.
  Lemma safe_verify_map (g : A -> option B) (p : parser A) : safe_on P p -> safe_on P (verify_map g p).
  Proof. intros Hp i Hi. unfold verify_map. specialize (Hp i Hi). dres E; auto. destruct (g a); exact I. Qed.

  Lemma monoC_try_map (g : A -> tm B) (p : parser A) : monoC C p -> monoC C (try_map g p).
  Proof.
    intros Hp i b i' H. unfold try_map in H. dresH H E. destruct (g a); inversion H; subst. eapply Hp, E.
  Qed.
  Lemma progress_try_map (g : A -> tm B) (p : parser A) : progress p -> progress (try_map g p).
  Proof.
    intros Hp i b i' H. unfold try_map in H. dresH H E. destruct (g a); inversion H; subst. eapply Hp, E.
  Qed.
  (* the closure must not reach a panic site on any value p can return *)
  Lemma safe_try_map (V : A -> Prop) (g : A -> tm B) (p : parser A) :
    safe_on P p -> valP V p -> (forall a, V a -> forall s, g a <> TmPanic s) -> safe_on P (try_map g p).
  Proof.
    intros Hp Hv Hg i Hi. unfold try_map. specialize (Hp i Hi). dres E; auto.
    specialize (Hg a (Hv _ _ _ E)). destruct (g a); try exact I. eapply Hg; reflexivity.
  Qed.
  Lemma safe_try_map_total (g : A -> tm B) (p : parser A) :
    safe_on P p -> (forall a s, g a <> TmPanic s) -> safe_on P (try_map g p).
  Proof. intros Hp Hg. eapply safe_try_map; [exact Hp|apply valP_true|]. intros a _. apply Hg. Qed.
  Lemma valP_try_map (V : A -> Prop) (W : B -> Prop) (g : A -> tm B) (p : parser A) :
    valP V p -> (forall a b, V a -> g a = TmOk b -> W b) -> valP W (try_map g p).
  Proof.
    intros Hp Hg i b i' H. unfold try_map in H. dresH H E. destruct (g a) eqn:G; inversion H; subst.
    eapply Hg; [eapply Hp, E|exact G].
  Qed.

  Lemma monoC_and_then (p : parser A) (g : A -> sub B) : monoC C p -> monoC C (and_then p g).
  Proof.
    intros Hp i b i' H. unfold and_then in H. dresH H E. destruct (g a); inversion H; subst. eapply Hp, E.
  Qed.
  Lemma progress_and_then (p : parser A) (g : A -> sub B) : progress p -> progress (and_then p g).
  Proof.
    intros Hp i b i' H. unfold and_then in H. dresH H E. destruct (g a); inversion H; subst. eapply Hp, E.
  Qed.
  Lemma safe_and_then (p : parser A) (g : A -> sub B) :
    safe_on P p -> (forall a s, g a <> SubPanic s) -> safe_on P (and_then p g).
  Proof.
    intros Hp Hg i Hi. unfold and_then. specialize (Hp i Hi). dres E; auto.
    specialize (Hg a). destruct (g a); try exact I. eapply Hg; reflexivity.
  Qed.
End Combs.

Section Combs1.
  Context {A : Type}.
  Variable C : byte -> bool.
  Variable P : input -> Prop.
  Hypothesis Pc : closed P.

  Lemma monoC_pvoid (p : parser A) : monoC C p -> monoC C (pvoid p).
  Proof. apply monoC_pmap. Qed.
  Lemma progress_pvoid (p : parser A) : progress p -> progress (pvoid p).
  Proof. apply progress_pmap. Qed.
  Lemma safe_pvoid (p : parser A) : safe_on P p -> safe_on P (pvoid p).
  Proof. apply safe_pmap. Qed.

  Lemma monoC_peek (p : parser A) : monoC C (peek p).
  Proof. intros i a i' H. unfold peek in H. dresH H E. inversion H; subst. apply ext_refl. Qed.
  Lemma safe_peek (p : parser A) : safe_on P p -> safe_on P (peek p).
  Proof. intros Hp i Hi. unfold peek. specialize (Hp i Hi). dres E; auto. Qed.
  Lemma valP_peek (V : A -> Prop) (p : parser A) : valP V p -> valP V (peek p).
  Proof. intros Hp i a i' H. unfold peek in H. dresH H E. inversion H; subst. eapply Hp, E. Qed.

  Lemma monoC_opt (p : parser A) : monoC C p -> monoC C (opt p).
  Proof.
    intros Hp i a i' H. unfold opt in H. dresH H E; inversion H; subst; [eapply Hp, E|apply ext_refl].
  Qed.
  Lemma safe_opt (p : parser A) : safe_on P p -> safe_on P (opt p).
  Proof. intros Hp i Hi. unfold opt. specialize (Hp i Hi). dres E; auto. Qed.
  Lemma valP_opt (V : A -> Prop) (p : parser A) :
    valP V p -> valP (fun o => match o with Some a => V a | None => True end) (opt p).
  Proof. intros Hp i a i' H. unfold opt in H. dresH H E; inversion H; subst; [eapply Hp, E|exact I]. Qed.

  Lemma monoC_cut_err (p : parser A) : monoC C p -> monoC C (cut_err p).
  Proof. intros Hp i a i' H. unfold cut_err in H. dresH H E. eapply Hp. rewrite E. exact H. Qed.
  Lemma progress_cut_err (p : parser A) : progress p -> progress (cut_err p).
  Proof. intros Hp i a i' H. unfold cut_err in H. dresH H E. eapply Hp. rewrite E. exact H. Qed.
  Lemma safe_cut_err (p : parser A) : safe_on P p -> safe_on P (cut_err p).
  Proof. intros Hp i Hi. unfold cut_err. specialize (Hp i Hi). destruct (p i); auto. Qed.
  Lemma valP_cut_err (V : A -> Prop) (p : parser A) : valP V p -> valP V (cut_err p).
  Proof. intros Hp i a i' H. unfold cut_err in H. dresH H E. eapply Hp. rewrite E. exact H. Qed.

  Lemma monoC_context (p : parser A) : monoC C p -> monoC C (context p).
  Proof. intros Hp i a i' H. unfold context in H. dresH H E. eapply Hp. rewrite E. exact H. Qed.
  Lemma progress_context (p : parser A) : progress p -> progress (context p).
  Proof. intros Hp i a i' H. unfold context in H. dresH H E. eapply Hp. rewrite E. exact H. Qed.
  Lemma safe_context (p : parser A) : safe_on P p -> safe_on P (context p).
  Proof. intros Hp i Hi. unfold context. specialize (Hp i Hi). destruct (p i); auto. Qed.
  Lemma valP_context (V : A -> Prop) (p : parser A) : valP V p -> valP V (context p).
  Proof. intros Hp i a i' H. unfold context in H. dresH H E. eapply Hp. rewrite E. exact H. Qed.

  Lemma monoC_alt (p q : parser A) : monoC C p -> monoC C q -> monoC C (alt p q).
  Proof.
    intros Hp Hq i a i' H. unfold alt in H. destruct (p i) eqn:E; try discriminate.
    - eapply Hp. rewrite E. exact H.
    - eapply Hq, H.
  Qed.
  Lemma progress_alt (p q : parser A) : progress p -> progress q -> progress (alt p q).
  Proof.
    intros Hp Hq i a i' H. unfold alt in H. destruct (p i) eqn:E; try discriminate.
    - eapply Hp. rewrite E. exact H.
    - eapply Hq, H.
  Qed.
  Lemma safe_alt (p q : parser A) : safe_on P p -> safe_on P q -> safe_on P (alt p q).
  Proof.
    intros Hp Hq i Hi. unfold alt. specialize (Hp i Hi). specialize (Hq i Hi). destruct (p i); auto.
  Qed.
  Lemma valP_alt (V : A -> Prop) (p q : parser A) : valP V p -> valP V q -> valP V (alt p q).
  Proof.
    intros Hp Hq i a i' H. unfold alt in H. destruct (p i) eqn:E; try discriminate.
    - eapply Hp. rewrite E. exact H.
    - eapply Hq, H.
  Qed.

  Lemma monoC_verify (f : A -> bool) (p : parser A) : monoC C p -> monoC C (verify f p).
  Proof.
    intros Hp i a i' H. unfold verify in H. dresH H E. destruct (f a0); inversion H; subst. eapply Hp, E.
  Qed.
  Lemma progress_verify (f : A -> bool) (p : parser A) : progress p -> progress (verify f p).
  Proof.
    intros Hp i a i' H. unfold verify in H. dresH H E. destruct (f a0); inversion H; subst. eapply Hp, E.
  Qed.
  Lemma safe_verify (f : A -> bool) (p : parser A) : safe_on P p -> safe_on P (verify f p).
  Proof. intros Hp i Hi. unfold verify. specialize (Hp i Hi). dres E; auto. destruct (f a); exact I. Qed.
  Lemma valP_verify (V : A -> Prop) (f : A -> bool) (p : parser A) :
    valP V p -> valP (fun a => V a /\ f a = true) (verify f p).
  Proof.
    intros Hp i a i' H. unfold verify in H. dresH H E. destruct (f a0) eqn:F; inversion H; subst.
    split; [eapply Hp, E|exact F].
  Qed.

  Lemma monoC_span_ (p : parser A) : monoC C p -> monoC C (span_ p).
  Proof. intros Hp i a i' H. unfold span_ in H. dresH H E. inversion H; subst. eapply Hp, E. Qed.
  Lemma progress_span_ (p : parser A) : progress p -> progress (span_ p).
  Proof. intros Hp i a i' H. unfold span_ in H. dresH H E. inversion H; subst. eapply Hp, E. Qed.
  Lemma safe_span_ (p : parser A) : safe_on P p -> safe_on P (span_ p).
  Proof. intros Hp i Hi. unfold span_. specialize (Hp i Hi). dres E; auto. Qed.

  Lemma monoC_with_span (p : parser A) : monoC C p -> monoC C (with_span p).
  Proof. intros Hp i a i' H. unfold with_span in H. dresH H E. inversion H; subst. eapply Hp, E. Qed.
  Lemma progress_with_span (p : parser A) : progress p -> progress (with_span p).
  Proof. intros Hp i a i' H. unfold with_span in H. dresH H E. inversion H; subst. eapply Hp, E. Qed.
  Lemma safe_with_span (p : parser A) : safe_on P p -> safe_on P (with_span p).
  Proof. intros Hp i Hi. unfold with_span. specialize (Hp i Hi). dres E; auto. Qed.
  Lemma valP_with_span (V : A -> Prop) (p : parser A) : valP V p -> valP (fun x => V (fst x)) (with_span p).
  Proof. intros Hp i a i' H. unfold with_span in H. dresH H E. inversion H; subst. eapply Hp, E. Qed.

  Lemma monoC_taken (p : parser A) : monoC C p -> monoC C (taken p).
  Proof. intros Hp i a i' H. unfold taken in H. dresH H E. inversion H; subst. eapply Hp, E. Qed.
  Lemma progress_taken (p : parser A) : progress p -> progress (taken p).
  Proof. intros Hp i a i' H. unfold taken in H. dresH H E. inversion H; subst. eapply Hp, E. Qed.
  Lemma safe_taken (p : parser A) : safe_on P p -> safe_on P (taken p).
  Proof. intros Hp i Hi. unfold taken. specialize (Hp i Hi). dres E; auto. Qed.
  (* `taken p` returns exactly the bytes p consumed: they are in the class p is confined to *)
  Lemma valP_taken (p : parser A) : monoC C p -> valP (fun b => forallb C b = true) (taken p).
  Proof.
    intros Hp i a i' H. unfold taken in H. dresH H E. inversion H; subst. eapply ext_taken, Hp, E.
  Qed.
End Combs1.

(* sequence helpers *)
Section Seqs.
  Context {A B D : Type}.
  Variable C : byte -> bool.
  Variable P : input -> Prop.
  Hypothesis Pc : closed P.

  Lemma monoC_preceded (p : parser A) (q : parser B) : monoC C p -> monoC C q -> monoC C (preceded p q).
  Proof. intros. apply monoC_bind; auto. Qed.
  Lemma progress_preceded (p : parser A) (q : parser B) : progress p -> mono q -> progress (preceded p q).
  Proof. intros. apply progress_bind_l; auto. Qed.
  Lemma safe_preceded (p : parser A) (q : parser B) :
    mono p -> safe_on P p -> safe_on P q -> safe_on P (preceded p q).
  Proof. intros. apply safe_bind; auto. Qed.
  Lemma valP_preceded (V : B -> Prop) (p : parser A) (q : parser B) : valP V q -> valP V (preceded p q).
  Proof. intros. apply valP_bind; auto. Qed.

  Lemma monoC_terminated (p : parser A) (q : parser B) : monoC C p -> monoC C q -> monoC C (terminated p q).
  Proof. intros. apply monoC_bind; auto. intro. apply monoC_bind; auto. intro. apply monoC_ret. Qed.
  Lemma progress_terminated (p : parser A) (q : parser B) : progress p -> mono q -> progress (terminated p q).
  Proof.
    intros. apply progress_bind_l; auto. intro. apply monoC_bind; auto. intro. apply monoC_ret.
  Qed.
  Lemma safe_terminated (p : parser A) (q : parser B) :
    mono p -> mono q -> safe_on P p -> safe_on P q -> safe_on P (terminated p q).
  Proof.
    intros. apply safe_bind; auto. intro. apply safe_bind; auto. intro. apply safe_ret.
  Qed.
  Lemma valP_terminated (V : A -> Prop) (p : parser A) (q : parser B) : valP V p -> valP V (terminated p q).
  Proof.
    intros Hp. eapply valP_bind_val; [exact Hp|]. intros a Ha. apply valP_bind. intro. apply valP_ret, Ha.
  Qed.

  Lemma monoC_delimited (p : parser A) (q : parser B) (r : parser D) :
    monoC C p -> monoC C q -> monoC C r -> monoC C (delimited p q r).
  Proof.
    intros. apply monoC_bind; auto. intro. apply monoC_bind; auto. intro. apply monoC_bind; auto.
    intro. apply monoC_ret.
  Qed.
  Lemma progress_delimited (p : parser A) (q : parser B) (r : parser D) :
    progress p -> mono q -> mono r -> progress (delimited p q r).
  Proof.
    intros. apply progress_bind_l; auto. intro. apply monoC_bind; auto. intro. apply monoC_bind; auto.
    intro. apply monoC_ret.
  Qed.
  Lemma safe_delimited (p : parser A) (q : parser B) (r : parser D) :
    mono p -> mono q -> mono r -> safe_on P p -> safe_on P q -> safe_on P r -> safe_on P (delimited p q r).
  Proof.
    intros. apply safe_bind; auto. intro. apply safe_bind; auto. intro. apply safe_bind; auto.
    intro. apply safe_ret.
  Qed.
  Lemma valP_delimited (V : B -> Prop) (p : parser A) (q : parser B) (r : parser D) :
    valP V q -> valP V (delimited p q r).
  Proof.
    intros Hq. apply valP_bind. intro. eapply valP_bind_val; [exact Hq|]. intros b Hb.
    apply valP_bind. intro. apply valP_ret, Hb.
  Qed.

  Lemma monoC_pair_ (p : parser A) (q : parser B) : monoC C p -> monoC C q -> monoC C (pair_ p q).
  Proof. intros. apply monoC_bind; auto. intro. apply monoC_bind; auto. intro. apply monoC_ret. Qed.
  Lemma progress_pair_ (p : parser A) (q : parser B) : progress p -> mono q -> progress (pair_ p q).
  Proof.
    intros. apply progress_bind_l; auto. intro. apply monoC_bind; auto. intro. apply monoC_ret.
  Qed.
  Lemma safe_pair_ (p : parser A) (q : parser B) :
    mono p -> mono q -> safe_on P p -> safe_on P q -> safe_on P (pair_ p q).
  Proof.
    intros. apply safe_bind; auto. intro. apply safe_bind; auto. intro. apply safe_ret.
  Qed.
  Lemma valP_pair_ (V : A -> Prop) (W : B -> Prop) (p : parser A) (q : parser B) :
    valP V p -> valP W q -> valP (fun x => V (fst x) /\ W (snd x)) (pair_ p q).
  Proof.
    intros Hp Hq. eapply valP_bind_val; [exact Hp|]. intros a Ha.
    eapply valP_bind_val; [exact Hq|]. intros b Hb. apply valP_ret. split; assumption.
  Qed.
End Seqs.

(* from_utf8_unchecked: safe when the bytes handed over are ASCII *)
Lemma ascii_valid s : forallb ascii s = true -> utf8_valid_b s = true.
Proof.
  induction s as [|b s IH]; [reflexivity|]. cbn [forallb]. intro H. apply andb_true_iff in H as [Hb Hs].
  cbn [utf8_valid_b]. unfold ascii in Hb. rewrite Hb. apply IH, Hs.
Qed.

Section Unchecked.
  Variable C : byte -> bool.
  Variable P : input -> Prop.
  Lemma monoC_unchecked n (p : parser bytes) : monoC C p -> monoC C (unchecked_utf8 n p).
  Proof.
    intros Hp i a i' H. unfold unchecked_utf8 in H. dresH H E. destruct (utf8_valid_b a0); inversion H; subst.
    eapply Hp, E.
  Qed.
  Lemma progress_unchecked n (p : parser bytes) : progress p -> progress (unchecked_utf8 n p).
  Proof.
    intros Hp i a i' H. unfold unchecked_utf8 in H. dresH H E. destruct (utf8_valid_b a0); inversion H; subst.
    eapply Hp, E.
  Qed.
  Lemma valP_unchecked (V : bytes -> Prop) n (p : parser bytes) : valP V p -> valP V (unchecked_utf8 n p).
  Proof.
    intros Hp i a i' H. unfold unchecked_utf8 in H. dresH H E. destruct (utf8_valid_b a0); inversion H; subst.
    eapply Hp, E.
  Qed.
  Lemma safe_unchecked_valid n (p : parser bytes) :
    safe_on P p -> valP (fun b => utf8_valid_b b = true) p -> safe_on P (unchecked_utf8 n p).
  Proof.
    intros Hp Hv i Hi. unfold unchecked_utf8. specialize (Hp i Hi). dres E; auto.
    rewrite (Hv _ _ _ E). exact I.
  Qed.
  Lemma safe_unchecked n (p : parser bytes) :
    safe_on P p -> valP (fun b => forallb ascii b = true) p -> safe_on P (unchecked_utf8 n p).
  Proof.
    intros Hp Hv. apply safe_unchecked_valid; [exact Hp|]. eapply valP_weaken; [|exact Hv]. apply ascii_valid.
  Qed.
End Unchecked.

(* ---- fuelled loops --------------------------------------------------------------------------------- *)
Lemma repeat0_f_mono C {A} (p : parser A) : monoC C p ->
  forall fuel acc i l i', repeat0_f fuel p acc i = Ok l i' -> ext C i i'.
Proof.
  intros Hp. induction fuel as [|f IH]; intros acc i l i' H; cbn [repeat0_f] in H; [discriminate|].
  dresH H E.
  - destruct (Nat.eqb _ _); [discriminate|]. eapply ext_trans; [eapply Hp, E|eapply IH, H].
  - inversion H; subst. apply ext_refl.
Qed.

Lemma separated_loop_mono C {A Sp} (p : parser A) (sep : parser Sp) : monoC C p -> monoC C sep ->
  forall fuel acc i l i', separated_loop fuel p sep acc i = Ok l i' -> ext C i i'.
Proof.
  intros Hp Hq. induction fuel as [|f IH]; intros acc i l i' H; cbn [separated_loop] in H; [discriminate|].
  destruct (sep i) as [x i1|? ?|? ?|?] eqn:E; try discriminate.
  - destruct (Nat.eqb _ _); [discriminate|].
    destruct (p i1) as [a i2|? ?|? ?|?] eqn:E2; try discriminate.
    + eapply ext_trans; [eapply Hq, E|]. eapply ext_trans; [eapply Hp, E2|eapply IH, H].
    + inversion H; subst. apply ext_refl.
  - inversion H; subst. apply ext_refl.
Qed.

Section Loops.
  Context {A : Type}.
  Variable C : byte -> bool.
  Variable P : input -> Prop.
  Hypothesis Pc : closed P.

  (* termination + no debug assertion: with fuel > bytes left the loop never panics *)
  Lemma repeat0_f_safe (p : parser A) : mono p -> progress p -> safe_on P p ->
    forall fuel acc i, P i -> length (rest i) < fuel -> nopanic (repeat0_f fuel p acc i).
  Proof.
    intros Hm Hg Hs. induction fuel as [|f IH]; intros acc i Hi Hl; [lia|]. cbn [repeat0_f].
    specialize (Hs i Hi). dres E; auto. pose proof (Hg _ _ _ E) as L.
    destruct (Nat.eqb _ _) eqn:Q; [apply Nat.eqb_eq in Q; lia|].
    apply IH; [eapply Pc; eauto; lia | lia].
  Qed.

  Lemma monoC_repeat0 (p : parser A) : monoC C p -> monoC C (repeat0 p).
  Proof. intros Hp i l i' H. eapply (repeat0_f_mono C p Hp), H. Qed.
  Lemma safe_repeat0 (p : parser A) : mono p -> progress p -> safe_on P p -> safe_on P (repeat0 p).
  Proof. intros Hm Hg Hs i Hi. unfold repeat0. apply repeat0_f_safe; auto. Qed.

  Lemma monoC_repeat1 (p : parser A) : monoC C p -> monoC C (repeat1 p).
  Proof.
    intros Hp i l i' H. unfold repeat1 in H. dresH H E.
    eapply ext_trans; [eapply Hp, E|eapply (repeat0_f_mono C p Hp), H].
  Qed.
  Lemma progress_repeat1 (p : parser A) : mono p -> progress p -> progress (repeat1 p).
  Proof.
    intros Hm Hg i l i' H. unfold repeat1 in H. dresH H E. apply Hg in E.
    apply (repeat0_f_mono anyb p Hm), ext_len in H. lia.
  Qed.
  Lemma safe_repeat1 (p : parser A) : mono p -> progress p -> safe_on P p -> safe_on P (repeat1 p).
  Proof.
    intros Hm Hg Hs i Hi. unfold repeat1. pose proof (Hs i Hi) as S0. dres E; auto.
    apply repeat0_f_safe; auto. eapply Pc; eauto. eapply ext_len, Hm, E.
  Qed.

  Context {Sp : Type}.
  (* the separator must make progress (winnow asserts it); the element need not *)
  Lemma separated_loop_safe (p : parser A) (sep : parser Sp) :
    mono p -> mono sep -> progress sep -> safe_on P p -> safe_on P sep ->
    forall fuel acc i, P i -> length (rest i) < fuel -> nopanic (separated_loop fuel p sep acc i).
  Proof.
    intros Hm Hms Hg Hs Hss. induction fuel as [|f IH]; intros acc i Hi Hl; [lia|]. cbn [separated_loop].
    pose proof (Hss i Hi) as S0. destruct (sep i) as [x i1|? ?|? ?|?] eqn:E; auto.
    pose proof (Hg _ _ _ E) as L.
    destruct (Nat.eqb _ _) eqn:Q; [apply Nat.eqb_eq in Q; lia|].
    assert (P1 : P i1) by (eapply Pc; eauto; lia).
    pose proof (Hs i1 P1) as S1. destruct (p i1) as [a i2|? ?|? ?|?] eqn:E2; auto.
    pose proof (ext_len _ _ _ (Hm _ _ _ E2)) as L2.
    apply IH; [eapply Pc; eauto; lia | lia].
  Qed.

  Lemma separated_loop_len (p : parser A) (sep : parser Sp) :
    forall fuel acc i l i', separated_loop fuel p sep acc i = Ok l i' -> length acc <= length l.
  Proof.
    induction fuel as [|f IH]; intros acc i l i' H; cbn [separated_loop] in H; [discriminate|].
    destruct (sep i) as [x i1|? ?|? ?|?] eqn:E; try discriminate.
    - destruct (Nat.eqb _ _); [discriminate|].
      destruct (p i1) as [a i2|? ?|? ?|?] eqn:E2; try discriminate.
      + apply IH in H. cbn in H. lia.
      + inversion H; subst. rewrite rev_length. lia.
    - inversion H; subst. rewrite rev_length. lia.
  Qed.

  (* every element of the result was returned by the element parser (or was in acc) *)
  Lemma separated_loop_all (V : A -> Prop) (p : parser A) (sep : parser Sp) : valP V p ->
    forall fuel acc i l i', separated_loop fuel p sep acc i = Ok l i' -> Forall V acc -> Forall V l.
  Proof.
    intros Hv. induction fuel as [|f IH]; intros acc i l i' H Ha; cbn [separated_loop] in H; [discriminate|].
    destruct (sep i) as [x i1|? ?|? ?|?] eqn:E; try discriminate.
    - destruct (Nat.eqb _ _); [discriminate|].
      destruct (p i1) as [a i2|? ?|? ?|?] eqn:E2; try discriminate.
      + eapply IH; [exact H|]. constructor; [eapply Hv, E2|exact Ha].
      + inversion H; subst. apply Forall_rev, Ha.
    - inversion H; subst. apply Forall_rev, Ha.
  Qed.

  Lemma monoC_separated0 (p : parser A) (sep : parser Sp) : monoC C p -> monoC C sep -> monoC C (separated0 p sep).
  Proof.
    intros Hp Hq i l i' H. unfold separated0 in H. destruct (p i) as [a i1|? ?|? ?|?] eqn:E; try discriminate.
    - eapply ext_trans; [eapply Hp, E|eapply (separated_loop_mono C p sep Hp Hq), H].
    - inversion H; subst. apply ext_refl.
  Qed.
  Lemma safe_separated0 (p : parser A) (sep : parser Sp) :
    mono p -> mono sep -> progress sep -> safe_on P p -> safe_on P sep -> safe_on P (separated0 p sep).
  Proof.
    intros Hm Hms Hg Hs Hss i Hi. unfold separated0. pose proof (Hs i Hi) as S0.
    destruct (p i) as [a i1|? ?|? ?|?] eqn:E; auto.
    apply separated_loop_safe; auto. eapply Pc; eauto. eapply ext_len, Hm, E.
  Qed.
  Lemma valP_separated0_all (V : A -> Prop) (p : parser A) (sep : parser Sp) :
    valP V p -> valP (Forall V) (separated0 p sep).
  Proof.
    intros Hv i l i' H. unfold separated0 in H. destruct (p i) as [a i1|? ?|? ?|?] eqn:E; try discriminate.
    - eapply separated_loop_all; eauto.
    - inversion H; subst. constructor.
  Qed.

  Lemma monoC_separated1 (p : parser A) (sep : parser Sp) : monoC C p -> monoC C sep -> monoC C (separated1 p sep).
  Proof.
    intros Hp Hq i l i' H. unfold separated1 in H. destruct (p i) as [a i1|? ?|? ?|?] eqn:E; try discriminate.
    eapply ext_trans; [eapply Hp, E|eapply (separated_loop_mono C p sep Hp Hq), H].
  Qed.
  Lemma progress_separated1 (p : parser A) (sep : parser Sp) :
    mono p -> mono sep -> progress p -> progress (separated1 p sep).
  Proof.
    intros Hm Hms Hg i l i' H. unfold separated1 in H. destruct (p i) as [a i1|? ?|? ?|?] eqn:E; try discriminate.
    apply Hg in E. apply (separated_loop_mono anyb p sep Hm Hms), ext_len in H. lia.
  Qed.
  Lemma safe_separated1 (p : parser A) (sep : parser Sp) :
    mono p -> mono sep -> progress sep -> safe_on P p -> safe_on P sep -> safe_on P (separated1 p sep).
  Proof.
    intros Hm Hms Hg Hs Hss i Hi. unfold separated1. pose proof (Hs i Hi) as S0.
    destruct (p i) as [a i1|? ?|? ?|?] eqn:E; auto.
    apply separated_loop_safe; auto. eapply Pc; eauto. eapply ext_len, Hm, E.
  Qed.
  (* separated(1.., ..) returns a non-empty list: what `expect("grammar ensures at least 1")` relies on *)
  Lemma valP_separated1_nonempty (p : parser A) (sep : parser Sp) : valP (fun l => l <> []) (separated1 p sep).
  Proof.
    intros i l i' H. unfold separated1 in H. destruct (p i) as [a i1|? ?|? ?|?] eqn:E; try discriminate.
    apply separated_loop_len in H. cbn in H. destruct l; [cbn in H; lia|discriminate].
  Qed.
End Loops.

(* parse_all *)
Lemma parse_all_nopanic {A} (p : parser A) s :
  nopanic (p (new_input s)) -> forall st, parse_all p s <> Panicked st.
Proof.
  intros H st. unfold parse_all, bind. destruct (p (new_input s)) as [a i|? ?|? ?|?]; try discriminate.
  - unfold eof. destruct (rest i); discriminate.
  - destruct H.
Qed.

(* ---- hint database ----------------------------------------------------------------------------------- *)
Create HintDb np discriminated.
#[export] Hint Resolve closed_anyi closed_shorter : np.
#[export] Hint Resolve monoC_ret safe_ret monoC_fail progress_fail safe_fail monoC_cut_custom safe_cut_custom
  monoC_empty safe_empty mono_any progress_any safe_any mono_one_of progress_one_of safe_one_of
  mono_none_of progress_none_of safe_none_of mono_byte_ progress_byte_ safe_byte_
  mono_lit safe_lit mono_take_while safe_take_while mono_take_while0 mono_take_while1
  progress_take_while1 safe_take_while0 safe_take_while1 mono_take_n safe_take_n mono_rest_ safe_rest_
  monoC_eof safe_eof : np.
#[export] Hint Resolve monoC_bind safe_bind monoC_pmap progress_pmap safe_pmap monoC_pvalue progress_pvalue safe_pvalue
  monoC_verify_map progress_verify_map safe_verify_map monoC_try_map progress_try_map
  monoC_and_then progress_and_then monoC_pvoid progress_pvoid safe_pvoid monoC_peek safe_peek
  monoC_opt safe_opt monoC_cut_err progress_cut_err safe_cut_err monoC_context progress_context safe_context
  monoC_alt progress_alt safe_alt monoC_verify progress_verify safe_verify
  monoC_span_ progress_span_ safe_span_ monoC_with_span progress_with_span safe_with_span
  monoC_taken progress_taken safe_taken
  monoC_preceded progress_preceded safe_preceded monoC_terminated progress_terminated safe_terminated
  monoC_delimited progress_delimited safe_delimited monoC_pair_ progress_pair_ safe_pair_
  monoC_unchecked progress_unchecked
  monoC_repeat0 safe_repeat0 monoC_repeat1 progress_repeat1 safe_repeat1
  monoC_separated0 safe_separated0 monoC_separated1 progress_separated1 safe_separated1 : np.
#[export] Hint Resolve progress_bind_l | 2 : np.
#[export] Hint Resolve progress_bind_r | 3 : np.
#[export] Hint Extern 1 (monoC _ (if ?c then _ else _)) => destruct c : np.
#[export] Hint Extern 1 (progress (if ?c then _ else _)) => destruct c : np.
#[export] Hint Extern 1 (safe_on _ (if ?c then _ else _)) => destruct c : np.
#[export] Hint Extern 1 (monoC _ (match ?x with _ => _ end)) => destruct x : np.
#[export] Hint Extern 1 (progress (match ?x with _ => _ end)) => destruct x : np.
#[export] Hint Extern 1 (safe_on _ (match ?x with _ => _ end)) => destruct x : np.
#[export] Hint Extern 5 (_ <> []) => discriminate : np.
#[export] Hint Extern 5 (_ <= _) => lia : np.

Ltac np := auto 40 with np.
