(* Proofs/LexEquivFloat.v — L1 for floats: zero-prefixable-int, frac, exp, the shape parser
   float_, the exact decimal `fdec_of_text` computes from the recognised text, and `float`
   (overflow guard, inf / nan). *)
From TV Require Import Base.Prelude Base.Utf8 Base.Winnow Gen.Consts Spec.Abnf Spec.Lex.
From TV Require Import Model.Datetime Model.Trivia Model.Strings Model.Numbers.
From TV Require Import Proofs.ConstsOk Proofs.LexEquivBase Proofs.LexEquivTrivia Proofs.LexEquivInt.
Require Import Lia ZifyBool ZifyN ZifyNat.

Definition is_e (b : byte) : bool := byte_eqb b x65 || byte_eqb b x45.

(* ---- zero-prefixable-int = DIGIT *( DIGIT / underscore DIGIT ) ------------------------------------ *)
Lemma zpi_complete i u ds r :
  zero_prefixable_int_tok u ds -> rest i = u ++ r -> stops (us_or Abnf.digit) r ->
  zero_prefixable_int i = Ok u (adv u i).
Proof.
  intros Hu H Hr. destruct (cat_one_star_facts _ digit_class_digit u ds Hu) as (Au & _ & _ & _ & b & t & v & -> & _ & Hb & St).
  unfold zero_prefixable_int, digit. apply unchecked_ok; [|apply utf8_ascii; exact Au].
  apply (taken_ok _ _ tt); [|apply (splits_adv _ _ r H)].
  apply (digits_us_complete _ _ DIGIT_ok digit_class_digit _ _ DIGIT_ok i b t v r H Hb St Hr).
Qed.

Lemma zpi_sound i u i' : zero_prefixable_int i = Ok u i' ->
  splits i u i' /\ (exists ds, zero_prefixable_int_tok u ds) /\ stops (us_or Abnf.digit) (rest i').
Proof.
  unfold zero_prefixable_int, digit. intro H. apply unchecked_inv in H as [H _].
  apply taken_inv in H as (y & H & Es).
  apply (digits_us_sound _ _ DIGIT_ok digit_class_digit _ _ DIGIT_ok) in H as (b & t & v & Hb & St & S & Hs).
  rewrite (splits_taken _ _ _ S) in Es. subst u. split; [exact S|]. split; [|exact Hs].
  exists ([b] ++ v). exists [b], [b], t, v. repeat split; [exists b; auto|exact St].
Qed.

Lemma zpi_fails i : stops Abnf.digit (rest i) -> fails zero_prefixable_int i.
Proof.
  intro H. unfold zero_prefixable_int, digit. apply unchecked_fails, taken_fails.
  apply (digits_us_fails _ _ _ DIGIT_ok). exact H.
Qed.

(* ---- frac = decimal-point zero-prefixable-int -------------------------------------------------------- *)
Lemma frac_complete i fr frd r :
  frac_tok fr frd -> rest i = fr ++ r -> stops (us_or Abnf.digit) r -> frac i = Ok fr (adv fr i).
Proof.
  intros (t1 & v1 & u & ds & -> & -> & [-> ->] & Hu) H Hr.
  destruct (cat_one_star_facts _ digit_class_digit u ds Hu) as (Au & _).
  unfold frac, dot. apply unchecked_ok; [|apply utf8_ascii; cbn [app forallb]; rewrite Au; reflexivity].
  rewrite <- app_assoc in H.
  apply (taken_ok _ _ u); [|apply (splits_adv _ _ r); rewrite <- app_assoc; exact H].
  rewrite (bind_ok _ _ _ _ _ (byte_ok x2e i (u ++ r) H)).
  rewrite <- adv_adv. apply context_ok, cut_err_ok.
  apply (zpi_complete _ u ds r Hu (rest_adv _ _ _ H) Hr).
Qed.

Lemma frac_sound i s i' : frac i = Ok s i' ->
  splits i s i' /\ (exists frd, frac_tok s frd) /\ stops (us_or Abnf.digit) (rest i').
Proof.
  unfold frac, dot. intro H. apply unchecked_inv in H as [H _]. apply taken_inv in H as (y & H & Es).
  apply bind_inv in H as (x & i1 & H1 & H). apply byte_inv in H1 as [_ S1].
  apply context_inv, cut_err_inv in H. apply zpi_sound in H as (S2 & (ds & Hu) & Hs).
  pose proof (splits_trans _ _ _ _ _ S1 S2) as S. rewrite (splits_taken _ _ _ S) in Es. subst s.
  split; [exact S|]. split; [|exact Hs]. exists ([] ++ ds). exists [x2e], [], y, ds. repeat split. exact Hu.
Qed.

Lemma frac_fails i : stops (byte_eqb x2e) (rest i) -> fails frac i.
Proof.
  intro H. unfold frac, dot. apply unchecked_fails, taken_fails, bind_fails, byte_fails. exact H.
Qed.

(* ---- exp = "e" [ minus / plus ] zero-prefixable-int ------------------------------------------------------ *)
Lemma exp_unfold i :
  exp i = unchecked_utf8 16 (taken (one_of is_e ;;; opt (one_of is_sign) ;;; cut_err zero_prefixable_int)) i.
Proof. reflexivity. Qed.

Lemma exp_complete i ex e r :
  exp_tok ex e -> rest i = ex ++ r -> stops (us_or Abnf.digit) r -> exp i = Ok ex (adv ex i).
Proof.
  intros (c & sg & neg & u & ds & -> & Hc & Hs & Hu & _) H Hr.
  destruct (cat_one_star_facts _ digit_class_digit u ds Hu) as (Au & _ & _ & _ & b & t & v & Eu & _ & Hb & _).
  destruct (sign_facts sg neg Hs) as [As _].
  rewrite exp_unfold. apply unchecked_ok.
  2:{ apply utf8_ascii. cbn [forallb]. rewrite forallb_app, As, Au. destruct Hc as [-> | ->]; reflexivity. }
  change (c :: sg ++ u) with ([c] ++ sg ++ u) in *. rewrite <- !app_assoc in H.
  apply (taken_ok _ _ u); [|apply (splits_adv _ _ r); rewrite <- !app_assoc; exact H].
  assert (Ec : is_e c = true) by (destruct Hc as [-> | ->]; reflexivity).
  rewrite (bind_ok _ _ _ _ _ (one_of_ok is_e i c _ H Ec)).
  pose proof (rest_adv [c] _ _ H) as R1.
  assert (Hsg : stops is_sign (u ++ r)) by (rewrite Eu; apply digit_stops_sign; exact Hb).
  rewrite (bind_ok _ _ _ _ _ (opt_sign_complete _ sg neg _ Hs R1 Hsg)).
  pose proof (rest_adv sg _ _ R1) as R2.
  rewrite (cut_err_ok _ _ _ _ (zpi_complete _ u ds r Hu R2 Hr)). rewrite !adv_adv. reflexivity.
Qed.

Lemma is_e_cases c : is_e c = true -> c = x65 \/ c = x45.
Proof. unfold is_e. intro H. apply orb_true_iff in H as [H | H]; apply byte_eqb_eq in H; auto. Qed.

Lemma exp_sound i s i' : exp i = Ok s i' ->
  splits i s i' /\ (exists e, exp_tok s e) /\ stops (us_or Abnf.digit) (rest i').
Proof.
  rewrite exp_unfold. intro H. apply unchecked_inv in H as [H _]. apply taken_inv in H as (y & H & Es).
  apply bind_inv in H as (c & i1 & H1 & H). apply one_of_inv in H1 as [Hc S1].
  apply bind_inv in H as (o & i2 & H2 & H). apply opt_sign_sound in H2 as (sg & neg & Hs & S2 & _).
  apply cut_err_inv, zpi_sound in H as (S3 & (ds & Hu) & Hst).
  pose proof (splits_trans _ _ _ _ _ S1 (splits_trans _ _ _ _ _ S2 S3)) as S.
  rewrite (splits_taken _ _ _ S) in Es. subst s. split; [exact S|]. split; [|exact Hst].
  exists (signed neg (horner 10 ds)). exists c, sg, neg, y, ds. split; [reflexivity|].
  split; [apply is_e_cases; exact Hc|auto].
Qed.

Lemma exp_fails i : stops is_e (rest i) -> fails exp i.
Proof.
  intro H. unfold fails. rewrite exp_unfold. apply unchecked_fails, taken_fails, bind_fails, one_of_fails. exact H.
Qed.

(* ---- the decimal forms of float:  dec-int ( exp / frac [ exp ] ) ---------------------------------------------- *)
(* parts of a decimal float literal: sign, integer digits, fraction digits, optional exponent *)
Definition float_parts (s : bytes) (neg : bool) (ipd frd : bytes) (eo : option Z) : Prop :=
  exists sg ip fr ex, s = sg ++ ip ++ fr ++ ex /\ sign sg neg /\ unsigned_dec_int ip ipd
    /\ ((fr = [] /\ frd = []) \/ frac_tok fr frd)
    /\ match eo with None => ex = [] | Some e => exp_tok ex e end
    /\ (fr = [] -> eo <> None).

Definition fval_of (neg : bool) (ipd frd : bytes) (eo : option Z) : fval :=
  FDec neg (horner 10 (ipd ++ frd))
       ((match eo with Some e => e | None => 0 end) - Z.of_nat (length frd))%Z.

Lemma float_parts_tok s neg ipd frd eo : float_parts s neg ipd frd eo -> float_tok s (fval_of neg ipd frd eo).
Proof.
  intros (sg & ip & fr & ex & -> & Hs & Hi & Hf & He & Hne). unfold fval_of.
  destruct Hf as [[-> ->] | Hf]; destruct eo as [e|].
  - rewrite app_nil_r. cbn [app length]. replace (e - Z.of_nat 0)%Z with e by lia.
    apply float_exp; assumption.
  - exfalso. apply Hne; reflexivity.
  - apply float_frac_exp; assumption.
  - subst ex. rewrite app_nil_r. replace (0 - Z.of_nat (length frd))%Z with (- Z.of_nat (length frd))%Z by lia.
    apply float_frac; assumption.
Qed.

Lemma frac_tok_nonempty fr frd : frac_tok fr frd -> fr <> [].
Proof. intros (t1 & v1 & u & ds & -> & _ & [-> _] & _). discriminate. Qed.

Lemma tok_float_parts s neg m e : float_tok s (FDec neg m e) ->
  exists ipd frd eo, float_parts s neg ipd frd eo /\ FDec neg m e = fval_of neg ipd frd eo.
Proof.
  intro H. inversion H as [sg n ip ipd ex e0 Hs Hi He | sg n ip ipd fr frd Hs Hi Hf
                          | sg n ip ipd fr frd ex e0 Hs Hi Hf He | |]; subst.
  - exists ipd, [], (Some e). split.
    + exists sg, ip, [], ex. cbn [app]. repeat split; auto. discriminate.
    + unfold fval_of. rewrite app_nil_r. cbn [length]. f_equal; lia.
  - exists ipd, frd, None. split.
    + exists sg, ip, fr, []. rewrite app_nil_r. repeat split; auto.
      intro E. destruct (frac_tok_nonempty _ _ Hf E).
    + unfold fval_of. f_equal; lia.
  - exists ipd, frd, (Some e0). split.
    + exists sg, ip, fr, ex. repeat split; auto. discriminate.
    + reflexivity.
Qed.

(* ---- float_ recognises exactly these shapes ------------------------------------------------------------------------ *)
Definition float_tail : parser unit := pvoid exp <|> (frac ;;; pvoid (opt exp)).

Lemma float__unfold i : float_ i = unchecked_utf8 17 (taken (dec_int ;;; float_tail)) i.
Proof. reflexivity. Qed.

Lemma exp_tok_head ex e : exp_tok ex e -> exists c t, ex = c :: t /\ is_e c = true /\ forallb ascii ex = true.
Proof.
  intros (c & sg & neg & u & ds & -> & Hc & Hs & Hu & _). exists c, (sg ++ u).
  destruct (cat_one_star_facts _ digit_class_digit u ds Hu) as (Au & _). destruct (sign_facts sg neg Hs) as [As _].
  split; [reflexivity|]. cbn [forallb]. rewrite forallb_app, As, Au. destruct Hc as [-> | ->]; auto.
Qed.

Lemma frac_tok_head fr frd : frac_tok fr frd -> exists t, fr = x2e :: t /\ forallb ascii fr = true.
Proof.
  intros (t1 & v1 & u & ds & -> & _ & [-> _] & Hu). exists u.
  destruct (cat_one_star_facts _ digit_class_digit u ds Hu) as (Au & _).
  split; [reflexivity|]. cbn [app forallb]. rewrite Au. reflexivity.
Qed.

Lemma e_stops_digit c t : is_e c = true -> stops (us_or Abnf.digit) (c :: t).
Proof. intro H. apply is_e_cases in H as [-> | ->]; reflexivity. Qed.

Lemma float__complete i s neg ipd frd eo r :
  float_parts s neg ipd frd eo -> rest i = s ++ r -> stops (us_or Abnf.digit) r ->
  (eo = None -> stops is_e r) -> float_ i = Ok s (adv s i).
Proof.
  intros (sg & ip & fr & ex & -> & Hs & Hi & Hf & He & Hne) H Hr Hre.
  destruct (sign_facts sg neg Hs) as [As _]. destruct (unsigned_facts ip ipd Hi) as (Ai & _).
  assert (Ax : forallb ascii ex = true /\ (ex = [] \/ exists c t, ex = c :: t /\ is_e c = true)).
  { destruct eo as [e|]; [|subst ex; auto]. destruct (exp_tok_head ex e He) as (c & t & E & Hc & A). eauto 6. }
  destruct Ax as [Ax Hex].
  assert (Af : forallb ascii fr = true).
  { destruct Hf as [[-> _] | Hf]; [reflexivity|]. destruct (frac_tok_head _ _ Hf) as (t & _ & A). exact A. }
  rewrite float__unfold. apply unchecked_ok; [|apply utf8_ascii; rewrite !forallb_app, As, Ai, Af, Ax; reflexivity].
  apply (taken_ok _ _ tt); [|apply (splits_adv _ _ r H)].
  assert (H' : rest i = (sg ++ ip) ++ fr ++ ex ++ r) by (rewrite H; rewrite <- !app_assoc; reflexivity).
  (* what follows the integer part cannot continue it *)
  assert (Hstop : stops (us_or Abnf.digit) (fr ++ ex ++ r)).
  { destruct Hf as [[-> _] | Hf].
    - destruct Hex as [-> | (c & t & -> & Hc)]; [exfalso; destruct eo; [|apply Hne; reflexivity]|].
      + destruct (exp_tok_head _ _ He) as (c & t & E & _). discriminate.
      + apply e_stops_digit. exact Hc.
    - destruct (frac_tok_head _ _ Hf) as (t & -> & _). reflexivity. }
  rewrite (bind_ok _ _ _ _ _ (dec_int_complete i sg neg ip ipd _ Hs Hi H' Hstop)).
  pose proof (rest_adv _ _ _ H') as R. unfold float_tail.
  destruct Hf as [[-> _] | Hf].
  - (* exponent only *)
    destruct eo as [e|]; [|exfalso; apply Hne; reflexivity]. cbn [app] in *.
    rewrite (alt_ok _ _ _ _ _ (pvoid_ok _ _ _ _ (exp_complete _ ex e r He R Hr))).
    rewrite adv_adv. rewrite <- app_assoc. reflexivity.
  - (* fraction, then maybe an exponent *)
    destruct (frac_tok_head _ _ Hf) as (t & Efr & _).
    rewrite alt_fails_l by (apply pvoid_fails, exp_fails; rewrite R, Efr; reflexivity).
    assert (Hstop2 : stops (us_or Abnf.digit) (ex ++ r)).
    { destruct Hex as [-> | (c & t' & -> & Hc)]; [exact Hr|apply e_stops_digit; exact Hc]. }
    rewrite (bind_ok _ _ _ _ _ (frac_complete _ fr frd _ Hf R Hstop2)).
    pose proof (rest_adv _ _ _ R) as R2.
    destruct eo as [e|].
    + rewrite (pvoid_ok _ _ _ _ (opt_ok _ _ _ _ (exp_complete _ ex e r He R2 Hr))).
      rewrite !adv_adv. rewrite <- !app_assoc. reflexivity.
    + subst ex. cbn [app] in R2. rewrite (pvoid_ok _ _ None (adv fr (adv (sg ++ ip) i))).
      * rewrite !adv_adv. rewrite app_nil_r, <- !app_assoc. reflexivity.
      * apply opt_fails, exp_fails. rewrite R2. apply Hre. reflexivity.
Qed.

Lemma float__sound i s i' : float_ i = Ok s i' ->
  splits i s i' /\ exists neg ipd frd eo, float_parts s neg ipd frd eo.
Proof.
  rewrite float__unfold. intro H. apply unchecked_inv in H as [H _]. apply taken_inv in H as (y & H & Es).
  apply bind_inv in H as (s1 & i1 & H1 & H). apply dec_int_sound in H1 as (S1 & sg & neg & ip & ipd & -> & Hs & Hi).
  unfold float_tail in H. apply alt_inv in H as [H | [_ H]].
  - apply pvoid_inv in H as (ex & H). apply exp_sound in H as (S2 & (e & He) & _).
    pose proof (splits_trans _ _ _ _ _ S1 S2) as S. rewrite (splits_taken _ _ _ S) in Es. subst s.
    split; [exact S|]. exists neg, ipd, [], (Some e). exists sg, ip, [], ex. cbn [app].
    rewrite <- app_assoc. repeat split; auto. discriminate.
  - apply bind_inv in H as (fr & i2 & H2 & H). apply frac_sound in H2 as (S2 & (frd & Hf) & _).
    apply pvoid_inv in H as (o & H). apply opt_inv in H as [(ex & -> & H) | (-> & -> & _)].
    + apply exp_sound in H as (S3 & (e & He) & _).
      pose proof (splits_trans _ _ _ _ _ S1 (splits_trans _ _ _ _ _ S2 S3)) as S.
      rewrite (splits_taken _ _ _ S) in Es. subst s. split; [exact S|].
      exists neg, ipd, frd, (Some e). exists sg, ip, fr, ex. rewrite <- app_assoc. repeat split; auto. discriminate.
    + pose proof (splits_trans _ _ _ _ _ S1 S2) as S. rewrite (splits_taken _ _ _ S) in Es. subst s.
      split; [exact S|]. exists neg, ipd, frd, None. exists sg, ip, fr, []. rewrite app_nil_r, <- app_assoc.
      repeat split; auto. intro E. destruct (frac_tok_nonempty _ _ Hf E).
Qed.

(* float_ fails without commitment when no digit follows the optional sign (inf, nan, ...) *)
Lemma float__fails i sg neg r : sign sg neg -> rest i = sg ++ r -> stops is_sign r -> stops Abnf.digit r ->
  fails float_ i.
Proof.
  intros Hs H Hr Hd. unfold fails. rewrite float__unfold. apply unchecked_fails, taken_fails, bind_fails.
  apply (dec_int_fails i sg neg r Hs H Hr Hd).
Qed.

(* ---- the exact decimal: fdec_of_text on the recognised text ---------------------------------------------------- *)
Definition strip_sign (s : bytes) : bool * bytes :=
  match s with
  | b :: t => if byte_eqb b plus then (false, t) else if byte_eqb b dash then (true, t) else (false, s)
  | [] => (false, s)
  end.

Definition e10_of (ex : option bytes) : Z :=
  match ex with
  | None => 0%Z
  | Some t => match t with
              | b :: u => if byte_eqb b plus then Z.of_N (dec_value u)
                          else if byte_eqb b dash then (- Z.of_N (dec_value u))%Z
                          else Z.of_N (dec_value t)
              | [] => 0%Z
              end
  end.

Lemma fdec_unfold s :
  fdec_of_text s =
  let '(neg, body) := strip_sign s in
  let '(mant, ex) := split_at_byte is_e body in
  let '(ip, fp) := split_at_byte (byte_eqb dot) mant in
  let fp := match fp with Some f => f | None => [] end in
  FDec neg (dec_value (ip ++ fp)) (e10_of ex - Z.of_nat (length fp))%Z.
Proof. reflexivity. Qed.

Lemma split_at_byte_exact f a r :
  forallb (fun b => negb (f b)) a = true -> match r with [] => True | b :: _ => f b = true end ->
  split_at_byte f (a ++ r) = (a, match r with [] => None | _ :: t => Some t end).
Proof.
  intros Ha Hr. unfold split_at_byte. rewrite (span_while_exact _ a r Ha).
  - destruct r; reflexivity.
  - destruct r; [exact I|]. cbn [stops]. rewrite Hr. reflexivity.
Qed.

Lemma dec_value_acc_horner ds : forallb Abnf.digit ds = true -> forall acc,
  dec_value_acc acc ds = fold_left (fun a b => (a * 10 + digit_of b)%N) ds acc.
Proof.
  induction ds as [|d ds IH]; intros H acc; [reflexivity|].
  cbn [forallb] in H. apply andb_true_iff in H as [Hd Hds]. cbn [dec_value_acc fold_left].
  rewrite IH by exact Hds. f_equal. unfold digit_val, digit_of. unfold Abnf.digit in Hd. rewrite Hd. reflexivity.
Qed.

Lemma dec_value_horner ds : forallb Abnf.digit ds = true -> dec_value ds = horner 10 ds.
Proof. intro H. unfold dec_value, horner. apply dec_value_acc_horner. exact H. Qed.

Lemma strip_sign_ok sg neg d t : sign sg neg -> Abnf.digit d = true -> strip_sign (sg ++ d :: t) = (neg, d :: t).
Proof.
  intros [[-> ->] | [[-> ->] | [-> ->]]] Hd; cbn [app strip_sign]; [|reflexivity|reflexivity].
  destruct (digit_not_sign d Hd) as [-> ->]. reflexivity.
Qed.

Lemma e10_signed sg neg ds : sign sg neg -> ds <> [] -> forallb Abnf.digit ds = true ->
  e10_of (Some (sg ++ ds)) = signed neg (horner 10 ds).
Proof.
  intros [[-> ->] | [[-> ->] | [-> ->]]] Hne Hd; cbn [app e10_of signed].
  - destruct ds as [|b u]; [congruence|]. pose proof Hd as Hd'. cbn [forallb] in Hd'. apply andb_true_iff in Hd' as [Hb _].
    destruct (digit_not_sign b Hb) as [-> ->]. rewrite dec_value_horner by exact Hd. reflexivity.
  - change (byte_eqb x2b plus) with true. cbv iota. rewrite dec_value_horner by exact Hd. reflexivity.
  - change (byte_eqb x2d plus) with false. change (byte_eqb x2d dash) with true. cbv iota.
    rewrite dec_value_horner by exact Hd. reflexivity.
Qed.

Lemma digit_not_e_dot b : Abnf.digit b = true -> is_e b = false /\ byte_eqb dot b = false.
Proof. unfold is_e, dot. cls. lia. Qed.

Lemma digits_no_e ds : forallb Abnf.digit ds = true -> forallb (fun b => negb (is_e b)) ds = true.
Proof. apply forallb_impl. intros b H. destruct (digit_not_e_dot b H) as [-> _]. reflexivity. Qed.
Lemma digits_no_dot ds : forallb Abnf.digit ds = true -> forallb (fun b => negb (byte_eqb dot b)) ds = true.
Proof. apply forallb_impl. intros b H. destruct (digit_not_e_dot b H) as [_ ->]. reflexivity. Qed.

(* the cleaned text of each part *)
Lemma frac_clean fr frd : frac_tok fr frd ->
  remove_us fr = x2e :: frd /\ forallb Abnf.digit frd = true.
Proof.
  intros (t1 & v1 & u & ds & -> & -> & [-> ->] & Hu).
  destruct (cat_one_star_facts _ digit_class_digit u ds Hu) as (_ & Ad & Ar & _).
  rewrite remove_us_app, Ar. auto.
Qed.

Lemma exp_clean ex e : exp_tok ex e -> exists c sg neg ds,
  remove_us ex = c :: sg ++ ds /\ is_e c = true /\ sign sg neg /\ ds <> [] /\ forallb Abnf.digit ds = true
  /\ e = signed neg (horner 10 ds).
Proof.
  intros (c & sg & neg & u & ds & -> & Hc & Hs & Hu & ->).
  destruct (cat_one_star_facts _ digit_class_digit u ds Hu) as (_ & Ad & Ar & Ane & _).
  destruct (sign_facts sg neg Hs) as [_ Rs].
  exists c, sg, neg, ds. change (c :: sg ++ u) with ([c] ++ sg ++ u). rewrite !remove_us_app, Rs, Ar.
  assert (Ec : is_e c = true) by (destruct Hc as [-> | ->]; reflexivity).
  split; [destruct Hc as [-> | ->]; reflexivity|auto].
Qed.

Theorem fdec_exact s neg ipd frd eo :
  float_parts s neg ipd frd eo -> fdec_of_text (remove_us s) = fval_of neg ipd frd eo.
Proof.
  intros (sg & ip & fr & ex & -> & Hs & Hi & Hf & He & Hne).
  destruct (sign_facts sg neg Hs) as [_ Rs].
  destruct (unsigned_facts ip ipd Hi) as (_ & Ai & Ri & Ine & _).
  rewrite !remove_us_app, Rs, Ri.
  (* the fraction part *)
  assert (F : exists fr', remove_us fr = fr' /\ forallb Abnf.digit frd = true
                          /\ ((fr' = [] /\ frd = []) \/ fr' = x2e :: frd)).
  { destruct Hf as [[-> ->] | Hf]; [exists []; auto|]. destruct (frac_clean _ _ Hf) as [R A]. eauto 6. }
  destruct F as (fr' & -> & Afr & Hfr').
  (* the exponent part *)
  assert (X : exists ex', remove_us ex = ex' /\ match ex' with [] => True | b :: _ => is_e b = true end
                          /\ e10_of (match ex' with [] => None | _ :: t => Some t end)
                             = match eo with Some e => e | None => 0%Z end).
  { destruct eo as [e|].
    - destruct (exp_clean _ _ He) as (c & sg2 & neg2 & ds & R & Hc & Hs2 & Dne & Ad & ->).
      exists (c :: sg2 ++ ds). split; [exact R|]. split; [exact Hc|]. apply e10_signed; assumption.
    - subst ex. exists []. auto. }
  destruct X as (ex' & -> & Hex & He10).
  destruct ipd as [|d ipd']; [congruence|]. pose proof Ai as Ai'. cbn [forallb] in Ai'. apply andb_true_iff in Ai' as [Hd _].
  rewrite fdec_unfold. cbn [app]. rewrite (strip_sign_ok sg neg d _ Hs Hd).
  change (d :: ipd' ++ fr' ++ ex') with ((d :: ipd') ++ fr' ++ ex'). rewrite app_assoc.
  rewrite split_at_byte_exact; [|
    rewrite forallb_app, (digits_no_e _ Ai); destruct Hfr' as [[-> _] | ->]; [reflexivity|];
    cbn [forallb]; rewrite (digits_no_e _ Afr); reflexivity | exact Hex ].
  unfold fval_of.
  destruct Hfr' as [[-> ->] | ->].
  - rewrite app_nil_r. rewrite <- (app_nil_r (d :: ipd')) at 1.
    rewrite split_at_byte_exact; [|apply digits_no_dot; exact Ai|exact I]. rewrite <- He10, app_nil_r.
    rewrite dec_value_horner by exact Ai. reflexivity.
  - rewrite split_at_byte_exact; [|apply digits_no_dot; exact Ai|reflexivity]. rewrite <- He10.
    rewrite dec_value_horner; [reflexivity|]. rewrite forallb_app, Ai, Afr. reflexivity.
Qed.

(* ---- float ---------------------------------------------------------------------------------------------------------- *)
Lemma float_of_parts s neg ipd frd eo : float_parts s neg ipd frd eo ->
  float_of s = match fval_of neg ipd frd eo with
               | FDec n m e => if overflows m e then SubCut err0 else SubOk (FDec n m e)
               | v => SubOk v
               end.
Proof.
  intro H. unfold float_of. rewrite (fdec_exact s neg ipd frd eo H). unfold fval_of.
  destruct float_guard_ok as [G1 G2]. rewrite G1, G2.
  destruct (overflows _ _); destruct neg; reflexivity.
Qed.

Lemma and_then_fails {A B} (p : parser A) (f : A -> sub B) i : fails p i -> fails (and_then p f) i.
Proof. intros (e & j & H). unfold fails, and_then. rewrite H. eauto. Qed.

Definition special_tok (t : bytes) (f : fval) : Prop :=
  exists sg neg, sign sg neg /\ ((t = sg ++ t_inf /\ f = FInf neg) \/ (t = sg ++ t_nan /\ f = FNan neg)).

Lemma special_float_complete i t f r : special_tok t f -> rest i = t ++ r -> special_float i = Ok f (adv t i).
Proof.
  intros (sg & neg & Hs & Ht) H. unfold special_float. fold is_sign.
  assert (E : exists w v, t = sg ++ w /\ (inf <|> nan) (adv sg i) = Ok v (adv w (adv sg i))
                          /\ stops is_sign (w ++ r) /\ f = if neg then fneg v else v).
  { destruct Ht as [[-> ->] | [-> ->]]; rewrite <- app_assoc in H; pose proof (rest_adv _ _ _ H) as R.
    - exists t_inf, (FInf false). split; [reflexivity|]. split; [|split; [reflexivity|destruct neg; reflexivity]].
      apply alt_ok. unfold inf. apply (pvalue_ok _ _ _ INF). apply (lit_ok INF _ r R).
    - exists t_nan, (FNan false). split; [reflexivity|]. split; [|split; [reflexivity|destruct neg; reflexivity]].
      rewrite alt_fails_l.
      + unfold nan. apply (pvalue_ok _ _ _ NAN). apply (lit_ok NAN _ r R).
      + unfold inf. apply pvalue_fails, lit_fails. intros r' E. rewrite R in E. discriminate. }
  destruct E as (w & v & -> & Ew & Hw & ->). rewrite <- app_assoc in H.
  change (fun b : byte => byte_eqb b plus || byte_eqb b dash) with is_sign.
  rewrite (bind_ok _ _ _ _ _ (opt_sign_complete i sg neg _ Hs H Hw)).
  rewrite (bind_ok _ _ _ _ _ Ew). rewrite adv_adv.
  destruct Hs as [[-> ->] | [[-> ->] | [-> ->]]]; reflexivity.
Qed.

Lemma special_float_sound i f i' : special_float i = Ok f i' -> exists t, special_tok t f /\ splits i t i'.
Proof.
  unfold special_float. change (fun b : byte => byte_eqb b plus || byte_eqb b dash) with is_sign.
  intro H. apply bind_inv in H as (o & i1 & H1 & H). apply opt_sign_sound in H1 as (sg & neg & Hs & S1 & ->).
  apply bind_inv in H as (v & i2 & H2 & H).
  assert (E : exists w, splits i1 w i2 /\ ((w = t_inf /\ v = FInf false) \/ (w = t_nan /\ v = FNan false))).
  { apply alt_inv in H2 as [H2 | [_ H2]].
    - unfold inf in H2. apply pvalue_inv in H2 as (-> & a & H2). apply lit_inv in H2 as [_ S]. exists t_inf. auto.
    - unfold nan in H2. apply pvalue_inv in H2 as (-> & a & H2). apply lit_inv in H2 as [_ S]. exists t_nan. auto. }
  destruct E as (w & S2 & Hw). pose proof (splits_trans _ _ _ _ _ S1 S2) as S.
  exists (sg ++ w). split; [|
    destruct Hs as [[-> ->] | [[-> ->] | [-> ->]]]; cbn in H; apply ret_inv in H as [_ ->]; exact S].
  exists sg, neg. split; [exact Hs|].
  destruct Hs as [[-> ->] | [[-> ->] | [-> ->]]]; cbn in H; apply ret_inv in H as [-> _];
    destruct Hw as [[-> ->] | [-> ->]]; auto.
Qed.

Lemma special_tok_float t f : special_tok t f -> float_tok t f.
Proof.
  intros (sg & neg & Hs & [[-> ->] | [-> ->]]); [apply float_inf|apply float_nan]; exact Hs.
Qed.

Lemma float_tok_cases t f : float_tok t f ->
  (exists neg m e, f = FDec neg m e) \/ special_tok t f.
Proof.
  intro H. inversion H; subst; try (left; eauto; fail); right.
  - exists s, neg. auto.
  - exists s, neg. auto.
Qed.

(* no overflow: the guard of `float` *)
Definition finite (f : fval) : Prop :=
  match f with FDec _ m e => overflows m e = false | _ => True end.

Theorem float_complete i t f r : float_tok t f -> finite f -> rest i = t ++ r ->
  stops (us_or Abnf.digit) r -> stops is_e r -> float i = Ok f (adv t i).
Proof.
  intros Ht Hfin H Hr Hre. unfold float. apply context_ok.
  destruct (float_tok_cases t f Ht) as [(neg & m & e & ->) | Hsp].
  - destruct (tok_float_parts t neg m e Ht) as (ipd & frd & eo & Hp & Ev).
    apply alt_ok. apply (and_then_ok _ _ _ t).
    + apply (float__complete i t neg ipd frd eo r Hp H Hr). intros _. exact Hre.
    + rewrite (float_of_parts t neg ipd frd eo Hp). rewrite <- Ev. cbn [finite] in Hfin. rewrite Hfin. reflexivity.
  - rewrite alt_fails_l; [apply (special_float_complete i t f r Hsp H)|].
    apply and_then_fails. destruct Hsp as (sg & neg & Hs & Ht').
    destruct Ht' as [[-> _] | [-> _]]; rewrite <- app_assoc in H;
      apply (float__fails i sg neg _ Hs H); reflexivity.
Qed.

(* an overflowing decimal is refused with a committed error *)
Theorem float_overflow i t neg m e r : float_tok t (FDec neg m e) -> overflows m e = true -> rest i = t ++ r ->
  stops (us_or Abnf.digit) r -> stops is_e r -> exists er j, float i = Cut er j.
Proof.
  intros Ht Hov H Hr Hre. destruct (tok_float_parts t neg m e Ht) as (ipd & frd & eo & Hp & Ev).
  unfold float, context, alt, and_then.
  rewrite (float__complete i t neg ipd frd eo r Hp H Hr (fun _ => Hre)).
  rewrite (float_of_parts t neg ipd frd eo Hp). rewrite <- Ev, Hov. eauto.
Qed.

Theorem float_sound i f i' : float i = Ok f i' -> exists t, float_tok t f /\ finite f /\ splits i t i'.
Proof.
  unfold float. intro H. apply context_inv, alt_inv in H as [H | [_ H]].
  - apply and_then_inv in H as (s & H & Hv). apply float__sound in H as (S & neg & ipd & frd & eo & Hp).
    rewrite (float_of_parts s neg ipd frd eo Hp) in Hv. pose proof (float_parts_tok _ _ _ _ _ Hp) as Ht.
    unfold fval_of in *. destruct (overflows _ _) eqn:Ov; [discriminate|]. injection Hv as <-.
    exists s. split; [exact Ht|]. split; [exact Ov|exact S].
  - apply special_float_sound in H as (t & Hsp & S). exists t. split; [apply special_tok_float; exact Hsp|].
    split; [|exact S]. destruct Hsp as (sg & neg & _ & [[_ ->] | [_ ->]]); exact I.
Qed.

(* the shape parser with the exact decimal it denotes (the text handed to str::parse::<f64>) *)
Theorem float__exact i s i' : float_ i = Ok s i' ->
  splits i s i' /\ exists neg m e, float_tok s (FDec neg m e) /\ fdec_of_text (remove_us s) = FDec neg m e.
Proof.
  intro H. apply float__sound in H as (S & neg & ipd & frd & eo & Hp). split; [exact S|].
  pose proof (float_parts_tok _ _ _ _ _ Hp) as Ht. pose proof (fdec_exact _ _ _ _ _ Hp) as Hv.
  unfold fval_of in *. eauto.
Qed.

Corollary float_cut_only i er j : float i = Cut er j ->
  forall t f r, float_tok t f -> rest i = t ++ r -> stops (us_or Abnf.digit) r -> stops is_e r -> ~ finite f.
Proof.
  intros H t f r Ht E Hr Hre Hfin. rewrite (float_complete i t f r Ht Hfin E Hr Hre) in H. discriminate.
Qed.
