(* Proofs/SerdeRTLists.v — C07: the container layers of the round trip, stated for an arbitrary
   serializer / deserializer pair so that both families (toml_edit's and toml::Value's) share them. *)
From TV Require Import Base.Prelude Spec.SerdeData Model.Ser Model.De Proofs.SerdeRTBase.
From Coq Require Import Permutation.

Section Generic.
  Variable ser : ty -> sval -> result tomlval.
  Variable de : ty -> tomlval -> result sval.

  Definition rt_at (t : ty) : Prop :=
    forall v x, has_type_b t v = true -> ser t v = Ok x -> exists v', de t x = Ok v' /\ sval_eq v v'.

  (* ---- sequences ---- *)
  Lemma rt_list t : rt_at t -> forall vs xs,
    forallb (has_type_b t) vs = true -> mapM (ser t) vs = Ok xs ->
    exists vs', mapM (de t) xs = Ok vs' /\ Forall2 sval_eq vs vs'.
  Proof.
    intros IH. induction vs as [|v vs IHvs]; intros xs Hty H; simpl in *.
    - injection H as <-. exists []. split; [reflexivity|constructor].
    - apply andb_true_iff in Hty as [Hv Hvs].
      apply rbind_ok in H as (x & Hx & H). apply rbind_ok in H as (xs' & Hxs & H). injection H as <-.
      destruct (IH v x Hv Hx) as (v' & Dv & Ev). destruct (IHvs xs' Hvs Hxs) as (vs' & Dvs & Evs).
      exists (v' :: vs'). simpl. rewrite Dv, Dvs. simpl. split; [reflexivity|constructor; assumption].
  Qed.

  (* ---- tuples ---- *)
  Lemma rt_tuple ts : Forall rt_at ts -> forall vs xs,
    all2b has_type_b ts vs = true -> zipM ser ts vs = Ok xs ->
    length xs = length ts /\
    exists vs', de_pos de (fun t' => t') ts xs = Ok (vs', []) /\ Forall2 sval_eq vs vs'.
  Proof.
    induction 1 as [|t ts IHt _ IH]; intros [|v vs] xs Hty H; simpl in *; try discriminate.
    - injection H as <-. split; [reflexivity|]. exists []. split; [reflexivity|constructor].
    - apply andb_true_iff in Hty as [Hv Hvs].
      apply rbind_ok in H as (x & Hx & H). apply rbind_ok in H as (xs' & Hxs & H). injection H as <-.
      destruct (IHt v x Hv Hx) as (v' & Dv & Ev). destruct (IH vs xs' Hvs Hxs) as (Hl & vs' & Dvs & Evs).
      split; [simpl; congruence|].
      exists (v' :: vs'). simpl. rewrite Dv. simpl. rewrite Dvs. simpl. split; [reflexivity|constructor; assumption].
  Qed.

  (* ---- struct fields: what the field loop of a table serializer returns, entry by entry ---- *)
  Definition field_out (mv : ty -> sval -> result (option tomlval)) (ft : bytes * ty) (v : sval)
    : result (option (bytes * tomlval)) :=
    rmap (optmap (fun x => (fst ft, x))) (mv (snd ft) v).

  (* per field: either left out (a None of an Option type) or present under the field's name with a
     value that reads back *)
  Definition field_rt (ft : bytes * ty) (v : sval) (p : option (bytes * tomlval)) : Prop :=
    match p with
    | None => v = SNone /\ is_opt (snd ft) = true
    | Some (k, x) => k = fst ft /\ exists v', de (snd ft) x = Ok v' /\ sval_eq v v'
    end.

  (* derive's visit_map on a table whose lookups agree with the entries written *)
  Lemma de_fields_map_spec es : forall fs vs ps seen,
    Forall3 (fun ft v p => field_rt ft v p /\ tab_get (fst ft) es = optmap snd p) fs vs ps ->
    NoDup (map fst fs) -> (forall f, In f seen -> ~ In f (map fst fs)) ->
    exists vs', de_fields_map de es seen fs = Ok vs' /\ Forall2 sval_eq vs vs'.
  Proof.
    intros fs vs ps seen F. revert seen.
    induction F as [|[f t] v p fs vs ps [Hrt Hget] _ IH]; intros seen Hnd Hseen; simpl.
    - exists []. split; [reflexivity|constructor].
    - inversion Hnd as [|? ? Hnot Hnd']; subst. simpl in Hget.
      assert (Hmem : mem_bytes f seen = false).
      { apply mem_bytes_false. intro Hin. apply (Hseen f Hin). left; reflexivity. }
      rewrite Hmem.
      destruct (IH (f :: seen) Hnd') as (vs' & Dvs & Evs).
      { intros g [<-|Hin] Hg; [apply Hnot; exact Hg|]. apply (Hseen g Hin). right; exact Hg. }
      destruct p as [[k x]|]; simpl in Hrt, Hget; rewrite Hget.
      + destruct Hrt as (_ & v' & Dv & Ev). simpl in Dv. rewrite Dv. simpl. rewrite Dvs. simpl.
        exists (v' :: vs'). split; [reflexivity|constructor; assumption].
      + destruct Hrt as (-> & Hopt). simpl in Hopt. destruct t; try discriminate. simpl. rewrite Dvs. simpl.
        exists (SNone :: vs'). split; [reflexivity|constructor; [constructor|assumption]].
  Qed.

  (* keys of the entries written are field names, in field order *)
  Lemma fields_keys fs vs ps :
    Forall3 (fun ft v p => field_rt ft v p) fs vs ps ->
    forall k x, In (Some (k, x)) ps -> In k (map fst fs).
  Proof.
    induction 1 as [|ft v p fs vs ps Hrt _ IH]; intros k x Hin; simpl in *; [contradiction|].
    destruct Hin as [->|Hin]; [left; simpl in Hrt; destruct Hrt as [-> _]; reflexivity|right; eapply IH; exact Hin].
  Qed.

  Lemma fields_somes_nodup fs vs ps :
    Forall3 (fun ft v p => field_rt ft v p) fs vs ps -> NoDup (map fst fs) ->
    NoDup (map fst (somes ps)).
  Proof.
    intros F. pose proof (fields_keys _ _ _ F) as K. induction F as [|ft v p fs vs ps Hrt F IH]; intro Hnd; simpl; [constructor|].
    inversion Hnd as [|? ? Hnot Hnd']; subst.
    assert (IH' : NoDup (map fst (somes ps))) by (apply IH; [eapply fields_keys; exact F|exact Hnd']).
    destruct p as [[k x]|]; [|exact IH']. simpl. constructor; [|exact IH'].
    simpl in Hrt. destruct Hrt as [-> _]. intro Hin. apply Hnot.
    apply in_map_iff in Hin as ([k' x'] & Hk & Hin). simpl in Hk; subst k'.
    apply somes_In in Hin. eapply fields_keys; [exact F|exact Hin].
  Qed.

  (* lookups in ANY table holding exactly the entries written (insertion order or sorted) *)
  Lemma fields_lookup es : forall fs vs ps,
    Forall3 (fun ft v p => field_rt ft v p) fs vs ps ->
    NoDup (map fst fs) -> NoDup (map fst es) ->
    (forall kx, In (Some kx) ps -> In kx es) ->
    (forall k x, In (k, x) es -> In k (map fst fs) -> In (Some (k, x)) ps) ->
    Forall3 (fun ft v p => field_rt ft v p /\ tab_get (fst ft) es = optmap snd p) fs vs ps.
  Proof.
    induction 1 as [|ft v p fs vs ps Hrt F IH]; intros Hnd Hes H3 H4; [constructor|].
    inversion Hnd as [|? ? Hnot Hnd']; subst.
    constructor.
    - split; [exact Hrt|].
      destruct p as [[k x]|]; simpl.
      + simpl in Hrt. destruct Hrt as [-> _]. apply tab_get_In; [exact Hes|]. apply H3. left; reflexivity.
      + destruct (tab_get (fst ft) es) as [x'|] eqn:G; [exfalso|reflexivity].
        assert (Hin : In (fst ft, x') es).
        { clear - G. induction es as [|[k' y] es IHes]; simpl in G; [discriminate|].
          destruct (bytes_eqb k' (fst ft)) eqn:E; [apply bytes_eqb_eq in E; subst; injection G as ->; left; reflexivity|].
          right; apply IHes; exact G. }
        specialize (H4 _ _ Hin (or_introl eq_refl)). destruct H4 as [H4|H4]; [discriminate|].
        apply Hnot. eapply fields_keys; [exact F|exact H4].
    - apply IH; [exact Hnd'|exact Hes| |].
      + intros kx Hin. apply H3. right; exact Hin.
      + intros k x Hin Hk. destruct (H4 k x Hin (or_intror Hk)) as [Hp|Hp]; [|exact Hp].
        exfalso. subst p. simpl in Hrt. destruct Hrt as [-> _]. apply Hnot. exact Hk.
  Qed.

  Lemma dup_field_hit_nodup names (es : list (bytes * tomlval)) : NoDup (map fst es) -> dup_field_hit names es = false.
  Proof.
    intro H. unfold dup_field_hit. apply negb_false_iff. apply nodup_bytes_NoDup. apply NoDup_filter. exact H.
  Qed.

  (* a struct (or struct variant) written as a table reads back, whatever the order of the table *)
  Lemma rt_struct_table fs vs ps es :
    Forall3 (fun ft v p => field_rt ft v p) fs vs ps ->
    NoDup (map fst fs) -> NoDup (map fst es) ->
    (forall kx, In (Some kx) ps -> In kx es) ->
    (forall k x, In (k, x) es -> In k (map fst fs) -> In (Some (k, x)) ps) ->
    exists vs', de_struct_map de fs es = Ok vs' /\ Forall2 sval_eq vs vs'.
  Proof.
    intros F Hnd Hes H3 H4. unfold de_struct_map. rewrite dup_field_hit_nodup by exact Hes.
    apply (de_fields_map_spec es fs vs ps []); [apply fields_lookup; assumption|exact Hnd|intros f []].
  Qed.

  Lemma rt_struct_insertion fs vs ps :
    Forall3 (fun ft v p => field_rt ft v p) fs vs ps -> NoDup (map fst fs) ->
    tab_of_pairs (somes ps) = somes ps /\
    struct_keys_ok (map fst fs) (somes ps) = true /\
    exists vs', de_struct_map de fs (somes ps) = Ok vs' /\ Forall2 sval_eq vs vs'.
  Proof.
    intros F Hnd. pose proof (fields_somes_nodup _ _ _ F Hnd) as Hes.
    split; [apply tab_of_pairs_nodup; exact Hes|]. split.
    - unfold struct_keys_ok. apply forallb_forall. intros [k x] Hin. simpl. apply mem_bytes_In.
      apply somes_In in Hin. eapply fields_keys; [exact F|exact Hin].
    - apply (rt_struct_table fs vs ps (somes ps) F Hnd Hes).
      + intros kx Hin. apply somes_In. exact Hin.
      + intros k x Hin _. apply somes_In. exact Hin.
  Qed.

  (* ---- maps read back: keys that cannot collide, inserted one by one ---- *)
  Lemma smap_insert_fresh k v es :
    (forall k' v', In (k', v') es -> sval_beq k' k = false) -> smap_insert k v es = es ++ [(k, v)].
  Proof.
    induction es as [|[k' v'] es IH]; intro H; simpl; [reflexivity|].
    rewrite (H k' v' (or_introl eq_refl)). rewrite IH; [reflexivity|].
    intros k'' v'' Hin. apply (H k'' v''). right; exact Hin.
  Qed.

  Lemma smap_of_pairs_distinct_gen ps : forall acc,
    ForallOrdPairs (fun p q => sval_beq (fst p) (fst q) = false) (acc ++ ps) ->
    fold_left (fun acc p => smap_insert (fst p) (snd p) acc) ps acc = acc ++ ps.
  Proof.
    induction ps as [|[k v] ps IH]; intros acc H; simpl; [rewrite app_nil_r; reflexivity|].
    rewrite smap_insert_fresh.
    - rewrite IH; [rewrite <- app_assoc; reflexivity|]. rewrite <- app_assoc. exact H.
    - intros k' v' Hin.
      clear IH. induction acc as [|a acc IHacc]; [contradiction|]. simpl in H. inversion H as [|? ? Ha Hrest]; subst.
      destruct Hin as [->|Hin].
      + rewrite Forall_forall in Ha. apply (Ha (k, v)). apply in_or_app; right; left; reflexivity.
      + apply IHacc; assumption.
  Qed.

  Lemma smap_of_pairs_distinct ps :
    ForallOrdPairs (fun p q => sval_beq (fst p) (fst q) = false) ps -> smap_of_pairs ps = ps.
  Proof. intro H. unfold smap_of_pairs. rewrite smap_of_pairs_distinct_gen; [reflexivity|exact H]. Qed.
End Generic.
