(* Proofs/SerdeRTErr.v — C07: an error of toml_edit's ValueSerializer names a documented unsupported
   shape present in the value (errors_documented); without such a shape serialization succeeds
   (supported_ok); and conversely every documented unsupported shape is refused (unsupported_refused). *)
From TV Require Import Base.Prelude Base.Utf8 Model.Datetime Model.DatetimeStd Model.WriteFloat Model.SerNum
  Spec.DatetimeSpec Spec.SerdeData Model.Ser Model.De
  Proofs.DatetimeEq Proofs.SerdeRTBase Proofs.SerdeRTEq Proofs.SerdeRTLeaf Proofs.SerdeRTLists Proofs.SerdeRT.

Lemma Forall2_nth {A B} (R : A -> B -> Prop) l1 l2 i a b :
  Forall2 R l1 l2 -> nth_error l1 i = Some a -> nth_error l2 i = Some b -> R a b.
Proof.
  intro F. revert i. induction F as [|x y l1 l2 Hxy _ IH]; intros [|i] Ha Hb; simpl in *; try discriminate.
  - injection Ha as <-. injection Hb as <-. exact Hxy.
  - eapply IH; eassumption.
Qed.

Lemma unsupported_ctx t v e : unsupported CElem t v e -> v <> SNone -> unsupported CField t v e.
Proof.
  intros H Hn. inversion H; subst; try (econstructor; eassumption).
  contradiction.
Qed.

(* ---- keys ---- *)
Lemma ser_key_err t : forall a e, has_type_b t a = true -> ser_key t a = Err e -> bad_key t a e.
Proof.
  induction t using ty_ind2 with (Q := fun _ => True); try exact I; intros a e Hty Hser.
  - (* TBool *) destruct a; simpl in Hser; injection Hser as <-; apply bk_other; try reflexivity; intros; discriminate.
  - (* TInt *)
    assert (Hs : ser_key (TInt w) a = match ser_method_of w with
                 | M_i128 => Err (EInt128 false) | M_u128 => Err (EInt128 true) | _ => Err EKeyNotString end)
      by (destruct a; reflexivity).
    rewrite Hs in Hser.
    destruct w; simpl in Hser; injection Hser as <-;
      first [apply bk_i128 | apply bk_u128
            | (apply bk_other; [destruct a; reflexivity|intros; discriminate|discriminate|discriminate])].
  - destruct a; simpl in Hser; injection Hser as <-; apply bk_other; try reflexivity; try (intros; discriminate); destruct w; reflexivity.
  - destruct a; simpl in Hser; injection Hser as <-; apply bk_other; try reflexivity; intros; discriminate.
  - (* TStr *) destruct a; simpl in Hty; try discriminate Hty. simpl in Hser. discriminate Hser.
  - destruct a; simpl in Hser; injection Hser as <-; apply bk_other; try reflexivity; intros; discriminate.
  - destruct a; simpl in Hser; injection Hser as <-; apply bk_other; try reflexivity; intros; discriminate.
  - destruct a; simpl in Hser; injection Hser as <-; apply bk_other; try reflexivity; intros; discriminate.
  - destruct a; simpl in Hser; injection Hser as <-; apply bk_other; try reflexivity; intros; discriminate.
  - destruct a; simpl in Hser; injection Hser as <-; apply bk_other; try reflexivity; intros; discriminate.
  - destruct a; simpl in Hser; injection Hser as <-; apply bk_other; try reflexivity; intros; discriminate.
  - destruct a; simpl in Hser; injection Hser as <-; apply bk_other; try reflexivity; intros; discriminate.
  - destruct a; simpl in Hser; injection Hser as <-; apply bk_other; try reflexivity; intros; discriminate.
  - (* TNewtype *) destruct a; try (simpl in Hty; discriminate). rewrite sk_newtype in Hser. rewrite ht_newtype in Hty.
    apply bk_newtype. apply IHt; assumption.
  - destruct a; simpl in Hser; injection Hser as <-; apply bk_other; try reflexivity; intros; discriminate.
  - (* TEnum *) destruct a as [| | | | | | | | | | | | | |i p]; try (simpl in Hty; discriminate).
    rewrite ht_enum in Hty. apply andb_true_iff in Hty as [_ Hp]. rewrite sk_enum in Hser.
    destruct (pick_cases key_variant (Err EBadCase) vs i) as [([vn var] & Hn & E)|[Hn E]].
    + rewrite E in Hser. unfold key_variant in Hser. simpl in Hser.
      destruct var; try discriminate; injection Hser as <-;
        (apply bk_other; [rewrite kt_enum, (pick_nth _ _ _ _ _ Hn); reflexivity|intros; discriminate|discriminate|discriminate]).
    + rewrite (pick_none _ _ _ _ Hn) in Hp. discriminate.
Qed.

Definition ERRS (t : ty) : Prop :=
  forall v e, has_type_b t v = true -> ser_value t v = Err e -> unsupported CElem t v e.
Definition ERRSV (var : variant) : Prop :=
  var <> VUnit -> forall p e, has_type_variant_b var p = true -> ser_payload var p = Err e -> unsupported_variant var p e.

Lemma none_typed t : has_type_b t SNone = true -> is_opt t = true.
Proof. destruct t; simpl; try discriminate; try (destruct w; discriminate). reflexivity. Qed.

Lemma errs_map_value t v e : ERRS t -> has_type_b t v = true ->
  ser_map_value ser_value t v = Err e -> unsupported CField t v e.
Proof.
  intros IH Hty H. destruct (ser_map_value_cases ser_value t v) as [(t' & -> & -> & E)|[Hn E]]; rewrite E in H; [discriminate|].
  apply rmap_err in H. apply unsupported_ctx; [apply IH; assumption|].
  intros ->. apply (Hn (none_typed t Hty)). reflexivity.
Qed.

Lemma errs_tuple ts vs e : Forall ERRS ts -> all2b has_type_b ts vs = true -> zipM ser_value ts vs = Err e ->
  exists i t v, nth_error ts i = Some t /\ nth_error vs i = Some v /\ unsupported CElem t v e.
Proof.
  intros IH Hty H. apply all2b_Forall2 in Hty.
  destruct (zipM_err _ _ _ _ (Forall2_length' _ _ _ Hty) H) as (i & t & v & H1 & H2 & H3).
  exists i, t, v. repeat split; try assumption.
  rewrite Forall_forall in IH. apply (IH t (nth_error_In _ _ H1)); [|exact H3].
  apply (Forall2_nth _ _ _ _ _ _ Hty H1 H2).
Qed.

Lemma errs_fields fs vs e : Forall (fun ft => ERRS (snd ft)) fs ->
  all2b (fun ft v' => has_type_b (snd ft) v') fs vs = true -> ser_fields fs vs = Err e ->
  exists i f t v, nth_error fs i = Some (f, t) /\ nth_error vs i = Some v /\ unsupported CField t v e.
Proof.
  intros IH Hty H. apply all2b_Forall2 in Hty. unfold ser_fields in H.
  destruct (zipM_err _ _ _ _ (Forall2_length' _ _ _ Hty) H) as (i & [f t] & v & H1 & H2 & H3).
  exists i, f, t, v. repeat split; try assumption. simpl in H3. apply rmap_err in H3.
  rewrite Forall_forall in IH. apply errs_map_value; [apply (IH (f, t) (nth_error_In _ _ H1))| |exact H3].
  apply (Forall2_nth _ _ _ _ _ _ Hty H1 H2).
Qed.

Theorem errors_documented : forall t, ERRS t.
Proof.
  induction t using ty_ind2 with (Q := ERRSV); unfold ERRS, ERRSV in *.
  - intros v e Hty Hser. destruct v; simpl in Hty; try discriminate Hty; simpl in Hser; discriminate Hser.
  - (* TInt *) intros v e Hty Hser. destruct v; simpl in Hty; try discriminate Hty. simpl in Hser.
    unfold ser_int_value in Hser. destruct (ser_int w z) eqn:E; [discriminate|]. injection Hser as <-.
    unfold ser_int, int_err in *. destruct (ser_method_of w) eqn:M.
    + discriminate.
    + unfold serialize_u64 in E. destruct (fits_i64 z) eqn:F; [discriminate|]. apply u_u64; assumption.
    + apply u_i128; assumption.
    + apply u_u128; assumption.
  - intros v e Hty Hser. destruct w; destruct v; simpl in Hty; try discriminate Hty; simpl in Hser; discriminate Hser.
  - intros v e Hty Hser. destruct v; simpl in Hty; try discriminate Hty; simpl in Hser; discriminate Hser.
  - intros v e Hty Hser. destruct v; simpl in Hty; try discriminate Hty; simpl in Hser; discriminate Hser.
  - (* TDatetime *) intros v e Hty Hser. destruct v; simpl in Hty; try discriminate Hty. simpl in Hser.
    apply andb_true_iff in Hty as [Hr _]. unfold ser_datetime, dt_field_str in Hser.
    rewrite (print_parse_std d Hr) in Hser. discriminate.
  - intros v e Hty Hser. destruct v; simpl in Hty; try discriminate Hty. simpl in Hser. injection Hser as <-. apply u_unit.
  - intros v e Hty Hser. destruct v; simpl in Hty; try discriminate Hty. simpl in Hser. injection Hser as <-. apply u_unit_struct.
  - (* TOpt *) intros v e Hty Hser. destruct v; simpl in Hty; try discriminate Hty.
    + simpl in Hser. injection Hser as <-. apply u_none.
    + rewrite sv_opt_some in Hser. apply u_some. apply IHt; assumption.
  - (* TSeq *) intros v e Hty Hser. destruct v; try (simpl in Hty; discriminate Hty).
    rewrite ht_seq in Hty. rewrite sv_seq in Hser. apply rmap_err in Hser.
    destruct (mapM_err _ _ _ Hser) as (a & Hin & Ha). apply (u_seq _ _ _ a); [exact Hin|].
    apply IHt; [|exact Ha]. rewrite forallb_forall in Hty. apply Hty. exact Hin.
  - (* TTuple *) intros v e Hty Hser. destruct v; try (simpl in Hty; discriminate Hty).
    rewrite ht_tuple in Hty. rewrite sv_tuple in Hser. apply rmap_err in Hser.
    destruct (errs_tuple ts vs e H Hty Hser) as (i & t & v & H1 & H2 & H3). eapply u_tuple; eassumption.
  - (* TMap *) intros v e Hty Hser. destruct v; try (simpl in Hty; discriminate Hty).
    rewrite ht_map in Hty. apply andb_true_iff in Hty as [Hty _]. apply andb_true_iff in Hty as [_ Hes].
    rewrite sv_map in Hser. apply rmap_err in Hser. unfold ser_entries in Hser.
    destruct (mapM_err _ _ _ Hser) as ([k x] & Hin & Ha). simpl in Ha.
    rewrite forallb_forall in Hes. specialize (Hes _ Hin). simpl in Hes. apply andb_true_iff in Hes as [Hk Hx].
    apply rbind_err in Ha as [Ha|(s & _ & Ha)].
    + eapply u_map_key; [exact Hin|]. apply ser_key_err; assumption.
    + apply rmap_err in Ha. eapply u_map_val; [exact Hin|]. apply errs_map_value; assumption.
  - (* TStruct *) intros v e Hty Hser. destruct v; try (simpl in Hty; discriminate Hty).
    rewrite ht_struct in Hty. apply andb_true_iff in Hty as [Hty Hvs]. apply andb_true_iff in Hty as [Hpriv _].
    apply negb_true_iff in Hpriv. rewrite sv_struct, (private_not_dt n Hpriv) in Hser. apply rmap_err in Hser.
    destruct (errs_fields fs vs e H Hvs Hser) as (i & f & t & v & H1 & H2 & H3). eapply u_struct; eassumption.
  - (* TNewtype *) intros v e Hty Hser. destruct v; try (simpl in Hty; discriminate Hty).
    rewrite ht_newtype in Hty. rewrite sv_newtype in Hser. apply u_newtype. apply IHt; assumption.
  - (* TTupleStruct *) intros v e Hty Hser. destruct v; try (simpl in Hty; discriminate Hty).
    rewrite ht_tuple_struct in Hty. rewrite sv_tuple_struct in Hser. apply rmap_err in Hser.
    destruct (errs_tuple ts vs e H Hty Hser) as (i & t & v & H1 & H2 & H3). eapply u_tuple_struct; eassumption.
  - (* TEnum *) intros v e Hty Hser. destruct v as [| | | | | | | | | | | | | |i p]; try (simpl in Hty; discriminate Hty).
    rewrite ht_enum in Hty. apply andb_true_iff in Hty as [_ Hp]. rewrite sv_enum in Hser.
    destruct (pick_cases (ser_variant p) (Err EBadCase) vs i) as [([vn var] & Hn & E)|[Hn E]].
    + rewrite E in Hser. rewrite (pick_nth _ _ _ _ _ Hn) in Hp. simpl in Hp.
      assert (HQ : var <> VUnit -> forall q e', has_type_variant_b var q = true -> ser_payload var q = Err e' -> unsupported_variant var q e').
      { rewrite Forall_forall in H. apply (H (vn, var)). eapply nth_error_In; exact Hn. }
      unfold ser_variant in Hser. simpl in Hser.
      destruct var; [apply htv_unit in Hp; subst p; discriminate| | |];
        apply rmap_err in Hser; (eapply u_variant; [exact Hn|apply HQ; [discriminate|assumption|assumption]]).
    + rewrite (pick_none _ _ _ _ Hn) in Hp. discriminate.
  - intros Hne. contradiction.
  - intros _ p e Hty Hser. rewrite htv_newtype in Hty. rewrite sp_newtype in Hser. apply uv_newtype. apply IHt; assumption.
  - intros _ p e Hty Hser. destruct p; try (simpl in Hty; discriminate Hty).
    rewrite htv_tuple in Hty. rewrite sp_tuple in Hser. apply rmap_err in Hser.
    destruct (errs_tuple ts vs e H Hty Hser) as (i & t & v & H1 & H2 & H3). eapply uv_tuple; eassumption.
  - intros _ p e Hty Hser. destruct p; try (simpl in Hty; discriminate Hty).
    rewrite htv_struct in Hty. apply andb_true_iff in Hty as [_ Hvs]. rewrite sp_struct in Hser. apply rmap_err in Hser.
    destruct (errs_fields fs vs e H Hvs Hser) as (i & f & t & v & H1 & H2 & H3). eapply uv_struct; eassumption.
Qed.

Theorem supported_ok t v : has_type v t -> supported t v -> exists x, ser_value t v = Ok x.
Proof.
  intros Hty Hs. destruct (ser_value t v) as [x|e] eqn:E; [exists x; reflexivity|].
  exfalso. apply (Hs e). apply errors_documented; assumption.
Qed.
