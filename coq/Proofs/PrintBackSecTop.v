(* Proofs/PrintBackSecTop.v — C03, class (c): documents made of sections.
   1. Spec/Defs.v: a tree without a table made by dotted keys was made by statements whose key/value
      lines have plain keys.
   2. The document theorem: parse_document s = POk d, no dotted table in d, plain values, every header
      spelled as it prints  ->  render s d = normalize s. *)
From TV Require Import Base.Prelude Base.Utf8 Base.Winnow Gen.Consts Spec.Abnf Spec.Lex Spec.Defs Spec.Syntax Spec.Norm.
From TV Require Import Model.Trivia Model.Strings Model.Datetime Model.Numbers Model.Tree Model.Parse Model.Document Model.Write Model.Encode.
From TV Require Import Proofs.ConstsOk Proofs.NoPanicBase Proofs.NoPanicLex Proofs.NoPanicValue.
From TV Require Import Proofs.LexEquivBase Proofs.LexEquivTrivia Proofs.LexEquivKey Proofs.GrammarSep Proofs.GrammarBase Proofs.GrammarParam
                       Proofs.GrammarValueBase Proofs.GrammarValueSound Proofs.GrammarDocLine Proofs.GrammarDoc Proofs.GrammarDocReject
                       Proofs.DefsEquivBase Proofs.SpansDefs
                       Proofs.TilingDefs Proofs.TilingNormDoc
                       Proofs.PrintBackBase Proofs.PrintBackEnc Proofs.PrintBackKey Proofs.PrintBackValue Proofs.PrintBackDoc Proofs.PrintBackTop
                       Proofs.PrintBackSort Proofs.PrintBackEnts Proofs.PrintBackDisplay Proofs.PrintBackSecs Proofs.PrintBackState
                       Proofs.PrintBackHKey Proofs.PrintBackFinal Proofs.PrintBackSecDoc.
From TV Require Proofs.DefsEquivSim.
Require Import Lia ZifyBool ZifyN ZifyNat Sorting.Sorted Sorting.Permutation.

(* ---- Spec/Defs.v: tables made by dotted keys stay ---------------------------------------------------------------- *)
Section HasDotted.
  Context {V : Type}.
  Definition is_kdotted (kd : kind) : bool := match kd with KDotted => true | _ => false end.
  Fixpoint hdn (n : node V) : bool :=
    match n with
    | NVal _ => false
    | NTab kd items =>
      is_kdotted kd || (fix go (l : list (bytes * node V)) : bool := match l with [] => false | (_, n') :: tl => hdn n' || go tl end) items
    | NAot es =>
      (fix goe (l : list (list (bytes * node V))) : bool :=
         match l with
         | [] => false
         | e :: tl => (fix go (l : list (bytes * node V)) : bool := match l with [] => false | (_, n') :: tl => hdn n' || go tl end) e || goe tl
         end) es
    end.
  Definition hdt (t : stree V) : bool := existsb (fun kn => hdn (snd kn)) t.

  Lemma hdt_go (l : list (bytes * node V)) :
    (fix go (l : list (bytes * node V)) : bool := match l with [] => false | (_, n') :: tl => hdn n' || go tl end) l = hdt l.
  Proof. unfold hdt. induction l as [|[k n] tl IH]; [reflexivity|]. cbn [existsb snd]. rewrite <- IH. reflexivity. Qed.
  Lemma hdn_tab kd items : hdn (NTab kd items) = is_kdotted kd || hdt items.
  Proof. cbn [hdn]. rewrite hdt_go. reflexivity. Qed.
  Lemma hdn_aot es : hdn (NAot es) = existsb hdt es.
  Proof. cbn [hdn]. induction es as [|e tl IH]; [reflexivity|]. cbn [existsb]. rewrite <- IH, hdt_go. reflexivity. Qed.

  Lemma hdt_app a b : hdt (a ++ b) = hdt a || hdt b.
  Proof. apply existsb_app. Qed.
  Lemma hdt_push t k n : hdt (spush t k n) = hdt t || hdn n.
  Proof. unfold spush. rewrite hdt_app. cbn [hdt existsb snd]. rewrite orb_false_r. reflexivity. Qed.

  Lemma sget_split (t : stree V) k n : sget t k = Some n ->
    exists A k' B, t = A ++ (k', n) :: B /\ (forall n', sset t k n' = A ++ (k', n') :: B) /\ sremove t k = A ++ B.
  Proof.
    induction t as [|[k1 n1] t IH]; cbn [sget]; [discriminate|]. destruct (bytes_eqb k1 k) eqn:E.
    - intro H. injection H as <-. exists [], k1, t. cbn [app sset sremove]. rewrite E. repeat split.
    - intro H. destruct (IH H) as (A & k' & B & -> & Hs & Hr). exists ((k1, n1) :: A), k', B. cbn [app sset sremove]. rewrite E.
      split; [reflexivity|]. split; [intro n'; rewrite Hs; reflexivity|rewrite Hr; reflexivity].
  Qed.

  Lemma hdt_set t k n0 n : sget t k = Some n0 -> (hdn n0 = true -> hdn n = true) -> hdt t = true -> hdt (sset t k n) = true.
  Proof.
    intros G Hn Ht. destruct (sget_split t k n0 G) as (A & k' & B & -> & Hs & _). rewrite Hs. rewrite hdt_app in *.
    change (hdt ((k', n0) :: B)) with (hdn n0 || hdt B) in Ht. change (hdt ((k', n) :: B)) with (hdn n || hdt B).
    destruct (hdt A); [reflexivity|]. cbn [orb] in *. destruct (hdn n0); [rewrite Hn; reflexivity|]. cbn [orb] in *. rewrite Ht. apply orb_true_r.
  Qed.
  Lemma hdt_set_new t k n0 n : sget t k = Some n0 -> hdn n = true -> hdt (sset t k n) = true.
  Proof.
    intros G Hn. destruct (sget_split t k n0 G) as (A & k' & B & -> & Hs & _). rewrite Hs. rewrite hdt_app.
    change (hdt ((k', n) :: B)) with (hdn n || hdt B). rewrite Hn. cbn [orb]. apply orb_true_r.
  Qed.

  (* at_path keeps what f keeps, and shows what f makes *)
  Lemma at_path_keeps f : (forall c c', f c = ROk c' -> hdt c = true -> hdt c' = true) ->
    forall p t t', at_path p f t = ROk t' -> hdt t = true -> hdt t' = true.
  Proof.
    intros Hf. induction p as [|k p IH]; intros t t' H Ht; cbn [at_path] in H; [apply (Hf _ _ H Ht)|].
    destruct (sget t k) as [[v|kd c|es]|] eqn:G.
    - discriminate.
    - destruct (at_path p f c) as [c'| |] eqn:E; cbn [rbind] in H; try discriminate. injection H as <-.
      apply (hdt_set t k _ _ G); [|exact Ht]. rewrite !hdn_tab. intro Hh. apply orb_true_iff in Hh as [-> | Hh]; [reflexivity|].
      rewrite (IH _ _ E Hh). apply orb_true_r.
    - destruct (rev es) as [|e before] eqn:Er; [discriminate|]. destruct (at_path p f e) as [e'| |] eqn:E; cbn [rbind] in H; try discriminate. injection H as <-.
      apply (hdt_set t k _ _ G); [|exact Ht]. rewrite !hdn_aot. assert (Ees : es = rev before ++ [e]) by (rewrite <- (rev_involutive es), Er; reflexivity).
      rewrite Ees, !existsb_app. cbn [existsb]. rewrite !orb_false_r. intro Hh. apply orb_true_iff in Hh as [-> | Hh]; [reflexivity|].
      rewrite (IH _ _ E Hh). apply orb_true_r.
    - destruct (at_path p f []) as [c'| |] eqn:E; cbn [rbind] in H; try discriminate. injection H as <-. rewrite hdt_push, Ht. reflexivity.
  Qed.

  Lemma at_path_makes f : (forall c c', f c = ROk c' -> hdt c' = true) ->
    forall p t t', at_path p f t = ROk t' -> hdt t' = true.
  Proof.
    intros Hf. induction p as [|k p IH]; intros t t' H; cbn [at_path] in H; [apply (Hf _ _ H)|].
    destruct (sget t k) as [[v|kd c|es]|] eqn:G.
    - discriminate.
    - destruct (at_path p f c) as [c'| |] eqn:E; cbn [rbind] in H; try discriminate. injection H as <-.
      apply (hdt_set_new t k _ _ G). rewrite hdn_tab, (IH _ _ E). apply orb_true_r.
    - destruct (rev es) as [|e before] eqn:Er; [discriminate|]. destruct (at_path p f e) as [e'| |] eqn:E; cbn [rbind] in H; try discriminate. injection H as <-.
      apply (hdt_set_new t k _ _ G). rewrite hdn_aot, existsb_app. cbn [existsb]. rewrite (IH _ _ E). cbn [orb]. apply orb_true_r.
    - destruct (at_path p f []) as [c'| |] eqn:E; cbn [rbind] in H; try discriminate. injection H as <-. rewrite hdt_push, hdn_tab, (IH _ _ E).
      cbn [orb]. rewrite !orb_true_r. reflexivity.
  Qed.

  Lemma insert_kv_eq p k k2 p'' v (t : stree V) : p = k :: k2 :: p'' ->
    insert_kv false p v t =
    match sget t k with
    | None => c <~ insert_kv false (k2 :: p'') v [] ;; ROk (spush t k (NTab KDotted c))
    | Some (NTab KDotted c) => c' <~ insert_kv false (k2 :: p'') v c ;; ROk (sset t k (NTab KDotted c'))
    | Some (NTab KSuper c) =>
      match p'' with
      | [] => RInvalid
      | _ => c' <~ insert_kv false (k2 :: p'') v c ;; ROk (sset t k (NTab KSuper c'))
      end
    | Some _ => RInvalid
    end.
  Proof. intros ->. reflexivity. Qed.

  (* a dotted key makes a dotted table *)
  Lemma insert_kv_makes : forall p v (t t' : stree V), 2 <= length p -> insert_kv false p v t = ROk t' -> hdt t' = true.
  Proof.
    induction p as [|k p IH]; intros v t t' Hl H; [cbn in Hl; lia|]. destruct p as [|k2 p'']; [cbn in Hl; lia|].
    rewrite (insert_kv_eq _ k k2 p'' v t eq_refl) in H. destruct (sget t k) as [[v0|kd c|es]|] eqn:G; try discriminate.
    - destruct kd; try discriminate.
      + destruct p'' as [|k3 p3]; [discriminate|]. destruct (insert_kv false (k2 :: k3 :: p3) v c) as [c'| |] eqn:E; cbn [rbind] in H; try discriminate.
        injection H as <-. apply (hdt_set_new t k _ _ G). assert (Hl2 : 2 <= length (k2 :: k3 :: p3)) by (cbn [length]; lia).
        rewrite hdn_tab, (IH v c c' Hl2 E). apply orb_true_r.
      + destruct (insert_kv false (k2 :: p'') v c) as [c'| |]; cbn [rbind] in H; try discriminate. injection H as <-.
        apply (hdt_set_new t k _ _ G). reflexivity.
    - destruct (insert_kv false (k2 :: p'') v []) as [c'| |]; cbn [rbind] in H; try discriminate. injection H as <-. rewrite hdt_push. apply orb_true_r.
  Qed.

  Lemma insert_kv_keeps p v (t t' : stree V) : insert_kv false p v t = ROk t' -> hdt t = true -> hdt t' = true.
  Proof.
    intros H Ht. destruct p as [|k [|k2 p'']]; [discriminate| |apply (insert_kv_makes (k :: k2 :: p'') v t t'); [cbn [length]; lia|exact H]].
    cbn [insert_kv] in H. destruct (sget t k); [discriminate|]. injection H as <-. rewrite hdt_push, Ht. reflexivity.
  Qed.

  Lemma def_table_keeps k (t t' : stree V) : def_table k t = ROk t' -> hdt t = true -> hdt t' = true.
  Proof.
    unfold def_table. intros H Ht. destruct (sget t k) as [[v|kd c|es]|] eqn:G; try discriminate.
    - destruct kd; try discriminate. injection H as <-. destruct (sget_split t k _ G) as (A & k' & B & Et & _ & Er).
      rewrite Et, hdt_app in Ht. change (hdt ((k', NTab KSuper c) :: B)) with (hdn (NTab KSuper c) || hdt B) in Ht. rewrite hdn_tab in Ht.
      rewrite hdt_push, Er, hdt_app, hdn_tab. cbn [is_kdotted orb] in *.
      destruct (hdt A), (hdt c), (hdt B); cbn [orb] in *; try reflexivity; discriminate.
    - injection H as <-. rewrite hdt_push, Ht. reflexivity.
  Qed.

  Lemma def_elem_keeps k (t t' : stree V) : def_elem k t = ROk t' -> hdt t = true -> hdt t' = true.
  Proof.
    unfold def_elem. intros H Ht. destruct (sget t k) as [[v|kd c|es]|] eqn:G; try discriminate.
    - injection H as <-. apply (hdt_set t k _ _ G); [|exact Ht]. rewrite !hdn_aot, existsb_app. intro Hh. apply orb_true_iff. left. exact Hh.
    - injection H as <-. rewrite hdt_push, Ht. reflexivity.
  Qed.

  Definition sec_s (st : stmt V) : bool := match st with SKeyVal p _ => Nat.eqb (length p) 1 | _ => true end.

  Lemma step_nodotted (s s' : Defs.sstate V) st : spec_step false s st = ROk s' -> hdt (fst s') = false ->
    hdt (fst s) = false /\ sec_s st = true.
  Proof.
    destruct s as [t cur]. destruct st as [p|p|p v]; cbn [spec_step fst].
    - destruct (unsnoc p) as [[pre k]|]; [|discriminate]. destruct (at_path pre (def_table k) t) as [t'| |] eqn:E; cbn [rbind]; try discriminate.
      intro H. injection H as <-. cbn [fst]. intro Hv. split; [|reflexivity]. destruct (hdt t) eqn:Ht; [|reflexivity].
      rewrite (at_path_keeps _ (def_table_keeps k) _ _ _ E Ht) in Hv. discriminate.
    - destruct (unsnoc p) as [[pre k]|]; [|discriminate]. destruct (at_path pre (def_elem k) t) as [t'| |] eqn:E; cbn [rbind]; try discriminate.
      intro H. injection H as <-. cbn [fst]. intro Hv. split; [|reflexivity]. destruct (hdt t) eqn:Ht; [|reflexivity].
      rewrite (at_path_keeps _ (def_elem_keeps k) _ _ _ E Ht) in Hv. discriminate.
    - destruct (at_path cur (insert_kv false p v) t) as [t'| |] eqn:E; cbn [rbind]; try discriminate.
      intro H. injection H as <-. cbn [fst]. intro Hv. split.
      + destruct (hdt t) eqn:Ht; [|reflexivity]. rewrite (at_path_keeps _ (insert_kv_keeps p v) _ _ _ E Ht) in Hv. discriminate.
      + cbn [sec_s]. apply Nat.eqb_eq. destruct (Nat.eq_dec (length p) 1) as [Hl | Hl]; [exact Hl|]. exfalso.
        destruct p as [|k [|k2 p'']]; [|cbn in Hl; congruence|].
        * assert (Hm : forall c c' : stree V, insert_kv false [] v c = ROk c' -> hdt c' = true) by (intros c c' Hc; discriminate Hc).
          rewrite (at_path_makes _ Hm _ _ _ E) in Hv. discriminate.
        * assert (Hm : forall c c' : stree V, insert_kv false (k :: k2 :: p'') v c = ROk c' -> hdt c' = true)
            by (intros c c' Hc; apply (insert_kv_makes (k :: k2 :: p'') v c c'); [cbn [length]; lia|exact Hc]).
          rewrite (at_path_makes _ Hm _ _ _ E) in Hv. discriminate.
  Qed.

  Lemma fold_nodotted : forall l (s : Defs.sstate V) T c, spec_fold false s l = ROk (T, c) -> hdt T = false ->
    hdt (fst s) = false /\ forallb sec_s l = true.
  Proof.
    induction l as [|st tl IH]; intros s T c H Hv; cbn [spec_fold] in H.
    - injection H as ->. auto.
    - destruct (spec_step false s st) as [s'| |] eqn:E; cbn [rbind] in H; try discriminate.
      destruct (IH s' T c H Hv) as [Hv' Hf]. destruct (step_nodotted s s' st E Hv') as [H1 H2]. cbn [forallb]. rewrite H2, Hf. auto.
  Qed.

  Lemma code_run_nodotted l (T : stree V) : code_run l = Valid T -> hdt T = false -> forallb sec_s l = true.
  Proof.
    unfold code_run, run. destruct (spec_fold false Defs.sstate0 l) as [[T' c]| |] eqn:E; try discriminate.
    intro H. injection H as ->. intro Hv. apply (fold_nodotted l Defs.sstate0 T c E Hv).
  Qed.
End HasDotted.

(* ---- the conditions on the tree ---------------------------------------------------------------------------------- *)
(* no table of the document was made by dotted keys, and no inline table inside a value either *)
Definition sec_doc (d : doc) : bool := sec_tbl (doc_root d).

Lemma hdn_nmap {V W} (f : V -> W) (n : node V) : hdn (nmap f n) = hdn n.
Proof.
  induction n as [v|kd items IH|es IH] using node_ind'.
  - reflexivity.
  - rewrite nmap_tab, !hdn_tab. f_equal. unfold hdt, smap. induction IH as [|[k n] tl Hn _ IHl]; [reflexivity|].
    cbn [map existsb kmap snd] in *. rewrite Hn, IHl. reflexivity.
  - rewrite nmap_aot, !hdn_aot. induction IH as [|e tl He _ IHl]; [reflexivity|]. cbn [map existsb]. rewrite IHl. f_equal.
    unfold hdt, smap. induction He as [|[k n] tl' Hn _ IHl']; [reflexivity|]. cbn [map existsb kmap snd] in *. rewrite Hn, IHl'. reflexivity.
Qed.

Lemma hdt_smap {V W} (f : V -> W) (t : stree V) : hdt (smap f t) = hdt t.
Proof. unfold hdt, smap. induction t as [|[k n] tl IH]; [reflexivity|]. cbn [map existsb kmap snd]. rewrite hdn_nmap, IH. reflexivity. Qed.

Lemma sec_abs :
  (forall v : value, True)
  /\ (forall it, sec_item it = true -> hdn (abs_item it) = false)
  /\ (forall t, sec_tbl t = true -> hdt (abs_tbl t) = false).
Proof.
  apply tree_ind3; try (intros; exact I).
  - discriminate.
  - reflexivity.
  - intros t IH Hs. change (abs_item (ITable t)) with (NTab (kind_of t) (abs_tbl t)). rewrite hdn_tab, (IH Hs), orb_false_r.
    change (sec_item (ITable t)) with (sec_tbl t) in Hs. rewrite sec_tbl_eq in Hs. apply andb_true_iff in Hs as [Hd _].
    unfold kind_of. destruct (t_implicit t); [|reflexivity]. destruct (t_dotted t); [discriminate|reflexivity].
  - intros ts sp IH Hs. rewrite abs_item_aot, hdn_aot. rewrite sec_item_aot in Hs. rewrite forallb_forall in Hs.
    induction IH as [|t tl Ht _ IHl]; [reflexivity|]. cbn [map existsb]. rewrite (Ht (Hs t (or_introl eq_refl))). cbn [orb].
    apply IHl. intros x Hx. apply Hs. right. exact Hx.
  - intros items d im dt pos sp IH Hs. rewrite abs_tbl_eq. rewrite sec_tbl_eq in Hs. cbn [t_items t_dotted] in *. apply andb_true_iff in Hs as [_ Hi].
    rewrite forallb_forall in Hi. unfold hdt, abs_items. induction IH as [|[k it] tl Ht _ IHl]; [reflexivity|]. cbn [map existsb abs_kv snd] in *.
    rewrite (Ht (Hi _ (or_introl eq_refl))). cbn [orb]. apply IHl. intros x Hx. apply Hi. right. exact Hx.
Qed.

Lemma sec_doc_nodotted d : sec_doc d = true -> hdt (abs_doc d) = false.
Proof. intro H. unfold abs_doc. rewrite hdt_smap. apply (proj2 (proj2 sec_abs)), H. Qed.

Lemma sec_den l : forallb sec_s (map stmt_den l) = secl l.
Proof. unfold secl. induction l as [|st tl IH]; [reflexivity|]. cbn [map forallb]. rewrite IH. destruct st; reflexivity. Qed.

Lemma sec_doc_lines s d w t l o : parse_document s = POk d -> strip_bom s = w ++ t -> ws_tok w -> lines_text t l o ->
  sec_doc d = true -> secl l = true.
Proof.
  intros Hp Es Hw Hl Hf.
  assert (Ht : toml_text s l) by (unfold toml_text; rewrite Es; apply toml_tok_ws; [exact Hw|apply dlines_toml, (lines_dlines t l o Hl)]).
  destruct (parse_document_total s d l Hp Ht) as (_ & _ & Hc).
  rewrite <- sec_den. apply (code_run_nodotted _ _ Hc). apply sec_doc_nodotted, Hf.
Qed.

(* ---- the document ------------------------------------------------------------------------------------------------ *)
Theorem doc_render_sections s d : parse_document s = POk d ->
  exists w t l o, strip_bom s = w ++ t /\ ws_tok w /\ lines_text t l o
                  /\ (sec_doc d = true -> spelled s (doc_root d) = true -> render s d = w ++ o).
Proof.
  intro Hp. pose proof Hp as H. unfold parse_document, parse_all in H.
  destruct ((a <- document ;; eof ;;; ret a) (new_input s)) as [st i|e j|e j|x] eqn:E; try discriminate.
  destruct (finalize_table st) as [st'| |] eqn:Ef; try discriminate. injection H as Hd.
  apply bind_inv in E as (st0 & i0 & E & E'). apply bind_inv in E' as (u0 & i0' & _ & E'). apply ret_inv in E' as [-> _].
  rewrite document_unfold in E.
  apply bind_inv in E as (ob & i1 & Eb & E). apply bind_inv in E as (stw & i2 & Ew & E).
  apply bind_inv in E as (stl & i3 & El & E). apply bind_inv in E as (u & i4 & Ee & E).
  apply eof_inv in Ee as [-> Rend]. apply ret_inv in E as [-> ->].
  apply parse_ws_exact in Ew as (w0 & Hw0 & Sw & ->).
  assert (Sb : exists bm, splits (new_input s) bm i1 /\ strip_bom s = w0 ++ rest i2).
  { apply opt_inv in Eb as [(x & -> & Eb) | (-> & -> & (e & j & F))].
    - apply lit_inv in Eb as [_ Sb]. exists Document.bom. split; [exact Sb|]. destruct Sb as [R _]. cbn [new_input rest] in R.
      destruct (strip_bom_cases s) as [(r & Er & ->) | [Hn _]]; [|exfalso; apply (Hn _ R)].
      rewrite Er in R. apply app_inv_head in R. subst r. apply Sw.
    - exists []. split; [apply splits_nil|]. destruct (strip_bom_cases s) as [(r & Er & _) | [_ ->]].
      + exfalso. unfold lit in F. cbn [new_input rest] in F.
        destruct (strip_prefix Document.bom s) eqn:Q; [discriminate|].
        assert (Q' : strip_prefix Document.bom s = Some r) by (apply strip_prefix_spec; exact Er). congruence.
      + apply Sw. }
  destruct Sb as (bm & Sb & Es).
  destruct (isrc_splits s _ bm i1 (isrc_new s) Sb) as [Hi1 _]. destruct (isrc_splits s i1 w0 i2 Hi1 Sw) as [Hi2 _].
  destruct (doc_loop_render2 s _ _ _ _ _ Hi2 El) as (t & l & o & St & Hlt & Hi3 & Hok).
  assert (Et : rest i2 = t) by (destruct St as [Rt _]; rewrite Rend, app_nil_r in Rt; exact Rt).
  rewrite Et in Es. exists w0, t, l, o. split; [exact Es|]. split; [exact Hw0|]. split; [exact Hlt|]. intros Hf Hsp.
  pose proof (sec_doc_lines s d w0 t l o Hp Es Hw0 Hlt Hf) as Hfl.
  assert (HI0 : sinv s (on_ws state_new (pos i1, pos i2)) i2 [] i1 w0).
  { apply (si_root s _ _ _ _ _ [] []); [|reflexivity]. unfold rinv, on_ws, state_new. cbn [st_root st_path st_current st_trailing st_position map].
    split; [reflexivity|]. split; [reflexivity|]. split; [reflexivity|]. split; [eexists; reflexivity|]. split; [constructor|]. split; [constructor|]. auto. }
  destruct (Hok [] i1 w0 HI0 Hfl) as (out' & j0 & pend & HI' & Eo).
  destruct (sinv_finalize s stl i3 out' j0 pend st' HI' Ef) as (done & Est' & Hur & Hdec & Hpos & Hperm & (d0 & ds & Ed & Hd0 & Hds) & Hsort & _ & Eout & Htr & Hj0 & Spend).
  assert (Etr : st_trailing st' = Some (pos j0, pos i3)) by (rewrite Est'; cbn [DefsEquivSim.finalized st_trailing]; exact Htr).
  rewrite Etr in Hd. subst d. unfold sec_doc in Hf. cbn [doc_root] in *.
  unfold render. cbn [doc_root doc_trailing]. subst done.
  rewrite (sections_render s (st_root st') _ d0 ds Hf Hdec Hpos Hur Hperm Hd0 Hds Hsort Hsp).
  rewrite (span_prints s j0 pend i3 [] Hj0 Spend), Eout, Eo. cbn [app]. rewrite (ncr_ws w0 Hw0). reflexivity.
Qed.

(* C03, classes (a) + (b) + (c) *)
Theorem render_normalize_sections s d : parse_document s = POk d -> sec_doc d = true -> spelled s (doc_root d) = true ->
  render s d = normalize s.
Proof.
  intros Hp Hf Hsp. destruct (doc_render_sections s d Hp) as (w & t & l & o & Es & Hw & Hl & Hr).
  rewrite (Hr Hf Hsp). symmetry. apply (norm_lines s w t l o); [rewrite drop_bom_strip_bom; exact Es|exact Hw|exact Hl].
Qed.
