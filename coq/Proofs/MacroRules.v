(* Proofs/MacroRules.v — C19: which rule of toml_internal! fires on the inputs `tokens_of` produces, and
   with which bindings.  The key/value rules of the three states @toplevel / @table / @array are
   "prefix ++ TAIL ++ suffix ++ $($rest:tt)*" with the same fourteen TAILs in the same order
   (`tails`: two sign rules, the eleven date-time shapes, the catch-all `$v:tt`), so the question
   "which rule" is "which is the first tail that matches the value tokens" (`first_tail`), and that
   is decided by computation on the token skeleton of the value (symbolic literal contents). *)
From TV Require Import Base.Prelude Model.Macro Proofs.MacroMatch.

(* ---- the rule lists, regrouped ---- *)
Definition tails (mk_sign mk_dt : list tpl -> body) (generic : body) : list (list pat * body) :=
  [([P c_minus; V Vv], mk_sign [QGroup DParen [Q c_minus; QVar Vv]]);
   ([P c_plus; V Vv], mk_sign [QGroup DParen [QVar Vv]])]
  ++ List.map (fun s => (fst s, mk_dt (snd s))) dt_shapes ++ [([V Vv], generic)].

Definition top_tails := tails (fun v => BInvoke (top_again v)) (fun q => BInvoke (top_dt q)) (BInsert true top_next).
Definition tab_tails := tails (fun v => BInvoke (tab_again v)) (fun q => BInvoke (tab_dt q)) (BInsert false tab_next).
Definition arr_tails := tails (fun v => BInvoke (arr_again v)) (fun q => BInvoke (arr_dt q)) (BArrPush arr_next).

Definition rule_arrhdr : rule :=
  mkRule (pstate id_toplevel ++ [rootP; V Voldpath; PGroup DBracket [PGroup DBracket [keyP Vpath]]; starP Vrest]) BArrHeader.
Definition rule_tabhdr : rule :=
  mkRule (pstate id_toplevel ++ [rootP; V Voldpath; PGroup DBracket [keyP Vpath]; starP Vrest]) BTabHeader.
Definition rule_topdt : rule :=
  mkRule (pstate id_topleveldatetime ++ [rootP; pathG; keyP Vk; P c_eq; PGroup DParen [plusP Vdatetime]; starP Vrest])
         (BInsertDt true top_next).
Definition rule_tabdt : rule :=
  mkRule (pstate id_tabledatetime ++ [rootP; keyP Vk; P c_eq; PGroup DParen [starP Vdatetime]; starP Vrest])
         (BInsertDt false tab_next).
Definition rule_arrdt : rule :=
  mkRule (pstate id_arraydatetime ++ [rootP; PGroup DParen [starP Vdatetime]; starP Vrest]) (BArrPushDt arr_next).

Definition top_kv_rules : list rule := List.map (fun tb => mkRule (top_kv (fst tb)) (snd tb)) top_tails.
Definition tab_kv_rules : list rule := List.map (fun tb => mkRule (tab_kv (fst tb)) (snd tb)) tab_tails.
Definition arr_el_rules : list rule := List.map (fun tb => mkRule (arr_el (fst tb)) (snd tb)) arr_tails.

Lemma rules_toplevel_eq :
  rules_toplevel = [mkRule top_prefix BNothing] ++ top_kv_rules ++ [rule_arrhdr; rule_tabhdr; rule_topdt].
Proof. reflexivity. Qed.
Lemma rules_table_eq :
  rules_table = [mkRule (pstate id_table ++ [rootP]) BNothing] ++ tab_kv_rules ++ [rule_tabdt].
Proof. reflexivity. Qed.
Lemma rules_array_eq :
  rules_array = [mkRule (pstate id_array ++ [rootP]) BNothing] ++ arr_el_rules ++ [rule_arrdt].
Proof. reflexivity. Qed.

(* ---- the first tail that matches ---- *)
Fixpoint first_tail (sfx : list pat) (tls : list (list pat * body)) (Y : list tt) : option (body * env * list tt) :=
  match tls with
  | [] => None
  | (tl, b) :: more =>
    match seq_match match_pat (tl ++ sfx) Y with
    | Some (e, rest) => Some (b, e, rest)
    | None => first_tail sfx more Y
    end
  end.

(* ---- single patterns ---- *)
Lemma match_punct_same : forall c ts, match_pat (PPunct c) (TPunct c :: ts) = Some ([], ts).
Proof. intros. cbn [match_pat]. rewrite byte_eqb_refl. reflexivity. Qed.
Lemma match_ident_same : forall s ts, match_pat (PIdent s) (TIdent s :: ts) = Some ([], ts).
Proof. intros. cbn [match_pat]. rewrite bytes_eqb_refl. reflexivity. Qed.
Lemma match_root : forall r ts, ident_frag_ok r = true ->
  match_pat rootP (TIdent r :: ts) = Some ([(Vroot, BTT (TIdent r))], ts).
Proof. intros r ts H. unfold rootP. cbn [match_pat]. rewrite H. reflexivity. Qed.
Lemma match_tt : forall x t ts, match_pat (V x) (t :: ts) = Some ([(x, BTT t)], ts).
Proof. reflexivity. Qed.
Lemma match_group_star : forall d x ts R,
  match_pat (PGroup d [starP x]) (TGroup d ts :: R) = Some ([(x, tts_bnd ts)], R).
Proof.
  intros. cbn [match_pat]. replace (delim_beq d d) with true by (destruct d; reflexivity).
  rewrite seq_match_cons, match_star. reflexivity.
Qed.
Lemma match_group_plus : forall d x ts R, ts <> [] ->
  match_pat (PGroup d [plusP x]) (TGroup d ts :: R) = Some ([(x, tts_bnd ts)], R).
Proof.
  intros. cbn [match_pat]. replace (delim_beq d d) with true by (destruct d; reflexivity).
  rewrite seq_match_cons, match_plus by assumption. reflexivity.
Qed.

Lemma seq_tail_rest : forall tl sfx Y,
  seq_match match_pat ((tl ++ sfx) ++ [starP Vrest]) Y =
  match seq_match match_pat (tl ++ sfx) Y with
  | Some (e, rest) => Some (e ++ [(Vrest, tts_bnd rest)], [])
  | None => None
  end.
Proof.
  intros. rewrite seq_match_app. destruct (seq_match match_pat (tl ++ sfx) Y) as [[e rest]|]; [|reflexivity].
  rewrite seq_match_cons, match_star. reflexivity.
Qed.

(* ---- inputs ---- *)
Definition top_in (r : bytes) (pt : list tt) (X : list tt) : list tt :=
  TPunct c_at :: TIdent id_toplevel :: TIdent r :: TGroup DBracket pt :: X.
Definition st_in (st r : bytes) (X : list tt) : list tt := TPunct c_at :: TIdent st :: TIdent r :: X.

Definition segs_ok (segs : list (list tt)) : Prop := segs <> [] /\ Forall (fun s => s <> []) segs.

Definition E_top (r : bytes) (pt : list tt) (segs : list (list tt)) : env :=
  [(Vroot, BTT (TIdent r)); (Vpath, tts_bnd pt); (Vk, key_bnd segs)].
Definition E_tab (r : bytes) (segs : list (list tt)) : env :=
  [(Vroot, BTT (TIdent r)); (Vk, key_bnd segs)].
Definition E_arr (r : bytes) : env := [(Vroot, BTT (TIdent r))].

(* one key/value rule of @toplevel on `@toplevel r [pt] key = Y` *)
Lemma top_kv_rule : forall tl b r pt segs Y, ident_frag_ok r = true -> segs_ok segs ->
  match_rule (mkRule (top_kv tl) b) (top_in r pt (dot_join segs ++ TPunct c_eq :: Y)) =
  match seq_match match_pat (tl ++ []) Y with
  | Some (e, rest) => Some (E_top r pt segs ++ e ++ [(Vrest, tts_bnd rest)])
  | None => None
  end.
Proof.
  intros tl b r pt segs Y Hr [Hne Hall]. unfold match_rule, match_seq, top_in. cbn [r_head].
  unfold top_kv, top_prefix, pstate. cbn [app].
  rewrite seq_match_cons, match_punct_same. rewrite seq_match_cons, match_ident_same.
  rewrite seq_match_cons, (match_root r _ Hr). unfold pathG. rewrite seq_match_cons, match_group_star.
  rewrite seq_match_cons, (match_key Vk segs (TPunct c_eq :: Y) Hne Hall eq_refl eq_refl).
  rewrite seq_match_cons, match_punct_same.
  rewrite <- (app_nil_r tl) at 1. rewrite seq_tail_rest.
  destruct (seq_match match_pat (tl ++ []) Y) as [[e rest]|]; reflexivity.
Qed.

Lemma top_kv_rules_first : forall tls r pt segs Y, ident_frag_ok r = true -> segs_ok segs ->
  first_match (List.map (fun tb => mkRule (top_kv (fst tb)) (snd tb)) tls) (top_in r pt (dot_join segs ++ TPunct c_eq :: Y)) =
  match first_tail [] tls Y with
  | Some (b, e, rest) => Some (b, E_top r pt segs ++ e ++ [(Vrest, tts_bnd rest)])
  | None => None
  end.
Proof.
  induction tls as [|[tl b] tls IH]; intros r pt segs Y Hr Hs; [reflexivity|].
  cbn [List.map first_match first_tail fst snd]. rewrite (top_kv_rule tl b r pt segs Y Hr Hs).
  destruct (seq_match match_pat (tl ++ []) Y) as [[e rest]|]; [reflexivity|]. apply IH; assumption.
Qed.

(* one key/value rule of @table on `@table r key = Y` *)
Lemma tab_kv_rule : forall tl b r segs Y, ident_frag_ok r = true -> segs_ok segs ->
  match_rule (mkRule (tab_kv tl) b) (st_in id_table r (dot_join segs ++ TPunct c_eq :: Y)) =
  match seq_match match_pat (tl ++ [P c_comma]) Y with
  | Some (e, rest) => Some (E_tab r segs ++ e ++ [(Vrest, tts_bnd rest)])
  | None => None
  end.
Proof.
  intros tl b r segs Y Hr [Hne Hall]. unfold match_rule, match_seq, st_in. cbn [r_head].
  unfold tab_kv, pstate. cbn [app].
  rewrite seq_match_cons, match_punct_same. rewrite seq_match_cons, match_ident_same.
  rewrite seq_match_cons, (match_root r _ Hr).
  rewrite seq_match_cons, (match_key Vk segs (TPunct c_eq :: Y) Hne Hall eq_refl eq_refl).
  rewrite seq_match_cons, match_punct_same.
  change (tl ++ [P c_comma; starP Vrest]) with (tl ++ [P c_comma] ++ [starP Vrest]). rewrite app_assoc, seq_tail_rest.
  destruct (seq_match match_pat (tl ++ [P c_comma]) Y) as [[e rest]|]; reflexivity.
Qed.

Lemma tab_kv_rules_first : forall tls r segs Y, ident_frag_ok r = true -> segs_ok segs ->
  first_match (List.map (fun tb => mkRule (tab_kv (fst tb)) (snd tb)) tls) (st_in id_table r (dot_join segs ++ TPunct c_eq :: Y)) =
  match first_tail [P c_comma] tls Y with
  | Some (b, e, rest) => Some (b, E_tab r segs ++ e ++ [(Vrest, tts_bnd rest)])
  | None => None
  end.
Proof.
  induction tls as [|[tl b] tls IH]; intros r segs Y Hr Hs; [reflexivity|].
  cbn [List.map first_match first_tail fst snd]. rewrite (tab_kv_rule tl b r segs Y Hr Hs).
  destruct (seq_match match_pat (tl ++ [P c_comma]) Y) as [[e rest]|]; [reflexivity|]. apply IH; assumption.
Qed.

(* one element rule of @array on `@array r Y` *)
Lemma arr_el_rule : forall tl b r Y, ident_frag_ok r = true ->
  match_rule (mkRule (arr_el tl) b) (st_in id_array r Y) =
  match seq_match match_pat (tl ++ [P c_comma]) Y with
  | Some (e, rest) => Some (E_arr r ++ e ++ [(Vrest, tts_bnd rest)])
  | None => None
  end.
Proof.
  intros tl b r Y Hr. unfold match_rule, match_seq, st_in. cbn [r_head].
  unfold arr_el, pstate. cbn [app].
  rewrite seq_match_cons, match_punct_same. rewrite seq_match_cons, match_ident_same.
  rewrite seq_match_cons, (match_root r _ Hr).
  change (tl ++ [P c_comma; starP Vrest]) with (tl ++ [P c_comma] ++ [starP Vrest]). rewrite app_assoc, seq_tail_rest.
  destruct (seq_match match_pat (tl ++ [P c_comma]) Y) as [[e rest]|]; reflexivity.
Qed.

Lemma arr_el_rules_first : forall tls r Y, ident_frag_ok r = true ->
  first_match (List.map (fun tb => mkRule (arr_el (fst tb)) (snd tb)) tls) (st_in id_array r Y) =
  match first_tail [P c_comma] tls Y with
  | Some (b, e, rest) => Some (b, E_arr r ++ e ++ [(Vrest, tts_bnd rest)])
  | None => None
  end.
Proof.
  induction tls as [|[tl b] tls IH]; intros r Y Hr; [reflexivity|].
  cbn [List.map first_match first_tail fst snd]. rewrite (arr_el_rule tl b r Y Hr).
  destruct (seq_match match_pat (tl ++ [P c_comma]) Y) as [[e rest]|]; [reflexivity|]. apply IH; assumption.
Qed.

(* ---- rules of other states never match (decided on the state identifier) ---- *)
Lemma skip_top_for_value : forall X, first_match rules_toplevel (TPunct c_at :: TIdent id_value :: X) = None.
Proof. intro X. vm_compute. reflexivity. Qed.
Lemma skip_top_for_path : forall X, first_match rules_toplevel (TPunct c_at :: TIdent id_path :: X) = None.
Proof. intro X. vm_compute. reflexivity. Qed.
Lemma skip_for_table : forall X,
  first_match (rules_toplevel ++ rules_path_value) (TPunct c_at :: TIdent id_table :: X) = None.
Proof. intro X. vm_compute. reflexivity. Qed.
Lemma skip_for_tabledatetime : forall X,
  first_match (rules_toplevel ++ rules_path_value) (TPunct c_at :: TIdent id_tabledatetime :: X) = None.
Proof. intro X. vm_compute. reflexivity. Qed.
Lemma skip_for_array : forall X,
  first_match (rules_toplevel ++ rules_path_value ++ rules_table) (TPunct c_at :: TIdent id_array :: X) = None.
Proof. intro X. vm_compute. reflexivity. Qed.
Lemma skip_for_arraydatetime : forall X,
  first_match (rules_toplevel ++ rules_path_value ++ rules_table) (TPunct c_at :: TIdent id_arraydatetime :: X) = None.
Proof. intro X. vm_compute. reflexivity. Qed.
Lemma skip_for_trailingcomma : forall X,
  first_match (rules_toplevel ++ rules_path_value ++ rules_table ++ rules_array) (TPunct c_at :: TIdent id_trailingcomma :: X) = None.
Proof. intro X. vm_compute. reflexivity. Qed.
Lemma skip_kv_for_topdt : forall X,
  first_match ([mkRule top_prefix BNothing] ++ top_kv_rules ++ [rule_arrhdr; rule_tabhdr]) (TPunct c_at :: TIdent id_topleveldatetime :: X) = None.
Proof. intro X. vm_compute. reflexivity. Qed.
Lemma skip_kv_for_tabdt : forall X,
  first_match ([mkRule (pstate id_table ++ [rootP]) BNothing] ++ tab_kv_rules) (TPunct c_at :: TIdent id_tabledatetime :: X) = None.
Proof. intro X. vm_compute. reflexivity. Qed.
Lemma skip_el_for_arrdt : forall X,
  first_match ([mkRule (pstate id_array ++ [rootP]) BNothing] ++ arr_el_rules) (TPunct c_at :: TIdent id_arraydatetime :: X) = None.
Proof. intro X. vm_compute. reflexivity. Qed.

Lemma rules_split4 : rules = rules_toplevel ++ rules_path_value ++ rules_table ++ rules_array ++ rules_trailingcomma.
Proof. reflexivity. Qed.

(* ---- @toplevel: the whole rule list on a key/value statement ---- *)
Lemma top_base_rule_nonempty : forall r pt t X,
  match_rule (mkRule top_prefix BNothing) (top_in r pt (t :: X)) = None.
Proof.
  intros. unfold match_rule, match_seq, top_in. cbn [r_head]. unfold top_prefix, pstate. cbn [app].
  rewrite seq_match_cons, match_punct_same. rewrite seq_match_cons, match_ident_same.
  rewrite seq_match_cons. unfold rootP at 1. cbn [match_pat].
  destruct (ident_frag_ok r); [|reflexivity].
  unfold pathG. rewrite seq_match_cons, match_group_star. reflexivity.
Qed.

Lemma dash_join_head : forall t s, exists X, dash_join (t :: s) = t :: X.
Proof. intros t [|t2 s]; [exists []; reflexivity|rewrite dash_join_cons2; eexists; reflexivity]. Qed.

Lemma dot_join_head : forall segs, segs_ok segs -> exists t X, dot_join segs = t :: X.
Proof.
  intros [|s segs] [Hne Hall]; [contradiction|]. inversion Hall as [|? ? Hs _]; subst.
  destruct s as [|t s]; [contradiction|]. destruct (dash_join_head t s) as [X HX].
  destruct segs as [|s2 segs].
  - unfold dot_join. cbn [List.map join_tts]. rewrite HX. eauto.
  - rewrite dot_join_cons2, HX. cbn [app]. eauto.
Qed.

Theorem top_first_match_kv : forall r pt segs Y b e rest, ident_frag_ok r = true -> segs_ok segs ->
  first_tail [] top_tails Y = Some (b, e, rest) ->
  first_match rules (top_in r pt (dot_join segs ++ TPunct c_eq :: Y))
  = Some (b, E_top r pt segs ++ e ++ [(Vrest, tts_bnd rest)]).
Proof.
  intros r pt segs Y b e rest Hr Hs Ht. rewrite rules_split4, rules_toplevel_eq.
  rewrite <- !app_assoc. rewrite first_match_app.
  destruct (dot_join_head segs Hs) as [t [X HX]].
  assert (H0 : first_match [mkRule top_prefix BNothing] (top_in r pt (dot_join segs ++ TPunct c_eq :: Y)) = None).
  { rewrite HX. cbn [app first_match]. rewrite top_base_rule_nonempty. reflexivity. }
  rewrite H0. rewrite first_match_app. unfold top_kv_rules. rewrite (top_kv_rules_first top_tails r pt segs Y Hr Hs), Ht. reflexivity.
Qed.

(* ---- @table / @array: the whole rule list ---- *)
Theorem tab_first_match_kv : forall r segs Y b e rest, ident_frag_ok r = true -> segs_ok segs ->
  first_tail [P c_comma] tab_tails Y = Some (b, e, rest) ->
  first_match rules (st_in id_table r (dot_join segs ++ TPunct c_eq :: Y))
  = Some (b, E_tab r segs ++ e ++ [(Vrest, tts_bnd rest)]).
Proof.
  intros r segs Y b e rest Hr Hs Ht. rewrite rules_split4.
  rewrite (app_assoc rules_toplevel), first_match_app. unfold st_in. rewrite skip_for_table.
  rewrite first_match_app, rules_table_eq, first_match_app.
  destruct (dot_join_head segs Hs) as [t [X HX]].
  assert (H0 : first_match [mkRule (pstate id_table ++ [rootP]) BNothing]
                 (TPunct c_at :: TIdent id_table :: TIdent r :: dot_join segs ++ TPunct c_eq :: Y) = None).
  { rewrite HX. cbn [app first_match]. unfold match_rule, match_seq. cbn [r_head pstate app].
    rewrite seq_match_cons, match_punct_same. rewrite seq_match_cons, match_ident_same.
    rewrite seq_match_cons. unfold rootP. cbn [match_pat]. destruct (ident_frag_ok r); reflexivity. }
  rewrite H0. rewrite first_match_app. unfold tab_kv_rules.
  change (TPunct c_at :: TIdent id_table :: TIdent r :: dot_join segs ++ TPunct c_eq :: Y)
    with (st_in id_table r (dot_join segs ++ TPunct c_eq :: Y)).
  rewrite (tab_kv_rules_first tab_tails r segs Y Hr Hs), Ht. reflexivity.
Qed.

Theorem arr_first_match_el : forall r t Y b e rest, ident_frag_ok r = true ->
  first_tail [P c_comma] arr_tails (t :: Y) = Some (b, e, rest) ->
  first_match rules (st_in id_array r (t :: Y)) = Some (b, E_arr r ++ e ++ [(Vrest, tts_bnd rest)]).
Proof.
  intros r t Y b e rest Hr Ht. rewrite rules_split4.
  rewrite (app_assoc rules_toplevel), (app_assoc (rules_toplevel ++ rules_path_value)), first_match_app.
  rewrite <- app_assoc. unfold st_in. rewrite skip_for_array.
  rewrite first_match_app, rules_array_eq, first_match_app.
  assert (H0 : first_match [mkRule (pstate id_array ++ [rootP]) BNothing]
                 (TPunct c_at :: TIdent id_array :: TIdent r :: t :: Y) = None).
  { cbn [app first_match]. unfold match_rule, match_seq. cbn [r_head pstate app].
    rewrite seq_match_cons, match_punct_same. rewrite seq_match_cons, match_ident_same.
    rewrite seq_match_cons. unfold rootP. cbn [match_pat]. destruct (ident_frag_ok r); reflexivity. }
  rewrite H0. rewrite first_match_app. unfold arr_el_rules.
  change (TPunct c_at :: TIdent id_array :: TIdent r :: t :: Y) with (st_in id_array r (t :: Y)).
  rewrite (arr_el_rules_first arr_tails r (t :: Y) Hr), Ht. reflexivity.
Qed.

(* the base cases *)
Lemma top_first_match_end : forall r pt, ident_frag_ok r = true ->
  first_match rules (top_in r pt []) = Some (BNothing, [(Vroot, BTT (TIdent r)); (Vpath, tts_bnd pt)]).
Proof.
  intros r pt Hr. rewrite rules_split4. unfold rules_toplevel. cbn [app first_match].
  unfold match_rule, match_seq, top_in. cbn [r_head]. unfold top_prefix, pstate. cbn [app].
  rewrite seq_match_cons, match_punct_same. rewrite seq_match_cons, match_ident_same.
  rewrite seq_match_cons, (match_root r _ Hr). unfold pathG. rewrite seq_match_cons, match_group_star. reflexivity.
Qed.

Lemma tab_first_match_end : forall r, ident_frag_ok r = true ->
  first_match rules (st_in id_table r []) = Some (BNothing, [(Vroot, BTT (TIdent r))]).
Proof.
  intros r Hr. rewrite rules_split4. rewrite (app_assoc rules_toplevel), first_match_app. unfold st_in. rewrite skip_for_table.
  rewrite first_match_app. unfold rules_table. cbn [app first_match].
  unfold match_rule, match_seq. cbn [r_head pstate app].
  rewrite seq_match_cons, match_punct_same. rewrite seq_match_cons, match_ident_same.
  rewrite seq_match_cons, (match_root r _ Hr). reflexivity.
Qed.

Lemma arr_first_match_end : forall r, ident_frag_ok r = true ->
  first_match rules (st_in id_array r []) = Some (BNothing, [(Vroot, BTT (TIdent r))]).
Proof.
  intros r Hr. rewrite rules_split4.
  rewrite (app_assoc rules_toplevel), (app_assoc (rules_toplevel ++ rules_path_value)), first_match_app.
  rewrite <- app_assoc. unfold st_in. rewrite skip_for_array.
  rewrite first_match_app. unfold rules_array. cbn [app first_match].
  unfold match_rule, match_seq. cbn [r_head pstate app].
  rewrite seq_match_cons, match_punct_same. rewrite seq_match_cons, match_ident_same.
  rewrite seq_match_cons, (match_root r _ Hr). reflexivity.
Qed.
