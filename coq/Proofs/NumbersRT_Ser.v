(* Proofs/NumbersRT_Ser.v — C11, serde side: conversions that cannot be exact are errors, and a
   conversion that succeeds is the identity on the mathematical integer. *)
From TV Require Import Base.Prelude Model.SerNum.
Require Import Lia ZifyBool.

Lemma fits_i64_spec z : fits_i64 z = true <-> (- 2 ^ 63 <= z <= 2 ^ 63 - 1)%Z.
Proof. unfold fits_i64, i64_lo, i64_hi. lia. Qed.

(* output: beyond i64 -> Err, for every type and both serializers *)
Theorem ser_beyond_i64_err t z : in_ty t z = true -> fits_i64 z = false ->
  ser_int t z = None /\ tv_ser_int t z = None.
Proof.
  intros Ht Hz. unfold ser_int, tv_ser_int, serialize_u64, tv_serialize_u64, serialize_i128, serialize_u128.
  destruct t; cbn [ser_method_of]; try rewrite Hz; auto;
    (* the narrow and signed 64-bit types have no value beyond i64 *)
    exfalso; unfold in_ty, fits_i64, i64_lo, i64_hi in *; cbn [ty_min ty_max] in Ht; lia.
Qed.

Theorem serialize_u64_checked z : fits_i64 z = false -> serialize_u64 z = None /\ tv_serialize_u64 z = None.
Proof. intro H. unfold serialize_u64, tv_serialize_u64. rewrite H. auto. Qed.
Theorem serialize_128_err z : serialize_i128 z = None /\ serialize_u128 z = None.
Proof. auto. Qed.

(* a value of a narrow type (everything but u64/usize/i128/u128) always fits i64: widening is exact *)
Lemma narrow_fits t z : ser_method_of t = M_i64 -> in_ty t z = true -> fits_i64 z = true.
Proof.
  intros Hm Ht. unfold in_ty, fits_i64, i64_lo, i64_hi in *.
  destruct t; cbn [ser_method_of] in Hm; try discriminate; cbn [ty_min ty_max] in Ht; lia.
Qed.

(* output: what is written is the value itself, and it is an i64 *)
Theorem ser_exact t z v : in_ty t z = true -> ser_int t z = Some v -> v = z /\ fits_i64 v = true.
Proof.
  intro Ht. unfold ser_int, serialize_i64, serialize_u64, serialize_i128, serialize_u128.
  destruct (ser_method_of t) eqn:E; try discriminate.
  - intro H; injection H as <-. split; [reflexivity | apply (narrow_fits t z E Ht)].
  - destruct (fits_i64 z) eqn:F; [|discriminate]. intro H; injection H as <-. auto.
Qed.
Theorem tv_ser_exact t z v : in_ty t z = true -> tv_ser_int t z = Some v -> v = z /\ fits_i64 v = true.
Proof.
  intro Ht. unfold tv_ser_int, tv_serialize_u64.
  destruct (ser_method_of t) eqn:E; try discriminate.
  - intro H; injection H as <-. split; [reflexivity | apply (narrow_fits t z E Ht)].
  - destruct (fits_i64 z) eqn:F; [|discriminate]. intro H; injection H as <-. auto.
Qed.

(* input: outside the target width -> Err; inside -> the same integer *)
Theorem de_out_of_range_err t z : in_ty t z = false -> de_int t z = None.
Proof. intro H. unfold de_int, visit_i64. rewrite H. destruct (de_forwarded t); reflexivity. Qed.

Theorem de_exact t z v : de_int t z = Some v -> v = z /\ in_ty t z = true.
Proof.
  unfold de_int, visit_i64. destruct (de_forwarded t); [|discriminate].
  destruct (in_ty t z); [|discriminate]. intro H; injection H as <-. auto.
Qed.

Theorem de_in_range_ok t z : de_forwarded t = true -> in_ty t z = true -> de_int t z = Some z.
Proof. intros Hf Hr. unfold de_int, visit_i64. rewrite Hf, Hr. reflexivity. Qed.
