(* Proofs/BuiltRTLeaf.v — C06: every scalar the constructors accept prints as a token the value parser
   reads back as the same scalar, in front of anything that can follow a value in printed text
   (`,` `]` `}` newline, a blank before one of the closers, or the end of the text). *)
From TV Require Import Base.Prelude Base.Utf8 Base.Winnow Gen.Consts.
From TV Require Import Model.Trivia Model.Strings Model.Datetime Model.DatetimeStd Model.Numbers Model.Tree Model.Parse Model.Document.
From TV Require Import Model.Write Model.Encode Model.Build.
From TV Require Import Proofs.StringsRTDefs Proofs.StringsRTBase Proofs.StringsRTBasic Proofs.StringsRTTop.
From TV Require Import Proofs.NumbersRT_Lex Proofs.NumbersRT_Int Proofs.NumbersRT_Value.
From TV Require Import Proofs.BuiltRTBase Proofs.BuiltRTEncode Proofs.BuiltRTParse Proofs.BuiltRTKey Proofs.BuiltRTValue.
Require Import Lia ZifyBool ZifyN ZifyNat.

(* ---- what follows a number token ----------------------------------------------------------------------- *)
Definition nterm (r : bytes) : Prop :=
  match r with
  | [] => True
  | b :: r' =>
    is_digit b = false /\ byte_eqb underscore b = false /\ b <> dot /\ is_e b = false /\ b <> dash /\ b <> colon /\
    b <> x78 /\ b <> x6f /\ b <> x62 /\ b <> x54 /\ b <> x74 /\ b <> x5a /\ b <> x7a /\ b <> plus /\
    (b = x20 -> match r' with [] => True | c :: _ => is_digit c = false end)
  end.

Lemma vterm_nterm r : vterm r -> nterm r.
Proof.
  destruct r as [|b r']; [auto|]. cbn [vterm nterm].
  intros [[-> | [-> | ->]] | [-> | [-> Hc]]]; repeat split; try discriminate; try reflexivity.
  intros _. destruct Hc as (c & r2 & -> & [-> | [-> | ->]]); reflexivity.
Qed.

Lemma vterm_no_quote r : vterm r -> no_quote_head r.
Proof.
  destruct r as [|b r']; [auto|]. cbn [vterm no_quote_head].
  intros [[-> | [-> | ->]] | [-> | [-> _]]]; split; reflexivity.
Qed.

(* ---- value.rs on a scalar token: the span / decor bookkeeping -------------------------------------------- *)
Lemma value_step_scalar vr t r p d s :
  value_body vr (mkIn (t ++ r) p d) = Ok (scalar_value s) (after t r p d) ->
  exists v, value_step vr (mkIn (t ++ r) p d) = Ok v (after t r p d) /\ abs_value v = AScalar s.
Proof.
  intro H. unfold value_step, pmap, with_span. rewrite H. eexists. split; [reflexivity|].
  rewrite abs_apply_raw. reflexivity.
Qed.

Lemma leaf_intro ftext s :
  vhead (scalar_txt ftext s) ->
  (forall vr r p d, vterm r ->
     value_body vr (mkIn (scalar_txt ftext s ++ r) p d) = Ok (scalar_value s) (after (scalar_txt ftext s) r p d)) ->
  leaf_ok ftext s.
Proof.
  intros Hh H. split; [exact Hh|]. intros vr r d Hr p.
  destruct (value_step_scalar vr _ r p d s (H vr r p d Hr)) as (v & E & Ha).
  exists v, (p + N.of_nat (length (scalar_txt ftext s)))%N. split; [exact E|exact Ha].
Qed.

(* ---- strings (C10) ------------------------------------------------------------------------------------------ *)
Lemma leaf_string ftext s : utf8_valid_b s = true -> leaf_ok ftext (SString s).
Proof.
  intro Hu. cbn [scalar_txt scalar_default_repr]. unfold default_string_repr.
  assert (Hw : write_string StDefault s = Some (as_default s (vmetrics_of s))) by reflexivity.
  pose proof (quote_headed_token s (vmetrics_of s) StDefault _ Hw) as (b & t' & Et & Hb).
  apply leaf_intro; cbn [scalar_txt scalar_default_repr]; unfold default_string_repr.
  - rewrite Et. exists b, t'. split; [reflexivity|].
    apply orb_true_iff in Hb as [Hb | Hb]; apply byte_eqb_eq in Hb; subst b; repeat split.
  - intros vr r p d Hr.
    pose proof (value_styles_rt s StDefault _ r p d Hu Hw (vterm_no_quote r Hr)) as Hs.
    unfold value_body.
    assert (Hp : context (peek any) (mkIn (as_default s (vmetrics_of s) ++ r) p d)
                 = Ok b (mkIn (as_default s (vmetrics_of s) ++ r) p d)).
    { rewrite Et. cbn [app]. apply context_ok. eapply peek_ok. apply any_cons. }
    rewrite (bind_ok _ _ _ _ _ Hp). rewrite Hb. cbv beta iota. rewrite (pmap_ok _ _ _ _ _ Hs). reflexivity.
Qed.

(* ---- booleans ------------------------------------------------------------------------------------------------- *)
Lemma leaf_bool ftext b : leaf_ok ftext (SBool b).
Proof.
  apply leaf_intro.
  - destruct b; cbn; eexists; eexists; (split; [reflexivity|repeat split]).
  - intros vr r p d _. destruct b; reflexivity.
Qed.

(* ---- integers (C11) --------------------------------------------------------------------------------------------- *)
Lemma nterm_us_stop r : nterm r ->
  match r with [] => True | b :: _ => in_class DIGIT b = false /\ byte_eqb underscore b = false end.
Proof. destruct r as [|b r]; [auto|]. intros (H1 & H2 & _). rewrite DIGIT_is_digit. auto. Qed.

(* [-] digits in front of a number terminator: dec_int reads exactly the token *)
Lemma dec_int_len_ctx sgn ds r :
  (sgn = [] \/ sgn = [dash]) -> (proper_digits ds \/ ds = [x30]) -> nterm r ->
  dec_int_len ((sgn ++ ds) ++ r) = LOk (length (sgn ++ ds)).
Proof.
  intros Hs Hds Hr.
  assert (EB : dec_body_len (ds ++ r) = LOk (length ds)).
  { destruct Hds as [[Hall (d0 & tl & -> & Hd)] | ->].
    - cbn [forallb] in Hall. apply andb_true_iff in Hall as [Hd0 Htl]. cbn [app dec_body_len].
      assert (E19 : in_class DIGIT1_9 d0 = true).
      { unfold in_class, DIGIT1_9. cbn [existsb fst snd]. unfold is_digit in Hd0. lia. }
      rewrite E19. rewrite (us_tail_app (in_class DIGIT) r tl).
      + rewrite (us_tail_stop _ r (nterm_us_stop r Hr)). cbn [length]. f_equal. lia.
      + apply wf_tail_all. apply (forallb_impl is_digit); [|exact Htl]. intros x Hx. rewrite DIGIT_is_digit. exact Hx.
    - reflexivity. }
  destruct Hs as [-> | ->]; cbn [app].
  - unfold dec_int_len. destruct ds as [|b s].
    { destruct Hds as [[_ (? & ? & ? & _)] | ?]; discriminate. }
    cbn [app]. assert (Hb : is_digit b = true).
    { destruct Hds as [[Hall _] | E]; [cbn [forallb] in Hall; apply andb_true_iff in Hall; tauto | injection E as -> _; reflexivity]. }
    unfold is_sign. destruct (digit_not_sign _ Hb) as [-> ->]. exact EB.
  - unfold dec_int_len. change (is_sign dash) with true. cbv iota. rewrite EB. reflexivity.
Qed.

Lemma token_shape z :
  exists sgn ds, write_i64 z = sgn ++ ds /\ (sgn = [] \/ sgn = [dash]) /\ (proper_digits ds \/ ds = [x30]) /\
                 int_of 10 (sgn ++ ds) = (if in_i64 z then TmOk z else int_of 10 (sgn ++ ds)).
Proof.
  destruct (in_i64 z) eqn:Hz.
  2:{ destruct (write_i64_shape z) as [[_ ->] | (ds & Hp & [(_ & -> & _) | (_ & -> & _)])].
      - exists [], [x30]. auto.
      - exists [], ds. auto.
      - exists [dash], ds. auto. }
  destruct (write_i64_shape z) as [[-> ->] | (ds & Hp & H)].
  - exists [], [x30]. repeat split; auto.
  - pose proof Hp as [Hall (d0 & tl & Hds & Hd)].
    assert (Hne : ds <> []) by (rewrite Hds; discriminate).
    assert (Hnu : forallb not_us ds = true) by (apply (forallb_impl is_digit); [apply digit_not_us | exact Hall]).
    destruct H as [(Hpos & Hw & Hv) | (Hneg & Hw & Hv)].
    + exists [], ds. rewrite Hw. repeat split; auto. cbn [app]. unfold int_of.
      rewrite (remove_us_id _ Hnu), (i64_from_str_pos _ Hall Hne) by (rewrite Hv; exact Hz). rewrite Hv. reflexivity.
    + exists [dash], ds. rewrite Hw. repeat split; auto. unfold int_of.
      assert (Hnu' : forallb not_us ([dash] ++ ds) = true) by (cbn [app forallb]; rewrite Hnu; reflexivity).
      rewrite (remove_us_id _ Hnu'). cbn [app].
      rewrite (i64_from_str_neg _ Hall Hne) by (rewrite Hv; exact Hz). rewrite Hv. reflexivity.
Qed.

Lemma integer_is_dec i : 
  match rest i with
  | b :: c :: _ => b = x30 -> c <> x78 /\ c <> x6f /\ c <> x62
  | _ => True
  end -> integer i = and_then dec_int dec_conv i.
Proof.
  intro H. unfold integer. fold dec_conv.
  destruct (rest i) as [|b [|c tl]]; [reflexivity| |].
  - cbn [firstn bytes_eqb]. rewrite !andb_false_r. reflexivity.
  - cbn [firstn bytes_eqb]. rewrite !andb_true_r.
    destruct (byte_eqb b x30) eqn:E0; [|reflexivity]. apply byte_eqb_eq in E0. destruct (H E0) as (H1 & H2 & H3).
    cbn [andb].
    destruct (byte_eqb c x78) eqn:E1; [apply byte_eqb_eq in E1; contradiction|].
    destruct (byte_eqb c x6f) eqn:E2; [apply byte_eqb_eq in E2; contradiction|].
    destruct (byte_eqb c x62) eqn:E3; [apply byte_eqb_eq in E3; contradiction|]. reflexivity.
Qed.

Lemma integer_ctx z r p d :
  in_i64 z = true -> nterm r ->
  integer (mkIn (write_i64 z ++ r) p d) = Ok z (after (write_i64 z) r p d).
Proof.
  intros Hz Hr. destruct (token_shape z) as (sgn & ds & Ht & Hs & Hds & Hconv). rewrite Hz in Hconv.
  rewrite Ht. set (i := mkIn ((sgn ++ ds) ++ r) p d).
  rewrite integer_is_dec.
  2:{ unfold i. cbn [rest]. destruct Hs as [-> | ->]; cbn [app].
      - destruct Hds as [[Hall (d0 & tl & -> & Hd)] | ->]; cbn [app].
        + destruct (tl ++ r); [exact I|]. intro E. subst d0. discriminate Hd.
        + destruct r as [|c r']; [exact I|]. intros _. destruct Hr as (_ & _ & _ & _ & _ & _ & H1 & H2 & H3 & _). auto.
      - destruct (ds ++ r); [exact I|]. intro E. discriminate E. }
  unfold and_then.
  pose proof (dec_int_spec i) as L. unfold i in L at 1. cbn [rest] in L.
  rewrite (dec_int_len_ctx sgn ds r Hs Hds Hr) in L. rewrite L.
  unfold i at 1. cbn [rest]. rewrite firstn_app_exact. unfold dec_conv. rewrite Hconv.
  unfold i. rewrite advance_app. reflexivity.
Qed.

(* date_time and float backtrack on the integer token *)
Lemma int_not_dt_float z r p d : nterm r ->
  is_bt (date_time (mkIn (write_i64 z ++ r) p d)) /\ is_bt (float (mkIn (write_i64 z ++ r) p d)).
Proof.
  intro Hr. destruct (token_shape z) as (sgn & ds & Ht & Hs & Hds & _). rewrite Ht.
  assert (Hall : forallb is_digit ds = true /\ ds <> []).
  { destruct Hds as [[H (d0 & tl & -> & _)] | ->]; split; auto; discriminate. }
  destruct Hall as [Hall Hne].
  assert (Hnd : no_dt (ds ++ r)).
  { clear - Hall Hr. induction ds as [|b s IH]; cbn [app no_dt].
    - destruct r as [|b r']; [exact I|]. destruct Hr as (H1 & _ & _ & _ & H5 & H6 & _). cbn [no_dt]. rewrite H1. auto.
    - cbn [forallb] in Hall. apply andb_true_iff in Hall as [Hb Hs]. rewrite Hb. apply IH, Hs. }
  split.
  - apply date_time_bt0. cbn [rest]. destruct Hs as [-> | ->]; cbn [app].
    + unfold no_dt0. destruct ds as [|b s]; [contradiction|]. cbn [app]. cbn [forallb] in Hall.
      apply andb_true_iff in Hall as [Hb _]. rewrite Hb. cbn [app no_dt] in Hnd. rewrite Hb in Hnd. exact Hnd.
    + exact I.
  - apply float_bt.
    + apply (float__bt _ (length (sgn ++ ds))); cbn [rest]; [apply dec_int_len_ctx; assumption|].
      rewrite skipn_app_exact. destruct r as [|b r']; [exact I|]. destruct Hr as (_ & _ & H3 & H4 & _). auto.
    + apply special_float_bt. cbn [rest].
      assert (G : match ds ++ r with [] => True | c :: _ => c <> x69 /\ c <> x6e end).
      { destruct ds as [|c s]; [contradiction|]. cbn [app]. cbn [forallb] in Hall. apply andb_true_iff in Hall as [Hc _].
        split; intro E; subst c; discriminate Hc. }
      destruct Hs as [-> | ->]; cbn [app].
      * destruct ds as [|c s]; [contradiction|]. cbn [app] in *. cbn [forallb] in Hall. apply andb_true_iff in Hall as [Hc _].
        unfold is_sign. destruct (digit_not_sign _ Hc) as [-> ->]. exact G.
      * exact G.
Qed.

Lemma write_i64_head z : exists b tl, write_i64 z = b :: tl /\ num_start b = true.
Proof.
  destruct (token_shape z) as (sgn & ds & Ht & Hs & Hds & _). rewrite Ht.
  destruct Hs as [-> | ->]; cbn [app].
  - destruct Hds as [[Hall (d0 & tl & -> & _)] | ->].
    + exists d0, tl. split; [reflexivity|]. cbn [forallb] in Hall. apply andb_true_iff in Hall as [Hd _].
      unfold num_start. rewrite Hd. reflexivity.
    + exists x30, []. split; reflexivity.
  - exists dash, ds. split; reflexivity.
Qed.

Lemma num_start_vstart b : num_start b = true -> vstart b.
Proof.
  unfold num_start, is_sign, is_digit, vstart. intro H. pose proof (b2n_lt b).
  unfold plus, dash in H. byten. repeat split; lia.
Qed.

Lemma leaf_int ftext z : in_i64 z = true -> leaf_ok ftext (SInt z).
Proof.
  intro Hz. destruct (write_i64_head z) as (b & tl & Eh & Hb).
  apply leaf_intro; cbn [scalar_txt scalar_default_repr].
  - exists b, tl. split; [exact Eh|apply num_start_vstart, Hb].
  - intros vr r p d Hr. pose proof (vterm_nterm r Hr) as Hn.
    rewrite (value_body_number vr _ b (tl ++ r)); [|cbn [rest]; rewrite Eh; reflexivity|exact Hb].
    destruct (int_not_dt_float z r p d Hn) as [H1 H2].
    apply number_arm_int; [exact H1|exact H2|apply integer_ctx; assumption].
Qed.

(* ---- floats (C11; std's digit generation is outside: the tree holds the decimal the text denotes) ---------------- *)
From TV Require Import Proofs.NumbersRT_Float.

Lemma leaf_intro' ftext s :
  vhead (scalar_txt ftext s) ->
  (forall vr r p d, vterm r ->
     exists p', value_body vr (mkIn (scalar_txt ftext s ++ r) p d) = Ok (scalar_value s) (mkIn r p' d)) ->
  leaf_ok ftext s.
Proof.
  intros Hh H. split; [exact Hh|]. intros vr r d Hr p. destruct (H vr r p d Hr) as (p' & E).
  eexists. exists p'. unfold value_step, pmap, with_span. rewrite E. split; [reflexivity|].
  rewrite abs_apply_raw. reflexivity.
Qed.

(* zero_prefixable_int / frac / float_ in front of a number terminator *)
Lemma zpi_ctx i fp r :
  rest i = fp ++ r -> fp <> [] -> forallb is_digit fp = true -> nterm r ->
  zero_prefixable_int i = Ok fp (advance (length fp) i).
Proof.
  intros Hr Hne Hd Hn. unfold zero_prefixable_int, unchecked_utf8, digit.
  pose proof (digits_us_spec (in_class DIGIT) (in_class DIGIT) i) as H. rewrite Hr in H.
  destruct fp as [|f0 ftl]; [contradiction|]. cbn [app] in H.
  cbn [forallb] in Hd. apply andb_true_iff in Hd as [H0 Htl].
  rewrite DIGIT_is_digit, H0 in H.
  assert (Hcls : forallb (in_class DIGIT) ftl = true).
  { clear - Htl. induction ftl as [|c s IH]; [reflexivity|]. cbn [forallb] in *.
    apply andb_true_iff in Htl as [Hc Hs]. rewrite DIGIT_is_digit, Hc. apply IH, Hs. }
  rewrite (us_tail_app _ r _ (wf_tail_all _ _ Hcls)), (us_tail_stop _ r (nterm_us_stop r Hn)), Nat.add_0_r in H.
  rewrite (taken_ok _ _ _ _ H), Hr.
  change (S (length ftl)) with (length (f0 :: ftl)). rewrite firstn_app_exact.
  rewrite (ascii_utf8 (f0 :: ftl)); [reflexivity|].
  apply digits_ascii. cbn [forallb]. rewrite H0, Htl. reflexivity.
Qed.

Lemma frac_ctx i fp r :
  rest i = dot :: fp ++ r -> fp <> [] -> forallb is_digit fp = true -> nterm r ->
  frac i = Ok (dot :: fp) (advance (S (length fp)) i).
Proof.
  intros Hr Hne Hd Hn. unfold frac, unchecked_utf8.
  assert (T : taken (byte_ dot ;;; context (cut_err zero_prefixable_int)) i
              = Ok (firstn (S (length fp)) (rest i)) (advance (S (length fp)) i)).
  { apply taken_ok with (a := fp). unfold bind, byte_, one_of. rewrite Hr.
    change (byte_eqb dot dot) with true. cbv iota.
    unfold context, cut_err.
    rewrite (zpi_ctx (advance 1 i) fp r); [rewrite advance_advance; reflexivity | | exact Hne | exact Hd | exact Hn].
    rewrite rest_advance, Hr. reflexivity. }
  rewrite T, Hr. change (S (length fp)) with (length (dot :: fp)).
  change (dot :: fp ++ r) with ((dot :: fp) ++ r). rewrite firstn_app_exact.
  rewrite (ascii_utf8 (dot :: fp)); [reflexivity|].
  cbn [forallb]. rewrite (digits_ascii _ Hd). reflexivity.
Qed.

Lemma float__ctx pre fp r p d :
  dec_int_len ((pre ++ dot :: fp) ++ r) = LOk (length pre) ->
  fp <> [] -> forallb is_digit fp = true -> nterm r ->
  float_ (mkIn ((pre ++ dot :: fp) ++ r) p d) = Ok (pre ++ dot :: fp) (after (pre ++ dot :: fp) r p d).
Proof.
  intros EL Hne Hd Hn. set (t := pre ++ dot :: fp) in *. set (i := mkIn (t ++ r) p d).
  pose proof (dec_int_spec i) as L. change (rest i) with (t ++ r) in L. rewrite EL in L.
  pose proof (dec_int_len_ascii _ _ EL) as Hpre. unfold t in Hpre. rewrite <- !app_assoc, firstn_app_exact in Hpre.
  unfold float_, unchecked_utf8.
  assert (T : taken (dec_int ;;; (pvoid exp <|> (frac ;;; pvoid (opt exp)))) i
              = Ok (firstn (length t) (rest i)) (advance (length t) i)).
  { apply taken_ok with (a := tt). unfold bind at 1. rewrite L.
    set (j := advance (length pre) i).
    assert (Hj : rest j = dot :: fp ++ r).
    { unfold j. rewrite rest_advance. change (rest i) with (t ++ r). unfold t. rewrite <- app_assoc.
      rewrite skipn_app_exact. reflexivity. }
    unfold alt, pvoid at 1, pmap.
    rewrite exp_bt by (rewrite Hj; reflexivity).
    unfold bind. rewrite (frac_ctx j fp r Hj Hne Hd Hn).
    set (k := advance (S (length fp)) j).
    assert (Hk : rest k = r).
    { unfold k. rewrite rest_advance, Hj. change (S (length fp)) with (length (dot :: fp)).
      change (dot :: fp ++ r) with ((dot :: fp) ++ r). apply skipn_app_exact. }
    unfold pvoid, pmap, opt. rewrite exp_bt.
    2:{ rewrite Hk. destruct r as [|b r']; [exact I|]. destruct Hn as (_ & _ & _ & He & _). exact He. }
    unfold k, j. rewrite advance_advance. f_equal. f_equal. unfold t. rewrite app_length. reflexivity. }
  rewrite T. change (rest i) with (t ++ r). rewrite firstn_app_exact.
  rewrite (ascii_utf8 t).
  - unfold i. rewrite advance_app. reflexivity.
  - unfold t. rewrite forallb_app, Hpre. cbn [forallb]. rewrite (digits_ascii _ Hd). reflexivity.
Qed.

(* the shape of the positional text of a decimal *)
Lemma dec_value_zeros n s : dec_value (repeat x30 n ++ s) = dec_value s.
Proof.
  unfold dec_value. induction n as [|n IH]; [reflexivity|]. cbn [repeat app dec_value_acc]. exact IH.
Qed.

Lemma forallb_repeat {A} (f : A -> bool) x n : f x = true -> forallb f (repeat x n) = true.
Proof. intro H. induction n; [reflexivity|]. cbn [repeat forallb]. rewrite H. exact IHn. Qed.

Lemma forallb_skipn {A} (f : A -> bool) n l : forallb f l = true -> forallb f (skipn n l) = true.
Proof.
  revert l. induction n as [|n IH]; intros l H; [exact H|]. destruct l as [|x l]; [reflexivity|].
  cbn [forallb] in H. apply andb_true_iff in H as [_ H]. apply IH, H.
Qed.

Lemma float_text_dec neg m e : (e < 0)%Z ->
  exists ip fp, float_text (FDec neg m e) = (if neg then [dash] else []) ++ ip ++ dot :: fp /\
    (proper_digits ip \/ ip = [x30]) /\ forallb is_digit fp = true /\ fp <> [] /\
    dec_value (ip ++ fp) = m /\ (0 - Z.of_nat (length fp))%Z = e.
Proof.
  intro He. cbn [float_text]. destruct (write_N_good m) as (Gd & Gv & Gh).
  set (k := Z.to_nat (- e)). assert (Hk : 1 <= k) by lia.
  set (ds := write_N m) in *.
  set (ds' := repeat x30 (S k - length ds) ++ ds).
  assert (Hlen : length ds' = Nat.max (length ds) (S k)).
  { unfold ds'. rewrite app_length, repeat_length. lia. }
  assert (Hdig : forallb is_digit ds' = true).
  { unfold ds'. rewrite forallb_app, Gd, forallb_repeat; reflexivity. }
  exists (firstn (length ds' - k) ds'), (skipn (length ds' - k) ds').
  assert (Hfl : length (skipn (length ds' - k) ds') = k) by (rewrite skipn_length; lia).
  split; [reflexivity|]. split; [|split; [apply forallb_skipn, Hdig|split; [|split]]].
  - destruct (Nat.le_gt_cases (S k) (length ds)) as [Hge | Hlt].
    + left. assert (Epad : S k - length ds = 0) by lia.
      assert (Eds : ds' = ds) by (unfold ds'; rewrite Epad; reflexivity). rewrite Eds.
      assert (Hm : m <> 0%N).
      { intro E. unfold ds in Hge. rewrite E in Hge. change (write_N 0) with [x30] in Hge. cbn [length] in Hge. lia. }
      destruct (Gh Hm) as (d0 & tl & Eh & Hd0). fold ds in Eh. rewrite Eh.
      assert (Hpos : length (d0 :: tl) - k = S (length tl - k)).
      { rewrite Eh in Hge. cbn [length] in *. lia. }
      rewrite Hpos. cbn [firstn]. split.
      * rewrite Eh in Gd. cbn [forallb] in *. apply andb_true_iff in Gd as [G0 G1]. rewrite G0. cbn [andb].
        apply forallb_firstn, G1.
      * exists d0, (firstn (length tl - k) tl). split; [reflexivity|exact Hd0].
    + right. assert (Hn : S k - length ds = S (k - length ds)) by lia.
      rewrite Hlen. replace (Nat.max (length ds) (S k) - k) with 1 by lia.
      unfold ds'. rewrite Hn. reflexivity.
  - intro E. rewrite E in Hfl. cbn in Hfl. lia.
  - rewrite firstn_skipn. unfold ds'. rewrite dec_value_zeros. exact Gv.
  - rewrite Hfl. lia.
Qed.

Definition float_leaf (f : fval) : Prop :=
  match f with FDec _ m e => (e < 0)%Z /\ overflows m e = false | _ => True end.

Lemma no_dt_digits_dot ip rest_ : forallb is_digit ip = true -> no_dt (ip ++ dot :: rest_).
Proof.
  induction ip as [|b s IH]; cbn [app no_dt forallb]; intro H.
  - change (is_digit dot) with false. cbv iota. split; discriminate.
  - apply andb_true_iff in H as [Hb Hs]. rewrite Hb. apply IH, Hs.
Qed.

Lemma leaf_float f : float_leaf f -> leaf_ok float_text (SFloat f).
Proof.
  destruct f as [n|n|neg m e]; intro Hf.
  - (* nan / -nan *)
    apply leaf_intro'; [destruct n; cbn; eexists; eexists; (split; [reflexivity|repeat split])|].
    intros vr r p d _. destruct n; eexists; reflexivity.
  - (* inf / -inf *)
    apply leaf_intro'; [destruct n; cbn; eexists; eexists; (split; [reflexivity|repeat split])|].
    intros vr r p d _. destruct n; eexists; reflexivity.
  - destruct Hf as [He Ho].
    destruct (float_text_dec neg m e He) as (ip & fp & Et & Hip & Hfp & Hne & Hv & Hlen).
    destruct (ip_digits _ Hip) as [Hid Hine].
    assert (Hhead : exists b tl, float_text (FDec neg m e) = b :: tl /\ num_start b = true).
    { rewrite Et. destruct neg; cbn [app].
      - exists dash. eexists. split; reflexivity.
      - destruct ip as [|d0 tl]; [contradiction|]. exists d0. eexists. split; [reflexivity|].
        cbn [forallb] in Hid. apply andb_true_iff in Hid as [Hd _]. unfold num_start. rewrite Hd. reflexivity. }
    destruct Hhead as (b & tl & Eh & Hb).
    apply leaf_intro; cbn [scalar_txt].
    + exists b, tl. split; [exact Eh|apply num_start_vstart, Hb].
    + intros vr r p d Hr. pose proof (vterm_nterm r Hr) as Hn.
      rewrite (value_body_number vr _ b (tl ++ r)); [|cbn [rest]; rewrite Eh; reflexivity|exact Hb].
      apply number_arm_float.
      * apply date_time_bt0. cbn [rest]. rewrite Et. destruct neg; cbn [app]; [exact I|].
        unfold no_dt0. destruct ip as [|d0 tl0]; [contradiction|]. cbn [app].
        cbn [forallb] in Hid. apply andb_true_iff in Hid as [Hd Htl]. rewrite Hd.
        rewrite <- app_assoc. apply no_dt_digits_dot, Htl.
      * set (pre := (if neg then [dash] else []) ++ ip).
        assert (Et' : float_text (FDec neg m e) = pre ++ dot :: fp) by (rewrite Et; unfold pre; rewrite <- app_assoc; reflexivity).
        rewrite Et'.
        assert (EL : dec_int_len ((pre ++ dot :: fp) ++ r) = LOk (length pre)).
        { rewrite <- app_assoc. cbn [app]. apply (dec_int_len_plain neg ip (fp ++ r) Hip). }
        unfold float, context, alt, and_then. rewrite (float__ctx pre fp r p d EL Hne Hfp Hn).
        unfold float_of.
        assert (Hnu : forallb not_us (pre ++ dot :: fp) = true).
        { unfold pre. rewrite !forallb_app. cbn [forallb].
          rewrite (forallb_impl is_digit _ ip digit_not_us Hid), (forallb_impl is_digit _ fp digit_not_us Hfp).
          destruct neg; reflexivity. }
        rewrite (remove_us_id _ Hnu). unfold pre. rewrite <- app_assoc.
        rewrite (fdec_of_plain neg ip fp Hid Hine Hfp). rewrite Hv, Hlen, Ho. cbn [andb]. reflexivity.
Qed.
