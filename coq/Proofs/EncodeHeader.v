(* Proofs/EncodeHeader.v — the header printer after repo commit "fix: write a key's comments in front of the table header":
   when the leaf key's prefix decor is blank (always the case for keys the parser put into a header and for keys made
   by Key::new), the header is printed exactly as `encode_key_path` prints it and nothing is written in front of it. *)
From TV Require Import Base.Prelude Model.Tree Model.Encode.

Definition leaf_blank (ks : list key) : bool :=
  match rev ks with
  | [] => true
  | last :: _ => raw_blank (d_prefix (k_leaf last))
  end.

Lemma header_blank ks default : leaf_blank ks = true ->
  encode_header_key_path ks default = encode_key_path ks default /\ encode_key_comments ks = [].
Proof.
  unfold leaf_blank, encode_header_key_path, encode_key_path, encode_key_comments.
  destruct (rev ks) as [|last tl]; [auto|]. intro H. rewrite H. auto.
Qed.

Lemma leaf_blank_default ks : (forall k, In k ks -> d_prefix (k_leaf k) = None) -> leaf_blank ks = true.
Proof.
  intro H. unfold leaf_blank. destruct (rev ks) as [|last tl] eqn:E; [reflexivity|].
  rewrite (H last); [reflexivity|]. apply in_rev. rewrite E. left. reflexivity.
Qed.
