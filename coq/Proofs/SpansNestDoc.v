(* Proofs/SpansNestDoc.v — C14, nesting: every successfully parsed document satisfies `tnest`
   (Proofs/SpansDefs.v): values inside arrays / inline tables lie inside their container, keys and
   values of a table section inside the table's span, tables made of dotted keys cover their keys and
   values, elements of an array of tables lie inside the array's span. *)
From TV Require Import Base.Prelude Base.Utf8 Base.Winnow Gen.Consts Spec.Abnf.
From TV Require Import Model.Trivia Model.Strings Model.Datetime Model.Numbers Model.Tree Model.Parse Model.Document.
From TV Require Import Proofs.ConstsOk Proofs.NoPanicBase Proofs.NoPanicLex Proofs.NoPanicValue Proofs.NoPanicState Proofs.NoPanicDoc.
From TV Require Import Proofs.SpansDefs Proofs.SpansBase Proofs.SpansLex Proofs.SpansValue Proofs.SpansState Proofs.SpansDoc
                       Proofs.SpansExact Proofs.SpansNestLex Proofs.SpansNestInline Proofs.SpansNestValue Proofs.SpansNestState.
Require Import Lia ZifyBool ZifyN ZifyNat.

Definition st_ok (p : N) (st : pstate) : Prop := st_in p st /\ st_nest st.
Definition stP2 (q : pstate -> parser pstate) : Prop :=
  forall st i st' i', q st i = Ok st' i' -> st_ok (pos i) st -> st_ok (pos i') st'.

Lemma keyval_stP2 : stP2 keyval.
Proof.
  intros st i st' i' E [Hin Hn]. split; [eapply keyval_stP; eauto|].
  unfold keyval in E. apply try_map_ok in E as ([path [k v]] & E & G). apply lift_state_ok in G.
  rewrite parse_keyval_eq in E. apply bind_ok in E as (kp & j & E0 & E). apply bind_ok in E as ([[pre val] suf] & j' & E1 & E).
  destruct (pop_key kp) as [[path0 k0]|] eqn:P; [|discriminate]. apply ret_ok in E as [X ->]. inversion X; subst path k v. clear X.
  pose proof (key_chain _ _ _ E0) as Hch. rewrite (pop_key_app _ _ _ P) in Hch.
  unfold kv_rhs in E1. apply cut_err_ok in E1.
  apply bind_ok in E1 as (x0 & j0 & F0 & E1). apply bind_ok in E1 as (x1 & j1 & F1 & E1).
  apply bind_ok in E1 as (x2 & j2 & F2 & E1). apply bind_ok in E1 as (x3 & j3 & F3 & E1).
  apply ret_ok in E1 as [X ->]. inversion X; subst x1 x2 x3. clear X.
  pos_le F0. pos_le F1. destruct (value_exact _ _ _ F2) as (Sv & Lt & _).
  eapply (on_keyval_sp_nest (pos i) (pos i) (pos j) (pos j1) (pos j2)); [exact Hin|exact Hn|apply N.le_refl|exact Hch| | | | |exact G].
  - rewrite value_span_decorate. exact Sv.
  - lia.
  - lia.
  - rewrite vnest_decorate. eapply value_nest, F2.
Qed.

Lemma header_stP2 ia : stP2 (header ia).
Proof.
  intros st i st' i' E [Hin Hn]. split; [eapply header_stP; eauto|].
  rewrite header_eq in E. apply try_map_ok in E as ([[hd sp] t] & E & G).
  apply lift_state_ok in G. unfold header_syntax in E. cbv zeta in E. unfold pair_ in E.
  apply bind_ok in E as (a & j & E0 & E). apply bind_ok in E as (a0 & j0 & E1 & E).
  apply ret_ok in E as [X ->]. inversion X; subst a a0. clear X.
  apply with_span_ok in E0 as (S & E0). cbn [fst snd] in *. subst sp.
  eapply on_header_nest; [exact Hin|exact Hn|exact G].
Qed.

Lemma table_stP2 : stP2 table.
Proof.
  intros st i st' i' E Hst. unfold table in E. apply context_ok in E. apply bind_ok in E as (two & j & E0 & E).
  apply peek_ok in E0 as (-> & _). destruct (bytes_eqb _ _); eapply header_stP2; eauto.
Qed.

Lemma on_ws_stP2 {A} (p : parser A) : mono p -> stP2 (fun st => pmap (on_ws st) (span_ p)).
Proof.
  intros Mp st i st' i' E [Hin Hn]. split; [eapply (on_ws_stP p Mp); eauto|].
  apply pmap_ok in E as (sp & E & ->). apply st_nest_on_ws, Hn.
Qed.
Lemma parse_ws_stP2 : stP2 parse_ws. Proof. apply (on_ws_stP2 ws). np. Qed.
Lemma parse_newline_stP2 : stP2 parse_newline. Proof. apply (on_ws_stP2 newline). np. Qed.
Lemma parse_comment_stP2 : stP2 parse_comment. Proof. apply (on_ws_stP2 (comment ;;; context line_ending)). np. Qed.

Lemma doc_item_stP2 b : stP2 (fun st => doc_item st b).
Proof.
  intros st i st' i' E Hst. unfold doc_item in E.
  destruct (byte_eqb b COMMENT_START_SYMBOL); [apply cut_err_ok in E; eapply parse_comment_stP2; eauto|].
  destruct (byte_eqb b STD_TABLE_OPEN); [apply cut_err_ok in E; eapply table_stP2; eauto|].
  destruct (_ || _); [eapply parse_newline_stP2; eauto|]. apply cut_err_ok in E. eapply keyval_stP2; eauto.
Qed.

Lemma doc_line_stP2 : stP2 doc_line.
Proof.
  intros st i st' i' E Hst. rewrite doc_line_eq in E. apply bind_ok in E as (b & j & E0 & E).
  apply bind_ok in E as (st1 & j1 & E1 & E). apply peek_ok in E0 as (-> & _).
  eapply parse_ws_stP2; [exact E|]. eapply doc_item_stP2; eauto.
Qed.

Lemma doc_loop_ok : forall fuel st i st' i', doc_loop fuel st i = Ok st' i' -> st_ok (pos i) st -> st_ok (pos i') st'.
Proof.
  induction fuel as [|f IH]; intros st i st' i' H Hst; cbn [doc_loop] in H; [discriminate|].
  destruct (doc_line st i) as [s1 i1|? ?|? ?|?] eqn:E; try discriminate.
  - destruct (Nat.eqb _ _); [discriminate|]. eapply IH; [exact H|]. eapply doc_line_stP2; eauto.
  - inversion H; subst. exact Hst.
Qed.

Lemma document_ok i st i' : document i = Ok st i' -> st_ok (pos i') st.
Proof.
  intro E. split; [eapply document_in, E|]. rewrite document_eq in E.
  apply bind_ok in E as (o & j0 & E0 & E). apply bind_ok in E as (st0 & j1 & E1 & E).
  apply bind_ok in E as (st1 & j2 & E2 & E). apply bind_ok in E as (u & j3 & E3 & E). apply ret_ok in E as [-> ->].
  assert (S0 : st_ok (pos j0) state_new).
  { split; [eapply st_in_mono; [|apply st_in_new]; lia|apply st_nest_new]. }
  pose proof (parse_ws_stP2 _ _ _ _ E1 S0) as S1. apply (doc_loop_ok _ _ _ _ _ E2 S1).
Qed.

(* C14, nesting *)
Theorem parse_document_nest s d : parse_document s = POk d -> tnest (doc_root d) = true.
Proof.
  unfold parse_document. destruct (parse_all document s) as [fin| |] eqn:E; try discriminate.
  apply parse_all_done_eof in E as (i & E & R). apply document_ok in E as [Hin Hn].
  destruct (finalize_table fin) as [st'| |] eqn:F; try discriminate. intro H; inversion H; subst d. clear H.
  cbn [doc_root]. eapply tnestH_tnest, finalize_nest; eauto.
Qed.

(* what `tnest` says, spelled out for the two kinds of container *)
Lemma vnest_array_elem vals tr c d a b it :
  vnest (VArray vals tr c d (Some (a, b))) = true -> In it vals ->
  item_in a b it = true /\ inest it = true.
Proof.
  rewrite vnest_array. intros H Hin. apply andb_true_iff in H as [H1 H2]. apply andb_true_iff in H1 as [H1 _].
  rewrite forallb_forall in H1, H2. auto.
Qed.
Lemma tnest_value_entry items d im dt p a b k v :
  tnest (Tbl items d im dt p (Some (a, b))) = true -> In (k, IValue v) items ->
  kspan_in a b k = true /\ osp_in a b (value_span v) = true /\ vnest v = true.
Proof.
  intros H Hin.
  change (tnest (Tbl items d im dt p (Some (a, b)))) with
      ((negb dt || negb (ospan_none (Some (a, b))))
       && forallb (fun kv => match snd kv with
                             | INone => true
                             | IValue v => tn_value (Some (a, b)) (fst kv) v
                             | ITable sub => tnest sub
                             | IAot ts asp => aot_nest (map t_span ts) asp && forallb (fun e => negb (t_dotted e)) ts && forallb tnest ts
                             end) items) in H.
  apply andb_true_iff in H as [_ H]. rewrite forallb_forall in H. specialize (H _ Hin). cbn [snd fst] in H.
  unfold tn_value in H. apply andb_true_iff in H as [H1 H2]. apply andb_true_iff in H1 as [H1 H3]. auto.
Qed.

(* ---- a stronger reading that is false ------------------------------------------------------------------------ *)
(* "[t.a.q]\n[t]\na.b.y = 2\n[t.a]\nz = 1\n" *)
Definition dotted_outside_witness : bytes :=
  [x5b;x74;x2e;x61;x2e;x71;x5d;x0a; x5b;x74;x5d;x0a; x61;x2e;x62;x2e;x79;x20;x3d;x20;x32;x0a;
   x5b;x74;x2e;x61;x5d;x0a; x7a;x20;x3d;x20;x31;x0a].
Lemma dotted_inside_refuted :
  exists s d, parse_document s = POk d /\ dotted_inside (doc_root d) = false /\ tnest (doc_root d) = true.
Proof.
  exists dotted_outside_witness. destruct (parse_document dotted_outside_witness) as [d| |] eqn:E.
  - exists d. split; [reflexivity|]. revert E. vm_compute. intro E. inversion E; subst d. split; reflexivity.
  - exfalso. revert E. vm_compute. discriminate.
  - exfalso. revert E. vm_compute. discriminate.
Qed.
